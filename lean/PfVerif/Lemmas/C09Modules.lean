/-
  C09 — the no-arbitrage relations of Props/C09 for the Black–Scholes PRICING MODULES
  (Model/Acquire.lean: `BSModule`, built by `init` or `fromDerivative`, method `eval` = `modulePrice`).

  Props/C09 proves the relations for the functional forms of Model/BS.lean.  The property speaks of "every
  Black–Scholes pricing module and functional form"; with the refinement theorems of Lemmas/C07Acquire
  (`eval_plain_closed`, `eval_pathDep_closed`, `source_logMoneyness`, `source_maxLogMoneyness`,
  `source_timeToMaturity`, `source_volatility`) the module statements are corollaries.

  Setting: modules that read ONE simulated market `mk : Market ℝ` (one path: spot, volatility, dt, strike):
  `BuiltOn mod kind call mk` says that `mod` has this kind and call flag, the market's strike, and a
  simulated derivative written on `mk` (whatever that derivative's own flag is) — what `fromDerivative`
  and `init … (some d)` produce.  A cell is a time index `i` inside the path (`Live mk i`).  A method call
  may override any subset of its inputs (`g : Given ℝ`); the resolved inputs are
      `rS mk g i` = explicit log-moneyness, else the derivative's own `log (spot[i] / strike)`,
      `rM mk g i` = explicit running-max log-moneyness, else entry `i` of the cumulative maximum,
      `rT mk g i` = explicit time to maturity, else `(n−1)·dt − i·dt`,
      `rV mk g i` = explicit volatility, else `volatility[i]`
  (`own_state`, `resolved_plain`, `resolved_pathDep` tie these to `Deriv.source` / `BSModule.resolved`).
  Every relation is stated for every `g` that keeps `rT > 0`, `rV > 0`, as
      `∃ prices, module₁ … = .ok p₁ ∧ module₂ … = .ok p₂ ∧ relation` —
  no totalisation of errors enters a statement.

  On a derivative's own state the running maximum dominates the spot BY CONSTRUCTION (`ownM_ge_ownS`), so
  the hypothesis `s ≤ m` of `C09.american_binary_mem_Icc_of_le_max` is discharged there
  (`american_binary_mem_Icc_own`); in price units the own state is the spot `spot[i]` (`strike_mul_exp_ownS`)
  and the running maximum of the spot path (`strike_mul_exp_ownM`).

  Helper lemmas: `PfVerif.C09ModulesAux` (not listed by the audit).  No formula-level theorem was missing
  in Props/C09; the Aux namespace only holds list lemmas on `cummaxL` and `Except` plumbing.
-/
import PfVerif.Lemmas.C07Acquire
import PfVerif.Props.C09

set_option linter.unusedSectionVars false
set_option linter.unusedVariables false

namespace PfVerif.C09ModulesAux
open PfVerif PfVerif.C08Aux

/-! ### the cumulative maximum -/

theorem go_length (a : ℝ) : ∀ ys : List ℝ, (cummaxL.go a ys).length = ys.length
  | [] => rfl
  | y :: ys => by simp [cummaxL.go, go_length (max a y) ys]

theorem cummaxL_length : ∀ xs : List ℝ, (cummaxL xs).length = xs.length
  | [] => rfl
  | x :: xs => by simp [cummaxL, go_length]

/-- entry `i` of the running maximum started at `a` dominates `a` and the entries `0..i` -/
theorem go_ge (a : ℝ) (ys : List ℝ) (i : ℕ) (x : ℝ) (h : (cummaxL.go a ys)[i]? = some x) :
    a ≤ x ∧ ∀ j ≤ i, ∀ y, ys[j]? = some y → y ≤ x := by
  induction ys generalizing a i with
  | nil => simp [cummaxL.go] at h
  | cons y ys ih =>
    cases i with
    | zero =>
      simp only [cummaxL.go, List.getElem?_cons_zero, Option.some.injEq] at h
      subst h
      refine ⟨le_max_left _ _, ?_⟩
      intro j hj z hz
      obtain rfl : j = 0 := by omega
      simp only [List.getElem?_cons_zero, Option.some.injEq] at hz
      subst hz
      exact le_max_right _ _
    | succ i =>
      simp only [cummaxL.go, List.getElem?_cons_succ] at h
      obtain ⟨h1, h2⟩ := ih (max a y) i h
      refine ⟨le_trans (le_max_left _ _) h1, ?_⟩
      intro j hj z hz
      cases j with
      | zero =>
        simp only [List.getElem?_cons_zero, Option.some.injEq] at hz
        subst hz
        exact le_trans (le_max_right _ _) h1
      | succ j => exact h2 j (by omega) z (by simpa using hz)

/-- entry `i` of `cummax` dominates the entries `0..i` of the list -/
theorem cummaxL_ge (xs : List ℝ) (i : ℕ) (x : ℝ) (h : (cummaxL xs)[i]? = some x) :
    ∀ j ≤ i, ∀ y, xs[j]? = some y → y ≤ x := by
  cases xs with
  | nil => simp [cummaxL] at h
  | cons x0 xs =>
    cases i with
    | zero =>
      simp only [cummaxL, List.getElem?_cons_zero, Option.some.injEq] at h
      subst h
      intro j hj y hy
      obtain rfl : j = 0 := by omega
      simp only [List.getElem?_cons_zero, Option.some.injEq] at hy
      exact hy.ge
    | succ i =>
      simp only [cummaxL, List.getElem?_cons_succ] at h
      obtain ⟨h1, h2⟩ := go_ge x0 xs i x h
      intro j hj y hy
      cases j with
      | zero =>
        simp only [List.getElem?_cons_zero, Option.some.injEq] at hy
        subst hy
        exact h1
      | succ j => exact h2 j (by omega) y (by simpa using hy)

/-- `s ↦ log (s / K)` commutes with `max` on positive arguments -/
theorem logm_max {K a b : ℝ} (hK : 0 < K) (ha : 0 < a) (hb : 0 < b) :
    Real.log (max a b / K) = max (Real.log (a / K)) (Real.log (b / K)) := by
  rcases le_total a b with h | h
  · rw [max_eq_right h, max_eq_right (Real.log_le_log (div_pos ha hK)
      (div_le_div_of_nonneg_right h hK.le))]
  · rw [max_eq_left h, max_eq_left (Real.log_le_log (div_pos hb hK)
      (div_le_div_of_nonneg_right h hK.le))]

theorem go_map_logm {K : ℝ} (hK : 0 < K) : ∀ (a : ℝ) (ys : List ℝ), 0 < a → (∀ y ∈ ys, 0 < y) →
    cummaxL.go (Real.log (a / K)) (ys.map fun s => Real.log (s / K))
      = (cummaxL.go a ys).map fun s => Real.log (s / K)
  | a, [], _, _ => rfl
  | a, y :: ys, ha, hy => by
    have hy0 : 0 < y := hy y (List.mem_cons_self ..)
    simp only [List.map_cons, cummaxL.go, ← logm_max hK ha hy0]
    rw [go_map_logm hK (max a y) ys (lt_max_of_lt_left ha)
      (fun z hz => hy z (List.mem_cons_of_mem _ hz))]

/-- the running maximum of the log-moneyness path is the log-moneyness of the running maximum of the spot
path (positive spots, positive strike) -/
theorem cummaxL_map_logm {K : ℝ} (hK : 0 < K) : ∀ xs : List ℝ, (∀ x ∈ xs, 0 < x) →
    cummaxL (xs.map fun s => Real.log (s / K)) = (cummaxL xs).map fun s => Real.log (s / K)
  | [], _ => rfl
  | x :: xs, h => by
    simp only [List.map_cons, cummaxL]
    rw [go_map_logm hK x xs (h x (List.mem_cons_self ..))
      (fun z hz => h z (List.mem_cons_of_mem _ hz))]

/-! ### `Except` plumbing -/

theorem ok_val {r : Except Err ℝ} {x : ℝ} (h : r = .ok x) : liftErr r = .ok (val r) := by
  subst h; rfl

end PfVerif.C09ModulesAux

namespace PfVerif.C09Modules
open PfVerif PfVerif.C08Aux PfVerif.C09Aux PfVerif.C09ModulesAux PfVerif.C07Acquire Set

/-! ## modules reading one simulated market; the resolved inputs -/

/-- `mod` is a pricing module of kind `kind` with call flag `call`, the strike of the market `mk`, holding
a simulated derivative written on `mk` whose underlier has a volatility.  (The derivative's own call flag
is irrelevant: `BSEuropeanOption(call=False, strike=K, derivative=call_option)` is a put module.)
Generic in the scalar: used at `ℝ` here and at `XR` in Lemmas/C18Modules. -/
structure BuiltOn {α : Type} (mod : BSModule α) (kind : Kind) (call : Bool) (mk : Market α) : Prop where
  kind_eq : mod.kind = kind
  call_eq : mod.call = call
  strike_eq : mod.strike = mk.strike
  deriv : ∃ d, mod.derivative = some d ∧ d.market = mk ∧ d.simulated = true ∧ d.hasVol = true

/-- a cell of the path: a time index with a spot and a volatility entry -/
def Live {α : Type} (mk : Market α) (i : ℕ) : Prop := i < mk.spot.length ∧ i < mk.volatility.length

section Build
variable {α : Type} [Add α] [Sub α] [Mul α] [Div α] [Neg α] [OfNat α 0] [OfNat α 1] [OfNat α 2]
  [OfNat α 3] [LE α] [DecidableLE α] [LT α] [DecidableLT α] [Max α] [Min α] [NatCast α] [Transc α]
  {mod : BSModule α} {call : Bool}

/-- `BlackScholes(derivative)` / `from_derivative` is built on the derivative's market with the derivative's
flag (path-dependent kinds: calls only, a put is rejected at construction and builds nothing) -/
theorem builtOn_fromDerivative {kind : Kind} {d : Deriv α} (hs : d.simulated = true)
    (hv : d.hasVol = true) (h : BSModule.fromDerivative kind d = .ok mod) :
    BuiltOn mod kind d.call d.market := by
  obtain ⟨rfl, _⟩ := (fromDerivative_ok_iff kind d mod).1 h
  exact ⟨rfl, rfl, rfl, d, rfl, rfl, hs, hv⟩

/-- `BS…Option(call, strike = the derivative's strike, derivative)`: built on the derivative's market with
the flag GIVEN to the constructor -/
theorem builtOn_init {kind : Kind} {d : Deriv α} (hs : d.simulated = true) (hv : d.hasVol = true)
    (h : BSModule.init kind call d.market.strike (some d) = .ok mod) :
    BuiltOn mod kind call d.market := by
  have e : mod = ⟨kind, call, d.market.strike, some d⟩ := by
    unfold BSModule.init at h
    split at h
    · cases h
    · exact (Except.ok.inj h).symm
  subst e
  exact ⟨rfl, rfl, rfl, d, rfl, rfl, hs, hv⟩

end Build

/-- the derivative's own log-moneyness at step `i` -/
noncomputable def ownS (mk : Market ℝ) (i : ℕ) : ℝ := Real.log (mk.spot.getD i 0 / mk.strike)
/-- the derivative's own running-maximum log-moneyness at step `i` -/
noncomputable def ownM (mk : Market ℝ) (i : ℕ) : ℝ :=
  (cummaxL (mk.spot.map fun s => Real.log (s / mk.strike))).getD i 0
/-- the derivative's own time to maturity at step `i` of `n`: `(n−1)·dt − i·dt` -/
noncomputable def ownT (mk : Market ℝ) (i : ℕ) : ℝ :=
  ((mk.spot.length - 1 : ℕ) : ℝ) * mk.dt - (i : ℝ) * mk.dt
/-- the underlier's volatility at step `i` -/
noncomputable def ownV (mk : Market ℝ) (i : ℕ) : ℝ := mk.volatility.getD i 0

/-- resolved inputs of a method call with explicit inputs `g`: explicit wins, else the own state -/
noncomputable def rS (mk : Market ℝ) (g : Given ℝ) (i : ℕ) : ℝ := g.s.getD (ownS mk i)
noncomputable def rM (mk : Market ℝ) (g : Given ℝ) (i : ℕ) : ℝ := g.m.getD (ownM mk i)
noncomputable def rT (mk : Market ℝ) (g : Given ℝ) (i : ℕ) : ℝ := g.t.getD (ownT mk i)
noncomputable def rV (mk : Market ℝ) (g : Given ℝ) (i : ℕ) : ℝ := g.v.getD (ownV mk i)

section Setup
variable {mod : BSModule ℝ} {mk : Market ℝ} {call : Bool} {i : ℕ}

/-- the own state IS the derivative's state as `Deriv.source` reads it through the feature definitions of
Model/Hedger.lean (`source_logMoneyness`, `source_maxLogMoneyness`, `source_timeToMaturity`,
`source_volatility`) -/
theorem own_state {d : Deriv ℝ} (hs : d.simulated = true) (hv : d.hasVol = true)
    (hi : Live d.market i) :
    (d.source i).logMoneyness = .ok (ownS d.market i) ∧
    (d.source i).maxLogMoneyness = .ok (ownM d.market i) ∧
    (d.source i).timeToMaturity = .ok (ownT d.market i) ∧
    (d.source i).volatility = .ok (ownV d.market i) := by
  have hl : i < (cummaxL (d.market.spot.map fun s => Real.log (s / d.market.strike))).length := by
    rw [cummaxL_length, List.length_map]; exact hi.1
  refine ⟨?_, ?_, ?_, ?_⟩
  · rw [source_logMoneyness d i hs hi.1]
    simp [ownS, hi.1, Transc.log]
  · rw [source_maxLogMoneyness d i hs]
    simp only [Transc.log]
    rw [List.getElem?_eq_getElem hl]
    simp [ownM, hl]
  · rw [source_timeToMaturity d i hs hi.1]; rfl
  · rw [source_volatility d i hv hi.2]
    simp [ownV, hi.2]

private theorem acquire1_built {kind : Kind} (h : BuiltOn mod kind call mk) (hi : Live mk i) (g : Given ℝ) :
    acquire1 (mod.source i) g.s g.t g.v = .ok (rS mk g i, rT mk g i, rV mk g i) := by
  obtain ⟨d, hd, rfl, hs, hv⟩ := h.deriv
  obtain ⟨h1, _, h3, h4⟩ := own_state hs hv hi
  have hsrc : mod.source i = some (d.source i) := by simp [BSModule.source, hd]
  rw [hsrc, acquire1_ok_iff]
  refine ⟨?_, ?_, ?_⟩
  · cases hg : g.s <;> simp [resolve, rS, hg, h1]
  · cases hg : g.t <;> simp [resolve, rT, hg, h3]
  · cases hg : g.v <;> simp [resolve, rV, hg, h4]

private theorem acquire2_built {kind : Kind} (h : BuiltOn mod kind call mk) (hi : Live mk i) (g : Given ℝ) :
    acquire2 (mod.source i) g.s g.m g.t g.v = .ok (rS mk g i, rM mk g i, rT mk g i, rV mk g i) := by
  obtain ⟨d, hd, rfl, hs, hv⟩ := h.deriv
  obtain ⟨h1, h2, h3, h4⟩ := own_state hs hv hi
  have hsrc : mod.source i = some (d.source i) := by simp [BSModule.source, hd]
  rw [hsrc, acquire2_ok_iff]
  refine ⟨?_, ?_, ?_, ?_⟩
  · cases hg : g.s <;> simp [resolve, rS, hg, h1]
  · cases hg : g.m <;> simp [resolve, rM, hg, h2]
  · cases hg : g.t <;> simp [resolve, rT, hg, h3]
  · cases hg : g.v <;> simp [resolve, rV, hg, h4]

/-- European / European-binary module, any subset of overrides: the inputs the module resolves are
`[rS, rT, rV]` and its value is the functional form there with the market's strike -/
theorem eval_plain_built {k3 : Kind3} (h : BuiltOn mod (.plain k3) call mk) (hi : Live mk i)
    (what : Method) {g : Given ℝ} (hm : g.m = none) :
    mod.eval what g i = liftErr (k3.formula what call mk.strike (rS mk g i) (rT mk g i) (rV mk g i)) ∧
    mod.resolved g i = .ok [rS mk g i, rT mk g i, rV mk g i] := by
  have := eval_plain h.kind_eq what hm i (acquire1_built h hi g)
  rwa [h.call_eq, h.strike_eq] at this

/-- American-binary / lookback module, any subset of overrides -/
theorem eval_pathDep_built {k4 : Kind4} (h : BuiltOn mod (.pathDep k4) call mk) (hi : Live mk i)
    (what : Method) (g : Given ℝ) :
    mod.eval what g i
      = liftErr (k4.formula what mk.strike (rS mk g i) (rM mk g i) (rT mk g i) (rV mk g i)) ∧
    mod.resolved g i = .ok [rS mk g i, rM mk g i, rT mk g i, rV mk g i] := by
  have := eval_pathDep h.kind_eq what g i (acquire2_built h hi g)
  rwa [h.strike_eq] at this

end Setup

/-! ## the own state in price units; running maximum ≥ spot by construction -/
section OwnState
variable {mk : Market ℝ} {i : ℕ}

/-- on a derivative's own state the running maximum dominates the spot — by construction of the cumulative
maximum, with no assumption on the path (not even positivity) -/
theorem ownM_ge_ownS (hi : i < mk.spot.length) : ownS mk i ≤ ownM mk i := by
  have hl : i < (cummaxL (mk.spot.map fun s => Real.log (s / mk.strike))).length := by
    rw [cummaxL_length, List.length_map]; exact hi
  have h := cummaxL_ge (mk.spot.map fun s => Real.log (s / mk.strike)) i _
    (List.getElem?_eq_getElem hl) i le_rfl (Real.log (mk.spot[i] / mk.strike))
    (by simp [List.getElem?_map, List.getElem?_eq_getElem hi])
  simpa [ownS, ownM, hi, hl] using h

/-- … and every earlier log-moneyness of the path -/
theorem ownM_ge_earlier (hi : i < mk.spot.length) {j : ℕ} (hj : j ≤ i) :
    ownS mk j ≤ ownM mk i := by
  have hjl : j < mk.spot.length := lt_of_le_of_lt hj hi
  have hl : i < (cummaxL (mk.spot.map fun s => Real.log (s / mk.strike))).length := by
    rw [cummaxL_length, List.length_map]; exact hi
  have h := cummaxL_ge (mk.spot.map fun s => Real.log (s / mk.strike)) i _
    (List.getElem?_eq_getElem hl) j hj (Real.log (mk.spot[j] / mk.strike))
    (by simp [List.getElem?_map, List.getElem?_eq_getElem hjl])
  simpa [ownS, ownM, hjl, hl] using h

/-- once the path has reached the strike (`K ≤ spot[j]` at some step `j ≤ i`) the own running-maximum
log-moneyness is non-negative -/
theorem ownM_nonneg_of_reached (hK : 0 < mk.strike) (hi : i < mk.spot.length) {j : ℕ} (hj : j ≤ i)
    (hr : mk.strike ≤ mk.spot.getD j 0) : 0 ≤ ownM mk i := by
  refine le_trans ?_ (ownM_ge_earlier hi hj)
  exact Real.log_nonneg ((one_le_div hK).2 hr)

/-- the spot implied by the own log-moneyness is the spot: `K·exp (log (S_i/K)) = S_i` -/
theorem strike_mul_exp_ownS (hK : 0 < mk.strike) (hi : i < mk.spot.length) (hS : 0 < mk.spot[i]) :
    mk.strike * Real.exp (ownS mk i) = mk.spot[i] := by
  have e : mk.spot.getD i 0 = mk.spot[i] := by simp [hi]
  rw [ownS, e, Real.exp_log (div_pos hS hK)]
  field_simp

/-- the maximum implied by the own running-maximum log-moneyness is the running maximum of the spot path
(positive spots) -/
theorem strike_mul_exp_ownM (hK : 0 < mk.strike) (hi : i < mk.spot.length)
    (hpos : ∀ x ∈ mk.spot, 0 < x) :
    mk.strike * Real.exp (ownM mk i) = (cummaxL mk.spot).getD i 0 := by
  have hl : i < (cummaxL mk.spot).length := by rw [cummaxL_length]; exact hi
  have hM : 0 < (cummaxL mk.spot)[i] := by
    have := cummaxL_ge mk.spot i _ (List.getElem?_eq_getElem hl) i le_rfl mk.spot[i]
      (List.getElem?_eq_getElem hi)
    exact lt_of_lt_of_le (hpos _ (List.getElem_mem hi)) this
  have e : ownM mk i = Real.log ((cummaxL mk.spot)[i] / mk.strike) := by
    simp [ownM, cummaxL_map_logm hK mk.spot hpos, hl]
  have e2 : (cummaxL mk.spot).getD i 0 = (cummaxL mk.spot)[i] := by simp [hl]
  rw [e, e2, Real.exp_log (div_pos hM hK)]
  field_simp

end OwnState

/-! ## what each module quotes -/
section Quotes
variable {mod : BSModule ℝ} {mk : Market ℝ} {call : Bool} {i : ℕ}

/-- the European module quotes `bs_european_price` at the resolved inputs, with its own flag -/
theorem european_module_price (h : BuiltOn mod (.plain .european) call mk) (hi : Live mk i)
    {g : Given ℝ} (hm : g.m = none) :
    modulePrice mod g i
      = liftErr (bsEuropeanPrice (rS mk g i) (rT mk g i) (rV mk g i) mk.strike call) :=
  (eval_plain_built h hi .price hm).1

theorem binary_module_price (h : BuiltOn mod (.plain .binary) call mk) (hi : Live mk i)
    {g : Given ℝ} (hm : g.m = none) :
    modulePrice mod g i = liftErr (bsBinaryPrice (rS mk g i) (rT mk g i) (rV mk g i) call) :=
  (eval_plain_built h hi .price hm).1

theorem american_binary_module_price (h : BuiltOn mod (.pathDep .americanBinary) call mk)
    (hi : Live mk i) (g : Given ℝ) :
    modulePrice mod g i
      = liftErr (bsAmericanBinaryPrice (rS mk g i) (rM mk g i) (rT mk g i) (rV mk g i)) :=
  (eval_pathDep_built h hi .price g).1

theorem lookback_module_price (h : BuiltOn mod (.pathDep .lookback) call mk) (hi : Live mk i)
    (g : Given ℝ) :
    modulePrice mod g i
      = liftErr (bsLookbackPrice (rS mk g i) (rM mk g i) (rT mk g i) (rV mk g i) mk.strike) :=
  (eval_pathDep_built h hi .price g).1

end Quotes

end PfVerif.C09Modules

namespace PfVerif.C09ModulesAux
open PfVerif PfVerif.C08Aux PfVerif.C09Aux PfVerif.C09Modules

variable {mod : BSModule ℝ} {mk : Market ℝ} {call : Bool} {i : ℕ}

/-- on `t, v > 0` the quotes are values: `.ok` of the formula's value -/
theorem european_ok (h : BuiltOn mod (.plain .european) call mk) (hi : Live mk i)
    {g : Given ℝ} (hm : g.m = none) (ht : 0 < rT mk g i) (hv : 0 < rV mk g i) :
    modulePrice mod g i
      = .ok (val (bsEuropeanPrice (rS mk g i) (rT mk g i) (rV mk g i) mk.strike call)) := by
  rw [european_module_price h hi hm]
  exact ok_val (european_price_ok ht hv _ _ _)

theorem binary_ok (h : BuiltOn mod (.plain .binary) call mk) (hi : Live mk i)
    {g : Given ℝ} (hm : g.m = none) (ht : 0 < rT mk g i) (hv : 0 < rV mk g i) :
    modulePrice mod g i = .ok (val (bsBinaryPrice (rS mk g i) (rT mk g i) (rV mk g i) call)) := by
  rw [binary_module_price h hi hm]
  exact ok_val (binary_price_ok ht hv _ _)

theorem american_ok (h : BuiltOn mod (.pathDep .americanBinary) call mk) (hi : Live mk i)
    (g : Given ℝ) (ht : 0 < rT mk g i) (hv : 0 < rV mk g i) :
    modulePrice mod g i
      = .ok (val (bsAmericanBinaryPrice (rS mk g i) (rM mk g i) (rT mk g i) (rV mk g i))) := by
  rw [american_binary_module_price h hi g]
  exact ok_val (american_price_ok ht hv _ _)

theorem lookback_ok (h : BuiltOn mod (.pathDep .lookback) call mk) (hi : Live mk i)
    (g : Given ℝ) (ht : 0 < rT mk g i) (hv : 0 < rV mk g i) :
    modulePrice mod g i
      = .ok (val (bsLookbackPrice (rS mk g i) (rM mk g i) (rT mk g i) (rV mk g i) mk.strike)) := by
  rw [lookback_module_price h hi g]
  exact ok_val (lookback_price_ok ht hv _ _ _)

end PfVerif.C09ModulesAux

namespace PfVerif.C09Modules
open PfVerif PfVerif.C08Aux PfVerif.C09Aux PfVerif.C09ModulesAux PfVerif.C07Acquire Set

variable {mk : Market ℝ} {i : ℕ}

/-! ## parities -/

/-- European call module − European put module = (implied spot) − strike, for every set of overrides that
keeps `t, v > 0`; the implied spot is `K·exp(rS)` … -/
theorem put_call_parity {mc mp : BSModule ℝ} (hc : BuiltOn mc (.plain .european) true mk)
    (hp : BuiltOn mp (.plain .european) false mk) (hi : Live mk i) {g : Given ℝ} (hm : g.m = none)
    (ht : 0 < rT mk g i) (hv : 0 < rV mk g i) :
    ∃ c p, modulePrice mc g i = .ok c ∧ modulePrice mp g i = .ok p ∧
      c - p = mk.strike * Real.exp (rS mk g i) - mk.strike :=
  ⟨_, _, european_ok hc hi hm ht hv, european_ok hp hi hm ht hv, C09.put_call_parity _ _ ht hv⟩

/-- … which is the derivative's own spot `spot[i]` when the log-moneyness is not overridden
(`source_logMoneyness`): call − put = S_i − K -/
theorem put_call_parity_own_spot {mc mp : BSModule ℝ} (hc : BuiltOn mc (.plain .european) true mk)
    (hp : BuiltOn mp (.plain .european) false mk) (hi : Live mk i) {g : Given ℝ} (hm : g.m = none)
    (hs : g.s = none) (ht : 0 < rT mk g i) (hv : 0 < rV mk g i) (hK : 0 < mk.strike)
    (hS : 0 < mk.spot[i]'hi.1) :
    ∃ c p, modulePrice mc g i = .ok c ∧ modulePrice mp g i = .ok p ∧
      c - p = mk.spot[i]'hi.1 - mk.strike := by
  obtain ⟨c, p, h1, h2, h3⟩ := put_call_parity hc hp hi hm ht hv
  refine ⟨c, p, h1, h2, ?_⟩
  rw [h3, rS, hs, Option.getD_none, strike_mul_exp_ownS hK hi.1 hS]

/-- binary call module + binary put module = 1 -/
theorem binary_parity {mc mp : BSModule ℝ} (hc : BuiltOn mc (.plain .binary) true mk)
    (hp : BuiltOn mp (.plain .binary) false mk) (hi : Live mk i) {g : Given ℝ} (hm : g.m = none)
    (ht : 0 < rT mk g i) (hv : 0 < rV mk g i) :
    ∃ c p, modulePrice mc g i = .ok c ∧ modulePrice mp g i = .ok p ∧ c + p = 1 :=
  ⟨_, _, binary_ok hc hi hm ht hv, binary_ok hp hi hm ht hv, C09.binary_parity _ ht hv⟩

/-! ## bounds -/

/-- intrinsic value ≤ European call module ≤ implied spot -/
theorem call_bounds {mc : BSModule ℝ} (hc : BuiltOn mc (.plain .european) true mk) (hi : Live mk i)
    {g : Given ℝ} (hm : g.m = none) (ht : 0 < rT mk g i) (hv : 0 < rV mk g i) (hK : 0 < mk.strike) :
    ∃ c, modulePrice mc g i = .ok c ∧
      max (mk.strike * Real.exp (rS mk g i) - mk.strike) 0 ≤ c ∧
      c ≤ mk.strike * Real.exp (rS mk g i) :=
  ⟨_, european_ok hc hi hm ht hv, C09.call_ge_intrinsic _ hK ht hv, C09.call_le_spot _ hK ht hv⟩

/-- on the derivative's own spot: `max(S_i − K, 0) ≤ call ≤ S_i` -/
theorem call_bounds_own_spot {mc : BSModule ℝ} (hc : BuiltOn mc (.plain .european) true mk)
    (hi : Live mk i) {g : Given ℝ} (hm : g.m = none) (hs : g.s = none) (ht : 0 < rT mk g i)
    (hv : 0 < rV mk g i) (hK : 0 < mk.strike) (hS : 0 < mk.spot[i]'hi.1) :
    ∃ c, modulePrice mc g i = .ok c ∧
      max (mk.spot[i]'hi.1 - mk.strike) 0 ≤ c ∧ c ≤ mk.spot[i]'hi.1 := by
  obtain ⟨c, h1, h2, h3⟩ := call_bounds hc hi hm ht hv hK
  rw [rS, hs, Option.getD_none, strike_mul_exp_ownS hK hi.1 hS] at h2 h3
  exact ⟨c, h1, h2, h3⟩

/-- the European put module is non-negative -/
theorem put_nonneg {mp : BSModule ℝ} (hp : BuiltOn mp (.plain .european) false mk) (hi : Live mk i)
    {g : Given ℝ} (hm : g.m = none) (ht : 0 < rT mk g i) (hv : 0 < rV mk g i) (hK : 0 < mk.strike) :
    ∃ p, modulePrice mp g i = .ok p ∧ 0 ≤ p :=
  ⟨_, european_ok hp hi hm ht hv, C09.put_nonneg _ hK ht hv⟩

/-- European binary modules (call and put) quote in [0, 1] -/
theorem binary_mem_Icc {mb : BSModule ℝ} {call : Bool} (hb : BuiltOn mb (.plain .binary) call mk)
    (hi : Live mk i) {g : Given ℝ} (hm : g.m = none) (ht : 0 < rT mk g i) (hv : 0 < rV mk g i) :
    ∃ b, modulePrice mb g i = .ok b ∧ 0 ≤ b ∧ b ≤ 1 :=
  ⟨_, binary_ok hb hi hm ht hv, C09.binary_mem_Icc _ ht hv call⟩

/-- the American binary module quotes in [0, 1] whenever the resolved inputs are consistent
(`rS ≤ rM`: needed when log-moneyness or running maximum is overridden, see
`C09.american_binary_gt_one_off_domain`) … -/
theorem american_binary_mem_Icc {ma : BSModule ℝ} {call : Bool}
    (ha : BuiltOn ma (.pathDep .americanBinary) call mk) (hi : Live mk i) (g : Given ℝ)
    (hsm : rS mk g i ≤ rM mk g i) (ht : 0 < rT mk g i) (hv : 0 < rV mk g i) :
    ∃ a, modulePrice ma g i = .ok a ∧ 0 ≤ a ∧ a ≤ 1 :=
  ⟨_, american_ok ha hi g ht hv, C09.american_binary_mem_Icc_of_le_max hsm ht hv⟩

/-- … and on the derivative's own log-moneyness and running maximum that hypothesis holds by
construction: no condition on the path is left (time / volatility may still be overridden) -/
theorem american_binary_mem_Icc_own {ma : BSModule ℝ} {call : Bool}
    (ha : BuiltOn ma (.pathDep .americanBinary) call mk) (hi : Live mk i) {g : Given ℝ}
    (hs : g.s = none) (hm : g.m = none) (ht : 0 < rT mk g i) (hv : 0 < rV mk g i) :
    ∃ a, modulePrice ma g i = .ok a ∧ 0 ≤ a ∧ a ≤ 1 := by
  refine american_binary_mem_Icc ha hi g ?_ ht hv
  rw [rS, rM, hs, hm]
  exact ownM_ge_ownS hi.1

/-! ## dominance -/

/-- American binary module ≥ European binary call module (any overrides, the same for both) -/
theorem american_ge_european_binary {ma mb : BSModule ℝ} {call : Bool}
    (ha : BuiltOn ma (.pathDep .americanBinary) call mk) (hb : BuiltOn mb (.plain .binary) true mk)
    (hi : Live mk i) (g : Given ℝ) (ht : 0 < rT mk g i) (hv : 0 < rV mk g i) :
    ∃ a b, modulePrice ma g i = .ok a ∧ modulePrice mb { g with m := none } i = .ok b ∧ b ≤ a :=
  ⟨_, _, american_ok ha hi g ht hv, binary_ok (g := { g with m := none }) hb hi rfl ht hv,
    C09.american_ge_european_binary _ _ ht hv⟩

/-- the American binary module quotes exactly one once the derivative's OWN path has reached the strike
(`K ≤ spot[j]` at some step `j ≤ i`), whatever log-moneyness / time / volatility is passed -/
theorem american_one_after_hit {ma : BSModule ℝ} {call : Bool}
    (ha : BuiltOn ma (.pathDep .americanBinary) call mk) (hi : Live mk i) {g : Given ℝ}
    (hm : g.m = none) (ht : 0 < rT mk g i) (hv : 0 < rV mk g i) (hK : 0 < mk.strike) {j : ℕ}
    (hj : j ≤ i) (hr : mk.strike ≤ mk.spot.getD j 0) :
    modulePrice ma g i = .ok 1 := by
  rw [american_binary_module_price ha hi g,
    C09.american_binary_one_after_hit _ ht hv (by
      rw [rM, hm]; exact ownM_nonneg_of_reached hK hi.1 hj hr)]
  rfl

/-- … and with an overridden running maximum at or above the strike -/
theorem american_one_after_hit_given {ma : BSModule ℝ} {call : Bool}
    (ha : BuiltOn ma (.pathDep .americanBinary) call mk) (hi : Live mk i) (g : Given ℝ)
    (hm : 0 ≤ rM mk g i) (ht : 0 < rT mk g i) (hv : 0 < rV mk g i) :
    modulePrice ma g i = .ok 1 := by
  rw [american_binary_module_price ha hi g, C09.american_binary_one_after_hit _ ht hv hm]
  rfl

/-- lookback module ≥ European call module (any overrides, the same for both) -/
theorem lookback_ge_european {ml mc : BSModule ℝ} {call : Bool}
    (hl : BuiltOn ml (.pathDep .lookback) call mk) (hc : BuiltOn mc (.plain .european) true mk)
    (hi : Live mk i) (g : Given ℝ) (ht : 0 < rT mk g i) (hv : 0 < rV mk g i) (hK : 0 < mk.strike) :
    ∃ l c, modulePrice ml g i = .ok l ∧ modulePrice mc { g with m := none } i = .ok c ∧ c ≤ l :=
  ⟨_, _, lookback_ok hl hi g ht hv, european_ok (g := { g with m := none }) hc hi rfl ht hv,
    C09.lookback_ge_european hK ht hv _ _⟩

/-- lookback module ≥ locked-in payoff `max(K·exp(rM) − K, 0)` -/
theorem lookback_ge_locked_in {ml : BSModule ℝ} {call : Bool}
    (hl : BuiltOn ml (.pathDep .lookback) call mk) (hi : Live mk i) (g : Given ℝ)
    (ht : 0 < rT mk g i) (hv : 0 < rV mk g i) (hK : 0 < mk.strike) :
    ∃ l, modulePrice ml g i = .ok l ∧ max (mk.strike * Real.exp (rM mk g i) - mk.strike) 0 ≤ l :=
  ⟨_, lookback_ok hl hi g ht hv, C09.lookback_ge_locked_in_max hK ht hv _ _⟩

/-- on the derivative's own running maximum `M_i = max_{j ≤ i} spot[j]` (`source_maxLogMoneyness`;
positive spots): lookback ≥ `max(M_i − K, 0)` -/
theorem lookback_ge_locked_in_own_max {ml : BSModule ℝ} {call : Bool}
    (hl : BuiltOn ml (.pathDep .lookback) call mk) (hi : Live mk i) {g : Given ℝ} (hm : g.m = none)
    (ht : 0 < rT mk g i) (hv : 0 < rV mk g i) (hK : 0 < mk.strike) (hpos : ∀ x ∈ mk.spot, 0 < x) :
    ∃ l, modulePrice ml g i = .ok l ∧ max ((cummaxL mk.spot).getD i 0 - mk.strike) 0 ≤ l := by
  obtain ⟨l, h1, h2⟩ := lookback_ge_locked_in hl hi g ht hv hK
  rw [rM, hm, Option.getD_none, strike_mul_exp_ownM hK hi.1 hpos] at h2
  exact ⟨l, h1, h2⟩

/-! ## monotonicity and convexity of the European call module along overrides -/

section Mono
variable {mc : BSModule ℝ}

/-- strictly increasing in an overridden log-moneyness (time / volatility from the derivative or
overridden) -/
theorem call_mono_logMoneyness (hc : BuiltOn mc (.plain .european) true mk) (hi : Live mk i)
    {g : Given ℝ} (hm : g.m = none) (ht : 0 < rT mk g i) (hv : 0 < rV mk g i) (hK : 0 < mk.strike)
    {s₁ s₂ : ℝ} (h : s₁ < s₂) :
    ∃ p₁ p₂, modulePrice mc { g with s := some s₁ } i = .ok p₁ ∧
      modulePrice mc { g with s := some s₂ } i = .ok p₂ ∧ p₁ < p₂ :=
  ⟨_, _, european_ok (g := { g with s := some s₁ }) hc hi hm ht hv,
    european_ok (g := { g with s := some s₂ }) hc hi hm ht hv,
    C09.call_mono_logmoneyness hK ht hv s₁ s₂ h⟩

/-- strictly increasing in the spot `S` passed as `log_moneyness = log (S / K)` -/
theorem call_mono_spot (hc : BuiltOn mc (.plain .european) true mk) (hi : Live mk i)
    {g : Given ℝ} (hm : g.m = none) (ht : 0 < rT mk g i) (hv : 0 < rV mk g i) (hK : 0 < mk.strike)
    {S₁ S₂ : ℝ} (h1 : 0 < S₁) (h : S₁ < S₂) :
    ∃ p₁ p₂, modulePrice mc { g with s := some (Real.log (S₁ / mk.strike)) } i = .ok p₁ ∧
      modulePrice mc { g with s := some (Real.log (S₂ / mk.strike)) } i = .ok p₂ ∧ p₁ < p₂ :=
  ⟨_, _, european_ok (g := { g with s := some _ }) hc hi hm ht hv,
    european_ok (g := { g with s := some _ }) hc hi hm ht hv,
    C09.call_mono_spot hK ht hv S₁ S₂ h1 h⟩

/-- convex in the spot: for spots `S₁, S₂ > 0` and weights `a, b ≥ 0`, `a + b = 1`, the quote at
`a S₁ + b S₂` is at most the mixture of the quotes -/
theorem call_convex_spot (hc : BuiltOn mc (.plain .european) true mk) (hi : Live mk i)
    {g : Given ℝ} (hm : g.m = none) (ht : 0 < rT mk g i) (hv : 0 < rV mk g i) (hK : 0 < mk.strike)
    {S₁ S₂ a b : ℝ} (h1 : 0 < S₁) (h2 : 0 < S₂) (ha : 0 ≤ a) (hb : 0 ≤ b) (hab : a + b = 1) :
    ∃ p₁ p₂ p, modulePrice mc { g with s := some (Real.log (S₁ / mk.strike)) } i = .ok p₁ ∧
      modulePrice mc { g with s := some (Real.log (S₂ / mk.strike)) } i = .ok p₂ ∧
      modulePrice mc { g with s := some (Real.log ((a * S₁ + b * S₂) / mk.strike)) } i = .ok p ∧
      p ≤ a * p₁ + b * p₂ :=
  ⟨_, _, _, european_ok (g := { g with s := some _ }) hc hi hm ht hv,
    european_ok (g := { g with s := some _ }) hc hi hm ht hv,
    european_ok (g := { g with s := some _ }) hc hi hm ht hv,
    by
      have h := (C09.call_convex_spot hK ht hv).2 (mem_Ioi.2 h1) (mem_Ioi.2 h2) ha hb hab
      simp only [smul_eq_mul] at h
      exact h⟩

/-- does not decrease with an overridden volatility (log-moneyness / time from the derivative or
overridden) -/
theorem call_mono_vol (hc : BuiltOn mc (.plain .european) true mk) (hi : Live mk i)
    {g : Given ℝ} (hm : g.m = none) (ht : 0 < rT mk g i) (hK : 0 < mk.strike)
    {v₁ v₂ : ℝ} (h1 : 0 < v₁) (h : v₁ ≤ v₂) :
    ∃ p₁ p₂, modulePrice mc { g with v := some v₁ } i = .ok p₁ ∧
      modulePrice mc { g with v := some v₂ } i = .ok p₂ ∧ p₁ ≤ p₂ :=
  ⟨_, _, european_ok (g := { g with v := some v₁ }) hc hi hm ht h1,
    european_ok (g := { g with v := some v₂ }) hc hi hm ht (lt_of_lt_of_le h1 h),
    C09.call_mono_vol _ hK ht v₁ v₂ h1 h⟩

/-- … strictly increases with it -/
theorem call_strictMono_vol (hc : BuiltOn mc (.plain .european) true mk) (hi : Live mk i)
    {g : Given ℝ} (hm : g.m = none) (ht : 0 < rT mk g i) (hK : 0 < mk.strike)
    {v₁ v₂ : ℝ} (h1 : 0 < v₁) (h : v₁ < v₂) :
    ∃ p₁ p₂, modulePrice mc { g with v := some v₁ } i = .ok p₁ ∧
      modulePrice mc { g with v := some v₂ } i = .ok p₂ ∧ p₁ < p₂ :=
  ⟨_, _, european_ok (g := { g with v := some v₁ }) hc hi hm ht h1,
    european_ok (g := { g with v := some v₂ }) hc hi hm ht (h1.trans h),
    C09.call_strictMono_vol _ hK ht v₁ v₂ h1 h⟩

/-- does not decrease with an overridden time to maturity -/
theorem call_mono_time (hc : BuiltOn mc (.plain .european) true mk) (hi : Live mk i)
    {g : Given ℝ} (hm : g.m = none) (hv : 0 < rV mk g i) (hK : 0 < mk.strike)
    {t₁ t₂ : ℝ} (h1 : 0 < t₁) (h : t₁ ≤ t₂) :
    ∃ p₁ p₂, modulePrice mc { g with t := some t₁ } i = .ok p₁ ∧
      modulePrice mc { g with t := some t₂ } i = .ok p₂ ∧ p₁ ≤ p₂ :=
  ⟨_, _, european_ok (g := { g with t := some t₁ }) hc hi hm h1 hv,
    european_ok (g := { g with t := some t₂ }) hc hi hm (lt_of_lt_of_le h1 h) hv,
    C09.call_mono_time _ hK hv t₁ t₂ h1 h⟩

/-- … strictly increases with it -/
theorem call_strictMono_time (hc : BuiltOn mc (.plain .european) true mk) (hi : Live mk i)
    {g : Given ℝ} (hm : g.m = none) (hv : 0 < rV mk g i) (hK : 0 < mk.strike)
    {t₁ t₂ : ℝ} (h1 : 0 < t₁) (h : t₁ < t₂) :
    ∃ p₁ p₂, modulePrice mc { g with t := some t₁ } i = .ok p₁ ∧
      modulePrice mc { g with t := some t₂ } i = .ok p₂ ∧ p₁ < p₂ :=
  ⟨_, _, european_ok (g := { g with t := some t₁ }) hc hi hm h1 hv,
    european_ok (g := { g with t := some t₂ }) hc hi hm (h1.trans h) hv,
    C09.call_strictMono_time _ hK hv t₁ t₂ h1 h⟩

/-- along the derivative's OWN path the time to maturity shrinks: with log-moneyness and volatility
held fixed by overrides, the European call module quotes no more at a later live step than at an earlier
one (`source_timeToMaturity`: `(n−1)·dt − i·dt`, `dt > 0`) -/
theorem call_mono_own_time (hc : BuiltOn mc (.plain .european) true mk) {j : ℕ} (hi : Live mk i)
    (hj : Live mk j) (hij : i ≤ j) (hdt : 0 < mk.dt) (hK : 0 < mk.strike) (s : ℝ) {v : ℝ}
    (hv : 0 < v) (htj : 0 < ownT mk j) :
    ∃ p₁ p₂, modulePrice mc { s := some s, v := some v } j = .ok p₁ ∧
      modulePrice mc { s := some s, v := some v } i = .ok p₂ ∧ p₁ ≤ p₂ := by
  have hle : ownT mk j ≤ ownT mk i := by
    have : (i : ℝ) ≤ (j : ℝ) := by exact_mod_cast hij
    unfold ownT; nlinarith
  exact ⟨_, _, european_ok (g := { s := some s, v := some v }) hc hj rfl htj hv,
    european_ok (g := { s := some s, v := some v }) hc hi rfl (lt_of_lt_of_le htj hle) hv,
    C09.call_mono_time _ hK hv _ _ htj hle⟩

end Mono

/-! ## continuity of the lookback module where the running maximum crosses the strike -/

/-- the lookback module's quote as a function of an overridden running-maximum log-moneyness is
`.ok (f m)` with `f` continuous — in particular at `m = 0`, where the formula switches branch -/
theorem lookback_continuous_in_max {ml : BSModule ℝ} {call : Bool}
    (hl : BuiltOn ml (.pathDep .lookback) call mk) (hi : Live mk i) (g : Given ℝ)
    (ht : 0 < rT mk g i) (hv : 0 < rV mk g i) (hK : 0 < mk.strike) :
    ∃ f : ℝ → ℝ, Continuous f ∧ ∀ m, modulePrice ml { g with m := some m } i = .ok (f m) :=
  ⟨_, C09.lookback_continuous_in_max hK ht hv (rS mk g i),
    fun m => lookback_ok hl hi { g with m := some m } ht hv⟩

/-! ## non-vacuity: a concrete simulated market -/

/-- the path 1, 2, 3/2 (started exactly on the strike 1), dt = 1/4, volatility 1/2 -/
noncomputable def exMk : Market ℝ :=
  ⟨[1, 2, 3 / 2], [1 / 4, 1 / 4, 1 / 4], [1 / 2, 1 / 2, 1 / 2], [], 1 / 4, 1, []⟩

/-- the six modules the harness builds (`BlackScholes(derivative)` for a call / put European, call / put
binary, American binary and lookback derivative on ONE underlier) satisfy `BuiltOn`; a put module can also
be built by `init` on the call derivative -/
example :
    (∀ (k3 : Kind3) (c : Bool) (mod : BSModule ℝ),
      BSModule.fromDerivative (.plain k3) ⟨exMk, c, true, true⟩ = .ok mod →
        BuiltOn mod (.plain k3) c exMk) ∧
    (∀ (k4 : Kind4) (mod : BSModule ℝ),
      BSModule.fromDerivative (.pathDep k4) ⟨exMk, true, true, true⟩ = .ok mod →
        BuiltOn mod (.pathDep k4) true exMk) ∧
    (∃ mod, BSModule.fromDerivative (.pathDep .lookback) ⟨exMk, true, true, true⟩ = .ok mod) ∧
    (∃ mod, BSModule.init (.plain .european) false exMk.strike (some ⟨exMk, true, true, true⟩)
        = .ok mod ∧ BuiltOn mod (.plain .european) false exMk) :=
  ⟨fun _ _ _ h => builtOn_fromDerivative (d := ⟨exMk, _, true, true⟩) rfl rfl h,
   fun _ _ h => builtOn_fromDerivative (d := ⟨exMk, true, true, true⟩) rfl rfl h,
   ⟨_, fromDerivative_pathDep_call _ _ rfl⟩,
   ⟨_, rfl, builtOn_init (d := ⟨exMk, true, true, true⟩) rfl rfl rfl⟩⟩

/-- the cells 0 and 1 are live with positive own time to maturity (1/2, 1/4) and volatility; the last cell
is live with time to maturity 0 (excluded by `0 < rT`); overrides can keep or break `t, v > 0` -/
example :
    Live exMk 0 ∧ Live exMk 1 ∧ Live exMk 2 ∧ ¬ Live exMk 3 ∧
    rT exMk {} 0 = 1 / 2 ∧ rT exMk {} 1 = 1 / 4 ∧ rT exMk {} 2 = 0 ∧ rV exMk {} 1 = 1 / 2 ∧
    rT exMk { t := some 3 } 2 = 3 ∧ 0 < exMk.strike ∧ (∀ x ∈ exMk.spot, 0 < x) := by
  refine ⟨⟨by simp [exMk], by simp [exMk]⟩, ⟨by simp [exMk], by simp [exMk]⟩,
    ⟨by simp [exMk], by simp [exMk]⟩, fun h => by simp [exMk, Live] at h, ?_, ?_, ?_, ?_, ?_, ?_, ?_⟩
  · norm_num [rT, ownT, exMk]
  · norm_num [rT, ownT, exMk]
  · norm_num [rT, ownT, exMk]
  · simp [rV, ownV, exMk]
  · simp [rT]
  · simp [exMk]
  · intro x hx; simp [exMk] at hx; rcases hx with rfl | rfl | rfl <;> norm_num

/-- on that path: at step 1 the own spot is 2 and the own running maximum is 2 (then 2 again at step 2,
where the spot has fallen back to 3/2: a genuine running maximum); the strike was reached at step 0 -/
example :
    exMk.strike * Real.exp (ownS exMk 1) = 2 ∧ exMk.strike * Real.exp (ownM exMk 2) = 2 ∧
    exMk.strike * Real.exp (ownS exMk 2) = 3 / 2 ∧ 0 ≤ ownM exMk 1 := by
  have hK : 0 < exMk.strike := by simp [exMk]
  have hpos : ∀ x ∈ exMk.spot, 0 < x := by
    intro x hx; simp [exMk] at hx; rcases hx with rfl | rfl | rfl <;> norm_num
  refine ⟨?_, ?_, ?_, ?_⟩
  · rw [strike_mul_exp_ownS hK (by simp [exMk]) (by simp [exMk])]; simp [exMk]
  · rw [strike_mul_exp_ownM hK (by simp [exMk]) hpos]
    norm_num [exMk, cummaxL, cummaxL.go]
  · rw [strike_mul_exp_ownS hK (by simp [exMk]) (by norm_num [exMk])]; simp [exMk]
  · exact ownM_nonneg_of_reached hK (by simp [exMk]) (Nat.zero_le 1) (by simp [exMk])

/-- the relations instantiated at step 1 of that path, nothing overridden: the call and put modules of the
two European derivatives differ by `2 − 1`, and the American binary module quotes exactly one -/
example (mc mp ma : BSModule ℝ)
    (hc : BSModule.fromDerivative (.plain .european) ⟨exMk, true, true, true⟩ = .ok mc)
    (hp : BSModule.fromDerivative (.plain .european) ⟨exMk, false, true, true⟩ = .ok mp)
    (ha : BSModule.fromDerivative (.pathDep .americanBinary) ⟨exMk, true, true, true⟩ = .ok ma) :
    (∃ c p, modulePrice mc {} 1 = .ok c ∧ modulePrice mp {} 1 = .ok p ∧ c - p = 2 - 1) ∧
    modulePrice ma {} 1 = .ok 1 := by
  have hi : Live exMk 1 := ⟨by simp [exMk], by simp [exMk]⟩
  have ht : 0 < rT exMk {} 1 := by norm_num [rT, ownT, exMk]
  have hv : 0 < rV exMk {} 1 := by simp [rV, ownV, exMk]
  have hK : 0 < exMk.strike := by simp [exMk]
  constructor
  · have := put_call_parity_own_spot
      (builtOn_fromDerivative (d := ⟨exMk, true, true, true⟩) rfl rfl hc)
      (builtOn_fromDerivative (d := ⟨exMk, false, true, true⟩) rfl rfl hp) hi (g := {}) rfl rfl
      ht hv hK (by simp [exMk])
    simpa [exMk] using this
  · exact american_one_after_hit
      (builtOn_fromDerivative (d := ⟨exMk, true, true, true⟩) rfl rfl ha) hi (g := {}) rfl ht hv hK
      (Nat.zero_le 1) (by simp [exMk])

end PfVerif.C09Modules
