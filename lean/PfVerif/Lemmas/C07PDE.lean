/-
  C07 (second half) — verification conditions (Feynman–Kac) for the path-dependent Black–Scholes
  prices: American binary (one-touch) and lookback call, and, for completeness, the European and
  European-binary prices.

  Time to maturity `τ`, spot `S = K eˢ`, zero rates.  The Black–Scholes equation reads
      ∂P/∂τ = ½ v² S² ∂²P/∂S².
  Prices are read through `C08Aux.val` (error ↦ 0); the `…_ok` lemmas show that no error is raised
  for `τ, v > 0`.

  This file deliberately imports only `Props/C08`, `Lemmas/BSIneq` (and through it `GaussInt`,
  `BSCalc`), NOT `Props/C09`: `Props/C09` imports `Props/C07`, and the theorems below are meant to be
  re-exported from `Props/C07`.  The lookback closed forms `lb`, `price0`, `price1` are therefore
  restated in `C07PDEAux` (literally the same expressions as `C09Aux.lb/price0/price1`) together
  with `lookback_price_ok`, which ties them to the model function `bsLookbackPrice`.
-/
import PfVerif.Props.C08
import PfVerif.Lemmas.BSIneq

namespace PfVerif.C07PDEAux
open PfVerif PfVerif.BSCalc PfVerif.C08Aux PfVerif.BSIneq Real Filter Topology Set

/-! ### limits of the total volatility and of `d₁`, `d₂` -/

/-- `w = v√τ → 0⁺` as `τ → 0⁺` -/
theorem tendsto_w_zero {v : ℝ} (hv : 0 < v) :
    Tendsto (fun τ : ℝ => v * Real.sqrt τ) (𝓝[>] 0) (𝓝[>] 0) := by
  refine tendsto_nhdsWithin_iff.2 ⟨?_, ?_⟩
  · have hc : Continuous fun τ : ℝ => v * Real.sqrt τ := by fun_prop
    have h := hc.tendsto 0
    simp only [Real.sqrt_zero, mul_zero] at h
    exact h.mono_left nhdsWithin_le_nhds
  · filter_upwards [self_mem_nhdsWithin] with τ hτ
    exact w_pos hτ hv

theorem tendsto_div_atBot {a : ℝ} (ha : a < 0) :
    Tendsto (fun w : ℝ => a / w) (𝓝[>] 0) atBot := by
  have h := tendsto_inv_nhdsGT_zero (𝕜 := ℝ)
  have h2 := h.const_mul_atTop_of_neg ha
  refine h2.congr ?_
  intro w
  rw [div_eq_mul_inv]

theorem tendsto_half_zero : Tendsto (fun w : ℝ => w / 2) (𝓝[>] 0) (𝓝 0) := by
  have hc : Continuous fun w : ℝ => w / 2 := by fun_prop
  have h := hc.tendsto 0
  simp only [zero_div] at h
  exact h.mono_left nhdsWithin_le_nhds

theorem tendsto_d1_atBot {a : ℝ} (ha : a < 0) :
    Tendsto (fun w : ℝ => d1 a w) (𝓝[>] 0) atBot := by
  unfold d1
  exact (tendsto_div_atBot ha).atBot_add tendsto_half_zero

theorem tendsto_d2_atBot {a : ℝ} (ha : a < 0) :
    Tendsto (fun w : ℝ => d2 a w) (𝓝[>] 0) atBot := by
  unfold d2
  have h := (tendsto_div_atBot ha).atBot_add tendsto_half_zero.neg
  refine h.congr ?_
  intro w
  ring

/-- `d₁ → −∞` as the log-moneyness `s → −∞` at fixed `w > 0` -/
theorem tendsto_d1_atBot_s {w : ℝ} (hw : 0 < w) :
    Tendsto (fun a : ℝ => d1 a w) atBot atBot := by
  unfold d1
  exact ((tendsto_id (α := ℝ) (x := atBot)).atBot_div_const hw).atBot_add tendsto_const_nhds

theorem tendsto_d2_atBot_s {w : ℝ} (hw : 0 < w) :
    Tendsto (fun a : ℝ => d2 a w) atBot atBot := by
  unfold d2
  have h := ((tendsto_id (α := ℝ) (x := atBot)).atBot_div_const hw).atBot_add
    (tendsto_const_nhds (x := -(w / 2)))
  refine h.congr ?_
  intro a
  simp only [id]
  ring

/-! ### the lookback closed forms (same expressions as `C09Aux.lb`, `price0`, `price1`) -/

/-- the bracket `Φ(d₁) + (a + w²/2) Φ(d₁) + w φ(d₁)` of the lookback formula -/
noncomputable def lb (a w : ℝ) : ℝ :=
  Phi (d1 a w) + (a + w * w / 2) * Phi (d1 a w) + w * phi (d1 a w)

/-- branch used while the running maximum is below the strike -/
noncomputable def price0 (s t v K : ℝ) : ℝ :=
  Real.exp s * K * lb s (v * Real.sqrt t) - K * Phi (d2 s (v * Real.sqrt t))

/-- branch used once the running maximum `K eᵐ` is at or above the strike -/
noncomputable def price1 (s m t v K : ℝ) : ℝ :=
  Real.exp s * K * lb (s - m) (v * Real.sqrt t) - K
    + Real.exp m * K * (1 - Phi (d2 (s - m) (v * Real.sqrt t)))

theorem lookback_price_ok {t v : ℝ} (ht : 0 < t) (hv : 0 < v) (s m K : ℝ) :
    bsLookbackPrice s m t v K
      = .ok (if Real.exp m * K < K then price0 s t v K else price1 s m t v K) := by
  unfold bsLookbackPrice
  rw [bsD1_ok s ht hv, bsD2_ok s ht hv, bsD1_ok (s - m) ht hv, bsD2_ok (s - m) ht hv]
  rfl

theorem branch_iff {K : ℝ} (hK : 0 < K) (m : ℝ) : Real.exp m * K < K ↔ m < 0 := by
  rw [mul_lt_iff_lt_one_left hK, Real.exp_lt_one_iff]

theorem price0_eq_price1_zero (s t v K : ℝ) : price0 s t v K = price1 s 0 t v K := by
  unfold price0 price1
  rw [sub_zero, Real.exp_zero]
  ring

/-- the quoted lookback price is `price1` evaluated at the running maximum floored at the strike:
`max(M, K) = K e^{max m 0}` -/
theorem lookback_val {K t v : ℝ} (hK : 0 < K) (ht : 0 < t) (hv : 0 < v) (s m : ℝ) :
    val (bsLookbackPrice s m t v K) = price1 s (max m 0) t v K := by
  rw [lookback_price_ok ht hv, val_ok]
  by_cases hm : m < 0
  · rw [if_pos ((branch_iff hK m).2 hm), max_eq_right hm.le, price0_eq_price1_zero]
  · rw [if_neg (mt (branch_iff hK m).1 hm), max_eq_left (not_lt.1 hm)]

/-- normalised lookback value `eᵃ lb(a, w) − Φ(d₂(a, w))` (unit strike) -/
noncomputable def G (a w : ℝ) : ℝ := Real.exp a * lb a w - Phi (d2 a w)

theorem price1_eq (s m t v K : ℝ) :
    price1 s m t v K
      = K * Real.exp m * G (s - m) (v * Real.sqrt t) + K * Real.exp m - K := by
  have e : Real.exp s = Real.exp m * Real.exp (s - m) := by
    rw [← Real.exp_add]
    congr 1
    ring
  unfold price1 G
  rw [e]
  ring

/-- lookback delta in closed form, as a function of `a = log(S / max(M, K))` -/
noncomputable def lbDelta (a w : ℝ) : ℝ := lb a w + Phi (d1 a w)

/-- spot × lookback gamma in closed form -/
noncomputable def lbGammaS (a w : ℝ) : ℝ := Phi (d1 a w) + 2 * phi (d1 a w) / w

/-- ∂(lookback price)/∂S -/
noncomputable def lookbackDelta (s m t v : ℝ) : ℝ := lbDelta (s - max m 0) (v * Real.sqrt t)

/-- ∂²(lookback price)/∂S² (the spot is `eˢ K`, as everywhere in the model) -/
noncomputable def lookbackGamma (s m t v K : ℝ) : ℝ :=
  lbGammaS (s - max m 0) (v * Real.sqrt t) / (Real.exp s * K)

section curve
variable {sf wf : ℝ → ℝ} {s' w' x : ℝ}

theorem hasDerivAt_lb (hs : HasDerivAt sf s' x) (hw : HasDerivAt wf w' x) (h0 : wf x ≠ 0) :
    HasDerivAt (fun y => lb (sf y) (wf y))
      ((Phi (d1 (sf x) (wf x)) + phi (d1 (sf x) (wf x)) / wf x) * s'
        + (wf x * Phi (d1 (sf x) (wf x))
            + phi (d1 (sf x) (wf x)) * (1 - d2 (sf x) (wf x) / wf x)) * w') x := by
  unfold lb
  have hP := hasDerivAt_Phi_d1 hs hw h0
  have hp := hasDerivAt_phi_d1 hs hw h0
  have h := (hP.fun_add ((hs.fun_add ((hw.fun_mul hw).div_const 2)).fun_mul hP)).fun_add
    (hw.fun_mul hp)
  refine h.congr_deriv ?_
  unfold d1 d2
  field_simp
  ring

/-- normalised lookback value along a curve: the density terms cancel -/
theorem hasDerivAt_G (hs : HasDerivAt sf s' x) (hw : HasDerivAt wf w' x) (h0 : wf x ≠ 0) :
    HasDerivAt (fun y => G (sf y) (wf y))
      (Real.exp (sf x) * (lb (sf x) (wf x) + Phi (d1 (sf x) (wf x))) * s'
        + Real.exp (sf x) * (wf x * Phi (d1 (sf x) (wf x)) + 2 * phi (d1 (sf x) (wf x))) * w') x := by
  unfold G
  have e := exp_mul_phi_d1 (sf x) (wf x) h0
  have h := (hs.exp.fun_mul (hasDerivAt_lb hs hw h0)).fun_sub (hasDerivAt_Phi_d2 hs hw h0)
  refine h.congr_deriv ?_
  rw [← e]
  unfold d1 d2
  field_simp
  ring

end curve

/-! ### derivatives of `price1` in the spot, the time to maturity and the running maximum -/

theorem price1_hasDerivAt_spot {S K t v : ℝ} (M : ℝ) (hS : 0 < S) (hK : 0 < K) (ht : 0 < t)
    (hv : 0 < v) :
    HasDerivAt (fun S' => price1 (Real.log (S' / K)) M t v K)
      (lbDelta (Real.log (S / K) - M) (v * Real.sqrt t)) S := by
  have hw : (fun _ : ℝ => v * Real.sqrt t) S ≠ 0 := (w_pos ht hv).ne'
  have hlog := (hasDerivAt_logMoneyness hS hK).sub_const M
  have h := hasDerivAt_G hlog (hasDerivAt_const S (v * Real.sqrt t)) hw
  have hel : Real.exp (Real.log (S / K)) = S / K := Real.exp_log (div_pos hS hK)
  have hM : Real.exp M ≠ 0 := (Real.exp_pos M).ne'
  simp only [price1_eq]
  refine (((h.const_mul (K * Real.exp M)).add_const (K * Real.exp M)).sub_const K).congr_deriv ?_
  rw [Real.exp_sub, hel, lbDelta]
  field_simp
  ring

theorem lbDelta_hasDerivAt_spot {S K t v : ℝ} (M : ℝ) (hS : 0 < S) (hK : 0 < K) (ht : 0 < t)
    (hv : 0 < v) :
    HasDerivAt (fun S' => lbDelta (Real.log (S' / K) - M) (v * Real.sqrt t))
      (lbGammaS (Real.log (S / K) - M) (v * Real.sqrt t) / S) S := by
  have hw : (fun _ : ℝ => v * Real.sqrt t) S ≠ 0 := (w_pos ht hv).ne'
  have hlog := (hasDerivAt_logMoneyness hS hK).sub_const M
  have hc := hasDerivAt_const S (v * Real.sqrt t)
  have h := (hasDerivAt_lb hlog hc hw).fun_add (hasDerivAt_Phi_d1 hlog hc hw)
  have hr : Real.sqrt t ≠ 0 := (Real.sqrt_pos.2 ht).ne'
  unfold lbDelta lbGammaS
  refine h.congr_deriv ?_
  field_simp
  ring

theorem price1_hasDerivAt_time {K t v : ℝ} (s M : ℝ) (hK : 0 < K) (ht : 0 < t) (hv : 0 < v) :
    HasDerivAt (fun τ => price1 s M τ v K)
      ((1 / 2) * v ^ 2 * (Real.exp s * K) ^ 2
        * (lbGammaS (s - M) (v * Real.sqrt t) / (Real.exp s * K))) t := by
  have hw : (fun t' : ℝ => v * Real.sqrt t') t ≠ 0 := (w_pos ht hv).ne'
  have h := hasDerivAt_G (hasDerivAt_const t (s - M)) (hasDerivAt_w_time ht v) hw
  have e : Real.exp s = Real.exp M * Real.exp (s - M) := by
    rw [← Real.exp_add]
    congr 1
    ring
  have hM : Real.exp M ≠ 0 := (Real.exp_pos M).ne'
  have hsM : Real.exp (s - M) ≠ 0 := (Real.exp_pos _).ne'
  have hr : Real.sqrt t ≠ 0 := (Real.sqrt_pos.2 ht).ne'
  simp only [price1_eq]
  refine (((h.const_mul (K * Real.exp M)).add_const (K * Real.exp M)).sub_const K).congr_deriv ?_
  rw [e, lbGammaS]
  field_simp
  ring

/-- `∂price1/∂M = M (1 − one-touch probability)`: the one-touch (American binary) value with barrier
at the running maximum appears -/
theorem price1_hasDerivAt_max {K t v : ℝ} (s M : ℝ) (ht : 0 < t) (hv : 0 < v) :
    HasDerivAt (fun M' => price1 s M' t v K)
      (Real.exp M * K * (1 - (Phi (d2 (s - M) (v * Real.sqrt t))
        + Real.exp (s - M) * Phi (d1 (s - M) (v * Real.sqrt t))))) M := by
  have hw : (fun _ : ℝ => v * Real.sqrt t) M ≠ 0 := (w_pos ht hv).ne'
  have hsm : HasDerivAt (fun M' : ℝ => s - M') (-1) M := by
    simpa using (hasDerivAt_id M).const_sub s
  have hG := hasDerivAt_G hsm (hasDerivAt_const M (v * Real.sqrt t)) hw
  have hE : HasDerivAt (fun M' : ℝ => K * Real.exp M') (K * Real.exp M) M :=
    (Real.hasDerivAt_exp M).const_mul K
  simp only [price1_eq]
  refine (((hE.fun_mul hG).fun_add hE).sub_const K).congr_deriv ?_
  unfold G
  ring

/-! ### small-maturity limits of the lookback bracket -/

theorem lb_tendsto_zero {a : ℝ} (ha : a < 0) : Tendsto (fun w : ℝ => lb a w) (𝓝[>] 0) (𝓝 0) := by
  have hP : Tendsto (fun w : ℝ => Phi (d1 a w)) (𝓝[>] 0) (𝓝 0) :=
    Phi_tendsto_atBot.comp (tendsto_d1_atBot ha)
  have hid : Tendsto (fun w : ℝ => w) (𝓝[>] (0 : ℝ)) (𝓝 0) :=
    (tendsto_id (α := ℝ) (x := 𝓝 0)).mono_left nhdsWithin_le_nhds
  have hc : Tendsto (fun w : ℝ => a + w * w / 2) (𝓝[>] 0) (𝓝 (a + 0 * 0 / 2)) :=
    tendsto_const_nhds.add ((hid.mul hid).div_const 2)
  have hwphi : Tendsto (fun w : ℝ => w * phi (d1 a w)) (𝓝[>] 0) (𝓝 0) := by
    have hub : Tendsto (fun w : ℝ => w * (1 / Real.sqrt (2 * π))) (𝓝[>] 0) (𝓝 (0 * _)) :=
      hid.mul_const _
    rw [zero_mul] at hub
    refine squeeze_zero' ?_ ?_ hub
    · filter_upwards [self_mem_nhdsWithin] with w hw
      exact mul_nonneg (le_of_lt hw) (phi_pos _).le
    · filter_upwards [self_mem_nhdsWithin] with w hw
      exact mul_le_mul_of_nonneg_left (phi_le_const _) (le_of_lt hw)
  have h := (hP.add (hc.mul hP)).add hwphi
  simp only [mul_zero, add_zero] at h
  exact h

theorem lb_zero_tendsto : Tendsto (fun w : ℝ => lb 0 w) (𝓝[>] 0) (𝓝 (1 / 2)) := by
  have e : (fun w : ℝ => lb 0 w)
      = fun w => Phi (w / 2) + (0 + w * w / 2) * Phi (w / 2) + w * phi (w / 2) := by
    funext w
    simp [lb, d1]
  have hc : Continuous fun w : ℝ =>
      Phi (w / 2) + (0 + w * w / 2) * Phi (w / 2) + w * phi (w / 2) := by
    have h2 : Continuous fun w : ℝ => w / 2 := by fun_prop
    exact ((Phi_continuous.comp h2).add
      ((continuous_const.add ((continuous_id.mul continuous_id).div_const 2)).mul
        (Phi_continuous.comp h2))).add (continuous_id.mul (phi_continuous.comp h2))
  have h := hc.tendsto 0
  simp only [zero_div, Phi_zero, mul_zero, add_zero, zero_mul] at h
  rw [e]
  exact h.mono_left nhdsWithin_le_nhds

theorem Phi_d2_zero_tendsto : Tendsto (fun w : ℝ => Phi (d2 0 w)) (𝓝[>] 0) (𝓝 (1 / 2)) := by
  have e : (fun w : ℝ => Phi (d2 0 w)) = fun w => Phi (-(w / 2)) := by
    funext w
    simp [d2]
  have hc : Continuous fun w : ℝ => Phi (-(w / 2)) := by
    have h2 : Continuous fun w : ℝ => -(w / 2) := by fun_prop
    exact Phi_continuous.comp h2
  have h := hc.tendsto 0
  simp only [zero_div, neg_zero, Phi_zero] at h
  rw [e]
  exact h.mono_left nhdsWithin_le_nhds

/-- `price1 → K e^M − K` (the locked-in payoff) as `τ → 0⁺`, for a spot at or below the maximum -/
theorem price1_tendsto {s M v : ℝ} (K : ℝ) (hv : 0 < v) (hsM : s ≤ M) :
    Tendsto (fun τ => price1 s M τ v K) (𝓝[>] 0) (𝓝 (K * Real.exp M - K)) := by
  have hw := tendsto_w_zero hv
  unfold price1
  rcases lt_or_eq_of_le hsM with h | h
  · have ha : s - M < 0 := by linarith
    have h1 := (lb_tendsto_zero ha).comp hw
    have h2 : Tendsto (fun τ => Phi (d2 (s - M) (v * Real.sqrt τ))) (𝓝[>] 0) (𝓝 0) :=
      Phi_tendsto_atBot.comp ((tendsto_d2_atBot ha).comp hw)
    have h3 := ((h1.const_mul (Real.exp s * K)).sub_const K).add
      ((h2.const_sub 1).const_mul (Real.exp M * K))
    have e : Real.exp s * K * 0 - K + Real.exp M * K * (1 - 0) = K * Real.exp M - K := by ring
    rw [e] at h3
    exact h3
  · subst h
    simp only [sub_self]
    have h1 := lb_zero_tendsto.comp hw
    have h2 := Phi_d2_zero_tendsto.comp hw
    have h3 := ((h1.const_mul (Real.exp s * K)).sub_const K).add
      ((h2.const_sub 1).const_mul (Real.exp s * K))
    have e : Real.exp s * K * (1 / 2) - K + Real.exp s * K * (1 - 1 / 2) = K * Real.exp s - K := by
      ring
    rw [e] at h3
    exact h3

end PfVerif.C07PDEAux

namespace PfVerif.C07PDE
open PfVerif PfVerif.BSCalc PfVerif.C08Aux PfVerif.C07PDEAux PfVerif.BSIneq Real Filter Topology Set

/-! ### the Black–Scholes equation `∂P/∂τ = ½ v² S² ∂²P/∂S²`

`gamma` is the second `S`-derivative of the price by `C08.*_gamma_second`. -/

/-- European call and put -/
theorem european_pde {S K t v : ℝ} (hS : 0 < S) (hK : 0 < K) (ht : 0 < t) (hv : 0 < v)
    (call : Bool) :
    HasDerivAt (fun τ => val (bsEuropeanPrice (Real.log (S / K)) τ v K call))
      ((1 / 2) * v ^ 2 * S ^ 2 * val (bsEuropeanGamma (Real.log (S / K)) t v K)) t := by
  have h := C08.european_theta (K := K) (Real.log (S / K)) ht hv call
  have hel : Real.exp (Real.log (S / K)) = S / K := Real.exp_log (div_pos hS hK)
  refine h.congr_deriv ?_
  rw [C08.european_theta_gamma_relation _ hK ht hv, thetaOfGamma, hel]
  field_simp

/-- European binary call and put -/
theorem binary_pde {S K t v : ℝ} (hS : 0 < S) (hK : 0 < K) (ht : 0 < t) (hv : 0 < v)
    (call : Bool) :
    HasDerivAt (fun τ => val (bsBinaryPrice (Real.log (S / K)) τ v call))
      ((1 / 2) * v ^ 2 * S ^ 2 * val (bsBinaryGamma (Real.log (S / K)) t v K call)) t := by
  have h := C08.binary_theta (K := K) (Real.log (S / K)) hK ht hv call
  have hel : Real.exp (Real.log (S / K)) = S / K := Real.exp_log (div_pos hS hK)
  refine h.congr_deriv ?_
  rw [binary_theta_ok ht hv, binary_gamma_ok ht hv]
  simp only [val_ok, thetaOfGamma]
  rw [hel]
  field_simp

/-- American binary in the continuation region (running maximum below the barrier) -/
theorem american_binary_pde {S K t v m : ℝ} (hS : 0 < S) (hK : 0 < K) (ht : 0 < t) (hv : 0 < v)
    (hm : m < 0) :
    HasDerivAt (fun τ => val (bsAmericanBinaryPrice (Real.log (S / K)) m τ v))
      ((1 / 2) * v ^ 2 * S ^ 2 * val (bsAmericanBinaryGamma (Real.log (S / K)) m t v K)) t := by
  have h := C08.american_binary_theta (K := K) (Real.log (S / K)) hK ht hv hm
  have hel : Real.exp (Real.log (S / K)) = S / K := Real.exp_log (div_pos hS hK)
  refine h.congr_deriv ?_
  rw [american_theta_ok ht hv, american_gamma_ok ht hv]
  simp only [val_ok, thetaOfGamma]
  rw [hel]
  field_simp

/-! ### American binary: boundary, terminal and far-field conditions -/

/-- boundary condition at the barrier `S = K` (`s = 0`): the value is one for every `τ > 0` -/
theorem american_binary_at_barrier (m : ℝ) {t v : ℝ} (ht : 0 < t) (hv : 0 < v) :
    val (bsAmericanBinaryPrice 0 m t v) = 1 := by
  rw [american_price_ok ht hv]
  by_cases hm : m < 0
  · simp only [val_ok, hm, if_true]
    exact american_at_barrier _
  · simp only [val_ok, hm, if_false]

/-- terminal condition: below the barrier, with the barrier not yet hit, the price tends to the
payoff `0` as `τ → 0⁺` -/
theorem american_binary_terminal {s m v : ℝ} (hs : s < 0) (hm : m < 0) (hv : 0 < v) :
    Tendsto (fun τ => val (bsAmericanBinaryPrice s m τ v)) (𝓝[>] 0) (𝓝 0) := by
  have hw := tendsto_w_zero hv
  have h1 : Tendsto (fun τ => Phi (d1 s (v * Real.sqrt τ))) (𝓝[>] 0) (𝓝 0) :=
    Phi_tendsto_atBot.comp ((tendsto_d1_atBot hs).comp hw)
  have h2 : Tendsto (fun τ => Phi (d2 s (v * Real.sqrt τ))) (𝓝[>] 0) (𝓝 0) :=
    Phi_tendsto_atBot.comp ((tendsto_d2_atBot hs).comp hw)
  have h := h2.add (h1.const_mul (Real.exp s))
  rw [mul_zero, add_zero] at h
  refine h.congr' ?_
  filter_upwards [self_mem_nhdsWithin] with τ hτ
  rw [american_price_ok hτ hv]
  simp only [val_ok, hm, if_true]

/-- terminal condition once the barrier has been hit: the price is the payoff `1` for all `τ > 0` -/
theorem american_binary_terminal_hit (s : ℝ) {m v : ℝ} (hm : 0 ≤ m) (hv : 0 < v) :
    Tendsto (fun τ => val (bsAmericanBinaryPrice s m τ v)) (𝓝[>] 0) (𝓝 1) := by
  refine tendsto_const_nhds.congr' ?_
  filter_upwards [self_mem_nhdsWithin] with τ hτ
  rw [american_price_ok hτ hv]
  simp only [val_ok, not_lt.2 hm, if_false]

/-- far-field condition: the price tends to `0` as the spot tends to `0` (`s → −∞`) -/
theorem american_binary_far {m t v : ℝ} (hm : m < 0) (ht : 0 < t) (hv : 0 < v) :
    Tendsto (fun s => val (bsAmericanBinaryPrice s m t v)) atBot (𝓝 0) := by
  have hw := w_pos ht hv
  have h1 : Tendsto (fun s => Phi (d1 s (v * Real.sqrt t))) atBot (𝓝 0) :=
    Phi_tendsto_atBot.comp (tendsto_d1_atBot_s hw)
  have h2 : Tendsto (fun s => Phi (d2 s (v * Real.sqrt t))) atBot (𝓝 0) :=
    Phi_tendsto_atBot.comp (tendsto_d2_atBot_s hw)
  have h := h2.add (Real.tendsto_exp_atBot.mul h1)
  rw [mul_zero, add_zero] at h
  refine h.congr ?_
  intro s
  rw [american_price_ok ht hv]
  simp only [val_ok, hm, if_true]

end PfVerif.C07PDE
