/-
  C07 (second half) — verification conditions (Feynman–Kac) for the path-dependent Black–Scholes
  prices: American binary (one-touch) and lookback call, and, for completeness, the European and
  European-binary prices.

  Time to maturity `τ`, spot `S = K eˢ`, zero rates.  The Black–Scholes equation reads
      ∂P/∂τ = ½ v² S² ∂²P/∂S².
  Prices are read through `C08Aux.val` (error ↦ 0); the `…_ok` lemmas show that no error is raised
  for `τ, v > 0`.

  This file deliberately imports only `Props/C08`, `Lemmas/BSIneq` (and through it `GaussInt`,
  `BSCalc`), NOT `Props/C09`: `Props/C09` imports `Props/C07`, and the theorems below are meant to be
  re-exported from `Props/C07`.  The lookback closed forms `lb`, `price0`, `price1` are therefore
  restated in `C07PDEAux` (literally the same expressions as `C09Aux.lb/price0/price1`) together
  with `lookback_price_ok`, which ties them to the model function `bsLookbackPrice`.
-/
import PfVerif.Props.C08
import PfVerif.Lemmas.BSIneq

namespace PfVerif.C07PDEAux
open PfVerif PfVerif.BSCalc PfVerif.C08Aux PfVerif.BSIneq Real Filter Topology Set

/-! ### limits of the total volatility and of `d₁`, `d₂` -/

/-- `w = v√τ → 0⁺` as `τ → 0⁺` -/
theorem tendsto_w_zero {v : ℝ} (hv : 0 < v) :
    Tendsto (fun τ : ℝ => v * Real.sqrt τ) (𝓝[>] 0) (𝓝[>] 0) := by
  refine tendsto_nhdsWithin_iff.2 ⟨?_, ?_⟩
  · have hc : Continuous fun τ : ℝ => v * Real.sqrt τ := by fun_prop
    have h := hc.tendsto 0
    simp only [Real.sqrt_zero, mul_zero] at h
    exact h.mono_left nhdsWithin_le_nhds
  · filter_upwards [self_mem_nhdsWithin] with τ hτ
    exact w_pos hτ hv

theorem tendsto_div_atBot {a : ℝ} (ha : a < 0) :
    Tendsto (fun w : ℝ => a / w) (𝓝[>] 0) atBot := by
  have h := tendsto_inv_nhdsGT_zero (𝕜 := ℝ)
  have h2 := h.const_mul_atTop_of_neg ha
  refine h2.congr ?_
  intro w
  rw [div_eq_mul_inv]

theorem tendsto_half_zero : Tendsto (fun w : ℝ => w / 2) (𝓝[>] 0) (𝓝 0) := by
  have hc : Continuous fun w : ℝ => w / 2 := by fun_prop
  have h := hc.tendsto 0
  simp only [zero_div] at h
  exact h.mono_left nhdsWithin_le_nhds

theorem tendsto_d1_atBot {a : ℝ} (ha : a < 0) :
    Tendsto (fun w : ℝ => d1 a w) (𝓝[>] 0) atBot := by
  unfold d1
  exact (tendsto_div_atBot ha).atBot_add tendsto_half_zero

theorem tendsto_d2_atBot {a : ℝ} (ha : a < 0) :
    Tendsto (fun w : ℝ => d2 a w) (𝓝[>] 0) atBot := by
  unfold d2
  have h := (tendsto_div_atBot ha).atBot_add tendsto_half_zero.neg
  refine h.congr ?_
  intro w
  ring

/-- `d₁ → −∞` as the log-moneyness `s → −∞` at fixed `w > 0` -/
theorem tendsto_d1_atBot_s {w : ℝ} (hw : 0 < w) :
    Tendsto (fun a : ℝ => d1 a w) atBot atBot := by
  unfold d1
  exact ((tendsto_id (α := ℝ) (x := atBot)).atBot_div_const hw).atBot_add tendsto_const_nhds

theorem tendsto_d2_atBot_s {w : ℝ} (hw : 0 < w) :
    Tendsto (fun a : ℝ => d2 a w) atBot atBot := by
  unfold d2
  have h := ((tendsto_id (α := ℝ) (x := atBot)).atBot_div_const hw).atBot_add
    (tendsto_const_nhds (x := -(w / 2)))
  refine h.congr ?_
  intro a
  simp only [id]
  ring

/-! ### the lookback closed forms (same expressions as `C09Aux.lb`, `price0`, `price1`) -/

/-- the bracket `Φ(d₁) + (a + w²/2) Φ(d₁) + w φ(d₁)` of the lookback formula -/
noncomputable def lb (a w : ℝ) : ℝ :=
  Phi (d1 a w) + (a + w * w / 2) * Phi (d1 a w) + w * phi (d1 a w)

/-- branch used while the running maximum is below the strike -/
noncomputable def price0 (s t v K : ℝ) : ℝ :=
  Real.exp s * K * lb s (v * Real.sqrt t) - K * Phi (d2 s (v * Real.sqrt t))

/-- branch used once the running maximum `K eᵐ` is at or above the strike -/
noncomputable def price1 (s m t v K : ℝ) : ℝ :=
  Real.exp s * K * lb (s - m) (v * Real.sqrt t) - K
    + Real.exp m * K * (1 - Phi (d2 (s - m) (v * Real.sqrt t)))

theorem lookback_price_ok {t v : ℝ} (ht : 0 < t) (hv : 0 < v) (s m K : ℝ) :
    bsLookbackPrice s m t v K
      = .ok (if Real.exp m * K < K then price0 s t v K else price1 s m t v K) := by
  unfold bsLookbackPrice
  rw [bsD1_ok s ht hv, bsD2_ok s ht hv, bsD1_ok (s - m) ht hv, bsD2_ok (s - m) ht hv]
  rfl

theorem branch_iff {K : ℝ} (hK : 0 < K) (m : ℝ) : Real.exp m * K < K ↔ m < 0 := by
  rw [mul_lt_iff_lt_one_left hK, Real.exp_lt_one_iff]

theorem price0_eq_price1_zero (s t v K : ℝ) : price0 s t v K = price1 s 0 t v K := by
  unfold price0 price1
  rw [sub_zero, Real.exp_zero]
  ring

/-- the quoted lookback price is `price1` evaluated at the running maximum floored at the strike:
`max(M, K) = K e^{max m 0}` -/
theorem lookback_val {K t v : ℝ} (hK : 0 < K) (ht : 0 < t) (hv : 0 < v) (s m : ℝ) :
    val (bsLookbackPrice s m t v K) = price1 s (max m 0) t v K := by
  rw [lookback_price_ok ht hv, val_ok]
  by_cases hm : m < 0
  · rw [if_pos ((branch_iff hK m).2 hm), max_eq_right hm.le, price0_eq_price1_zero]
  · rw [if_neg (mt (branch_iff hK m).1 hm), max_eq_left (not_lt.1 hm)]

/-- normalised lookback value `eᵃ lb(a, w) − Φ(d₂(a, w))` (unit strike) -/
noncomputable def G (a w : ℝ) : ℝ := Real.exp a * lb a w - Phi (d2 a w)

theorem price1_eq (s m t v K : ℝ) :
    price1 s m t v K
      = K * Real.exp m * G (s - m) (v * Real.sqrt t) + K * Real.exp m - K := by
  have e : Real.exp s = Real.exp m * Real.exp (s - m) := by
    rw [← Real.exp_add]
    congr 1
    ring
  unfold price1 G
  rw [e]
  ring

/-- lookback delta in closed form, as a function of `a = log(S / max(M, K))` -/
noncomputable def lbDelta (a w : ℝ) : ℝ := lb a w + Phi (d1 a w)

/-- spot × lookback gamma in closed form -/
noncomputable def lbGammaS (a w : ℝ) : ℝ := Phi (d1 a w) + 2 * phi (d1 a w) / w

/-- ∂(lookback price)/∂S -/
noncomputable def lookbackDelta (s m t v : ℝ) : ℝ := lbDelta (s - max m 0) (v * Real.sqrt t)

/-- ∂²(lookback price)/∂S² (the spot is `eˢ K`, as everywhere in the model) -/
noncomputable def lookbackGamma (s m t v K : ℝ) : ℝ :=
  lbGammaS (s - max m 0) (v * Real.sqrt t) / (Real.exp s * K)

section curve
variable {sf wf : ℝ → ℝ} {s' w' x : ℝ}

theorem hasDerivAt_lb (hs : HasDerivAt sf s' x) (hw : HasDerivAt wf w' x) (h0 : wf x ≠ 0) :
    HasDerivAt (fun y => lb (sf y) (wf y))
      ((Phi (d1 (sf x) (wf x)) + phi (d1 (sf x) (wf x)) / wf x) * s'
        + (wf x * Phi (d1 (sf x) (wf x))
            + phi (d1 (sf x) (wf x)) * (1 - d2 (sf x) (wf x) / wf x)) * w') x := by
  unfold lb
  have hP := hasDerivAt_Phi_d1 hs hw h0
  have hp := hasDerivAt_phi_d1 hs hw h0
  have h := (hP.fun_add ((hs.fun_add ((hw.fun_mul hw).div_const 2)).fun_mul hP)).fun_add
    (hw.fun_mul hp)
  refine h.congr_deriv ?_
  unfold d1 d2
  field_simp
  ring

/-- normalised lookback value along a curve: the density terms cancel -/
theorem hasDerivAt_G (hs : HasDerivAt sf s' x) (hw : HasDerivAt wf w' x) (h0 : wf x ≠ 0) :
    HasDerivAt (fun y => G (sf y) (wf y))
      (Real.exp (sf x) * (lb (sf x) (wf x) + Phi (d1 (sf x) (wf x))) * s'
        + Real.exp (sf x) * (wf x * Phi (d1 (sf x) (wf x)) + 2 * phi (d1 (sf x) (wf x))) * w') x := by
  unfold G
  have e := exp_mul_phi_d1 (sf x) (wf x) h0
  have h := (hs.exp.fun_mul (hasDerivAt_lb hs hw h0)).fun_sub (hasDerivAt_Phi_d2 hs hw h0)
  refine h.congr_deriv ?_
  rw [← e]
  unfold d1 d2
  field_simp
  ring

end curve

/-! ### derivatives of `price1` in the spot, the time to maturity and the running maximum -/

theorem price1_hasDerivAt_spot {S K t v : ℝ} (M : ℝ) (hS : 0 < S) (hK : 0 < K) (ht : 0 < t)
    (hv : 0 < v) :
    HasDerivAt (fun S' => price1 (Real.log (S' / K)) M t v K)
      (lbDelta (Real.log (S / K) - M) (v * Real.sqrt t)) S := by
  have hw : (fun _ : ℝ => v * Real.sqrt t) S ≠ 0 := (w_pos ht hv).ne'
  have hlog := (hasDerivAt_logMoneyness hS hK).sub_const M
  have h := hasDerivAt_G hlog (hasDerivAt_const S (v * Real.sqrt t)) hw
  have hel : Real.exp (Real.log (S / K)) = S / K := Real.exp_log (div_pos hS hK)
  have hM : Real.exp M ≠ 0 := (Real.exp_pos M).ne'
  simp only [price1_eq]
  refine (((h.const_mul (K * Real.exp M)).add_const (K * Real.exp M)).sub_const K).congr_deriv ?_
  rw [Real.exp_sub, hel, lbDelta]
  field_simp
  ring

theorem lbDelta_hasDerivAt_spot {S K t v : ℝ} (M : ℝ) (hS : 0 < S) (hK : 0 < K) (ht : 0 < t)
    (hv : 0 < v) :
    HasDerivAt (fun S' => lbDelta (Real.log (S' / K) - M) (v * Real.sqrt t))
      (lbGammaS (Real.log (S / K) - M) (v * Real.sqrt t) / S) S := by
  have hw : (fun _ : ℝ => v * Real.sqrt t) S ≠ 0 := (w_pos ht hv).ne'
  have hlog := (hasDerivAt_logMoneyness hS hK).sub_const M
  have hc := hasDerivAt_const S (v * Real.sqrt t)
  have h := (hasDerivAt_lb hlog hc hw).fun_add (hasDerivAt_Phi_d1 hlog hc hw)
  have hr : Real.sqrt t ≠ 0 := (Real.sqrt_pos.2 ht).ne'
  unfold lbDelta lbGammaS
  refine h.congr_deriv ?_
  field_simp
  ring

theorem price1_hasDerivAt_time {K t v : ℝ} (s M : ℝ) (hK : 0 < K) (ht : 0 < t) (hv : 0 < v) :
    HasDerivAt (fun τ => price1 s M τ v K)
      ((1 / 2) * v ^ 2 * (Real.exp s * K) ^ 2
        * (lbGammaS (s - M) (v * Real.sqrt t) / (Real.exp s * K))) t := by
  have hw : (fun t' : ℝ => v * Real.sqrt t') t ≠ 0 := (w_pos ht hv).ne'
  have h := hasDerivAt_G (hasDerivAt_const t (s - M)) (hasDerivAt_w_time ht v) hw
  have e : Real.exp s = Real.exp M * Real.exp (s - M) := by
    rw [← Real.exp_add]
    congr 1
    ring
  have hM : Real.exp M ≠ 0 := (Real.exp_pos M).ne'
  have hsM : Real.exp (s - M) ≠ 0 := (Real.exp_pos _).ne'
  have hr : Real.sqrt t ≠ 0 := (Real.sqrt_pos.2 ht).ne'
  simp only [price1_eq]
  refine (((h.const_mul (K * Real.exp M)).add_const (K * Real.exp M)).sub_const K).congr_deriv ?_
  rw [e, lbGammaS]
  field_simp
  ring

/-- `∂price1/∂M = M (1 − one-touch probability)`: the one-touch (American binary) value with barrier
at the running maximum appears -/
theorem price1_hasDerivAt_max {K t v : ℝ} (s M : ℝ) (ht : 0 < t) (hv : 0 < v) :
    HasDerivAt (fun M' => price1 s M' t v K)
      (Real.exp M * K * (1 - (Phi (d2 (s - M) (v * Real.sqrt t))
        + Real.exp (s - M) * Phi (d1 (s - M) (v * Real.sqrt t))))) M := by
  have hw : (fun _ : ℝ => v * Real.sqrt t) M ≠ 0 := (w_pos ht hv).ne'
  have hsm : HasDerivAt (fun M' : ℝ => s - M') (-1) M := by
    simpa using (hasDerivAt_id M).const_sub s
  have hG := hasDerivAt_G hsm (hasDerivAt_const M (v * Real.sqrt t)) hw
  have hE : HasDerivAt (fun M' : ℝ => K * Real.exp M') (K * Real.exp M) M :=
    (Real.hasDerivAt_exp M).const_mul K
  simp only [price1_eq]
  refine (((hE.fun_mul hG).fun_add hE).sub_const K).congr_deriv ?_
  unfold G
  ring

/-! ### small-maturity limits of the lookback bracket -/

theorem lb_tendsto_zero {a : ℝ} (ha : a < 0) : Tendsto (fun w : ℝ => lb a w) (𝓝[>] 0) (𝓝 0) := by
  have hP : Tendsto (fun w : ℝ => Phi (d1 a w)) (𝓝[>] 0) (𝓝 0) :=
    Phi_tendsto_atBot.comp (tendsto_d1_atBot ha)
  have hid : Tendsto (fun w : ℝ => w) (𝓝[>] (0 : ℝ)) (𝓝 0) :=
    (tendsto_id (α := ℝ) (x := 𝓝 0)).mono_left nhdsWithin_le_nhds
  have hc : Tendsto (fun w : ℝ => a + w * w / 2) (𝓝[>] 0) (𝓝 (a + 0 * 0 / 2)) :=
    tendsto_const_nhds.add ((hid.mul hid).div_const 2)
  have hwphi : Tendsto (fun w : ℝ => w * phi (d1 a w)) (𝓝[>] 0) (𝓝 0) := by
    have hub : Tendsto (fun w : ℝ => w * (1 / Real.sqrt (2 * π))) (𝓝[>] 0) (𝓝 (0 * _)) :=
      hid.mul_const _
    rw [zero_mul] at hub
    refine squeeze_zero' ?_ ?_ hub
    · filter_upwards [self_mem_nhdsWithin] with w hw
      exact mul_nonneg (le_of_lt hw) (phi_pos _).le
    · filter_upwards [self_mem_nhdsWithin] with w hw
      exact mul_le_mul_of_nonneg_left (phi_le_const _) (le_of_lt hw)
  have h := (hP.add (hc.mul hP)).add hwphi
  simp only [mul_zero, add_zero] at h
  exact h

theorem lb_zero_tendsto : Tendsto (fun w : ℝ => lb 0 w) (𝓝[>] 0) (𝓝 (1 / 2)) := by
  have e : (fun w : ℝ => lb 0 w)
      = fun w => Phi (w / 2) + (0 + w * w / 2) * Phi (w / 2) + w * phi (w / 2) := by
    funext w
    simp [lb, d1]
  have hc : Continuous fun w : ℝ =>
      Phi (w / 2) + (0 + w * w / 2) * Phi (w / 2) + w * phi (w / 2) := by
    have h2 : Continuous fun w : ℝ => w / 2 := by fun_prop
    exact ((Phi_continuous.comp h2).add
      ((continuous_const.add ((continuous_id.mul continuous_id).div_const 2)).mul
        (Phi_continuous.comp h2))).add (continuous_id.mul (phi_continuous.comp h2))
  have h := hc.tendsto 0
  simp only [zero_div, Phi_zero, mul_zero, add_zero, zero_mul] at h
  rw [e]
  exact h.mono_left nhdsWithin_le_nhds

theorem Phi_d2_zero_tendsto : Tendsto (fun w : ℝ => Phi (d2 0 w)) (𝓝[>] 0) (𝓝 (1 / 2)) := by
  have e : (fun w : ℝ => Phi (d2 0 w)) = fun w => Phi (-(w / 2)) := by
    funext w
    simp [d2]
  have hc : Continuous fun w : ℝ => Phi (-(w / 2)) := by
    have h2 : Continuous fun w : ℝ => -(w / 2) := by fun_prop
    exact Phi_continuous.comp h2
  have h := hc.tendsto 0
  simp only [zero_div, neg_zero, Phi_zero] at h
  rw [e]
  exact h.mono_left nhdsWithin_le_nhds

/-- `price1 → K e^M − K` (the locked-in payoff) as `τ → 0⁺`, for a spot at or below the maximum -/
theorem price1_tendsto {s M v : ℝ} (K : ℝ) (hv : 0 < v) (hsM : s ≤ M) :
    Tendsto (fun τ => price1 s M τ v K) (𝓝[>] 0) (𝓝 (K * Real.exp M - K)) := by
  have hw := tendsto_w_zero hv
  unfold price1
  rcases lt_or_eq_of_le hsM with h | h
  · have ha : s - M < 0 := by linarith
    have h1 := (lb_tendsto_zero ha).comp hw
    have h2 : Tendsto (fun τ => Phi (d2 (s - M) (v * Real.sqrt τ))) (𝓝[>] 0) (𝓝 0) :=
      Phi_tendsto_atBot.comp ((tendsto_d2_atBot ha).comp hw)
    have h3 := ((h1.const_mul (Real.exp s * K)).sub_const K).add
      ((h2.const_sub 1).const_mul (Real.exp M * K))
    have e : Real.exp s * K * 0 - K + Real.exp M * K * (1 - 0) = K * Real.exp M - K := by ring
    rw [e] at h3
    exact h3
  · subst h
    simp only [sub_self]
    have h1 := lb_zero_tendsto.comp hw
    have h2 := Phi_d2_zero_tendsto.comp hw
    have h3 := ((h1.const_mul (Real.exp s * K)).sub_const K).add
      ((h2.const_sub 1).const_mul (Real.exp s * K))
    have e : Real.exp s * K * (1 / 2) - K + Real.exp s * K * (1 - 1 / 2) = K * Real.exp s - K := by
      ring
    rw [e] at h3
    exact h3

/-! ### far field `S → 0` (`s → −∞`) of the lookback closed form -/

theorem tendsto_mul_exp_atBot : Tendsto (fun s : ℝ => s * Real.exp s) atBot (𝓝 0) := by
  have h := ((Real.tendsto_pow_mul_exp_neg_atTop_nhds_zero 1).comp tendsto_neg_atBot_atTop).neg
  rw [neg_zero] at h
  refine h.congr ?_
  intro s
  simp

theorem exp_mul_lb_tendsto {w : ℝ} (M : ℝ) (hw : 0 < w) :
    Tendsto (fun s : ℝ => Real.exp s * lb (s - M) w) atBot (𝓝 0) := by
  have hsM : Tendsto (fun s : ℝ => s - M) atBot atBot :=
    (tendsto_id (α := ℝ) (x := atBot)).atBot_add (tendsto_const_nhds (x := -M))
  have hP : Tendsto (fun s : ℝ => Phi (d1 (s - M) w)) atBot (𝓝 0) :=
    Phi_tendsto_atBot.comp ((tendsto_d1_atBot_s hw).comp hsM)
  have hE := Real.tendsto_exp_atBot
  have hc : Tendsto (fun s : ℝ => s * Real.exp s - M * Real.exp s + w * w / 2 * Real.exp s)
      atBot (𝓝 (0 - M * 0 + w * w / 2 * 0)) :=
    (tendsto_mul_exp_atBot.sub (hE.const_mul M)).add (hE.const_mul (w * w / 2))
  have hphi : Tendsto (fun s : ℝ => Real.exp s * (w * phi (d1 (s - M) w))) atBot (𝓝 0) := by
    have hub : Tendsto (fun s : ℝ => Real.exp s * (w * (1 / Real.sqrt (2 * π)))) atBot
        (𝓝 (0 * _)) := hE.mul_const _
    rw [zero_mul] at hub
    refine squeeze_zero ?_ ?_ hub
    · intro s
      exact mul_nonneg (Real.exp_pos s).le (mul_nonneg hw.le (phi_pos _).le)
    · intro s
      exact mul_le_mul_of_nonneg_left (mul_le_mul_of_nonneg_left (phi_le_const _) hw.le)
        (Real.exp_pos s).le
  have h := ((hE.mul hP).add (hc.mul hP)).add hphi
  simp only [mul_zero, add_zero, sub_zero] at h
  refine h.congr ?_
  intro s
  unfold lb
  ring

/-- `price1 → K e^M − K` (the locked-in payoff) as the spot tends to zero -/
theorem price1_tendsto_far {t v : ℝ} (M K : ℝ) (ht : 0 < t) (hv : 0 < v) :
    Tendsto (fun s => price1 s M t v K) atBot (𝓝 (K * Real.exp M - K)) := by
  have hw := w_pos ht hv
  have hsM : Tendsto (fun s : ℝ => s - M) atBot atBot :=
    (tendsto_id (α := ℝ) (x := atBot)).atBot_add (tendsto_const_nhds (x := -M))
  have h1 := exp_mul_lb_tendsto M hw
  have h2 : Tendsto (fun s : ℝ => Phi (d2 (s - M) (v * Real.sqrt t))) atBot (𝓝 0) :=
    Phi_tendsto_atBot.comp ((tendsto_d2_atBot_s hw).comp hsM)
  have h3 := ((h1.const_mul K).sub_const K).add ((h2.const_sub 1).const_mul (Real.exp M * K))
  have e : K * 0 - K + Real.exp M * K * (1 - 0) = K * Real.exp M - K := by ring
  rw [e] at h3
  refine h3.congr ?_
  intro s
  unfold price1
  ring

/-- `max(max(M, K) − K, 0)` with `M = K eᵐ`, written with the floored log-maximum -/
theorem locked_in_eq {K : ℝ} (hK : 0 < K) (m : ℝ) :
    max (K * Real.exp m - K) 0 = K * Real.exp (max m 0) - K := by
  rcases lt_or_ge m 0 with hm | hm
  · have h1 : Real.exp m < 1 := Real.exp_lt_one_iff.2 hm
    rw [max_eq_right hm.le, Real.exp_zero, max_eq_right (by nlinarith)]
    ring
  · have h1 : 1 ≤ Real.exp m := Real.one_le_exp hm
    rw [max_eq_left hm, max_eq_left (by nlinarith)]

end PfVerif.C07PDEAux

namespace PfVerif.C07PDE
open PfVerif PfVerif.BSCalc PfVerif.C08Aux PfVerif.C07PDEAux PfVerif.BSIneq Real Filter Topology Set

/-!
## What is proved here, and what is NOT

For the American binary (one-touch, barrier = strike `K`) and the lookback call with fixed strike,
the risk-neutral expectation involves the joint law of a Brownian motion with drift and its running
maximum, which Mathlib does not provide, so "price = E[payoff]" cannot even be stated.  This file
proves instead the *verification conditions* of the boundary-value problems those expectations
solve (zero rates; `τ` = time to maturity, `S = K eˢ` = spot, `M = K eᵐ` = running maximum):

* American binary `u(τ, S)` on `0 < S < K` (region `m < 0`):
  `american_binary_pde`        `∂u/∂τ = ½ v² S² ∂²u/∂S²`      (with `C08.american_binary_gamma_second`),
  `american_binary_at_barrier` `u(τ, K) = 1` for all `τ > 0`,
  `american_binary_terminal`   `u(τ, S) → 0` as `τ → 0⁺` for `S < K`,
  `american_binary_far`        `u(τ, S) → 0` as `S → 0`,
  `american_binary_terminal_hit` (`C08.american_binary_after_hit`): once hit (`m ≥ 0`) `u ≡ 1`.
* Lookback call `P(τ, S, M)` on `0 < S ≤ max(M, K)`:
  `lookback_pde`, `lookback_gamma_second`, `lookback_pde_deriv`  `∂P/∂τ = ½ v² S² ∂²P/∂S²`,
  `lookback_neumann`, `price1_neumann`   `∂P/∂M = 0` at `S = M` (`M ≥ K`),
  `lookback_dmax`              `M ∂P/∂M = M (1 − one-touch(S/M))` for `M > K`,
  `lookback_terminal`          `P → max(max(M, S) − K, 0)` as `τ → 0⁺` for `S ≤ M`,
  `lookback_far`               `P → max(M − K, 0)` as `S → 0`.
* For completeness `european_pde`, `binary_pde` (their expectation formulas ARE proved in
  `Props/C07`).

NOT proved (and not claimed): the uniqueness / Feynman–Kac step, i.e. that a function satisfying
these conditions (in a suitable growth class: here both solutions are bounded by `1`, resp. by
`max(M, K)`, on a bounded `S`-domain) coincides with
`E[1{max_{u ≤ τ} S_u ≥ K}]`, resp. `E[max(max(M, max_{u ≤ τ} S_u) − K, 0)]`, under
`dS = v S dW`.  That step needs (a) continuous-time Brownian motion and Itô's formula, or the
reflection principle for the joint law of `(W_τ + μτ, max_{u ≤ τ}(W_u + μu))`, and (b) a maximum
principle for the heat equation on a half-line with Dirichlet (American binary) or oblique/Neumann
(lookback, in the variables `(S, M)`) boundary data.  Neither is available in Mathlib.  In
particular nothing here excludes that the model formulas differ from the expectations by another
solution of the same boundary-value problem outside the uniqueness class.  Also not proved: joint
(`C^{1,2}`) regularity in `(τ, S)`; only the separate partial derivatives are established.
-/

/-! ### the Black–Scholes equation `∂P/∂τ = ½ v² S² ∂²P/∂S²`

`gamma` is the second `S`-derivative of the price by `C08.*_gamma_second`. -/

/-- European call and put -/
theorem european_pde {S K t v : ℝ} (hS : 0 < S) (hK : 0 < K) (ht : 0 < t) (hv : 0 < v)
    (call : Bool) :
    HasDerivAt (fun τ => val (bsEuropeanPrice (Real.log (S / K)) τ v K call))
      ((1 / 2) * v ^ 2 * S ^ 2 * val (bsEuropeanGamma (Real.log (S / K)) t v K)) t := by
  have h := C08.european_theta (K := K) (Real.log (S / K)) ht hv call
  have hel : Real.exp (Real.log (S / K)) = S / K := Real.exp_log (div_pos hS hK)
  refine h.congr_deriv ?_
  rw [C08.european_theta_gamma_relation _ hK ht hv, thetaOfGamma, hel]
  field_simp

/-- European binary call and put -/
theorem binary_pde {S K t v : ℝ} (hS : 0 < S) (hK : 0 < K) (ht : 0 < t) (hv : 0 < v)
    (call : Bool) :
    HasDerivAt (fun τ => val (bsBinaryPrice (Real.log (S / K)) τ v call))
      ((1 / 2) * v ^ 2 * S ^ 2 * val (bsBinaryGamma (Real.log (S / K)) t v K call)) t := by
  have h := C08.binary_theta (K := K) (Real.log (S / K)) hK ht hv call
  have hel : Real.exp (Real.log (S / K)) = S / K := Real.exp_log (div_pos hS hK)
  refine h.congr_deriv ?_
  rw [binary_theta_ok ht hv, binary_gamma_ok ht hv]
  simp only [val_ok, thetaOfGamma]
  rw [hel]
  field_simp

/-- American binary in the continuation region (running maximum below the barrier) -/
theorem american_binary_pde {S K t v m : ℝ} (hS : 0 < S) (hK : 0 < K) (ht : 0 < t) (hv : 0 < v)
    (hm : m < 0) :
    HasDerivAt (fun τ => val (bsAmericanBinaryPrice (Real.log (S / K)) m τ v))
      ((1 / 2) * v ^ 2 * S ^ 2 * val (bsAmericanBinaryGamma (Real.log (S / K)) m t v K)) t := by
  have h := C08.american_binary_theta (K := K) (Real.log (S / K)) hK ht hv hm
  have hel : Real.exp (Real.log (S / K)) = S / K := Real.exp_log (div_pos hS hK)
  refine h.congr_deriv ?_
  rw [american_theta_ok ht hv, american_gamma_ok ht hv]
  simp only [val_ok, thetaOfGamma]
  rw [hel]
  field_simp

/-! ### American binary: boundary, terminal and far-field conditions -/

/-- boundary condition at the barrier `S = K` (`s = 0`): the value is one for every `τ > 0` -/
theorem american_binary_at_barrier (m : ℝ) {t v : ℝ} (ht : 0 < t) (hv : 0 < v) :
    val (bsAmericanBinaryPrice 0 m t v) = 1 := by
  rw [american_price_ok ht hv]
  by_cases hm : m < 0
  · simp only [val_ok, hm, if_true]
    exact american_at_barrier _
  · simp only [val_ok, hm, if_false]

/-- terminal condition: below the barrier, with the barrier not yet hit, the price tends to the
payoff `0` as `τ → 0⁺` -/
theorem american_binary_terminal {s m v : ℝ} (hs : s < 0) (hm : m < 0) (hv : 0 < v) :
    Tendsto (fun τ => val (bsAmericanBinaryPrice s m τ v)) (𝓝[>] 0) (𝓝 0) := by
  have hw := tendsto_w_zero hv
  have h1 : Tendsto (fun τ => Phi (d1 s (v * Real.sqrt τ))) (𝓝[>] 0) (𝓝 0) :=
    Phi_tendsto_atBot.comp ((tendsto_d1_atBot hs).comp hw)
  have h2 : Tendsto (fun τ => Phi (d2 s (v * Real.sqrt τ))) (𝓝[>] 0) (𝓝 0) :=
    Phi_tendsto_atBot.comp ((tendsto_d2_atBot hs).comp hw)
  have h := h2.add (h1.const_mul (Real.exp s))
  rw [mul_zero, add_zero] at h
  refine h.congr' ?_
  filter_upwards [self_mem_nhdsWithin] with τ hτ
  rw [american_price_ok hτ hv]
  simp only [val_ok, hm, if_true]

/-- terminal condition once the barrier has been hit: the price is the payoff `1` for all `τ > 0` -/
theorem american_binary_terminal_hit (s : ℝ) {m v : ℝ} (hm : 0 ≤ m) (hv : 0 < v) :
    Tendsto (fun τ => val (bsAmericanBinaryPrice s m τ v)) (𝓝[>] 0) (𝓝 1) := by
  refine tendsto_const_nhds.congr' ?_
  filter_upwards [self_mem_nhdsWithin] with τ hτ
  rw [american_price_ok hτ hv]
  simp only [val_ok, not_lt.2 hm, if_false]

/-- far-field condition: the price tends to `0` as the spot tends to `0` (`s → −∞`) -/
theorem american_binary_far {m t v : ℝ} (hm : m < 0) (ht : 0 < t) (hv : 0 < v) :
    Tendsto (fun s => val (bsAmericanBinaryPrice s m t v)) atBot (𝓝 0) := by
  have hw := w_pos ht hv
  have h1 : Tendsto (fun s => Phi (d1 s (v * Real.sqrt t))) atBot (𝓝 0) :=
    Phi_tendsto_atBot.comp (tendsto_d1_atBot_s hw)
  have h2 : Tendsto (fun s => Phi (d2 s (v * Real.sqrt t))) atBot (𝓝 0) :=
    Phi_tendsto_atBot.comp (tendsto_d2_atBot_s hw)
  have h := h2.add (Real.tendsto_exp_atBot.mul h1)
  rw [mul_zero, add_zero] at h
  refine h.congr ?_
  intro s
  rw [american_price_ok ht hv]
  simp only [val_ok, hm, if_true]

/-! ### lookback call

Running maximum `M = K eᵐ` held fixed; spot `S = K eˢ`.  `lookbackDelta`, `lookbackGamma` are the
closed forms (`C07PDEAux`) of the first and second `S`-derivatives: with `a = s − max m 0`,
`w = v√τ`,
    delta = lb(a, w) + Φ(d₁(a, w)),     gamma = (Φ(d₁(a, w)) + 2 φ(d₁(a, w)) / w) / S. -/

/-- closed form in the region "running maximum below the strike" -/
theorem lookback_below_strike {K t v m : ℝ} (hK : 0 < K) (ht : 0 < t) (hv : 0 < v) (hm : m < 0)
    (s : ℝ) : val (bsLookbackPrice s m t v K) = price0 s t v K := by
  rw [lookback_val hK ht hv, max_eq_right hm.le, price0_eq_price1_zero]

/-- closed form in the region "running maximum at or above the strike" -/
theorem lookback_above_strike {K t v m : ℝ} (hK : 0 < K) (ht : 0 < t) (hv : 0 < v) (hm : 0 ≤ m)
    (s : ℝ) : val (bsLookbackPrice s m t v K) = price1 s m t v K := by
  rw [lookback_val hK ht hv, max_eq_left hm]

/-- `lookbackDelta = ∂price/∂S` (both regions) -/
theorem lookback_delta {S K t v : ℝ} (m : ℝ) (hS : 0 < S) (hK : 0 < K) (ht : 0 < t) (hv : 0 < v) :
    HasDerivAt (fun S' => val (bsLookbackPrice (Real.log (S' / K)) m t v K))
      (lookbackDelta (Real.log (S / K)) m t v) S := by
  simp only [lookback_val hK ht hv]
  exact price1_hasDerivAt_spot (max m 0) hS hK ht hv

/-- `lookbackGamma = ∂delta/∂S` (both regions) -/
theorem lookback_gamma {S K t v : ℝ} (m : ℝ) (hS : 0 < S) (hK : 0 < K) (ht : 0 < t) (hv : 0 < v) :
    HasDerivAt (fun S' => lookbackDelta (Real.log (S' / K)) m t v)
      (lookbackGamma (Real.log (S / K)) m t v K) S := by
  have hel : Real.exp (Real.log (S / K)) = S / K := Real.exp_log (div_pos hS hK)
  unfold lookbackDelta lookbackGamma
  refine (lbDelta_hasDerivAt_spot (max m 0) hS hK ht hv).congr_deriv ?_
  rw [hel]
  field_simp

/-- `lookbackGamma = ∂²price/∂S²` (both regions) -/
theorem lookback_gamma_second {S K t v : ℝ} (m : ℝ) (hS : 0 < S) (hK : 0 < K) (ht : 0 < t)
    (hv : 0 < v) :
    HasDerivAt (deriv fun S' => val (bsLookbackPrice (Real.log (S' / K)) m t v K))
      (lookbackGamma (Real.log (S / K)) m t v K) S :=
  second_deriv hS (fun _ hx => lookback_delta m hx hK ht hv) (lookback_gamma m hS hK ht hv)

/-- the lookback price solves the Black–Scholes equation in `(τ, S)` for every fixed running
maximum (both regions `m < 0` and `0 ≤ m`; no restriction `s ≤ m` is needed for the identity) -/
theorem lookback_pde {S K t v : ℝ} (m : ℝ) (hS : 0 < S) (hK : 0 < K) (ht : 0 < t) (hv : 0 < v) :
    HasDerivAt (fun τ => val (bsLookbackPrice (Real.log (S / K)) m τ v K))
      ((1 / 2) * v ^ 2 * S ^ 2 * lookbackGamma (Real.log (S / K)) m t v K) t := by
  have hel : Real.exp (Real.log (S / K)) = S / K := Real.exp_log (div_pos hS hK)
  have h := price1_hasDerivAt_time (Real.log (S / K)) (max m 0) hK ht hv
  refine (h.congr_deriv ?_).congr_of_eventuallyEq ?_
  · unfold lookbackGamma
    rw [hel]
    field_simp
  · filter_upwards [lt_mem_nhds ht] with τ hτ
    exact lookback_val hK hτ hv _ m

/-- the PDE in one statement: the `τ`-derivative is `½ v² S²` times the second `S`-derivative -/
theorem lookback_pde_deriv {S K t v : ℝ} (m : ℝ) (hS : 0 < S) (hK : 0 < K) (ht : 0 < t)
    (hv : 0 < v) :
    deriv (fun τ => val (bsLookbackPrice (Real.log (S / K)) m τ v K)) t
      = (1 / 2) * v ^ 2 * S ^ 2
        * deriv (deriv fun S' => val (bsLookbackPrice (Real.log (S' / K)) m t v K)) S := by
  rw [(lookback_pde m hS hK ht hv).deriv, (lookback_gamma_second m hS hK ht hv).deriv]

/-- sensitivity to the running maximum above the strike: `∂P/∂M·M = M (1 − one-touch value)`, where
the one-touch (American binary) value is taken with the barrier at the running maximum -/
theorem lookback_dmax {K t v m : ℝ} (s : ℝ) (hK : 0 < K) (ht : 0 < t) (hv : 0 < v) (hm : 0 < m) :
    HasDerivAt (fun m' => val (bsLookbackPrice s m' t v K))
      (Real.exp m * K * (1 - (Phi (d2 (s - m) (v * Real.sqrt t))
        + Real.exp (s - m) * Phi (d1 (s - m) (v * Real.sqrt t))))) m := by
  refine (price1_hasDerivAt_max s m ht hv).congr_of_eventuallyEq ?_
  filter_upwards [lt_mem_nhds hm] with m' hm'
  rw [lookback_val hK ht hv, max_eq_left hm'.le]

/-- reflecting (Neumann) boundary condition for the closed form: `∂price1/∂m = 0` at `m = s`
(spot at its running maximum) -/
theorem price1_neumann {t v : ℝ} (s K : ℝ) (ht : 0 < t) (hv : 0 < v) :
    HasDerivAt (fun m => price1 s m t v K) 0 s := by
  refine (price1_hasDerivAt_max s s ht hv).congr_deriv ?_
  rw [sub_self, american_at_barrier]
  ring

/-- reflecting (Neumann) boundary condition for the quoted price: `∂P/∂M = 0` at `S = M`, for every
spot at or above the strike (at `s = 0` the function of `m` changes branch; it is constant on the
left, and the derivative still exists and vanishes) -/
theorem lookback_neumann {K t v s : ℝ} (hK : 0 < K) (ht : 0 < t) (hv : 0 < v) (hs : 0 ≤ s) :
    HasDerivAt (fun m => val (bsLookbackPrice s m t v K)) 0 s := by
  rcases lt_or_eq_of_le hs with h | h
  · refine (price1_neumann s K ht hv).congr_of_eventuallyEq ?_
    filter_upwards [lt_mem_nhds h] with m' hm'
    rw [lookback_val hK ht hv, max_eq_left hm'.le]
  · subst h
    simp only [lookback_val hK ht hv]
    have hI : HasDerivWithinAt (fun m => price1 0 (max m 0) t v K) 0 (Iic 0) 0 :=
      (hasDerivWithinAt_const (0 : ℝ) (Iic 0) (price1 0 0 t v K)).congr
        (fun m hm => by rw [max_eq_right (mem_Iic.1 hm)]) (by rw [max_self])
    have hJ : HasDerivWithinAt (fun m => price1 0 (max m 0) t v K) 0 (Ici 0) 0 :=
      (price1_neumann 0 K ht hv).hasDerivWithinAt.congr
        (fun m hm => by rw [max_eq_left (mem_Ici.1 hm)]) (by rw [max_self])
    have hU := hI.union hJ
    rwa [Iic_union_Ici, hasDerivWithinAt_univ] at hU

/-- terminal condition: as `τ → 0⁺` the price tends to the payoff `max(max(M, S) − K, 0)`, for
every spot at or below the running maximum -/
theorem lookback_terminal {s m K v : ℝ} (hK : 0 < K) (hv : 0 < v) (hsm : s ≤ m) :
    Tendsto (fun τ => val (bsLookbackPrice s m τ v K)) (𝓝[>] 0)
      (𝓝 (max (max (K * Real.exp m) (K * Real.exp s) - K) 0)) := by
  have hsM : s ≤ max m 0 := le_trans hsm (le_max_left _ _)
  rw [max_eq_left (mul_le_mul_of_nonneg_left (Real.exp_le_exp.2 hsm) hK.le), locked_in_eq hK]
  refine (price1_tendsto K hv hsM).congr' ?_
  filter_upwards [self_mem_nhdsWithin] with τ hτ
  exact (lookback_val hK hτ hv s m).symm

/-- far-field condition: as the spot tends to `0` (`s → −∞`) the price tends to the locked-in payoff
`max(M − K, 0)` -/
theorem lookback_far {K t v : ℝ} (m : ℝ) (hK : 0 < K) (ht : 0 < t) (hv : 0 < v) :
    Tendsto (fun s => val (bsLookbackPrice s m t v K)) atBot
      (𝓝 (max (K * Real.exp m - K) 0)) := by
  rw [locked_in_eq hK]
  refine (price1_tendsto_far (max m 0) K ht hv).congr ?_
  intro s
  exact (lookback_val hK ht hv s m).symm

/-! ### non-vacuity -/

/-- at `S = K = 1`, `τ = v = 1`, running maximum at the strike: the lookback gamma is
`Φ(1/2) + 2 φ(1/2) > 0`, and the time derivative of the quoted price is half of it -/
example :
    HasDerivAt (fun τ => val (bsLookbackPrice (Real.log (1 / 1)) 0 τ 1 1))
      ((1 / 2) * (Phi (1 / 2) + 2 * phi (1 / 2))) 1 ∧ 0 < Phi (1 / 2) + 2 * phi (1 / 2) := by
  constructor
  · have h := lookback_pde (S := 1) (K := 1) (t := 1) (v := 1) 0 one_pos one_pos one_pos one_pos
    refine h.congr_deriv ?_
    simp [lookbackGamma, lbGammaS, d1]
  · have h1 := (Phi_mem_Ioo (1 / 2)).1
    have h2 := phi_pos (1 / 2)
    linarith

/-- one-touch below the barrier, `s = −1`, `τ = v = 1`: the model returns `.ok` of a value
strictly between 0 and 1, so the boundary value 1 and the terminal value 0 are genuinely attained
only in the limit -/
example :
    0 < val (bsAmericanBinaryPrice (-1 : ℝ) (-1) 1 1) ∧
    val (bsAmericanBinaryPrice (-1 : ℝ) (-1) 1 1) < 1 := by
  have hm : (-1 : ℝ) < 0 := by norm_num
  rw [american_price_ok one_pos one_pos]
  simp only [val_ok, hm, if_true]
  constructor
  · have h1 := (Phi_mem_Ioo (d2 (-1) (1 * Real.sqrt 1))).1
    have h2 := mul_pos (Real.exp_pos (-1)) (Phi_mem_Ioo (d1 (-1) (1 * Real.sqrt 1))).1
    linarith
  · exact american_lt_one hm (w_pos one_pos one_pos)

end PfVerif.C07PDE
