/-
  Integrals of the standard normal density over the line and over half-lines, the limits of
  `Phi`, and the exponential-tilt (Girsanov / Esscher) shift `e^{wz − w²/2} φ(z) = φ(z − w)`.
  Shared by the risk-neutral-expectation theorems (C07).
-/
import PfVerif.Lemmas.Gauss
import Mathlib.MeasureTheory.Integral.IntegralEqImproper
import Mathlib.MeasureTheory.Measure.Lebesgue.Integral
import Mathlib.MeasureTheory.Group.Integral

namespace PfVerif
open Real MeasureTheory Set Filter Topology

theorem phi_eq (x : ℝ) : phi x = Real.exp (-(1 / 2 : ℝ) * x ^ 2) / Real.sqrt (2 * π) := by
  unfold phi; congr 2; ring

theorem phi_integrable : Integrable phi := by
  have h : phi = fun x => Real.exp (-(1 / 2 : ℝ) * x ^ 2) / Real.sqrt (2 * π) := funext phi_eq
  rw [h]
  exact (integrable_exp_neg_mul_sq (by norm_num : (0 : ℝ) < 1 / 2)).div_const _

/-- total mass one -/
theorem integral_phi : ∫ x, phi x = 1 := by
  simp_rw [phi_eq]
  rw [integral_div, integral_gaussian]
  have : π / (1 / 2 : ℝ) = 2 * π := by ring
  rw [this]
  exact div_self (by positivity)

theorem integral_phi_Ioi_zero_eq_Iic_zero : ∫ x in Iic (0 : ℝ), phi x = ∫ x in Ioi (0 : ℝ), phi x := by
  have h := integral_comp_neg_Iic (0 : ℝ) phi
  simp only [phi_neg, neg_zero] at h
  exact h

theorem integral_phi_Iic_zero : ∫ x in Iic (0 : ℝ), phi x = 1 / 2 := by
  have h1 := intervalIntegral.integral_Iic_add_Ioi (b := (0 : ℝ))
    phi_integrable.integrableOn phi_integrable.integrableOn
  rw [integral_phi, ← integral_phi_Ioi_zero_eq_Iic_zero] at h1
  linarith

theorem integral_phi_Ioi_zero : ∫ x in Ioi (0 : ℝ), phi x = 1 / 2 := by
  rw [← integral_phi_Ioi_zero_eq_Iic_zero, integral_phi_Iic_zero]

/-- `Φ(a) = P(Z ≤ a)` -/
theorem integral_phi_Iic (a : ℝ) : ∫ x in Iic a, phi x = Phi a := by
  have h := intervalIntegral.integral_Iic_sub_Iic (a := (0 : ℝ)) (b := a)
    (phi_integrable.integrableOn (s := Iic 0)) (phi_integrable.integrableOn (s := Iic a))
  rw [integral_phi_Iic_zero] at h
  unfold Phi
  linarith

/-- `1 − Φ(a) = P(Z > a)` -/
theorem integral_phi_Ioi (a : ℝ) : ∫ x in Ioi a, phi x = 1 - Phi a := by
  have h1 := intervalIntegral.integral_Iic_add_Ioi (b := a)
    (phi_integrable.integrableOn (s := Iic a)) (phi_integrable.integrableOn (s := Ioi a))
  rw [integral_phi, integral_phi_Iic] at h1
  linarith

theorem Phi_nonneg (x : ℝ) : 0 ≤ Phi x := by
  rw [← integral_phi_Iic]
  exact setIntegral_nonneg measurableSet_Iic fun t _ => (phi_pos t).le

theorem Phi_le_one (x : ℝ) : Phi x ≤ 1 := by
  have h : 0 ≤ ∫ t in Ioi x, phi t := setIntegral_nonneg measurableSet_Ioi fun t _ => (phi_pos t).le
  rw [integral_phi_Ioi] at h
  linarith

/-- `Φ` takes values strictly between 0 and 1 -/
theorem Phi_mem_Ioo (x : ℝ) : 0 < Phi x ∧ Phi x < 1 := by
  constructor
  · exact lt_of_le_of_lt (Phi_nonneg (x - 1)) (Phi_strictMono (by linarith))
  · exact lt_of_lt_of_le (Phi_strictMono (by linarith : x < x + 1)) (Phi_le_one (x + 1))

theorem Phi_tendsto_atTop : Tendsto Phi atTop (𝓝 1) := by
  have h := intervalIntegral_tendsto_integral_Ioi (0 : ℝ) (phi_integrable.integrableOn (s := Ioi 0))
    (tendsto_id (α := ℝ) (x := atTop))
  rw [integral_phi_Ioi_zero] at h
  have h2 := h.const_add (1 / 2 : ℝ)
  have e : (1 / 2 : ℝ) + 1 / 2 = 1 := by norm_num
  rw [e] at h2
  exact h2

theorem Phi_tendsto_atBot : Tendsto Phi atBot (𝓝 0) := by
  have h : Tendsto (fun x => 1 - Phi (-x)) atBot (𝓝 (1 - 1)) :=
    (Phi_tendsto_atTop.comp tendsto_neg_atBot_atTop).const_sub 1
  have e : (fun x => 1 - Phi (-x)) = Phi := by
    funext x; rw [Phi_neg]; ring
  rw [e, sub_self] at h
  exact h

/-- exponential tilt of the normal density is a shift of its mean -/
theorem phi_shift (w z : ℝ) : Real.exp (w * z - w ^ 2 / 2) * phi z = phi (z - w) := by
  unfold phi
  rw [← mul_div_assoc, ← Real.exp_add]
  congr 2
  ring

theorem integral_phi_shift_Ioi (w a : ℝ) : ∫ z in Ioi a, phi (z - w) = 1 - Phi (a - w) := by
  rw [← integral_phi_Ioi (a - w), ← integral_indicator measurableSet_Ioi,
    ← integral_indicator measurableSet_Ioi,
    ← integral_sub_right_eq_self (fun z => (Ioi (a - w)).indicator phi z) w]
  congr 1
  funext z
  by_cases hz : a < z
  · rw [indicator_of_mem (show z ∈ Ioi a from hz),
      indicator_of_mem (show z - w ∈ Ioi (a - w) from sub_lt_sub_right hz w)]
  · rw [indicator_of_notMem (show z ∉ Ioi a from hz),
      indicator_of_notMem (show z - w ∉ Ioi (a - w) from fun h => hz (by simpa using h))]

/-- `E[e^{wZ − w²/2}; Z > a] = 1 − Φ(a − w)` -/
theorem integral_exp_shift_Ioi (w a : ℝ) :
    ∫ z in Ioi a, Real.exp (w * z - w ^ 2 / 2) * phi z = 1 - Phi (a - w) := by
  simp_rw [phi_shift]
  exact integral_phi_shift_Ioi w a

theorem phi_shift_integrable (w : ℝ) : Integrable fun z => phi (z - w) :=
  phi_integrable.comp_sub_right w

theorem exp_shift_integrable (w : ℝ) : Integrable fun z => Real.exp (w * z - w ^ 2 / 2) * phi z := by
  simp_rw [phi_shift]
  exact phi_shift_integrable w

/-- `E[e^{wZ − w²/2}] = 1` -/
theorem integral_exp_shift (w : ℝ) : ∫ z, Real.exp (w * z - w ^ 2 / 2) * phi z = 1 := by
  simp_rw [phi_shift]
  rw [integral_sub_right_eq_self phi w, integral_phi]

end PfVerif
