/-
  C12, several registered underliers: properties of the multi-underlier session model
  (Model/MultiSession.lean).  Proved here, for EVERY history of operations on one derivative object:

    * the registry lists the names in the order of their FIRST registration, each name is bound to the
      instrument assigned / registered LAST under it, `ul i` is the instrument of the i-th name, and
      re-assigning an existing name never changes the order;
    * the answer of `payoff()` is the contract formula on the CURRENT buffers of the instruments the
      contract's accessors return NOW (built-in products, spread by position, spread by name, basket);
    * with the price edits addressed to the instrument the built-in payoff reads, the multi-session IS the
      session of Model/Session.lean (the theorems of Lemmas/C12Session.lean transfer);
    * operations on instruments the contract does not read change no answer.
-/
import PfVerif.Model.MultiSession
import PfVerif.Lemmas.C12Session

namespace PfVerif.C12Multi
open PfVerif PfVerif.MultiSession
open PfVerif.Session (Terms Clause nameOk)
open PfVerif.C12Session (names_addClause lookup_addClause addAll names_addAll lookup_addAll staticOk)

/-! ## the registry after a history -/

section Registry
variable {α : Type}

/-- the registration an operation asks for -/
def regWrite : Op α → Option (String × Nat)
  | .register n id => some (n, id)
  | .assign n id => some (n, id)
  | _ => none

def regStep (attrs : List String) (reg : List (String × Nat)) (op : Op α) : List (String × Nat) :=
  match regWrite op with
  | some p => if nameOk attrs reg p.1 then PfVerif.addClause reg p.1 p.2 else reg
  | none => reg

/-- the registry after a history: a fold that looks at nothing but the registrations -/
def regAfter (attrs : List String) (reg0 : List (String × Nat)) (ops : List (Op α)) : List (String × Nat) :=
  ops.foldl (regStep attrs) reg0

/-- the operation as far as the contract terms are concerned (a Session operation) -/
def toSess : Op α → Session.Op α
  | .setStrike k => .setStrike k
  | .setCall b => .setCall b
  | .toggleCall => .toggleCall
  | .setStart i => .setStart i
  | _ => .query

def termsStep (t : Terms α) (op : Op α) : Terms α :=
  { strike := C12Session.strikeStep t.strike (toSess op), call := C12Session.callStep t.call (toSess op),
    start := C12Session.startStep t.start (toSess op), dt := t.dt }

def weightsStep (ws : List α) : Op α → List α
  | .addWeight w => ws ++ [w]
  | _ => ws

/-- the world after one operation: a price edit goes to the instrument its reference resolves to NOW -/
def worldStep (reg : List (String × Nat)) (w : Nat → Option (List (List α))) : Op α → Nat → Option (List (List α))
  | .setCell r i j v =>
    match resolve reg r with
    | .error _ => w
    | .ok id =>
      match w id with
      | none => w
      | some buf =>
        match Session.setCell buf i j v with
        | some buf' => setW w id buf'
        | none => w
  | .swapBuffer r buf =>
    match resolve reg r with
    | .error _ => w
    | .ok id => setW w id buf
  | _ => w

def clausesStep (attrs : List String) (reg : List (String × Nat)) (cl : List (String × Clause α)) :
    Op α → List (String × Clause α)
  | .addClause n c => if nameOk (attrs ++ reg.map (·.1)) cl n then PfVerif.addClause cl n c else cl
  | _ => cl

private theorem exec_nil (s : State α) : exec s [] = s := rfl

private theorem exec_cons (s : State α) (op : Op α) (ops : List (Op α)) :
    exec s (op :: ops) = exec (next s op) ops := rfl

theorem exec_append (s : State α) (h1 h2 : List (Op α)) :
    exec s (h1 ++ h2) = exec (exec s h1) h2 := by
  simp [exec, List.foldl_append]

/-- one operation acts on each part of the object / the world separately -/
theorem next_eq (s : State α) (op : Op α) :
    next s op = { terms := termsStep s.terms op, weights := weightsStep s.weights op,
                  reg := regStep s.attrs s.reg op, world := worldStep s.reg s.world op,
                  clauses := clausesStep s.attrs s.reg s.clauses op, attrs := s.attrs } := by
  cases op with
  | setCell r i j v =>
    simp only [next, worldStep]
    cases resolve s.reg r with
    | error e => rfl
    | ok id =>
      dsimp only
      cases s.world id with
      | none => rfl
      | some buf => dsimp only; cases Session.setCell buf i j v <;> rfl
  | swapBuffer r buf =>
    simp only [next, worldStep]
    cases resolve s.reg r <;> rfl
  | register n id =>
    simp only [next, regStep, regWrite]
    by_cases h : nameOk s.attrs s.reg n = true
    · rw [if_pos h, if_pos h]; rfl
    · rw [if_neg h, if_neg h]; rfl
  | assign n id =>
    simp only [next, regStep, regWrite]
    by_cases h : nameOk s.attrs s.reg n = true
    · rw [if_pos h, if_pos h]; rfl
    · rw [if_neg h, if_neg h]; rfl
  | addClause n c =>
    by_cases h : nameOk (allAttrs s) s.clauses n = true
    · have h' : nameOk (s.attrs ++ s.reg.map (·.1)) s.clauses n = true := h
      simp only [next, clausesStep, h, h', if_true]; rfl
    · have h' : ¬ nameOk (s.attrs ++ s.reg.map (·.1)) s.clauses n = true := h
      simp only [next, clausesStep, h, h']; rfl
  | _ => rfl

private theorem next_attrs (s : State α) (op : Op α) : (next s op).attrs = s.attrs := by rw [next_eq]

private theorem next_reg (s : State α) (op : Op α) : (next s op).reg = regStep s.attrs s.reg op := by rw [next_eq]

theorem exec_attrs (s : State α) (ops : List (Op α)) : (exec s ops).attrs = s.attrs := by
  induction ops generalizing s with
  | nil => rfl
  | cons op ops ih => rw [exec_cons, ih, next_attrs]

/-- the registry does not depend on anything else in the object or the world -/
theorem exec_reg (s : State α) (ops : List (Op α)) : (exec s ops).reg = regAfter s.attrs s.reg ops := by
  induction ops generalizing s with
  | nil => rfl
  | cons op ops ih => rw [exec_cons, ih, next_attrs, next_reg]; rfl

end Registry

section RegistryFacts
variable {α : Type}

/-- the names of a registry, in order -/
abbrev names {β : Type} (reg : List (String × β)) : List String := reg.map Prod.fst

private theorem any_fst {β : Type} (reg : List (String × β)) (n : String) :
    reg.any (fun p => p.1 == n) = true ↔ n ∈ names reg := by
  simp only [List.any_eq_true, beq_iff_eq, names, List.mem_map]

/-- as long as no registered name is the name of another attribute (true for a fresh object, and
preserved), a registration is accepted exactly when the name is statically valid -/
theorem nameOk_static {β : Type} (attrs : List String) (reg : List (String × β)) (n : String)
    (hreg : ∀ p ∈ reg, attrs.contains p.1 = false) : nameOk attrs reg n = staticOk attrs n := by
  unfold Session.nameOk staticOk
  by_cases ha : attrs.contains n = true
  · have : reg.any (fun p => p.1 == n) = false := by
      simp only [List.any_eq_false, beq_iff_eq]
      intro p hp hpn
      have := hreg p hp
      rw [hpn, ha] at this; exact absurd this (by simp)
    simp [this]
  · have hn : n ∉ attrs := by simpa using ha
    simp [hn]

/-- no registered name is the name of another attribute of the object -/
def RegOk {β : Type} (attrs : List String) (reg : List (String × β)) : Prop :=
  ∀ p ∈ reg, attrs.contains p.1 = false

/-- the accepted registrations of a history, in order -/
def validRegs (attrs : List String) (ops : List (Op α)) : List (String × Nat) :=
  ops.filterMap (fun op => match regWrite op with
    | some p => if staticOk attrs p.1 then some p else none
    | none => none)

private theorem regOk_addClause {β : Type} (attrs : List String) (reg : List (String × β)) (n : String) (c : β)
    (h : RegOk attrs reg) (hn : staticOk attrs n = true) : RegOk attrs (PfVerif.addClause reg n c) := by
  intro p hp
  have hnames : p.1 ∈ (PfVerif.addClause reg n c).map Prod.fst := List.mem_map.2 ⟨p, hp, rfl⟩
  rw [names_addClause] at hnames
  have hn' : attrs.contains n = false := by
    unfold staticOk at hn
    cases h' : attrs.contains n <;> simp_all
  split at hnames
  · obtain ⟨q, hq, hqp⟩ := List.mem_map.1 hnames
    rw [← hqp]; exact h q hq
  · rcases List.mem_append.1 hnames with h' | h'
    · obtain ⟨q, hq, hqp⟩ := List.mem_map.1 h'
      rw [← hqp]; exact h q hq
    · rw [List.mem_singleton.1 h']; exact hn'

private theorem regStep_regOk (attrs : List String) (reg : List (String × Nat)) (op : Op α) (h : RegOk attrs reg) :
    RegOk attrs (regStep attrs reg op) := by
  unfold regStep
  cases hw : regWrite op with
  | none => exact h
  | some p =>
    dsimp only
    by_cases hok : nameOk attrs reg p.1 = true
    · rw [if_pos hok]
      exact regOk_addClause attrs reg p.1 p.2 h (by rw [← nameOk_static attrs reg p.1 h]; exact hok)
    · rw [if_neg hok]; exact h

theorem regAfter_regOk (attrs : List String) (reg0 : List (String × Nat)) (ops : List (Op α))
    (h : RegOk attrs reg0) : RegOk attrs (regAfter attrs reg0 ops) := by
  unfold regAfter
  induction ops generalizing reg0 with
  | nil => exact h
  | cons op ops ih => rw [List.foldl_cons]; exact ih _ (regStep_regOk attrs reg0 op h)

/-- the registry after a history: the accepted registrations, through the OrderedDict update, in order -/
theorem regAfter_eq_addAll (attrs : List String) (reg0 : List (String × Nat)) (h : RegOk attrs reg0)
    (ops : List (Op α)) : regAfter attrs reg0 ops = addAll reg0 (validRegs attrs ops) := by
  unfold regAfter addAll validRegs
  induction ops generalizing reg0 with
  | nil => rfl
  | cons op ops ih =>
    rw [List.foldl_cons, List.filterMap_cons, ih _ (regStep_regOk attrs reg0 op h)]
    unfold regStep
    cases hw : regWrite op with
    | none => rfl
    | some p =>
      dsimp only
      rw [nameOk_static attrs reg0 p.1 h]
      cases hs : staticOk attrs p.1 with
      | false => simp
      | true => simp

/-- **Order of first registration.**  After any history the registry lists the names it had, followed by
the new names in the order in which they were FIRST (validly) registered or assigned; a registration under
a name already present changes nothing in the order. -/
theorem names_after_history (s : State α) (h : RegOk s.attrs s.reg) (ops : List (Op α)) :
    names (exec s ops).reg
      = (validRegs s.attrs ops).foldl (fun ns p => if p.1 ∈ ns then ns else ns ++ [p.1]) (names s.reg) := by
  rw [exec_reg, regAfter_eq_addAll _ _ h, names, names_addAll]

/-- **Last assignment wins.**  After any history each name is bound to the instrument registered or
assigned LAST under it (to the instrument it had before, if the history does not mention it). -/
theorem binding_after_history (s : State α) (h : RegOk s.attrs s.reg) (ops : List (Op α)) (n : String) :
    getName (exec s ops).reg n
      = match ((validRegs s.attrs ops).filter (fun p => p.1 == n)).getLast? with
        | some p => .ok p.2
        | none => getName s.reg n := by
  unfold getName
  rw [exec_reg, regAfter_eq_addAll _ _ h, lookup_addAll]
  cases ((validRegs s.attrs ops).filter (fun p => p.1 == n)).getLast? <;> rfl

end RegistryFacts

/-! ## positions: `ul i` is the instrument of the i-th name; a re-assignment keeps every position -/

section Positions
variable {α : Type}

private theorem nodup_addClause {β : Type} (reg : List (String × β)) (n : String) (c : β)
    (h : (names reg).Nodup) : (names (PfVerif.addClause reg n c)).Nodup := by
  rw [names, names_addClause]
  split
  · exact h
  · rename_i hn
    exact List.nodup_append.2 ⟨h, List.nodup_singleton n, by
      intro a ha b hb; rw [List.mem_singleton.1 hb]; intro hab; exact hn (hab ▸ ha)⟩

private theorem regStep_nodup (attrs : List String) (reg : List (String × Nat)) (op : Op α)
    (h : (names reg).Nodup) : (names (regStep attrs reg op)).Nodup := by
  unfold regStep
  cases regWrite op with
  | none => exact h
  | some p =>
    dsimp only
    split
    · exact nodup_addClause reg p.1 p.2 h
    · exact h

/-- a name is registered at most once, whatever the history -/
theorem names_nodup_after (s : State α) (h : (names s.reg).Nodup) (ops : List (Op α)) :
    (names (exec s ops).reg).Nodup := by
  induction ops generalizing s with
  | nil => exact h
  | cons op ops ih => rw [exec_cons]; apply ih; rw [next_reg]; exact regStep_nodup _ _ _ h

private theorem lookup_cons_ite {β : Type} (k a : String) (b : β) (es : List (String × β)) :
    List.lookup k ((a, b) :: es) = if k = a then some b else List.lookup k es := by
  rw [List.lookup_cons]
  by_cases h : k = a
  · subst h; simp
  · have hf : (k == a) = false := by simpa using h
    rw [hf, if_neg h]

/-- in a registry without repeated names, the entry at a position is what the name at that position is bound to -/
theorem lookup_of_getElem {β : Type} (reg : List (String × β)) (h : (names reg).Nodup) (k : Nat) (p : String × β)
    (hk : reg[k]? = some p) : reg.lookup p.1 = some p.2 := by
  induction reg generalizing k with
  | nil => simp at hk
  | cons q reg ih =>
    obtain ⟨a, b⟩ := q
    have hnd := List.nodup_cons.1 h
    cases k with
    | zero =>
      simp only [List.getElem?_cons_zero, Option.some.injEq] at hk
      subst hk
      rw [lookup_cons_ite, if_pos rfl]
    | succ k =>
      rw [List.getElem?_cons_succ] at hk
      have hmem : p.1 ∈ names reg := List.mem_map.2 ⟨p, List.mem_of_getElem? hk, rfl⟩
      have hne : p.1 ≠ a := fun e => hnd.1 (e ▸ hmem)
      rw [lookup_cons_ite, if_neg hne]
      exact ih hnd.2 k hk

private theorem pyIndex_lt {n : Nat} {i : Int} {k : Nat} (h : pyIndex n i = some k) : k < n := by
  unfold pyIndex at h
  split at h
  · split at h
    · simp only [Option.some.injEq] at h; omega
    · simp at h
  · split at h
    · simp only [Option.some.injEq] at h; omega
    · simp at h

/-- **`ul i` is the instrument of the i-th name** (Python index `i`, position `k`): position lookup and name
lookup return the same instrument -/
theorem ul_eq_get_ith_name (reg : List (String × Nat)) (h : (names reg).Nodup) (i : Int) (k : Nat)
    (hk : pyIndex reg.length i = some k) :
    ∃ n, (names reg)[k]? = some n ∧ ulAt reg i = getName reg n := by
  have hlt := pyIndex_lt hk
  have hget : reg[k]? = some reg[k] := List.getElem?_eq_getElem hlt
  refine ⟨reg[k].1, by simp [names, hget], ?_⟩
  unfold ulAt getName
  rw [hk]; dsimp only
  rw [hget, lookup_of_getElem reg h k reg[k] hget]

/-- after ANY history: `ul i` = the instrument bound to the i-th name of the registry, i.e. (by
`binding_after_history`) the one assigned / registered LAST under the name that was the i-th to be registered -/
theorem ul_after_history (s : State α) (h : (names s.reg).Nodup) (ops : List (Op α)) (i : Int) (k : Nat)
    (hk : pyIndex (exec s ops).reg.length i = some k) :
    ∃ n, (names (exec s ops).reg)[k]? = some n ∧ ulAt (exec s ops).reg i = getName (exec s ops).reg n :=
  ul_eq_get_ith_name _ (names_nodup_after s h ops) i k hk

/-- outside the registry's range `ul i` raises IndexError -/
theorem ul_out_of_range (reg : List (String × Nat)) (i : Int) (hk : pyIndex reg.length i = none) :
    ulAt reg i = .error (.err .runtimeError) := by
  unfold ulAt; rw [hk]

/-- **Re-assigning an existing name never changes the order**: the names are as before (whether the
operation is an attribute assignment or a `register_underlier` call) -/
theorem reassign_keeps_order (s : State α) (n : String) (id : Nat) (hn : n ∈ names s.reg) :
    names (next s (.assign n id)).reg = names s.reg ∧ names (next s (.register n id)).reg = names s.reg := by
  have key : names (if nameOk s.attrs s.reg n then PfVerif.addClause s.reg n id else s.reg) = names s.reg := by
    split
    · rw [names, names_addClause, if_pos hn]
    · rfl
  constructor <;> (rw [next_reg]; exact key)

/-- an attribute assignment and a `register_underlier` call are the same operation on the object -/
theorem assign_eq_register (s : State α) (n : String) (id : Nat) :
    next s (.assign n id) = next s (.register n id) := rfl

/-- the entries of the registry after the OrderedDict update under an existing name: position by position,
the entry of that name is replaced, every other entry is as before -/
theorem getElem_addClause_present {β : Type} (reg : List (String × β)) (n : String) (c : β)
    (hn : n ∈ names reg) (k : Nat) :
    (PfVerif.addClause reg n c)[k]? = (reg[k]?).map (fun p => if p.1 = n then (n, c) else p) := by
  have : reg.any (fun p => p.1 == n) = true := (any_fst reg n).2 hn
  unfold PfVerif.addClause
  rw [if_pos this, List.getElem?_map]
  cases reg[k]? with
  | none => rfl
  | some p => by_cases hp : p.1 = n <;> simp [hp]

/-- a new name goes to the end: the existing positions are untouched -/
theorem getElem_addClause_new {β : Type} (reg : List (String × β)) (n : String) (c : β)
    (hn : n ∉ names reg) (k : Nat) :
    (PfVerif.addClause reg n c)[k]? = if k = reg.length then some (n, c) else reg[k]? := by
  have : ¬ reg.any (fun p => p.1 == n) = true := fun h => hn ((any_fst reg n).1 h)
  unfold PfVerif.addClause
  rw [if_neg this]
  by_cases hk : k = reg.length
  · subst hk; simp
  · rw [if_neg hk]
    rcases Nat.lt_or_gt_of_ne hk with h | h
    · rw [List.getElem?_append_left h]
    · rw [List.getElem?_eq_none (by simp; omega), List.getElem?_eq_none (by omega)]

/-- **`ul` after a re-assignment**: at the position of the re-assigned name `ul` returns the NEW instrument, at
every other position the instrument it returned before -/
theorem ul_after_reassign (s : State α) (n : String) (id : Nat) (hn : n ∈ names s.reg)
    (hok : nameOk s.attrs s.reg n = true) (i : Int) (k : Nat) (hk : pyIndex s.reg.length i = some k) :
    ulAt (next s (.assign n id)).reg i = if (names s.reg)[k]? = some n then .ok id else ulAt s.reg i := by
  have hlen : (PfVerif.addClause s.reg n id).length = s.reg.length := by
    have := congrArg List.length (show names (PfVerif.addClause s.reg n id) = names s.reg by
      rw [names, names_addClause, if_pos hn])
    simpa [names] using this
  have hlt := pyIndex_lt hk
  rw [next_reg]
  unfold regStep regWrite ulAt
  dsimp only
  rw [if_pos hok, hlen, hk]
  dsimp only
  rw [getElem_addClause_present s.reg n id hn k, List.getElem?_eq_getElem hlt]
  simp only [names, List.getElem?_map, List.getElem?_eq_getElem hlt, Option.map_some, Option.some.injEq]
  by_cases hp : s.reg[k].1 = n <;> simp [hp]

/-- the registry only grows at the end -/
theorem names_prefix (s : State α) (ops : List (Op α)) : names s.reg <+: names (exec s ops).reg := by
  induction ops generalizing s with
  | nil => exact List.prefix_refl _
  | cons op ops ih =>
    rw [exec_cons]
    refine List.IsPrefix.trans ?_ (ih _)
    rw [next_reg]
    unfold regStep
    cases regWrite op with
    | none => exact List.prefix_refl _
    | some p =>
      dsimp only
      split
      · show List.map Prod.fst s.reg <+: List.map Prod.fst (PfVerif.addClause s.reg p.1 p.2)
        rw [names_addClause]
        split
        · exact List.prefix_refl _
        · exact List.prefix_append _ _
      · exact List.prefix_refl _

/-- **The position of a name is fixed by its FIRST registration**: a name that is new when it is registered
(after the history `h1`) takes the next free position and keeps it through every later history `h2`,
whatever is re-assigned or registered afterwards -/
theorem position_of_first_registration (s : State α) (h1 h2 : List (Op α)) (op : Op α) (n : String) (id : Nat)
    (hop : regWrite op = some (n, id)) (hnew : n ∉ names (exec s h1).reg)
    (hok : nameOk s.attrs (exec s h1).reg n = true) :
    (names (exec s (h1 ++ op :: h2)).reg)[(names (exec s h1).reg).length]? = some n ∧
    names (exec s h1).reg <+: names (exec s (h1 ++ op :: h2)).reg := by
  rw [exec_append, exec_cons]
  have hstep : names (next (exec s h1) op).reg = names (exec s h1).reg ++ [n] := by
    rw [next_reg, exec_attrs]
    unfold regStep
    rw [hop]; dsimp only
    rw [if_pos hok, names, names_addClause, if_neg hnew]
  have hpre := names_prefix (next (exec s h1) op) h2
  rw [hstep] at hpre
  constructor
  · obtain ⟨t, ht⟩ := hpre
    rw [← ht]
    simp
  · exact List.IsPrefix.trans (List.prefix_append _ _) hpre

end Positions

/-! ## the object after a history: every part is a fold of the history -/

section History
variable {α : Type}

/-- the contract terms: the folds of Model/Session.lean (Lemmas/C12Session.lean: last write wins) -/
def termsAfter (t0 : Terms α) (ops : List (Op α)) : Terms α := C12Session.termsAfter t0 (ops.map toSess)

def weightsAfter (ws0 : List α) (ops : List (Op α)) : List α := ops.foldl weightsStep ws0

/-- the world after a history: every price edit goes to the instrument its reference resolved to WHEN it was made -/
def worldAfter (attrs : List String) :
    List (String × Nat) → (Nat → Option (List (List α))) → List (Op α) → Nat → Option (List (List α))
  | _, w, [] => w
  | reg, w, op :: ops => worldAfter attrs (regStep attrs reg op) (worldStep reg w op) ops

/-- the clauses after a history (a clause may not take the name of an underlier registered by then) -/
def clausesAfter (attrs : List String) :
    List (String × Nat) → List (String × Clause α) → List (Op α) → List (String × Clause α)
  | _, cl, [] => cl
  | reg, cl, op :: ops => clausesAfter attrs (regStep attrs reg op) (clausesStep attrs reg cl op) ops

/-- each part of the object / the world evolves by its own fold -/
theorem exec_eq (s : State α) (ops : List (Op α)) :
    exec s ops = { terms := termsAfter s.terms ops, weights := weightsAfter s.weights ops,
                   reg := regAfter s.attrs s.reg ops, world := worldAfter s.attrs s.reg s.world ops,
                   clauses := clausesAfter s.attrs s.reg s.clauses ops, attrs := s.attrs } := by
  induction ops generalizing s with
  | nil => rfl
  | cons op ops ih =>
    rw [exec_cons, ih, next_eq]
    rfl

/-- the basket weights: the initial ones followed by the appended ones, in order -/
theorem weightsAfter_eq (ws0 : List α) (ops : List (Op α)) :
    weightsAfter ws0 ops = ws0 ++ ops.filterMap (fun op => match op with | .addWeight w => some w | _ => none) := by
  unfold weightsAfter
  induction ops generalizing ws0 with
  | nil => simp
  | cons op ops ih =>
    rw [List.foldl_cons, ih]
    cases op <;> simp [weightsStep]

/-- the current strike is the last one set, else the initial one (as in the one-buffer session) -/
theorem strike_after_history (s : State α) (ops : List (Op α)) :
    (exec s ops).terms.strike
      = (((ops.map toSess).filterMap C12Session.strikeWrite).getLast?).getD s.terms.strike := by
  rw [exec_eq]
  exact C12Session.strikeAfter_eq_last _ _

/-- the instrument a price edit goes to, in a given registry -/
def targetOf (reg : List (String × Nat)) : Op α → Option Nat
  | .setCell r _ _ _ => (resolve reg r).toOption
  | .swapBuffer r _ => (resolve reg r).toOption
  | _ => none

/-- the instruments edited by a history (each reference resolved when the edit was made) -/
def targets (attrs : List String) : List (String × Nat) → List (Op α) → List Nat
  | _, [] => []
  | reg, op :: ops => (targetOf reg op).toList ++ targets attrs (regStep attrs reg op) ops

theorem worldStep_other (reg : List (String × Nat)) (w : Nat → Option (List (List α))) (op : Op α) (id : Nat)
    (h : targetOf reg op ≠ some id) : worldStep reg w op id = w id := by
  cases op with
  | setCell r i j v =>
    simp only [worldStep, targetOf] at h ⊢
    cases hr : resolve reg r with
    | error e => rfl
    | ok k =>
      rw [hr] at h
      have hk : id ≠ k := fun e => h (by simp [Except.toOption, e])
      dsimp only
      cases w k with
      | none => rfl
      | some buf =>
        dsimp only
        cases Session.setCell buf i j v with
        | none => rfl
        | some b => simp [setW, hk]
  | swapBuffer r buf =>
    simp only [worldStep, targetOf] at h ⊢
    cases hr : resolve reg r with
    | error e => rfl
    | ok k =>
      rw [hr] at h
      have hk : id ≠ k := fun e => h (by simp [Except.toOption, e])
      simp [setW, hk]
  | _ => rfl

/-- a buffer swap puts the new buffer into the instrument the reference resolves to -/
theorem worldStep_swap (reg : List (String × Nat)) (w : Nat → Option (List (List α))) (r : Ref)
    (buf : List (List α)) (id : Nat) (h : resolve reg r = .ok id) :
    worldStep reg w (.swapBuffer r buf) id = some buf := by
  simp [worldStep, h, setW]

/-- an instrument no edit of the history went to has the buffer it had -/
theorem worldAfter_untouched (attrs : List String) (reg : List (String × Nat))
    (w : Nat → Option (List (List α))) (ops : List (Op α)) (id : Nat) (h : id ∉ targets attrs reg ops) :
    worldAfter attrs reg w ops id = w id := by
  induction ops generalizing reg w with
  | nil => rfl
  | cons op ops ih =>
    simp only [targets, List.mem_append, not_or] at h
    rw [worldAfter, ih _ _ h.2]
    apply worldStep_other
    intro e
    exact h.1 (by simp [e])

private theorem spotOf_congr (w w' : Nat → Option (List (List α))) (id : Nat) (h : w id = w' id) :
    spotOf w id = spotOf w' id := by
  unfold spotOf; rw [h]

private theorem mem_okList (r : Except Fault Nat) (id : Nat) : id ∈ okList r ↔ r = .ok id := by
  cases r with
  | error e => simp [okList]
  | ok k => simp [okList, eq_comm]

private theorem getName_cons (a : String) (b : Nat) (reg : List (String × Nat)) (n : String) :
    getName ((a, b) :: reg) n = if n = a then .ok b else getName reg n := by
  by_cases h : n = a <;> simp [getName, lookup_cons_ite, h]

/-- what `ul` returns is a registered instrument -/
theorem ulAt_ok_mem (reg : List (String × Nat)) (i : Int) (id : Nat) (h : ulAt reg i = .ok id) :
    id ∈ reg.map Prod.snd := by
  unfold ulAt at h
  split at h
  · simp at h
  · split at h
    · rename_i p hp
      simp only [Except.ok.injEq] at h
      exact List.mem_map.2 ⟨p, List.mem_of_getElem? hp, h⟩
    · simp at h

/-- what a name lookup returns is a registered instrument -/
theorem getName_ok_mem (reg : List (String × Nat)) (n : String) (id : Nat) (h : getName reg n = .ok id) :
    id ∈ reg.map Prod.snd := by
  unfold getName at h
  split at h
  · rename_i k hl
    simp only [Except.ok.injEq] at h
    subst h
    induction reg with
    | nil => simp at hl
    | cons q reg ih =>
      obtain ⟨a, b⟩ := q
      rw [lookup_cons_ite] at hl
      by_cases hn : n = a
      · rw [if_pos hn] at hl; simp at hl; simp [hl]
      · rw [if_neg hn] at hl
        exact List.mem_cons_of_mem _ (ih hl)
  · simp at h

end History

/-! ## the answer of `payoff()` after a history; which buffers it reads -/

section Answer
variable {α : Type} [Add α] [Sub α] [Mul α] [OfNat α 0] [LE α] [DecidableLE α] [Max α] [Min α]
variable (pp : Terms α → List α → Except Err α)

/-- **History-independence.**  After ANY history the answer of `payoff()` is the contract's payoff
(`payoffAt`: `payoff_fn` through the accessors of the CURRENT registry on the CURRENT buffers, then the current
clauses) - every argument a fold of the history; no earlier call, no earlier registration enters. -/
theorem answer_after_history (c : Contract) (s : State α) (ops : List (Op α)) :
    answer pp c (exec s ops)
      = outOf (payoffAt pp c (termsAfter s.terms ops) (weightsAfter s.weights ops) (regAfter s.attrs s.reg ops)
          (worldAfter s.attrs s.reg s.world ops) (clausesAfter s.attrs s.reg s.clauses ops)) := by
  rw [exec_eq]; rfl

private theorem run_nil (c : Contract) (s : State α) : run pp c s [] = (s, []) := rfl

private theorem run_cons (c : Contract) (s : State α) (op : Op α) (ops : List (Op α)) :
    run pp c s (op :: ops)
      = ((run pp c (next s op) ops).1, output pp c s op :: (run pp c (next s op) ops).2) := rfl

/-- the final state of `run` is `exec` (it depends neither on the contract nor on the payoff function) -/
theorem run_fst (c : Contract) (s : State α) (ops : List (Op α)) : (run pp c s ops).1 = exec s ops := by
  induction ops generalizing s with
  | nil => rfl
  | cons op ops ih => rw [run_cons, exec_cons]; exact ih _

theorem run_append (c : Contract) (s : State α) (h1 h2 : List (Op α)) :
    run pp c s (h1 ++ h2)
      = (exec s (h1 ++ h2), (run pp c s h1).2 ++ (run pp c (exec s h1) h2).2) := by
  induction h1 generalizing s with
  | nil => simp [run_nil, ← run_fst pp c]
  | cons op ops ih =>
    rw [List.cons_append, run_cons, ih, run_cons, exec_cons, exec_cons]
    rfl

/-- one output per operation -/
theorem run_length (c : Contract) (s : State α) (ops : List (Op α)) :
    (run pp c s ops).2.length = ops.length := by
  induction ops generalizing s with
  | nil => rfl
  | cons op ops ih => rw [run_cons]; simp [ih]

/-- every output is the output of its operation in the state reached by the operations BEFORE it -/
theorem run_get (c : Contract) (s : State α) (h1 : List (Op α)) (op : Op α) (h2 : List (Op α)) :
    (run pp c s (h1 ++ op :: h2)).2[h1.length]? = some (output pp c (exec s h1) op) := by
  rw [run_append, run_cons]
  simp [run_length]

/-- every `payoff()` answer inside a history is the contract's payoff on the folds of the operations before it;
every registry query shows the registry fold of the operations before it -/
theorem query_in_history (c : Contract) (s : State α) (h1 h2 : List (Op α)) :
    (run pp c s (h1 ++ Op.query :: h2)).2[h1.length]?
      = some (outOf (payoffAt pp c (termsAfter s.terms h1) (weightsAfter s.weights h1) (regAfter s.attrs s.reg h1)
          (worldAfter s.attrs s.reg s.world h1) (clausesAfter s.attrs s.reg s.clauses h1))) ∧
    (run pp c s (h1 ++ Op.names :: h2)).2[h1.length]? = some (.listing (regAfter s.attrs s.reg h1)) ∧
    (∀ i, (run pp c s (h1 ++ Op.ul i :: h2)).2[h1.length]? = some (instOut (ulAt (regAfter s.attrs s.reg h1) i))) ∧
    (∀ n, (run pp c s (h1 ++ Op.get n :: h2)).2[h1.length]?
        = some (instOut (getName (regAfter s.attrs s.reg h1) n))) := by
  refine ⟨?_, ?_, ?_, ?_⟩
  · rw [run_get, ← answer_after_history]; rfl
  · rw [run_get, ← exec_reg]; rfl
  · intro i; rw [run_get, ← exec_reg]; rfl
  · intro n; rw [run_get, ← exec_reg]; rfl

/-! ### the buffers a payoff reads -/

private theorem bind_congr' {ε β γ : Type} (x : Except ε β) (f g : β → Except ε γ)
    (h : ∀ a, x = .ok a → f a = g a) : (x >>= f) = (x >>= g) := by
  cases x with
  | error e => rfl
  | ok a => exact h a rfl

omit [Add α] [Mul α] [Max α] [Min α] in
private theorem spread_congr (k : α) (w w' : Nat → Option (List (List α))) (a b : Nat) (ha : w a = w' a)
    (hb : w b = w' b) : spread k w a b = spread k w' a b := by
  unfold spread; rw [spotOf_congr w w' a ha, spotOf_congr w w' b hb]

omit [Sub α] [LE α] [DecidableLE α] [Max α] [Min α] in
private theorem basketAcc_congr (w w' : Nat → Option (List (List α))) (l : List (α × Nat))
    (h : ∀ p ∈ l, w p.2 = w' p.2) (acc : Option (List α)) : basketAcc w acc l = basketAcc w' acc l := by
  induction l generalizing acc with
  | nil => rfl
  | cons p l ih =>
    obtain ⟨wt, id⟩ := p
    unfold basketAcc
    rw [spotOf_congr w w' id (h (wt, id) List.mem_cons_self)]
    apply bind_congr'
    intro col _
    apply bind_congr'
    intro acc' _
    exact ih (fun q hq => h q (List.mem_cons_of_mem _ hq)) _

omit [Max α] [Min α] in
private theorem baseOf_congr (c : Contract) (t : Terms α) (ws : List α) (reg : List (String × Nat))
    (cl : List (String × Clause α)) (w w' : Nat → Option (List (List α)))
    (h : ∀ id ∈ reads c ws reg cl, w id = w' id) : baseOf pp c t ws reg w = baseOf pp c t ws reg w' := by
  cases c with
  | ul0 =>
    unfold baseOf
    apply bind_congr'
    intro id hid
    rw [spotOf_congr w w' id (h id (by simp [reads, hid, okList]))]
  | spreadPos =>
    unfold baseOf
    apply bind_congr'
    intro a ha
    apply bind_congr'
    intro b hb
    exact spread_congr _ w w' a b (h a (by simp [reads, ha, okList])) (h b (by simp [reads, hb, okList]))
  | spreadName f g =>
    unfold baseOf
    apply bind_congr'
    intro a ha
    apply bind_congr'
    intro b hb
    exact spread_congr _ w w' a b (h a (by simp [reads, ha, okList])) (h b (by simp [reads, hb, okList]))
  | basket =>
    unfold baseOf basket
    rw [basketAcc_congr w w' _ (fun p hp => h p.2 (by
      simp only [reads, List.mem_append, List.mem_map]
      exact Or.inl ⟨p, hp, rfl⟩))]

omit [Sub α] in
private theorem clauseM_congr (reg : List (String × Nat)) (w w' : Nat → Option (List (List α))) (c : Clause α)
    (p : List α) (h : isKnock c = true → ∀ id, ulAt reg 0 = .ok id → w id = w' id) :
    clauseM reg w c p = clauseM reg w' c p := by
  cases c with
  | knockOut b =>
    unfold clauseM
    apply bind_congr'
    intro id hid
    rw [spotOf_congr w w' id (h rfl id hid)]
  | _ => rfl

/-- **The answer depends on the buffers the contract reads, and on no other.**  Two worlds that agree on the
instruments in `reads` (those the accessors of the contract return now, and `ul()` if a knock-out clause is
registered) give the same payoff - whatever happened to every other instrument, registered or not. -/
theorem payoffAt_congr_world (c : Contract) (t : Terms α) (ws : List α) (reg : List (String × Nat))
    (cl : List (String × Clause α)) (w w' : Nat → Option (List (List α)))
    (h : ∀ id ∈ reads c ws reg cl, w id = w' id) :
    payoffAt pp c t ws reg w cl = payoffAt pp c t ws reg w' cl := by
  unfold payoffAt
  rw [baseOf_congr pp c t ws reg cl w w' h]
  congr 1
  unfold clauseFnsM
  apply List.map_congr_left
  intro q hq
  congr 1
  funext acc
  cases acc with
  | error e => rfl
  | ok v =>
    apply clauseM_congr
    intro hk id hid
    apply h
    have : cl.any (fun p => isKnock p.2) = true := List.any_eq_true.2 ⟨q, hq, hk⟩
    simp [reads, this, hid, okList]

omit [Add α] [Sub α] [Mul α] [OfNat α 0] [LE α] [DecidableLE α] [Max α] [Min α] in
/-- everything a contract reads is registered -/
theorem reads_subset_registered (c : Contract) (ws : List α) (reg : List (String × Nat))
    (cl : List (String × Clause α)) : ∀ id ∈ reads c ws reg cl, id ∈ reg.map Prod.snd := by
  have hul : ∀ i id, id ∈ okList (ulAt reg i) → id ∈ reg.map Prod.snd :=
    fun i id h => ulAt_ok_mem reg i id ((mem_okList _ _).1 h)
  have hget : ∀ n id, id ∈ okList (getName reg n) → id ∈ reg.map Prod.snd :=
    fun n id h => getName_ok_mem reg n id ((mem_okList _ _).1 h)
  intro id hid
  unfold reads at hid
  rcases List.mem_append.1 hid with h | h
  · cases c with
    | ul0 => exact hul 0 id h
    | spreadPos => rcases List.mem_append.1 h with h | h <;> exact hul _ id h
    | spreadName f g => rcases List.mem_append.1 h with h | h <;> exact hget _ id h
    | basket =>
      obtain ⟨p, hp, rfl⟩ := List.mem_map.1 h
      exact (List.of_mem_zip hp).2
  · split at h
    · exact hul 0 id h
    · simp at h

end Answer

/-! ## refinement: the one-buffer session inside the multi-underlier session -/

section Refinement
variable {α : Type} [Add α] [Sub α] [Mul α] [OfNat α 0] [LE α] [DecidableLE α] [Max α] [Min α]
variable (pp : Terms α → List α → Except Err α)

/-- the object of Model/Session.lean seen in a state: the terms, ONE buffer, the clauses, and every name
`hasattr` finds (the static attributes and the registered underliers) -/
def proj (s : State α) (buf : List (List α)) : Session.State α :=
  { terms := s.terms, spot := buf, clauses := s.clauses, attrs := allAttrs s }

/-- what the one-buffer session shows, as an output of the multi-underlier session -/
def embed : Session.Out α → Out α
  | .none => .none
  | .payoff v => .payoff v
  | .error e => .error (.err e)

omit [Add α] [Sub α] [Mul α] [OfNat α 0] [LE α] [DecidableLE α] [Max α] [Min α] in
private theorem embed_outOf (r : Except Err (List α)) : embed (Session.outOf r) = outOf (liftE r) := by
  cases r <;> rfl

omit [Sub α] in
private theorem clauseM_eq (reg : List (String × Nat)) (w : Nat → Option (List (List α))) (id : Nat)
    (buf : List (List α)) (hu : ulAt reg 0 = .ok id) (hw : w id = some buf) (c : Clause α) (v : List α) :
    clauseM reg w c v = liftE (c.apply buf v) := by
  cases c with
  | knockOut b =>
    unfold clauseM
    rw [hu]
    show (spotOf w id >>= fun buf => liftE (Session.knockVec b buf v)) = _
    unfold spotOf
    rw [hw]
    rfl
  | _ => rfl

omit [Sub α] in
private theorem applyClauses_lift (reg : List (String × Nat)) (w : Nat → Option (List (List α))) (id : Nat)
    (buf : List (List α)) (hu : ulAt reg 0 = .ok id) (hw : w id = some buf) (cl : List (String × Clause α))
    (b : Except Err (List α)) :
    applyClauses (clauseFnsM reg w cl) (liftE b) = liftE (applyClauses (Session.clauseFns buf cl) b) := by
  unfold applyClauses clauseFnsM Session.clauseFns
  induction cl generalizing b with
  | nil => rfl
  | cons q cl ih =>
    rw [List.map_cons, List.foldl_cons, List.map_cons, List.foldl_cons]
    cases b with
    | error e => exact ih (.error e)
    | ok v =>
      show List.foldl _ (clauseM reg w q.2 v) _ = _
      rw [clauseM_eq reg w id buf hu hw]
      exact ih (q.2.apply buf v)

/-- **A built-in product reads `ul()`.**  Its payoff through the registry is the payoff of Model/Session.lean
(`payoffOf`: Model/Payoff.lean per path, then the clauses) on the buffer of the instrument at position 0 -
however many further underliers are registered. -/
theorem payoffAt_ul0 (t : Terms α) (ws : List α) (reg : List (String × Nat))
    (w : Nat → Option (List (List α))) (cl : List (String × Clause α)) (id : Nat) (buf : List (List α))
    (hu : ulAt reg 0 = .ok id) (hw : w id = some buf) :
    payoffAt pp .ul0 t ws reg w cl = liftE (Session.payoffOf pp t buf cl) := by
  unfold payoffAt Session.payoffOf
  rw [← applyClauses_lift reg w id buf hu hw]
  congr 1
  unfold baseOf
  rw [hu]
  show (spotOf w id >>= fun buf => liftE (Session.basePayoff pp t buf)) = _
  unfold spotOf
  rw [hw]
  rfl

theorem answer_ul0 (s : State α) (id : Nat) (buf : List (List α)) (hu : ulAt s.reg 0 = .ok id)
    (hw : s.world id = some buf) : answer pp .ul0 s = embed (Session.answer pp (proj s buf)) := by
  unfold answer Session.answer
  rw [payoffAt_ul0 pp _ _ _ _ _ id buf hu hw, embed_outOf]
  rfl

/-- **Which instrument a built-in payoff reads after a history.**  After ANY history of registrations,
re-assignments, price edits and clause registrations, the payoff of a built-in product is the payoff of
Model/Session.lean on the buffer of the instrument bound NOW to the name that was registered FIRST (`underlier`) -
wherever else that instrument or others are registered, and whatever was bound to the name before. -/
theorem builtin_after_history (s : State α) (ops : List (Op α)) (hnd : (names s.reg).Nodup) (n0 : String)
    (rest : List String) (hnames : names s.reg = n0 :: rest) (id : Nat) (buf : List (List α))
    (hget : getName (exec s ops).reg n0 = .ok id) (hw : (exec s ops).world id = some buf) :
    ulAt (exec s ops).reg 0 = .ok id ∧
    answer pp .ul0 (exec s ops)
      = embed (Session.outOf (Session.payoffOf pp (exec s ops).terms buf (exec s ops).clauses)) := by
  obtain ⟨t, ht⟩ := names_prefix s ops
  rw [hnames] at ht
  have hlen : 0 < (exec s ops).reg.length := by
    have := congrArg List.length ht
    simp [names] at this
    omega
  have hk : pyIndex (exec s ops).reg.length 0 = some 0 := by
    unfold pyIndex; simp [hlen]
  obtain ⟨n, hn, hul⟩ := ul_after_history s hnd ops 0 0 hk
  rw [← ht] at hn
  simp only [List.cons_append, List.getElem?_cons_zero, Option.some.injEq] at hn
  subst hn
  rw [hget] at hul
  exact ⟨hul, answer_ul0 pp _ id buf hul hw⟩

/-- one Session operation, carried out through a reference to instrument `id`, is that operation on the
one-buffer object whose buffer is the buffer of `id` - state and output -/
theorem step_lift (s : State α) (r : Ref) (id : Nat) (buf : List (List α)) (hr : resolve s.reg r = .ok id)
    (hw : s.world id = some buf) (o : Session.Op α) :
    (next s (lift r o)).reg = s.reg ∧
    (next s (lift r o)).world id = some (Session.next (proj s buf) o).spot ∧
    proj (next s (lift r o)) (Session.next (proj s buf) o).spot = Session.next (proj s buf) o ∧
    (ulAt s.reg 0 = .ok id → output pp .ul0 s (lift r o) = embed (Session.output pp (proj s buf) o)) := by
  cases o with
  | setCell i j v =>
    cases hc : Session.setCell buf i j v with
    | none =>
      have e1 : next s (lift r (.setCell i j v)) = s := by simp only [lift, next, hr, hw, hc]
      have e2 : Session.next (proj s buf) (.setCell i j v) = proj s buf := by
        simp only [Session.next, proj, hc]
      have e3 : output pp .ul0 s (lift r (.setCell i j v)) = .error (.err .runtimeError) := by
        simp only [lift, output, hr, hw, hc]
      have e4 : Session.output pp (proj s buf) (.setCell i j v) = .error .runtimeError := by
        simp only [Session.output, proj, hc]
      rw [e1, e2, e3, e4]
      exact ⟨rfl, hw, rfl, fun _ => rfl⟩
    | some b =>
      have e1 : next s (lift r (.setCell i j v)) = { s with world := setW s.world id b } := by
        simp only [lift, next, hr, hw, hc]
      have e2 : Session.next (proj s buf) (.setCell i j v) = { proj s buf with spot := b } := by
        simp only [Session.next, proj, hc]
      have e3 : output pp .ul0 s (lift r (.setCell i j v)) = .none := by
        simp only [lift, output, hr, hw, hc]
      have e4 : Session.output pp (proj s buf) (.setCell i j v) = .none := by
        simp only [Session.output, proj, hc]
      rw [e1, e2, e3, e4]
      exact ⟨rfl, by simp [setW], rfl, fun _ => rfl⟩
  | reregister b =>
    have e1 : next s (lift r (.reregister b)) = { s with world := setW s.world id b } := by
      simp only [lift, next, hr]
    have e3 : output pp .ul0 s (lift r (.reregister b)) = .none := by
      simp only [lift, output, hr]
    rw [e1, e3]
    exact ⟨rfl, by simp [setW, Session.next], rfl, fun _ => rfl⟩
  | addClause n c =>
    by_cases h : nameOk (allAttrs s) s.clauses n = true
    · have e1 : next s (lift r (.addClause n c)) = { s with clauses := PfVerif.addClause s.clauses n c } := by
        simp only [lift, next, h, if_true]
      have e2 : Session.next (proj s buf) (.addClause n c)
          = { proj s buf with clauses := PfVerif.addClause s.clauses n c } := by
        simp only [Session.next, proj, h, if_true]
      have e3 : output pp .ul0 s (lift r (.addClause n c)) = .none := by
        simp only [lift, output, h, if_true]
      have e4 : Session.output pp (proj s buf) (.addClause n c) = .none := by
        simp only [Session.output, proj, h, if_true]
      rw [e1, e2, e3, e4]
      exact ⟨rfl, hw, rfl, fun _ => rfl⟩
    · have e1 : next s (lift r (.addClause n c)) = s := by
        simp only [lift, next, h]; rfl
      have e2 : Session.next (proj s buf) (.addClause n c) = proj s buf := by
        simp only [Session.next, proj, h]; rfl
      have e3 : output pp .ul0 s (lift r (.addClause n c)) = .error (.err .keyError) := by
        simp only [lift, output, h]; rfl
      have e4 : Session.output pp (proj s buf) (.addClause n c) = .error .keyError := by
        simp only [Session.output, proj, h]; rfl
      rw [e1, e2, e3, e4]
      exact ⟨rfl, hw, rfl, fun _ => rfl⟩
  | query =>
    refine ⟨rfl, hw, rfl, fun hu => ?_⟩
    exact answer_ul0 pp s id buf hu hw
  | setStrike k => exact ⟨rfl, hw, rfl, fun _ => rfl⟩
  | setCall b => exact ⟨rfl, hw, rfl, fun _ => rfl⟩
  | toggleCall => exact ⟨rfl, hw, rfl, fun _ => rfl⟩
  | setStart i => exact ⟨rfl, hw, rfl, fun _ => rfl⟩

/-- **Refinement.**  A history of Session operations carried out through a reference `r` that resolves to the
instrument `ul()` returns is, step by step, the history on the one-buffer object of Model/Session.lean: the same
outputs, and the final state projects to the final Session state.  Further registered underliers do not enter. -/
theorem run_lift (s : State α) (r : Ref) (id : Nat) (buf : List (List α)) (hr : resolve s.reg r = .ok id)
    (hu : ulAt s.reg 0 = .ok id) (hw : s.world id = some buf) (ops : List (Session.Op α)) :
    (run pp .ul0 s (ops.map (lift r))).2 = (Session.run pp (proj s buf) ops).2.map embed ∧
    (exec s (ops.map (lift r))).reg = s.reg ∧
    (exec s (ops.map (lift r))).world id = some (Session.exec (proj s buf) ops).spot ∧
    proj (exec s (ops.map (lift r))) (Session.exec (proj s buf) ops).spot = Session.exec (proj s buf) ops := by
  induction ops generalizing s buf with
  | nil => exact ⟨rfl, rfl, hw, rfl⟩
  | cons o ops ih =>
    obtain ⟨h1, h2, h3, h4⟩ := step_lift pp s r id buf hr hw o
    have ih' := ih (next s (lift r o)) (Session.next (proj s buf) o).spot (by rw [h1]; exact hr)
      (by rw [h1]; exact hu) h2
    rw [h3] at ih'
    obtain ⟨i1, i2, i3, i4⟩ := ih'
    refine ⟨?_, ?_, ?_, ?_⟩
    · rw [List.map_cons, run_cons]
      show output pp .ul0 s (lift r o) :: _ = (Session.output pp (proj s buf) o :: _).map embed
      rw [List.map_cons, h4 hu, i1]
      rfl
    · rw [List.map_cons, exec_cons, i2, h1]
    · rw [List.map_cons, exec_cons]; exact i3
    · rw [List.map_cons, exec_cons]; exact i4

/-- **With a single registered underlier the multi-underlier session IS the session of Model/Session.lean**:
whichever way the user's code reaches the instrument (the variable, the name, position 0 or -1) -/
theorem single_underlier_is_session (s : State α) (n : String) (id : Nat) (buf : List (List α))
    (hreg : s.reg = [(n, id)]) (hw : s.world id = some buf) (r : Ref)
    (hr : r = .id id ∨ r = .name n ∨ r = .pos 0 ∨ r = .pos (-1)) (ops : List (Session.Op α)) :
    (run pp .ul0 s (ops.map (lift r))).2 = (Session.run pp (proj s buf) ops).2.map embed ∧
    proj (exec s (ops.map (lift r))) (Session.exec (proj s buf) ops).spot = Session.exec (proj s buf) ops := by
  have hu : ulAt s.reg 0 = .ok id := by rw [hreg]; rfl
  have hres : resolve s.reg r = .ok id := by
    rw [hreg]
    rcases hr with rfl | rfl | rfl | rfl
    · rfl
    · simp [resolve, getName, List.lookup]
    · rfl
    · rfl
  have := run_lift pp s r id buf hres hu hw ops
  exact ⟨this.1, this.2.2.2⟩

/-- after a lifted history the answer is the answer of the one-buffer object after the same history -/
theorem answer_lifted (s : State α) (r : Ref) (id : Nat) (buf : List (List α))
    (hr : resolve s.reg r = .ok id) (hu : ulAt s.reg 0 = .ok id) (hw : s.world id = some buf)
    (ops : List (Session.Op α)) :
    answer pp .ul0 (exec s (ops.map (lift r))) = embed (Session.answer pp (Session.exec (proj s buf) ops)) := by
  obtain ⟨_, h2, h3, h4⟩ := run_lift pp s r id buf hr hu hw ops
  rw [answer_ul0 pp _ id _ (by rw [h2]; exact hu) h3, h4]

omit [Add α] [Sub α] [Mul α] [OfNat α 0] [LE α] [DecidableLE α] [Max α] [Min α] in
private theorem embed_payoff (x : Session.Out α) (v : List α) (h : embed x = .payoff v) : x = .payoff v := by
  cases x <;> simp [embed] at h ⊢
  exact h

/-- the theorem of the one-buffer session, transferred: after any lifted history the answer is the payoff of
Model/Payoff.lean on the "last write wins" folds of Lemmas/C12Session.lean -/
theorem lifted_answer_after_history (s : State α) (r : Ref) (id : Nat) (buf : List (List α))
    (hr : resolve s.reg r = .ok id) (hu : ulAt s.reg 0 = .ok id) (hw : s.world id = some buf)
    (ops : List (Session.Op α)) :
    answer pp .ul0 (exec s (ops.map (lift r)))
      = embed (Session.outOf (Session.payoffOf pp (C12Session.termsAfter s.terms ops)
          (C12Session.bufferAfter buf ops) (C12Session.clausesAfter (allAttrs s) s.clauses ops))) := by
  obtain ⟨_, h2, h3, h4⟩ := run_lift pp s r id buf hr hu hw ops
  rw [answer_ul0 pp _ id _ (by rw [h2]; exact hu) h3, h4, C12Session.answer_after_history]
  rfl

omit [Add α] [Sub α] [Mul α] [OfNat α 0] [LE α] [DecidableLE α] [Max α] [Min α] in
/-- **Replacing the underlier is, for the contract, a new price buffer**: assigning / registering another
instrument under the FIRST name of the registry is the operation `reregister` of Model/Session.lean with the
buffer of the new instrument -/
theorem reassign_first_is_reregister (s : State α) (n : String) (id id' : Nat) (rest : List (String × Nat))
    (buf buf' : List (List α)) (hreg : s.reg = (n, id) :: rest) (hok : nameOk s.attrs s.reg n = true)
    (_hw' : s.world id' = some buf') :
    ulAt (next s (.assign n id')).reg 0 = .ok id' ∧ getName (next s (.assign n id')).reg n = .ok id' ∧
    names (next s (.assign n id')).reg = names s.reg ∧
    proj (next s (.assign n id')) buf' = Session.next (proj s buf) (.reregister buf') := by
  have hn : n ∈ names s.reg := by rw [hreg]; simp [names]
  have hreg' : (next s (.assign n id')).reg = PfVerif.addClause s.reg n id' := by
    rw [next_reg]; unfold regStep regWrite; dsimp only; rw [if_pos hok]
  have h0 : (PfVerif.addClause s.reg n id')[0]? = some (n, id') := by
    rw [getElem_addClause_present s.reg n id' hn 0, hreg]; simp
  have hnames := (reassign_keeps_order s n id' hn).1
  refine ⟨?_, ?_, hnames, ?_⟩
  · rw [hreg']
    have hlen : 0 < (PfVerif.addClause s.reg n id').length := by
      rcases Nat.eq_zero_or_pos (PfVerif.addClause s.reg n id').length with h | h
      · rw [List.getElem?_eq_none (by omega)] at h0; simp at h0
      · exact h
    unfold ulAt
    have : pyIndex (PfVerif.addClause s.reg n id').length 0 = some 0 := by
      unfold pyIndex; simp [hlen]
    rw [this]; dsimp only; rw [h0]
  · rw [hreg']; unfold getName; rw [lookup_addClause, if_pos rfl]
  · unfold proj Session.next
    have : allAttrs (next s (.assign n id')) = allAttrs s := by
      unfold allAttrs
      rw [next_attrs]
      exact congrArg (s.attrs ++ ·) hnames
    rw [this]
    simp only [next, hok, if_true]

end Refinement

/-! ## independence: edits of instruments a contract does not read; further registered underliers -/

section Independence
variable {α : Type} [Add α] [Sub α] [Mul α] [OfNat α 0] [LE α] [DecidableLE α] [Max α] [Min α]
variable (pp : Terms α → List α → Except Err α)

/-- a price edit (in place or a whole buffer) -/
def isEdit : Op α → Bool
  | .setCell _ _ _ _ => true
  | .swapBuffer _ _ => true
  | _ => false

omit [Add α] [Sub α] [Mul α] [OfNat α 0] [LE α] [DecidableLE α] [Max α] [Min α] in
/-- a price edit changes the world and nothing of the object -/
theorem edit_keeps_object (s : State α) (op : Op α) (h : isEdit op = true) :
    (next s op).terms = s.terms ∧ (next s op).weights = s.weights ∧ (next s op).reg = s.reg ∧
    (next s op).clauses = s.clauses ∧ (next s op).world = worldStep s.reg s.world op := by
  rw [next_eq]
  cases op <;> simp [isEdit] at h <;> exact ⟨rfl, rfl, rfl, rfl, rfl⟩

/-- **An edit of an instrument the contract does not read changes no answer** - also when the instrument is
registered (a further underlier of a built-in product, an asset of a basket beyond its weights, ...) -/
theorem unread_edit_same_answer (c : Contract) (s : State α) (op : Op α) (h : isEdit op = true)
    (hun : ∀ id, targetOf s.reg op = some id → id ∉ reads c s.weights s.reg s.clauses) :
    answer pp c (next s op) = answer pp c s := by
  obtain ⟨h1, h2, h3, h4, h5⟩ := edit_keeps_object s op h
  unfold answer
  rw [h1, h2, h3, h4, h5]
  congr 1
  apply payoffAt_congr_world
  intro id hid
  apply worldStep_other
  intro e
  exact hun id e hid

/-- a buffer swap that IS read: the answer is the contract's payoff with the new buffer in the place of the old one -/
theorem swap_answer (c : Contract) (s : State α) (r : Ref) (id : Nat) (buf : List (List α))
    (hr : resolve s.reg r = .ok id) :
    answer pp c (next s (.swapBuffer r buf))
      = outOf (payoffAt pp c s.terms s.weights s.reg (setW s.world id buf) s.clauses) := by
  simp only [answer, next, hr]

/-- **Operations on instruments that are not reachable from the registry change no answer of any contract**,
nor the registry: a whole history of them -/
theorem unreachable_edits_same_answers (c : Contract) (s : State α) (ops : List (Op α))
    (h : ∀ op ∈ ops, isEdit op = true ∧ ∀ id, targetOf s.reg op = some id → id ∉ s.reg.map Prod.snd) :
    answer pp c (exec s ops) = answer pp c s ∧ (exec s ops).reg = s.reg := by
  induction ops generalizing s with
  | nil => exact ⟨rfl, rfl⟩
  | cons op ops ih =>
    obtain ⟨he, hu⟩ := h op List.mem_cons_self
    have hreg : (next s op).reg = s.reg := (edit_keeps_object s op he).2.2.1
    have ih' := ih (next s op) (by
      intro o ho
      rw [hreg]
      exact h o (List.mem_cons_of_mem _ ho))
    rw [exec_cons, ih'.1, ih'.2, hreg]
    refine ⟨?_, rfl⟩
    apply unread_edit_same_answer pp c s op he
    intro id hid hmem
    exact hu id hid (reads_subset_registered c s.weights s.reg s.clauses id hmem)

private theorem ulAt_zero_congr (reg reg' : List (String × Nat)) (h : reg[0]? = reg'[0]?) : ulAt reg 0 = ulAt reg' 0 := by
  cases reg <;> cases reg' <;> simp_all [ulAt, pyIndex]

/-- a built-in payoff depends on the registry through `ul()` only -/
theorem payoffAt_ul0_congr_reg (t : Terms α) (ws : List α) (reg reg' : List (String × Nat))
    (w : Nat → Option (List (List α))) (cl : List (String × Clause α)) (h : ulAt reg 0 = ulAt reg' 0) :
    payoffAt pp .ul0 t ws reg w cl = payoffAt pp .ul0 t ws reg' w cl := by
  have hc : clauseFnsM reg w cl = clauseFnsM reg' w cl := by
    unfold clauseFnsM
    apply List.map_congr_left
    intro q _
    congr 1
    funext acc
    cases acc with
    | error e => rfl
    | ok v =>
      cases hq : q.2 <;> simp only [clauseM, h]
  unfold payoffAt
  rw [hc]
  simp only [baseOf, h]

/-- **A further underlier does not enter a built-in payoff**: registering / assigning an instrument under any
name but the first one of the registry (a new name, or a later name again) changes no answer -/
theorem extra_underlier_same_answer (s : State α) (n0 n : String) (id0 id : Nat) (rest : List (String × Nat))
    (hreg : s.reg = (n0, id0) :: rest) (hne : n ≠ n0) :
    answer pp .ul0 (next s (.register n id)) = answer pp .ul0 s ∧
    answer pp .ul0 (next s (.assign n id)) = answer pp .ul0 s := by
  have key : answer pp .ul0 (next s (.register n id)) = answer pp .ul0 s := by
    have h0 : (regStep s.attrs s.reg (Op.register n id : Op α))[0]? = s.reg[0]? := by
      unfold regStep regWrite
      dsimp only
      split
      · by_cases hn : n ∈ names s.reg
        · rw [getElem_addClause_present s.reg n id hn 0, hreg]
          simp [Ne.symm hne]
        · rw [getElem_addClause_new s.reg n id hn 0, hreg]
          simp
      · rfl
    rw [next_eq]
    unfold answer
    exact congrArg outOf (payoffAt_ul0_congr_reg pp _ _ _ _ _ _ (ulAt_zero_congr _ _ h0))
  exact ⟨key, key⟩

end Independence

/-! ## the contracts on several assets: values -/

section Values
variable {α : Type} [Add α] [Sub α] [Mul α] [OfNat α 0] [LE α] [DecidableLE α] [Max α] [Min α]
variable (pp : Terms α → List α → Except Err α)

omit [Add α] [Sub α] [Mul α] [OfNat α 0] [LE α] [DecidableLE α] [Max α] [Min α] in
private theorem lastL_append_singleton (xs : List α) (x : α) : lastL (xs ++ [x]) = some x := by
  induction xs with
  | nil => rfl
  | cons y ys ih =>
    cases ys with
    | nil => rfl
    | cons z zs => exact ih

omit [Add α] [Sub α] [Mul α] [OfNat α 0] [LE α] [DecidableLE α] [Max α] [Min α] in
/-- the terminal column: the last price of every path -/
theorem termCol_last (rows : List (List α × α)) :
    termCol (rows.map (fun p => p.1 ++ [p.2])) = .ok (rows.map Prod.snd) := by
  unfold termCol
  have : Session.allOk ((rows.map (fun p => p.1 ++ [p.2])).map lastE) = .ok (rows.map Prod.snd) := by
    induction rows with
    | nil => rfl
    | cons p rows ih =>
      simp only [List.map_cons, Session.allOk, lastE, lastL_append_singleton] at ih ⊢
      rw [ih]
  rw [this]; rfl

omit [Add α] [Mul α] [Max α] [Min α] in
/-- **The spread contract**: on simulated instruments with the same number of paths, path by path
`max(a_T - b_T - K, 0)` on the terminal prices of the two instruments handed over -/
theorem spread_value (k : α) (w : Nat → Option (List (List α))) (a b : Nat) (A B : List (List α))
    (ca cb : List α) (hA : w a = some A) (hB : w b = some B) (hca : termCol A = .ok ca)
    (hcb : termCol B = .ok cb) (hlen : ca.length = cb.length) :
    spread k w a b = .ok (List.zipWith (fun x y => reluS (x - y - k)) ca cb) := by
  unfold spread spotOf
  rw [hA, hB]
  show (termCol A >>= fun ca => termCol B >>= fun cb => _) = _
  rw [hca, hcb]
  show (bcast2 (fun x y => x - y) ca cb >>= fun d => _) = _
  unfold bcast2
  rw [if_pos hlen]
  show Except.ok ((List.zipWith (fun x y => x - y) ca cb).map (fun x => reluS (x - k))) = _
  rw [List.map_zipWith]

omit [Max α] [Min α] in
/-- a spread read by position pays on `(ul(0), ul(1))`, one read by name on the instruments bound to the two names -/
theorem spread_reads (t : Terms α) (ws : List α) (reg : List (String × Nat))
    (w : Nat → Option (List (List α))) (a b : Nat) :
    (ulAt reg 0 = .ok a → ulAt reg 1 = .ok b → baseOf pp .spreadPos t ws reg w = spread t.strike w a b) ∧
    (∀ f g, getName reg f = .ok a → getName reg g = .ok b →
      baseOf pp (.spreadName f g) t ws reg w = spread t.strike w a b) := by
  constructor
  · intro ha hb
    show (ulAt reg 0 >>= fun a => ulAt reg 1 >>= fun b => spread t.strike w a b) = _
    rw [ha, hb]; rfl
  · intro f g ha hb
    show (getName reg f >>= fun a => getName reg g >>= fun b => spread t.strike w a b) = _
    rw [ha, hb]; rfl

/-- **A by-position spread after re-assigning the FIRST name still pays first − second**: the new instrument
takes position 0, the second asset stays at position 1 -/
theorem spread_position_after_reassign (s : State α) (n1 n2 : String) (a b a' : Nat)
    (hreg : s.reg = [(n1, a), (n2, b)]) (hne : n1 ≠ n2) (hok : nameOk s.attrs s.reg n1 = true)
    (hcl : s.clauses = []) :
    (next s (.assign n1 a')).reg = [(n1, a'), (n2, b)] ∧
    answer pp .spreadPos (next s (.assign n1 a')) = outOf (spread s.terms.strike s.world a' b) ∧
    answer pp (.spreadName n1 n2) (next s (.assign n1 a')) = outOf (spread s.terms.strike s.world a' b) := by
  have hreg' : (next s (.assign n1 a')).reg = [(n1, a'), (n2, b)] := by
    rw [next_reg]; unfold regStep regWrite; dsimp only
    rw [if_pos hok, hreg]
    simp [PfVerif.addClause, Ne.symm hne]
  have hrest : next s (.assign n1 a') = { s with reg := [(n1, a'), (n2, b)] } := by
    rw [← hreg']; simp only [next, hok, if_true]
  refine ⟨hreg', ?_, ?_⟩
  · rw [hrest]
    unfold answer payoffAt
    simp only [hcl, clauseFnsM, List.map_nil, applyClauses, List.foldl_nil]
    rw [(spread_reads pp s.terms s.weights [(n1, a'), (n2, b)] s.world a' b).1 rfl rfl]
  · rw [hrest]
    unfold answer payoffAt
    simp only [hcl, clauseFnsM, List.map_nil, applyClauses, List.foldl_nil]
    rw [(spread_reads pp s.terms s.weights [(n1, a'), (n2, b)] s.world a' b).2 n1 n2
      (by rw [getName_cons, if_pos rfl])
      (by rw [getName_cons, if_neg (Ne.symm hne), getName_cons, if_pos rfl])]

/-- **Position and name agree after any history**: a spread whose two assets were registered first (names `f`,
`g`) pays the same whether it reads them by position or by name - whatever is re-assigned, registered or edited
afterwards -/
theorem spread_accessors_agree_after_history (s : State α) (f g : String) (rest : List String)
    (hnames : names s.reg = f :: g :: rest) (hnd : (names s.reg).Nodup) (ops : List (Op α)) :
    answer pp .spreadPos (exec s ops) = answer pp (.spreadName f g) (exec s ops) := by
  obtain ⟨t, ht⟩ := names_prefix s ops
  have hnd' := names_nodup_after s hnd ops
  rw [hnames] at ht
  generalize exec s ops = s' at ht hnd'
  have hfg : f ≠ g := by
    rw [hnames] at hnd
    intro e; simp [e] at hnd
  obtain ⟨reg, hreg⟩ : ∃ reg, s'.reg = reg := ⟨_, rfl⟩
  rw [hreg] at ht hnd'
  match reg, ht, hnd' with
  | (f', a) :: (g', b) :: rest', ht, hnd' =>
    simp only [names, List.map_cons, List.cons_append, List.cons.injEq] at ht
    obtain ⟨rfl, rfl, _⟩ := ht
    unfold answer payoffAt
    rw [hreg]
    have h1 := (spread_reads pp s'.terms s'.weights ((f, a) :: (g, b) :: rest') s'.world a b).1 rfl rfl
    have h2 := (spread_reads pp s'.terms s'.weights ((f, a) :: (g, b) :: rest') s'.world a b).2 f g
      (by rw [getName_cons, if_pos rfl])
      (by rw [getName_cons, if_neg (Ne.symm hfg), getName_cons, if_pos rfl])
    rw [h1, h2]
  | [], ht, _ => simp [names] at ht
  | [_], ht, _ => simp [names] at ht

private theorem zip_append_extra {β γ : Type} (xs : List β) (ys zs : List γ) (h : xs.length ≤ ys.length) :
    xs.zip (ys ++ zs) = xs.zip ys := by
  induction xs generalizing ys with
  | nil => simp
  | cons x xs ih =>
    cases ys with
    | nil => simp at h
    | cons y ys => simp [ih ys (by simpa using h)]

omit [Sub α] [LE α] [DecidableLE α] [Max α] [Min α] in
private theorem basketAcc_append (w : Nat → Option (List (List α))) (l1 l2 : List (α × Nat)) (acc : Option (List α)) :
    basketAcc w acc (l1 ++ l2) = basketAcc w acc l1 >>= fun acc' => basketAcc w acc' l2 := by
  induction l1 generalizing acc with
  | nil => rfl
  | cons p l1 ih =>
    obtain ⟨wt, id⟩ := p
    rw [List.cons_append]
    show ((spotOf w id >>= termCol) >>= fun col => accAdd acc (col.map (fun x => wt * x)) >>= fun acc' =>
            basketAcc w (some acc') (l1 ++ l2))
      = ((spotOf w id >>= termCol) >>= fun col => accAdd acc (col.map (fun x => wt * x)) >>= fun acc' =>
            basketAcc w (some acc') l1) >>= fun acc' => basketAcc w acc' l2
    cases (spotOf w id >>= termCol) with
    | error e => rfl
    | ok col =>
      show (accAdd acc (col.map (fun x => wt * x)) >>= fun acc' => basketAcc w (some acc') (l1 ++ l2))
        = (accAdd acc (col.map (fun x => wt * x)) >>= fun acc' => basketAcc w (some acc') l1) >>= fun acc' =>
            basketAcc w acc' l2
      cases accAdd acc (col.map (fun x => wt * x)) with
      | error e => rfl
      | ok acc' => exact ih (some acc')

omit [Max α] [Min α] in
/-- **The basket contract**, asset by asset in REGISTRY order: with the weighted terminal columns of the assets
(same number of paths) the sum is `((0 + w_0 c_0) + w_1 c_1) + ...` entry by entry, the payoff `max(sum - K, 0)` -/
theorem basket_value (k : α) (w : Nat → Option (List (List α))) (N : Nat) (wt0 : α) (id0 : Nat) (c0 : List α)
    (l : List (α × Nat × List α)) (h0 : (spotOf w id0 >>= termCol) = .ok c0) (hN0 : c0.length = N)
    (hl : ∀ p ∈ l, (spotOf w p.2.1 >>= termCol) = .ok p.2.2 ∧ p.2.2.length = N) :
    basket k w (wt0 :: l.map (·.1)) (id0 :: l.map (·.2.1))
      = .ok ((l.foldl (fun v p => List.zipWith (fun x y => x + y) v (p.2.2.map (fun x => p.1 * x)))
              ((c0.map (fun x => wt0 * x)).map (fun y => 0 + y))).map (fun x => reluS (x - k))) := by
  have hstep : ∀ (l : List (α × Nat × List α)) (acc : List α), acc.length = N →
      (∀ p ∈ l, (spotOf w p.2.1 >>= termCol) = .ok p.2.2 ∧ p.2.2.length = N) →
      basketAcc w (some acc) (l.map (fun p => (p.1, p.2.1)))
        = .ok (some (l.foldl (fun v p => List.zipWith (fun x y => x + y) v (p.2.2.map (fun x => p.1 * x))) acc)) := by
    intro l
    induction l with
    | nil => intro acc _ _; rfl
    | cons p l ih =>
      intro acc hacc hl
      obtain ⟨hp, hpN⟩ := hl p List.mem_cons_self
      rw [List.map_cons]
      unfold basketAcc
      rw [hp]
      show (accAdd (some acc) _ >>= fun acc' => basketAcc w (some acc') _) = _
      have hb : accAdd (some acc) (p.2.2.map (fun x => p.1 * x))
          = .ok (List.zipWith (fun x y => x + y) acc (p.2.2.map (fun x => p.1 * x))) := by
        unfold accAdd bcast2
        dsimp only
        rw [if_pos (by simp [hacc, hpN])]
      rw [hb]
      show basketAcc w (some _) _ = _
      rw [ih _ (by simp [hacc, hpN]) (fun q hq => hl q (List.mem_cons_of_mem _ hq))]
      rfl
  unfold basket
  have hz : (wt0 :: l.map (·.1)).zip (id0 :: l.map (·.2.1)) = (wt0, id0) :: l.map (fun p => (p.1, p.2.1)) := by
    rw [List.zip_cons_cons, List.zip_map']
  rw [hz]
  unfold basketAcc
  rw [h0]
  show (accAdd none _ >>= fun acc' => basketAcc w (some acc') _) >>= _ = _
  show (basketAcc w (some _) _) >>= _ = _
  rw [hstep l _ (by simp [hN0]) hl]
  rfl

omit [Max α] [Min α] in
/-- **A basket grows**: an asset registered beyond the weights is not read (`zip`); once its weight is
appended the asset enters the sum LAST -/
theorem basket_grows (k : α) (w : Nat → Option (List (List α))) (ws : List α) (ids : List Nat) (wt : α)
    (id : Nat) (hlen : ws.length = ids.length) :
    basket k w ws (ids ++ [id]) = basket k w ws ids ∧
    basket k w (ws ++ [wt]) (ids ++ [id])
      = ((basketAcc w none (ws.zip ids) >>= fun acc => basketAcc w acc [(wt, id)]) >>= fun r =>
          match r with
          | none => .error .attributeError
          | some v => pure (v.map (fun x => reluS (x - k)))) := by
  constructor
  · unfold basket
    rw [zip_append_extra _ _ _ (by omega)]
  · unfold basket
    rw [List.zip_append hlen, basketAcc_append]
    rfl

end Values

/-! ## the C12 relations transfer (ℝ) -/

section Real

/-- **After any history, lookback ≥ European** on a derivative with any number of registered underliers: the
two products on the same object history (price edits through a reference to the instrument `ul()` returns) -/
theorem lookback_ge_european_lifted (s : State ℝ) (r : Ref) (id : Nat) (buf : List (List ℝ))
    (hr : resolve s.reg r = .ok id) (hu : ulAt s.reg 0 = .ok id) (hw : s.world id = some buf)
    (ops : List (Session.Op ℝ))
    (hm : ∀ p ∈ (Session.exec (proj s buf) ops).clauses, C12Session.monoClause p.2) (ve vl : List ℝ)
    (he : answer (Session.optPath .european) .ul0 (exec s (ops.map (lift r))) = .payoff ve)
    (hl : answer (Session.optPath .lookback) .ul0 (exec s (ops.map (lift r))) = .payoff vl) :
    List.Forall₂ (· ≤ ·) ve vl := by
  rw [answer_lifted _ s r id buf hr hu hw ops] at he hl
  exact C12Session.lookback_ge_european_after (proj s buf) ops hm ve vl
    (embed_payoff _ _ he) (embed_payoff _ _ hl)

/-- **After any history, American binary ≥ European binary**, likewise -/
theorem american_ge_european_binary_lifted (s : State ℝ) (r : Ref) (id : Nat) (buf : List (List ℝ))
    (hr : resolve s.reg r = .ok id) (hu : ulAt s.reg 0 = .ok id) (hw : s.world id = some buf)
    (ops : List (Session.Op ℝ))
    (hm : ∀ p ∈ (Session.exec (proj s buf) ops).clauses, C12Session.monoClause p.2) (ve va : List ℝ)
    (he : answer (Session.optPath .europeanBinary) .ul0 (exec s (ops.map (lift r))) = .payoff ve)
    (ha : answer (Session.optPath .americanBinary) .ul0 (exec s (ops.map (lift r))) = .payoff va) :
    List.Forall₂ (· ≤ ·) ve va := by
  rw [answer_lifted _ s r id buf hr hu hw ops] at he ha
  exact C12Session.american_ge_european_binary_after (proj s buf) ops hm ve va
    (embed_payoff _ _ he) (embed_payoff _ _ ha)

end Real

/-! ## examples (computed by the kernel) -/

section Examples

/-- four instruments over `Int`, two paths each; instrument 4 exists but was never simulated -/
def wI : Nat → Option (List (List Int)) := fun k =>
  if k = 0 then some [[2, 3], [1, 4]]
  else if k = 1 then some [[1, 1], [1, 2]]
  else if k = 2 then some [[1, 7], [1, 0]]
  else if k = 3 then some [[5], [6]]
  else none

def s0 : State Int :=
  { terms := { strike := 1, call := true, start := 0, dt := 1 }, weights := [], reg := [],
    world := wI, clauses := [], attrs := ["strike", "payoff"] }

/-- a two-asset spread whose FIRST underlier is re-assigned; registry queries; a refused name; an edit of an
unregistered instrument; an in-place edit through `ul(0)`; a further underlier -/
def hSpread : List (Op Int) :=
  [.assign "first" 0, .assign "second" 1, .names, .query, .assign "first" 2, .names, .ul 0, .ul 1, .ul (-1),
   .get "first", .query, .register "strike" 3, .get "fx", .ul 2, .swapBuffer (.id 3) [[9], [9]], .query,
   .setCell (.pos 0) 1 (-1) 5, .query, .register "fx" 3, .names, .query, .assign "second" 4, .query]

example : (run (Session.optPath .european) .spreadPos s0 hSpread).2
    = [.none, .none, .listing [("first", 0), ("second", 1)], .payoff [1, 1], .none,
       .listing [("first", 2), ("second", 1)], .inst 2, .inst 1, .inst 1, .inst 2, .payoff [5, 0],
       .error (.err .keyError), .error .attributeError, .error (.err .runtimeError), .none, .payoff [5, 0],
       .none, .payoff [5, 2], .none, .listing [("first", 2), ("second", 1), ("fx", 3)], .payoff [5, 2],
       .none, .error .attributeError] := by
  decide

/-- read by name: the same answers -/
example : (run (Session.optPath .european) (.spreadName "first" "second") s0 hSpread).2
    = (run (Session.optPath .european) .spreadPos s0 hSpread).2 := by decide

/-- after the re-assignment the spread is first − second on the NEW first asset, not second − first -/
example : spread 1 wI 2 1 = .ok [5, 0] ∧ spread 1 wI 1 2 = .ok [0, 1] ∧
    answer (Session.optPath .european) .spreadPos (exec s0 (hSpread.take 5)) = .payoff [5, 0] := by decide

/-- hypotheses of `spread_position_after_reassign`, `reassign_keeps_order`, `ul_after_reassign` on the state
before the re-assignment -/
example : (exec s0 (hSpread.take 4)).reg = [("first", 0), ("second", 1)] ∧
    nameOk (exec s0 (hSpread.take 4)).attrs (exec s0 (hSpread.take 4)).reg "first" = true ∧
    (exec s0 (hSpread.take 4)).clauses = [] ∧ "first" ∈ names (exec s0 (hSpread.take 4)).reg ∧
    pyIndex (exec s0 (hSpread.take 4)).reg.length (-1) = some 1 := by decide

/-- hypotheses of the registry theorems: a fresh object, and the object after the history -/
example : RegOk s0.attrs s0.reg ∧ (names s0.reg).Nodup ∧
    RegOk s0.attrs (exec s0 hSpread).reg ∧ (names (exec s0 hSpread).reg).Nodup := by
  refine ⟨?_, by decide, ?_, by decide⟩
  · intro p hp; exact absurd hp List.not_mem_nil
  · intro p hp
    have : (exec s0 hSpread).reg = [("first", 2), ("second", 4), ("fx", 3)] := by decide
    rw [this] at hp
    simp only [List.mem_cons, List.not_mem_nil, or_false] at hp
    rcases hp with rfl | rfl | rfl <;> decide

/-- the accepted registrations of the history, the names in order of first registration, the last binding -/
example : validRegs s0.attrs hSpread
      = [("first", 0), ("second", 1), ("first", 2), ("fx", 3), ("second", 4)] ∧
    names (exec s0 hSpread).reg = ["first", "second", "fx"] ∧
    getName (exec s0 hSpread).reg "first" = .ok 2 ∧ getName (exec s0 hSpread).reg "second" = .ok 4 := by
  decide

/-- `position_of_first_registration`: "fx" is new after 18 operations and takes position 2 -/
example : regWrite (hSpread[18]'(by decide)) = some ("fx", 3) ∧ "fx" ∉ names (exec s0 (hSpread.take 18)).reg ∧
    nameOk s0.attrs (exec s0 (hSpread.take 18)).reg "fx" = true ∧
    (names (exec s0 (hSpread.take 18)).reg).length = 2 := by decide

/-- swapping the buffer of the registered SECOND asset changes the payoff of the contracts that read it (the spread) and
of no other (a built-in product on the same object reads `ul()` = the first asset only) -/
example : reads (α := Int) Contract.spreadPos [] (exec s0 (hSpread.take 5)).reg [] = [2, 1] ∧
    reads (α := Int) Contract.ul0 [] (exec s0 (hSpread.take 5)).reg [] = [2] ∧
    answer (Session.optPath .european) .spreadPos (exec s0 (hSpread.take 5)) = .payoff [5, 0] ∧
    answer (Session.optPath .european) .spreadPos (exec s0 (hSpread.take 5 ++ [.swapBuffer (.name "second") [[0], [7]]]))
      = .payoff [6, 0] ∧
    answer (Session.optPath .european) .ul0 (exec s0 (hSpread.take 5)) = .payoff [6, 0] ∧
    answer (Session.optPath .european) .ul0 (exec s0 (hSpread.take 5 ++ [.swapBuffer (.name "second") [[0], [7]]]))
      = .payoff [6, 0] := by decide

/-- a basket that grows: two weighted assets; a third asset registered (not yet weighted: not read); its weight
appended; the buffer of the SECOND asset swapped through its name; a refused clause name (an underlier's) -/
def hBasket : List (Op Int) :=
  [.register "asset0" 0, .register "asset1" 1, .addWeight 1, .addWeight 2, .query, .register "asset2" 3, .query,
   .swapBuffer (.name "asset2") [[0], [0]], .query, .addWeight (-1), .query,
   .swapBuffer (.name "asset1") [[4], [4]], .query, .addClause "asset0" (.cap 0), .addClause "a" (.affine 2 1),
   .query, .names]

example : (run (Session.optPath .european) .basket s0 hBasket).2
    = [.none, .none, .none, .none, .payoff [4, 7], .none, .payoff [4, 7], .none, .payoff [4, 7], .none,
       .payoff [4, 7], .none, .payoff [10, 11], .error (.err .keyError), .none, .payoff [21, 23],
       .listing [("asset0", 0), ("asset1", 1), ("asset2", 3)]] := by
  decide

/-- the unweighted third asset is not read, the weighted one is (`unread_edit_same_answer`, `swap_answer`) -/
example : reads Contract.basket (exec s0 (hBasket.take 7)).weights (exec s0 (hBasket.take 7)).reg
      (exec s0 (hBasket.take 7)).clauses = [0, 1] ∧
    targetOf (exec s0 (hBasket.take 7)).reg (hBasket[7]'(by decide)) = some 3 ∧
    isEdit (hBasket[7]'(by decide)) = true ∧
    reads Contract.basket (exec s0 (hBasket.take 11)).weights (exec s0 (hBasket.take 11)).reg
      (exec s0 (hBasket.take 11)).clauses = [0, 1, 3] := by decide

/-- an empty basket: `0.0` has no `clamp`; an asset with ONE path is broadcast; three against two paths is an error -/
example : answer (Session.optPath .european) .basket s0 = .error .attributeError ∧
    basket 1 (setW wI 1 [[1, 2]]) [1, 2] [0, 1] = .ok [6, 7] ∧
    basket 1 (setW wI 1 [[1], [1], [1]]) [1, 2] [0, 1] = .error (.err .runtimeError) := by decide

/-- a built-in product with a further underlier, its underlier re-assigned, then a one-buffer session through the
name: the lookback call reads the instrument registered under the FIRST name now -/
def hBuilt : List (Op Int) :=
  [.register "underlier" 0, .register "fx" 1, .query, .assign "underlier" 2, .query, .ul 0,
   .swapBuffer (.name "fx") [[8, 8], [8, 8]], .query]

example : (run (Session.optPath .lookback) .ul0 s0 hBuilt).2
    = [.none, .none, .payoff [2, 3], .none, .payoff [6, 0], .inst 2, .none, .payoff [6, 0]] := by decide

/-- hypotheses of `run_lift` / `lifted_answer_after_history` after `hBuilt`, for the references by name, by
position and by object; and a lifted history -/
example : resolve (exec s0 hBuilt).reg (.name "underlier") = .ok 2 ∧
    resolve (exec s0 hBuilt).reg (.pos 0) = .ok 2 ∧ ulAt (exec s0 hBuilt).reg 0 = .ok 2 ∧
    (exec s0 hBuilt).world 2 = some [[1, 7], [1, 0]] ∧
    (run (Session.optPath .lookback) .ul0 (exec s0 hBuilt)
        ([Session.Op.setCell 1 (-1) 3, .query, .addClause "fx" (.cap 0), .addClause "k" (.knockOut 7), .query].map
          (lift (.name "underlier")))).2
      = [.none, .payoff [6, 2], .error (.err .keyError), .none, .payoff [0, 2]] := by decide

/-- `reassign_first_is_reregister`, `extra_underlier_same_answer`: their hypotheses on the state after two registrations -/
example : (exec s0 (hBuilt.take 2)).reg = ("underlier", 0) :: [("fx", 1)] ∧
    nameOk (exec s0 (hBuilt.take 2)).attrs (exec s0 (hBuilt.take 2)).reg "underlier" = true ∧
    (exec s0 (hBuilt.take 2)).world 2 = some [[1, 7], [1, 0]] ∧ "fx" ≠ "underlier" := by decide

/-- `builtin_after_history`: from the freshly constructed object (one registered name) through the rest of `hBuilt` -/
example : names (exec s0 (hBuilt.take 1)).reg = "underlier" :: [] ∧ (names (exec s0 (hBuilt.take 1)).reg).Nodup ∧
    getName (exec (exec s0 (hBuilt.take 1)) (hBuilt.drop 1)).reg "underlier" = .ok 2 ∧
    (exec (exec s0 (hBuilt.take 1)) (hBuilt.drop 1)).world 2 = some [[1, 7], [1, 0]] := by decide

/-- `single_underlier_is_session`: one registered underlier -/
example : (exec s0 (hBuilt.take 1)).reg = [("underlier", 0)] ∧
    (exec s0 (hBuilt.take 1)).world 0 = some [[2, 3], [1, 4]] := by decide

/-- `unreachable_edits_same_answers`: edits of the unregistered instruments 3 and 4 -/
example : ∀ op ∈ ([.swapBuffer (.id 3) [[1]], .setCell (.id 3) 0 0 2, .swapBuffer (.id 4) []] : List (Op Int)),
    isEdit op = true ∧ ∀ id, targetOf (exec s0 hBuilt).reg op = some id → id ∉ (exec s0 hBuilt).reg.map Prod.snd := by
  decide

/-- `basket_value`: the hypotheses on two assets of `wI` -/
example : (spotOf wI 0 >>= termCol) = .ok [3, 4] ∧ (spotOf wI 1 >>= termCol) = .ok [1, 2] ∧
    basket 1 wI [1, 2] [0, 1] = .ok [4, 7] := by decide

end Examples

end PfVerif.C12Multi
