/-
  The registry behind feature names (Model/FeatReg.lean; features/_getter.py, features/features.py).

  The statements of C02 / C03 are about "every built-in input feature"; their theorems quantify over the
  `BaseFeature`s of Model/Hedger.lean, and a `Hedger` is given NAMES.  Proved here, for the table the driver executes
  (op `feat_reg`, compared with the real registry on every run):

  * `builtin_entries`, `builtin_names_nodup`, `regName_injective`, `className_injective`: the library registers
    thirteen classes under thirteen different names;
  * `builtin_class`, `builtin_class_iff`, `builtin_keyError_iff`: a name resolves to a class exactly when it is one of
    those names, to that class, and raises `KeyError` otherwise;
  * `getFeature_builtin`: `get_feature(name, **kw)` constructs that class with those keywords;
    `construct_log_ok_iff`: `log=` is accepted exactly by the four classes that declare it;
  * `every_feature_has_a_name` (completeness): every `BaseFeature` other than `Barrier` and `Ones` (which the library
    does not register) is what some `get_feature(name[, log=b])` hands out — the theorems about all `BaseFeature`s cover
    everything a name can stand for; `named_feature_is_base` is the converse;
  * `stateDependent_iff_prevHedge`: of the registered names only `prev_hedge` makes a hedger state dependent;
  * `name_roundtrip`: `str(get_feature(n)) = n` for every registered name but the deprecated `expiry_time`;
  * `featClass_user_last`, `featClass_user_frame`: after any history of user `register_feature` calls a name stands
    for the last class registered under it, and names the history never touches stand for what they stood for;
  * `getFeature_instance`, `getFeature_other`: an instance is handed back as it is, anything else raises `TypeError`;
  * `listFeatureNames_perm`, `listFeatureNames_sorted`: `list_feature_names()` is the sorted list of the names.
-/
import PfVerif.Model.FeatReg
import PfVerif.Lemmas.C09Factory
import Mathlib.Data.String.Basic

namespace PfVerif.C03Registry
open PfVerif PfVerif.C09Factory

/-- the registry of a fresh process is the table itself: thirteen entries, in the order of the `FEATURES` list -/
theorem builtin_entries : builtinReg.entries = builtinHistory := by decide

theorem builtin_names_nodup : builtinReg.names.Nodup := by decide

theorem regName_injective (k₁ k₂ : FeatKind) (h : k₁.regName = k₂.regName) : k₁ = k₂ := by
  cases k₁ <;> cases k₂ <;> first | rfl | (exfalso; revert h; decide)

theorem className_injective (k₁ k₂ : FeatKind) (h : k₁.className = k₂.className) : k₁ = k₂ := by
  cases k₁ <;> cases k₂ <;> first | rfl | (exfalso; revert h; decide)

theorem ofClassName_className (k : FeatKind) : FeatKind.ofClassName k.className = some k := by
  cases k <;> decide

theorem mem_all (k : FeatKind) : k ∈ FeatKind.all := by cases k <;> decide

private theorem lookup_table (l : List FeatKind) (n : String) :
    Registry.lookup (l.map (fun k => (k.regName, k.className))) n =
      (l.find? (fun k => decide (k.regName = n))).map FeatKind.className := by
  induction l with
  | nil => rfl
  | cons k t ih =>
    by_cases h : k.regName = n
    · simp [Registry.lookup, h]
    · simp [Registry.lookup, h, ih]

/-- `get_class(name)` on the fresh registry, for ANY string: the class of the kind registered under it, else `KeyError` -/
theorem featClass_builtin (n : String) :
    featClass builtinReg n =
      match FeatKind.all.find? (fun k => decide (k.regName = n)) with
      | some k => .ok k.className
      | none => .error .keyError := by
  unfold featClass
  rw [builtin_entries]
  show (match Registry.lookup (FeatKind.all.map (fun k => (k.regName, k.className))) n with
        | some c => (Except.ok c : Except Err String) | none => .error .keyError) = _
  rw [lookup_table]
  cases FeatKind.all.find? (fun k => decide (k.regName = n)) <;> rfl

/-- every registered class is found under its own name -/
theorem builtin_class (k : FeatKind) : featClass builtinReg k.regName = .ok k.className := by
  cases k <;> decide

theorem builtin_class_iff (n c : String) :
    featClass builtinReg n = .ok c ↔ ∃ k : FeatKind, k.regName = n ∧ k.className = c := by
  constructor
  · intro h
    rw [featClass_builtin] at h
    cases hf : FeatKind.all.find? (fun k => decide (k.regName = n)) with
    | none => rw [hf] at h; cases h
    | some k =>
      rw [hf] at h
      have hk := List.find?_some hf
      refine ⟨k, by simpa using hk, ?_⟩
      injection h
  · rintro ⟨k, rfl, rfl⟩
    exact builtin_class k

/-- a string that is none of the thirteen names raises `KeyError` -/
theorem builtin_keyError_iff (n : String) :
    featClass builtinReg n = .error .keyError ↔ ∀ k : FeatKind, k.regName ≠ n := by
  rw [featClass_builtin]
  constructor
  · intro h k hk
    cases hf : FeatKind.all.find? (fun k => decide (k.regName = n)) with
    | some k' => rw [hf] at h; cases h
    | none =>
      have := List.find?_eq_none.mp hf k (mem_all k)
      simp [hk] at this
  · intro h
    have : FeatKind.all.find? (fun k => decide (k.regName = n)) = none := by
      apply List.find?_eq_none.mpr
      intro k _
      simpa using h k
    rw [this]

section Construct
variable {α : Type}

/-- `get_feature(name, **kw)` for a registered name: that class constructed with those keywords -/
theorem getFeature_builtin (k : FeatKind) (log : Option Bool) :
    getFeature (α := α) builtinReg (.str k.regName log) = (k.construct log).map some := by
  show featInstance builtinReg k.regName log = _
  unfold featInstance
  rw [builtin_class]
  show (match FeatKind.ofClassName k.className with
        | some k => do let f ← k.construct log; pure (some f)
        | none => pure none) = _
  rw [ofClassName_className]
  show (k.construct (α := α) log >>= fun f => pure (some f)) = _
  generalize k.construct (α := α) log = r
  cases r <;> rfl

/-- an unregistered name raises `KeyError` whatever the keywords -/
theorem getFeature_unregistered (n : String) (log : Option Bool) (h : ∀ k : FeatKind, k.regName ≠ n) :
    getFeature (α := α) builtinReg (.str n log) = .error .keyError := by
  show featInstance builtinReg n log = _
  unfold featInstance
  rw [(builtin_keyError_iff n).mpr h]
  rfl

/-- the keyword `log` is accepted by exactly the classes that declare it; without keywords every class constructs -/
theorem construct_log_ok_iff (k : FeatKind) (b : Bool) :
    (∃ f : BaseFeature α, k.construct (some b) = .ok f) ↔ k.takesLog = true := by
  cases k <;> simp [FeatKind.construct, FeatKind.takesLog]

theorem construct_log_error (k : FeatKind) (b : Bool) (h : k.takesLog = false) :
    k.construct (α := α) (some b) = .error .typeError := by
  cases k <;> simp_all [FeatKind.construct, FeatKind.takesLog]

theorem construct_default_ok (k : FeatKind) : ∃ f : BaseFeature α, k.construct none = .ok f :=
  ⟨_, rfl⟩

/-- COMPLETENESS: every feature of the model other than `Barrier` / `Ones` is handed out under some name -/
theorem every_feature_has_a_name (f : BaseFeature α) (hb : ∀ t u, f ≠ .barrier t u) (ho : f ≠ .ones) :
    ∃ (k : FeatKind) (log : Option Bool), getFeature builtinReg (.str k.regName log) = .ok (some f) := by
  cases f with
  | moneyness l => exact ⟨.moneyness, some l, by rw [getFeature_builtin]; rfl⟩
  | maxMoneyness l => exact ⟨.maxMoneyness, some l, by rw [getFeature_builtin]; rfl⟩
  | timeToMaturity => exact ⟨.timeToMaturity, none, by rw [getFeature_builtin]; rfl⟩
  | volatility => exact ⟨.volatility, none, by rw [getFeature_builtin]; rfl⟩
  | variance => exact ⟨.variance, none, by rw [getFeature_builtin]; rfl⟩
  | spot l => exact ⟨.spot, some l, by rw [getFeature_builtin]; rfl⟩
  | underlierSpot l => exact ⟨.underlierSpot, some l, by rw [getFeature_builtin]; rfl⟩
  | barrier t u => exact absurd rfl (hb t u)
  | zeros => exact ⟨.zeros, none, by rw [getFeature_builtin]; rfl⟩
  | ones => exact absurd rfl ho
  | empty => exact ⟨.empty, none, by rw [getFeature_builtin]; rfl⟩
  | prevHedge => exact ⟨.prevHedge, none, by rw [getFeature_builtin]; rfl⟩

/-- conversely nothing a registered name hands out is a `Barrier` or `Ones` -/
theorem named_feature_is_base (k : FeatKind) (log : Option Bool) (f : BaseFeature α)
    (h : k.construct log = .ok f) : (∀ t u, f ≠ .barrier t u) ∧ f ≠ .ones := by
  cases k <;> cases log <;> simp [FeatKind.construct] at h <;> subst h <;> simp

/-- of the registered names only `prev_hedge` stands for a state-dependent feature -/
theorem stateDependent_iff_prevHedge (k : FeatKind) (log : Option Bool) (f : BaseFeature α)
    (h : k.construct log = .ok f) : f.stateDependent = true ↔ k = .prevHedge := by
  cases k <;> cases log <;> simp [FeatKind.construct] at h <;> subst h <;> simp [BaseFeature.stateDependent]

/-- `str(get_feature(n)) = n` for every registered name except the deprecated alias -/
theorem name_roundtrip (k : FeatKind) (hk : k ≠ .expiryTime) (f : BaseFeature α)
    (h : k.construct none = .ok f) : f.name = k.regName := by
  cases k <;> simp [FeatKind.construct] at h <;> subst h <;> first | rfl | exact absurd rfl hk

/-- `log=True` gives the feature whose own name is the `log_` one -/
theorem name_log (k : FeatKind) (f : BaseFeature α) (h : k.construct (some true) = .ok f) :
    f.name ∈ ["log_moneyness", "max_log_moneyness", "log_spot", "underlier_log_spot"] := by
  cases k <;> simp [FeatKind.construct] at h <;> subst h <;> simp [BaseFeature.name]

/-- the `Log…` classes are the `log=True` instances of their parents -/
theorem log_classes :
    FeatKind.logMoneyness.construct (α := α) none = FeatKind.moneyness.construct (some true) ∧
    FeatKind.maxLogMoneyness.construct (α := α) none = FeatKind.maxMoneyness.construct (some true) ∧
    FeatKind.expiryTime.construct (α := α) none = FeatKind.timeToMaturity.construct none :=
  ⟨rfl, rfl, rfl⟩

/-- an instance is handed back as it is (keywords ignored); anything else raises `TypeError` -/
theorem getFeature_instance (reg : Registry String) (f : BaseFeature α) (kw : Option Bool) :
    getFeature reg (.instance f kw) = .ok (some f) := rfl

theorem getFeature_other (reg : Registry String) : getFeature (α := α) reg .other = .error .typeError := rfl

end Construct

/-! ### user registrations -/

private theorem featClass_eq (reg : Registry String) (n : String) :
    featClass reg n = match reg.getClass n with
      | .ok c => .ok c
      | .error _ => .error .keyError := by
  unfold featClass Registry.getClass
  cases Registry.lookup reg.entries n <;> rfl

/-- after any history of user registrations: the last class registered under the name -/
theorem featClass_user_last (user : List (String × String)) (n c : String)
    (h : lastRegistered user n = some c) : featClass (featReg user) n = .ok c := by
  rw [featClass_eq, featReg, getClass_registerAll, h]

/-- … and a name the history never registers stands for what it stood for (frame) -/
theorem featClass_user_frame (user : List (String × String)) (n : String)
    (h : ∀ e ∈ user, e.1 ≠ n) : featClass (featReg user) n = featClass builtinReg n := by
  have hl : lastRegistered user n = none := by
    unfold lastRegistered
    have : user.filter (fun nv => decide (nv.1 = n)) = [] := by
      apply List.filter_eq_nil_iff.mpr
      intro e he
      simpa using h e he
    rw [this]
    rfl
  rw [featClass_eq, featReg, getClass_registerAll, hl, featClass_eq]

/-- a library name keeps its library class through any user history that does not rebind it -/
theorem builtin_survives (user : List (String × String)) (k : FeatKind)
    (h : ∀ e ∈ user, e.1 ≠ k.regName) : featClass (featReg user) k.regName = .ok k.className := by
  rw [featClass_user_frame user _ h, builtin_class]

/-! ### `list_feature_names()` -/

private theorem insertStr_perm (s : String) (l : List String) : (insertStr s l).Perm (s :: l) := by
  induction l with
  | nil => exact List.Perm.refl _
  | cons t rest ih =>
    unfold insertStr
    split
    · exact List.Perm.refl _
    · exact (List.Perm.cons t ih).trans (List.Perm.swap s t rest)

private theorem sortStr_perm (l : List String) : (sortStr l).Perm l := by
  induction l with
  | nil => exact List.Perm.refl _
  | cons s rest ih => exact (insertStr_perm s _).trans (List.Perm.cons s ih)

private theorem insertStr_sorted (s : String) (l : List String) (h : l.Pairwise (· ≤ ·)) :
    (insertStr s l).Pairwise (· ≤ ·) := by
  induction l with
  | nil => simp [insertStr]
  | cons t rest ih =>
    unfold insertStr
    split
    · rename_i hlt
      refine List.Pairwise.cons ?_ h
      intro x hx
      rcases List.mem_cons.mp hx with rfl | hx
      · exact le_of_lt hlt
      · exact le_trans (le_of_lt hlt) (List.rel_of_pairwise_cons h hx)
    · rename_i hnlt
      have hts : t ≤ s := not_lt.mp hnlt
      refine List.Pairwise.cons ?_ (ih (List.Pairwise.of_cons h))
      intro x hx
      rcases List.mem_cons.mp ((insertStr_perm s rest).subset hx) with rfl | hx
      · exact hts
      · exact List.rel_of_pairwise_cons h hx

private theorem sortStr_sorted (l : List String) : (sortStr l).Pairwise (· ≤ ·) := by
  induction l with
  | nil => simp [sortStr]
  | cons s rest ih => exact insertStr_sorted s _ ih

/-- `list_feature_names()` lists exactly the registered names … -/
theorem listFeatureNames_perm (reg : Registry String) : (listFeatureNames reg).Perm reg.names :=
  sortStr_perm _

/-- … in increasing order -/
theorem listFeatureNames_sorted (reg : Registry String) : (listFeatureNames reg).Pairwise (· ≤ ·) :=
  sortStr_sorted _

theorem listFeatureNames_builtin :
    listFeatureNames builtinReg =
      ["empty", "expiry_time", "log_moneyness", "max_log_moneyness", "max_moneyness", "moneyness", "prev_hedge",
       "spot", "time_to_maturity", "underlier_spot", "variance", "volatility", "zeros"] := by decide

/-- non-vacuity: a user history that rebinds a library name and adds one -/
example : featClass (featReg [("moneyness", "LogMoneyness"), ("mine", "MyFeat")]) "moneyness" = .ok "LogMoneyness" ∧
    featClass (featReg [("moneyness", "LogMoneyness"), ("mine", "MyFeat")]) "spot" = .ok "Spot" ∧
    featClass (featReg [("moneyness", "LogMoneyness"), ("mine", "MyFeat")]) "nope" = .error .keyError := by decide

end PfVerif.C03Registry
