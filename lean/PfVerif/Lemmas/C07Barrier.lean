/-
  C07 (barrier part) — the quoted price of the American binary call / one-touch
  (`bsAmericanBinaryPrice`, Model/BS.lean) is the probability that the risk-neutral log-price path
  reaches the barrier before maturity.

  Under the zero-rate risk-neutral measure `log(S_u/K) = s + v W_u − v² u/2` with `W` a standard
  Brownian motion, so (for `s < 0`) the barrier `K` is touched before `t` iff
      max_{u ≤ t} (W_u + θ u) ≥ c,      θ = −v/2,   c = −s/v > 0.

  TRUSTED ASSUMPTION (not proved; Brownian motion and its running maximum are not in Mathlib): the
  law of `(W_t, M_t)`, `M_t = max_{u ≤ t} W_u`, has the reflection-principle density
      f_t(w, m) = 2(2m − w)/(t√(2πt)) · exp(−(2m − w)²/(2t))   on  m ≥ max(w, 0),  0 elsewhere
  (`jointDensity`), and the law of the drifted process `W_u + θ u` is obtained by multiplying with
  the Cameron–Martin weight `exp(θ w − θ² t/2)` (`girsanov`).  These two formulas are taken as the
  DEFINITION of the law; `hitProb θ t c` is the integral of the indicator of `{m ≥ c}` against the
  weighted density.  Everything after the definitions is proved:

    * `integral_reflKernel_Ici`  ∫_{m ≥ a} f_t(w, m) dm = g_t(2a − w)   (FTC on a half-line)
    * `jointDensity_nonneg`, `jointDensity_marginal` (the `W_t`-marginal is `N(0, t)`),
      `weighted_jointDensity_total_mass` (= 1), `hitProb_zero` (= 1)
    * `hitProb_eq`               hitProb θ t c = Φ((θt − c)/√t) + e^{2θc} Φ((−c − θt)/√t),  c ≥ 0
    * `american_binary_eq_hit_probability`, `american_binary_after_hit`, `hitProb_mem_Ioo`
-/
import PfVerif.Props.C08
import PfVerif.Lemmas.GaussInt
import PfVerif.Lemmas.BSIneq
import Mathlib.MeasureTheory.Measure.Haar.NormedSpace

namespace PfVerif.C07Barrier
open PfVerif PfVerif.BSCalc PfVerif.C08Aux PfVerif.BSIneq Real MeasureTheory Set Filter Topology

/-- centred normal density with variance `t` -/
noncomputable def gauss (t x : ℝ) : ℝ :=
  1 / Real.sqrt (2 * π * t) * Real.exp (-(x ^ 2) / (2 * t))

theorem sqrt_two_pi_mul (t : ℝ) :
    Real.sqrt (2 * π * t) = Real.sqrt (2 * π) * Real.sqrt t :=
  Real.sqrt_mul (by positivity) t

theorem gauss_eq_phi {t : ℝ} (ht : 0 < t) (x : ℝ) :
    gauss t x = phi (x / Real.sqrt t) / Real.sqrt t := by
  have hr : 0 < Real.sqrt t := Real.sqrt_pos.2 ht
  unfold gauss phi
  rw [sqrt_two_pi_mul t, div_pow, Real.sq_sqrt ht.le]
  have e : -(x ^ 2 / t) / 2 = -(x ^ 2) / (2 * t) := by field_simp
  rw [e]
  field_simp

/-- Cameron–Martin tilt of the centred normal density: the mean moves to `θ t` -/
theorem gauss_mul_girsanov {t : ℝ} (ht : 0 < t) (θ x : ℝ) :
    gauss t x * Real.exp (θ * x - θ ^ 2 * t / 2)
      = phi (x / Real.sqrt t - θ * Real.sqrt t) / Real.sqrt t := by
  have hr : 0 < Real.sqrt t := Real.sqrt_pos.2 ht
  rw [gauss_eq_phi ht, ← phi_shift (θ * Real.sqrt t) (x / Real.sqrt t)]
  have e : θ * Real.sqrt t * (x / Real.sqrt t) - (θ * Real.sqrt t) ^ 2 / 2
      = θ * x - θ ^ 2 * t / 2 := by
    rw [mul_pow, Real.sq_sqrt ht.le]
    field_simp
  rw [e]
  ring

/-- half-line integrals of the `N(μ r, r²)` density, upper tail -/
theorem integral_scaled_phi_Ioi {r : ℝ} (hr : 0 < r) (μ a : ℝ) :
    ∫ x in Ioi a, phi (x / r - μ) / r = 1 - Phi (a / r - μ) := by
  have h := integral_comp_mul_left_Ioi (fun z => phi (z - μ)) a (inv_pos.2 hr)
  rw [integral_phi_shift_Ioi, inv_inv, smul_eq_mul] at h
  rw [integral_div]
  have e : (fun x => phi (x / r - μ)) = fun x => phi (r⁻¹ * x - μ) := by
    funext x; rw [div_eq_inv_mul]
  rw [e, h, div_eq_inv_mul a r]
  field_simp

theorem scaled_phi_integrable {r : ℝ} (hr : 0 < r) (μ : ℝ) :
    Integrable fun x => phi (x / r - μ) / r :=
  ((phi_shift_integrable μ).comp_div hr.ne').div_const r

theorem integral_scaled_phi {r : ℝ} (hr : 0 < r) (μ : ℝ) :
    ∫ x, phi (x / r - μ) / r = 1 := by
  have h := Measure.integral_comp_div (fun z => phi (z - μ)) r
  rw [integral_div]
  rw [h, integral_sub_right_eq_self phi μ, integral_phi, abs_of_pos hr, smul_eq_mul, mul_one]
  exact div_self hr.ne'

theorem integral_scaled_phi_Iic {r : ℝ} (hr : 0 < r) (μ a : ℝ) :
    ∫ x in Iic a, phi (x / r - μ) / r = Phi (a / r - μ) := by
  have h1 := intervalIntegral.integral_Iic_add_Ioi (b := a)
    ((scaled_phi_integrable hr μ).integrableOn (s := Iic a))
    ((scaled_phi_integrable hr μ).integrableOn (s := Ioi a))
  rw [integral_scaled_phi hr, integral_scaled_phi_Ioi hr] at h1
  linarith


/-! ### the reflection-principle kernel and its integral over the running maximum -/

/-- the reflection-principle expression `2(2m − w)/(t√(2πt)) · exp(−(2m − w)²/(2t))` -/
noncomputable def reflKernel (t w m : ℝ) : ℝ :=
  2 * (2 * m - w) / (t * Real.sqrt (2 * π * t)) * Real.exp (-((2 * m - w) ^ 2) / (2 * t))

theorem reflKernel_eq {t : ℝ} (ht : 0 < t) (w m : ℝ) :
    reflKernel t w m = 2 * (2 * m - w) / t * gauss t (2 * m - w) := by
  have hs : 0 < Real.sqrt (2 * π * t) := Real.sqrt_pos.2 (by positivity)
  unfold reflKernel gauss
  field_simp

theorem gauss_hasDerivAt {t : ℝ} (ht : 0 < t) (x : ℝ) :
    HasDerivAt (gauss t) (-(x / t) * gauss t x) x := by
  have h1 : HasDerivAt (fun y : ℝ => -(y ^ 2) / (2 * t)) (-(x / t)) x := by
    have h := ((hasDerivAt_pow 2 x).neg).div_const (2 * t)
    refine h.congr_deriv ?_
    have e : ((2 : ℕ) : ℝ) * x ^ (2 - 1) = 2 * x := by norm_num
    rw [e]
    field_simp
  have h2 := (h1.exp).const_mul (1 / Real.sqrt (2 * π * t))
  have e : gauss t = fun y : ℝ => 1 / Real.sqrt (2 * π * t) * Real.exp (-(y ^ 2) / (2 * t)) := rfl
  rw [e]
  refine h2.congr_deriv ?_
  beta_reduce
  ring

/-- `m ↦ −g_t(2m − w)` is an antiderivative of the reflection kernel -/
theorem reflKernel_antideriv {t : ℝ} (ht : 0 < t) (w m : ℝ) :
    HasDerivAt (fun m' => -gauss t (2 * m' - w)) (reflKernel t w m) m := by
  have hin : HasDerivAt (fun m' : ℝ => 2 * m' - w) 2 m := by
    simpa using ((hasDerivAt_id m).const_mul 2).sub_const w
  have h := ((gauss_hasDerivAt ht (2 * m - w)).comp m hin).neg
  refine h.congr_deriv ?_
  rw [reflKernel_eq ht]
  ring

theorem gauss_tendsto_atTop {t : ℝ} (ht : 0 < t) : Tendsto (gauss t) atTop (𝓝 0) := by
  have h1 : Tendsto (fun x : ℝ => -(x ^ 2) / (2 * t)) atTop atBot :=
    (tendsto_neg_atTop_atBot.comp (tendsto_pow_atTop (by norm_num : (2 : ℕ) ≠ 0))).atBot_div_const
      (by positivity)
  have h2 := (Real.tendsto_exp_atBot.comp h1).const_mul (1 / Real.sqrt (2 * π * t))
  rw [mul_zero] at h2
  exact h2

theorem gauss_comp_tendsto_atTop {t : ℝ} (ht : 0 < t) (w : ℝ) :
    Tendsto (fun m => -gauss t (2 * m - w)) atTop (𝓝 0) := by
  have h1 : Tendsto (fun m : ℝ => 2 * m - w) atTop atTop :=
    tendsto_atTop_add_const_right _ _ (tendsto_id.const_mul_atTop (by norm_num : (0 : ℝ) < 2))
  have h := ((gauss_tendsto_atTop ht).comp h1).neg
  rw [neg_zero] at h
  exact h

theorem reflKernel_integrable {t : ℝ} (ht : 0 < t) (w : ℝ) :
    Integrable fun m => reflKernel t w m := by
  have hb : (0 : ℝ) < 1 / (2 * t) := by positivity
  have h0 := integrable_mul_exp_neg_mul_sq hb
  have h1 := ((h0.comp_mul_left' (by norm_num : (2 : ℝ) ≠ 0)).comp_sub_right (w / 2)).const_mul
    (2 / (t * Real.sqrt (2 * π * t)))
  refine h1.congr (Eventually.of_forall fun m => ?_)
  have e1 : 2 * (m - w / 2) = 2 * m - w := by ring
  have e2 : -(1 / (2 * t)) * (2 * m - w) ^ 2 = -((2 * m - w) ^ 2) / (2 * t) := by ring
  simp only [e1, e2]
  unfold reflKernel
  ring

/-- integral of the reflection kernel over `m ≥ a` (FTC on a half-line) -/
theorem integral_reflKernel_Ici {t : ℝ} (ht : 0 < t) (w a : ℝ) :
    ∫ m in Ici a, reflKernel t w m = gauss t (2 * a - w) := by
  rw [integral_Ici_eq_integral_Ioi,
    integral_Ioi_of_hasDerivAt_of_tendsto' (fun m _ => reflKernel_antideriv ht w m)
      (reflKernel_integrable ht w).integrableOn (gauss_comp_tendsto_atTop ht w)]
  ring


/-- `integral_reflKernel_Ici` with every definition unfolded -/
theorem integral_reflKernel_Ici_explicit {t : ℝ} (ht : 0 < t) (w a : ℝ) :
    ∫ m in Ici a,
        2 * (2 * m - w) / (t * Real.sqrt (2 * π * t)) * Real.exp (-((2 * m - w) ^ 2) / (2 * t))
      = 1 / Real.sqrt (2 * π * t) * Real.exp (-((2 * a - w) ^ 2) / (2 * t)) :=
  integral_reflKernel_Ici ht w a

/-! ### the law of `(W_t, M_t)` (TRUSTED: reflection principle) and the hitting probability -/

/-- Joint density of standard Brownian motion `W_t` and its running maximum
`M_t = max_{u ≤ t} W_u` at time `t > 0` (reflection principle), supported on `m ≥ max w 0`.
This is taken as the DEFINITION of the law of `(W_t, M_t)`. -/
noncomputable def jointDensity (t w m : ℝ) : ℝ :=
  if max w 0 ≤ m then
    2 * (2 * m - w) / (t * Real.sqrt (2 * π * t)) * Real.exp (-((2 * m - w) ^ 2) / (2 * t))
  else 0

/-- Cameron–Martin / Girsanov weight turning `W` into `W_u + θ u` -/
noncomputable def girsanov (θ t w : ℝ) : ℝ := Real.exp (θ * w - θ ^ 2 * t / 2)

/-- Probability that `max_{u ≤ t} (W_u + θ u) ≥ c`: the integral of the indicator of `{m ≥ c}`
against the joint density of `(W_t, M_t)` weighted by the Cameron–Martin factor. -/
noncomputable def hitProb (θ t c : ℝ) : ℝ :=
  ∫ w, ∫ m, (if c ≤ m then (1 : ℝ) else 0) * (jointDensity t w m * girsanov θ t w)

theorem jointDensity_eq (t w m : ℝ) :
    jointDensity t w m = if max w 0 ≤ m then reflKernel t w m else 0 := rfl

/-- for a barrier `c ≥ 0` the event `{M_t ≥ c}` inside the support is `m ≥ max c w` -/
theorem hitProb_eq_Ici (θ t : ℝ) {c : ℝ} (hc : 0 ≤ c) :
    hitProb θ t c = ∫ w, ∫ m in Ici (max c w), reflKernel t w m * girsanov θ t w := by
  unfold hitProb
  congr 1
  funext w
  rw [← integral_indicator measurableSet_Ici]
  congr 1
  funext m
  rw [jointDensity_eq]
  by_cases h : max c w ≤ m
  · have h1 : c ≤ m := le_trans (le_max_left _ _) h
    have h2 : max w 0 ≤ m := max_le (le_trans (le_max_right _ _) h) (le_trans hc h1)
    rw [indicator_of_mem (show m ∈ Ici _ from h), if_pos h1, if_pos h2, one_mul]
  · rw [indicator_of_notMem (show m ∉ Ici _ from h)]
    by_cases h1 : c ≤ m
    · have h2 : ¬ max w 0 ≤ m := fun h2 => h (max_le h1 (le_trans (le_max_left _ _) h2))
      rw [if_neg h2, zero_mul, mul_zero]
    · rw [if_neg h1, zero_mul]

/-- the inner integral: `∫_{m ≥ a} f_t(w, m) dm · weight = g_t(2a − w) · weight` -/
theorem inner_integral {t : ℝ} (ht : 0 < t) (θ w a : ℝ) :
    ∫ m in Ici a, reflKernel t w m * girsanov θ t w = gauss t (2 * a - w) * girsanov θ t w := by
  rw [integral_mul_const, integral_reflKernel_Ici ht]

/-- integrand of the outer integral above the barrier: the `N(θt, t)` density -/
theorem outer_above {t : ℝ} (ht : 0 < t) (θ c w : ℝ) (hw : c ≤ w) :
    gauss t (2 * max c w - w) * girsanov θ t w
      = phi (w / Real.sqrt t - θ * Real.sqrt t) / Real.sqrt t := by
  have e : 2 * max c w - w = w := by rw [max_eq_right hw]; ring
  rw [e, girsanov, gauss_mul_girsanov ht]

/-- integrand of the outer integral below the barrier: `e^{2θc}` times the `N(2c + θt, t)`
density (the reflected path) -/
theorem outer_below {t : ℝ} (ht : 0 < t) (θ c w : ℝ) (hw : w ≤ c) :
    gauss t (2 * max c w - w) * girsanov θ t w
      = Real.exp (2 * θ * c)
        * (phi (w / Real.sqrt t - (2 * c / Real.sqrt t + θ * Real.sqrt t)) / Real.sqrt t) := by
  have hr : 0 < Real.sqrt t := Real.sqrt_pos.2 ht
  have e : girsanov θ t w
      = Real.exp (2 * θ * c) * Real.exp (-θ * (2 * c - w) - (-θ) ^ 2 * t / 2) := by
    rw [girsanov, ← Real.exp_add]; congr 1; ring
  rw [max_eq_left hw, e, mul_left_comm, gauss_mul_girsanov ht, ← phi_neg]
  congr 3
  field_simp
  ring

theorem outer_integrand_integrable {t : ℝ} (ht : 0 < t) (θ c : ℝ) :
    Integrable fun w => gauss t (2 * max c w - w) * girsanov θ t w := by
  have hr : 0 < Real.sqrt t := Real.sqrt_pos.2 ht
  have hA : IntegrableOn (fun w => gauss t (2 * max c w - w) * girsanov θ t w) (Iic c) :=
    (((scaled_phi_integrable hr _).const_mul (Real.exp (2 * θ * c))).integrableOn (s := Iic c)).congr_fun
      (fun w hw => (outer_below ht θ c w hw).symm) measurableSet_Iic
  have hB : IntegrableOn (fun w => gauss t (2 * max c w - w) * girsanov θ t w) (Ioi c) :=
    ((scaled_phi_integrable hr _).integrableOn (s := Ioi c)).congr_fun
      (fun w hw => (outer_above ht θ c w (le_of_lt hw)).symm) measurableSet_Ioi
  have h := hA.union hB
  rwa [Iic_union_Ioi, integrableOn_univ] at h

/-- **Hitting probability of a drifted Brownian motion** (Bachelier–Lévy formula), derived from
the reflection-principle joint law and the Cameron–Martin weight. -/
theorem hitProb_eq {θ t c : ℝ} (ht : 0 < t) (hc : 0 ≤ c) :
    hitProb θ t c
      = Phi ((θ * t - c) / Real.sqrt t) + Real.exp (2 * θ * c) * Phi ((-c - θ * t) / Real.sqrt t) := by
  have hr : 0 < Real.sqrt t := Real.sqrt_pos.2 ht
  have hrr : Real.sqrt t ^ 2 = t := Real.sq_sqrt ht.le
  rw [hitProb_eq_Ici θ t hc]
  simp_rw [inner_integral ht]
  have hI := outer_integrand_integrable ht θ c
  rw [← intervalIntegral.integral_Iic_add_Ioi (b := c) hI.integrableOn hI.integrableOn,
    setIntegral_congr_fun measurableSet_Iic (fun w hw => outer_below ht θ c w hw),
    setIntegral_congr_fun measurableSet_Ioi (fun w hw => outer_above ht θ c w (le_of_lt hw)),
    integral_const_mul, integral_scaled_phi_Iic hr, integral_scaled_phi_Ioi hr, ← Phi_neg, add_comm]
  have e1 : -(c / Real.sqrt t - θ * Real.sqrt t) = (θ * t - c) / Real.sqrt t := by
    field_simp; rw [hrr]; ring
  have e2 : c / Real.sqrt t - (2 * c / Real.sqrt t + θ * Real.sqrt t)
      = (-c - θ * t) / Real.sqrt t := by
    field_simp; rw [hrr]; ring
  rw [e1, e2]


/-! ### sanity of the trusted law: non-negativity, marginal, total mass -/

theorem jointDensity_nonneg {t : ℝ} (ht : 0 < t) (w m : ℝ) : 0 ≤ jointDensity t w m := by
  unfold jointDensity
  split_ifs with h
  · have h1 : w ≤ m := le_trans (le_max_left _ _) h
    have h2 : 0 ≤ m := le_trans (le_max_right _ _) h
    have h3 : 0 ≤ 2 * m - w := by linarith
    positivity
  · exact le_rfl

theorem gauss_abs (t x : ℝ) : gauss t |x| = gauss t x := by
  unfold gauss; rw [sq_abs]

/-- integrating the running maximum out of the joint density leaves the `N(0, t)` density of
`W_t` -/
theorem jointDensity_marginal {t : ℝ} (ht : 0 < t) (w : ℝ) :
    ∫ m, jointDensity t w m = gauss t w := by
  have e : (fun m => jointDensity t w m) = (Ici (max w 0)).indicator (fun m => reflKernel t w m) := by
    funext m
    rw [jointDensity_eq]
    by_cases h : max w 0 ≤ m
    · rw [if_pos h, indicator_of_mem (show m ∈ Ici _ from h)]
    · rw [if_neg h, indicator_of_notMem (show m ∉ Ici _ from h)]
  rw [e, integral_indicator measurableSet_Ici, integral_reflKernel_Ici ht, ← gauss_abs t w]
  congr 1
  rcases le_total 0 w with h | h
  · rw [max_eq_left h, abs_of_nonneg h]; ring
  · rw [max_eq_right h, abs_of_nonpos h]; ring

/-- a barrier at the starting point is hit with probability one: `Φ(θ√t) + Φ(−θ√t) = 1` -/
theorem hitProb_zero {t : ℝ} (θ : ℝ) (ht : 0 < t) : hitProb θ t 0 = 1 := by
  rw [hitProb_eq ht le_rfl]
  have e : (-0 - θ * t) / Real.sqrt t = -((θ * t - 0) / Real.sqrt t) := by ring
  rw [e, Phi_neg, mul_zero, Real.exp_zero]
  ring

/-- the weighted joint density (the law of `(X_t, max X)` for `X_u = W_u + θ u`) has total mass
one -/
theorem weighted_jointDensity_total_mass {t : ℝ} (θ : ℝ) (ht : 0 < t) :
    ∫ w, ∫ m, jointDensity t w m * girsanov θ t w = 1 := by
  rw [← hitProb_zero θ ht]
  unfold hitProb
  congr 1
  funext w
  congr 1
  funext m
  by_cases h : (0 : ℝ) ≤ m
  · rw [if_pos h, one_mul]
  · have h2 : ¬ max w 0 ≤ m := fun h2 => h (le_trans (le_max_right _ _) h2)
    rw [if_neg h, zero_mul, jointDensity, if_neg h2, zero_mul]

/-! ### the one-touch price is the hitting probability -/

/-- closed form of the hitting probability in the variables of the pricing formula:
`θ = −v/2`, `c = −s/v` give `Φ(d₂) + eˢ Φ(d₁)` -/
theorem hitProb_eq_closed_form {s t v : ℝ} (hs : s ≤ 0) (ht : 0 < t) (hv : 0 < v) :
    hitProb (-v / 2) t (-s / v)
      = Phi (d2 s (v * Real.sqrt t)) + Real.exp s * Phi (d1 s (v * Real.sqrt t)) := by
  have hr : 0 < Real.sqrt t := Real.sqrt_pos.2 ht
  have hrr : Real.sqrt t ^ 2 = t := Real.sq_sqrt ht.le
  have hc : 0 ≤ -s / v := div_nonneg (by linarith) hv.le
  rw [hitProb_eq ht hc]
  have e1 : (-v / 2 * t - -s / v) / Real.sqrt t = d2 s (v * Real.sqrt t) := by
    unfold d2
    field_simp
    rw [hrr]; ring
  have e2 : (-(-s / v) - -v / 2 * t) / Real.sqrt t = d1 s (v * Real.sqrt t) := by
    unfold d1
    field_simp
    rw [hrr]; ring
  have e3 : 2 * (-v / 2) * (-s / v) = s := by field_simp
  rw [e1, e2, e3]

/-- the identity below without the path-consistency condition `s ≤ m` (only `s ≤ 0`, `m < 0`) -/
theorem american_binary_eq_hit_probability' {s m t v : ℝ} (hs : s ≤ 0) (hm : m < 0) (ht : 0 < t)
    (hv : 0 < v) :
    val (bsAmericanBinaryPrice s m t v) = hitProb (-v / 2) t (-s / v) := by
  rw [american_price_ok ht hv, hitProb_eq_closed_form hs ht hv]
  simp only [val_ok, hm, if_true]

/-- The quoted price of the American binary call (one-touch), barrier not yet hit
(`s ≤ m < 0`), equals the probability — under the reflection-principle law of `(W_t, M_t)` with the
Cameron–Martin weight for the drift `−v/2` — that the log-price `s + v W_u − v² u / 2` reaches `0`
before `t`, i.e. that `max_{u ≤ t} (W_u − (v/2) u) ≥ −s/v`. -/
theorem american_binary_eq_hit_probability {s m t v : ℝ} (hsm : s ≤ m) (hm : m < 0) (ht : 0 < t)
    (hv : 0 < v) :
    val (bsAmericanBinaryPrice s m t v) = hitProb (-v / 2) t (-s / v) :=
  american_binary_eq_hit_probability' (le_trans hsm hm.le) hm ht hv

/-- once the barrier has been hit the price is the (certain) payoff `1` -/
theorem american_binary_after_hit {m t v : ℝ} (s : ℝ) (hm : 0 ≤ m) (ht : 0 < t) (hv : 0 < v) :
    val (bsAmericanBinaryPrice s m t v) = 1 := by
  rw [(PfVerif.C08.american_binary_after_hit s 1 ht hv hm).1]
  rfl

/-- the price is a probability strictly between 0 and 1 while the barrier is above the spot -/
theorem hitProb_mem_Ioo {s t v : ℝ} (hs : s < 0) (ht : 0 < t) (hv : 0 < v) :
    0 < hitProb (-v / 2) t (-s / v) ∧ hitProb (-v / 2) t (-s / v) < 1 := by
  rw [hitProb_eq_closed_form hs.le ht hv]
  refine ⟨?_, american_lt_one hs (w_pos ht hv)⟩
  have h1 := (Phi_mem_Ioo (d2 s (v * Real.sqrt t))).1
  have h2 := (Phi_mem_Ioo (d1 s (v * Real.sqrt t))).1
  positivity

/-- non-vacuity: `S/K = e⁻¹`, running maximum `e^{-1/2} K`, `t = v = 1`.  The model returns `.ok`,
its value is the hitting probability of the barrier `c = 1` by a Brownian motion with drift `−1/2`,
which equals `Φ(−3/2) + e⁻¹ Φ(−1/2)` and lies strictly between 0 and 1. -/
example :
    bsAmericanBinaryPrice (-1 : ℝ) (-(1 / 2)) 1 1
      = .ok (Phi (d2 (-1) (1 * Real.sqrt 1)) + Real.exp (-1) * Phi (d1 (-1) (1 * Real.sqrt 1))) ∧
    val (bsAmericanBinaryPrice (-1 : ℝ) (-(1 / 2)) 1 1) = hitProb (-1 / 2) 1 (- -1 / 1) ∧
    hitProb (-1 / 2) 1 (- -1 / 1) = Phi (-(3 / 2)) + Real.exp (-1) * Phi (-(1 / 2)) ∧
    0 < hitProb (-1 / 2) 1 (- -1 / 1) ∧ hitProb (-1 / 2) 1 (- -1 / 1) < 1 := by
  have hm : (-(1 / 2) : ℝ) < 0 := by norm_num
  refine ⟨?_, american_binary_eq_hit_probability (by norm_num) hm one_pos one_pos, ?_,
    hitProb_mem_Ioo (by norm_num) one_pos one_pos⟩
  · rw [american_price_ok one_pos one_pos, if_pos hm]
  · rw [hitProb_eq_closed_form (by norm_num) one_pos one_pos]
    have e1 : d2 (-1) (1 * Real.sqrt 1) = -(3 / 2) := by unfold d2; rw [Real.sqrt_one]; norm_num
    have e2 : d1 (-1) (1 * Real.sqrt 1) = -(1 / 2) := by unfold d1; rw [Real.sqrt_one]; norm_num
    rw [e1, e2]

end PfVerif.C07Barrier
