/-
  C07 — the input-resolution layer of the Black–Scholes pricing modules (Model/Acquire.lean):
  "the pricing modules built from a derivative use that derivative's strike, call/put flag and
  simulated state, and agree with the functional forms".

  What is proved, about the definitions the driver op `bs_module` executes:
    * `resolve`, `acquire0/1/2` (generic in the tensor type): explicit wins, fallback to the derivative,
      independence of the parameters (each resolved component is a function of its own explicit argument
      and the derivative only — all 2^3 / 2^4 override subsets at once), success / error characterisation
      in the code's order (log_moneyness, time_to_maturity, volatility, max_log_moneyness);
    * `Deriv.source`: the derivative's state at a cell is the value of the Hedger features there;
    * `BSModule.eval`: price / delta = the functional form of Model/BS.lean at the resolved tuple with the
      module's strike and call flag, for every subset of overrides (closed form with `Option.getD`);
      construction from a derivative (call flag, strike; puts of path-dependent kinds rejected);
    * corollaries over ℝ: the European / European-binary module built from a derivative quotes the
      risk-neutral expectation of the payoff (Props/C07) at the resolved state — in particular, with no
      overrides, at the derivative's own spot, remaining time and volatility.
  Helper equalities are in `PfVerif.C07AcquireAux` (not listed by the audit).
-/
import PfVerif.Model.Acquire
import PfVerif.Props.C07

set_option linter.unusedSectionVars false

namespace PfVerif.C07AcquireAux
open PfVerif

variable {τ : Type}

theorem acquire0_eq (d : Option (Source τ)) (s t : Option τ) :
    acquire0 d s t =
      match resolve d (·.logMoneyness) s with
      | .error e => .error e
      | .ok a =>
        match resolve d (·.timeToMaturity) t with
        | .error e => .error e
        | .ok b => .ok (a, b) := by
  unfold acquire0
  cases resolve d (·.logMoneyness) s <;> cases resolve d (·.timeToMaturity) t <;> rfl

theorem acquire1_eq (d : Option (Source τ)) (s t v : Option τ) :
    acquire1 d s t v =
      match resolve d (·.logMoneyness) s with
      | .error e => .error e
      | .ok a =>
        match resolve d (·.timeToMaturity) t with
        | .error e => .error e
        | .ok b =>
          match resolve d (·.volatility) v with
          | .error e => .error e
          | .ok c => .ok (a, b, c) := by
  unfold acquire1
  rw [acquire0_eq]
  cases resolve d (·.logMoneyness) s <;> cases resolve d (·.timeToMaturity) t <;>
    cases resolve d (·.volatility) v <;> rfl

theorem acquire2_eq (d : Option (Source τ)) (s m t v : Option τ) :
    acquire2 d s m t v =
      match resolve d (·.logMoneyness) s with
      | .error e => .error e
      | .ok a =>
        match resolve d (·.timeToMaturity) t with
        | .error e => .error e
        | .ok c =>
          match resolve d (·.volatility) v with
          | .error e => .error e
          | .ok f =>
            match resolve d (·.maxLogMoneyness) m with
            | .error e => .error e
            | .ok b => .ok (a, b, c, f) := by
  unfold acquire2
  rw [acquire1_eq]
  cases resolve d (·.logMoneyness) s <;> cases resolve d (·.timeToMaturity) t <;>
    cases resolve d (·.volatility) v <;> cases resolve d (·.maxLogMoneyness) m <;> rfl

/-- a small source over `Nat` used by the non-vacuity examples: every accessor succeeds -/
def srcN : Source Nat := ⟨.ok 10, .ok 20, .ok 30, .ok 40⟩
/-- a source of a derivative whose underlier has a spot but no volatility -/
def srcNoVol : Source Nat := ⟨.ok 10, .ok 20, .ok 30, .error .attributeError⟩
/-- a source of a derivative whose underlier has not been simulated -/
def srcUnsim : Source Nat :=
  ⟨.error .attributeError, .error .attributeError, .error .attributeError, .error .attributeError⟩

end PfVerif.C07AcquireAux

namespace PfVerif.C07Acquire
open PfVerif PfVerif.C07AcquireAux

/-! ## one parameter -/
section Resolve
variable {τ : Type}

/-- explicit wins: a given value is the resolved value whatever the derivative holds (or if there is none) -/
theorem resolve_explicit (d : Option (Source τ)) (get : Source τ → Except AcqErr τ) (a : τ) :
    resolve d get (some a) = .ok a := rfl

/-- fallback: an omitted value is the derivative's accessor (its value or its error) -/
theorem resolve_fallback (src : Source τ) (get : Source τ → Except AcqErr τ) :
    resolve (some src) get none = get src := rfl

/-- neither explicit nor a derivative: `ValueError` -/
theorem resolve_missing (get : Source τ → Except AcqErr τ) :
    resolve none get none = .error .valueError := rfl

theorem resolve_ok_iff (d : Option (Source τ)) (get : Source τ → Except AcqErr τ) (x : Option τ)
    (a : τ) :
    resolve d get x = .ok a ↔ x = some a ∨ (x = none ∧ ∃ src, d = some src ∧ get src = .ok a) := by
  cases x with
  | some b => simp [resolve]
  | none => cases d <;> simp [resolve]

/-- a parameter fails to resolve iff it is omitted and either there is no derivative (`ValueError`) or the
derivative's accessor raises (that error) -/
theorem resolve_error_iff (d : Option (Source τ)) (get : Source τ → Except AcqErr τ) (x : Option τ)
    (e : AcqErr) :
    resolve d get x = .error e ↔
      x = none ∧ ((d = none ∧ e = .valueError) ∨ ∃ src, d = some src ∧ get src = .error e) := by
  cases x with
  | some b => simp [resolve]
  | none => cases d <;> simp [resolve, eq_comm]

example : resolve (some srcN) (·.volatility) (some 7) = .ok 7 ∧
    resolve (some srcN) (·.volatility) none = .ok 40 ∧
    resolve (none : Option (Source Nat)) (·.volatility) none = .error .valueError ∧
    resolve (some srcNoVol) (·.volatility) none = .error .attributeError ∧
    resolve (some srcNoVol) (·.volatility) (some 7) = .ok 7 := ⟨rfl, rfl, rfl, rfl, rfl⟩

end Resolve

/-! ## the three resolution functions -/
section Acquire
variable {τ : Type}

/-- `acquire_params_from_derivative_0` succeeds with `(a, b)` iff each parameter resolves — by itself — to
its component -/
theorem acquire0_ok_iff (d : Option (Source τ)) (s t : Option τ) (a b : τ) :
    acquire0 d s t = .ok (a, b) ↔
      resolve d (·.logMoneyness) s = .ok a ∧ resolve d (·.timeToMaturity) t = .ok b := by
  rw [acquire0_eq]
  cases resolve d (·.logMoneyness) s <;> cases resolve d (·.timeToMaturity) t <;> simp

/-- the error of `acquire_params_from_derivative_0` is the first failing parameter's, log_moneyness first -/
theorem acquire0_error_iff (d : Option (Source τ)) (s t : Option τ) (e : AcqErr) :
    acquire0 d s t = .error e ↔
      resolve d (·.logMoneyness) s = .error e ∨
      ((∃ a, resolve d (·.logMoneyness) s = .ok a) ∧ resolve d (·.timeToMaturity) t = .error e) := by
  rw [acquire0_eq]
  cases resolve d (·.logMoneyness) s <;> cases resolve d (·.timeToMaturity) t <;> simp

/-- independence, in its general form: `acquire_params_from_derivative_1` succeeds with `(a, b, c)` iff
each parameter resolves to its component *on its own* (`resolve` sees only that parameter's explicit
value and the derivative) -/
theorem acquire1_ok_iff (d : Option (Source τ)) (s t v : Option τ) (a b c : τ) :
    acquire1 d s t v = .ok (a, b, c) ↔
      resolve d (·.logMoneyness) s = .ok a ∧ resolve d (·.timeToMaturity) t = .ok b ∧
      resolve d (·.volatility) v = .ok c := by
  rw [acquire1_eq]
  cases resolve d (·.logMoneyness) s <;> cases resolve d (·.timeToMaturity) t <;>
    cases resolve d (·.volatility) v <;> simp

/-- the error of `acquire_params_from_derivative_1` is the first failing parameter's in the order
log_moneyness, time_to_maturity, volatility -/
theorem acquire1_error_iff (d : Option (Source τ)) (s t v : Option τ) (e : AcqErr) :
    acquire1 d s t v = .error e ↔
      resolve d (·.logMoneyness) s = .error e ∨
      ((∃ a, resolve d (·.logMoneyness) s = .ok a) ∧ resolve d (·.timeToMaturity) t = .error e) ∨
      ((∃ a, resolve d (·.logMoneyness) s = .ok a) ∧ (∃ b, resolve d (·.timeToMaturity) t = .ok b) ∧
        resolve d (·.volatility) v = .error e) := by
  rw [acquire1_eq]
  cases resolve d (·.logMoneyness) s <;> cases resolve d (·.timeToMaturity) t <;>
    cases resolve d (·.volatility) v <;> simp

/-- the same for `acquire_params_from_derivative_2`; components in the code's result order
(log_moneyness, max_log_moneyness, time_to_maturity, volatility) -/
theorem acquire2_ok_iff (d : Option (Source τ)) (s m t v : Option τ) (a b c f : τ) :
    acquire2 d s m t v = .ok (a, b, c, f) ↔
      resolve d (·.logMoneyness) s = .ok a ∧ resolve d (·.maxLogMoneyness) m = .ok b ∧
      resolve d (·.timeToMaturity) t = .ok c ∧ resolve d (·.volatility) v = .ok f := by
  rw [acquire2_eq]
  cases resolve d (·.logMoneyness) s <;> cases resolve d (·.timeToMaturity) t <;>
    cases resolve d (·.volatility) v <;> cases resolve d (·.maxLogMoneyness) m <;> simp

/-- the error of `acquire_params_from_derivative_2` is the first failing parameter's in the order
log_moneyness, time_to_maturity, volatility, max_log_moneyness (max_log_moneyness is checked LAST although
it is the second argument and the second component of the result) -/
theorem acquire2_error_iff (d : Option (Source τ)) (s m t v : Option τ) (e : AcqErr) :
    acquire2 d s m t v = .error e ↔
      resolve d (·.logMoneyness) s = .error e ∨
      ((∃ a, resolve d (·.logMoneyness) s = .ok a) ∧ resolve d (·.timeToMaturity) t = .error e) ∨
      ((∃ a, resolve d (·.logMoneyness) s = .ok a) ∧ (∃ c, resolve d (·.timeToMaturity) t = .ok c) ∧
        resolve d (·.volatility) v = .error e) ∨
      ((∃ a, resolve d (·.logMoneyness) s = .ok a) ∧ (∃ c, resolve d (·.timeToMaturity) t = .ok c) ∧
        (∃ f, resolve d (·.volatility) v = .ok f) ∧ resolve d (·.maxLogMoneyness) m = .error e) := by
  rw [acquire2_eq]
  cases resolve d (·.logMoneyness) s <;> cases resolve d (·.timeToMaturity) t <;>
    cases resolve d (·.volatility) v <;> cases resolve d (·.maxLogMoneyness) m <;> simp

/-- explicit wins (three-parameter form): every explicitly given parameter is returned unchanged, whatever
the derivative holds and whatever else is given or omitted -/
theorem acquire1_explicit_wins {d : Option (Source τ)} {s t v : Option τ} {a b c : τ}
    (h : acquire1 d s t v = .ok (a, b, c)) :
    (∀ x, s = some x → a = x) ∧ (∀ x, t = some x → b = x) ∧ (∀ x, v = some x → c = x) := by
  obtain ⟨h1, h2, h3⟩ := (acquire1_ok_iff ..).1 h
  refine ⟨?_, ?_, ?_⟩ <;> intro x hx <;> subst hx
  · exact (Except.ok.inj h1).symm
  · exact (Except.ok.inj h2).symm
  · exact (Except.ok.inj h3).symm

/-- explicit wins (four-parameter form) -/
theorem acquire2_explicit_wins {d : Option (Source τ)} {s m t v : Option τ} {a b c f : τ}
    (h : acquire2 d s m t v = .ok (a, b, c, f)) :
    (∀ x, s = some x → a = x) ∧ (∀ x, m = some x → b = x) ∧ (∀ x, t = some x → c = x) ∧
      (∀ x, v = some x → f = x) := by
  obtain ⟨h1, h2, h3, h4⟩ := (acquire2_ok_iff ..).1 h
  refine ⟨?_, ?_, ?_, ?_⟩ <;> intro x hx <;> subst hx
  · exact (Except.ok.inj h1).symm
  · exact (Except.ok.inj h2).symm
  · exact (Except.ok.inj h3).symm
  · exact (Except.ok.inj h4).symm

/-- fallback (three-parameter form): every omitted parameter is the derivative's own accessor value -/
theorem acquire1_fallback {src : Source τ} {s t v : Option τ} {a b c : τ}
    (h : acquire1 (some src) s t v = .ok (a, b, c)) :
    (s = none → src.logMoneyness = .ok a) ∧ (t = none → src.timeToMaturity = .ok b) ∧
      (v = none → src.volatility = .ok c) := by
  obtain ⟨h1, h2, h3⟩ := (acquire1_ok_iff ..).1 h
  refine ⟨?_, ?_, ?_⟩ <;> intro hx <;> subst hx
  · exact h1
  · exact h2
  · exact h3

/-- fallback (four-parameter form) -/
theorem acquire2_fallback {src : Source τ} {s m t v : Option τ} {a b c f : τ}
    (h : acquire2 (some src) s m t v = .ok (a, b, c, f)) :
    (s = none → src.logMoneyness = .ok a) ∧ (m = none → src.maxLogMoneyness = .ok b) ∧
      (t = none → src.timeToMaturity = .ok c) ∧ (v = none → src.volatility = .ok f) := by
  obtain ⟨h1, h2, h3, h4⟩ := (acquire2_ok_iff ..).1 h
  refine ⟨?_, ?_, ?_, ?_⟩ <;> intro hx <;> subst hx
  · exact h1
  · exact h2
  · exact h3
  · exact h4

/-- independence (three-parameter form), for every pair of override patterns at once: two successful
calls on the same derivative agree in every component whose explicit argument they share -/
theorem acquire1_independent {d : Option (Source τ)} {s t v s' t' v' : Option τ} {a b c a' b' c' : τ}
    (h : acquire1 d s t v = .ok (a, b, c)) (h' : acquire1 d s' t' v' = .ok (a', b', c')) :
    (s = s' → a = a') ∧ (t = t' → b = b') ∧ (v = v' → c = c') := by
  obtain ⟨h1, h2, h3⟩ := (acquire1_ok_iff ..).1 h
  obtain ⟨k1, k2, k3⟩ := (acquire1_ok_iff ..).1 h'
  refine ⟨?_, ?_, ?_⟩ <;> intro hx <;> subst hx
  · exact Except.ok.inj (h1.symm.trans k1)
  · exact Except.ok.inj (h2.symm.trans k2)
  · exact Except.ok.inj (h3.symm.trans k3)

/-- independence (four-parameter form) -/
theorem acquire2_independent {d : Option (Source τ)} {s m t v s' m' t' v' : Option τ}
    {a b c f a' b' c' f' : τ}
    (h : acquire2 d s m t v = .ok (a, b, c, f)) (h' : acquire2 d s' m' t' v' = .ok (a', b', c', f')) :
    (s = s' → a = a') ∧ (m = m' → b = b') ∧ (t = t' → c = c') ∧ (v = v' → f = f') := by
  obtain ⟨h1, h2, h3, h4⟩ := (acquire2_ok_iff ..).1 h
  obtain ⟨k1, k2, k3, k4⟩ := (acquire2_ok_iff ..).1 h'
  refine ⟨?_, ?_, ?_, ?_⟩ <;> intro hx <;> subst hx
  · exact Except.ok.inj (h1.symm.trans k1)
  · exact Except.ok.inj (h2.symm.trans k2)
  · exact Except.ok.inj (h3.symm.trans k3)
  · exact Except.ok.inj (h4.symm.trans k4)

/-- overriding parameters of a successful call replaces exactly the overridden components: with
`o? = some x` the component becomes `x`, with `o? = none` the argument is left as it was -/
theorem acquire2_override {d : Option (Source τ)} {s m t v : Option τ} {a b c f : τ}
    (h : acquire2 d s m t v = .ok (a, b, c, f)) (os om ot ov : Option τ) :
    acquire2 d (os.orElse fun _ => s) (om.orElse fun _ => m) (ot.orElse fun _ => t)
        (ov.orElse fun _ => v)
      = .ok (os.getD a, om.getD b, ot.getD c, ov.getD f) := by
  obtain ⟨h1, h2, h3, h4⟩ := (acquire2_ok_iff ..).1 h
  rw [acquire2_ok_iff]
  refine ⟨?_, ?_, ?_, ?_⟩
  · cases os <;> simp [h1, resolve_explicit]
  · cases om <;> simp [h2, resolve_explicit]
  · cases ot <;> simp [h3, resolve_explicit]
  · cases ov <;> simp [h4, resolve_explicit]

theorem acquire1_override {d : Option (Source τ)} {s t v : Option τ} {a b c : τ}
    (h : acquire1 d s t v = .ok (a, b, c)) (os ot ov : Option τ) :
    acquire1 d (os.orElse fun _ => s) (ot.orElse fun _ => t) (ov.orElse fun _ => v)
      = .ok (os.getD a, ot.getD b, ov.getD c) := by
  obtain ⟨h1, h2, h3⟩ := (acquire1_ok_iff ..).1 h
  rw [acquire1_ok_iff]
  refine ⟨?_, ?_, ?_⟩
  · cases os <;> simp [h1, resolve_explicit]
  · cases ot <;> simp [h2, resolve_explicit]
  · cases ov <;> simp [h3, resolve_explicit]

/-- a module without a derivative: resolution succeeds iff everything is explicit, and returns the inputs -/
theorem acquire2_none_ok_iff (s m t v : Option τ) (a b c f : τ) :
    acquire2 none s m t v = .ok (a, b, c, f) ↔ s = some a ∧ m = some b ∧ t = some c ∧ v = some f := by
  rw [acquire2_ok_iff]
  simp [resolve_ok_iff]

/-- a module without a derivative: every failure is a `ValueError`, raised iff some parameter is omitted -/
theorem acquire2_none_error_iff (s m t v : Option τ) (e : AcqErr) :
    acquire2 none s m t v = .error e ↔
      e = .valueError ∧ (s = none ∨ m = none ∨ t = none ∨ v = none) := by
  rw [acquire2_error_iff]
  cases s <;> cases m <;> cases t <;> cases v <;> simp [resolve, eq_comm]

theorem acquire1_none_ok_iff (s t v : Option τ) (a b c : τ) :
    acquire1 none s t v = .ok (a, b, c) ↔ s = some a ∧ t = some b ∧ v = some c := by
  rw [acquire1_ok_iff]
  simp [resolve_ok_iff]

theorem acquire1_none_error_iff (s t v : Option τ) (e : AcqErr) :
    acquire1 none s t v = .error e ↔ e = .valueError ∧ (s = none ∨ t = none ∨ v = none) := by
  rw [acquire1_error_iff]
  cases s <;> cases t <;> cases v <;> simp [resolve, eq_comm]

/-- a parameter is available: given explicitly, or the derivative exists and its accessor succeeds -/
def Available (d : Option (Source τ)) (get : Source τ → Except AcqErr τ) (x : Option τ) : Prop :=
  x.isSome = true ∨ ∃ src a, d = some src ∧ get src = .ok a

theorem available_iff (d : Option (Source τ)) (get : Source τ → Except AcqErr τ) (x : Option τ) :
    Available d get x ↔ ∃ a, resolve d get x = .ok a := by
  unfold Available
  cases x with
  | some b => simp [resolve]
  | none => cases d <;> simp [resolve]

/-- resolution succeeds iff every parameter is available … -/
theorem acquire2_succeeds_iff (d : Option (Source τ)) (s m t v : Option τ) :
    (∃ r, acquire2 d s m t v = .ok r) ↔
      Available d (·.logMoneyness) s ∧ Available d (·.maxLogMoneyness) m ∧
      Available d (·.timeToMaturity) t ∧ Available d (·.volatility) v := by
  simp only [available_iff]
  constructor
  · rintro ⟨⟨a, b, c, f⟩, h⟩
    obtain ⟨h1, h2, h3, h4⟩ := (acquire2_ok_iff ..).1 h
    exact ⟨⟨a, h1⟩, ⟨b, h2⟩, ⟨c, h3⟩, ⟨f, h4⟩⟩
  · rintro ⟨⟨a, h1⟩, ⟨b, h2⟩, ⟨c, h3⟩, ⟨f, h4⟩⟩
    exact ⟨(a, b, c, f), (acquire2_ok_iff ..).2 ⟨h1, h2, h3, h4⟩⟩

/-- … and fails iff some parameter is neither explicit nor available from the derivative -/
theorem acquire2_fails_iff (d : Option (Source τ)) (s m t v : Option τ) :
    (∃ e, acquire2 d s m t v = .error e) ↔
      ¬ Available d (·.logMoneyness) s ∨ ¬ Available d (·.maxLogMoneyness) m ∨
      ¬ Available d (·.timeToMaturity) t ∨ ¬ Available d (·.volatility) v := by
  have h := acquire2_succeeds_iff d s m t v
  cases hr : acquire2 d s m t v with
  | ok r =>
    have : Available d (·.logMoneyness) s ∧ Available d (·.maxLogMoneyness) m ∧
      Available d (·.timeToMaturity) t ∧ Available d (·.volatility) v := h.1 ⟨r, hr⟩
    simp [this.1, this.2.1, this.2.2.1, this.2.2.2]
  | error e =>
    have hn : ¬ (Available d (·.logMoneyness) s ∧ Available d (·.maxLogMoneyness) m ∧
      Available d (·.timeToMaturity) t ∧ Available d (·.volatility) v) := by
      intro hall
      obtain ⟨r, hr'⟩ := h.2 hall
      rw [hr] at hr'
      cases hr'
    constructor
    · intro _
      by_contra hc
      simp only [not_or, not_not] at hc
      exact hn hc
    · intro _
      exact ⟨e, rfl⟩

theorem acquire1_succeeds_iff (d : Option (Source τ)) (s t v : Option τ) :
    (∃ r, acquire1 d s t v = .ok r) ↔
      Available d (·.logMoneyness) s ∧ Available d (·.timeToMaturity) t ∧
      Available d (·.volatility) v := by
  simp only [available_iff]
  constructor
  · rintro ⟨⟨a, b, c⟩, h⟩
    obtain ⟨h1, h2, h3⟩ := (acquire1_ok_iff ..).1 h
    exact ⟨⟨a, h1⟩, ⟨b, h2⟩, ⟨c, h3⟩⟩
  · rintro ⟨⟨a, h1⟩, ⟨b, h2⟩, ⟨c, h3⟩⟩
    exact ⟨(a, b, c), (acquire1_ok_iff ..).2 ⟨h1, h2, h3⟩⟩

/-- non-vacuity of the whole block on concrete sources: a partial override (volatility and
max_log_moneyness given, the rest from the derivative); the order of the checks (a derivative-less module
with log_moneyness AND volatility missing reports… a `ValueError` in any case; an unsimulated underlier
reports `AttributeError` for the first omitted parameter; a simulated underlier without volatility
lets log_moneyness / time_to_maturity through and fails at volatility, before max_log_moneyness is
looked at); overriding the one unavailable parameter repairs the call -/
example :
    acquire2 (some srcN) none (some 5) none (some 7) = .ok (10, 5, 30, 7) ∧
    acquire2 (some srcN) none none none none = .ok (10, 20, 30, 40) ∧
    acquire1 (some srcN) (some 1) none none = .ok (1, 30, 40) ∧
    acquire2 (none : Option (Source Nat)) (some 1) (some 2) (some 3) (some 4) = .ok (1, 2, 3, 4) ∧
    acquire2 (none : Option (Source Nat)) (some 1) (some 2) none (some 4) = .error .valueError ∧
    acquire2 (some srcUnsim) (some 1) none (some 3) (some 4) = .error .attributeError ∧
    acquire2 (some srcNoVol) none none none none = .error .attributeError ∧
    acquire2 (some srcNoVol) none none none (some 4) = .ok (10, 20, 30, 4) ∧
    acquire0 (some srcNoVol) none none = .ok (10, 30) :=
  ⟨rfl, rfl, rfl, rfl, rfl, rfl, rfl, rfl, rfl⟩

example : Available (some srcN) (·.volatility) none ∧ ¬ Available (some srcNoVol) (·.volatility) none ∧
    Available (some srcNoVol) (·.volatility) (some 3) ∧
    ¬ Available (none : Option (Source Nat)) (·.logMoneyness) none := by
  refine ⟨Or.inr ⟨srcN, 40, rfl, rfl⟩, ?_, Or.inl rfl, ?_⟩
  · rw [available_iff]; rintro ⟨a, h⟩; cases h
  · rw [available_iff]; rintro ⟨a, h⟩; cases h

end Acquire

/-! ## the derivative's state at a cell is the value of the Hedger features -/
section Source
variable {α : Type} [Add α] [Sub α] [Mul α] [Div α] [Neg α] [OfNat α 0] [OfNat α 1] [OfNat α 2]
  [OfNat α 3] [LE α] [DecidableLE α] [LT α] [DecidableLT α] [Max α] [Min α] [NatCast α] [Transc α]

/-- each accessor of a simulated derivative at cell `i` is entry `i` of the corresponding feature's
all-steps value (Model/Hedger.lean `BaseFeature.getAll`) -/
theorem source_eq_feature (d : Deriv α) (i : Nat) (hs : d.simulated = true) :
    (d.source i).logMoneyness = cellOf ((BaseFeature.moneyness true).getAll d.market) i ∧
    (d.source i).maxLogMoneyness = cellOf ((BaseFeature.maxMoneyness true).getAll d.market) i ∧
    (d.source i).timeToMaturity = cellOf (BaseFeature.timeToMaturity.getAll d.market) i ∧
    (d.hasVol = true →
      (d.source i).volatility = cellOf (BaseFeature.volatility.getAll d.market) i) := by
  refine ⟨?_, ?_, ?_, ?_⟩ <;> simp +contextual [Deriv.source, Deriv.spotFeature, hs]

/-- log-moneyness of the derivative at step `i`: `log (spot[i] / strike)` -/
theorem source_logMoneyness (d : Deriv α) (i : Nat) (hs : d.simulated = true)
    (hi : i < d.market.spot.length) :
    (d.source i).logMoneyness = .ok (Transc.log (d.market.spot[i] / d.market.strike)) := by
  simp [Deriv.source, Deriv.spotFeature, hs, BaseFeature.getAll, cellOf, List.getElem?_map,
    List.getElem?_eq_getElem hi, logIf]

/-- time to maturity at step `i` of `n`: `(n − 1)·dt − i·dt` -/
theorem source_timeToMaturity (d : Deriv α) (i : Nat) (hs : d.simulated = true)
    (hi : i < d.market.spot.length) :
    (d.source i).timeToMaturity
      = .ok (((d.market.spot.length - 1 : Nat) : α) * d.market.dt - ((i : Nat) : α) * d.market.dt) := by
  simp [Deriv.source, Deriv.spotFeature, hs, BaseFeature.getAll, cellOf, List.getElem?_map,
    List.getElem?_range hi]

/-- volatility at step `i`: the underlier's volatility series -/
theorem source_volatility (d : Deriv α) (i : Nat) (hv : d.hasVol = true)
    (hi : i < d.market.volatility.length) :
    (d.source i).volatility = .ok d.market.volatility[i] := by
  simp [Deriv.source, hv, BaseFeature.getAll, cellOf, List.getElem?_map,
    List.getElem?_eq_getElem hi]

/-- running-maximum log-moneyness at step `i`: entry `i` of the cumulative maximum of the log-moneyness -/
theorem source_maxLogMoneyness (d : Deriv α) (i : Nat) (hs : d.simulated = true) :
    (d.source i).maxLogMoneyness
      = match (cummaxL (d.market.spot.map fun s => Transc.log (s / d.market.strike)))[i]? with
        | some x => .ok x
        | none => .error (.lower .runtimeError) := by
  simp only [Deriv.source, Deriv.spotFeature, hs, BaseFeature.getAll, cellOf, List.getElem?_map,
    logIf, if_true]
  cases (cummaxL (d.market.spot.map fun s => Transc.log (s / d.market.strike)))[i]? <;> rfl

/-- not simulated: the three spot-based accessors raise `AttributeError` -/
theorem source_not_simulated (d : Deriv α) (i : Nat) (hs : d.simulated = false) :
    (d.source i).logMoneyness = .error .attributeError ∧
    (d.source i).maxLogMoneyness = .error .attributeError ∧
    (d.source i).timeToMaturity = .error .attributeError := by
  simp [Deriv.source, Deriv.spotFeature, hs]

/-- no volatility on the underlier: `AttributeError` -/
theorem source_no_volatility (d : Deriv α) (i : Nat) (hv : d.hasVol = false) :
    (d.source i).volatility = .error .attributeError := by
  simp [Deriv.source, hv]

end Source

/-! ## the module methods -/
section Module
variable {α : Type} [Add α] [Sub α] [Mul α] [Div α] [Neg α] [OfNat α 0] [OfNat α 1] [OfNat α 2]
  [OfNat α 3] [LE α] [DecidableLE α] [LT α] [DecidableLT α] [Max α] [Min α] [NatCast α] [Transc α]

/-- which functional form each (kind, method) ends in -/
theorem formula_table (call : Bool) (k s m t v : α) :
    Kind3.formula .european .price call k s t v = bsEuropeanPrice s t v k call ∧
    Kind3.formula .european .delta call k s t v = bsEuropeanDelta s t v call ∧
    Kind3.formula .binary .price call k s t v = bsBinaryPrice s t v call ∧
    Kind3.formula .binary .delta call k s t v = bsBinaryDelta s t v k call ∧
    Kind4.formula .americanBinary .price k s m t v = bsAmericanBinaryPrice s m t v ∧
    Kind4.formula .americanBinary .delta k s m t v = bsAmericanBinaryDelta s m t v k ∧
    Kind4.formula .lookback .price k s m t v = bsLookbackPrice s m t v k ∧
    Kind4.formula .lookback .delta k s m t v = bsLookbackDeltaAuto s m t v k :=
  ⟨rfl, rfl, rfl, rfl, rfl, rfl, rfl, rfl⟩

/-- the pricing theorem, European / European-binary modules: for ANY set of overrides, the method's
result is the functional form at the resolved tuple with the module's strike and call flag -/
theorem eval_plain {mod : BSModule α} {k3 : Kind3} (hk : mod.kind = .plain k3) (what : Method)
    {g : Given α} (hm : g.m = none) (i : Nat) {s t v : α}
    (h : acquire1 (mod.source i) g.s g.t g.v = .ok (s, t, v)) :
    mod.eval what g i = liftErr (k3.formula what mod.call mod.strike s t v) ∧
    mod.resolved g i = .ok [s, t, v] := by
  simp [BSModule.eval, BSModule.resolved, hk, hm, h, bind, Except.bind, pure, Except.pure]

/-- the pricing theorem, American-binary / lookback modules -/
theorem eval_pathDep {mod : BSModule α} {k4 : Kind4} (hk : mod.kind = .pathDep k4) (what : Method)
    (g : Given α) (i : Nat) {s m t v : α}
    (h : acquire2 (mod.source i) g.s g.m g.t g.v = .ok (s, m, t, v)) :
    mod.eval what g i = liftErr (k4.formula what mod.strike s m t v) ∧
    mod.resolved g i = .ok [s, m, t, v] := by
  simp [BSModule.eval, BSModule.resolved, hk, h, bind, Except.bind, pure, Except.pure]

/-- a failed resolution is the method's error (same kind, nothing evaluated) -/
theorem eval_plain_error {mod : BSModule α} {k3 : Kind3} (hk : mod.kind = .plain k3) (what : Method)
    {g : Given α} (hm : g.m = none) (i : Nat) {e : AcqErr}
    (h : acquire1 (mod.source i) g.s g.t g.v = .error e) :
    mod.eval what g i = .error e ∧ mod.resolved g i = .error e := by
  simp [BSModule.eval, BSModule.resolved, hk, hm, h, bind, Except.bind]

theorem eval_pathDep_error {mod : BSModule α} {k4 : Kind4} (hk : mod.kind = .pathDep k4)
    (what : Method) (g : Given α) (i : Nat) {e : AcqErr}
    (h : acquire2 (mod.source i) g.s g.m g.t g.v = .error e) :
    mod.eval what g i = .error e ∧ mod.resolved g i = .error e := by
  simp [BSModule.eval, BSModule.resolved, hk, h, bind, Except.bind]

/-- the European / European-binary methods have no `max_log_moneyness` keyword -/
theorem eval_plain_unexpected_keyword {mod : BSModule α} {k3 : Kind3} (hk : mod.kind = .plain k3)
    (what : Method) {g : Given α} {x : α} (hm : g.m = some x) (i : Nat) :
    mod.eval what g i = .error (.lower .typeError) := by
  simp [BSModule.eval, hk, hm]

/-- a method result, read backwards: a value can only come from a successful resolution followed by the
functional form at the resolved tuple -/
theorem eval_plain_ok_iff {mod : BSModule α} {k3 : Kind3} (hk : mod.kind = .plain k3) (what : Method)
    (g : Given α) (i : Nat) (p : α) :
    mod.eval what g i = .ok p ↔
      g.m = none ∧ ∃ s t v, acquire1 (mod.source i) g.s g.t g.v = .ok (s, t, v) ∧
        k3.formula what mod.call mod.strike s t v = .ok p := by
  cases hm : g.m with
  | some x => simp [eval_plain_unexpected_keyword hk what hm i]
  | none =>
    cases h : acquire1 (mod.source i) g.s g.t g.v with
    | error e => simp [(eval_plain_error hk what hm i h).1]
    | ok r =>
      obtain ⟨s, t, v⟩ := r
      rw [(eval_plain hk what hm i h).1]
      cases hf : k3.formula what mod.call mod.strike s t v <;> simp [liftErr, hf]

theorem eval_pathDep_ok_iff {mod : BSModule α} {k4 : Kind4} (hk : mod.kind = .pathDep k4)
    (what : Method) (g : Given α) (i : Nat) (p : α) :
    mod.eval what g i = .ok p ↔
      ∃ s m t v, acquire2 (mod.source i) g.s g.m g.t g.v = .ok (s, m, t, v) ∧
        k4.formula what mod.strike s m t v = .ok p := by
  cases h : acquire2 (mod.source i) g.s g.m g.t g.v with
  | error e => simp [(eval_pathDep_error hk what g i h).1]
  | ok r =>
    obtain ⟨s, m, t, v⟩ := r
    rw [(eval_pathDep hk what g i h).1]
    cases hf : k4.formula what mod.strike s m t v <;> simp [liftErr, hf]

/-- building a European / European-binary module from a derivative: the module carries the derivative's
call flag (call OR put) and strike and the derivative itself -/
theorem fromDerivative_plain (k3 : Kind3) (d : Deriv α) :
    BSModule.fromDerivative (.plain k3) d = .ok ⟨.plain k3, d.call, d.market.strike, some d⟩ := by
  cases hc : d.call <;> simp [BSModule.fromDerivative, BSModule.init, hc]

/-- building an American-binary / lookback module from a call derivative -/
theorem fromDerivative_pathDep_call (k4 : Kind4) (d : Deriv α) (hc : d.call = true) :
    BSModule.fromDerivative (.pathDep k4) d = .ok ⟨.pathDep k4, true, d.market.strike, some d⟩ := by
  simp [BSModule.fromDerivative, BSModule.init, hc]

/-- … and from a put derivative: rejected with `ValueError` (no call module is silently built) -/
theorem fromDerivative_pathDep_put (k4 : Kind4) (d : Deriv α) (hc : d.call = false) :
    BSModule.fromDerivative (.pathDep k4) d = .error .valueError := by
  simp [BSModule.fromDerivative, BSModule.init, hc]

/-- whatever is built from a derivative has that derivative's call flag, strike and state -/
theorem fromDerivative_ok_iff (kind : Kind) (d : Deriv α) (mod : BSModule α) :
    BSModule.fromDerivative kind d = .ok mod ↔
      mod = ⟨kind, d.call, d.market.strike, some d⟩ ∧ (d.call = true ∨ ∃ k3, kind = .plain k3) := by
  cases kind with
  | plain k3 =>
    rw [fromDerivative_plain]
    constructor
    · intro h; exact ⟨(Except.ok.inj h).symm, Or.inr ⟨k3, rfl⟩⟩
    · rintro ⟨h, _⟩; rw [h]
  | pathDep k4 =>
    cases hc : d.call
    · rw [fromDerivative_pathDep_put k4 d hc]; simp
    · rw [fromDerivative_pathDep_call k4 d hc]
      constructor
      · intro h; exact ⟨(Except.ok.inj h).symm, Or.inl rfl⟩
      · rintro ⟨h, _⟩; rw [h]

/-- closed form for EVERY override pattern (the 2^3 subsets are the `none`/`some` choices of `g.s`, `g.t`,
`g.v`): a European / European-binary module on a simulated derivative evaluates the functional form at
"the explicit value if given, else the derivative's own state at the cell", with the module's strike and
call flag -/
theorem eval_plain_closed {mod : BSModule α} {k3 : Kind3} {d : Deriv α} (hk : mod.kind = .plain k3)
    (hd : mod.derivative = some d) (hs : d.simulated = true) (hv : d.hasVol = true) (what : Method)
    {g : Given α} (hm : g.m = none) {i : Nat} (hi : i < d.market.spot.length)
    (hiv : i < d.market.volatility.length) :
    mod.eval what g i = liftErr (k3.formula what mod.call mod.strike
      (g.s.getD (Transc.log (d.market.spot[i] / d.market.strike)))
      (g.t.getD (((d.market.spot.length - 1 : Nat) : α) * d.market.dt - ((i : Nat) : α) * d.market.dt))
      (g.v.getD d.market.volatility[i])) := by
  refine (eval_plain hk what hm i ?_).1
  rw [acquire1_ok_iff]
  have hsrc : mod.source i = some (d.source i) := by simp [BSModule.source, hd]
  rw [hsrc]
  refine ⟨?_, ?_, ?_⟩
  · cases g.s <;> simp [resolve, source_logMoneyness d i hs hi]
  · cases g.t <;> simp [resolve, source_timeToMaturity d i hs hi]
  · cases g.v <;> simp [resolve, source_volatility d i hv hiv]

/-- closed form for every override pattern (2^4 subsets), American-binary / lookback modules; `mx` is the
derivative's running-maximum log-moneyness at the cell -/
theorem eval_pathDep_closed {mod : BSModule α} {k4 : Kind4} {d : Deriv α} (hk : mod.kind = .pathDep k4)
    (hd : mod.derivative = some d) (hs : d.simulated = true) (hv : d.hasVol = true) (what : Method)
    (g : Given α) {i : Nat} (hi : i < d.market.spot.length) (hiv : i < d.market.volatility.length)
    {mx : α}
    (hmx : (cummaxL (d.market.spot.map fun s => Transc.log (s / d.market.strike)))[i]? = some mx) :
    mod.eval what g i = liftErr (k4.formula what mod.strike
      (g.s.getD (Transc.log (d.market.spot[i] / d.market.strike)))
      (g.m.getD mx)
      (g.t.getD (((d.market.spot.length - 1 : Nat) : α) * d.market.dt - ((i : Nat) : α) * d.market.dt))
      (g.v.getD d.market.volatility[i])) := by
  refine (eval_pathDep hk what g i ?_).1
  rw [acquire2_ok_iff]
  have hsrc : mod.source i = some (d.source i) := by simp [BSModule.source, hd]
  rw [hsrc]
  refine ⟨?_, ?_, ?_, ?_⟩
  · cases g.s <;> simp [resolve, source_logMoneyness d i hs hi]
  · cases g.m <;> simp [resolve, source_maxLogMoneyness d i hs, hmx]
  · cases g.t <;> simp [resolve, source_timeToMaturity d i hs hi]
  · cases g.v <;> simp [resolve, source_volatility d i hv hiv]

/-- a module without a derivative raises `ValueError` as soon as one input is omitted … -/
theorem eval_no_derivative_error {mod : BSModule α} {k4 : Kind4} (hk : mod.kind = .pathDep k4)
    (hd : mod.derivative = none) (what : Method) (g : Given α) (i : Nat)
    (h : g.s = none ∨ g.m = none ∨ g.t = none ∨ g.v = none) :
    mod.eval what g i = .error .valueError := by
  refine (eval_pathDep_error hk what g i ?_).1
  have hsrc : mod.source i = none := by simp [BSModule.source, hd]
  rw [hsrc, acquire2_none_error_iff]
  exact ⟨rfl, h⟩

/-- … and is the functional form at the given inputs otherwise -/
theorem eval_no_derivative_ok {mod : BSModule α} {k4 : Kind4} (hk : mod.kind = .pathDep k4)
    (hd : mod.derivative = none) (what : Method) (i : Nat) (s m t v : α) :
    mod.eval what ⟨some s, some m, some t, some v⟩ i = liftErr (k4.formula what mod.strike s m t v) := by
  refine (eval_pathDep hk what _ i ?_).1
  have hsrc : mod.source i = none := by simp [BSModule.source, hd]
  rw [hsrc, acquire2_none_ok_iff]
  exact ⟨rfl, rfl, rfl, rfl⟩

/-- a module whose derivative has not been simulated raises `AttributeError` as soon as one input is
omitted (no volatility either: the underlier's volatility is derived from its simulated buffers) -/
theorem eval_not_simulated_error {mod : BSModule α} {k4 : Kind4} {d : Deriv α}
    (hk : mod.kind = .pathDep k4) (hd : mod.derivative = some d) (hs : d.simulated = false)
    (hv : d.hasVol = false) (what : Method) (g : Given α) (i : Nat)
    (h : g.s = none ∨ g.m = none ∨ g.t = none ∨ g.v = none) :
    mod.eval what g i = .error .attributeError := by
  refine (eval_pathDep_error hk what g i ?_).1
  have hsrc : mod.source i = some (d.source i) := by simp [BSModule.source, hd]
  obtain ⟨h1, h2, h3⟩ := source_not_simulated d i hs
  have h4 := source_no_volatility d i hv
  rw [hsrc, acquire2_eq]
  cases hgs : g.s <;> cases hgm : g.m <;> cases hgt : g.t <;> cases hgv : g.v <;>
    simp_all [resolve]

end Module

/-! ## transfer of the C07 theorems to a module built from a derivative (carrier ℝ) -/
section Transfer
open Real MeasureTheory PfVerif.C07Aux

/-- the European module built from a simulated derivative, called with ANY subset of its inputs given
explicitly, quotes the zero-rate risk-neutral expectation of the derivative's payoff (call or put by the
derivative's own flag, at the derivative's own strike) under geometric Brownian motion started from the
resolved state: `s`, `t`, `v` are "the explicit value if given, else the derivative's log-moneyness,
remaining time and volatility at the cell" -/
theorem european_module_eq_expectation (d : Deriv ℝ) (g : Given ℝ) (i : ℕ)
    (hs : d.simulated = true) (hv : d.hasVol = true) (hm : g.m = none)
    (hi : i < d.market.spot.length) (hiv : i < d.market.volatility.length)
    (s t v : ℝ)
    (hS : s = g.s.getD (Real.log (d.market.spot[i] / d.market.strike)))
    (hT : t = g.t.getD (((d.market.spot.length - 1 : ℕ) : ℝ) * d.market.dt - (i : ℝ) * d.market.dt))
    (hV : v = g.v.getD d.market.volatility[i])
    (hK : 0 < d.market.strike) (ht : 0 < t) (hv0 : 0 < v) :
    (BSModule.fromDerivative (.plain .european) d).bind (fun mod => modulePrice mod g i)
      = .ok (∫ z, (if d.call
          then max (d.market.strike * Real.exp (s + v * Real.sqrt t * z - (v * Real.sqrt t) ^ 2 / 2)
                      - d.market.strike) 0
          else max (d.market.strike
                      - d.market.strike * Real.exp (s + v * Real.sqrt t * z - (v * Real.sqrt t) ^ 2 / 2)) 0)
          * phi z) := by
  have hb : BSModule.fromDerivative (.plain .european) d
      = .ok ⟨.plain .european, d.call, d.market.strike, some d⟩ := by
    exact fromDerivative_plain _ d
  rw [hb]
  show modulePrice _ g i = _
  unfold modulePrice
  rw [eval_plain_closed (k3 := .european) (d := d) rfl rfl hs hv .price hm hi hiv]
  have e : Kind3.formula .european .price d.call d.market.strike
      (g.s.getD (Transc.log (d.market.spot[i] / d.market.strike)))
      (g.t.getD (((d.market.spot.length - 1 : ℕ) : ℝ) * d.market.dt - (i : ℝ) * d.market.dt))
      (g.v.getD d.market.volatility[i]) = bsEuropeanPrice s t v d.market.strike d.call := by
    rw [hS, hT, hV]; rfl
  rw [e]
  cases hc : d.call
  · have h := PfVerif.C07.european_put_eq_expectation s d.market.strike t v hK ht hv0
    rw [PfVerif.C07.european_price_ok s t v d.market.strike false ht hv0] at h ⊢
    simp only [Bool.false_eq_true, if_false, liftErr]
    rw [h]; rfl
  · have h := PfVerif.C07.european_call_eq_expectation s d.market.strike t v hK ht hv0
    rw [PfVerif.C07.european_price_ok s t v d.market.strike true ht hv0] at h ⊢
    simp only [if_true, liftErr]
    rw [h]; rfl

/-- the same for the European-binary module: the quoted price is the risk-neutral probability of finishing
in the money (call: `K ≤ S_T`, put: `S_T ≤ K`) from the resolved state -/
theorem binary_module_eq_expectation (d : Deriv ℝ) (g : Given ℝ) (i : ℕ)
    (hs : d.simulated = true) (hv : d.hasVol = true) (hm : g.m = none)
    (hi : i < d.market.spot.length) (hiv : i < d.market.volatility.length)
    (s t v : ℝ)
    (hS : s = g.s.getD (Real.log (d.market.spot[i] / d.market.strike)))
    (hT : t = g.t.getD (((d.market.spot.length - 1 : ℕ) : ℝ) * d.market.dt - (i : ℝ) * d.market.dt))
    (hV : v = g.v.getD d.market.volatility[i])
    (hK : 0 < d.market.strike) (ht : 0 < t) (hv0 : 0 < v) :
    (BSModule.fromDerivative (.plain .binary) d).bind (fun mod => modulePrice mod g i)
      = .ok (∫ z, (if d.call
          then (if d.market.strike
                  ≤ d.market.strike * Real.exp (s + v * Real.sqrt t * z - (v * Real.sqrt t) ^ 2 / 2)
                then (1 : ℝ) else 0)
          else (if d.market.strike * Real.exp (s + v * Real.sqrt t * z - (v * Real.sqrt t) ^ 2 / 2)
                  ≤ d.market.strike
                then (1 : ℝ) else 0))
          * phi z) := by
  have hb : BSModule.fromDerivative (.plain .binary) d
      = .ok ⟨.plain .binary, d.call, d.market.strike, some d⟩ := by
    exact fromDerivative_plain _ d
  rw [hb]
  show modulePrice _ g i = _
  unfold modulePrice
  rw [eval_plain_closed (k3 := .binary) (d := d) rfl rfl hs hv .price hm hi hiv]
  have e : Kind3.formula .binary .price d.call d.market.strike
      (g.s.getD (Transc.log (d.market.spot[i] / d.market.strike)))
      (g.t.getD (((d.market.spot.length - 1 : ℕ) : ℝ) * d.market.dt - (i : ℝ) * d.market.dt))
      (g.v.getD d.market.volatility[i]) = bsBinaryPrice s t v d.call := by
    rw [hS, hT, hV]; rfl
  rw [e]
  cases hc : d.call
  · have h := PfVerif.C07.binary_put_eq_expectation s d.market.strike t v hK ht hv0
    rw [PfVerif.C07.binary_price_ok s t v false ht hv0] at h ⊢
    simp only [Bool.false_eq_true, if_false, liftErr]
    rw [h]; rfl
  · have h := PfVerif.C07.binary_call_eq_expectation s d.market.strike t v hK ht hv0
    rw [PfVerif.C07.binary_price_ok s t v true ht hv0] at h ⊢
    simp only [if_true, liftErr]
    rw [h]; rfl

/-- no overrides: the European module prices the derivative on its OWN simulated state — the expectation of
the payoff of a geometric Brownian motion started at the derivative's spot `S = spot[i]`, run for the
remaining time `τ = (n−1−i)·dt` at the underlier's volatility `σ = volatility[i]`, struck at the
derivative's strike -/
theorem european_module_own_state (d : Deriv ℝ) (i : ℕ)
    (hs : d.simulated = true) (hv : d.hasVol = true)
    (hi : i < d.market.spot.length) (hiv : i < d.market.volatility.length)
    (S τ σ : ℝ) (hS : S = d.market.spot[i])
    (hτ : τ = ((d.market.spot.length - 1 : ℕ) : ℝ) * d.market.dt - (i : ℝ) * d.market.dt)
    (hσ : σ = d.market.volatility[i])
    (hS0 : 0 < S) (hK : 0 < d.market.strike) (ht : 0 < τ) (hv0 : 0 < σ) :
    (BSModule.fromDerivative (.plain .european) d).bind (fun mod => modulePrice mod {} i)
      = .ok (∫ z, (if d.call
          then max (S * Real.exp (σ * Real.sqrt τ * z - (σ * Real.sqrt τ) ^ 2 / 2) - d.market.strike) 0
          else max (d.market.strike - S * Real.exp (σ * Real.sqrt τ * z - (σ * Real.sqrt τ) ^ 2 / 2)) 0)
          * phi z) := by
  rw [european_module_eq_expectation d {} i hs hv rfl hi hiv
    (Real.log (S / d.market.strike)) τ σ (by rw [hS]; rfl) (by rw [hτ]; rfl) (by rw [hσ]; rfl) hK ht hv0]
  have hx : ∀ z : ℝ, d.market.strike *
      Real.exp (Real.log (S / d.market.strike) + σ * Real.sqrt τ * z - (σ * Real.sqrt τ) ^ 2 / 2)
        = S * Real.exp (σ * Real.sqrt τ * z - (σ * Real.sqrt τ) ^ 2 / 2) := by
    intro z
    rw [show Real.log (S / d.market.strike) + σ * Real.sqrt τ * z - (σ * Real.sqrt τ) ^ 2 / 2
        = Real.log (S / d.market.strike) + (σ * Real.sqrt τ * z - (σ * Real.sqrt τ) ^ 2 / 2) by ring,
      Real.exp_add, Real.exp_log (div_pos hS0 hK)]
    field_simp
  simp only [hx]

/-- non-vacuity: a call struck at 1 on the path 1, 2, 3/2 with dt = 1/4 and volatility 1/2; at step 0 the
hypotheses of `european_module_own_state` hold (S = 1, τ = 1/2, σ = 1/2), and of
`european_module_eq_expectation` with the volatility overridden to 1/4 -/
example :
    let d : Deriv ℝ := ⟨⟨[1, 2, 3 / 2], [1 / 4, 1 / 4, 1 / 4], [1 / 2, 1 / 2, 1 / 2], [], 1 / 4, 1, []⟩,
      true, true, true⟩
    (BSModule.fromDerivative (.plain .european) d).bind (fun mod => modulePrice mod {} 0)
      = .ok (∫ z, max (1 * Real.exp (1 / 2 * Real.sqrt (1 / 2) * z
                        - (1 / 2 * Real.sqrt (1 / 2)) ^ 2 / 2) - 1) 0 * phi z) ∧
    (BSModule.fromDerivative (.plain .european) d).bind
        (fun mod => modulePrice mod { v := some (1 / 4) } 0)
      = .ok (∫ z, max (1 * Real.exp (Real.log (1 / 1) + 1 / 4 * Real.sqrt (1 / 2) * z
                        - (1 / 4 * Real.sqrt (1 / 2)) ^ 2 / 2) - 1) 0 * phi z) := by
  intro d
  constructor
  · have h := european_module_own_state d 0 rfl rfl (by simp [d]) (by simp [d]) 1 (1 / 2) (1 / 2)
      (by simp [d]) (by simp [d]; norm_num) (by simp [d]) one_pos (by simp [d]) (by norm_num)
      (by norm_num)
    simpa [d] using h
  · have h := european_module_eq_expectation d { v := some (1 / 4) } 0 rfl rfl rfl (by simp [d])
      (by simp [d]) (Real.log (1 / 1)) (1 / 2) (1 / 4) (by simp [d]) (by simp [d]; norm_num)
      (by simp) (by simp [d]) (by norm_num) (by norm_num)
    simpa [d] using h

end Transfer

/-! ## non-vacuity of the module-level statements (carrier ℝ, decidable parts) -/
section Examples

/-- the put of a path-dependent kind is rejected at construction; a European put is built with the
derivative's flag and strike -/
example (m : Market ℝ) :
    BSModule.fromDerivative (.pathDep .lookback) (⟨m, false, true, true⟩ : Deriv ℝ) = .error .valueError ∧
    BSModule.fromDerivative (.plain .european) (⟨m, false, true, true⟩ : Deriv ℝ)
      = .ok ⟨.plain .european, false, m.strike, some ⟨m, false, true, true⟩⟩ ∧
    BSModule.fromDerivative (.pathDep .lookback) (⟨m, true, false, false⟩ : Deriv ℝ)
      = .ok ⟨.pathDep .lookback, true, m.strike, some ⟨m, true, false, false⟩⟩ := by
  exact ⟨fromDerivative_pathDep_put _ _ rfl, fromDerivative_plain _ _, fromDerivative_pathDep_call _ _ rfl⟩

/-- the hypotheses of `eval_no_derivative_error`, `eval_not_simulated_error` and
`eval_plain_unexpected_keyword` are satisfiable, and the errors differ -/
example (m : Market ℝ) :
    (⟨.pathDep .lookback, true, 1, none⟩ : BSModule ℝ).eval .price { s := some 0, t := some 1 } 0
      = .error .valueError ∧
    (⟨.pathDep .americanBinary, true, 1, some ⟨m, true, false, false⟩⟩ : BSModule ℝ).eval .delta
        { s := some 0, m := some 0, v := some 1 } 3 = .error .attributeError ∧
    (⟨.plain .binary, true, 1, none⟩ : BSModule ℝ).eval .price
        { s := some 0, m := some 0, t := some 1, v := some 1 } 0 = .error (.lower .typeError) :=
  ⟨eval_no_derivative_error rfl rfl _ _ _ (Or.inr (Or.inl rfl)),
   eval_not_simulated_error rfl rfl rfl rfl _ _ _ (Or.inr (Or.inr (Or.inl rfl))),
   eval_plain_unexpected_keyword rfl _ rfl _⟩

/-- the hypotheses of `eval_pathDep_closed` are satisfiable on a path with a genuine running maximum: on
1, 2, 3/2 (strike 1) at step 2 the derivative's own maximum is `max (max (log 1) (log 2)) (log (3/2))`;
overriding time and volatility keeps the derivative's log-moneyness `log (3/2)` and that maximum -/
example :
    let d : Deriv ℝ := ⟨⟨[1, 2, 3 / 2], [1 / 4, 1 / 4, 1 / 4], [1 / 2, 1 / 2, 1 / 2], [], 1 / 4, 1, []⟩,
      true, true, true⟩
    (⟨.pathDep .lookback, true, 1, some d⟩ : BSModule ℝ).eval .price { t := some 1, v := some 2 } 2
      = liftErr (bsLookbackPrice (Real.log (3 / 2 / 1))
          (max (max (Real.log (1 / 1)) (Real.log (2 / 1))) (Real.log (3 / 2 / 1))) 1 2 1) := by
  intro d
  exact eval_pathDep_closed (mod := ⟨.pathDep .lookback, true, 1, some d⟩) (k4 := .lookback)
    (d := d) rfl rfl rfl rfl .price { t := some 1, v := some 2 } (i := 2) (by simp [d]) (by simp [d])
    (mx := max (max (Real.log (1 / 1)) (Real.log (2 / 1))) (Real.log (3 / 2 / 1))) rfl

end Examples

end PfVerif.C07Acquire
