/-
  C14 — the gradient of the PRICE (`Hedger.price(enable_grad=True)`, harness/c14.py
  `price_gradient` / `check_cash_gradient`).

  Lemmas/C14Multi.lean proves that the ε-part of the hedging LOSS `lossOfH` (Model/Loss.lean)
  evaluated at dual numbers is its derivative.  `hedgerPrice` (Model/HedgerPrice.lean) is the same
  composition with the criterion "minus the cash amount": the bridge lemmas below identify the two
  (`collectE` of HedgerPrice.lean is `List.mapM`), so the price inherits the theorem:
    hedgerLossOf_eq_lossOfH, hedgerPrice_eq_lossOfH, pathsOf_lift        — the bridge
    hedgerPrice_tracks, hedgerLossOf_tracks, hedgerPrice_gradient        — any tracked `cash`
    hedgerPrice_eq_hedgerLossOf, price_gradient_of_cash_neg_loss,
      price_gradient_erm / _es / _closedForm / _qcvar_fixed_omega       — cash = −loss: the ε-part of
      the dual price is the derivative of the price, which IS the loss (value, error, derivative)
    price_gradient_eloss — entropic loss: price = log(loss)/a, price′ = loss′/(a·loss)
    implicit_cash_deriv, implicit_cash_hasDerivAt, price_gradient_search — the implicit-function
      oracle of the harness for search-based cash amounts (known finding K9), over ℝ
    `example`s — non-vacuity on the two-instrument recurrent example of C14Multi
-/
import PfVerif.Lemmas.C14Multi
import PfVerif.Lemmas.C06Hedger
import Mathlib.Analysis.Calculus.InverseFunctionTheorem.Deriv

namespace PfVerif.C14Price
open PfVerif PfVerif.C14Aux PfVerif.C14MultiAux PfVerif.C02Aux Topology

/-! ### the bridge: `hedgerPrice` / `hedgerLossOf` are `lossOfH` with a criterion -/

section generic
variable {α : Type} [Add α] [Sub α] [Mul α] [Div α] [Neg α] [OfNat α 0] [OfNat α 1]
  [LE α] [DecidableLE α] [Max α] [Min α] [NatCast α] [Transc α]

/-- the batch of Model/HedgerPrice.lean as the batch of Model/Loss.lean -/
def pathsOf (paths : List (HedgePath α)) : List (Market α × List (HedgeInstr α)) :=
  paths.map (fun q => (q.market, q.hedges))

/-- the criterion "minus the cash amount" that `Hedger.price` applies to the P&L sample -/
def negCash (crit : Criterion α) (pls : List α) : Except Err α := do
  let c ← crit.cash pls
  pure (-c)

/-- `cash = -self(input - target)`: the override of the entropic risk measure, the expected
shortfall and the quadratic CVaR -/
def CashIsNegLoss (crit : Criterion α) : Prop :=
  ∀ xs, crit.cash xs = (crit.loss xs >>= fun r => pure (-r))

theorem batchPL_eq_mapM (g : List α → List α) (fs : List (Feature α)) (p : PayoffSpec α)
    (reg : List (String × Clause α)) (first : Bool) (paths : List (HedgePath α)) :
    batchPL g fs p reg first paths
      = (pathsOf paths).mapM (fun mh => hedgerPL g fs mh.1 mh.2 p reg first) := by
  unfold batchPL pathsOf
  induction paths with
  | nil => rfl
  | cons q qs ih => simp only [collectE, List.map_cons, List.mapM_cons, ih]

/-- **`Hedger.compute_loss` of HedgerPrice.lean is `lossOfH` of Loss.lean** (same pieces) -/
theorem hedgerLossOf_eq_lossOfH (crit : Criterion α) (g : List α → List α) (fs : List (Feature α))
    (p : PayoffSpec α) (reg : List (String × Clause α)) (first : Bool)
    (paths : List (HedgePath α)) :
    hedgerLossOf crit g fs p reg first paths
      = lossOfH g fs (pathsOf paths) p reg first crit.loss := by
  unfold hedgerLossOf lossOfH; rw [batchPL_eq_mapM]

/-- **`Hedger.price` is `lossOfH` with the criterion `−cash`** -/
theorem hedgerPrice_eq_lossOfH (crit : Criterion α) (g : List α → List α) (fs : List (Feature α))
    (p : PayoffSpec α) (reg : List (String × Clause α)) (first : Bool)
    (paths : List (HedgePath α)) :
    hedgerPrice crit g fs p reg first paths
      = lossOfH g fs (pathsOf paths) p reg first (negCash crit) := by
  unfold hedgerPrice lossOfH negCash; rw [batchPL_eq_mapM]

/-- **cash = −loss ⇒ price = loss** as results (value or error), over any scalar type with
`−(−x) = x` (ℝ: `C06Hedger.hedgerPrice_erm_eq_loss`, `hedgerPrice_closedForm_eq_loss`; here also
at dual numbers) -/
theorem hedgerPrice_eq_hedgerLossOf (hnn : ∀ x : α, -(-x) = x) {crit : Criterion α}
    (hc : CashIsNegLoss crit) (g : List α → List α) (fs : List (Feature α)) (p : PayoffSpec α)
    (reg : List (String × Clause α)) (first : Bool) (paths : List (HedgePath α)) :
    hedgerPrice crit g fs p reg first paths = hedgerLossOf crit g fs p reg first paths := by
  rw [hedgerPrice_eq_lossOfH, hedgerLossOf_eq_lossOfH]
  congr 1; funext xs
  unfold negCash; rw [hc xs]
  cases crit.loss xs with
  | error e => rfl
  | ok r => show Except.ok (-(-r)) = Except.ok r; rw [hnn]

set_option linter.unusedSectionVars false
theorem cashIsNegLoss_erm (a : α) : CashIsNegLoss (Criterion.entropicRiskMeasure a) := fun _ => rfl
theorem cashIsNegLoss_es [LT α] [DecidableLT α] (k : ℕ) :
    CashIsNegLoss (Criterion.expectedShortfall (α := α) k) := fun _ => rfl
theorem cashIsNegLoss_closedForm (L : List α → α) : CashIsNegLoss (Criterion.closedForm L) :=
  fun _ => rfl
theorem cashIsNegLoss_qcvar [OfNat α 2] [LT α] [DecidableLT α] (lam tol pr : α) (n : ℕ) :
    CashIsNegLoss (Criterion.quadraticCVaR lam tol pr n) := fun _ => rfl
set_option linter.unusedSectionVars true

end generic

/-- the paths with constant market data and instruments, at dual numbers -/
def liftHedgePaths (paths : List (HedgePath ℝ)) : List (HedgePath (Dual ℝ)) :=
  paths.map (fun q => ⟨Dual.liftMarket q.market, q.hedges.map Dual.liftInstr⟩)

theorem pathsOf_lift (paths : List (HedgePath ℝ)) :
    pathsOf (liftHedgePaths paths) = Dual.liftPaths (pathsOf paths) := by
  simp [pathsOf, liftHedgePaths, Dual.liftPaths, List.map_map, Function.comp_def]

private theorem dual_neg_neg (D : Dual ℝ) : -(-D) = D := by ext <;> simp

/-! ### the price tracks: general `cash`, then cash = −loss -/

/-- the hypotheses of `C14Multi.lossH_tracks` on features, module and paths, for a batch of
`HedgePath`s: compatible features, the dual module tracks the real one at the inputs met, every
path at a generic point (`PathGenericH`: no kink of a cost term) -/
structure BatchGeneric (θ : ℝ) (G : List (Dual ℝ) → List (Dual ℝ)) (g : ℝ → List ℝ → List ℝ)
    (Fs : List (Feature (Dual ℝ))) (fs : List (ℝ → Feature ℝ)) (paths : List (HedgePath ℝ))
    (first : Bool) : Prop where
  feats : FeatsRel θ Fs fs
  module : ∀ q ∈ paths, ∀ X ∈ hedgeInputs G Fs (liftMkt q.market) (hedgeN q.hedges)
    q.hedges.length, ∀ x, TracksC X x θ → TracksC (G X) (fun t => g t (x t)) θ
  path : ∀ q ∈ paths, PathGenericH (g θ) (featsAt fs θ) q.market q.hedges first

variable {θ : ℝ} {G : List (Dual ℝ) → List (Dual ℝ)} {g : ℝ → List ℝ → List ℝ}
  {Fs : List (Feature (Dual ℝ))} {fs : List (ℝ → Feature ℝ)} {paths : List (HedgePath ℝ)}
  {first : Bool}

private theorem batch_tracks (hB : BatchGeneric θ G g Fs fs paths first) (p : PayoffSpec ℝ)
    (reg : List (String × Clause ℝ)) {CD : List (Dual ℝ) → Except Err (Dual ℝ)}
    {cR : ℝ → List ℝ → Except Err ℝ} {P : List ℝ → Prop} (hC : CritTracks θ CD cR P)
    (hcrit : ∀ pls, batchPL (g θ) (featsAt fs θ) p reg first paths = .ok pls → P pls) :
    TracksE (fun D f => Tracks D f θ)
      (lossOfH G Fs (pathsOf (liftHedgePaths paths)) (Dual.liftSpec p) (Dual.liftReg reg) first CD)
      (fun t => lossOfH (g t) (featsAt fs t) (pathsOf paths) p reg first (cR t)) := by
  rw [pathsOf_lift]
  refine C14Multi.lossH_tracks hB.feats (pathsOf paths) p reg first hC ?_ ?_ ?_
  · intro mh hmh; obtain ⟨q, hq, rfl⟩ := List.mem_map.1 hmh; exact hB.module q hq
  · intro mh hmh; obtain ⟨q, hq, rfl⟩ := List.mem_map.1 hmh; exact hB.path q hq
  · intro pls h; exact hcrit pls (by rw [batchPL_eq_mapM]; exact h)

/-- **the dual evaluation of `Hedger.price` tracks the real price**, for any criterion whose
`cash` (dual `CD.cash`, real `(cR t).cash`) tracks at its generic points `P`: both fail with the
same error for every parameter value, or the dual price carries value and derivative -/
theorem hedgerPrice_tracks (hB : BatchGeneric θ G g Fs fs paths first) (p : PayoffSpec ℝ)
    (reg : List (String × Clause ℝ)) {CD : Criterion (Dual ℝ)} {cR : ℝ → Criterion ℝ}
    {P : List ℝ → Prop} (hC : CritTracks θ CD.cash (fun t => (cR t).cash) P)
    (hcrit : ∀ pls, batchPL (g θ) (featsAt fs θ) p reg first paths = .ok pls → P pls) :
    TracksE (fun D f => Tracks D f θ)
      (hedgerPrice CD G Fs (Dual.liftSpec p) (Dual.liftReg reg) first (liftHedgePaths paths))
      (fun t => hedgerPrice (cR t) (g t) (featsAt fs t) p reg first paths) := by
  simp only [hedgerPrice_eq_lossOfH]
  refine batch_tracks hB p reg (cR := fun t => negCash (cR t)) ?_ hcrit
  intro Ds xs h hP
  exact (hC Ds xs h hP).bind (k := fun _ c => pure (-c)) fun C c hc =>
    TracksE.pure (Rel := RelS θ) hc.neg

/-- the same for `Hedger.compute_loss` as modelled in HedgerPrice.lean -/
theorem hedgerLossOf_tracks (hB : BatchGeneric θ G g Fs fs paths first) (p : PayoffSpec ℝ)
    (reg : List (String × Clause ℝ)) {CD : Criterion (Dual ℝ)} {cR : ℝ → Criterion ℝ}
    {P : List ℝ → Prop} (hC : CritTracks θ CD.loss (fun t => (cR t).loss) P)
    (hcrit : ∀ pls, batchPL (g θ) (featsAt fs θ) p reg first paths = .ok pls → P pls) :
    TracksE (fun D f => Tracks D f θ)
      (hedgerLossOf CD G Fs (Dual.liftSpec p) (Dual.liftReg reg) first (liftHedgePaths paths))
      (fun t => hedgerLossOf (cR t) (g t) (featsAt fs t) p reg first paths) := by
  simp only [hedgerLossOf_eq_lossOfH]
  exact batch_tracks hB p reg (cR := fun t => (cR t).loss) hC hcrit

/-- … `HasDerivAt` form: a successful dual price `Pd` is value and derivative of the real price -/
theorem hedgerPrice_gradient (hB : BatchGeneric θ G g Fs fs paths first) (p : PayoffSpec ℝ)
    (reg : List (String × Clause ℝ)) {CD : Criterion (Dual ℝ)} {cR : ℝ → Criterion ℝ}
    {P : List ℝ → Prop} (hC : CritTracks θ CD.cash (fun t => (cR t).cash) P)
    (hcrit : ∀ pls, batchPL (g θ) (featsAt fs θ) p reg first paths = .ok pls → P pls)
    {Pd : Dual ℝ}
    (hok : hedgerPrice CD G Fs (Dual.liftSpec p) (Dual.liftReg reg) first (liftHedgePaths paths)
      = .ok Pd) :
    ∃ π : ℝ → ℝ, (∀ t, hedgerPrice (cR t) (g t) (featsAt fs t) p reg first paths = .ok (π t)) ∧
      Pd.val = π θ ∧ HasDerivAt π Pd.eps θ := by
  obtain ⟨π, h1, h2⟩ := (hedgerPrice_tracks hB p reg hC hcrit).of_ok hok
  exact ⟨π, h1, h2.1, h2.2⟩

/-- **criteria whose cash amount is minus the loss** (on the dual and on the real side): a
successful dual price `Pd` is also the dual loss, the real price is the real loss for every
parameter value, and `Pd.eps` is the derivative of the price = the derivative of the loss -/
theorem price_gradient_of_cash_neg_loss (hB : BatchGeneric θ G g Fs fs paths first)
    (p : PayoffSpec ℝ) (reg : List (String × Clause ℝ)) {CD : Criterion (Dual ℝ)}
    {cR : ℝ → Criterion ℝ} {P : List ℝ → Prop} (hD : CashIsNegLoss CD)
    (hR : ∀ t, CashIsNegLoss (cR t)) (hC : CritTracks θ CD.loss (fun t => (cR t).loss) P)
    (hcrit : ∀ pls, batchPL (g θ) (featsAt fs θ) p reg first paths = .ok pls → P pls)
    {Pd : Dual ℝ}
    (hok : hedgerPrice CD G Fs (Dual.liftSpec p) (Dual.liftReg reg) first (liftHedgePaths paths)
      = .ok Pd) :
    hedgerLossOf CD G Fs (Dual.liftSpec p) (Dual.liftReg reg) first (liftHedgePaths paths)
        = .ok Pd ∧
    ∃ π : ℝ → ℝ, (∀ t, hedgerPrice (cR t) (g t) (featsAt fs t) p reg first paths = .ok (π t)) ∧
      (∀ t, hedgerLossOf (cR t) (g t) (featsAt fs t) p reg first paths = .ok (π t)) ∧
      Pd.val = π θ ∧ HasDerivAt π Pd.eps θ := by
  rw [hedgerPrice_eq_hedgerLossOf dual_neg_neg hD] at hok
  obtain ⟨π, h1, h2⟩ := (hedgerLossOf_tracks hB p reg hC hcrit).of_ok hok
  exact ⟨hok, π, fun t => by rw [hedgerPrice_eq_hedgerLossOf neg_neg (hR t)]; exact h1 t, h1,
    h2.1, h2.2⟩

/-- a concluding statement used by the corollaries: dual price = dual loss = `Pd`, real price =
real loss = `π t`, `Pd` value and derivative of `π` -/
def PriceIsLossGradient (θ : ℝ) (CD : Criterion (Dual ℝ)) (cR : Criterion ℝ)
    (G : List (Dual ℝ) → List (Dual ℝ)) (g : ℝ → List ℝ → List ℝ) (Fs : List (Feature (Dual ℝ)))
    (fs : List (ℝ → Feature ℝ)) (p : PayoffSpec ℝ) (reg : List (String × Clause ℝ))
    (first : Bool) (paths : List (HedgePath ℝ)) (Pd : Dual ℝ) : Prop :=
  hedgerLossOf CD G Fs (Dual.liftSpec p) (Dual.liftReg reg) first (liftHedgePaths paths) = .ok Pd ∧
  ∃ π : ℝ → ℝ, (∀ t, hedgerPrice cR (g t) (featsAt fs t) p reg first paths = .ok (π t)) ∧
    (∀ t, hedgerLossOf cR (g t) (featsAt fs t) p reg first paths = .ok (π t)) ∧
    Pd.val = π θ ∧ HasDerivAt π Pd.eps θ

/-- **entropic risk measure** -/
theorem price_gradient_erm (a : ℝ) (hB : BatchGeneric θ G g Fs fs paths first) (p : PayoffSpec ℝ)
    (reg : List (String × Clause ℝ)) {Pd : Dual ℝ}
    (hok : hedgerPrice (Criterion.entropicRiskMeasure (lift a)) G Fs (Dual.liftSpec p)
      (Dual.liftReg reg) first (liftHedgePaths paths) = .ok Pd) :
    PriceIsLossGradient θ (Criterion.entropicRiskMeasure (lift a)) (Criterion.entropicRiskMeasure a)
      G g Fs fs p reg first paths Pd :=
  price_gradient_of_cash_neg_loss hB p reg (cR := fun _ => Criterion.entropicRiskMeasure a)
    (P := fun _ => True) (cashIsNegLoss_erm _) (fun _ => cashIsNegLoss_erm _)
    (fun _ _ h _ => erm_tracks a h) (fun _ _ => trivial) hok

/-- **expected shortfall** (`k = ceil(p N)`), no tie at the cut of the P&L sample at `θ` -/
theorem price_gradient_es (k : ℕ) (hB : BatchGeneric θ G g Fs fs paths first) (p : PayoffSpec ℝ)
    (reg : List (String × Clause ℝ))
    (hcrit : ∀ pls, batchPL (g θ) (featsAt fs θ) p reg first paths = .ok pls →
      ∀ a ∈ (sortL pls).take k, ∀ b ∈ (sortL pls).drop k, a < b) {Pd : Dual ℝ}
    (hok : hedgerPrice (Criterion.expectedShortfall k) G Fs (Dual.liftSpec p)
      (Dual.liftReg reg) first (liftHedgePaths paths) = .ok Pd) :
    PriceIsLossGradient θ (Criterion.expectedShortfall k) (Criterion.expectedShortfall k)
      G g Fs fs p reg first paths Pd :=
  price_gradient_of_cash_neg_loss hB p reg (cR := fun _ => Criterion.expectedShortfall k)
    (cashIsNegLoss_es k) (fun _ => cashIsNegLoss_es k)
    (fun _ _ h hg => TracksE.ok (es_tracks k h hg)) hcrit hok

/-- **any closed-form criterion** `cash = −L` whose dual evaluation `LD` tracks `LR` at the
generic points `P` -/
theorem price_gradient_closedForm {LD : List (Dual ℝ) → Dual ℝ} {LR : List ℝ → ℝ}
    {P : List ℝ → Prop}
    (hL : ∀ Ds xs, TracksL Ds xs θ → P (evalL xs θ) → Tracks (LD Ds) (fun t => LR (evalL xs t)) θ)
    (hB : BatchGeneric θ G g Fs fs paths first) (p : PayoffSpec ℝ) (reg : List (String × Clause ℝ))
    (hcrit : ∀ pls, batchPL (g θ) (featsAt fs θ) p reg first paths = .ok pls → P pls)
    {Pd : Dual ℝ}
    (hok : hedgerPrice (Criterion.closedForm LD) G Fs (Dual.liftSpec p) (Dual.liftReg reg) first
      (liftHedgePaths paths) = .ok Pd) :
    PriceIsLossGradient θ (Criterion.closedForm LD) (Criterion.closedForm LR)
      G g Fs fs p reg first paths Pd :=
  price_gradient_of_cash_neg_loss hB p reg (cR := fun _ => Criterion.closedForm LR)
    (cashIsNegLoss_closedForm _) (fun _ => cashIsNegLoss_closedForm _)
    (fun Ds xs h hg => TracksE.ok (hL Ds xs h hg)) hcrit hok

/-- **quadratic CVaR as pfhedge differentiates it**: the objective `ω + λ·mean(relu(−ω − x)²)` at
the bisection's `ω` held fixed (a constant at dual numbers), at every point; by
`C14Multi.qcvar_envelope` this ε-part is the derivative of the optimised objective -/
theorem price_gradient_qcvar_fixed_omega (lam ω : ℝ) (hB : BatchGeneric θ G g Fs fs paths first)
    (p : PayoffSpec ℝ) (reg : List (String × Clause ℝ)) {Pd : Dual ℝ}
    (hok : hedgerPrice (Criterion.closedForm (qObj (lift lam) (lift ω))) G Fs (Dual.liftSpec p)
      (Dual.liftReg reg) first (liftHedgePaths paths) = .ok Pd) :
    PriceIsLossGradient θ (Criterion.closedForm (qObj (lift lam) (lift ω)))
      (Criterion.closedForm (qObj lam ω)) G g Fs fs p reg first paths Pd :=
  price_gradient_closedForm (P := fun _ => True) (fun _ _ h _ => qObj_fixed_tracks lam ω h) hB p reg
    (fun _ _ => trivial) hok

/-! ### entropic loss: `cash = −(1/a)·log(loss)`, price `= log(loss)/a` -/

/-- **entropic loss**, `a ≠ 0`: the real loss `ℓ` is positive, the real price is `log(ℓ)/a`, the
dual price / loss carry their values and derivatives, and (chain rule)
`∂price = ∂loss / (a · loss)` -/
theorem price_gradient_eloss (a : ℝ) (ha : a ≠ 0) (hB : BatchGeneric θ G g Fs fs paths first)
    (p : PayoffSpec ℝ) (reg : List (String × Clause ℝ)) {Pd Ld : Dual ℝ}
    (hokP : hedgerPrice (Criterion.entropicLoss (lift a)) G Fs (Dual.liftSpec p)
      (Dual.liftReg reg) first (liftHedgePaths paths) = .ok Pd)
    (hokL : hedgerLossOf (Criterion.entropicLoss (lift a)) G Fs (Dual.liftSpec p)
      (Dual.liftReg reg) first (liftHedgePaths paths) = .ok Ld) :
    ∃ π ℓ : ℝ → ℝ,
      (∀ t, hedgerPrice (Criterion.entropicLoss a) (g t) (featsAt fs t) p reg first paths
        = .ok (π t)) ∧
      (∀ t, hedgerLossOf (Criterion.entropicLoss a) (g t) (featsAt fs t) p reg first paths
        = .ok (ℓ t)) ∧
      (∀ t, 0 < ℓ t ∧ π t = Real.log (ℓ t) / a) ∧
      Pd.val = π θ ∧ HasDerivAt π Pd.eps θ ∧ Ld.val = ℓ θ ∧ HasDerivAt ℓ Ld.eps θ ∧
      a * Ld.val ≠ 0 ∧ Pd.eps = Ld.eps / (a * Ld.val) := by
  obtain ⟨π, hπ, hP1, hP2⟩ := hedgerPrice_gradient hB p reg
    (cR := fun _ => Criterion.entropicLoss a) (P := fun _ => True)
    (fun Ds xs h _ => (erm_tracks a h).bind (k := fun _ r => pure (-r)) fun R r hr =>
      TracksE.pure (Rel := RelS θ) hr.neg) (fun _ _ => trivial) hokP
  obtain ⟨ℓ, hℓ, hL⟩ := (hedgerLossOf_tracks hB p reg (cR := fun _ => Criterion.entropicLoss a)
    (P := fun _ => True) (fun Ds xs h _ => TracksE.ok (eloss_tracks a h))
    (fun _ _ => trivial)).of_ok hokL
  have key : ∀ t, 0 < ℓ t ∧ π t = Real.log (ℓ t) / a := by
    intro t
    have h1 := hπ t; have h2 := hℓ t
    unfold hedgerPrice at h1; unfold hedgerLossOf at h2
    obtain ⟨pls, hb, h1⟩ := bind_ok h1
    rw [hb] at h2
    have e2 : entropicLoss a pls = ℓ t := by injection h2
    obtain ⟨c, hc, h1⟩ := bind_ok h1
    have hne : pls ≠ [] := by rintro rfl; cases hc
    rw [C06Hedger.eloss_cash_eq a pls hne] at hc
    injection hc with hc
    rw [← pure_ok h1, ← hc, ← e2]
    exact ⟨C06Aux.entropicLoss_pos a pls hne, by unfold entropicLossCash; simp [Transc.log]; ring⟩
  have hpos : ℓ θ ≠ 0 := (key θ).1.ne'
  have hlog : HasDerivAt π (Ld.eps / ℓ θ / a) θ :=
    ((hL.2.log hpos).div_const a).congr_of_eventuallyEq
      (Filter.Eventually.of_forall fun t => (key t).2)
  refine ⟨π, ℓ, hπ, hℓ, key, hP1, hP2, hL.1, hL.2, by rw [hL.1]; exact mul_ne_zero ha hpos, ?_⟩
  rw [hP2.unique hlog, hL.1, div_div, mul_comm]

/-! ### search-based cash amounts: the implicit-function oracle of the harness, over ℝ -/

/-- **differentiating the defining relation of the cash amount** `F(t, c(t)) = G(t)` — `F t c` the
criterion (which may itself depend on the parameter `t`) of the constant sample `c`, `G t` the
criterion of the P&L sample: with `F` differentiable at `(θ, c θ)`, `G` and `c` differentiable at
`θ` and `∂F/∂c ≠ 0`, `c′ = (G′ − ∂F/∂t) / (∂F/∂c)`; the price is `−c` -/
theorem implicit_cash_deriv {F : ℝ → ℝ → ℝ} {Gf c : ℝ → ℝ} {F' : ℝ × ℝ →L[ℝ] ℝ} {G' c' : ℝ}
    (hF : HasFDerivAt (fun q : ℝ × ℝ => F q.1 q.2) F' (θ, c θ)) (hG : HasDerivAt Gf G' θ)
    (hc : HasDerivAt c c' θ) (hid : ∀ᶠ t in 𝓝 θ, F t (c t) = Gf t) (h0 : F' (0, 1) ≠ 0) :
    c' = (G' - F' (1, 0)) / F' (0, 1) ∧
      HasDerivAt (fun t => -c t) (-((G' - F' (1, 0)) / F' (0, 1))) θ := by
  have h1 : HasDerivAt (fun t => (t, c t)) ((1 : ℝ), c') θ := (hasDerivAt_id θ).prodMk hc
  have h2' := hF.comp_hasDerivAt θ h1
  have h2 : HasDerivAt (fun t => F t (c t)) (F' ((1 : ℝ), c')) θ := h2'
  have e : F' ((1 : ℝ), c') = F' (1, 0) + c' * F' (0, 1) := by
    have : ((1 : ℝ), c') = (1, 0) + c' • ((0 : ℝ), (1 : ℝ)) := by simp
    rw [this, map_add, map_smul, smul_eq_mul]
  have h3 := h2.unique (hG.congr_of_eventuallyEq hid)
  have hc' : c' = (G' - F' (1, 0)) / F' (0, 1) := by rw [eq_div_iff h0, ← h3, e]; ring
  exact ⟨hc', hc' ▸ hc.neg⟩

/-- **the same with the differentiability of `c` derived** (inverse function theorem): a
parameter-independent criterion, `φ c = L(constant sample c)` strictly differentiable at `c θ`
with `φ′ ≠ 0`, `c` continuous at `θ` and `φ(c t) = G t` near `θ`.  Then `c′ = G′ / φ′`. -/
theorem implicit_cash_hasDerivAt {φ Gf c : ℝ → ℝ} {φ' G' : ℝ} (hφ : HasStrictDerivAt φ φ' (c θ))
    (h0 : φ' ≠ 0) (hG : HasDerivAt Gf G' θ) (hc : ContinuousAt c θ)
    (hid : ∀ᶠ t in 𝓝 θ, φ (c t) = Gf t) : HasDerivAt c (G' / φ') θ := by
  have hl : ∀ᶠ t in 𝓝 θ, hφ.localInverse φ φ' (c θ) h0 (φ (c t)) = c t :=
    hc.eventually (hφ.eventually_left_inverse h0)
  have hψ := (hφ.to_localInverse h0).hasDerivAt
  rw [hid.self_of_nhds] at hψ
  refine ((hψ.comp θ hG).congr_of_eventuallyEq ?_).congr_deriv (by rw [div_eq_inv_mul])
  filter_upwards [hl, hid] with t h1 h2
  rw [Function.comp_apply, ← h2, h1]

/-- **the oracle for a search-based cash amount, tied to the model**: the criterion `L` (total,
parameter-independent; its dual evaluation `CD.loss` tracks it at the generic points `P`) with the
default search `Criterion.default`.  A successful dual evaluation `Ld` of the hedging loss gives
the real loss `ℓ` with `ℓ′(θ) = Ld.eps`, and for EVERY exact cash amount — `c` continuous at `θ`
with `L(n copies of c t) = ℓ t` near `θ`, `∂L(n copies of c)/∂c = φ′ ≠ 0` — the price `−c` has the
derivative `−Ld.eps / φ′` -/
theorem price_gradient_search {L : List ℝ → ℝ} (pr : ℝ) (mi : ℕ)
    (hB : BatchGeneric θ G g Fs fs paths first) (p : PayoffSpec ℝ) (reg : List (String × Clause ℝ))
    {CD : Criterion (Dual ℝ)} {P : List ℝ → Prop}
    (hC : CritTracks θ CD.loss (fun _ xs => .ok (L xs)) P)
    (hcrit : ∀ pls, batchPL (g θ) (featsAt fs θ) p reg first paths = .ok pls → P pls)
    {Ld : Dual ℝ}
    (hok : hedgerLossOf CD G Fs (Dual.liftSpec p) (Dual.liftReg reg) first (liftHedgePaths paths)
      = .ok Ld) :
    ∃ ℓ : ℝ → ℝ,
      (∀ t, hedgerLossOf (Criterion.default L pr mi) (g t) (featsAt fs t) p reg first paths
        = .ok (ℓ t)) ∧ Ld.val = ℓ θ ∧ HasDerivAt ℓ Ld.eps θ ∧
      ∀ (c : ℝ → ℝ) (n : ℕ) (φ' : ℝ), ContinuousAt c θ →
        HasStrictDerivAt (fun x => L (List.replicate n x)) φ' (c θ) → φ' ≠ 0 →
        (∀ᶠ t in 𝓝 θ, L (List.replicate n (c t)) = ℓ t) →
        HasDerivAt (fun t => -c t) (-(Ld.eps / φ')) θ := by
  obtain ⟨ℓ, h1, h2⟩ := (hedgerLossOf_tracks hB p reg (cR := fun _ => Criterion.default L pr mi)
    hC hcrit).of_ok hok
  exact ⟨ℓ, h1, h2.1, h2.2, fun c n φ' hc hφ h0 hid =>
    (implicit_cash_hasDerivAt hφ h0 h2.2 hc hid).neg⟩

/-! ### non-vacuity: the two-instrument recurrent example of C14Multi (cost rates `1`, `1/2`) -/

noncomputable def exPaths : List (HedgePath ℝ) := [⟨exMkt, exHs2⟩]
noncomputable def exFsD : List (Feature (Dual ℝ)) :=
  exFeats.map (fun b => Feature.base (C14Aux.liftBase b))

/-- the P&L sample of the batch at dual numbers: `pl(w) = −7/2·w − 8` at `w = 1` -/
theorem example_batch_dual (CD : List (Dual ℝ) → Except Err (Dual ℝ)) :
    lossOfH (mlpL exLin2) exFsD (pathsOf (liftHedgePaths exPaths)) (Dual.liftSpec exPay)
      (Dual.liftReg []) true CD = CD [⟨-23 / 2, -7 / 2⟩] := by
  have h : (pathsOf (liftHedgePaths exPaths)).mapM (fun mh => hedgerPL (mlpL exLin2) exFsD mh.1 mh.2
      (Dual.liftSpec exPay) (Dual.liftReg []) true) = .ok [⟨-23 / 2, -7 / 2⟩] := by
    simp [pathsOf, liftHedgePaths, exPaths, exFsD, hedgerPL, hedgerSpotUnit, stackPrices, nSteps,
      PriceSrc.prices, computeHedge, hedgeLoop, inputsAt, Feature.getAt, BaseFeature.getAt, idx,
      logIf, appendLast, lastL, transposeHT, colsFrom, colAt, derivPayoff, PayoffSpec.eval,
      europeanPayoff, reluS, applyClauses, Dual.liftMarket, Dual.liftInstr, Dual.liftSrc,
      Dual.liftSpec, Dual.liftReg, C14Aux.liftBase, Dual.const, exFeats, exMkt, exHs2, exLin2,
      exPay, mlpL, linearL, dotL, Feature.stateDependent, BaseFeature.stateDependent, plPath,
      gains1, cost1, first1, zipWith3L, sumL, mulL, initL, diffL, tailL, absS, Dual.le_iff, bind,
      Except.bind, pure, Except.pure]
    ext <;> simp <;> norm_num
  unfold lossOfH; rw [h]; rfl

/-- all hypotheses on features, module and paths hold there -/
theorem example_batchGeneric : BatchGeneric 1 (mlpL exLin2)
    (fun t => mlpL (evalLayers exLin2F t)) exFsD (exFeats.map (fun b _ => Feature.base b)) exPaths
    true := by
  have hL : TracksLayers exLin2 exLin2F 1 :=
    List.Forall₂.cons
      ⟨List.Forall₂.cons
        (TracksL.cons (tracks_const 0) (TracksL.cons (tracks_const 0) (TracksL.single tracks_var')))
        (List.Forall₂.cons
          (TracksL.cons (tracks_const 1) (TracksL.cons (tracks_const 0)
            (TracksL.single (tracks_const 1)))) List.Forall₂.nil),
        TracksL.cons (tracks_const 0) (TracksL.single (tracks_const 0))⟩ List.Forall₂.nil
  refine ⟨featsRel_base exFeats, fun q _ X _ x hx => mlp_compat hL hx trivial, ?_⟩
  intro q hq rows units hr ht cu hcu hc
  simp only [exPaths, List.mem_singleton] at hq; subst hq
  simp [featsAt, hedgeRows, hedgeN, nSteps, PriceSrc.prices, Feature.stateDependent,
    BaseFeature.stateDependent, hedgeLoop, inputsAt, Feature.getAt, BaseFeature.getAt, idx,
    logIf, exFeats, exMkt, exHs2, exLin2F, evalLayers, mlpL, linearL, dotL, sumL, bind,
    Except.bind, pure, Except.pure] at hr
  subst hr
  simp [transposeHT, colsFrom, colAt, idx, exHs2, bind, Except.bind, pure, Except.pure] at ht
  subst ht
  simp [exHs2] at hcu
  rcases hcu with rfl | rfl <;> norm_num [diffL]

/-- closed-form cash amount (`L = −mean`): the dual price is `⟨23/2, 7/2⟩`, and
`price_gradient_closedForm` identifies `7/2` as the derivative of the price = the loss -/
example : ∃ π : ℝ → ℝ,
    (∀ t, hedgerPrice (Criterion.closedForm fun xs => -(meanR xs)) (mlpL (evalLayers exLin2F t))
      (exFeats.map Feature.base) exPay [] true exPaths = .ok (π t)) ∧
    π 1 = 23 / 2 ∧ HasDerivAt π (7 / 2) 1 := by
  have hok : hedgerPrice (Criterion.closedForm fun xs : List (Dual ℝ) => -(meanR xs)) (mlpL exLin2)
      exFsD (Dual.liftSpec exPay) (Dual.liftReg []) true (liftHedgePaths exPaths)
      = .ok ⟨23 / 2, 7 / 2⟩ := by
    rw [hedgerPrice_eq_lossOfH, example_batch_dual]
    simp [negCash, Criterion.closedForm, cashNeg, meanR, sumL, bind, Except.bind, pure, Except.pure]
    ext <;> simp <;> norm_num
  obtain ⟨-, π, h1, -, h3, h4⟩ := price_gradient_closedForm (P := fun _ => True)
    (LR := fun xs => -(meanR xs)) (fun _ _ h _ => (mean_tracks h).neg) example_batchGeneric exPay [] (fun _ _ => trivial) hok
  exact ⟨π, fun t => by simpa only [featsAt_base] using h1 t, h3.symm, h4⟩

/-- entropic risk measure and entropic loss: the dual evaluations succeed on the example, so the
`hok` hypotheses of `price_gradient_erm` and `price_gradient_eloss` are satisfiable -/
theorem example_dual_ok : (∃ Pd, hedgerPrice (Criterion.entropicRiskMeasure (lift 1)) (mlpL exLin2)
      exFsD (Dual.liftSpec exPay) (Dual.liftReg []) true (liftHedgePaths exPaths) = .ok Pd) ∧
    (∃ Pd, hedgerPrice (Criterion.entropicLoss (lift 1)) (mlpL exLin2) exFsD
      (Dual.liftSpec exPay) (Dual.liftReg []) true (liftHedgePaths exPaths) = .ok Pd) ∧
    (∃ Ld, hedgerLossOf (Criterion.entropicLoss (lift 1)) (mlpL exLin2) exFsD
      (Dual.liftSpec exPay) (Dual.liftReg []) true (liftHedgePaths exPaths) = .ok Ld) := by
  simp only [hedgerPrice_eq_lossOfH, hedgerLossOf_eq_lossOfH, example_batch_dual]
  exact ⟨⟨_, rfl⟩, ⟨_, rfl⟩, ⟨_, rfl⟩⟩

/-- `price_gradient_erm` and `price_gradient_eloss` (`a = 1 ≠ 0`) with all hypotheses discharged -/
example : (∃ Pd : Dual ℝ, ∃ π : ℝ → ℝ, (∀ t, hedgerLossOf (Criterion.entropicRiskMeasure 1)
      (mlpL (evalLayers exLin2F t)) (exFeats.map Feature.base) exPay [] true exPaths = .ok (π t)) ∧
      HasDerivAt π Pd.eps 1) ∧
    ∃ (Pd Ld : Dual ℝ) (π ℓ : ℝ → ℝ), (∀ t, 0 < ℓ t ∧ π t = Real.log (ℓ t) / 1) ∧
      HasDerivAt π Pd.eps 1 ∧ HasDerivAt ℓ Ld.eps 1 ∧ Pd.eps = Ld.eps / (1 * Ld.val) := by
  obtain ⟨⟨Pe, hE⟩, ⟨Pd, hP⟩, ⟨Ld, hL⟩⟩ := example_dual_ok
  obtain ⟨-, π, -, h2, -, h4⟩ := price_gradient_erm 1 example_batchGeneric exPay [] hE
  obtain ⟨π', ℓ, -, -, k3, -, k5, -, k7, -, k9⟩ :=
    price_gradient_eloss 1 one_ne_zero example_batchGeneric exPay [] hP hL
  exact ⟨⟨Pe, π, fun t => by simpa only [featsAt_base] using h2 t, h4⟩, Pd, Ld, π', ℓ, k3, k5, k7, k9⟩

/-- `price_gradient_search` with `L = −mean` (so `L(one copy of c) = −c`, `φ′ = −1`): the exact cash
amount `c = −ℓ` is continuous and satisfies the defining relation; the price `−c` has the
derivative `−(7/2)/(−1) = 7/2` — the same as the closed form above -/
example : ∃ ℓ : ℝ → ℝ, HasDerivAt (fun t => -(-ℓ t)) (-(7 / 2 / -1)) 1 := by
  have hok : hedgerLossOf (Criterion.closedForm fun xs : List (Dual ℝ) => -(meanR xs))
      (mlpL exLin2) exFsD (Dual.liftSpec exPay) (Dual.liftReg []) true (liftHedgePaths exPaths)
      = .ok ⟨23 / 2, 7 / 2⟩ := by
    rw [hedgerLossOf_eq_lossOfH, example_batch_dual]
    simp [Criterion.closedForm, meanR, sumL]
    ext <;> simp <;> norm_num
  obtain ⟨ℓ, -, -, h3, h4⟩ := price_gradient_search (L := fun xs => -(meanR xs)) 0 0
    example_batchGeneric exPay [] (P := fun _ => True)
    (fun _ _ h _ => TracksE.ok (mean_tracks h).neg) (fun _ _ => trivial) hok
  exact ⟨ℓ, h4 (fun t => -ℓ t) 1 (-1) h3.continuousAt.neg
    (by
      have e : (fun x : ℝ => -(meanR (List.replicate 1 x))) = fun x => -x := by
        funext x; simp [meanR, sumL]
      rw [e]; exact (hasStrictDerivAt_id (-ℓ 1)).neg) (by norm_num)
    (Filter.Eventually.of_forall fun t => by simp [meanR, sumL])⟩

/-- the implicit-function lemmas on toy data: `φ c = 2c`, `G t = 6t`, the exact cash amount
`c t = 3t` has the derivative `6/2` (derived), resp. `(6 − 0)/2` (with `c` assumed differentiable) -/
example : HasDerivAt (fun t : ℝ => 3 * t) (6 / 2) 0 :=
  implicit_cash_hasDerivAt (φ := fun c => 2 * c) (Gf := fun t => 6 * t) (c := fun t => 3 * t)
    (by simpa using (hasStrictDerivAt_id ((3 : ℝ) * 0)).const_mul 2) (by norm_num)
    (by simpa using (hasDerivAt_id (0 : ℝ)).const_mul 6) (by fun_prop)
    (Filter.Eventually.of_forall fun t => by ring)

end PfVerif.C14Price
