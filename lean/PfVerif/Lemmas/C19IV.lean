/-
  C19 (second sentence) — implied volatility round trip.

  "Implied volatility recovered from a Black–Scholes price reproduces the volatility that
  generated it to that precision, for every option type whose price is monotone in volatility."

  `pfhedge.nn.functional.find_implied_volatility` is `bisect(pricer(volatility = ·), price,
  lower, upper, precision, max_iter)`; here the pricers are those of Model/BS.lean
  (`bsEuropeanPrice s t v K call`, `bsLookbackPrice s m t v K`; `s` = log-moneyness, `m` = log of
  running maximum over strike, `t` = time to maturity, `v` = volatility), the root finder is
  Model/Bisect.lean, everything at ℝ.

  * `C19IV.european_price_strictMonoOn_vol`, `C19IV.european_price_continuousOn_vol`:
    for `K, t > 0`, any real `s`, call and put, the price is strictly increasing and continuous
    in the volatility on `(0, ∞)` (vega `= K eˢ φ(d₁) √t > 0`; `C08.european_vega`,
    `C09Aux.call_vega_pos` — the vega does not depend on `call`).
  * `C19IV.roundtrip_of_strictMonoOn`: the round trip for *every* element-wise pricer `f i` that
    is strictly increasing and continuous in the volatility on `(0, ∞)` ("every option type whose
    price is monotone in volatility"): if the targets are the prices at the volatilities `σ i`,
    the brackets satisfy `0 < lower[i] ≤ σ i ≤ upper[i]`, and `bisect` returns `res`, then
    `σ i ≤ res[i] ≤ σ i + precision` for every element.  Proof: `C19.bisect_increasing_spec`
    gives a root `r` of `price(r) = price(σ i)` with `r ≤ res[i] ≤ r + precision`; strict
    monotonicity on `(0, ∞)` forces `r = σ i`.
  * `C19IV.implied_vol_roundtrip` (+ `_abs`: `|res[i] - σ i| ≤ precision`): the European
    call / put instance.
  * lookback call (`bsLookbackPrice`, both branches of the running maximum): strict positivity of
    the vega was not available in Props/C08, C09 (Lemmas/C08Dual only gives the derivative as an
    unnamed ε-part), so it is derived here from Lemmas/BSCalc:
    `∂price/∂v = c eᵃ (2 φ(d₁) + w Φ(d₁)) √t > 0` with `(a, c) = (s, K)` below the strike and
    `(s − m, K eᵐ)` above (`C19IVAux.hasDerivAt_lbG`, `C19IV.lookback_vega_pos`), then
    `C19IV.lookback_price_strictMonoOn_vol`, `…_continuousOn_vol` and
    `C19IV.lookback_implied_vol_roundtrip`.
  * non-vacuity: a concrete instance (at-the-money, `t = K = 1`, `σ = 1/5`, bracket
    `[1/100, 2]`, `precision = 1/100`, `max_iter = 8`) where every hypothesis holds, `bisect`
    provably returns (`C19.bisect_ok_of_maxIter`), and the returned value is within `1/100` of
    `1/5`; for the European call and put and for the lookback call.

  Helpers live in `PfVerif.C19IVAux`, the property theorems in `PfVerif.C19IV`.
  Prices are read through `C08Aux.val` (error ↦ 0); on `t, v > 0` the model never raises.
-/
import PfVerif.Props.C19
import PfVerif.Props.C09

namespace PfVerif.C19IVAux
open PfVerif PfVerif.BSCalc PfVerif.C08Aux PfVerif.C09Aux Set

/-- a strictly monotone function on a set is injective there, in the form used below -/
theorem eq_of_strictMonoOn {g : ℝ → ℝ} {A : Set ℝ} (hg : StrictMonoOn g A) {a b : ℝ}
    (ha : a ∈ A) (hb : b ∈ A) (h : g a = g b) : a = b :=
  hg.injOn ha hb h

/-- a vectorised pricer `xs.map g` acts element-wise (used for non-vacuity) -/
theorem map_elementwise (g : ℝ → ℝ) (n : ℕ) :
    ∀ xs : List ℝ, xs.length = n → (xs.map g).length = n ∧
      ∀ i (h' : i < xs.length) (h'' : i < (xs.map g).length), (xs.map g)[i] = g xs[i] := by
  intro xs hxs
  exact ⟨by simpa using hxs, fun i h' h'' => by simp⟩

/-! ### the lookback call as a function of the total volatility `w = v √t` -/

/-- common shape of the two branches of the lookback formula:
`c eᵃ · lb a w − c Φ(d₂ a w)` (`lb` is the bracket `Φ(d₁) + (a + w²/2) Φ(d₁) + w φ(d₁)`) -/
noncomputable def lbG (a c w : ℝ) : ℝ := c * Real.exp a * lb a w - c * Phi (d2 a w)

theorem hasDerivAt_lb (a : ℝ) {w : ℝ} (hw : w ≠ 0) :
    HasDerivAt (fun w' => lb a w')
      (phi (d1 a w) * (1 - d2 a w / w) + w * Phi (d1 a w)) w := by
  have hP := hasDerivAt_Phi_d1 (hasDerivAt_const w a) (hasDerivAt_id' w) hw
  have hp := hasDerivAt_phi_d1 (hasDerivAt_const w a) (hasDerivAt_id' w) hw
  have hq : HasDerivAt (fun w' : ℝ => a + w' * w' / 2) w w := by
    have h := (((hasDerivAt_id' w).fun_mul (hasDerivAt_id' w)).div_const 2).const_add a
    refine h.congr_deriv ?_
    ring
  have h := (hP.fun_add (hq.fun_mul hP)).fun_add ((hasDerivAt_id' w).fun_mul hp)
  unfold lb
  refine h.congr_deriv ?_
  have e := w_mul_d1 a hw
  rw [← e]
  generalize d1 a w = x
  generalize d2 a w = y
  generalize Phi x = P
  generalize phi x = p
  field_simp
  ring

/-- `∂/∂w [c eᵃ lb a w − c Φ(d₂)] = c eᵃ (2 φ(d₁) + w Φ(d₁))` -/
theorem hasDerivAt_lbG (a c : ℝ) {w : ℝ} (hw : w ≠ 0) :
    HasDerivAt (fun w' => lbG a c w')
      (c * Real.exp a * (2 * phi (d1 a w) + w * Phi (d1 a w))) w := by
  have h1 := (hasDerivAt_lb a hw).const_mul (c * Real.exp a)
  have h2 := (hasDerivAt_Phi_d2 (hasDerivAt_const w a) (hasDerivAt_id' w) hw).const_mul c
  have e := exp_mul_phi_d1 a w hw
  have e2 : d2 a w = d1 a w - w := by rw [d1_eq_d2_add]; ring
  unfold lbG
  refine (h1.fun_sub h2).congr_deriv ?_
  rw [← e, e2]
  generalize d1 a w = x
  generalize Phi x = P
  generalize phi x = p
  field_simp
  ring

/-- the same along `w = v √t` -/
theorem hasDerivAt_lbG_vol (a c : ℝ) {t v : ℝ} (ht : 0 < t) (hv : 0 < v) :
    HasDerivAt (fun v' => lbG a c (v' * Real.sqrt t))
      (c * Real.exp a * (2 * phi (d1 a (v * Real.sqrt t))
        + v * Real.sqrt t * Phi (d1 a (v * Real.sqrt t))) * Real.sqrt t) v := by
  have h := HasDerivAt.comp v (hasDerivAt_lbG a c (w_pos ht hv).ne') (hasDerivAt_w_vol t v)
  exact h

theorem lbG_vega_pos (a : ℝ) {c t v : ℝ} (hc : 0 < c) (ht : 0 < t) (hv : 0 < v) :
    0 < c * Real.exp a * (2 * phi (d1 a (v * Real.sqrt t))
        + v * Real.sqrt t * Phi (d1 a (v * Real.sqrt t))) * Real.sqrt t := by
  have h1 := phi_pos (d1 a (v * Real.sqrt t))
  have h2 : 0 < Real.sqrt t := Real.sqrt_pos.2 ht
  have h3 := Real.exp_pos a
  have h4 := (Phi_mem_Ioo (d1 a (v * Real.sqrt t))).1
  positivity

theorem price0_eq (s t v K : ℝ) : price0 s t v K = lbG s K (v * Real.sqrt t) := by
  unfold price0 lbG
  ring

theorem price1_eq (s m t v K : ℝ) :
    price1 s m t v K
      = lbG (s - m) (Real.exp m * K) (v * Real.sqrt t) + (Real.exp m * K - K) := by
  unfold price1 lbG
  have e : Real.exp s = Real.exp m * Real.exp (s - m) := by
    rw [← Real.exp_add]; congr 1; ring
  rw [e]
  ring

/-- on `t, v > 0` the lookback price is `c eᵃ lb a w − c Φ(d₂ a w) + const` for constants
`a, c, const` that do not depend on the volatility (`c > 0` when `K > 0`) -/
theorem lookback_val_eq (s m K : ℝ) {t : ℝ} (ht : 0 < t) :
    ∃ a c k0 : ℝ, (0 < K → 0 < c) ∧ ∀ v, 0 < v →
      val (bsLookbackPrice s m t v K) = lbG a c (v * Real.sqrt t) + k0 := by
  by_cases h : Real.exp m * K < K
  · refine ⟨s, K, 0, id, fun v hv => ?_⟩
    rw [lookback_price_ok ht hv, if_pos h, val_ok, price0_eq, add_zero]
  · refine ⟨s - m, Real.exp m * K, Real.exp m * K - K,
      fun hK => mul_pos (Real.exp_pos m) hK, fun v hv => ?_⟩
    rw [lookback_price_ok ht hv, if_neg h, val_ok, price1_eq]

end PfVerif.C19IVAux

namespace PfVerif.C19IV
open PfVerif PfVerif.C08Aux PfVerif.C09Aux PfVerif.C19IVAux Set

/-! ### the European price as a function of the volatility -/

/-- **The European price (call and put) is strictly increasing in the volatility** on `(0, ∞)`,
for every log-moneyness `s`, strike `K > 0` and time to maturity `t > 0`. -/
theorem european_price_strictMonoOn_vol (s : ℝ) {K t : ℝ} (hK : 0 < K) (ht : 0 < t)
    (call : Bool) :
    StrictMonoOn (fun v => val (bsEuropeanPrice s t v K call)) (Ioi 0) := by
  refine strictMonoOn_of_deriv_pos (convex_Ioi 0) ?_ ?_
  · intro v hv
    exact (C08.european_vega s ht hv call).continuousAt.continuousWithinAt
  · intro v hv
    rw [interior_Ioi] at hv
    rw [(C08.european_vega s ht hv call).deriv]
    exact call_vega_pos s hK ht hv

/-- … and continuous there (it is differentiable, `C08.european_vega`); no sign condition on
`K` is needed for this. -/
theorem european_price_continuousOn_vol (s K : ℝ) {t : ℝ} (ht : 0 < t) (call : Bool) :
    ContinuousOn (fun v => val (bsEuropeanPrice s t v K call)) (Ioi 0) :=
  fun _ hv => (C08.european_vega s ht hv call).continuousAt.continuousWithinAt

/-- hence the price determines the volatility: the pricer is injective on `(0, ∞)` -/
theorem european_price_injOn_vol (s : ℝ) {K t : ℝ} (hK : 0 < K) (ht : 0 < t) (call : Bool) :
    InjOn (fun v => val (bsEuropeanPrice s t v K call)) (Ioi 0) :=
  (european_price_strictMonoOn_vol s hK ht call).injOn

/-! ### the round trip, for every pricer that is monotone in the volatility -/

/-- **C19, implied-volatility round trip for every option type whose price is strictly
increasing (and continuous) in the volatility on `(0, ∞)`.**
`f i` is the scalar pricer of tensor element `i` as a function of the volatility, `fn` its
vectorisation (same shape of `hfn` as in `C19.bisect_increasing_spec`), `σ i` the true
volatilities, `target[i] = f i (σ i)`, brackets with `0 < lower[i] ≤ σ i ≤ upper[i]` and
`(lower < upper).all()`.  Whenever `bisect` returns `res` (any `precision`, any `max_iter`),
`res` has `n` elements and every `res[i]` lies in `[σ i, σ i + precision]`. -/
theorem roundtrip_of_strictMonoOn (n : ℕ) (f : ℕ → ℝ → ℝ) (σ : ℕ → ℝ) (fn : List ℝ → List ℝ)
    (target lower upper : List ℝ) (precision : ℝ) (maxIter : ℕ) (res : List ℝ)
    (hl : lower.length = n) (hu : upper.length = n) (htl : target.length = n)
    (hmono : ∀ i, i < n → StrictMonoOn (f i) (Ioi 0))
    (hcont : ∀ i, i < n → ContinuousOn (f i) (Ioi 0))
    (hfn : ∀ xs : List ℝ, xs.length = n → (fn xs).length = n ∧
      ∀ i (h' : i < xs.length) (h'' : i < (fn xs).length), (fn xs)[i] = f i xs[i])
    (hlt : allLt lower upper = true)
    (hbr : ∀ i (h1 : i < lower.length) (h2 : i < upper.length),
      0 < lower[i] ∧ lower[i] ≤ σ i ∧ σ i ≤ upper[i])
    (htgt : ∀ i (h3 : i < target.length), target[i] = f i (σ i))
    (hok : bisect fn target lower upper precision maxIter = .ok res) :
    res.length = n ∧
    ∀ i (h4 : i < res.length), σ i ≤ res[i] ∧ res[i] - σ i ≤ precision := by
  obtain ⟨hr, hres⟩ := C19.bisect_increasing_spec n f fn target lower upper precision
    maxIter res hl hu htl hfn
    (fun i h1 h2 =>
      (hcont i (hl ▸ h1)).mono (fun x hx => lt_of_lt_of_le (hbr i h1 h2).1 hx.1))
    hlt
    (fun i h1 h2 h3 => by
      obtain ⟨b0, b1, b2⟩ := hbr i h1 h2
      have hσ : (0 : ℝ) < σ i := lt_of_lt_of_le b0 b1
      have hm := (hmono i (hl ▸ h1)).monotoneOn
      rw [htgt i h3]
      exact ⟨hm (mem_Ioi.2 b0) (mem_Ioi.2 hσ) b1,
        hm (mem_Ioi.2 hσ) (mem_Ioi.2 (lt_of_lt_of_le hσ b2)) b2⟩)
    hok
  refine ⟨hr, ?_⟩
  intro i h4
  have hi : i < n := hr ▸ h4
  obtain ⟨r, r1, r2, _, r4, r5⟩ := hres i (by omega) (by omega) (by omega) h4
  obtain ⟨b0, b1, _⟩ := hbr i (by omega) (by omega)
  have hrσ : r = σ i :=
    eq_of_strictMonoOn (hmono i hi) (mem_Ioi.2 (lt_of_lt_of_le b0 r1))
      (mem_Ioi.2 (lt_of_lt_of_le b0 b1)) (r4.trans (htgt i (by omega)))
  rw [hrσ] at r2 r5
  exact ⟨r2, r5⟩

/-- **C19, implied-volatility round trip (European call and put).**
`n` tensor elements with log-moneyness `s i`, time to maturity `t i > 0`, strike `K i > 0`
(positivity is only required for `i < n`), a common option type `call`, true volatilities `σ i`;
`target[i]` is the Black–Scholes price at `σ i`; the brackets satisfy
`0 < lower[i] ≤ σ i ≤ upper[i]` and `(lower < upper).all()`; `fn` is the vectorised pricer
(acts element-wise as `v ↦ price(s i, t i, v, K i)`; same shape as `hfn` of
`C19.bisect_increasing_spec`).  Whenever `bisect` returns `res` (any `precision`, any
`max_iter`), `res` has `n` elements and every `res[i]` lies in `[σ i, σ i + precision]`.
No hypothesis was added beyond those of the informal statement; `precision` may have any sign
(if `bisect` returns at all the conclusion holds). -/
theorem implied_vol_roundtrip (n : ℕ) (s t K σ : ℕ → ℝ) (call : Bool) (fn : List ℝ → List ℝ)
    (target lower upper : List ℝ) (precision : ℝ) (maxIter : ℕ) (res : List ℝ)
    (hl : lower.length = n) (hu : upper.length = n) (htl : target.length = n)
    (ht : ∀ i, i < n → 0 < t i) (hK : ∀ i, i < n → 0 < K i)
    (hfn : ∀ xs : List ℝ, xs.length = n → (fn xs).length = n ∧
      ∀ i (h' : i < xs.length) (h'' : i < (fn xs).length),
        (fn xs)[i] = val (bsEuropeanPrice (s i) (t i) xs[i] (K i) call))
    (hlt : allLt lower upper = true)
    (hbr : ∀ i (h1 : i < lower.length) (h2 : i < upper.length),
      0 < lower[i] ∧ lower[i] ≤ σ i ∧ σ i ≤ upper[i])
    (htgt : ∀ i (h3 : i < target.length),
      target[i] = val (bsEuropeanPrice (s i) (t i) (σ i) (K i) call))
    (hok : bisect fn target lower upper precision maxIter = .ok res) :
    res.length = n ∧
    ∀ i (h4 : i < res.length), σ i ≤ res[i] ∧ res[i] - σ i ≤ precision :=
  roundtrip_of_strictMonoOn n (fun i v => val (bsEuropeanPrice (s i) (t i) v (K i) call)) σ fn
    target lower upper precision maxIter res hl hu htl
    (fun i hi => european_price_strictMonoOn_vol (s i) (hK i hi) (ht i hi) call)
    (fun i hi => european_price_continuousOn_vol (s i) (K i) (ht i hi) call)
    hfn hlt hbr htgt hok

/-- the same with an absolute value: the recovered volatility is within `precision` of the
volatility that generated the price -/
theorem implied_vol_roundtrip_abs (n : ℕ) (s t K σ : ℕ → ℝ) (call : Bool) (fn : List ℝ → List ℝ)
    (target lower upper : List ℝ) (precision : ℝ) (maxIter : ℕ) (res : List ℝ)
    (hl : lower.length = n) (hu : upper.length = n) (htl : target.length = n)
    (ht : ∀ i, i < n → 0 < t i) (hK : ∀ i, i < n → 0 < K i)
    (hfn : ∀ xs : List ℝ, xs.length = n → (fn xs).length = n ∧
      ∀ i (h' : i < xs.length) (h'' : i < (fn xs).length),
        (fn xs)[i] = val (bsEuropeanPrice (s i) (t i) xs[i] (K i) call))
    (hlt : allLt lower upper = true)
    (hbr : ∀ i (h1 : i < lower.length) (h2 : i < upper.length),
      0 < lower[i] ∧ lower[i] ≤ σ i ∧ σ i ≤ upper[i])
    (htgt : ∀ i (h3 : i < target.length),
      target[i] = val (bsEuropeanPrice (s i) (t i) (σ i) (K i) call))
    (hok : bisect fn target lower upper precision maxIter = .ok res) :
    res.length = n ∧ ∀ i (h4 : i < res.length), |res[i] - σ i| ≤ precision := by
  obtain ⟨hr, h⟩ := implied_vol_roundtrip n s t K σ call fn target lower upper precision maxIter
    res hl hu htl ht hK hfn hlt hbr htgt hok
  refine ⟨hr, fun i h4 => ?_⟩
  obtain ⟨a, b⟩ := h i h4
  rw [abs_of_nonneg (by linarith)]
  exact b

/-! ### lookback call -/

/-- **The lookback vega is strictly positive**: for `K, t, v > 0`, every log-moneyness `s` and
running maximum `m` (both branches of the formula), the price is differentiable in the
volatility with a strictly positive derivative,
`c eᵃ (2 φ(d₁ a w) + w Φ(d₁ a w)) √t`, `w = v √t`, `(a, c) = (s, K)` if the running maximum is
below the strike and `(s − m, K eᵐ)` otherwise. -/
theorem lookback_vega_pos (s m : ℝ) {K t v : ℝ} (hK : 0 < K) (ht : 0 < t) (hv : 0 < v) :
    ∃ D : ℝ, HasDerivAt (fun v' => val (bsLookbackPrice s m t v' K)) D v ∧ 0 < D := by
  obtain ⟨a, c, k0, hc, heq⟩ := lookback_val_eq s m K ht
  refine ⟨_, ?_, lbG_vega_pos a (hc hK) ht hv⟩
  refine ((hasDerivAt_lbG_vol a c ht hv).add_const k0).congr_of_eventuallyEq ?_
  filter_upwards [lt_mem_nhds hv] with v' hv'
  exact heq v' hv'

/-- the lookback price is strictly increasing in the volatility on `(0, ∞)` -/
theorem lookback_price_strictMonoOn_vol (s m : ℝ) {K t : ℝ} (hK : 0 < K) (ht : 0 < t) :
    StrictMonoOn (fun v => val (bsLookbackPrice s m t v K)) (Ioi 0) := by
  refine strictMonoOn_of_deriv_pos (convex_Ioi 0) ?_ ?_
  · intro v hv
    obtain ⟨D, hD, _⟩ := lookback_vega_pos s m hK ht hv
    exact hD.continuousAt.continuousWithinAt
  · intro v hv
    rw [interior_Ioi] at hv
    obtain ⟨D, hD, hpos⟩ := lookback_vega_pos s m hK ht hv
    rw [hD.deriv]
    exact hpos

/-- … and continuous there (no sign condition on `K` is needed for this) -/
theorem lookback_price_continuousOn_vol (s m K : ℝ) {t : ℝ} (ht : 0 < t) :
    ContinuousOn (fun v => val (bsLookbackPrice s m t v K)) (Ioi 0) := by
  obtain ⟨a, c, k0, _, heq⟩ := lookback_val_eq s m K ht
  intro v hv
  have h : HasDerivAt (fun v' => val (bsLookbackPrice s m t v' K)) _ v :=
    ((hasDerivAt_lbG_vol a c ht hv).add_const k0).congr_of_eventuallyEq (by
      filter_upwards [lt_mem_nhds hv] with v' hv'
      exact heq v' hv')
  exact h.continuousAt.continuousWithinAt

/-- **C19, implied-volatility round trip (lookback call).**  As `implied_vol_roundtrip`, with a
per-element log running maximum `m i` (any real value: both branches of the formula). -/
theorem lookback_implied_vol_roundtrip (n : ℕ) (s m t K σ : ℕ → ℝ) (fn : List ℝ → List ℝ)
    (target lower upper : List ℝ) (precision : ℝ) (maxIter : ℕ) (res : List ℝ)
    (hl : lower.length = n) (hu : upper.length = n) (htl : target.length = n)
    (ht : ∀ i, i < n → 0 < t i) (hK : ∀ i, i < n → 0 < K i)
    (hfn : ∀ xs : List ℝ, xs.length = n → (fn xs).length = n ∧
      ∀ i (h' : i < xs.length) (h'' : i < (fn xs).length),
        (fn xs)[i] = val (bsLookbackPrice (s i) (m i) (t i) xs[i] (K i)))
    (hlt : allLt lower upper = true)
    (hbr : ∀ i (h1 : i < lower.length) (h2 : i < upper.length),
      0 < lower[i] ∧ lower[i] ≤ σ i ∧ σ i ≤ upper[i])
    (htgt : ∀ i (h3 : i < target.length),
      target[i] = val (bsLookbackPrice (s i) (m i) (t i) (σ i) (K i)))
    (hok : bisect fn target lower upper precision maxIter = .ok res) :
    res.length = n ∧
    ∀ i (h4 : i < res.length), σ i ≤ res[i] ∧ res[i] - σ i ≤ precision :=
  roundtrip_of_strictMonoOn n (fun i v => val (bsLookbackPrice (s i) (m i) (t i) v (K i))) σ fn
    target lower upper precision maxIter res hl hu htl
    (fun i hi => lookback_price_strictMonoOn_vol (s i) (m i) (hK i hi) (ht i hi))
    (fun i hi => lookback_price_continuousOn_vol (s i) (m i) (K i) (ht i hi))
    hfn hlt hbr htgt hok

/-! ### non-vacuity -/

/-- the vectorised pricer `xs.map price` satisfies the element-wise hypothesis `hfn` -/
example (call : Bool) : ∀ xs : List ℝ, xs.length = 1 →
    (xs.map (fun v => val (bsEuropeanPrice 0 1 v 1 call))).length = 1 ∧
    ∀ i (h' : i < xs.length)
      (h'' : i < (xs.map (fun v => val (bsEuropeanPrice 0 1 v 1 call))).length),
      (xs.map (fun v => val (bsEuropeanPrice 0 1 v 1 call)))[i]
        = val (bsEuropeanPrice ((fun _ => (0 : ℝ)) i) ((fun _ => (1 : ℝ)) i) xs[i]
            ((fun _ => (1 : ℝ)) i) call) :=
  map_elementwise _ 1

/-- **A concrete instance on which every hypothesis of `implied_vol_roundtrip` holds, including
`hok`.**  One element, at the money (`s = 0`), `t = K = 1`, true volatility `1/5`, bracket
`[1/100, 2]`, `precision = 1/100`, `max_iter = 8` (`1.99 / 2⁸ ≤ 1/100`), call or put: the model's
`bisect` returns some `res`, `res` has one element and it is within `1/100` of `1/5`. -/
example (call : Bool) :
    ∃ res : List ℝ,
      bisect (fun xs => xs.map (fun v => val (bsEuropeanPrice 0 1 v 1 call)))
        [val (bsEuropeanPrice 0 1 (1 / 5) 1 call)] [1 / 100] [2] (1 / 100) 8 = .ok res ∧
      ∃ h : 0 < res.length, (1 : ℝ) / 5 ≤ res[0] ∧ res[0] - 1 / 5 ≤ 1 / 100 := by
  have hfn := map_elementwise (fun v => val (bsEuropeanPrice 0 1 v 1 call)) 1
  have hlt : allLt [(1 : ℝ) / 100] [2] = true := by norm_num [allLt]
  obtain ⟨res, hok⟩ := C19.bisect_ok_of_maxIter 1
    (fun _ v => val (bsEuropeanPrice 0 1 v 1 call))
    (fun xs => xs.map (fun v => val (bsEuropeanPrice 0 1 v 1 call)))
    [val (bsEuropeanPrice 0 1 (1 / 5) 1 call)] [1 / 100] [2] (1 / 100) 8 (2 - 1 / 100)
    rfl rfl rfl hfn hlt (by simp [maxWidth, maxL]) (by norm_num)
  obtain ⟨hr, h⟩ := implied_vol_roundtrip 1 (fun _ => 0) (fun _ => 1) (fun _ => 1)
    (fun _ => 1 / 5) call _ _ _ _ _ _ res rfl rfl rfl
    (fun _ _ => one_pos) (fun _ _ => one_pos) hfn hlt
    (fun i h1 h2 => by
      have hi : i = 0 := by simpa using h1
      subst hi; norm_num)
    (fun i h3 => by
      have hi : i = 0 := by simpa using h3
      subst hi; rfl)
    hok
  exact ⟨res, hok, by omega, h 0 (by omega)⟩

/-- the same for the lookback call, running maximum 10 % above the strike (`m = 1/10`, second
branch of the formula; any other `m` works as well) -/
example :
    ∃ res : List ℝ,
      bisect (fun xs => xs.map (fun v => val (bsLookbackPrice 0 (1 / 10) 1 v 1)))
        [val (bsLookbackPrice 0 (1 / 10) 1 (1 / 5) 1)] [1 / 100] [2] (1 / 100) 8 = .ok res ∧
      ∃ h : 0 < res.length, (1 : ℝ) / 5 ≤ res[0] ∧ res[0] - 1 / 5 ≤ 1 / 100 := by
  have hfn := map_elementwise (fun v => val (bsLookbackPrice 0 (1 / 10) 1 v 1)) 1
  have hlt : allLt [(1 : ℝ) / 100] [2] = true := by norm_num [allLt]
  obtain ⟨res, hok⟩ := C19.bisect_ok_of_maxIter 1
    (fun _ v => val (bsLookbackPrice 0 (1 / 10) 1 v 1))
    (fun xs => xs.map (fun v => val (bsLookbackPrice 0 (1 / 10) 1 v 1)))
    [val (bsLookbackPrice 0 (1 / 10) 1 (1 / 5) 1)] [1 / 100] [2] (1 / 100) 8 (2 - 1 / 100)
    rfl rfl rfl hfn hlt (by simp [maxWidth, maxL]) (by norm_num)
  obtain ⟨hr, h⟩ := lookback_implied_vol_roundtrip 1 (fun _ => 0) (fun _ => 1 / 10) (fun _ => 1)
    (fun _ => 1) (fun _ => 1 / 5) _ _ _ _ _ _ res rfl rfl rfl
    (fun _ _ => one_pos) (fun _ _ => one_pos) hfn hlt
    (fun i h1 h2 => by
      have hi : i = 0 := by simpa using h1
      subst hi; norm_num)
    (fun i h3 => by
      have hi : i = 0 := by simpa using h3
      subst hi; rfl)
    hok
  exact ⟨res, hok, by omega, h 0 (by omega)⟩

end PfVerif.C19IV
