/-
  C01, second sentence — the Hedger's P&L and portfolio value are the self-financing wealth
  identity evaluated on the hedging instruments' current prices, the hedge the Hedger computes, the
  instruments' cost rates and the derivative's (clause-adjusted) payoff.

  About `hedgerPL` / `hedgerPortfolio` (Model/HedgerPL.lean), the composition
  market → features → module → hedge → transpose → `plPath` that the driver op "hedger_pl" executes.
-/
import PfVerif.Model.HedgerPL
import PfVerif.Props.C01
import PfVerif.Props.C02

/-! ### helper lemmas (not property theorems) -/
namespace PfVerif.C01HedgerAux
open PfVerif PfVerif.C01 PfVerif.C02Aux

theorem ok_bind {ε β γ : Type} (a : β) (f : β → Except ε γ) : ((Except.ok a : Except ε β) >>= f) = f a :=
  rfl

theorem colAt_eq (k : ℕ) (rows : List (List ℝ)) (h : ∀ r ∈ rows, k < r.length) :
    colAt k rows = .ok (rows.map (fun r => r.getD k 0)) := by
  induction rows with
  | nil => rfl
  | cons r rest ih =>
    have hk : k < r.length := h r (by simp)
    have ih' := ih (fun r' hr' => h r' (by simp [hr']))
    simp only [colAt, idx, List.getElem?_eq_getElem hk, ok_bind, ih', List.map_cons,
      List.getD_eq_getElem?_getD, Option.getD_some]
    rfl

theorem colsFrom_eq (rows : List (List ℝ)) (H : ℕ) (hr : ∀ r ∈ rows, r.length = H) (c k : ℕ)
    (hk : k + c ≤ H) :
    colsFrom rows c k = .ok (seqL (fun i => rows.map (fun r => r.getD i 0)) k c) := by
  induction c generalizing k with
  | zero => rfl
  | succ c ih =>
    have h1 := colAt_eq k rows (fun r hr' => by rw [hr r hr']; omega)
    simp only [colsFrom, h1, ok_bind, ih (k + 1) (by omega), seqL_succ]
    rfl

theorem map_eq_seqL {β : Type} (f : List ℝ → β) (rows : List (List ℝ)) :
    rows.map f = seqL (fun t => f (rows.getD t [])) 0 rows.length := by
  apply List.ext_getElem
  · simp
  · intro i h1 h2
    simp only [List.length_map] at h1
    simp [seqL, List.getD_eq_getElem?_getD, List.getElem?_eq_getElem h1]

/-- a rectangular nested list is the `mat` of its own entries -/
theorem eq_mat_getD (H T : ℕ) (xs : List (List ℝ)) (hH : xs.length = H)
    (hT : ∀ r ∈ xs, r.length = T) : xs = mat (fun h t => (xs.getD h []).getD t 0) H T := by
  apply List.ext_getElem
  · simp [mat, hH]
  · intro i h1 h2
    have hr : xs[i].length = T := hT _ (List.getElem_mem h1)
    apply List.ext_getElem
    · simp [mat, seqL, hr]
    · intro j h3 h4
      simp [mat, seqL, List.getD_eq_getElem?_getD, List.getElem?_eq_getElem h1,
        List.getElem?_eq_getElem h3]

theorem eq_seqL_getD (xs : List ℝ) : xs = seqL (fun i => xs.getD i 0) 0 xs.length := by
  apply List.ext_getElem
  · simp
  · intro i h1 h2
    simp [seqL, List.getD_eq_getElem?_getD, List.getElem?_eq_getElem h1]

theorem all_length_iff (rows : List (List ℝ)) (H : ℕ) :
    rows.all (fun r => r.length == H) = true ↔ ∀ r ∈ rows, r.length = H := by
  simp [List.all_eq_true]

/-- on a hedge whose rows all have `H` entries the transposition succeeds and is the matrix of
the entries `(t, h) ↦ rows[t][h]` -/
theorem transposeHT_eq (rows : List (List ℝ)) (H : ℕ) (hr : ∀ r ∈ rows, r.length = H) :
    transposeHT H rows = .ok (mat (fun h t => (rows.getD t []).getD h 0) H rows.length) := by
  unfold transposeHT
  rw [if_pos ((all_length_iff rows H).2 hr), colsFrom_eq rows H hr H 0 (by omega)]
  unfold mat
  congr 1
  simp only [seqL]
  apply List.map_congr_left
  intro h _
  exact map_eq_seqL (fun r => r.getD h 0) rows

theorem transposeHT_ok {rows u : List (List ℝ)} {H : ℕ} (h : transposeHT H rows = .ok u) :
    ∀ r ∈ rows, r.length = H := by
  unfold transposeHT at h
  split at h
  · rename_i hc; exact (all_length_iff rows H).1 hc
  · cases h

theorem stackPrices_eq {hs : List (HedgeInstr ℝ)} {n : ℕ} (hne : hs ≠ [])
    (hl : ∀ x ∈ hs, x.src.prices.length = n) :
    stackPrices hs = .ok (hs.map (fun x => x.src.prices)) ∧
      nSteps (hs.map (fun x => x.src.prices)) = n := by
  cases hs with
  | nil => exact absurd rfl hne
  | cons x rest =>
    have hx : x.src.prices.length = n := hl x (by simp)
    constructor
    · simp only [stackPrices]
      rw [if_pos]
      simp only [List.all_eq_true, beq_iff_eq]
      intro y hy
      rw [hx]; exact hl y (by simp [hy])
    · simp [nSteps, hx]

theorem stackPrices_ok {hs : List (HedgeInstr ℝ)} {p : List (List ℝ)} (h : stackPrices hs = .ok p) :
    hs ≠ [] ∧ p = hs.map (fun x => x.src.prices) ∧ ∀ x ∈ hs, x.src.prices.length = nSteps p := by
  cases hs with
  | nil => cases h
  | cons x rest =>
    simp only [stackPrices] at h
    split at h
    · rename_i hc
      simp only [List.all_eq_true, beq_iff_eq] at hc
      cases h
      refine ⟨by simp, rfl, ?_⟩
      intro y hy
      rcases List.mem_cons.1 hy with rfl | hy
      · simp [nSteps]
      · simpa [nSteps] using hc y hy
    · cases h

/-- `pl` with a payoff is `pl` without it, minus the payoff -/
theorem plPath_sub_payoff (spot unit : List (List ℝ)) (c : List ℝ) (z : ℝ) (first : Bool) :
    plPath spot unit (some c) (some z) first = plPath spot unit (some c) none first - z := by
  unfold plPath
  cases first <;> simp <;> ring

theorem hedgeLoop_outputs (g : List ℝ → List ℝ) (fs : List (Feature ℝ)) (m : Market ℝ) :
    ∀ (k j : ℕ) (prev : List ℝ) (outs : List (List ℝ)),
      hedgeLoop g fs m k j prev = .ok outs → ∀ r ∈ outs, ∃ x, r = g x := by
  intro k
  induction k with
  | zero => intro j prev outs h; simp only [hedgeLoop, Except.ok.injEq] at h; simp [← h]
  | succ k ih =>
    intro j prev outs h
    unfold hedgeLoop at h
    obtain ⟨x, _, h⟩ := bind_ok h
    obtain ⟨rest, hrest, h⟩ := bind_ok h
    have := pure_ok h
    subst this
    intro r hr
    rcases List.mem_cons.1 hr with rfl | hr
    · exact ⟨x, rfl⟩
    · exact ih _ _ _ hrest r hr

/-- every row of a computed hedge is an output of the hedging module -/
theorem computeHedge_outputs (g : List ℝ → List ℝ) (fs : List (Feature ℝ)) {m : Market ℝ}
    {n hh : ℕ} {rows : List (List ℝ)} (h : computeHedge g fs m n hh = .ok rows) :
    ∀ r ∈ rows, ∃ x, r = g x := by
  unfold computeHedge at h
  split at h
  · obtain ⟨outs, ho, h⟩ := bind_ok h
    obtain ⟨rest, l, e1, e2⟩ := appendLast_ok h
    have hall := hedgeLoop_outputs g fs m _ _ _ _ ho
    subst e1 e2
    intro r hr
    apply hall
    simp only [List.mem_append, List.mem_cons, List.not_mem_nil, or_false] at hr ⊢
    tauto
  · obtain ⟨x, _, h⟩ := bind_ok h
    obtain ⟨rest, a, b, e1, e2⟩ := dupLast_ok _ _ h
    subst e2
    intro r hr
    have : r ∈ x.map g := by
      rw [e1]
      simp only [List.mem_append, List.mem_cons, List.not_mem_nil, or_false] at hr ⊢
      tauto
    obtain ⟨y, _, rfl⟩ := List.mem_map.1 this
    exact ⟨y, rfl⟩

theorem computeHedge_width (g : List ℝ → List ℝ) {H : ℕ} (hg : ∀ x, (g x).length = H)
    (fs : List (Feature ℝ)) {m : Market ℝ} {n hh : ℕ} {rows : List (List ℝ)}
    (h : computeHedge g fs m n hh = .ok rows) : ∀ r ∈ rows, r.length = H := by
  intro r hr
  obtain ⟨x, rfl⟩ := computeHedge_outputs g fs h r hr
  exact hg x

end PfVerif.C01HedgerAux

namespace PfVerif.C01Hedger
open PfVerif PfVerif.C01 PfVerif.C02Aux PfVerif.C01HedgerAux Finset

/-- entry `(t, h)` of a `T × H` hedge as `compute_hedge` returns it (rows = time steps) -/
def entry (rows : List (List ℝ)) (h t : ℕ) : ℝ := (rows.getD t []).getD h 0

/-- the price of hedging instrument `h` at time `t`: `hedge[h].spot[t]` (for a listed derivative its
pricer on the underlier's current row) -/
def priceAt (hs : List (HedgeInstr ℝ)) (h t : ℕ) : ℝ :=
  ((hs.map (fun x => x.src.prices)).getD h []).getD t 0

/-- `hedge[h].cost` -/
def costAt (hs : List (HedgeInstr ℝ)) (h : ℕ) : ℝ := (hs.map (fun x => x.cost)).getD h 0

private theorem costs_eq (hs : List (HedgeInstr ℝ)) :
    hs.map (fun x => x.cost) = seqL (costAt hs) 0 hs.length := by
  have := eq_seqL_getD (hs.map (fun x => x.cost))
  rw [List.length_map] at this
  exact this

/-- what a successful `hedgerPL` / `hedgerPortfolio` consists of: `H ≥ 1` instruments whose price
series all have `T + 1 ≥ 2` points, a hedge of `T + 1` rows with `H` entries each -/
structure Parts (g : List ℝ → List ℝ) (fs : List (Feature ℝ)) (m : Market ℝ)
    (hs : List (HedgeInstr ℝ)) (T : ℕ) (rows : List (List ℝ)) : Prop where
  nonempty : 1 ≤ hs.length
  periods : 1 ≤ T
  prices_len : ∀ x ∈ hs, x.src.prices.length = T + 1
  hedge : computeHedge g fs m (T + 1) hs.length = .ok rows
  rows_len : rows.length = T + 1
  rows_width : ∀ r ∈ rows, r.length = hs.length

/-- the two tensors handed to `pl` are the price matrix and the transposed hedge -/
theorem hedgerSpotUnit_of_parts {g : List ℝ → List ℝ} {fs : List (Feature ℝ)} {m : Market ℝ}
    {hs : List (HedgeInstr ℝ)} {T : ℕ} {rows : List (List ℝ)} (P : Parts g fs m hs T rows) :
    hedgerSpotUnit g fs m hs
      = .ok (mat (priceAt hs) hs.length (T + 1), mat (entry rows) hs.length (T + 1)) := by
  have hne : hs ≠ [] := by
    intro h; have := P.nonempty; simp [h] at this
  obtain ⟨h1, h2⟩ := stackPrices_eq hne P.prices_len
  have h3 := transposeHT_eq rows hs.length P.rows_width
  rw [P.rows_len] at h3
  have h4 : hs.map (fun x => x.src.prices) = mat (priceAt hs) hs.length (T + 1) :=
    eq_mat_getD hs.length (T + 1) _ (by simp) (by
      intro r hr
      obtain ⟨x, hx, rfl⟩ := List.mem_map.1 hr
      exact P.prices_len x hx)
  unfold hedgerSpotUnit
  rw [h1, ok_bind, h2, P.hedge, ok_bind, h3, ok_bind, h4]
  rfl

/-- a successful run determines its parts -/
theorem parts_of_hedgerSpotUnit {g : List ℝ → List ℝ} {fs : List (Feature ℝ)} {m : Market ℝ}
    {hs : List (HedgeInstr ℝ)} {su : List (List ℝ) × List (List ℝ)}
    (h : hedgerSpotUnit g fs m hs = .ok su) : ∃ T rows, Parts g fs m hs T rows := by
  unfold hedgerSpotUnit at h
  obtain ⟨prices, h1, h⟩ := bind_ok h
  obtain ⟨rows, h2, h⟩ := bind_ok h
  obtain ⟨units, h3, _⟩ := bind_ok h
  obtain ⟨hne, _, hlen⟩ := stackPrices_ok h1
  obtain ⟨hl, hn⟩ := PfVerif.C02.computeHedge_length g fs h2
  have hw := transposeHT_ok h3
  refine ⟨nSteps prices - 1, rows, ?_, by omega, ?_, ?_, ?_, hw⟩
  · cases hs with
    | nil => exact absurd rfl hne
    | cons _ _ => simp
  · intro x hx; rw [hlen x hx]; omega
  · rw [show nSteps prices - 1 + 1 = nSteps prices by omega]; exact h2
  · omega

/-- **C01, Hedger level (P&L).**  Whenever `Hedger.compute_pl` succeeds on a path, there are
`H ≥ 1` hedging instruments with `T + 1 ≥ 2` time points each, and its result is the wealth
identity on `S h t` = the current price of instrument `h` at `t`, `δ h t` = the `(t, h)` entry of
the hedge `compute_hedge` returns, `c h` = the instrument's cost rate, and `Z` =
`derivative.payoff()` (payoff function AND clauses); both values of the first-cost flag. -/
theorem hedgerPL_eq_wealth (g : List ℝ → List ℝ) (fs : List (Feature ℝ)) (m : Market ℝ)
    (hs : List (HedgeInstr ℝ)) (p : PayoffSpec ℝ) (reg : List (String × Clause ℝ)) (first : Bool)
    (x : ℝ) (h : hedgerPL g fs m hs p reg first = .ok x) :
    ∃ T rows Z, Parts g fs m hs T rows ∧ derivPayoff p reg m.spot = .ok Z ∧
      x = wealth hs.length T (priceAt hs) (entry rows) (costAt hs) Z first := by
  unfold hedgerPL at h
  obtain ⟨su, h1, h⟩ := bind_ok h
  obtain ⟨Z, h2, h⟩ := bind_ok h
  obtain ⟨T, rows, P⟩ := parts_of_hedgerSpotUnit h1
  refine ⟨T, rows, Z, P, h2, ?_⟩
  rw [hedgerSpotUnit_of_parts P] at h1
  cases h1
  have hc := costs_eq hs
  have := pure_ok h
  rw [← this, hc, plPath_eq_wealth]

/-- conversely: the parts make `compute_pl` succeed with exactly this value (so the theorem above
is not vacuous for any well-formed input, and the value is determined by the parts) -/
theorem hedgerPL_of_parts {g : List ℝ → List ℝ} {fs : List (Feature ℝ)} {m : Market ℝ}
    {hs : List (HedgeInstr ℝ)} {T : ℕ} {rows : List (List ℝ)} (P : Parts g fs m hs T rows)
    (p : PayoffSpec ℝ) (reg : List (String × Clause ℝ)) (first : Bool) {Z : ℝ}
    (hZ : derivPayoff p reg m.spot = .ok Z) :
    hedgerPL g fs m hs p reg first
      = .ok (wealth hs.length T (priceAt hs) (entry rows) (costAt hs) Z first) := by
  have hc := costs_eq hs
  unfold hedgerPL
  rw [hedgerSpotUnit_of_parts P, ok_bind, hZ, ok_bind, hc]
  show Except.ok _ = _
  rw [plPath_eq_wealth]

/-- **C01, Hedger level (portfolio value).**  `Hedger.compute_portfolio` is the same quantity with
`Z = 0`. -/
theorem hedgerPortfolio_eq (g : List ℝ → List ℝ) (fs : List (Feature ℝ)) (m : Market ℝ)
    (hs : List (HedgeInstr ℝ)) (first : Bool) (v : ℝ)
    (h : hedgerPortfolio g fs m hs first = .ok v) :
    ∃ T rows, Parts g fs m hs T rows ∧
      v = wealth hs.length T (priceAt hs) (entry rows) (costAt hs) 0 first := by
  unfold hedgerPortfolio at h
  obtain ⟨su, h1, h⟩ := bind_ok h
  obtain ⟨T, rows, P⟩ := parts_of_hedgerSpotUnit h1
  refine ⟨T, rows, P, ?_⟩
  rw [hedgerSpotUnit_of_parts P] at h1
  cases h1
  have hc := costs_eq hs
  have := pure_ok h
  rw [← this, hc, plPath_nopayoff]

theorem hedgerPortfolio_of_parts {g : List ℝ → List ℝ} {fs : List (Feature ℝ)} {m : Market ℝ}
    {hs : List (HedgeInstr ℝ)} {T : ℕ} {rows : List (List ℝ)} (P : Parts g fs m hs T rows)
    (first : Bool) :
    hedgerPortfolio g fs m hs first
      = .ok (wealth hs.length T (priceAt hs) (entry rows) (costAt hs) 0 first) := by
  have hc := costs_eq hs
  unfold hedgerPortfolio
  rw [hedgerSpotUnit_of_parts P, ok_bind, hc]
  show Except.ok _ = _
  rw [plPath_nopayoff]

/-- **P&L = portfolio value − payoff**, the payoff being `derivative.payoff()` with its clauses. -/
theorem hedgerPL_eq_portfolio_sub_payoff (g : List ℝ → List ℝ) (fs : List (Feature ℝ))
    (m : Market ℝ) (hs : List (HedgeInstr ℝ)) (p : PayoffSpec ℝ) (reg : List (String × Clause ℝ))
    (first : Bool) (x : ℝ) (h : hedgerPL g fs m hs p reg first = .ok x) :
    ∃ v Z, hedgerPortfolio g fs m hs first = .ok v ∧ derivPayoff p reg m.spot = .ok Z ∧
      x = v - Z := by
  unfold hedgerPL at h
  obtain ⟨su, h1, h⟩ := bind_ok h
  obtain ⟨Z, h2, h⟩ := bind_ok h
  refine ⟨plPath su.1 su.2 (some (hs.map (fun h => h.cost))) none first, Z, ?_, h2, ?_⟩
  · unfold hedgerPortfolio
    rw [h1, ok_bind]
    rfl
  · rw [← pure_ok h, plPath_sub_payoff]

/-- the portfolio value does not depend on the derivative's payoff at all, and succeeds whenever
the P&L does; the P&L fails exactly when the portfolio or the payoff fails -/
theorem hedgerPL_ok_iff (g : List ℝ → List ℝ) (fs : List (Feature ℝ))
    (m : Market ℝ) (hs : List (HedgeInstr ℝ)) (p : PayoffSpec ℝ) (reg : List (String × Clause ℝ))
    (first : Bool) :
    (∃ x, hedgerPL g fs m hs p reg first = .ok x) ↔
      (∃ v, hedgerPortfolio g fs m hs first = .ok v) ∧ ∃ Z, derivPayoff p reg m.spot = .ok Z := by
  constructor
  · rintro ⟨x, h⟩
    obtain ⟨v, Z, h1, h2, _⟩ := hedgerPL_eq_portfolio_sub_payoff g fs m hs p reg first x h
    exact ⟨⟨v, h1⟩, ⟨Z, h2⟩⟩
  · rintro ⟨⟨v, h1⟩, ⟨Z, h2⟩⟩
    obtain ⟨T, rows, P, _⟩ := hedgerPortfolio_eq g fs m hs first v h1
    exact ⟨_, hedgerPL_of_parts P p reg first h2⟩

/-! ### no trade at maturity -/

/-- the wealth identity with the cost sum running over the first `T − 1` position changes only -/
noncomputable def wealthNoTradeAtMaturity (H T : ℕ) (S δ : ℕ → ℕ → ℝ) (c : ℕ → ℝ) (Z : ℝ)
    (first : Bool) : ℝ :=
  -Z + ∑ h ∈ range H, ∑ t ∈ range T, δ h t * (S h (t + 1) - S h t)
    - ∑ h ∈ range H, ∑ t ∈ range (T - 1), c h * |δ h (t + 1) - δ h t| * S h (t + 1)
    - (if first then ∑ h ∈ range H, c h * |δ h 0| * S h 0 else 0)

/-- the hedge the Hedger computes holds the same position at the last two time points (C02
`last_eq_prev`), for every instrument -/
theorem hedge_last_eq_prev {g : List ℝ → List ℝ} {fs : List (Feature ℝ)} {m : Market ℝ}
    {hs : List (HedgeInstr ℝ)} {T : ℕ} {rows : List (List ℝ)} (P : Parts g fs m hs T rows)
    (h : ℕ) : entry rows h T = entry rows h (T - 1) := by
  obtain ⟨x, rest, e⟩ := PfVerif.C02.last_eq_prev g fs P.hedge
  have hl := P.rows_len
  have hT := P.periods
  subst e
  simp only [List.length_append, List.length_cons, List.length_nil] at hl
  have e1 : T = rest.length + 1 := by omega
  have e2 : T - 1 = rest.length := by omega
  unfold entry
  rw [e2]
  rw [e1]
  simp [List.getD_eq_getElem?_getD]

/-- if the last two positions coincide the wealth identity charges nothing in the last period -/
theorem wealth_eq_noTradeAtMaturity (H T : ℕ) (S δ : ℕ → ℕ → ℝ) (c : ℕ → ℝ) (Z : ℝ)
    (first : Bool) (hT : 1 ≤ T) (hδ : ∀ h, δ h T = δ h (T - 1)) :
    wealth H T S δ c Z first = wealthNoTradeAtMaturity H T S δ c Z first := by
  obtain ⟨T', rfl⟩ : ∃ T', T = T' + 1 := ⟨T - 1, by omega⟩
  unfold wealth wealthNoTradeAtMaturity
  simp only [Finset.sum_sub_distrib, Nat.add_sub_cancel]
  have : ∀ h, ∑ t ∈ range (T' + 1), c h * |δ h (t + 1) - δ h t| * S h (t + 1)
      = ∑ t ∈ range T', c h * |δ h (t + 1) - δ h t| * S h (t + 1) := by
    intro h
    rw [Finset.sum_range_succ]
    have := hδ h
    simp only [Nat.add_sub_cancel] at this
    rw [this]
    simp
  simp only [this]
  ring

/-- **No trade at maturity, Hedger level.**  In the Hedger's P&L the cost of the last period
vanishes: the cost sum runs over the first `T − 1` position changes (and the opening trade). -/
theorem hedgerPL_eq_wealth_noTradeAtMaturity (g : List ℝ → List ℝ) (fs : List (Feature ℝ))
    (m : Market ℝ) (hs : List (HedgeInstr ℝ)) (p : PayoffSpec ℝ) (reg : List (String × Clause ℝ))
    (first : Bool) (x : ℝ) (h : hedgerPL g fs m hs p reg first = .ok x) :
    ∃ T rows Z, Parts g fs m hs T rows ∧ derivPayoff p reg m.spot = .ok Z ∧
      x = wealthNoTradeAtMaturity hs.length T (priceAt hs) (entry rows) (costAt hs) Z first := by
  obtain ⟨T, rows, Z, P, hZ, e⟩ := hedgerPL_eq_wealth g fs m hs p reg first x h
  refine ⟨T, rows, Z, P, hZ, ?_⟩
  rw [e, wealth_eq_noTradeAtMaturity _ _ _ _ _ _ _ P.periods (hedge_last_eq_prev P)]

theorem hedgerPortfolio_eq_noTradeAtMaturity (g : List ℝ → List ℝ) (fs : List (Feature ℝ))
    (m : Market ℝ) (hs : List (HedgeInstr ℝ)) (first : Bool) (v : ℝ)
    (h : hedgerPortfolio g fs m hs first = .ok v) :
    ∃ T rows, Parts g fs m hs T rows ∧
      v = wealthNoTradeAtMaturity hs.length T (priceAt hs) (entry rows) (costAt hs) 0 first := by
  obtain ⟨T, rows, P, e⟩ := hedgerPortfolio_eq g fs m hs first v h
  refine ⟨T, rows, P, ?_⟩
  rw [e, wealth_eq_noTradeAtMaturity _ _ _ _ _ _ _ P.periods (hedge_last_eq_prev P)]

/-! ### listed hedges: the pricer on the underlier's CURRENT row -/

/-- the price row of a listed derivative is its pricer applied to the underlier row it is given -/
theorem listed_prices (a b : ℝ) (row : List ℝ) :
    (PriceSrc.listed a b row).prices = row.map (fun s => s * a + b) := rfl

/-- …pointwise: replacing the underlier row by `row'` makes the price at `t` the pricer of
`row'[t]` -/
theorem listed_prices_getElem? (a b : ℝ) (row' : List ℝ) (t : ℕ) :
    (PriceSrc.listed a b row').prices[t]? = (row'[t]?).map (fun s => s * a + b) := by
  simp [PriceSrc.prices]

/-- a stale price row is observable: with a non-degenerate pricer (`a ≠ 0`) the price rows of two
different underlier rows differ (this is what the harness predicate `hedger.hedge-spot:stale`
looks for) -/
theorem listed_prices_injective (a b : ℝ) (ha : a ≠ 0) (row row' : List ℝ)
    (h : (PriceSrc.listed a b row).prices = (PriceSrc.listed a b row').prices) : row = row' := by
  have hinj : Function.Injective (fun s : ℝ => s * a + b) := by
    intro s s' hs
    have : s * a = s' * a := by simpa using hs
    exact mul_right_cancel₀ ha this
  exact List.map_injective_iff.2 hinj h

/-- the price that enters the Hedger's wealth identity for a listed hedging instrument at `(h, t)`
is the pricer of its underlier's current value at `t` -/
theorem priceAt_listed (hs : List (HedgeInstr ℝ)) (h t : ℕ) (a b c : ℝ) (row : List ℝ)
    (hh : hs[h]? = some ⟨.listed a b row, c⟩) (s : ℝ) (ht : row[t]? = some s) :
    priceAt hs h t = s * a + b := by
  simp [priceAt, List.getD_eq_getElem?_getD, hh, PriceSrc.prices, ht]

theorem priceAt_primary (hs : List (HedgeInstr ℝ)) (h t : ℕ) (c : ℝ) (row : List ℝ)
    (hh : hs[h]? = some ⟨.primary row, c⟩) (s : ℝ) (ht : row[t]? = some s) :
    priceAt hs h t = s := by
  simp [priceAt, List.getD_eq_getElem?_getD, hh, PriceSrc.prices, ht]

/-! ### the payoff that enters is `derivative.payoff()` (clauses applied), and non-vacuity

A concrete path with `H = 2` hedging instruments (a primary one and a listed derivative priced
`2 S + 1` on another underlier), `T = 2` periods, non-zero cost rates `1/2`, `1/4`, the module
`[s] ↦ [s, 2 s]` on the feature `underlier_spot`, and a European call of strike 1 capped at 1. -/

noncomputable def exG : List ℝ → List ℝ := fun x => match x with
  | [s] => [s, 2 * s]
  | _ => []
noncomputable def exFs : List (Feature ℝ) := [.base (.underlierSpot false)]
noncomputable def exM : Market ℝ := ⟨[1, 2, 4], [], [], [], 1, 1, []⟩
noncomputable def exHs : List (HedgeInstr ℝ) :=
  [⟨.primary [1, 2, 4], 1 / 2⟩, ⟨.listed 2 1 [1, 3, 2], 1 / 4⟩]
noncomputable def exP : PayoffSpec ℝ := ⟨.european, true, 1⟩
noncomputable def exReg : List (String × Clause ℝ) := [("cap", .cap 1)]

/-- prices (the listed row is `2·[1,3,2] + 1`) and transposed hedge (last position repeated) -/
theorem ex_spotUnit : hedgerSpotUnit exG exFs exM exHs
    = .ok ([[1, 2, 4], [3, 7, 5]], [[1, 2, 2], [2, 4, 4]]) := by
  simp [hedgerSpotUnit, exG, exFs, exM, exHs, stackPrices, nSteps, PriceSrc.prices, computeHedge,
    Feature.stateDependent, BaseFeature.stateDependent, inputsAll, Feature.getAll,
    BaseFeature.getAll, logIf, dupLast, transposeHT, colsFrom, colAt, idx, bind, Except.bind, pure,
    Except.pure]
  norm_num

/-- **the clause-adjusted payoff differs from the raw payoff formula**: the capped call pays 1
where `payoff_fn` alone gives 3 -/
theorem ex_clause_payoff_differs :
    exP.eval exM.spot = .ok 3 ∧ derivPayoff exP exReg exM.spot = .ok 1 ∧
      derivPayoff exP [] exM.spot = exP.eval exM.spot := by
  refine ⟨?_, ?_, ?_⟩
  · simp [exP, exM, PayoffSpec.eval, europeanPayoff, lastL, reluS]; norm_num
  · simp [derivPayoff, exReg, exP, exM, PayoffSpec.eval, europeanPayoff, lastL, reluS, applyClauses,
      Clause.apply, bind, Except.bind, pure, Except.pure]
    norm_num
  · simp [derivPayoff, exP, exM, PayoffSpec.eval, europeanPayoff, lastL, reluS, applyClauses,
      bind, Except.bind, pure, Except.pure]

/-- the portfolio value of the example: gains `5 + 0`, costs `1 + 7/2`, opening trade `1/2 + 3/2` -/
theorem ex_portfolio : hedgerPortfolio exG exFs exM exHs true = .ok (-3 / 2) := by
  unfold hedgerPortfolio
  rw [ex_spotUnit, ok_bind]
  simp [exHs, plPath, gains1, cost1, first1, zipWith3L, sumL, mulL, initL, diffL, tailL, absS,
    pure, Except.pure]
  norm_num

/-- **`hedgerPL` uses the clause-adjusted payoff**: with the cap registered the P&L is
`-3/2 - 1`; the same scenario without the clause gives `-3/2 - 3`. -/
theorem ex_hedgerPL_uses_clause_payoff :
    hedgerPL exG exFs exM exHs exP exReg true = .ok (-5 / 2) ∧
    hedgerPL exG exFs exM exHs exP [] true = .ok (-9 / 2) := by
  obtain ⟨hraw, hcap, hnil⟩ := ex_clause_payoff_differs
  have key : ∀ reg Z, derivPayoff exP reg exM.spot = .ok Z →
      hedgerPL exG exFs exM exHs exP reg true = .ok (-3 / 2 - Z) := by
    intro reg Z hZ
    obtain ⟨T, rows, P, _⟩ := hedgerPortfolio_eq _ _ _ _ _ _ ex_portfolio
    obtain ⟨x, hx⟩ := (hedgerPL_ok_iff exG exFs exM exHs exP reg true).2 ⟨⟨_, ex_portfolio⟩, ⟨Z, hZ⟩⟩
    obtain ⟨v, Z', h1, h2, e⟩ := hedgerPL_eq_portfolio_sub_payoff _ _ _ _ _ _ _ _ hx
    rw [ex_portfolio] at h1
    rw [hZ] at h2
    cases h1; cases h2
    rw [hx, e]
  constructor
  · rw [key _ _ hcap]; norm_num
  · rw [key _ _ (hnil.trans hraw)]; norm_num

/-- non-vacuity of `hedgerPL_eq_wealth` / `…_noTradeAtMaturity`: the hypothesis holds on the
example (`H = 2`, `T = 2`, non-zero costs, cap clause) and the parts are what they should be -/
example : ∃ x, hedgerPL exG exFs exM exHs exP exReg true = .ok x := ⟨_, ex_hedgerPL_uses_clause_payoff.1⟩

example : Parts exG exFs exM exHs 2 [[1, 2], [2, 4], [2, 4]] := by
  obtain ⟨T, rows, P⟩ := parts_of_hedgerSpotUnit ex_spotUnit
  have hT : T = 2 := by
    have := P.prices_len ⟨.primary [1, 2, 4], 1 / 2⟩ (by simp [exHs])
    simpa [PriceSrc.prices] using this.symm
  subst hT
  have hr : computeHedge exG exFs exM 3 2 = .ok [[1, 2], [2, 4], [2, 4]] := by
    simp [exG, exFs, exM, computeHedge, Feature.stateDependent, BaseFeature.stateDependent,
      inputsAll, Feature.getAll, BaseFeature.getAll, logIf, dupLast, bind, Except.bind, pure,
      Except.pure]
    norm_num
  have := P.hedge
  simp only [exHs, List.length_cons, List.length_nil] at this
  rw [hr] at this
  cases this
  exact P

/-- the wealth formula evaluated on the example's parts is the driver's value -/
example : wealth 2 2 (priceAt exHs) (entry [[1, 2], [2, 4], [2, 4]]) (costAt exHs) 1 true
    = -5 / 2 := by
  simp [wealth, Finset.sum_range_succ, priceAt, entry, costAt, exHs, PriceSrc.prices]
  norm_num

/-- non-vacuity in the recurrent (`prev_hedge`) branch: two instruments, the module adds the
moneyness to the previous position of the first and keeps the second at the previous first -/
example : hedgerSpotUnit (fun x => match x with
      | [s, p0, _] => [s + p0, p0]
      | _ => [])
    [.base (.moneyness false), .base .prevHedge] exM exHs
    = .ok ([[1, 2, 4], [3, 7, 5]], [[1, 3, 3], [0, 1, 1]]) := by
  simp [hedgerSpotUnit, exM, exHs, stackPrices, nSteps, PriceSrc.prices, computeHedge,
    Feature.stateDependent, BaseFeature.stateDependent, hedgeLoop, inputsAt, Feature.getAt,
    BaseFeature.getAt, idx, logIf, appendLast, lastL, transposeHT, colsFrom, colAt, bind,
    Except.bind, pure, Except.pure]
  norm_num

/-- the error side is not vacuous either: a module returning one column for two instruments is
`pl`'s "unmatched sizes" RuntimeError, an empty hedge list `torch.stack`'s -/
example : hedgerPL (fun x => x) exFs exM exHs exP exReg true = .error .runtimeError ∧
    hedgerPL exG exFs exM [] exP exReg true = .error .runtimeError := by
  constructor
  · simp [hedgerPL, hedgerSpotUnit, exFs, exM, exHs, stackPrices, nSteps, PriceSrc.prices,
      computeHedge, Feature.stateDependent, BaseFeature.stateDependent, inputsAll, Feature.getAll,
      BaseFeature.getAll, logIf, dupLast, transposeHT, bind, Except.bind, pure, Except.pure]
  · simp [hedgerPL, hedgerSpotUnit, stackPrices, bind, Except.bind]

end PfVerif.C01Hedger
