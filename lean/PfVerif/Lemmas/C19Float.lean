/-
  C19 in rounded arithmetic — the bisection with an ARBITRARY midpoint and width operation.

  Props/C19.lean is about Model/Bisect.lean at ℝ, where `(l + u) / 2` is exact and every
  iteration halves the bracket.  The code runs in float32 / float64: the midpoint is rounded, and
  when `lower` and `upper` are neighbouring floats it IS one of them; the width stops shrinking and
  a `precision` below the spacing can never be met.  Model/BisectG.lean is the same loop with the
  midpoint `mid` and the width `sub` (`sub u l` = computed `u - l`) as parameters; here it is
  instantiated at ℝ (the finite floats are a subset of ℝ; `mid`, `sub` are arbitrary functions
  ℝ → ℝ → ℝ, constrained only by the hypotheses of each theorem):

  * refinement (any carrier): with `mid l u = (l + u) / 2`, `sub u l = u - l` the generic
    definitions ARE those of Model/Bisect.lean (`bisectStepG_exact`, `maxWidthG_exact`,
    `bisectLoopG_exact`, `bisectG_exact`);
  * soundness for every `mid` with the sandwich property `l ≤ mid l u ≤ u` on the bracket
    (`bisectStepG_invariant`, `bisectLoopG_spec`, `bisectLoopG_root`,
    `bisectLoopG_root_of_strictMono`, `bisectG_increasing_spec`, `bisectG_decreasing_spec`):
    a returned value is within `P` of a true root, where `P` is any bound with
    `sub u l ≤ precision → u - l ≤ P` on the bracket (`P = precision` when the subtraction is
    exact, e.g. Sterbenz: `l ≤ u ≤ 2 l`);
  * stagnation (`bisectLoopG_stagnates`, `bisectG_stagnates_increasing`, `…_decreasing`): if for
    one element `mid a b ∈ {a, b}` (neighbouring floats), the target is strictly inside
    (`f a < t ≤ f b`) and `precision < sub b a`, the loop raises `RuntimeError` for EVERY
    `max_iter` — it never returns a value;
  * dichotomy (`bisectLoopG_error_is_runtimeError`, `bisectG_dichotomy_increasing`,
    `…_decreasing`): `RuntimeError`, or a value within `P` of the root — for every `precision`
    (0 and negative included) and every `max_iter`.

  Helpers live in `PfVerif.C19FloatAux`, the property theorems in `PfVerif.C19Float`.
-/
import PfVerif.Model.BisectG
import PfVerif.Props.C19

namespace PfVerif.C19FloatAux
open PfVerif PfVerif.C19Aux

/-! ### `maxWidthG` -/

theorem maxWidthG_ge {sub : ℝ → ℝ → ℝ} {lower upper : List ℝ} {w : ℝ}
    (h : maxWidthG sub lower upper = some w) :
    ∀ i (h1 : i < lower.length) (h2 : i < upper.length), sub upper[i] lower[i] ≤ w := by
  intro i h1 h2
  unfold maxWidthG at h
  split at h
  · exact absurd h (by simp)
  · rename_i w0 ws heq
    injection h with h; subst h
    have hlen : i < (List.zipWith (fun l u => sub u l) lower upper).length := by
      simp only [List.length_zipWith]; omega
    have hmem : (List.zipWith (fun l u => sub u l) lower upper)[i] ∈ w0 :: ws := by
      rw [← heq]; exact List.getElem_mem _
    rw [List.getElem_zipWith] at hmem
    exact maxL_ge w0 ws _ hmem

theorem maxWidthG_attained {sub : ℝ → ℝ → ℝ} {lower upper : List ℝ} {w : ℝ}
    (h : maxWidthG sub lower upper = some w) :
    ∃ j, ∃ (h1 : j < lower.length) (h2 : j < upper.length), w = sub upper[j] lower[j] := by
  unfold maxWidthG at h
  split at h
  · exact absurd h (by simp)
  · rename_i w0 ws heq
    injection h with h; subst h
    have hmem : maxL w0 ws ∈ List.zipWith (fun l u => sub u l) lower upper := by
      rw [heq]; exact maxL_mem w0 ws
    obtain ⟨j, hj, hje⟩ := List.getElem_of_mem hmem
    have hj' := hj
    simp only [List.length_zipWith] at hj'
    refine ⟨j, by omega, by omega, ?_⟩
    rw [← hje, List.getElem_zipWith]

theorem maxWidthG_isSome {sub : ℝ → ℝ → ℝ} {lower upper : List ℝ}
    (h1 : 0 < lower.length) (h2 : 0 < upper.length) :
    ∃ w, maxWidthG sub lower upper = some w := by
  cases lower with
  | nil => simp at h1
  | cons l ls =>
    cases upper with
    | nil => simp at h2
    | cons u us => exact ⟨_, rfl⟩

/-! ### unfolding equations -/

section
variable {mid sub : ℝ → ℝ → ℝ} {fn : List ℝ → List ℝ} {target : List ℝ} {precision : ℝ}
  {lower upper : List ℝ}

theorem loopG_none {fuel : ℕ} (hw : maxWidthG sub lower upper = none) :
    bisectLoopG mid sub fn target precision fuel lower upper = .error .runtimeError := by
  cases fuel <;> simp [bisectLoopG, hw]

theorem loopG_done {fuel : ℕ} {w : ℝ} (hw : maxWidthG sub lower upper = some w)
    (hp : ¬ precision < w) :
    bisectLoopG mid sub fn target precision fuel lower upper = .ok upper := by
  cases fuel <;> simp [bisectLoopG, hw, hp]

theorem loopG_zero {w : ℝ} (hw : maxWidthG sub lower upper = some w) (hp : precision < w) :
    bisectLoopG mid sub fn target precision 0 lower upper = .error .runtimeError := by
  simp [bisectLoopG, hw, hp]

theorem loopG_succ {fuel : ℕ} {w : ℝ} (hw : maxWidthG sub lower upper = some w)
    (hp : precision < w) :
    bisectLoopG mid sub fn target precision (fuel + 1) lower upper
      = bisectLoopG mid sub fn target precision fuel (bisectStepG mid fn target lower upper).1
          (bisectStepG mid fn target lower upper).2 := by
  simp [bisectLoopG, hw, hp]

theorem bisectG_inc_eq {maxIter : ℕ} (hlt : allLt lower upper = true)
    (hdec : (List.zipWith (fun a b => decide (b < a)) (fn lower) (fn upper)).all id = false) :
    bisectG mid sub fn target lower upper precision maxIter
      = bisectLoopG mid sub fn target precision maxIter lower upper := by
  unfold bisectG
  simp only [hlt, hdec]
  simp

theorem bisectG_dec_eq {maxIter : ℕ} (hlt : allLt lower upper = true)
    (hdec : (List.zipWith (fun a b => decide (b < a)) (fn lower) (fn upper)).all id = true)
    (hdec2 : (List.zipWith (fun a b => decide (b < a)) ((fn lower).map (fun y => -y))
      ((fn upper).map (fun y => -y))).all id = false) :
    bisectG mid sub fn target lower upper precision maxIter
      = bisectLoopG mid sub (fun x => (fn x).map (fun y => -y)) (target.map (fun y => -y))
          precision maxIter lower upper := by
  unfold bisectG
  simp only [hlt, hdec, hdec2]
  simp
end

/-! ### the direction test, from the element-wise description of `fn` -/

/-- some element does not decrease ⇒ the direction test is false ⇒ the loop runs on `fn` -/
theorem dirtest_false {n : ℕ} {f : ℕ → ℝ → ℝ} {fn : List ℝ → List ℝ} {lower upper : List ℝ}
    (hl : lower.length = n) (hu : upper.length = n)
    (hfn : ∀ xs : List ℝ, xs.length = n → (fn xs).length = n ∧
      ∀ i (h' : i < xs.length) (h'' : i < (fn xs).length), (fn xs)[i] = f i xs[i])
    (j : ℕ) (hj : j < n) (h : f j (lower[j]'(by omega)) ≤ f j (upper[j]'(by omega))) :
    (List.zipWith (fun a b => decide (b < a)) (fn lower) (fn upper)).all id = false := by
  obtain ⟨hfl, hgl⟩ := hfn lower hl
  obtain ⟨hfu, hgu⟩ := hfn upper hu
  refine all_zipWith_false (fun a b => b < a) j (by omega) (by omega) ?_
  show ¬ (fn upper)[j]'(by omega) < (fn lower)[j]'(by omega)
  rw [hgl j (by omega) (by omega), hgu j (by omega) (by omega)]
  exact not_lt.2 h

/-- all elements decrease (and there is one) ⇒ the test is true for `fn`, false for `-fn` -/
theorem dirtest_true {n : ℕ} {f : ℕ → ℝ → ℝ} {fn : List ℝ → List ℝ} {lower upper : List ℝ}
    (hl : lower.length = n) (hu : upper.length = n) (hn : 0 < n)
    (hfn : ∀ xs : List ℝ, xs.length = n → (fn xs).length = n ∧
      ∀ i (h' : i < xs.length) (h'' : i < (fn xs).length), (fn xs)[i] = f i xs[i])
    (hdir : ∀ i (h1 : i < lower.length) (h2 : i < upper.length), f i upper[i] < f i lower[i]) :
    (List.zipWith (fun a b => decide (b < a)) (fn lower) (fn upper)).all id = true ∧
    (List.zipWith (fun a b => decide (b < a)) ((fn lower).map (fun y => -y))
      ((fn upper).map (fun y => -y))).all id = false := by
  obtain ⟨hfl, hgl⟩ := hfn lower hl
  obtain ⟨hfu, hgu⟩ := hfn upper hu
  constructor
  · refine all_zipWith_true (fun a b => b < a) ?_
    intro i h1 h2
    show (fn upper)[i] < (fn lower)[i]
    rw [hgl i (by omega) h1, hgu i (by omega) h2]
    exact hdir i (by omega) (by omega)
  · refine all_zipWith_false (fun a b => b < a) 0 (by simp; omega) (by simp; omega) ?_
    show ¬ ((fn upper).map (fun y => -y))[0]'(by simp; omega)
      < ((fn lower).map (fun y => -y))[0]'(by simp; omega)
    rw [List.getElem_map, List.getElem_map, hgl 0 (by omega) (by omega),
      hgu 0 (by omega) (by omega)]
    have := hdir 0 (by omega) (by omega)
    intro h; linarith

end PfVerif.C19FloatAux

namespace PfVerif.C19Float
open PfVerif PfVerif.C19Aux PfVerif.C19FloatAux

/-! ### refinement: exact arithmetic is Model/Bisect.lean (any carrier) -/

section
variable {α : Type} [Add α] [Sub α] [Div α] [Neg α] [OfNat α 2] [LE α] [DecidableLE α]
  [LT α] [DecidableLT α] [Max α]

omit [Sub α] [Neg α] [Max α] in
/-- with the exact midpoint the generic step is `bisectStep` -/
theorem bisectStepG_exact (fn : List α → List α) (target lower upper : List α) :
    bisectStepG (fun l u => (l + u) / 2) fn target lower upper
      = bisectStep fn target lower upper := rfl

omit [Add α] [Div α] [Neg α] [OfNat α 2] [LE α] [DecidableLE α] [LT α] [DecidableLT α] in
/-- with the exact subtraction the generic loop condition is `maxWidth` -/
theorem maxWidthG_exact (lower upper : List α) :
    maxWidthG (fun u l => u - l) lower upper = maxWidth lower upper := rfl

omit [Neg α] in
/-- **Refinement (loop).**  Instantiated with `mid l u = (l + u) / 2` and `sub u l = u - l`
the generic loop is `bisectLoop` — for every carrier, function, fuel and bracket. -/
theorem bisectLoopG_exact (fn : List α → List α) (target : List α) (precision : α) (fuel : Nat)
    (lower upper : List α) :
    bisectLoopG (fun l u => (l + u) / 2) (fun u l => u - l) fn target precision fuel lower upper
      = bisectLoop fn target precision fuel lower upper := by
  induction fuel generalizing lower upper with
  | zero =>
    unfold bisectLoopG bisectLoop
    rw [maxWidthG_exact]
    cases maxWidth lower upper <;> rfl
  | succ k ih =>
    unfold bisectLoopG bisectLoop
    rw [maxWidthG_exact, bisectStepG_exact]
    cases maxWidth lower upper with
    | none => rfl
    | some w =>
      by_cases hp : precision < w
      · simp only [if_pos hp]; exact ih _ _
      · simp only [if_neg hp]

/-- **Refinement (`bisect`).** -/
theorem bisectG_exact (fn : List α → List α) (target lower upper : List α) (precision : α)
    (maxIter : Nat) :
    bisectG (fun l u => (l + u) / 2) (fun u l => u - l) fn target lower upper precision maxIter
      = bisect fn target lower upper precision maxIter := by
  unfold bisectG bisect
  simp only [bisectLoopG_exact]
end

/-! ### one iteration with an arbitrary midpoint -/

/-- **One iteration, element-wise**, for an arbitrary midpoint operation `mid`: with
`m = mid lower[i] upper[i]` the updates are `lower.where(fn(m) >= target, m)` and
`upper.where(fn(m) < target, m)`; lengths are kept. -/
theorem bisectStepG_spec (mid : ℝ → ℝ → ℝ) (n : ℕ) (f : ℕ → ℝ → ℝ) (fn : List ℝ → List ℝ)
    (target lower upper l' u' : List ℝ)
    (hl : lower.length = n) (hu : upper.length = n) (ht : target.length = n)
    (hfn : ∀ xs : List ℝ, xs.length = n → (fn xs).length = n ∧
      ∀ i (h' : i < xs.length) (h'' : i < (fn xs).length), (fn xs)[i] = f i xs[i])
    (hs : bisectStepG mid fn target lower upper = (l', u')) :
    l'.length = n ∧ u'.length = n ∧
    ∀ i (h1 : i < lower.length) (h2 : i < upper.length) (h3 : i < target.length)
      (h4 : i < l'.length) (h5 : i < u'.length),
      l'[i] = (if target[i] ≤ f i (mid lower[i] upper[i]) then lower[i]
               else mid lower[i] upper[i]) ∧
      u'[i] = (if f i (mid lower[i] upper[i]) < target[i] then upper[i]
               else mid lower[i] upper[i]) := by
  obtain ⟨rfl, rfl⟩ : l' = (bisectStepG mid fn target lower upper).1 ∧
      u' = (bisectStepG mid fn target lower upper).2 := by rw [hs]; exact ⟨rfl, rfl⟩
  have hm : (List.zipWith mid lower upper).length = n := by simp [hl, hu]
  obtain ⟨hlen, hget⟩ := hfn _ hm
  refine ⟨by simp [bisectStepG, hl, hu, ht, hlen], by simp [bisectStepG, hl, hu, ht, hlen], ?_⟩
  intro i h1 h2 h3 h4 h5
  have hi : i < n := hl ▸ h1
  have hfm := hget i (by rw [hm]; exact hi) (by rw [hlen]; exact hi)
  rw [List.getElem_zipWith] at hfm
  constructor
  · simp [bisectStepG, hfm]
  · simp [bisectStepG, hfm]

/-- **The bracket invariant survives any midpoint with the sandwich property.**  If
`f i lower[i] ≤ target[i] ≤ f i upper[i]`, `lower[i] ≤ upper[i]` and
`lower[i] ≤ mid lower[i] upper[i] ≤ upper[i]` (true of a correctly rounded midpoint of two
floats: rounding is monotone and the ends are floats), the same invariant holds after the
iteration, the new bracket is nested in the old one, and a strict `f i lower[i] < target[i]`
stays strict.  Nothing is assumed about `f i`. -/
theorem bisectStepG_invariant (mid : ℝ → ℝ → ℝ) (n : ℕ) (f : ℕ → ℝ → ℝ)
    (fn : List ℝ → List ℝ) (target lower upper l' u' : List ℝ)
    (hl : lower.length = n) (hu : upper.length = n) (ht : target.length = n)
    (hfn : ∀ xs : List ℝ, xs.length = n → (fn xs).length = n ∧
      ∀ i (h' : i < xs.length) (h'' : i < (fn xs).length), (fn xs)[i] = f i xs[i])
    (hmid : ∀ i (h1 : i < lower.length) (h2 : i < upper.length),
      lower[i] ≤ mid lower[i] upper[i] ∧ mid lower[i] upper[i] ≤ upper[i])
    (hinv : ∀ i (h1 : i < lower.length) (h2 : i < upper.length) (h3 : i < target.length),
      f i lower[i] ≤ target[i] ∧ target[i] ≤ f i upper[i] ∧ lower[i] ≤ upper[i])
    (hs : bisectStepG mid fn target lower upper = (l', u')) :
    ∀ i (h1 : i < lower.length) (h2 : i < upper.length) (h3 : i < target.length)
      (h4 : i < l'.length) (h5 : i < u'.length),
      (f i l'[i] ≤ target[i] ∧ target[i] ≤ f i u'[i] ∧ l'[i] ≤ u'[i]) ∧
      lower[i] ≤ l'[i] ∧ u'[i] ≤ upper[i] ∧
      (f i lower[i] < target[i] → f i l'[i] < target[i]) := by
  intro i h1 h2 h3 h4 h5
  obtain ⟨_, _, hsp⟩ := bisectStepG_spec mid n f fn target lower upper l' u' hl hu ht hfn hs
  obtain ⟨e1, e2⟩ := hsp i h1 h2 h3 h4 h5
  obtain ⟨a, b, c⟩ := hinv i h1 h2 h3
  obtain ⟨m1, m2⟩ := hmid i h1 h2
  rw [e1, e2]
  by_cases hc : target[i] ≤ f i (mid lower[i] upper[i])
  · have hc' : ¬ f i (mid lower[i] upper[i]) < target[i] := not_lt.2 hc
    simp only [if_pos hc, if_neg hc']
    exact ⟨⟨a, hc, m1⟩, le_rfl, m2, fun h => h⟩
  · have hc' : f i (mid lower[i] upper[i]) < target[i] := not_le.1 hc
    simp only [if_neg hc, if_pos hc']
    exact ⟨⟨le_of_lt hc', b, m2⟩, m1, le_rfl, fun _ => hc'⟩

/-! ### the loop: soundness for every sandwiching midpoint -/

/-- **Loop post-condition.**  `S` is the set of representable numbers (the floats of the
bracket's dtype; `fun _ => True` for a midpoint that sandwiches everywhere): the initial ends are
in `S`, `mid` maps `S × S` to `S` and satisfies `l ≤ mid l u ≤ u` for `l ≤ u` in `S` inside the
initial brackets; `sub` is ANY operation (the computed width).  If the loop returns `res` — for
any `precision` (zero, negative) and any fuel — then there is a final lower end `l'` with
`lower[i] ≤ l' ≤ res[i] ≤ upper[i]`, both in `S`, the target still bracketed
(`f i l' ≤ target[i] ≤ f i res[i]`), and the COMPUTED width meets the precision:
`sub res[i] l' ≤ precision`. -/
theorem bisectLoopG_spec (mid sub : ℝ → ℝ → ℝ) (S : ℝ → Prop) (n : ℕ) (f : ℕ → ℝ → ℝ)
    (fn : List ℝ → List ℝ)
    (target : List ℝ) (precision : ℝ) (fuel : ℕ) (lower upper res : List ℝ)
    (hl : lower.length = n) (hu : upper.length = n) (ht : target.length = n)
    (hfn : ∀ xs : List ℝ, xs.length = n → (fn xs).length = n ∧
      ∀ i (h' : i < xs.length) (h'' : i < (fn xs).length), (fn xs)[i] = f i xs[i])
    (hS0 : ∀ i (h1 : i < lower.length) (h2 : i < upper.length), S lower[i] ∧ S upper[i])
    (hSmid : ∀ l u : ℝ, S l → S u → S (mid l u))
    (hmid : ∀ i (h1 : i < lower.length) (h2 : i < upper.length) (l u : ℝ), S l → S u →
      lower[i] ≤ l → l ≤ u → u ≤ upper[i] → l ≤ mid l u ∧ mid l u ≤ u)
    (hinv : ∀ i (h1 : i < lower.length) (h2 : i < upper.length) (h3 : i < target.length),
      f i lower[i] ≤ target[i] ∧ target[i] ≤ f i upper[i] ∧ lower[i] ≤ upper[i])
    (hok : bisectLoopG mid sub fn target precision fuel lower upper = .ok res) :
    res.length = n ∧ 1 ≤ n ∧
    ∀ i (h1 : i < lower.length) (h2 : i < upper.length) (h3 : i < target.length)
      (h4 : i < res.length),
      ∃ l', S l' ∧ S res[i] ∧ lower[i] ≤ l' ∧ l' ≤ res[i] ∧ res[i] ≤ upper[i] ∧
        f i l' ≤ target[i] ∧ target[i] ≤ f i res[i] ∧ sub res[i] l' ≤ precision := by
  have done : ∀ (lower upper : List ℝ) (w : ℝ), lower.length = n → upper.length = n →
      (∀ i (h1 : i < lower.length) (h2 : i < upper.length), S lower[i] ∧ S upper[i]) →
      (∀ i (h1 : i < lower.length) (h2 : i < upper.length) (h3 : i < target.length),
        f i lower[i] ≤ target[i] ∧ target[i] ≤ f i upper[i] ∧ lower[i] ≤ upper[i]) →
      maxWidthG sub lower upper = some w → ¬ precision < w →
      upper.length = n ∧ 1 ≤ n ∧
      ∀ i (h1 : i < lower.length) (h2 : i < upper.length) (h3 : i < target.length)
        (h4 : i < upper.length),
        ∃ l', S l' ∧ S upper[i] ∧ lower[i] ≤ l' ∧ l' ≤ upper[i] ∧ upper[i] ≤ upper[i] ∧
          f i l' ≤ target[i] ∧ target[i] ≤ f i upper[i] ∧ sub upper[i] l' ≤ precision := by
    intro lower upper w hl hu hS hinv hw hp
    obtain ⟨j, hj1, _, _⟩ := maxWidthG_attained hw
    refine ⟨hu, by omega, ?_⟩
    intro i h1 h2 h3 _
    obtain ⟨a, b, c⟩ := hinv i h1 h2 h3
    have := maxWidthG_ge hw i h1 h2
    exact ⟨lower[i], (hS i h1 h2).1, (hS i h1 h2).2, le_rfl, c, le_rfl, a, b,
      le_trans this (not_lt.1 hp)⟩
  induction fuel generalizing lower upper with
  | zero =>
    cases hw : maxWidthG sub lower upper with
    | none => rw [loopG_none hw] at hok; cases hok
    | some w =>
      by_cases hp : precision < w
      · rw [loopG_zero hw hp] at hok; cases hok
      · rw [loopG_done hw hp] at hok
        injection hok with hok; subst hok
        exact done lower upper w hl hu hS0 hinv hw hp
  | succ k ih =>
    cases hw : maxWidthG sub lower upper with
    | none => rw [loopG_none hw] at hok; cases hok
    | some w =>
      by_cases hp : precision < w
      · rw [loopG_succ hw hp] at hok
        generalize hLU : bisectStepG mid fn target lower upper = LU at hok
        obtain ⟨L, U⟩ := LU
        simp only at hok
        obtain ⟨hl', hu', hsp⟩ :=
          bisectStepG_spec mid n f fn target lower upper L U hl hu ht hfn hLU
        have hstep := bisectStepG_invariant mid n f fn target lower upper L U hl hu ht hfn
          (fun i h1 h2 => hmid i h1 h2 _ _ (hS0 i h1 h2).1 (hS0 i h1 h2).2 le_rfl
            (hinv i h1 h2 (by omega)).2.2 le_rfl) hinv hLU
        have hS' : ∀ i (h1 : i < L.length) (h2 : i < U.length), S L[i] ∧ S U[i] := by
          intro i h1 h2
          obtain ⟨e1, e2⟩ := hsp i (by omega) (by omega) (by omega) h1 h2
          obtain ⟨s1, s2⟩ := hS0 i (by omega) (by omega)
          have sm := hSmid _ _ s1 s2
          rw [e1, e2]
          constructor
          · split
            · exact s1
            · exact sm
          · split
            · exact s2
            · exact sm
        obtain ⟨hr, hn, hres⟩ := ih L U hl' hu' hS'
          (fun i h1 h2 l u sl su a b c => by
            obtain ⟨_, n1, n2, _⟩ := hstep i (by omega) (by omega) (by omega) h1 h2
            exact hmid i (by omega) (by omega) l u sl su (le_trans n1 a) b (le_trans c n2))
          (fun i h1 h2 h3 => (hstep i (by omega) (by omega) h3 h1 h2).1) hok
        refine ⟨hr, hn, ?_⟩
        intro i h1 h2 h3 h4
        obtain ⟨r, q1, q2, r1, r2, r3, r4, r5, r6⟩ := hres i (by omega) (by omega) h3 h4
        obtain ⟨_, n1, n2, _⟩ := hstep i h1 h2 h3 (by omega) (by omega)
        exact ⟨r, q1, q2, le_trans n1 r1, r2, le_trans r3 n2, r4, r5, r6⟩
      · rw [loopG_done hw hp] at hok
        injection hok with hok; subst hok
        exact done lower upper w hl hu hS0 hinv hw hp

/-- **Loop + intermediate value theorem.**  If moreover every `f i` is continuous on its initial
bracket and the computed width bounds the true one up to `P` on the sub-brackets
(`sub u l ≤ precision → u - l ≤ P`; `P = precision` for an exact subtraction), the returned
`res[i]` lies at most `P` above a true root `r` of `f i r = target[i]` inside the bracket. -/
theorem bisectLoopG_root (mid sub : ℝ → ℝ → ℝ) (S : ℝ → Prop) (n : ℕ) (f : ℕ → ℝ → ℝ)
    (fn : List ℝ → List ℝ)
    (target : List ℝ) (precision P : ℝ) (fuel : ℕ) (lower upper res : List ℝ)
    (hl : lower.length = n) (hu : upper.length = n) (ht : target.length = n)
    (hfn : ∀ xs : List ℝ, xs.length = n → (fn xs).length = n ∧
      ∀ i (h' : i < xs.length) (h'' : i < (fn xs).length), (fn xs)[i] = f i xs[i])
    (hS0 : ∀ i (h1 : i < lower.length) (h2 : i < upper.length), S lower[i] ∧ S upper[i])
    (hSmid : ∀ l u : ℝ, S l → S u → S (mid l u))
    (hmid : ∀ i (h1 : i < lower.length) (h2 : i < upper.length) (l u : ℝ), S l → S u →
      lower[i] ≤ l → l ≤ u → u ≤ upper[i] → l ≤ mid l u ∧ mid l u ≤ u)
    (hsub : ∀ i (h1 : i < lower.length) (h2 : i < upper.length) (l u : ℝ), S l → S u →
      lower[i] ≤ l → l ≤ u → u ≤ upper[i] → sub u l ≤ precision → u - l ≤ P)
    (hcont : ∀ i (h1 : i < lower.length) (h2 : i < upper.length),
      ContinuousOn (f i) (Set.Icc lower[i] upper[i]))
    (hinv : ∀ i (h1 : i < lower.length) (h2 : i < upper.length) (h3 : i < target.length),
      f i lower[i] ≤ target[i] ∧ target[i] ≤ f i upper[i] ∧ lower[i] ≤ upper[i])
    (hok : bisectLoopG mid sub fn target precision fuel lower upper = .ok res) :
    res.length = n ∧ 1 ≤ n ∧
    ∀ i (h1 : i < lower.length) (h2 : i < upper.length) (h3 : i < target.length)
      (h4 : i < res.length),
      ∃ r, lower[i] ≤ r ∧ r ≤ res[i] ∧ res[i] ≤ upper[i] ∧ f i r = target[i] ∧
        res[i] - r ≤ P := by
  obtain ⟨hr, hn, hres⟩ := bisectLoopG_spec mid sub S n f fn target precision fuel lower upper res
    hl hu ht hfn hS0 hSmid hmid hinv hok
  refine ⟨hr, hn, ?_⟩
  intro i h1 h2 h3 h4
  obtain ⟨l', q1, q2, a1, a2, a3, a4, a5, a6⟩ := hres i h1 h2 h3 h4
  exact root_of_bracket (hcont i h1 h2) a1 a2 a3 a4 a5 (hsub i h1 h2 l' _ q1 q2 a1 a2 a3 a6)

/-- **Loop, strictly increasing `f`, a given root.**  No continuity: if `f i` is strictly
increasing on the initial bracket and `σ i` is a root there, the returned value satisfies
`σ i ≤ res[i] ≤ σ i + P`. -/
theorem bisectLoopG_root_of_strictMono (mid sub : ℝ → ℝ → ℝ) (S : ℝ → Prop) (n : ℕ) (f : ℕ → ℝ → ℝ)
    (fn : List ℝ → List ℝ) (σ : ℕ → ℝ)
    (target : List ℝ) (precision P : ℝ) (fuel : ℕ) (lower upper res : List ℝ)
    (hl : lower.length = n) (hu : upper.length = n) (ht : target.length = n)
    (hfn : ∀ xs : List ℝ, xs.length = n → (fn xs).length = n ∧
      ∀ i (h' : i < xs.length) (h'' : i < (fn xs).length), (fn xs)[i] = f i xs[i])
    (hS0 : ∀ i (h1 : i < lower.length) (h2 : i < upper.length), S lower[i] ∧ S upper[i])
    (hSmid : ∀ l u : ℝ, S l → S u → S (mid l u))
    (hmid : ∀ i (h1 : i < lower.length) (h2 : i < upper.length) (l u : ℝ), S l → S u →
      lower[i] ≤ l → l ≤ u → u ≤ upper[i] → l ≤ mid l u ∧ mid l u ≤ u)
    (hsub : ∀ i (h1 : i < lower.length) (h2 : i < upper.length) (l u : ℝ), S l → S u →
      lower[i] ≤ l → l ≤ u → u ≤ upper[i] → sub u l ≤ precision → u - l ≤ P)
    (hmono : ∀ i (h1 : i < lower.length) (h2 : i < upper.length),
      StrictMonoOn (f i) (Set.Icc lower[i] upper[i]))
    (hroot : ∀ i (h1 : i < lower.length) (h2 : i < upper.length) (h3 : i < target.length),
      lower[i] ≤ σ i ∧ σ i ≤ upper[i] ∧ f i (σ i) = target[i])
    (hok : bisectLoopG mid sub fn target precision fuel lower upper = .ok res) :
    res.length = n ∧ 1 ≤ n ∧
    ∀ i (_ : i < lower.length) (_ : i < upper.length) (_ : i < target.length)
      (h4 : i < res.length), σ i ≤ res[i] ∧ res[i] - σ i ≤ P := by
  have hinv : ∀ i (h1 : i < lower.length) (h2 : i < upper.length) (h3 : i < target.length),
      f i lower[i] ≤ target[i] ∧ target[i] ≤ f i upper[i] ∧ lower[i] ≤ upper[i] := by
    intro i h1 h2 h3
    obtain ⟨a, b, c⟩ := hroot i h1 h2 h3
    have hm := (hmono i h1 h2).monotoneOn
    rw [← c]
    exact ⟨hm ⟨le_rfl, le_trans a b⟩ ⟨a, b⟩ a, hm ⟨a, b⟩ ⟨le_trans a b, le_rfl⟩ b, le_trans a b⟩
  obtain ⟨hr, hn, hres⟩ := bisectLoopG_spec mid sub S n f fn target precision fuel lower upper res
    hl hu ht hfn hS0 hSmid hmid hinv hok
  refine ⟨hr, hn, ?_⟩
  intro i h1 h2 h3 h4
  obtain ⟨l', q1, q2, a1, a2, a3, a4, a5, a6⟩ := hres i h1 h2 h3 h4
  obtain ⟨s1, s2, s3⟩ := hroot i h1 h2 h3
  have hm := hmono i h1 h2
  have hl'mem : l' ∈ Set.Icc lower[i] upper[i] := ⟨a1, le_trans a2 a3⟩
  have hrmem : res[i] ∈ Set.Icc lower[i] upper[i] := ⟨le_trans a1 a2, a3⟩
  have hsmem : σ i ∈ Set.Icc lower[i] upper[i] := ⟨s1, s2⟩
  rw [← s3] at a4 a5
  have b1 : l' ≤ σ i := (hm.le_iff_le hl'mem hsmem).1 a4
  have b2 : σ i ≤ res[i] := (hm.le_iff_le hsmem hrmem).1 a5
  have := hsub i h1 h2 l' _ q1 q2 a1 a2 a3 a6
  exact ⟨b2, by linarith⟩

/-! ### stagnation: an error for every `max_iter`, never a value -/

/-- the loop raises nothing but `RuntimeError` (whatever `mid`, `sub`, `fn`, the inputs) -/
theorem bisectLoopG_error_is_runtimeError (mid sub : ℝ → ℝ → ℝ) (fn : List ℝ → List ℝ)
    (target : List ℝ) (precision : ℝ) (fuel : ℕ) (lower upper : List ℝ) (e : Err)
    (h : bisectLoopG mid sub fn target precision fuel lower upper = .error e) :
    e = .runtimeError := by
  induction fuel generalizing lower upper with
  | zero =>
    cases hw : maxWidthG sub lower upper with
    | none => rw [loopG_none hw] at h; injection h with h; exact h.symm
    | some w =>
      by_cases hp : precision < w
      · rw [loopG_zero hw hp] at h; injection h with h; exact h.symm
      · rw [loopG_done hw hp] at h; cases h
  | succ k ih =>
    cases hw : maxWidthG sub lower upper with
    | none => rw [loopG_none hw] at h; injection h with h; exact h.symm
    | some w =>
      by_cases hp : precision < w
      · rw [loopG_succ hw hp] at h; exact ih _ _ h
      · rw [loopG_done hw hp] at h; cases h

/-- **Stagnation.**  Suppose ONE element `j` sits on a bracket `[a, b]` whose computed midpoint
is one of its ends (`a`, `b` neighbouring floats), with the target strictly above `f j a`
(`f j a < target[j] ≤ f j b`: the root is in `(a, b]`), and the computed width `sub b a` exceeds
`precision` (a precision below the spacing of the floats; `precision = 0`).  Then element `j`
never moves and the loop ends in `RuntimeError` for EVERY fuel (`max_iter`), whatever the other
elements do — it can not return a value.  No assumption on `mid`, `sub`, `f` beyond these. -/
theorem bisectLoopG_stagnates (mid sub : ℝ → ℝ → ℝ) (n : ℕ) (f : ℕ → ℝ → ℝ)
    (fn : List ℝ → List ℝ) (target : List ℝ) (precision : ℝ) (j : ℕ) (a b : ℝ)
    (fuel : ℕ) (lower upper : List ℝ)
    (hl : lower.length = n) (hu : upper.length = n) (ht : target.length = n) (hj : j < n)
    (hfn : ∀ xs : List ℝ, xs.length = n → (fn xs).length = n ∧
      ∀ i (h' : i < xs.length) (h'' : i < (fn xs).length), (fn xs)[i] = f i xs[i])
    (hla : lower[j]'(by omega) = a) (hub : upper[j]'(by omega) = b)
    (hstuck : mid a b = a ∨ mid a b = b)
    (hta : f j a < target[j]'(by omega)) (htb : target[j]'(by omega) ≤ f j b)
    (hprec : precision < sub b a) :
    bisectLoopG mid sub fn target precision fuel lower upper = .error .runtimeError := by
  induction fuel generalizing lower upper with
  | zero =>
    obtain ⟨w, hw⟩ := maxWidthG_isSome (sub := sub) (lower := lower) (upper := upper)
      (by omega) (by omega)
    have hge := maxWidthG_ge hw j (by omega) (by omega)
    rw [hla, hub] at hge
    exact loopG_zero hw (lt_of_lt_of_le hprec hge)
  | succ k ih =>
    obtain ⟨w, hw⟩ := maxWidthG_isSome (sub := sub) (lower := lower) (upper := upper)
      (by omega) (by omega)
    have hge := maxWidthG_ge hw j (by omega) (by omega)
    rw [hla, hub] at hge
    rw [loopG_succ hw (lt_of_lt_of_le hprec hge)]
    obtain ⟨hl', hu', hsp⟩ :=
      bisectStepG_spec mid n f fn target lower upper _ _ hl hu ht hfn rfl
    obtain ⟨e1, e2⟩ := hsp j (by omega) (by omega) (by omega) (by omega) (by omega)
    rw [hla, hub] at e1 e2
    refine ih _ _ hl' hu' (e1.trans ?_) (e2.trans ?_) hta htb
    · rcases hstuck with hm | hm
      · rw [hm]; simp
      · rw [hm, if_pos htb]
    · rcases hstuck with hm | hm
      · rw [hm, if_pos hta]
      · rw [hm]; simp

end PfVerif.C19Float

namespace PfVerif.C19FloatAux
open PfVerif PfVerif.C19Aux

section
variable {mid sub : ℝ → ℝ → ℝ} {n : ℕ} {f : ℕ → ℝ → ℝ} {fn : List ℝ → List ℝ}
  {target lower upper : List ℝ} {precision : ℝ} {maxIter : ℕ}

theorem bisectG_nil (hfn0 : fn [] = []) :
    bisectG mid sub fn target [] [] precision maxIter = .error .recursionError := by
  simp [bisectG, allLt, hfn0]

/-- `bisectG` returned ⇒ the tensors are not empty -/
theorem pos_of_ok {res : List ℝ} (hl : lower.length = n) (hu : upper.length = n)
    (hfn : ∀ xs : List ℝ, xs.length = n → (fn xs).length = n ∧
      ∀ i (h' : i < xs.length) (h'' : i < (fn xs).length), (fn xs)[i] = f i xs[i])
    (hok : bisectG mid sub fn target lower upper precision maxIter = .ok res) : 0 < n := by
  by_contra h0
  have h0 : n = 0 := by omega
  subst h0
  have e1 := List.eq_nil_of_length_eq_zero hl
  have e2 := List.eq_nil_of_length_eq_zero hu
  subst e1 e2
  rw [bisectG_nil (List.eq_nil_of_length_eq_zero (hfn [] rfl).1)] at hok
  cases hok

theorem bisectG_inc_loop (hl : lower.length = n) (hu : upper.length = n)
    (hfn : ∀ xs : List ℝ, xs.length = n → (fn xs).length = n ∧
      ∀ i (h' : i < xs.length) (h'' : i < (fn xs).length), (fn xs)[i] = f i xs[i])
    (hlt : allLt lower upper = true)
    (j : ℕ) (hj : j < n) (h : f j (lower[j]'(by omega)) ≤ f j (upper[j]'(by omega))) :
    bisectG mid sub fn target lower upper precision maxIter
      = bisectLoopG mid sub fn target precision maxIter lower upper :=
  bisectG_inc_eq hlt (dirtest_false hl hu hfn j hj h)

theorem bisectG_dec_loop (hl : lower.length = n) (hu : upper.length = n) (hn : 0 < n)
    (hfn : ∀ xs : List ℝ, xs.length = n → (fn xs).length = n ∧
      ∀ i (h' : i < xs.length) (h'' : i < (fn xs).length), (fn xs)[i] = f i xs[i])
    (hlt : allLt lower upper = true)
    (hdir : ∀ i (h1 : i < lower.length) (h2 : i < upper.length), f i upper[i] < f i lower[i]) :
    bisectG mid sub fn target lower upper precision maxIter
      = bisectLoopG mid sub (fun x => (fn x).map (fun y => -y)) (target.map (fun y => -y))
          precision maxIter lower upper :=
  bisectG_dec_eq hlt (dirtest_true hl hu hn hfn hdir).1 (dirtest_true hl hu hn hfn hdir).2
end

end PfVerif.C19FloatAux

namespace PfVerif.C19Float
open PfVerif PfVerif.C19Aux PfVerif.C19FloatAux

/-! ### `bisect` with rounded bracket arithmetic -/

/-- **C19 in rounded arithmetic, increasing direction.**  `mid` is any midpoint operation with
`l ≤ mid l u ≤ u` on the sub-brackets, `sub` any width operation with
`sub u l ≤ precision → u - l ≤ P` there; `fn` acts element-wise as `f i`, continuous on the
initial bracket, `(lower < upper).all()`, targets inside the range.  Whenever `bisectG` returns
`res` (any `precision`, any `max_iter`) every `res[i]` is in the bracket and at most `P` above a
true root of `f i r = target[i]`. -/
theorem bisectG_increasing_spec (mid sub : ℝ → ℝ → ℝ) (S : ℝ → Prop) (n : ℕ) (f : ℕ → ℝ → ℝ)
    (fn : List ℝ → List ℝ) (target lower upper : List ℝ) (precision P : ℝ) (maxIter : ℕ)
    (res : List ℝ)
    (hl : lower.length = n) (hu : upper.length = n) (ht : target.length = n)
    (hfn : ∀ xs : List ℝ, xs.length = n → (fn xs).length = n ∧
      ∀ i (h' : i < xs.length) (h'' : i < (fn xs).length), (fn xs)[i] = f i xs[i])
    (hS0 : ∀ i (h1 : i < lower.length) (h2 : i < upper.length), S lower[i] ∧ S upper[i])
    (hSmid : ∀ l u : ℝ, S l → S u → S (mid l u))
    (hmid : ∀ i (h1 : i < lower.length) (h2 : i < upper.length) (l u : ℝ), S l → S u →
      lower[i] ≤ l → l ≤ u → u ≤ upper[i] → l ≤ mid l u ∧ mid l u ≤ u)
    (hsub : ∀ i (h1 : i < lower.length) (h2 : i < upper.length) (l u : ℝ), S l → S u →
      lower[i] ≤ l → l ≤ u → u ≤ upper[i] → sub u l ≤ precision → u - l ≤ P)
    (hcont : ∀ i (h1 : i < lower.length) (h2 : i < upper.length),
      ContinuousOn (f i) (Set.Icc lower[i] upper[i]))
    (hlt : allLt lower upper = true)
    (hrange : ∀ i (h1 : i < lower.length) (h2 : i < upper.length) (h3 : i < target.length),
      f i lower[i] ≤ target[i] ∧ target[i] ≤ f i upper[i])
    (hok : bisectG mid sub fn target lower upper precision maxIter = .ok res) :
    res.length = n ∧
    ∀ i (h1 : i < lower.length) (h2 : i < upper.length) (h3 : i < target.length)
      (h4 : i < res.length),
      ∃ r, lower[i] ≤ r ∧ r ≤ res[i] ∧ res[i] ≤ upper[i] ∧ f i r = target[i] ∧
        res[i] - r ≤ P := by
  have hn : 0 < n := pos_of_ok hl hu hfn hok
  rw [bisectG_inc_loop hl hu hfn hlt 0 hn
    (le_trans (hrange 0 (by omega) (by omega) (by omega)).1
      (hrange 0 (by omega) (by omega) (by omega)).2)] at hok
  have hlt' := allLt_true hlt
  obtain ⟨hr, _, hres⟩ := bisectLoopG_root mid sub S n f fn target precision P maxIter lower upper
    res hl hu ht hfn hS0 hSmid hmid hsub hcont
    (fun i h1 h2 h3 => ⟨(hrange i h1 h2 h3).1, (hrange i h1 h2 h3).2, le_of_lt (hlt' i h1 h2)⟩)
    hok
  exact ⟨hr, hres⟩

/-- **C19 in rounded arithmetic, decreasing direction** (all elements decrease; the model, as
the code, runs the loop on `-fn`, `-target`). -/
theorem bisectG_decreasing_spec (mid sub : ℝ → ℝ → ℝ) (S : ℝ → Prop) (n : ℕ) (f : ℕ → ℝ → ℝ)
    (fn : List ℝ → List ℝ) (target lower upper : List ℝ) (precision P : ℝ) (maxIter : ℕ)
    (res : List ℝ)
    (hl : lower.length = n) (hu : upper.length = n) (ht : target.length = n)
    (hfn : ∀ xs : List ℝ, xs.length = n → (fn xs).length = n ∧
      ∀ i (h' : i < xs.length) (h'' : i < (fn xs).length), (fn xs)[i] = f i xs[i])
    (hS0 : ∀ i (h1 : i < lower.length) (h2 : i < upper.length), S lower[i] ∧ S upper[i])
    (hSmid : ∀ l u : ℝ, S l → S u → S (mid l u))
    (hmid : ∀ i (h1 : i < lower.length) (h2 : i < upper.length) (l u : ℝ), S l → S u →
      lower[i] ≤ l → l ≤ u → u ≤ upper[i] → l ≤ mid l u ∧ mid l u ≤ u)
    (hsub : ∀ i (h1 : i < lower.length) (h2 : i < upper.length) (l u : ℝ), S l → S u →
      lower[i] ≤ l → l ≤ u → u ≤ upper[i] → sub u l ≤ precision → u - l ≤ P)
    (hcont : ∀ i (h1 : i < lower.length) (h2 : i < upper.length),
      ContinuousOn (f i) (Set.Icc lower[i] upper[i]))
    (hlt : allLt lower upper = true)
    (hdir : ∀ i (h1 : i < lower.length) (h2 : i < upper.length), f i upper[i] < f i lower[i])
    (hrange : ∀ i (h1 : i < lower.length) (h2 : i < upper.length) (h3 : i < target.length),
      f i upper[i] ≤ target[i] ∧ target[i] ≤ f i lower[i])
    (hok : bisectG mid sub fn target lower upper precision maxIter = .ok res) :
    res.length = n ∧
    ∀ i (h1 : i < lower.length) (h2 : i < upper.length) (h3 : i < target.length)
      (h4 : i < res.length),
      ∃ r, lower[i] ≤ r ∧ r ≤ res[i] ∧ res[i] ≤ upper[i] ∧ f i r = target[i] ∧
        res[i] - r ≤ P := by
  have hn : 0 < n := pos_of_ok hl hu hfn hok
  rw [bisectG_dec_loop hl hu hn hfn hlt hdir] at hok
  have hlt' := allLt_true hlt
  obtain ⟨hr, _, hres⟩ := bisectLoopG_root mid sub S n (fun i x => -(f i x))
    (fun x => (fn x).map (fun y => -y)) (target.map (fun y => -y)) precision P maxIter lower upper
    res hl hu (by simpa using ht) (hfn_neg hfn) hS0 hSmid hmid hsub (fun i h1 h2 => (hcont i h1 h2).neg)
    (fun i h1 h2 h3 => by
      have h3' : i < target.length := by simpa using h3
      obtain ⟨a, b⟩ := hrange i h1 h2 h3'
      rw [List.getElem_map]
      exact ⟨by linarith, by linarith, le_of_lt (hlt' i h1 h2)⟩)
    hok
  refine ⟨hr, ?_⟩
  intro i h1 h2 h3 h4
  obtain ⟨r, r1, r2, r3, r4, r5⟩ := hres i h1 h2 (by simpa using h3) h4
  rw [List.getElem_map] at r4
  exact ⟨r, r1, r2, r3, neg_inj.1 r4, r5⟩

/-- **Dichotomy, increasing direction.**  On a non-empty valid bracket with the targets in
range, for EVERY `precision` (0, negative, below the spacing of the floats …) and EVERY
`max_iter`, `bisectG` either raises `RuntimeError` or returns values each at most `P` above a
true root.  There is no third outcome (no other error, no value far from the root). -/
theorem bisectG_dichotomy_increasing (mid sub : ℝ → ℝ → ℝ) (S : ℝ → Prop) (n : ℕ) (f : ℕ → ℝ → ℝ)
    (fn : List ℝ → List ℝ) (target lower upper : List ℝ) (precision P : ℝ) (maxIter : ℕ)
    (hn : 0 < n)
    (hl : lower.length = n) (hu : upper.length = n) (ht : target.length = n)
    (hfn : ∀ xs : List ℝ, xs.length = n → (fn xs).length = n ∧
      ∀ i (h' : i < xs.length) (h'' : i < (fn xs).length), (fn xs)[i] = f i xs[i])
    (hS0 : ∀ i (h1 : i < lower.length) (h2 : i < upper.length), S lower[i] ∧ S upper[i])
    (hSmid : ∀ l u : ℝ, S l → S u → S (mid l u))
    (hmid : ∀ i (h1 : i < lower.length) (h2 : i < upper.length) (l u : ℝ), S l → S u →
      lower[i] ≤ l → l ≤ u → u ≤ upper[i] → l ≤ mid l u ∧ mid l u ≤ u)
    (hsub : ∀ i (h1 : i < lower.length) (h2 : i < upper.length) (l u : ℝ), S l → S u →
      lower[i] ≤ l → l ≤ u → u ≤ upper[i] → sub u l ≤ precision → u - l ≤ P)
    (hcont : ∀ i (h1 : i < lower.length) (h2 : i < upper.length),
      ContinuousOn (f i) (Set.Icc lower[i] upper[i]))
    (hlt : allLt lower upper = true)
    (hrange : ∀ i (h1 : i < lower.length) (h2 : i < upper.length) (h3 : i < target.length),
      f i lower[i] ≤ target[i] ∧ target[i] ≤ f i upper[i]) :
    bisectG mid sub fn target lower upper precision maxIter = .error .runtimeError ∨
    ∃ res, bisectG mid sub fn target lower upper precision maxIter = .ok res ∧
      res.length = n ∧
      ∀ i (h1 : i < lower.length) (h2 : i < upper.length) (h3 : i < target.length)
        (h4 : i < res.length),
        ∃ r, lower[i] ≤ r ∧ r ≤ res[i] ∧ res[i] ≤ upper[i] ∧ f i r = target[i] ∧
          res[i] - r ≤ P := by
  cases h : bisectG mid sub fn target lower upper precision maxIter with
  | error e =>
    left
    rw [bisectG_inc_loop hl hu hfn hlt 0 hn
      (le_trans (hrange 0 (by omega) (by omega) (by omega)).1
        (hrange 0 (by omega) (by omega) (by omega)).2)] at h
    rw [bisectLoopG_error_is_runtimeError _ _ _ _ _ _ _ _ e h]
  | ok res =>
    right
    exact ⟨res, rfl, bisectG_increasing_spec mid sub S n f fn target lower upper precision P maxIter
      res hl hu ht hfn hS0 hSmid hmid hsub hcont hlt hrange h⟩

/-- **Dichotomy, decreasing direction.** -/
theorem bisectG_dichotomy_decreasing (mid sub : ℝ → ℝ → ℝ) (S : ℝ → Prop) (n : ℕ) (f : ℕ → ℝ → ℝ)
    (fn : List ℝ → List ℝ) (target lower upper : List ℝ) (precision P : ℝ) (maxIter : ℕ)
    (hn : 0 < n)
    (hl : lower.length = n) (hu : upper.length = n) (ht : target.length = n)
    (hfn : ∀ xs : List ℝ, xs.length = n → (fn xs).length = n ∧
      ∀ i (h' : i < xs.length) (h'' : i < (fn xs).length), (fn xs)[i] = f i xs[i])
    (hS0 : ∀ i (h1 : i < lower.length) (h2 : i < upper.length), S lower[i] ∧ S upper[i])
    (hSmid : ∀ l u : ℝ, S l → S u → S (mid l u))
    (hmid : ∀ i (h1 : i < lower.length) (h2 : i < upper.length) (l u : ℝ), S l → S u →
      lower[i] ≤ l → l ≤ u → u ≤ upper[i] → l ≤ mid l u ∧ mid l u ≤ u)
    (hsub : ∀ i (h1 : i < lower.length) (h2 : i < upper.length) (l u : ℝ), S l → S u →
      lower[i] ≤ l → l ≤ u → u ≤ upper[i] → sub u l ≤ precision → u - l ≤ P)
    (hcont : ∀ i (h1 : i < lower.length) (h2 : i < upper.length),
      ContinuousOn (f i) (Set.Icc lower[i] upper[i]))
    (hlt : allLt lower upper = true)
    (hdir : ∀ i (h1 : i < lower.length) (h2 : i < upper.length), f i upper[i] < f i lower[i])
    (hrange : ∀ i (h1 : i < lower.length) (h2 : i < upper.length) (h3 : i < target.length),
      f i upper[i] ≤ target[i] ∧ target[i] ≤ f i lower[i]) :
    bisectG mid sub fn target lower upper precision maxIter = .error .runtimeError ∨
    ∃ res, bisectG mid sub fn target lower upper precision maxIter = .ok res ∧
      res.length = n ∧
      ∀ i (h1 : i < lower.length) (h2 : i < upper.length) (h3 : i < target.length)
        (h4 : i < res.length),
        ∃ r, lower[i] ≤ r ∧ r ≤ res[i] ∧ res[i] ≤ upper[i] ∧ f i r = target[i] ∧
          res[i] - r ≤ P := by
  cases h : bisectG mid sub fn target lower upper precision maxIter with
  | error e =>
    left
    rw [bisectG_dec_loop hl hu hn hfn hlt hdir] at h
    rw [bisectLoopG_error_is_runtimeError _ _ _ _ _ _ _ _ e h]
  | ok res =>
    right
    exact ⟨res, rfl, bisectG_decreasing_spec mid sub S n f fn target lower upper precision P maxIter
      res hl hu ht hfn hS0 hSmid hmid hsub hcont hlt hdir hrange h⟩

/-- **`bisect` on neighbouring floats, increasing direction.**  If element `j` of a valid bracket
has a computed midpoint equal to one of its ends, the target strictly above `f j lower[j]` and at
most `f j upper[j]`, and `precision` is below the computed width of that element, `bisectG`
raises `RuntimeError` for every `max_iter`. -/
theorem bisectG_stagnates_increasing (mid sub : ℝ → ℝ → ℝ) (n : ℕ) (f : ℕ → ℝ → ℝ)
    (fn : List ℝ → List ℝ) (target lower upper : List ℝ) (precision : ℝ) (maxIter : ℕ) (j : ℕ)
    (hl : lower.length = n) (hu : upper.length = n) (ht : target.length = n) (hj : j < n)
    (hfn : ∀ xs : List ℝ, xs.length = n → (fn xs).length = n ∧
      ∀ i (h' : i < xs.length) (h'' : i < (fn xs).length), (fn xs)[i] = f i xs[i])
    (hlt : allLt lower upper = true)
    (hstuck : mid (lower[j]'(by omega)) (upper[j]'(by omega)) = lower[j]'(by omega) ∨
      mid (lower[j]'(by omega)) (upper[j]'(by omega)) = upper[j]'(by omega))
    (hta : f j (lower[j]'(by omega)) < target[j]'(by omega))
    (htb : target[j]'(by omega) ≤ f j (upper[j]'(by omega)))
    (hprec : precision < sub (upper[j]'(by omega)) (lower[j]'(by omega))) :
    bisectG mid sub fn target lower upper precision maxIter = .error .runtimeError := by
  rw [bisectG_inc_loop hl hu hfn hlt j hj (le_trans (le_of_lt hta) htb)]
  exact bisectLoopG_stagnates mid sub n f fn target precision j _ _ maxIter lower upper hl hu ht
    hj hfn rfl rfl hstuck hta htb hprec

/-- **`bisect` on neighbouring floats, decreasing direction** (all elements decrease): the
target at least `f j upper[j]` and strictly below `f j lower[j]`. -/
theorem bisectG_stagnates_decreasing (mid sub : ℝ → ℝ → ℝ) (n : ℕ) (f : ℕ → ℝ → ℝ)
    (fn : List ℝ → List ℝ) (target lower upper : List ℝ) (precision : ℝ) (maxIter : ℕ) (j : ℕ)
    (hl : lower.length = n) (hu : upper.length = n) (ht : target.length = n) (hj : j < n)
    (hfn : ∀ xs : List ℝ, xs.length = n → (fn xs).length = n ∧
      ∀ i (h' : i < xs.length) (h'' : i < (fn xs).length), (fn xs)[i] = f i xs[i])
    (hlt : allLt lower upper = true)
    (hdir : ∀ i (h1 : i < lower.length) (h2 : i < upper.length), f i upper[i] < f i lower[i])
    (hstuck : mid (lower[j]'(by omega)) (upper[j]'(by omega)) = lower[j]'(by omega) ∨
      mid (lower[j]'(by omega)) (upper[j]'(by omega)) = upper[j]'(by omega))
    (hta : target[j]'(by omega) < f j (lower[j]'(by omega)))
    (htb : f j (upper[j]'(by omega)) ≤ target[j]'(by omega))
    (hprec : precision < sub (upper[j]'(by omega)) (lower[j]'(by omega))) :
    bisectG mid sub fn target lower upper precision maxIter = .error .runtimeError := by
  rw [bisectG_dec_loop hl hu (by omega) hfn hlt hdir]
  exact bisectLoopG_stagnates mid sub n (fun i x => -(f i x)) (fun x => (fn x).map (fun y => -y))
    (target.map (fun y => -y)) precision j _ _ maxIter lower upper hl hu (by simpa using ht)
    hj (hfn_neg hfn) rfl rfl hstuck
    (by rw [List.getElem_map]; exact neg_lt_neg hta)
    (by rw [List.getElem_map]; exact neg_le_neg htb) hprec

end PfVerif.C19Float

/-! ### non-vacuity: a toy floating-point system

The numbers `k / 4` (`k : ℤ`) — fixed point with two fractional bits — with the midpoint
rounded DOWN to the grid, `gmid l u = ⌊(l + u) / 2 · 4⌋ / 4`, and an exact subtraction.  On two
neighbouring grid points the midpoint is the lower one. -/

namespace PfVerif.C19FloatAux

/-- the representable numbers of the toy system -/
def onGrid (x : ℝ) : Prop := ∃ k : ℤ, x = (k : ℝ) / 4

/-- the midpoint rounded down to the grid -/
noncomputable def gmid (l u : ℝ) : ℝ := (⌊(l + u) / 2 * 4⌋ : ℝ) / 4

theorem gmid_onGrid (l u : ℝ) : onGrid (gmid l u) := ⟨_, rfl⟩

/-- the rounded midpoint of two grid points lies between them (rounding is monotone and the
ends are representable) — for arbitrary reals it does not -/
theorem gmid_sandwich (l u : ℝ) (hl : onGrid l) (hlu : l ≤ u) : l ≤ gmid l u ∧ gmid l u ≤ u := by
  obtain ⟨a, rfl⟩ := hl
  unfold gmid
  constructor
  · have h : a ≤ ⌊((a : ℝ) / 4 + u) / 2 * 4⌋ := Int.le_floor.2 (by linarith)
    have : (a : ℝ) ≤ (⌊((a : ℝ) / 4 + u) / 2 * 4⌋ : ℝ) := by exact_mod_cast h
    linarith
  · have h := Int.floor_le (((a : ℝ) / 4 + u) / 2 * 4)
    linarith

/-- `fn = id` acts element-wise as `f i = id` -/
theorem id_elementwise (n : ℕ) :
    ∀ xs : List ℝ, xs.length = n → ((fun ys : List ℝ => ys) xs).length = n ∧
      ∀ i (_ : i < xs.length) (_ : i < ((fun ys : List ℝ => ys) xs).length),
        ((fun ys : List ℝ => ys) xs)[i] = (fun (_ : ℕ) (x : ℝ) => x) i xs[i] :=
  fun _ hxs => ⟨hxs, fun _ _ _ => rfl⟩

end PfVerif.C19FloatAux

namespace PfVerif.C19Float
open PfVerif PfVerif.C19Aux PfVerif.C19FloatAux

/-- On the neighbouring grid points `1/2`, `3/4` the rounded midpoint is `1/2`: with the root
`5/8` strictly between them and `precision = 1/8` below the spacing `1/4`, the hypotheses of
`bisectG_stagnates_increasing` hold and `bisect` raises `RuntimeError` for EVERY `max_iter`. -/
example (maxIter : ℕ) :
    bisectG gmid (fun u l => u - l) (fun xs => xs) [5 / 8] [1 / 2] [3 / 4] ((1 : ℝ) / 8) maxIter
      = .error .runtimeError :=
  bisectG_stagnates_increasing gmid (fun u l => u - l) 1 (fun _ x => x) (fun xs => xs)
    [5 / 8] [1 / 2] [3 / 4] (1 / 8) maxIter 0 rfl rfl rfl (by norm_num) (id_elementwise 1)
    (by norm_num [allLt]) (by left; norm_num [gmid]) (by norm_num) (by norm_num) (by norm_num)

/-- … while with the exact midpoint (Model/Bisect.lean over ℝ) the same call returns the root:
the two regimes are really different. -/
example : bisect (fun xs => xs) [5 / 8] [1 / 2] [3 / 4] ((1 : ℝ) / 8) 10 = .ok [5 / 8] := by
  norm_num [bisect, allLt, bisectLoop, maxWidth, maxL, bisectStep]

/-- the same with `precision = 0` and a decreasing function (`fn x = -x`, target `-5/8`) -/
example (maxIter : ℕ) :
    bisectG gmid (fun u l => u - l) (fun xs => xs.map (fun x => -x)) [-(5 / 8)] [1 / 2] [3 / 4]
      (0 : ℝ) maxIter = .error .runtimeError :=
  bisectG_stagnates_decreasing gmid (fun u l => u - l) 1 (fun _ x => -x)
    (fun xs => xs.map (fun x => -x)) [-(5 / 8)] [1 / 2] [3 / 4] 0 maxIter 0 rfl rfl rfl
    (by norm_num) (fun xs hxs => ⟨by simpa using hxs, fun i h' h'' => by simp⟩)
    (by norm_num [allLt])
    (fun i h1 h2 => by
      have hi : i = 0 := by simpa using h1
      subst hi; norm_num)
    (by left; norm_num [gmid]) (by norm_num) (by norm_num) (by norm_num)

/-- A reachable precision on the grid: from `[0, 1]`, root `5/8`, `precision = 1/4`, the rounded
loop returns `3/4` after two iterations … -/
example : bisectG gmid (fun u l => u - l) (fun xs => xs) [5 / 8] [0] [1] ((1 : ℝ) / 4) 10
    = .ok [3 / 4] := by
  norm_num [bisectG, allLt, bisectLoopG, maxWidthG, maxL, bisectStepG, gmid]

/-- … every hypothesis of `bisectG_increasing_spec` holds on that instance (`S` = the grid,
`P = precision` because the subtraction is exact), and its conclusion is the root `r = 5/8` with
`r ≤ 3/4 ≤ r + 1/4`. -/
example : ∃ r : ℝ, 0 ≤ r ∧ r ≤ 3 / 4 ∧ (3 : ℝ) / 4 ≤ 1 ∧ r = 5 / 8 ∧ 3 / 4 - r ≤ 1 / 4 := by
  have h := bisectG_increasing_spec gmid (fun u l => u - l) onGrid 1 (fun _ x => x)
    (fun xs => xs) [5 / 8] [0] [1] ((1 : ℝ) / 4) (1 / 4) 10 [3 / 4] rfl rfl rfl (id_elementwise 1)
    (fun i h1 h2 => by
      have hi : i = 0 := by simpa using h1
      subst hi; exact ⟨⟨0, by norm_num⟩, ⟨4, by norm_num⟩⟩)
    (fun l u _ _ => gmid_onGrid l u)
    (fun i h1 h2 l u sl _ _ hlu _ => gmid_sandwich l u sl hlu)
    (fun i h1 h2 l u _ _ _ _ _ h => h)
    (fun i h1 h2 => continuousOn_id)
    (by norm_num [allLt])
    (fun i h1 h2 h3 => by
      have hi : i = 0 := by simpa using h1
      subst hi; norm_num)
    (by norm_num [bisectG, allLt, bisectLoopG, maxWidthG, maxL, bisectStepG, gmid])
  simpa using h.2 0 (by simp) (by simp) (by simp) (by simp)

/-- the same instance with the unreachable precision `1/8` (the hypotheses of
`bisectG_dichotomy_increasing` are those just shown, they do not involve `precision` except
through the exact `sub`): after two productive iterations the bracket is `[1/2, 3/4]`, stagnates,
and the outcome is the error branch of the dichotomy. -/
example : bisectG gmid (fun u l => u - l) (fun xs => xs) [5 / 8] [0] [1] ((1 : ℝ) / 8) 10
    = .error .runtimeError := by
  norm_num [bisectG, allLt, bisectLoopG, maxWidthG, maxL, bisectStepG, gmid]

end PfVerif.C19Float
