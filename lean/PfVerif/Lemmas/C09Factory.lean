/-
  Which pricing module `BlackScholes(derivative)` hands out (Model/Factory.lean: `Registry`, `register`,
  `getClass`, `resolve`, `blackScholes`), as a function of the HISTORY of `register_module` calls of the process:

  * `getClass_registerAll`, `resolve_ofHistory`: after any history the class found under a name is the LAST one
    registered under exactly that name (`lastRegistered`), `KeyError` when there is none;
  * `resolve_congr`, `resolve_only_own_registrations`, `resolve_insert_other`, `resolve_ancestors_irrelevant`,
    `resolve_unregistered`, `resolve_own_not_parent`: nothing else matters — not the order or presence of
    registrations under other names, not what is registered for the classes the derivative inherits from (a subclass
    registered under its own name never gets its parent's module; an unregistered subclass raises `KeyError` even
    when every ancestor is registered);
  * `names_register`, `names_nodup`: Python-dict order (a re-registered name keeps its place);
  * `blackScholes_ok_iff`, `blackScholes_error_iff`, `blackScholes_builtOn`: the instance handed out is of that
    class and bound to the derivative PASSED (its strike, call flag, state), so every relation of Lemmas/C09Modules
    holds for what it quotes; `one_touch_subclass_one_after_hit` is the instance for a one-touch written as a
    subclass of the European binary and registered with the American-binary module.
-/
import PfVerif.Model.Factory
import PfVerif.Lemmas.C09Modules

namespace PfVerif.C09Factory
open PfVerif PfVerif.C07Acquire PfVerif.C09Modules

section Dict
variable {β : Type}

/-- the value of the last `register_module(name, ·)` call of a history -/
def lastRegistered (h : List (String × β)) (name : String) : Option β :=
  ((h.filter (fun nv => decide (nv.1 = name))).getLast?).map (·.2)

private theorem lookup_assign_same (es : List (String × β)) (n : String) (v : β) :
    Registry.lookup (Registry.assign es n v) n = some v := by
  induction es with
  | nil => simp [Registry.assign, Registry.lookup]
  | cons e t ih =>
    obtain ⟨n', w⟩ := e
    by_cases hn : n' = n
    · simp [Registry.assign, Registry.lookup, hn]
    · simp [Registry.assign, Registry.lookup, hn, ih]

private theorem lookup_assign_other (es : List (String × β)) {n n' : String} (v : β) (hne : n' ≠ n) :
    Registry.lookup (Registry.assign es n v) n' = Registry.lookup es n' := by
  induction es with
  | nil => simp [Registry.assign, Registry.lookup, Ne.symm hne]
  | cons e t ih =>
    obtain ⟨m, w⟩ := e
    by_cases hm : m = n
    · subst hm
      simp [Registry.assign, Registry.lookup, Ne.symm hne]
    · by_cases hm' : m = n'
      · subst hm'
        simp [Registry.assign, Registry.lookup, hm]
      · simp [Registry.assign, Registry.lookup, hm, hm', ih]

/-- `register_module(n, v)` then `get_class(n)`: `v` -/
theorem getClass_register_same (reg : Registry β) (n : String) (v : β) :
    (reg.register n v).getClass n = .ok v := by
  simp [Registry.getClass, Registry.register, lookup_assign_same]

/-- `register_module(n, v)` does not change what any other name resolves to -/
theorem getClass_register_other (reg : Registry β) {n n' : String} (v : β) (hne : n' ≠ n) :
    (reg.register n v).getClass n' = reg.getClass n' := by
  simp [Registry.getClass, Registry.register, lookup_assign_other _ v hne]

private theorem lastRegistered_cons_same (n : String) (v : β) (t : List (String × β)) :
    lastRegistered ((n, v) :: t) n = some ((lastRegistered t n).getD v) := by
  unfold lastRegistered
  rw [List.filter_cons_of_pos (by simp), List.getLast?_cons]
  cases (t.filter (fun nv => decide (nv.1 = n))).getLast? <;> simp

private theorem lastRegistered_cons_other {n n' : String} (v : β) (t : List (String × β)) (hne : n' ≠ n) :
    lastRegistered ((n', v) :: t) n = lastRegistered t n := by
  unfold lastRegistered
  rw [List.filter_cons_of_neg (by simpa using hne)]

/-- after a history of registrations a name resolves to the LAST class registered under it; a name the history
never registers resolves as before -/
theorem getClass_registerAll (reg : Registry β) (h : List (String × β)) (n : String) :
    (reg.registerAll h).getClass n =
      match lastRegistered h n with
      | some v => .ok v
      | none => reg.getClass n := by
  induction h generalizing reg with
  | nil => simp [Registry.registerAll, lastRegistered]
  | cons e t ih =>
    obtain ⟨n', v⟩ := e
    have hstep : reg.registerAll ((n', v) :: t) = (reg.register n' v).registerAll t := rfl
    rw [hstep, ih]
    by_cases hn : n' = n
    · subst hn
      rw [lastRegistered_cons_same]
      cases lastRegistered t n' <;> simp [getClass_register_same]
    · rw [lastRegistered_cons_other v t hn, getClass_register_other reg v (Ne.symm hn)]

/-- in a process whose registrations are exactly `h`: the last class registered under the name, else `KeyError` -/
theorem getClass_ofHistory (h : List (String × β)) (n : String) :
    (Registry.ofHistory h).getClass n =
      match lastRegistered h n with
      | some v => .ok v
      | none => .error (.lower .keyError) := by
  rw [Registry.ofHistory, getClass_registerAll]
  rfl

/-- `BlackScholes(derivative)` resolves by the derivative's OWN class name, to the last class registered under it -/
theorem resolve_ofHistory (h : List (String × β)) (cls : DerivClass) :
    (Registry.ofHistory h).resolve cls =
      match lastRegistered h cls.name with
      | some v => .ok v
      | none => .error (.lower .keyError) :=
  getClass_ofHistory h cls.name

theorem resolve_ok_iff (h : List (String × β)) (cls : DerivClass) (v : β) :
    (Registry.ofHistory h).resolve cls = .ok v ↔ lastRegistered h cls.name = some v := by
  rw [resolve_ofHistory]
  cases lastRegistered h cls.name <;> simp

theorem resolve_error_iff (h : List (String × β)) (cls : DerivClass) (e : AcqErr) :
    (Registry.ofHistory h).resolve cls = .error e ↔
      lastRegistered h cls.name = none ∧ e = .lower .keyError := by
  rw [resolve_ofHistory]
  cases lastRegistered h cls.name <;> simp [eq_comm]

/-- two histories that contain the same registrations under the class's own name (in the same order) resolve
the class alike — whatever else they register, in whatever order, before, between or after -/
theorem resolve_congr {h h' : List (String × β)} (cls : DerivClass)
    (hsame : h.filter (fun nv => decide (nv.1 = cls.name)) = h'.filter (fun nv => decide (nv.1 = cls.name))) :
    (Registry.ofHistory h).resolve cls = (Registry.ofHistory h').resolve cls := by
  rw [resolve_ofHistory, resolve_ofHistory, lastRegistered, lastRegistered, hsame]

/-- only the registrations under the own name count: dropping all others from the history changes nothing -/
theorem resolve_only_own_registrations (h : List (String × β)) (cls : DerivClass) :
    (Registry.ofHistory (h.filter (fun nv => decide (nv.1 = cls.name)))).resolve cls
      = (Registry.ofHistory h).resolve cls :=
  resolve_congr cls (by rw [List.filter_filter]; simp)

/-- a registration under ANOTHER name (a parent class, a sibling, a library class), made at any point of the
history, does not change the resolution -/
theorem resolve_insert_other (h₁ h₂ : List (String × β)) (cls : DerivClass) {n : String} (v : β)
    (hne : n ≠ cls.name) :
    (Registry.ofHistory (h₁ ++ (n, v) :: h₂)).resolve cls = (Registry.ofHistory (h₁ ++ h₂)).resolve cls :=
  resolve_congr cls (by
    rw [List.filter_append, List.filter_append, List.filter_cons_of_neg (by simpa using hne)])

/-- the classes the derivative inherits from play no part -/
theorem resolve_ancestors_irrelevant (reg : Registry β) (name : String) (anc anc' : List String) :
    reg.resolve ⟨name, anc⟩ = reg.resolve ⟨name, anc'⟩ := rfl

/-- a class that has never been registered under its own name raises `KeyError` — even when every class it
inherits from is registered -/
theorem resolve_unregistered (h : List (String × β)) (cls : DerivClass)
    (hnot : cls.name ∉ h.map (·.1)) :
    (Registry.ofHistory h).resolve cls = .error (.lower .keyError) := by
  have hf : h.filter (fun nv => decide (nv.1 = cls.name)) = [] := by
    rw [List.filter_eq_nil_iff]
    intro nv hmem hdec
    exact hnot (List.mem_map.2 ⟨nv, hmem, by simpa using hdec⟩)
  rw [resolve_ofHistory, lastRegistered, hf]
  rfl

/-- a class registered under its own name, not registered again afterwards, gets exactly that module class —
never the one of a parent, wherever in the history the parents were registered -/
theorem resolve_own_not_parent (h₁ h₂ : List (String × β)) (cls : DerivClass) (v : β)
    (hlast : cls.name ∉ h₂.map (·.1)) :
    (Registry.ofHistory (h₁ ++ (cls.name, v) :: h₂)).resolve cls = .ok v := by
  have hf : h₂.filter (fun nv => decide (nv.1 = cls.name)) = [] := by
    rw [List.filter_eq_nil_iff]
    intro nv hmem hdec
    exact hlast (List.mem_map.2 ⟨nv, hmem, by simpa using hdec⟩)
  rw [resolve_ok_iff, lastRegistered, List.filter_append, List.filter_cons_of_pos (by simp), hf]
  simp

/-! ### Python-dict order of `named_modules()` -/

private theorem assign_names (es : List (String × β)) (n : String) (v : β) :
    (Registry.assign es n v).map (·.1) = if n ∈ es.map (·.1) then es.map (·.1) else es.map (·.1) ++ [n] := by
  induction es with
  | nil => simp [Registry.assign]
  | cons e t ih =>
    obtain ⟨m, w⟩ := e
    by_cases hm : m = n
    · subst hm; simp [Registry.assign]
    · have hm' : ¬ n = m := fun h => hm h.symm
      by_cases hin : n ∈ t.map (·.1)
      · simp only [Registry.assign, hm, if_false, List.map_cons, ih, hin, if_true, List.mem_cons, or_true]
      · simp only [Registry.assign, hm, if_false, List.map_cons, ih, hin, List.mem_cons, hm', or_self,
          List.cons_append]

/-- `register_module`: a new name goes to the end, a known name keeps its place -/
theorem names_register (reg : Registry β) (n : String) (v : β) :
    (reg.register n v).names = if n ∈ reg.names then reg.names else reg.names ++ [n] :=
  assign_names reg.entries n v

/-- the names of a registry built by registrations are pairwise different -/
theorem names_nodup (h : List (String × β)) : (Registry.ofHistory h).names.Nodup := by
  suffices H : ∀ reg : Registry β, reg.names.Nodup → (reg.registerAll h).names.Nodup from
    H Registry.empty (by simp [Registry.empty, Registry.names])
  induction h with
  | nil => intro reg hr; exact hr
  | cons e t ih =>
    intro reg hr
    refine ih (reg.register e.1 e.2) ?_
    rw [names_register]
    split
    · exact hr
    · rename_i hnot
      exact List.nodup_append.2 ⟨hr, by simp, by
        intro a ha b hb
        simp at hb; subst hb
        exact fun hab => hnot (hab ▸ ha)⟩

end Dict

/-! ### the instance handed out -/

/-- the result does not depend on the classes the derivative inherits from -/
theorem blackScholes_ancestors_irrelevant (reg : Registry ModClass) (name : String) (anc anc' : List String)
    {α : Type} (d : Deriv α) : blackScholes reg ⟨name, anc⟩ d = blackScholes reg ⟨name, anc'⟩ d := rfl


section Instance
variable {α : Type} [Add α] [Sub α] [Mul α] [Div α] [Neg α] [OfNat α 0] [OfNat α 1] [OfNat α 2]
  [OfNat α 3] [LE α] [DecidableLE α] [LT α] [DecidableLT α] [Max α] [Min α] [NatCast α] [Transc α]

private theorem bind_pair_ok {ε β γ : Type} (x : Except ε γ) (b b' : β) (c : γ) :
    ((x >>= fun m => pure (b, m)) : Except ε (β × γ)) = .ok (b', c) ↔ b = b' ∧ x = .ok c := by
  cases x <;> simp [bind, Except.bind, pure, Except.pure]

private theorem bind_pair_error {ε β γ : Type} (x : Except ε γ) (b : β) (e : ε) :
    ((x >>= fun m => pure (b, m)) : Except ε (β × γ)) = .error e ↔ x = .error e := by
  cases x <;> simp [bind, Except.bind, pure, Except.pure]

/-- `BlackScholes(derivative)` succeeds iff a class is registered under the derivative's class name and (for the
path-dependent kinds) the derivative is a call; the instance is of that class, has the derivative's call flag and
strike and is bound to the derivative passed -/
theorem blackScholes_ok_iff (reg : Registry ModClass) (cls : DerivClass) (d : Deriv α) (mc : ModClass)
    (mod : BSModule α) :
    blackScholes reg cls d = .ok (mc, mod) ↔
      reg.resolve cls = .ok mc ∧ (d.call = true ∨ ∃ k3, mc.kind = .plain k3) ∧
        mod = ⟨mc.kind, d.call, d.market.strike, some d⟩ := by
  unfold blackScholes
  cases hr : reg.resolve cls with
  | error e => simp [bind, Except.bind]
  | ok mc' =>
    show ((BSModule.fromDerivative mc'.kind d >>= fun m => pure (mc', m)) : Except AcqErr _) = _ ↔ _
    rw [bind_pair_ok, fromDerivative_ok_iff, Except.ok.injEq]
    constructor
    · rintro ⟨rfl, rfl, hk⟩; exact ⟨rfl, hk, rfl⟩
    · rintro ⟨rfl, hk, rfl⟩; exact ⟨rfl, rfl, hk⟩

/-- `BlackScholes(derivative)` raises exactly: `KeyError` of the lookup, or the `ValueError` of a path-dependent
module class asked for a put -/
theorem blackScholes_error_iff (reg : Registry ModClass) (cls : DerivClass) (d : Deriv α) (e : AcqErr) :
    blackScholes reg cls d = .error e ↔
      reg.resolve cls = .error e ∨
        ∃ mc k4, reg.resolve cls = .ok mc ∧ mc.kind = .pathDep k4 ∧ d.call = false ∧ e = .valueError := by
  unfold blackScholes
  cases hr : reg.resolve cls with
  | error e' => simp [bind, Except.bind]
  | ok mc =>
    show ((BSModule.fromDerivative mc.kind d >>= fun m => pure (mc, m)) : Except AcqErr _) = _ ↔ _
    rw [bind_pair_error]
    cases hk : mc.kind with
    | plain k3 =>
      rw [fromDerivative_plain]
      simp [hk]
    | pathDep k4 =>
      cases hc : d.call
      · rw [fromDerivative_pathDep_put k4 d hc]
        simp [hk, eq_comm]
      · rw [fromDerivative_pathDep_call k4 d hc]
        simp

/-- in terms of the history: the module class is the last one registered under the derivative's own class name -/
theorem blackScholes_ofHistory_ok_iff (h : List (String × ModClass)) (cls : DerivClass) (d : Deriv α)
    (mc : ModClass) (mod : BSModule α) :
    blackScholes (Registry.ofHistory h) cls d = .ok (mc, mod) ↔
      lastRegistered h cls.name = some mc ∧ (d.call = true ∨ ∃ k3, mc.kind = .plain k3) ∧
        mod = ⟨mc.kind, d.call, d.market.strike, some d⟩ := by
  rw [blackScholes_ok_iff, resolve_ok_iff]

/-- an unregistered subclass of registered classes: `KeyError` -/
theorem blackScholes_unregistered (h : List (String × ModClass)) (cls : DerivClass) (d : Deriv α)
    (hnot : cls.name ∉ h.map (·.1)) :
    blackScholes (Registry.ofHistory h) cls d = .error (.lower .keyError) :=
  (blackScholes_error_iff _ cls d _).2 (Or.inl (resolve_unregistered h cls hnot))


/-- the instance handed out reads the market of the derivative PASSED, with the formula kind of the class resolved:
it satisfies `BuiltOn` of Lemmas/C09Modules, hence every relation proved there for what it quotes -/
theorem blackScholes_builtOn {reg : Registry ModClass} {cls : DerivClass} {d : Deriv α} {mc : ModClass}
    {mod : BSModule α} (hs : d.simulated = true) (hv : d.hasVol = true)
    (h : blackScholes reg cls d = .ok (mc, mod)) : BuiltOn mod mc.kind d.call d.market := by
  obtain ⟨_, _, rfl⟩ := (blackScholes_ok_iff reg cls d mc mod).1 h
  exact ⟨rfl, rfl, rfl, d, rfl, rfl, hs, hv⟩

/-- a contract class (whatever it inherits from — e.g. a one-touch written as a subclass of the European binary)
whose last registration under its own name is a module class with the American-binary formula: `BlackScholes` of a
simulated call of that class hands out that class, and it quotes exactly one once the derivative's own path has
reached the strike -/
theorem one_touch_subclass_one_after_hit {h : List (String × ModClass)} {cls : DerivClass} {mc : ModClass}
    (hreg : lastRegistered h cls.name = some mc) (hk : mc.kind = .pathDep .americanBinary)
    {d : Deriv ℝ} (hc : d.call = true) (hs : d.simulated = true) (hv : d.hasVol = true) {i : ℕ}
    (hi : Live d.market i) {g : Given ℝ} (hm : g.m = none) (ht : 0 < rT d.market g i)
    (hvol : 0 < rV d.market g i) (hK : 0 < d.market.strike) {j : ℕ} (hj : j ≤ i)
    (hr : d.market.strike ≤ d.market.spot.getD j 0) :
    ∃ mod, blackScholes (Registry.ofHistory h) cls d = .ok (mc, mod) ∧ modulePrice mod g i = .ok 1 := by
  have hb : blackScholes (Registry.ofHistory h) cls d = .ok (mc, ⟨mc.kind, d.call, d.market.strike, some d⟩) :=
    (blackScholes_ofHistory_ok_iff h cls d mc _).2 ⟨hreg, Or.inl hc, rfl⟩
  refine ⟨_, hb, ?_⟩
  have hB := blackScholes_builtOn hs hv hb
  exact american_one_after_hit ⟨hB.kind_eq.trans hk, hB.call_eq, hB.strike_eq, hB.deriv⟩ hi hm ht hvol hK hj hr

/-- a call on the maximum written as a subclass of the European option and registered with a lookback module class:
what `BlackScholes` hands out for it quotes at least what `BlackScholes` hands out for the parent class (registered
with a European module class) on the same derivative state -/
theorem max_call_subclass_ge_european {h : List (String × ModClass)} {cls par : DerivClass} {mc mp : ModClass}
    (hreg : lastRegistered h cls.name = some mc) (hk : mc.kind = .pathDep .lookback)
    (hpar : lastRegistered h par.name = some mp) (hkp : mp.kind = .plain .european)
    {d : Deriv ℝ} (hc : d.call = true) (hs : d.simulated = true) (hv : d.hasVol = true) {i : ℕ}
    (hi : Live d.market i) {g : Given ℝ} (ht : 0 < rT d.market g i) (hvol : 0 < rV d.market g i)
    (hK : 0 < d.market.strike) :
    ∃ ml me l e, blackScholes (Registry.ofHistory h) cls d = .ok (mc, ml) ∧
      blackScholes (Registry.ofHistory h) par d = .ok (mp, me) ∧
      modulePrice ml g i = .ok l ∧ modulePrice me { g with m := none } i = .ok e ∧ e ≤ l := by
  have hl : blackScholes (Registry.ofHistory h) cls d = .ok (mc, ⟨mc.kind, d.call, d.market.strike, some d⟩) :=
    (blackScholes_ofHistory_ok_iff h cls d mc _).2 ⟨hreg, Or.inl hc, rfl⟩
  have he : blackScholes (Registry.ofHistory h) par d = .ok (mp, ⟨mp.kind, d.call, d.market.strike, some d⟩) :=
    (blackScholes_ofHistory_ok_iff h par d mp _).2 ⟨hpar, Or.inr ⟨_, hkp⟩, rfl⟩
  have hBl := blackScholes_builtOn hs hv hl
  have hBe := blackScholes_builtOn hs hv he
  obtain ⟨l, e, h1, h2, h3⟩ := lookback_ge_european
    ⟨hBl.kind_eq.trans hk, hBl.call_eq, hBl.strike_eq, hBl.deriv⟩
    ⟨hBe.kind_eq.trans hkp, hBe.call_eq.trans hc, hBe.strike_eq, hBe.deriv⟩ hi g ht hvol hK
  exact ⟨_, _, l, e, hl, he, h1, h2, h3⟩

end Instance

/-! ### instances -/

def bsEuropean : ModClass := ⟨"BSEuropeanOption", .plain .european⟩
def bsBinary : ModClass := ⟨"BSEuropeanBinaryOption", .plain .binary⟩
def bsAmerican : ModClass := ⟨"BSAmericanBinaryOption", .pathDep .americanBinary⟩
def bsLookback : ModClass := ⟨"BSLookbackOption", .pathDep .lookback⟩
/-- a user subclass of the American-binary module -/
def userAmerican : ModClass := ⟨"VerifBSAmericanBinary", .pathDep .americanBinary⟩

/-- the registrations of the library at import, in the order they happen -/
def libHistory : List (String × ModClass) :=
  [("AmericanBinaryOption", bsAmerican), ("EuropeanOption", bsEuropean), ("EuropeanBinaryOption", bsBinary),
   ("LookbackOption", bsLookback)]

/-- … followed by what a user registers: a renamed binary, a one-touch below the library binary, a one-touch two
levels below it (its direct parent registered BEFORE it with the binary module), a call on the maximum -/
def userHistory : List (String × ModClass) :=
  libHistory ++ [("VerifDigital", bsBinary), ("VerifOneTouchOption", bsAmerican), ("VerifOneTouch2", userAmerican),
    ("VerifMaxCall", bsLookback)]

def oneTouch : DerivClass := ⟨"VerifOneTouchOption", ["EuropeanBinaryOption", "BaseDerivative", "object"]⟩
def oneTouch2 : DerivClass := ⟨"VerifOneTouch2", ["VerifDigital", "EuropeanBinaryOption", "BaseDerivative", "object"]⟩
def unregistered : DerivClass := ⟨"VerifUnregistered", ["EuropeanOption", "BaseDerivative", "object"]⟩

/-- every class of the MRO of the two-level subclass but the root classes is registered — with three different
module classes, the parents first; the subclass gets its own, the parents keep theirs, an unregistered subclass of
the European option raises although `EuropeanOption` is the second name of the registry -/
example :
    (Registry.ofHistory userHistory).resolve oneTouch2 = .ok userAmerican ∧
    (Registry.ofHistory userHistory).resolve oneTouch = .ok bsAmerican ∧
    (Registry.ofHistory userHistory).resolve ⟨"VerifDigital", ["EuropeanBinaryOption"]⟩ = .ok bsBinary ∧
    (Registry.ofHistory userHistory).resolve ⟨"EuropeanBinaryOption", ["BaseDerivative"]⟩ = .ok bsBinary ∧
    (Registry.ofHistory userHistory).resolve unregistered = .error (.lower .keyError) ∧
    (Registry.ofHistory userHistory).names =
      ["AmericanBinaryOption", "EuropeanOption", "EuropeanBinaryOption", "LookbackOption", "VerifDigital",
       "VerifOneTouchOption", "VerifOneTouch2", "VerifMaxCall"] := by
  refine ⟨?_, ?_, ?_, ?_, ?_, ?_⟩
  · exact resolve_own_not_parent (libHistory ++ [("VerifDigital", bsBinary), ("VerifOneTouchOption", bsAmerican)])
      [("VerifMaxCall", bsLookback)] oneTouch2 userAmerican (by simp [oneTouch2])
  · exact resolve_own_not_parent (libHistory ++ [("VerifDigital", bsBinary)])
      [("VerifOneTouch2", userAmerican), ("VerifMaxCall", bsLookback)] oneTouch bsAmerican (by simp [oneTouch])
  · rw [resolve_ok_iff]; simp [lastRegistered, userHistory, libHistory]
  · rw [resolve_ok_iff]; simp [lastRegistered, userHistory, libHistory]
  · exact resolve_unregistered _ _ (by simp [unregistered, userHistory, libHistory])
  · simp [Registry.ofHistory, Registry.registerAll, Registry.register, Registry.assign, Registry.names,
      Registry.empty, userHistory, libHistory]

/-- registering the subclass BEFORE its parents (or the parents again afterwards) changes nothing for it;
registering the subclass again replaces its module in place -/
example :
    (Registry.ofHistory ([("VerifOneTouch2", userAmerican)] ++ libHistory ++ [("VerifDigital", bsBinary),
        ("EuropeanBinaryOption", bsEuropean)])).resolve oneTouch2 = .ok userAmerican ∧
    (Registry.ofHistory (userHistory ++ [("VerifOneTouch2", bsAmerican)])).resolve oneTouch2 = .ok bsAmerican ∧
    (Registry.ofHistory (userHistory ++ [("VerifOneTouch2", bsAmerican)])).names
      = (Registry.ofHistory userHistory).names := by
  refine ⟨?_, ?_, ?_⟩
  · rw [resolve_ok_iff]; simp [lastRegistered, libHistory, oneTouch2]
  · exact resolve_own_not_parent userHistory [] oneTouch2 bsAmerican (by simp)
  · simp [Registry.ofHistory, Registry.registerAll, Registry.register, Registry.assign, Registry.names,
      Registry.empty, userHistory, libHistory]

/-- the hypotheses of `one_touch_subclass_one_after_hit` hold for the two-level one-touch on the path 1, 2, 3/2 of
Lemmas/C09Modules at step 1: the module handed out is the user's American-binary class and quotes one; a put of
that class is rejected; a put of the renamed binary class is accepted -/
example :
    (∃ mod, blackScholes (Registry.ofHistory userHistory) oneTouch2 (⟨exMk, true, true, true⟩ : Deriv ℝ)
        = .ok (userAmerican, mod) ∧ modulePrice mod {} 1 = .ok 1) ∧
    blackScholes (Registry.ofHistory userHistory) oneTouch2 (⟨exMk, false, true, true⟩ : Deriv ℝ)
      = .error .valueError ∧
    (∃ mod, blackScholes (Registry.ofHistory userHistory) ⟨"VerifDigital", ["EuropeanBinaryOption"]⟩
      (⟨exMk, false, true, true⟩ : Deriv ℝ) = .ok (bsBinary, mod) ∧ mod.call = false) := by
  have h2 : lastRegistered userHistory oneTouch2.name = some userAmerican := by
    simp [lastRegistered, userHistory, libHistory, oneTouch2]
  refine ⟨?_, ?_, ?_⟩
  · exact one_touch_subclass_one_after_hit (d := ⟨exMk, true, true, true⟩) h2 rfl rfl rfl rfl
      (i := 1) ⟨by simp [exMk], by simp [exMk]⟩ (g := {}) rfl (by norm_num [rT, ownT, exMk])
      (by simp [rV, ownV, exMk]) (by simp [exMk]) (Nat.zero_le 1) (by simp [exMk])
  · exact (blackScholes_error_iff _ _ _ _).2 (Or.inr ⟨userAmerican, .americanBinary,
      (resolve_ok_iff _ _ _).2 h2, rfl, rfl, rfl⟩)
  · refine ⟨_, (blackScholes_ofHistory_ok_iff _ _ _ _ _).2 ⟨?_, Or.inr ⟨_, rfl⟩, rfl⟩, rfl⟩
    simp [lastRegistered, userHistory, libHistory]

/-- the history of the harness (harness/c09.py `user_classes`): two names are registered twice, with the European module
first; the LAST registration counts (the call on the maximum gets the lookback module although it inherits from
`EuropeanOption` and was itself registered with the European module before) and the names keep the place of their first
registration -/
example :
    let h := libHistory ++ [("VerifMaxCall", bsEuropean), ("VerifCall", bsEuropean),
      ("VerifCall", ⟨"VerifBSEuropean", .plain .european⟩), ("VerifDigital", bsBinary),
      ("VerifOneTouchOption", bsAmerican), ("VerifMaxCall", bsLookback)]
    (Registry.ofHistory h).resolve ⟨"VerifMaxCall", ["EuropeanOption", "BaseDerivative"]⟩ = .ok bsLookback ∧
    (Registry.ofHistory h).resolve ⟨"VerifCall", ["EuropeanOption", "BaseDerivative"]⟩
      = .ok ⟨"VerifBSEuropean", .plain .european⟩ ∧
    (Registry.ofHistory h).resolve ⟨"EuropeanOption", ["BaseDerivative"]⟩ = .ok bsEuropean ∧
    (Registry.ofHistory h).names =
      ["AmericanBinaryOption", "EuropeanOption", "EuropeanBinaryOption", "LookbackOption", "VerifMaxCall",
       "VerifCall", "VerifDigital", "VerifOneTouchOption"] := by
  refine ⟨?_, ?_, ?_, ?_⟩
  · rw [resolve_ok_iff]; simp [lastRegistered, libHistory]
  · rw [resolve_ok_iff]; simp [lastRegistered, libHistory]
  · rw [resolve_ok_iff]; simp [lastRegistered, libHistory]
  · simp [Registry.ofHistory, Registry.registerAll, Registry.register, Registry.assign, Registry.names,
      Registry.empty, libHistory]

end PfVerif.C09Factory
