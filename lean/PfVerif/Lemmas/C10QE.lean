/-
  C10 (CIR / Heston part) — the moment matching of Andersen's quadratic-exponential scheme as coded
  in `generate_cir` (`Model/Stoch.lean: cirStep`).

  Given the exact CIR conditional mean `m` and variance `s²` of the next variance (`psi = s²/m²`):
  * quadratic branch `a (b + Z)²`, `Z ~ N(0,1)`: mean `a(1 + b²)`, variance `2a²(1 + 2b²)`; with the
    coded `b² = 2/psi − 1 + √(2/psi)·√(2/psi − 1)`, `a = m/(1 + b²)` these are `m` and `psi·m²`
    (for `0 < psi ≤ 2`);
  * exponential branch `0` if `U ≤ p`, `log((1−p)/(1−U))/beta` if `U > p`, `U ~ U(0,1)`: mean
    `(1−p)/beta`, second moment `2(1−p)/beta²`; with the coded `p = (psi−1)/(psi+1)`,
    `beta = (1−p)/m` these give mean `m` and variance `psi·m²` (for `psi ≥ 1`).
  Expectations over the normal draw are integrals against `phi`, over the uniform draw integrals
  over `(0,1]` (as in Props/C10.lean; the law of the draws is the trusted base).
-/
import PfVerif.Model.Stoch
import PfVerif.Lemmas.GaussMoments
import Mathlib.Analysis.SpecialFunctions.Integrals.Basic
import Mathlib.Analysis.SpecialFunctions.Log.NegMulLog

namespace PfVerif.C10QEAux
open PfVerif Real MeasureTheory Set

/-! ### third and fourth moments of the standard normal -/

/-- `zⁿ φ(z)` is integrable -/
theorem pow_mul_phi_integrable (n : ℕ) : Integrable fun z : ℝ => z ^ n * phi z := by
  have h : (fun z : ℝ => z ^ n * phi z)
      = fun z => (z ^ ((n : ℕ) : ℝ) * Real.exp (-(1 / 2 : ℝ) * z ^ 2)) / Real.sqrt (2 * π) := by
    funext z; rw [phi_eq, Real.rpow_natCast]; ring
  rw [h]
  exact (integrable_rpow_mul_exp_neg_mul_sq (by norm_num : (0 : ℝ) < 1 / 2)
    (by have : (0 : ℝ) ≤ (n : ℝ) := Nat.cast_nonneg n
        linarith)).div_const _

/-- `E[Z³] = 0` (odd integrand) -/
theorem integral_cube_mul_phi : ∫ z, z ^ 3 * phi z = 0 := by
  have h := integral_neg_eq_self (fun z : ℝ => z ^ 3 * phi z) volume
  have e : (fun z : ℝ => (-z) ^ 3 * phi (-z)) = fun z => -(z ^ 3 * phi z) := by
    funext z; rw [phi_neg]; ring
  simp only [e] at h
  rw [integral_neg] at h
  linarith

/-- `E[Z⁴] = 3` (integration by parts: `(−φ)' = z φ`) -/
theorem integral_fourth_mul_phi : ∫ z, z ^ 4 * phi z = 3 := by
  have key := integral_mul_deriv_eq_deriv_mul_of_integrable (A := ℝ)
    (u := fun z => z ^ 3) (v := fun z => -phi z) (u' := fun z => 3 * z ^ 2)
    (v' := fun z => z * phi z)
    (fun x _ => by simpa using hasDerivAt_pow 3 x)
    (fun x _ => by
      have h : HasDerivAt (fun z => -phi z) (-(-x * phi x)) x := (BSCalc.phi_hasDerivAt x).neg
      have e : -(-x * phi x) = x * phi x := by ring
      rw [e] at h
      exact h)
    (by
      have e : ((fun z : ℝ => z ^ 3) * fun z => z * phi z) = fun z => z ^ 4 * phi z := by
        funext z; simp only [Pi.mul_apply]; ring
      rw [e]; exact pow_mul_phi_integrable 4)
    (by
      have e : ((fun z : ℝ => 3 * z ^ 2) * fun z => -phi z) = fun z => (-3) * (z ^ 2 * phi z) := by
        funext z; simp only [Pi.mul_apply]; ring
      rw [e]; exact (pow_mul_phi_integrable 2).const_mul _)
    (by
      have e : ((fun z : ℝ => z ^ 3) * fun z => -phi z) = fun z => -(z ^ 3 * phi z) := by
        funext z; simp
      rw [e]; exact (pow_mul_phi_integrable 3).neg)
  have e1 : (fun z : ℝ => z ^ 4 * phi z) = fun z => z ^ 3 * (z * phi z) := by funext z; ring
  have e2 : (fun z : ℝ => 3 * z ^ 2 * -phi z) = fun z => (-3) * (z ^ 2 * phi z) := by
    funext z; ring
  rw [e1, key, e2, integral_const_mul, integral_sq_mul_phi]
  ring

/-- a quartic polynomial against `φ` -/
theorem quartic_mul_phi_integrable (c0 c1 c2 c3 c4 : ℝ) :
    Integrable fun z : ℝ => (c0 + c1 * z + c2 * z ^ 2 + c3 * z ^ 3 + c4 * z ^ 4) * phi z := by
  have e : (fun z : ℝ => (c0 + c1 * z + c2 * z ^ 2 + c3 * z ^ 3 + c4 * z ^ 4) * phi z)
      = fun z => c0 * phi z + c1 * (z * phi z) + c2 * (z ^ 2 * phi z) + c3 * (z ^ 3 * phi z)
          + c4 * (z ^ 4 * phi z) := by
    funext z; ring
  rw [e]
  exact ((((phi_integrable.const_mul _).add (id_mul_phi_integrable.const_mul _)).add
    ((pow_mul_phi_integrable 2).const_mul _)).add ((pow_mul_phi_integrable 3).const_mul _)).add
    ((pow_mul_phi_integrable 4).const_mul _)

/-- `E[c₀ + c₁Z + c₂Z² + c₃Z³ + c₄Z⁴] = c₀ + c₂ + 3c₄` -/
theorem integral_quartic_mul_phi (c0 c1 c2 c3 c4 : ℝ) :
    ∫ z, (c0 + c1 * z + c2 * z ^ 2 + c3 * z ^ 3 + c4 * z ^ 4) * phi z = c0 + c2 + 3 * c4 := by
  have e : (fun z : ℝ => (c0 + c1 * z + c2 * z ^ 2 + c3 * z ^ 3 + c4 * z ^ 4) * phi z)
      = fun z => c0 * phi z + c1 * (z * phi z) + c2 * (z ^ 2 * phi z) + c3 * (z ^ 3 * phi z)
          + c4 * (z ^ 4 * phi z) := by
    funext z; ring
  have I0 : Integrable fun z : ℝ => c0 * phi z := phi_integrable.const_mul _
  have I1 : Integrable fun z : ℝ => c1 * (z * phi z) := id_mul_phi_integrable.const_mul _
  have I2 : Integrable fun z : ℝ => c2 * (z ^ 2 * phi z) := (pow_mul_phi_integrable 2).const_mul _
  have I3 : Integrable fun z : ℝ => c3 * (z ^ 3 * phi z) := (pow_mul_phi_integrable 3).const_mul _
  have I4 : Integrable fun z : ℝ => c4 * (z ^ 4 * phi z) := (pow_mul_phi_integrable 4).const_mul _
  have J1 : Integrable fun z : ℝ => c0 * phi z + c1 * (z * phi z) := I0.add I1
  have J2 : Integrable fun z : ℝ => c0 * phi z + c1 * (z * phi z) + c2 * (z ^ 2 * phi z) :=
    J1.add I2
  have J3 : Integrable fun z : ℝ => c0 * phi z + c1 * (z * phi z) + c2 * (z ^ 2 * phi z)
      + c3 * (z ^ 3 * phi z) := J2.add I3
  rw [e, integral_add J3 I4, integral_add J2 I3, integral_add J1 I2, integral_add I0 I1,
    integral_const_mul, integral_const_mul, integral_const_mul, integral_const_mul,
    integral_const_mul, integral_phi, integral_id_mul_phi, integral_sq_mul_phi,
    integral_cube_mul_phi, integral_fourth_mul_phi]
  ring

/-! ### `∫₀¹ log² = 2` and the affine change of variable of the exponential branch -/

/-- an antiderivative of `log²`, written so that it is continuous at `0`
(`w log² w = 4 (√w log √w)²` for `w ≥ 0`) -/
noncomputable def logSqPrim (w : ℝ) : ℝ :=
  4 * (Real.sqrt w * Real.log (Real.sqrt w)) ^ 2 - 2 * (w * Real.log w) + 2 * w

theorem logSqPrim_continuous : Continuous logSqPrim := by
  unfold logSqPrim
  have h1 : Continuous fun w : ℝ => Real.sqrt w * Real.log (Real.sqrt w) :=
    Real.continuous_mul_log.comp Real.continuous_sqrt
  exact ((continuous_const.mul (h1.pow 2)).sub (continuous_const.mul Real.continuous_mul_log)).add
    (continuous_const.mul continuous_id)

theorem logSqPrim_eq (w : ℝ) (hw : 0 ≤ w) :
    logSqPrim w = w * Real.log w ^ 2 - 2 * (w * Real.log w) + 2 * w := by
  unfold logSqPrim
  rw [Real.log_sqrt hw, mul_pow, Real.sq_sqrt hw]
  ring

theorem logSqPrim_hasDerivAt (w : ℝ) (hw : 0 < w) : HasDerivAt logSqPrim (Real.log w ^ 2) w := by
  have hl : HasDerivAt Real.log w⁻¹ w := Real.hasDerivAt_log hw.ne'
  have hid : HasDerivAt (fun x : ℝ => x) 1 w := hasDerivAt_id w
  have h1 : HasDerivAt (fun x : ℝ => x * Real.log x ^ 2 - 2 * (x * Real.log x) + 2 * x)
      (1 * Real.log w ^ 2 + w * (2 * Real.log w ^ (2 - 1) * w⁻¹)
        - 2 * (1 * Real.log w + w * w⁻¹) + 2 * 1) w :=
    ((hid.mul (hl.pow 2)).sub ((hid.mul hl).const_mul 2)).add (hid.const_mul 2)
  have e : 1 * Real.log w ^ 2 + w * (2 * Real.log w ^ (2 - 1) * w⁻¹)
        - 2 * (1 * Real.log w + w * w⁻¹) + 2 * 1 = Real.log w ^ 2 := by
    field_simp
    ring
  rw [e] at h1
  refine h1.congr_of_eventuallyEq ?_
  filter_upwards [lt_mem_nhds hw] with x hx
  exact logSqPrim_eq x hx.le

theorem intervalIntegrable_log_sq :
    IntervalIntegrable (fun w : ℝ => Real.log w ^ 2) volume 0 1 :=
  intervalIntegral.intervalIntegrable_deriv_of_nonneg (g := logSqPrim)
    logSqPrim_continuous.continuousOn
    (fun x hx => logSqPrim_hasDerivAt x (by simpa using hx.1))
    (fun x _ => sq_nonneg _)

/-- `∫₀¹ log² w dw = 2` -/
theorem integral_log_sq : ∫ w in (0 : ℝ)..1, Real.log w ^ 2 = 2 := by
  rw [intervalIntegral.integral_eq_sub_of_hasDerivAt_of_le zero_le_one
    logSqPrim_continuous.continuousOn (fun x hx => logSqPrim_hasDerivAt x hx.1)
    intervalIntegrable_log_sq]
  simp [logSqPrim]

/-- `∫₀¹ log w dw = −1` -/
theorem integral_log_zero_one : ∫ w in (0 : ℝ)..1, Real.log w = -1 := by
  rw [integral_log]; simp

/-- the substitution `w = (1 − u)/(1 − p)` maps `u ∈ (p, 1]` to `w ∈ [0, 1)` -/
theorem integral_comp_qe (f : ℝ → ℝ) (p : ℝ) (hp : p < 1) :
    ∫ u in p..1, f ((1 - u) / (1 - p)) = (1 - p) * ∫ w in (0 : ℝ)..1, f w := by
  have hc : (1 - p) ≠ 0 := by linarith
  have e : (fun u : ℝ => f ((1 - u) / (1 - p))) = fun u => f (1 / (1 - p) - u / (1 - p)) := by
    funext u; congr 1; ring
  rw [e, intervalIntegral.integral_comp_sub_div f hc, sub_self, ← sub_div, div_self hc,
    smul_eq_mul]

/-- `log((1 − p)/(1 − u)) = −log w` with `w = (1 − u)/(1 − p)` (no side condition) -/
theorem log_qe_eq (p u : ℝ) : Real.log ((1 - p) / (1 - u)) = -Real.log ((1 - u) / (1 - p)) := by
  rw [← Real.log_inv, inv_div]

/-- general upper limit: `u ∈ (p, b]` ↦ `w ∈ [(1 − b)/(1 − p), 1)` -/
theorem integral_comp_qe' (f : ℝ → ℝ) (p b : ℝ) (hp : p < 1) :
    ∫ u in p..b, f ((1 - u) / (1 - p)) = (1 - p) * ∫ w in (1 - b) / (1 - p)..1, f w := by
  have hc : (1 - p) ≠ 0 := by linarith
  have e : (fun u : ℝ => f ((1 - u) / (1 - p))) = fun u => f (1 / (1 - p) - u / (1 - p)) := by
    funext u; congr 1; ring
  rw [e, intervalIntegral.integral_comp_sub_div f hc, ← sub_div, ← sub_div, div_self hc,
    smul_eq_mul]

theorem intervalIntegral_congr_Ioc {f g : ℝ → ℝ} {a b : ℝ} (hab : a ≤ b)
    (h : EqOn f g (Ioc a b)) : ∫ u in a..b, f u = ∫ u in a..b, g u := by
  rw [intervalIntegral.integral_of_le hab, intervalIntegral.integral_of_le hab]
  exact setIntegral_congr_fun measurableSet_Ioc h

theorem intervalIntegrable_congr_Ioc {f g : ℝ → ℝ} {a b : ℝ} (hab : a ≤ b)
    (h : EqOn f g (Ioc a b)) (hg : IntervalIntegrable g volume a b) :
    IntervalIntegrable f volume a b := by
  rw [intervalIntegrable_iff_integrableOn_Ioc_of_le hab] at hg ⊢
  exact hg.congr_fun h.symm measurableSet_Ioc

/-! ### the two branches as they appear inside `cirStep` -/

/-- exact CIR conditional mean `theta + (v − theta) e^{−kappa dt}` (the `m` of `cirStep`) -/
noncomputable def cirM (kappa theta dt v : ℝ) : ℝ := theta + (v - theta) * Real.exp (-kappa * dt)

/-- exact CIR conditional variance (the `s2` of `cirStep`) -/
noncomputable def cirS2 (kappa theta sigma dt v : ℝ) : ℝ :=
  v * (sigma * sigma) * Real.exp (-kappa * dt) * (1 - Real.exp (-kappa * dt)) / kappa
    + theta * (sigma * sigma) * ((1 - Real.exp (-kappa * dt)) * (1 - Real.exp (-kappa * dt)))
      / (2 * kappa)

/-- the `psi = s2 / max(m², eps)` of `cirStep` -/
noncomputable def cirPsi (kappa theta sigma dt eps v : ℝ) : ℝ :=
  cirS2 kappa theta sigma dt v / max (cirM kappa theta dt v * cirM kappa theta dt v) eps

/-- the coded `b²` (argument of the outer `sqrt`) -/
noncomputable def qeB2 (psi : ℝ) : ℝ :=
  2 / psi - 1 + Real.sqrt (2 / psi) * Real.sqrt (2 / psi - 1)

/-- `next_0` of `cirStep`: the quadratic branch, as a function of `m`, `psi` and the normal draw -/
noncomputable def next0 (m psi z : ℝ) : ℝ :=
  m / (1 + Real.sqrt (qeB2 psi) * Real.sqrt (qeB2 psi))
    * ((Real.sqrt (qeB2 psi) + z) * (Real.sqrt (qeB2 psi) + z))

/-- `next_1` of `cirStep`: the exponential branch with both clamps, as a function of `m`, `psi`
and the uniform draw -/
noncomputable def next1 (m psi eps u : ℝ) : ℝ :=
  if (psi - 1) / (psi + 1) < u then
    Real.log ((1 - (psi - 1) / (psi + 1)) / max (1 - u) eps)
      / ((1 - (psi - 1) / (psi + 1)) / max m eps)
  else 0

/-- the exponential branch without clamps: `0` if `u ≤ p`, `log((1 − p)/(1 − u))/beta` if `u > p` -/
noncomputable def qeExp (p beta u : ℝ) : ℝ :=
  if p < u then Real.log ((1 - p) / (1 - u)) / beta else 0

/-- the exponential branch with the clamp `max(1 − u, eps)` as coded -/
noncomputable def qeExpC (p beta eps u : ℝ) : ℝ :=
  if p < u then Real.log ((1 - p) / max (1 - u) eps) / beta else 0

theorem next1_eq (m psi eps u : ℝ) :
    next1 m psi eps u
      = qeExpC ((psi - 1) / (psi + 1)) ((1 - (psi - 1) / (psi + 1)) / max m eps) eps u := rfl

/-- where the clamp on `1 − u` is inactive the coded branch is the unclamped one -/
theorem qeExpC_eq_qeExp (p beta eps u : ℝ) (hu : eps ≤ 1 - u) :
    qeExpC p beta eps u = qeExp p beta u := by
  unfold qeExpC qeExp
  rw [max_eq_left hu]

/-- `cirStep` is the selection between the two branches by `psi` alone -/
theorem cirStep_eq (kappa theta sigma dt eps psiCrit v zi ui : ℝ) :
    cirStep kappa theta sigma dt eps psiCrit v zi ui
      = if cirPsi kappa theta sigma dt eps v ≤ psiCrit
        then next0 (cirM kappa theta dt v) (cirPsi kappa theta sigma dt eps v) zi
        else next1 (cirM kappa theta dt v) (cirPsi kappa theta sigma dt eps v) eps ui := rfl

/-- expectation over `(Z, U)`, `Z ~ N(0,1)` and `U ~ U(0,1)` independent, of `g (X_k)` for the
chain `X_{j+1} = step X_j Z_{j+1} U_{j+1}` started at `x` (tower property, as `C10Aux.iterE`) -/
noncomputable def iterE2 (step : ℝ → ℝ → ℝ → ℝ) : ℕ → (ℝ → ℝ) → ℝ → ℝ
  | 0, g, x => g x
  | k + 1, g, x => ∫ z, (∫ u in Ioc (0 : ℝ) 1, iterE2 step k g (step x z u)) * phi z

end PfVerif.C10QEAux

namespace PfVerif.C10QE
open PfVerif PfVerif.C10QEAux Real MeasureTheory Set

/-! ## quadratic branch `a (b + Z)²` -/

/-- mean of the quadratic branch: `E[a (b + Z)²] = a (1 + b²)` -/
theorem qe_quadratic_mean (a b : ℝ) : ∫ z, a * (b + z) ^ 2 * phi z = a * (1 + b ^ 2) := by
  have e : (fun z : ℝ => a * (b + z) ^ 2 * phi z)
      = fun z => (a * b ^ 2 + 2 * a * b * z + a * z ^ 2 + 0 * z ^ 3 + 0 * z ^ 4) * phi z := by
    funext z; ring
  rw [e, integral_quartic_mul_phi]
  ring

/-- second moment of the quadratic branch: `E[(a (b + Z)²)²] = a² (3 + 6b² + b⁴)` -/
theorem qe_quadratic_second_moment (a b : ℝ) :
    ∫ z, (a * (b + z) ^ 2) ^ 2 * phi z = a ^ 2 * (3 + 6 * b ^ 2 + b ^ 4) := by
  have e : (fun z : ℝ => (a * (b + z) ^ 2) ^ 2 * phi z)
      = fun z => (a ^ 2 * b ^ 4 + 4 * a ^ 2 * b ^ 3 * z + 6 * a ^ 2 * b ^ 2 * z ^ 2
          + 4 * a ^ 2 * b * z ^ 3 + a ^ 2 * z ^ 4) * phi z := by
    funext z; ring
  rw [e, integral_quartic_mul_phi]
  ring

/-- variance of the quadratic branch: `E[(a (b + Z)² − a(1 + b²))²] = 2a² (1 + 2b²)` -/
theorem qe_quadratic_variance (a b : ℝ) :
    ∫ z, (a * (b + z) ^ 2 - a * (1 + b ^ 2)) ^ 2 * phi z = 2 * a ^ 2 * (1 + 2 * b ^ 2) := by
  have e : (fun z : ℝ => (a * (b + z) ^ 2 - a * (1 + b ^ 2)) ^ 2 * phi z)
      = fun z => (a ^ 2 + (-(4 * a ^ 2 * b)) * z + (4 * a ^ 2 * b ^ 2 - 2 * a ^ 2) * z ^ 2
          + 4 * a ^ 2 * b * z ^ 3 + a ^ 2 * z ^ 4) * phi z := by
    funext z; ring
  rw [e, integral_quartic_mul_phi]
  ring

/-- variance = second moment − mean² -/
theorem qe_quadratic_variance_eq (a b : ℝ) :
    (∫ z, (a * (b + z) ^ 2) ^ 2 * phi z) - (∫ z, a * (b + z) ^ 2 * phi z) ^ 2
      = 2 * a ^ 2 * (1 + 2 * b ^ 2) := by
  rw [qe_quadratic_second_moment, qe_quadratic_mean]
  ring

/-- the coded `b²` is non-negative when `psi ≤ 2` -/
theorem qe_b2_nonneg (psi : ℝ) (h0 : 0 < psi) (h2 : psi ≤ 2) :
    0 ≤ 2 / psi - 1 + Real.sqrt (2 / psi) * Real.sqrt (2 / psi - 1) := by
  have hx : 1 ≤ 2 / psi := by rw [le_div_iff₀ h0]; linarith
  have := mul_nonneg (Real.sqrt_nonneg (2 / psi)) (Real.sqrt_nonneg (2 / psi - 1))
  linarith

/-- moment matching of the quadratic branch: with the coded `b²` and `a`, the mean is `m` and the
variance is `psi·m²` -/
theorem qe_quadratic_matches (psi m : ℝ) (h0 : 0 < psi) (h2 : psi ≤ 2) :
    let b2 := 2 / psi - 1 + Real.sqrt (2 / psi) * Real.sqrt (2 / psi - 1)
    let a := m / (1 + b2)
    a * (1 + b2) = m ∧ 2 * a ^ 2 * (1 + 2 * b2) = psi * m ^ 2 := by
  intro b2 a
  have hx : 1 ≤ 2 / psi := by rw [le_div_iff₀ h0]; linarith
  have hb2 : 0 ≤ b2 := qe_b2_nonneg psi h0 h2
  have h1 : (1 + b2) ≠ 0 := by positivity
  set x := 2 / psi with hxdef
  have hpsi : psi = 2 / x := by rw [hxdef]; field_simp
  have hx0 : 0 < x := by linarith
  set s := Real.sqrt x * Real.sqrt (x - 1) with hs
  have hs2 : s ^ 2 = x * (x - 1) := by
    rw [hs, mul_pow, Real.sq_sqrt hx0.le, Real.sq_sqrt (by linarith)]
  have hb2e : b2 = x - 1 + s := rfl
  refine ⟨by simp only [a]; field_simp, ?_⟩
  simp only [a]
  rw [hpsi, div_pow]
  field_simp
  rw [hb2e]
  nlinarith [hs2]

/-! ## exponential branch: `0` if `U ≤ p`, `log((1 − p)/(1 − U))/beta` if `U > p` -/

/-- mean of the exponential branch (the integrand vanishes on `U ≤ p`) -/
theorem qe_exponential_mean (p beta : ℝ) (hp : p < 1) :
    ∫ u in Set.Ioc p 1, Real.log ((1 - p) / (1 - u)) / beta = (1 - p) / beta := by
  rw [← intervalIntegral.integral_of_le hp.le]
  have e : (fun u : ℝ => Real.log ((1 - p) / (1 - u)) / beta)
      = fun u => (fun w => -Real.log w / beta) ((1 - u) / (1 - p)) := by
    funext u; rw [log_qe_eq]
  rw [e, integral_comp_qe (fun w => -Real.log w / beta) p hp]
  simp only [neg_div]
  rw [intervalIntegral.integral_neg, intervalIntegral.integral_div, integral_log_zero_one]
  ring

/-- second moment of the exponential branch -/
theorem qe_exponential_second_moment (p beta : ℝ) (hp : p < 1) :
    ∫ u in Set.Ioc p 1, (Real.log ((1 - p) / (1 - u)) / beta) ^ 2 = 2 * (1 - p) / beta ^ 2 := by
  rw [← intervalIntegral.integral_of_le hp.le]
  have e : (fun u : ℝ => (Real.log ((1 - p) / (1 - u)) / beta) ^ 2)
      = fun u => (fun w => Real.log w ^ 2 / beta ^ 2) ((1 - u) / (1 - p)) := by
    funext u; rw [log_qe_eq]; ring
  rw [e, integral_comp_qe (fun w => Real.log w ^ 2 / beta ^ 2) p hp,
    intervalIntegral.integral_div, integral_log_sq]
  ring

/-- moment matching of the exponential branch: with the coded `p` and `beta` the mean is `m` and
the variance (second moment − mean²) is `psi·m²` -/
theorem qe_exponential_matches (psi m : ℝ) (hpsi : 1 ≤ psi) (hm : 0 < m) :
    let p := (psi - 1) / (psi + 1)
    let beta := (1 - p) / m
    0 ≤ p ∧ p < 1 ∧ 0 < beta ∧ (1 - p) / beta = m ∧
      2 * (1 - p) / beta ^ 2 - m ^ 2 = psi * m ^ 2 := by
  intro p beta
  have h1 : 0 < psi + 1 := by linarith
  have hq : 1 - p = 2 / (psi + 1) := by simp only [p]; field_simp; ring
  have hq0 : 0 < 1 - p := by rw [hq]; positivity
  have hb : beta = 2 / (psi + 1) / m := by simp only [beta]; rw [hq]
  refine ⟨div_nonneg (by linarith) h1.le, by linarith, div_pos hq0 hm, ?_, ?_⟩
  · rw [hb, hq]; field_simp
  · rw [hb, hq]; field_simp; ring

/-! ### the exponential branch over the whole uniform draw `U ∈ (0, 1]` -/

theorem qeExp_integrableOn (p beta : ℝ) (hp0 : 0 ≤ p) (hp : p < 1) (hb : beta ≠ 0) :
    IntervalIntegrable (qeExp p beta) volume 0 p ∧ IntervalIntegrable (qeExp p beta) volume p 1 ∧
    IntervalIntegrable (fun u => qeExp p beta u ^ 2) volume 0 p ∧
    IntervalIntegrable (fun u => qeExp p beta u ^ 2) volume p 1 := by
  have hA : EqOn (qeExp p beta) (fun _ => 0) (Ioc 0 p) := fun u hu => by
    simp [qeExp, not_lt.2 hu.2]
  have hB : EqOn (qeExp p beta) (fun u => Real.log ((1 - p) / (1 - u)) / beta) (Ioc p 1) :=
    fun u hu => by simp [qeExp, hu.1]
  have hA2 : EqOn (fun u => qeExp p beta u ^ 2) (fun _ => 0) (Ioc 0 p) := fun u hu => by
    simp [hA hu]
  have hB2 : EqOn (fun u => qeExp p beta u ^ 2)
      (fun u => (Real.log ((1 - p) / (1 - u)) / beta) ^ 2) (Ioc p 1) := fun u hu => by
    simp only [hB hu]
  have h1p : (1 - p) ≠ 0 := by linarith
  refine ⟨intervalIntegrable_congr_Ioc hp0 hA intervalIntegrable_const,
    intervalIntegrable_congr_Ioc hp.le hB ?_,
    intervalIntegrable_congr_Ioc hp0 hA2 intervalIntegrable_const,
    intervalIntegrable_congr_Ioc hp.le hB2 ?_⟩
  · rw [intervalIntegrable_iff_integrableOn_Ioc_of_le hp.le]
    refine Integrable.of_integral_ne_zero ?_
    rw [qe_exponential_mean p beta hp]
    exact div_ne_zero h1p hb
  · rw [intervalIntegrable_iff_integrableOn_Ioc_of_le hp.le]
    refine Integrable.of_integral_ne_zero ?_
    rw [qe_exponential_second_moment p beta hp]
    exact div_ne_zero (mul_ne_zero two_ne_zero h1p) (pow_ne_zero 2 hb)

/-- mean of the unclamped exponential branch over `U ~ U(0,1)` -/
theorem qe_exponential_mean_full (p beta : ℝ) (hp0 : 0 ≤ p) (hp : p < 1) (hb : beta ≠ 0) :
    ∫ u in Set.Ioc (0 : ℝ) 1, qeExp p beta u = (1 - p) / beta := by
  obtain ⟨i1, i2, -, -⟩ := qeExp_integrableOn p beta hp0 hp hb
  rw [← intervalIntegral.integral_of_le zero_le_one,
    ← intervalIntegral.integral_add_adjacent_intervals i1 i2,
    intervalIntegral_congr_Ioc hp0 (g := fun _ => (0 : ℝ))
      (fun u hu => by simp [qeExp, not_lt.2 hu.2]),
    intervalIntegral_congr_Ioc hp.le (g := fun u => Real.log ((1 - p) / (1 - u)) / beta)
      (fun u hu => by simp [qeExp, hu.1]),
    intervalIntegral.integral_of_le hp.le, qe_exponential_mean p beta hp]
  simp

/-- second moment of the unclamped exponential branch over `U ~ U(0,1)` -/
theorem qe_exponential_second_moment_full (p beta : ℝ) (hp0 : 0 ≤ p) (hp : p < 1)
    (hb : beta ≠ 0) :
    ∫ u in Set.Ioc (0 : ℝ) 1, qeExp p beta u ^ 2 = 2 * (1 - p) / beta ^ 2 := by
  obtain ⟨-, -, i1, i2⟩ := qeExp_integrableOn p beta hp0 hp hb
  rw [← intervalIntegral.integral_of_le zero_le_one,
    ← intervalIntegral.integral_add_adjacent_intervals i1 i2,
    intervalIntegral_congr_Ioc hp0 (g := fun _ => (0 : ℝ))
      (fun u hu => by simp [qeExp, not_lt.2 hu.2]),
    intervalIntegral_congr_Ioc hp.le (g := fun u => (Real.log ((1 - p) / (1 - u)) / beta) ^ 2)
      (fun u hu => by simp [qeExp, hu.1]),
    intervalIntegral.integral_of_le hp.le, qe_exponential_second_moment p beta hp]
  simp

/-- variance of the unclamped exponential branch over `U ~ U(0,1)`, centred at any `c` -/
theorem qe_exponential_centered_full (p beta c : ℝ) (hp0 : 0 ≤ p) (hp : p < 1) (hb : beta ≠ 0) :
    ∫ u in Set.Ioc (0 : ℝ) 1, (qeExp p beta u - c) ^ 2
      = 2 * (1 - p) / beta ^ 2 - 2 * c * ((1 - p) / beta) + c ^ 2 := by
  obtain ⟨i1, i2, j1, j2⟩ := qeExp_integrableOn p beta hp0 hp hb
  have I1 : IntegrableOn (qeExp p beta) (Ioc 0 1) :=
    (intervalIntegrable_iff_integrableOn_Ioc_of_le zero_le_one).1 (i1.trans i2)
  have I2 : IntegrableOn (fun u => qeExp p beta u ^ 2) (Ioc 0 1) :=
    (intervalIntegrable_iff_integrableOn_Ioc_of_le zero_le_one).1 (j1.trans j2)
  have Ic : IntegrableOn (fun _ : ℝ => c ^ 2) (Ioc 0 1) :=
    integrableOn_const (by simp [Real.volume_Ioc])
  have e : (fun u => (qeExp p beta u - c) ^ 2)
      = fun u => qeExp p beta u ^ 2 - 2 * c * qeExp p beta u + c ^ 2 := by
    funext u; ring
  have J : IntegrableOn (fun u => qeExp p beta u ^ 2 - 2 * c * qeExp p beta u) (Ioc 0 1) :=
    I2.sub (I1.const_mul _)
  rw [e, integral_add J Ic, integral_sub I2 (I1.const_mul _), integral_const_mul,
    qe_exponential_second_moment_full p beta hp0 hp hb, qe_exponential_mean_full p beta hp0 hp hb]
  simp

/-! ### the exponential branch with the clamp `max(1 − U, eps)`, exactly -/

/-- mean of the exponential branch AS CODED (clamp `max(1 − u, eps)` active on `u > 1 − eps`):
`(1 − p − eps)/beta`, i.e. the clamp lowers the mean `(1 − p)/beta` by `eps/beta` -/
theorem qe_exponential_mean_clamped (p beta eps : ℝ) (hp0 : 0 ≤ p) (heps : 0 < eps)
    (hpe : p ≤ 1 - eps) :
    ∫ u in Set.Ioc (0 : ℝ) 1, qeExpC p beta eps u = (1 - p - eps) / beta := by
  have hp1 : p < 1 := by linarith
  have hq0 : 0 < 1 - p := by linarith
  have he1 : 1 - eps ≤ 1 := by linarith
  have hA : EqOn (qeExpC p beta eps) (fun _ => 0) (Ioc 0 p) := fun u hu => by
    simp only [qeExpC]; rw [if_neg (not_lt.2 hu.2)]
  have hB : EqOn (qeExpC p beta eps) (fun u => Real.log ((1 - p) / (1 - u)) / beta)
      (Ioc p (1 - eps)) := fun u hu => by
    simp only [qeExpC]; rw [if_pos hu.1, max_eq_left (by linarith [hu.2])]
  have hC : EqOn (qeExpC p beta eps) (fun _ => Real.log ((1 - p) / eps) / beta)
      (Ioc (1 - eps) 1) := fun u hu => by
    simp only [qeExpC]
    rw [if_pos (lt_of_le_of_lt hpe hu.1), max_eq_right (by linarith [hu.1])]
  have cB : ContinuousOn (fun u => Real.log ((1 - p) / (1 - u)) / beta) (Icc p (1 - eps)) := by
    refine ContinuousOn.div_const (ContinuousOn.log (ContinuousOn.div continuousOn_const
      (continuousOn_const.sub continuousOn_id) ?_) ?_) _
    · intro u hu
      have h1u : 0 < 1 - u := by linarith [hu.2]
      exact h1u.ne'
    · intro u hu
      have h1u : 0 < 1 - u := by linarith [hu.2]
      exact (div_pos hq0 h1u).ne'
  have iA : IntervalIntegrable (qeExpC p beta eps) volume 0 p :=
    intervalIntegrable_congr_Ioc hp0 hA intervalIntegrable_const
  have iB : IntervalIntegrable (qeExpC p beta eps) volume p (1 - eps) :=
    intervalIntegrable_congr_Ioc hpe hB (cB.intervalIntegrable_of_Icc hpe)
  have iC : IntervalIntegrable (qeExpC p beta eps) volume (1 - eps) 1 :=
    intervalIntegrable_congr_Ioc he1 hC intervalIntegrable_const
  have eB : (fun u : ℝ => Real.log ((1 - p) / (1 - u)) / beta)
      = fun u => (fun w => -Real.log w / beta) ((1 - u) / (1 - p)) := by
    funext u; rw [log_qe_eq]
  have eL : Real.log ((1 - p) / eps) = -Real.log (eps / (1 - p)) := by
    rw [← Real.log_inv, inv_div]
  rw [← intervalIntegral.integral_of_le zero_le_one,
    ← intervalIntegral.integral_add_adjacent_intervals (iA.trans iB) iC,
    ← intervalIntegral.integral_add_adjacent_intervals iA iB,
    intervalIntegral_congr_Ioc hp0 hA, intervalIntegral_congr_Ioc hpe hB,
    intervalIntegral_congr_Ioc he1 hC, eB,
    integral_comp_qe' (fun w => -Real.log w / beta) p (1 - eps) hp1]
  simp only [neg_div, intervalIntegral.integral_neg, intervalIntegral.integral_div, integral_log,
    intervalIntegral.integral_const, sub_sub_cancel, eL, Real.log_one, smul_eq_mul, mul_zero,
    sub_zero]
  generalize Real.log (eps / (1 - p)) = L
  by_cases hb : beta = 0
  · simp [hb]
  · field_simp
    ring

/-- mean and variance of the unclamped exponential branch with the coded `p`, `beta`:
`m` and `psi·m²` -/
theorem qe_exponential_matches_full (psi m : ℝ) (hpsi : 1 ≤ psi) (hm : 0 < m) :
    (∫ u in Set.Ioc (0 : ℝ) 1,
        qeExp ((psi - 1) / (psi + 1)) ((1 - (psi - 1) / (psi + 1)) / m) u) = m ∧
    (∫ u in Set.Ioc (0 : ℝ) 1,
        (qeExp ((psi - 1) / (psi + 1)) ((1 - (psi - 1) / (psi + 1)) / m) u - m) ^ 2)
      = psi * m ^ 2 := by
  obtain ⟨hp0, hp1, hb, h1, h2⟩ := qe_exponential_matches psi m hpsi hm
  refine ⟨by rw [qe_exponential_mean_full _ _ hp0 hp1 hb.ne', h1], ?_⟩
  rw [qe_exponential_centered_full _ _ m hp0 hp1 hb.ne', h1]
  linarith

/-! ## the branches of `cirStep` -/

/-- the quadratic branch `next_0` has mean `m` — for EVERY `psi` (the mean is matched by
`a = m/(1 + b²)` alone) -/
theorem next0_affine (A B m psi : ℝ) : ∫ z, (A + B * next0 m psi z) * phi z = A + B * m := by
  unfold next0
  set b := Real.sqrt (qeB2 psi)
  have hb : 1 + b * b ≠ 0 := by nlinarith [mul_self_nonneg b]
  set a := m / (1 + b * b) with ha
  have e : (fun z : ℝ => (A + B * (a * ((b + z) * (b + z)))) * phi z)
      = fun z => ((A + B * a * b ^ 2) + 2 * B * a * b * z + B * a * z ^ 2 + 0 * z ^ 3
          + 0 * z ^ 4) * phi z := by
    funext z; ring
  rw [e, integral_quartic_mul_phi, ha]
  field_simp
  ring

theorem next0_mean (m psi : ℝ) : ∫ z, next0 m psi z * phi z = m := by
  have := next0_affine 0 1 m psi
  simpa using this

/-- the quadratic branch has variance `psi·m²` when `0 < psi ≤ 2` -/
theorem next0_variance (m psi : ℝ) (h0 : 0 < psi) (h2 : psi ≤ 2) :
    ∫ z, (next0 m psi z - m) ^ 2 * phi z = psi * m ^ 2 := by
  have hb2 : 0 ≤ qeB2 psi := qe_b2_nonneg psi h0 h2
  obtain ⟨hmean, hvar⟩ := qe_quadratic_matches psi m h0 h2
  have hsq : Real.sqrt (qeB2 psi) ^ 2 = qeB2 psi := Real.sq_sqrt hb2
  have e : (fun z : ℝ => (next0 m psi z - m) ^ 2 * phi z)
      = fun z => (m / (1 + qeB2 psi) * (Real.sqrt (qeB2 psi) + z) ^ 2
          - m / (1 + qeB2 psi) * (1 + Real.sqrt (qeB2 psi) ^ 2)) ^ 2 * phi z := by
    funext z
    unfold next0
    rw [hsq, ← pow_two, ← pow_two, hsq]
    have : m / (1 + qeB2 psi) * (1 + qeB2 psi) = m := hmean
    rw [this]
  rw [e, qe_quadratic_variance, hsq]
  exact hvar

/-- `psi = s²/m²` when the clamp on `m²` is inactive -/
theorem cirPsi_eq (kappa theta sigma dt eps v : ℝ)
    (h : eps ≤ cirM kappa theta dt v * cirM kappa theta dt v) :
    cirPsi kappa theta sigma dt eps v
      = cirS2 kappa theta sigma dt v / (cirM kappa theta dt v) ^ 2 := by
  unfold cirPsi
  rw [max_eq_left h, pow_two]

/-- QUADRATIC BRANCH of `cirStep` (`psi ≤ psiCrit`): the conditional mean over the normal draw is
the exact CIR conditional mean `theta + (v − theta) e^{−kappa dt}` — no condition on `eps`,
`sigma` or the uniform draw -/
theorem cirStep_mean_quadratic (kappa theta sigma dt eps psiCrit v ui : ℝ)
    (hbr : cirPsi kappa theta sigma dt eps v ≤ psiCrit) :
    ∫ z, cirStep kappa theta sigma dt eps psiCrit v z ui * phi z = cirM kappa theta dt v := by
  simp only [cirStep_eq, if_pos hbr]
  exact next0_mean _ _

/-- QUADRATIC BRANCH: the conditional variance is the exact CIR conditional variance `s²` (clamp on
`m²` inactive, `0 < psi ≤ 2`) -/
theorem cirStep_variance_quadratic (kappa theta sigma dt eps psiCrit v ui : ℝ)
    (hbr : cirPsi kappa theta sigma dt eps v ≤ psiCrit)
    (h0 : 0 < cirPsi kappa theta sigma dt eps v) (h2 : cirPsi kappa theta sigma dt eps v ≤ 2)
    (heps : 0 < eps) (hclamp : eps ≤ cirM kappa theta dt v * cirM kappa theta dt v) :
    ∫ z, (cirStep kappa theta sigma dt eps psiCrit v z ui - cirM kappa theta dt v) ^ 2 * phi z
      = cirS2 kappa theta sigma dt v := by
  simp only [cirStep_eq, if_pos hbr]
  rw [next0_variance _ _ h0 h2, cirPsi_eq _ _ _ _ _ _ hclamp]
  have hm : cirM kappa theta dt v ≠ 0 := by
    intro h0m
    rw [h0m, mul_zero] at hclamp
    linarith
  field_simp

/-- EXPONENTIAL BRANCH of `cirStep` (`psi > psiCrit`), where the clamps are inactive
(`eps ≤ m`, `eps ≤ 1 − u`): the step is the unclamped exponential branch with `p = (psi−1)/(psi+1)`,
`beta = (1 − p)/m` -/
theorem cirStep_exp_unclamped (kappa theta sigma dt eps psiCrit v zi ui : ℝ)
    (hbr : psiCrit < cirPsi kappa theta sigma dt eps v) (hm : eps ≤ cirM kappa theta dt v)
    (hu : eps ≤ 1 - ui) :
    cirStep kappa theta sigma dt eps psiCrit v zi ui
      = qeExp ((cirPsi kappa theta sigma dt eps v - 1) / (cirPsi kappa theta sigma dt eps v + 1))
          ((1 - (cirPsi kappa theta sigma dt eps v - 1) / (cirPsi kappa theta sigma dt eps v + 1))
            / cirM kappa theta dt v) ui := by
  rw [cirStep_eq, if_neg (not_le.2 hbr), next1_eq, qeExpC_eq_qeExp _ _ _ _ hu, max_eq_left hm]

/-- EXPONENTIAL BRANCH AS CODED: the conditional mean over `U ~ U(0,1)` is
`m·(1 − eps·(psi + 1)/2)`: the exact mean `m` up to the relative bias `eps (psi+1)/2` of the clamp
`max(1 − u, eps)` (`eps = finfo.tiny`) -/
theorem cirStep_mean_exponential (kappa theta sigma dt eps psiCrit v zi : ℝ)
    (hbr : psiCrit < cirPsi kappa theta sigma dt eps v)
    (h1 : 1 ≤ cirPsi kappa theta sigma dt eps v) (heps : 0 < eps)
    (hm : eps ≤ cirM kappa theta dt v)
    (hclamp : eps * (cirPsi kappa theta sigma dt eps v + 1) ≤ 2) :
    ∫ u in Set.Ioc (0 : ℝ) 1, cirStep kappa theta sigma dt eps psiCrit v zi u
      = cirM kappa theta dt v * (1 - eps * (cirPsi kappa theta sigma dt eps v + 1) / 2) := by
  simp only [cirStep_eq, if_neg (not_le.2 hbr), next1_eq, max_eq_left hm]
  set psi := cirPsi kappa theta sigma dt eps v
  set m := cirM kappa theta dt v
  have hp1 : 0 < psi + 1 := by linarith
  have hq : 1 - (psi - 1) / (psi + 1) = 2 / (psi + 1) := by field_simp; ring
  have hm0 : 0 < m := lt_of_lt_of_le heps hm
  rw [qe_exponential_mean_clamped _ _ _ (div_nonneg (by linarith) hp1.le) heps (by
    have : eps ≤ 2 / (psi + 1) := by rw [le_div_iff₀ hp1]; exact hclamp
    linarith), hq]
  field_simp

/-! ## the mean over `n` steps -/

/-- deterministic recursion: a sequence of means that satisfies the exact CIR conditional-mean
relation `mu_{n+1} = theta + (mu_n − theta) e^{−kappa dt}` at every step is
`theta + (mu_0 − theta) e^{−kappa dt n}` -/
theorem cir_exact_mean_recursion (kappa theta dt : ℝ) (mu : ℕ → ℝ)
    (h : ∀ n, mu (n + 1) = theta + (mu n - theta) * Real.exp (-kappa * dt)) (n : ℕ) :
    mu n = theta + (mu 0 - theta) * Real.exp (-kappa * dt * n) := by
  induction n with
  | zero => simp
  | succ n ih =>
    have e : -kappa * dt * ((n + 1 : ℕ) : ℝ) = -kappa * dt * n + -kappa * dt := by
      push_cast; ring
    rw [h n, ih, e, Real.exp_add]
    ring

/-- tower property: a chain driven by independent `(Z, U)` draws whose one-step conditional
expectation of every affine function `A + B·X'` is `A + B·(theta + (x − theta)·a)` on an invariant
set has `n`-step mean `theta + (x − theta)·aⁿ` -/
theorem iterE2_mean (step : ℝ → ℝ → ℝ → ℝ) (P : ℝ → Prop) (theta a : ℝ)
    (hP : ∀ x z u, P x → u ∈ Ioc (0 : ℝ) 1 → P (step x z u))
    (haff : ∀ x, P x → ∀ A B : ℝ,
      ∫ z, (∫ u in Ioc (0 : ℝ) 1, (A + B * step x z u)) * phi z = A + B * (theta + (x - theta) * a)) :
    ∀ (n : ℕ) (x : ℝ), P x → iterE2 step n (fun y => y) x = theta + (x - theta) * a ^ n := by
  intro n
  induction n with
  | zero => intro x _; simp [iterE2]
  | succ n ih =>
    intro x hx
    simp only [iterE2]
    have e : (fun z => (∫ u in Ioc (0 : ℝ) 1, iterE2 step n (fun y => y) (step x z u)) * phi z)
        = fun z => (∫ u in Ioc (0 : ℝ) 1, ((theta - theta * a ^ n) + a ^ n * step x z u)) * phi z := by
      funext z
      congr 1
      refine setIntegral_congr_fun measurableSet_Ioc fun u hu => ?_
      rw [ih (step x z u) (hP x z u hx hu)]
      ring
    rw [e, haff x hx]
    ring

/-- the idealised scheme (`eps = 0`: no clamps) keeps the variance non-negative -/
theorem cirStep0_nonneg (kappa theta sigma dt psiCrit v zi ui : ℝ) (hv : 0 ≤ v) (hth : 0 ≤ theta)
    (hk : 0 < kappa) (hdt : 0 < dt) (hc : 1 ≤ psiCrit) (hu : ui ∈ Ioc (0 : ℝ) 1) :
    0 ≤ cirStep kappa theta sigma dt 0 psiCrit v zi ui := by
  have he0 : 0 < Real.exp (-kappa * dt) := Real.exp_pos _
  have he1 : Real.exp (-kappa * dt) ≤ 1 := by
    rw [Real.exp_le_one_iff]; nlinarith [mul_pos hk hdt]
  have hm : 0 ≤ cirM kappa theta dt v := by
    unfold cirM
    nlinarith [mul_nonneg hth (sub_nonneg.2 he1), mul_nonneg hv he0.le]
  rw [cirStep_eq]
  split_ifs with hbr
  · unfold next0
    exact mul_nonneg (div_nonneg hm (add_nonneg zero_le_one (mul_self_nonneg _)))
      (mul_self_nonneg _)
  · set psi := cirPsi kappa theta sigma dt 0 v
    have hpsi : 1 < psi := lt_of_le_of_lt hc (not_le.1 hbr)
    have hp1 : 0 < psi + 1 := by linarith
    have hq : 1 - (psi - 1) / (psi + 1) = 2 / (psi + 1) := by field_simp; ring
    unfold next1
    split_ifs with hpu
    · rw [hq] at *
      have hq0 : 0 < 2 / (psi + 1) := by positivity
      have h1u : 0 ≤ 1 - ui := by linarith [hu.2]
      rw [max_eq_left h1u, max_eq_left hm]
      refine div_nonneg ?_ (div_nonneg hq0.le hm)
      rcases h1u.eq_or_lt with h | h
      · rw [← h]; simp
      · refine Real.log_nonneg ?_
        rw [le_div_iff₀ h]
        have : (psi - 1) / (psi + 1) = 1 - 2 / (psi + 1) := by field_simp; ring
        rw [this] at hpu
        linarith
    · exact le_rfl

/-- one step of the idealised scheme: conditional expectation of an affine function -/
theorem cirStep0_affine (kappa theta sigma dt psiCrit v : ℝ) (hv : 0 ≤ v) (hth : 0 < theta)
    (hk : 0 < kappa) (hdt : 0 < dt) (hc : 1 ≤ psiCrit) (A B : ℝ) :
    ∫ z, (∫ u in Ioc (0 : ℝ) 1, (A + B * cirStep kappa theta sigma dt 0 psiCrit v z u)) * phi z
      = A + B * (theta + (v - theta) * Real.exp (-kappa * dt)) := by
  have he0 : 0 < Real.exp (-kappa * dt) := Real.exp_pos _
  have he1 : Real.exp (-kappa * dt) < 1 := by
    rw [Real.exp_lt_one_iff]; nlinarith [mul_pos hk hdt]
  have hm : 0 < cirM kappa theta dt v := by
    unfold cirM
    nlinarith [mul_pos hth (sub_pos.2 he1), mul_nonneg hv he0.le]
  have hvol : (volume : Measure ℝ).real (Ioc (0 : ℝ) 1) = 1 := by
    simp [Measure.real, Real.volume_Ioc]
  show _ = A + B * cirM kappa theta dt v
  by_cases hbr : cirPsi kappa theta sigma dt 0 v ≤ psiCrit
  · simp only [cirStep_eq, if_pos hbr, setIntegral_const, hvol, one_smul]
    exact next0_affine _ _ _ _
  · simp only [cirStep_eq, if_neg hbr]
    set psi := cirPsi kappa theta sigma dt 0 v
    set m := cirM kappa theta dt v
    have hpsi : 1 ≤ psi := le_trans hc (not_le.1 hbr).le
    obtain ⟨hp0, hp1, hb, h1, -⟩ := qe_exponential_matches psi m hpsi hm
    obtain ⟨i1, i2, -, -⟩ := qeExp_integrableOn _ _ hp0 hp1 hb.ne'
    have hE : EqOn (fun u => A + B * next1 m psi 0 u)
        (fun u => A + B * qeExp ((psi - 1) / (psi + 1)) ((1 - (psi - 1) / (psi + 1)) / m) u)
        (Ioc 0 1) := fun u hu => by
      simp only []
      rw [next1_eq, max_eq_left hm.le, qeExpC_eq_qeExp _ _ _ _ (by linarith [hu.2])]
    have I1 : IntegrableOn (qeExp ((psi - 1) / (psi + 1)) ((1 - (psi - 1) / (psi + 1)) / m))
        (Ioc 0 1) :=
      (intervalIntegrable_iff_integrableOn_Ioc_of_le zero_le_one).1 (i1.trans i2)
    have Ic : IntegrableOn (fun _ : ℝ => A) (Ioc 0 1) :=
      integrableOn_const (by simp [Real.volume_Ioc])
    rw [setIntegral_congr_fun measurableSet_Ioc hE, integral_add Ic (I1.const_mul B),
      integral_const_mul, integral_const_mul, qe_exponential_mean_full _ _ hp0 hp1 hb.ne', h1,
      setIntegral_const, hvol, one_smul, integral_phi, mul_one]

/-- `n` steps of the idealised QE scheme (`cirStep` with `eps = 0`), any `sigma`, any `psiCrit ≥ 1`,
from any starting variance `v0 ≥ 0`: the mean is the closed-form mean-reverting mean
`theta + (v0 − theta) e^{−kappa dt n}` -/
theorem cir_mean_n (kappa theta sigma dt psiCrit : ℝ) (hth : 0 < theta) (hk : 0 < kappa)
    (hdt : 0 < dt) (hc : 1 ≤ psiCrit) (n : ℕ) (v0 : ℝ) (hv0 : 0 ≤ v0) :
    iterE2 (fun v z u => cirStep kappa theta sigma dt 0 psiCrit v z u) n (fun y => y) v0
      = theta + (v0 - theta) * Real.exp (-kappa * dt * n) := by
  rw [iterE2_mean _ (fun x => 0 ≤ x) theta (Real.exp (-kappa * dt))
    (fun x z u hx hu => cirStep0_nonneg kappa theta sigma dt psiCrit x z u hx hth.le hk hdt hc hu)
    (fun x hx A B => cirStep0_affine kappa theta sigma dt psiCrit x hx hth hk hdt hc A B) n v0 hv0,
    ← Real.exp_nat_mul]
  congr 3
  ring

/-- one step of the idealised scheme (`eps = 0`), `1 ≤ psiCrit ≤ 2`, `s² > 0`: the conditional
variance over both draws is the exact CIR conditional variance `s²`, in either branch -/
theorem cirStep0_variance (kappa theta sigma dt psiCrit v : ℝ) (hv : 0 ≤ v) (hth : 0 < theta)
    (hk : 0 < kappa) (hdt : 0 < dt) (hc : 1 ≤ psiCrit) (hc2 : psiCrit ≤ 2)
    (hs : 0 < cirS2 kappa theta sigma dt v) :
    ∫ z, (∫ u in Ioc (0 : ℝ) 1,
        (cirStep kappa theta sigma dt 0 psiCrit v z u - cirM kappa theta dt v) ^ 2) * phi z
      = cirS2 kappa theta sigma dt v := by
  have he0 : 0 < Real.exp (-kappa * dt) := Real.exp_pos _
  have he1 : Real.exp (-kappa * dt) < 1 := by
    rw [Real.exp_lt_one_iff]; nlinarith [mul_pos hk hdt]
  have hm : 0 < cirM kappa theta dt v := by
    unfold cirM
    nlinarith [mul_pos hth (sub_pos.2 he1), mul_nonneg hv he0.le]
  have hvol : (volume : Measure ℝ).real (Ioc (0 : ℝ) 1) = 1 := by
    simp [Measure.real, Real.volume_Ioc]
  have hpsi_eq : cirPsi kappa theta sigma dt 0 v
      = cirS2 kappa theta sigma dt v / cirM kappa theta dt v ^ 2 :=
    cirPsi_eq _ _ _ _ _ _ (mul_self_nonneg _)
  have hpsi0 : 0 < cirPsi kappa theta sigma dt 0 v := by rw [hpsi_eq]; positivity
  have hfin : cirPsi kappa theta sigma dt 0 v * cirM kappa theta dt v ^ 2
      = cirS2 kappa theta sigma dt v := by
    rw [hpsi_eq]; field_simp
  by_cases hbr : cirPsi kappa theta sigma dt 0 v ≤ psiCrit
  · simp only [cirStep_eq, if_pos hbr, setIntegral_const, hvol, one_smul]
    rw [next0_variance _ _ hpsi0 (le_trans hbr hc2), hfin]
  · simp only [cirStep_eq, if_neg hbr]
    set psi := cirPsi kappa theta sigma dt 0 v
    set m := cirM kappa theta dt v
    have hpsi : 1 ≤ psi := le_trans hc (not_le.1 hbr).le
    have hE : EqOn (fun u => (next1 m psi 0 u - m) ^ 2)
        (fun u => (qeExp ((psi - 1) / (psi + 1)) ((1 - (psi - 1) / (psi + 1)) / m) u - m) ^ 2)
        (Ioc 0 1) := fun u hu => by
      simp only []
      rw [next1_eq, max_eq_left hm.le, qeExpC_eq_qeExp _ _ _ _ (by linarith [hu.2])]
    rw [setIntegral_congr_fun measurableSet_Ioc hE, (qe_exponential_matches_full psi m hpsi hm).2,
      integral_const_mul, integral_phi, mul_one, hfin]

/-- one step of `cirStep` AS CODED (`eps > 0`), mean over both draws: the exact CIR conditional
mean in the quadratic branch, and `m (1 − eps (psi+1)/2)` in the exponential branch -/
theorem cirStep_mean (kappa theta sigma dt eps psiCrit v : ℝ) (heps : 0 < eps)
    (hexp : psiCrit < cirPsi kappa theta sigma dt eps v →
      1 ≤ cirPsi kappa theta sigma dt eps v ∧ eps ≤ cirM kappa theta dt v ∧
        eps * (cirPsi kappa theta sigma dt eps v + 1) ≤ 2) :
    ∫ z, (∫ u in Ioc (0 : ℝ) 1, cirStep kappa theta sigma dt eps psiCrit v z u) * phi z
      = if cirPsi kappa theta sigma dt eps v ≤ psiCrit then cirM kappa theta dt v
        else cirM kappa theta dt v * (1 - eps * (cirPsi kappa theta sigma dt eps v + 1) / 2) := by
  have hvol : (volume : Measure ℝ).real (Ioc (0 : ℝ) 1) = 1 := by
    simp [Measure.real, Real.volume_Ioc]
  by_cases hbr : cirPsi kappa theta sigma dt eps v ≤ psiCrit
  · rw [if_pos hbr]
    simp only [cirStep_eq, if_pos hbr, setIntegral_const, hvol, one_smul]
    exact next0_mean _ _
  · rw [if_neg hbr]
    obtain ⟨h1, hm, hcl⟩ := hexp (not_le.1 hbr)
    simp only [cirStep_mean_exponential kappa theta sigma dt eps psiCrit v _ (not_le.1 hbr) h1 heps
      hm hcl]
    rw [integral_const_mul, integral_phi, mul_one]

/-! ## Heston: the log-spot increment and the variance move -/

/-- conditional mean of the log-spot increment `k0 + k1 v0 + k2 v1 + √(k3 v0 + k4 v1)·Z` given
`(v0, v1)` (`Z` is independent of the variance draws) -/
theorem heston_step_mean_inner (k0 k1 k2 k3 k4 v0 v1 : ℝ) :
    ∫ z, (k0 + k1 * v0 + k2 * v1 + Real.sqrt (k3 * v0 + k4 * v1) * z) * phi z
      = k0 + k1 * v0 + k2 * v1 :=
  integral_affine_mul_phi _ _

/-- integrating out the spot normal `Z`: the product of the centred log-spot increment with the
centred next variance is `k2 (v1 − mu)²` -/
theorem heston_step_covariance_inner (k0 k1 k2 k3 k4 v0 v1 mu : ℝ) :
    ∫ z, ((k0 + k1 * v0 + k2 * v1 + Real.sqrt (k3 * v0 + k4 * v1) * z)
          - (k0 + k1 * v0 + k2 * mu)) * (v1 - mu) * phi z
      = k2 * (v1 - mu) ^ 2 := by
  have e : (fun z : ℝ => ((k0 + k1 * v0 + k2 * v1 + Real.sqrt (k3 * v0 + k4 * v1) * z)
          - (k0 + k1 * v0 + k2 * mu)) * (v1 - mu) * phi z)
      = fun z => (k2 * (v1 - mu) ^ 2 + (Real.sqrt (k3 * v0 + k4 * v1) * (v1 - mu)) * z) * phi z := by
    funext z; ring
  rw [e, integral_affine_mul_phi]

/-- conditional covariance of the log-spot increment with the next variance given `v0`:
`Cov(Δlog S, v1 | v0) = k2 · Var(v1 | v0)`, for ANY law `ν` of the variance draws `ω` and any next
variance `V ω` with conditional mean `mu` -/
theorem heston_step_covariance {Ω : Type} [MeasurableSpace Ω] (ν : Measure Ω) (V : Ω → ℝ)
    (k0 k1 k2 k3 k4 v0 mu : ℝ) :
    ∫ ω, (∫ z, ((k0 + k1 * v0 + k2 * V ω + Real.sqrt (k3 * v0 + k4 * V ω) * z)
          - (k0 + k1 * v0 + k2 * mu)) * (V ω - mu) * phi z) ∂ν
      = k2 * ∫ ω, (V ω - mu) ^ 2 ∂ν := by
  simp only [heston_step_covariance_inner]
  rw [integral_const_mul]

/-- the same with the variance driven by a normal draw (quadratic branch of the QE step) -/
theorem heston_step_covariance_normal (V : ℝ → ℝ) (k0 k1 k2 k3 k4 v0 mu : ℝ) :
    ∫ z1, (∫ z, ((k0 + k1 * v0 + k2 * V z1 + Real.sqrt (k3 * v0 + k4 * V z1) * z)
          - (k0 + k1 * v0 + k2 * mu)) * (V z1 - mu) * phi z) * phi z1
      = k2 * ∫ z1, (V z1 - mu) ^ 2 * phi z1 := by
  have e : (fun z1 => (∫ z, ((k0 + k1 * v0 + k2 * V z1 + Real.sqrt (k3 * v0 + k4 * V z1) * z)
          - (k0 + k1 * v0 + k2 * mu)) * (V z1 - mu) * phi z) * phi z1)
      = fun z1 => k2 * ((V z1 - mu) ^ 2 * phi z1) := by
    funext z1; rw [heston_step_covariance_inner]; ring
  rw [e, integral_const_mul]

/-- the coefficient of the next variance in the log-spot increment, as coded in `generate_heston` -/
theorem heston_k2_eq (kappa sigma rho dt : ℝ) :
    (1 / 2 : ℝ) * dt * (kappa * rho / sigma - 1 / 2) + rho / sigma
      = rho / sigma + dt * (kappa * rho / sigma - 1 / 2) / 2 := by
  ring

/-- `k2` has the sign of `rho` when `dt` is small: positive correlation -/
theorem heston_k2_pos (kappa sigma rho dt : ℝ)
    (h : dt * (1 / 2 - kappa * rho / sigma) < 2 * rho / sigma) :
    0 < (1 / 2 : ℝ) * dt * (kappa * rho / sigma - 1 / 2) + rho / sigma := by
  have e : 2 * rho / sigma = 2 * (rho / sigma) := by ring
  rw [e] at h
  nlinarith

/-- `k2` has the sign of `rho` when `dt` is small: negative correlation -/
theorem heston_k2_neg (kappa sigma rho dt : ℝ)
    (h : dt * (kappa * rho / sigma - 1 / 2) < -(2 * rho / sigma)) :
    (1 / 2 : ℝ) * dt * (kappa * rho / sigma - 1 / 2) + rho / sigma < 0 := by
  have e : 2 * rho / sigma = 2 * (rho / sigma) := by ring
  rw [e] at h
  nlinarith

end PfVerif.C10QE
