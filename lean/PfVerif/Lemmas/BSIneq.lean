/-
  Inequalities for the normal distribution function used by the Black–Scholes no-arbitrage
  bounds (C09): the Mills-ratio bound `0 < x Φ(x) + φ(x)`, and strict monotonicity in the
  log-moneyness of the (normalised) European call `eˢ Φ(d₁) − Φ(d₂)` and of the American binary
  `Φ(d₂) + eˢ Φ(d₁)`, whose value at the barrier `s = 0` is `1`.
-/
import PfVerif.Lemmas.GaussInt
import PfVerif.Lemmas.BSCalc
import Mathlib.Analysis.Calculus.Deriv.MeanValue

namespace PfVerif.BSIneq
open PfVerif PfVerif.BSCalc Real Filter Topology Set

theorem phi_le_const (x : ℝ) : phi x ≤ 1 / Real.sqrt (2 * π) := by
  unfold phi
  have h : Real.exp (-(x ^ 2) / 2) ≤ 1 := by
    rw [Real.exp_le_one_iff]
    have := sq_nonneg x
    linarith
  exact div_le_div_of_nonneg_right h (Real.sqrt_nonneg _)

/-- `φ(x)/x → 0` as `x → −∞` -/
theorem phi_div_tendsto_atBot : Tendsto (fun x : ℝ => phi x / x) atBot (𝓝 0) := by
  have hlo : Tendsto (fun x : ℝ => (1 / Real.sqrt (2 * π)) / x) atBot (𝓝 0) :=
    tendsto_const_nhds.div_atBot tendsto_id
  refine tendsto_of_tendsto_of_tendsto_of_le_of_le' hlo tendsto_const_nhds ?_ ?_
  · filter_upwards [eventually_lt_atBot (0 : ℝ)] with x hx
    exact div_le_div_of_nonpos_of_le hx.le (phi_le_const x)
  · filter_upwards [eventually_lt_atBot (0 : ℝ)] with x hx
    exact div_nonpos_of_nonneg_of_nonpos (phi_pos x).le hx.le

/-- the auxiliary function `Φ(x) + φ(x)/x`, strictly decreasing on the negative half-line -/
theorem millsAux_hasDerivAt {x : ℝ} (hx : x ≠ 0) :
    HasDerivAt (fun y => Phi y + phi y / y) (-(phi x / x ^ 2)) x := by
  have h := (Phi_hasDerivAt x).fun_add ((phi_hasDerivAt x).fun_div (hasDerivAt_id x) hx)
  refine h.congr_deriv ?_
  simp only [id]
  field_simp
  ring

theorem millsAux_strictAntiOn : StrictAntiOn (fun y => Phi y + phi y / y) (Iio (0 : ℝ)) := by
  refine strictAntiOn_of_deriv_neg (convex_Iio 0) ?_ ?_
  · intro y hy
    exact (millsAux_hasDerivAt (ne_of_lt hy)).continuousAt.continuousWithinAt
  · intro y hy
    rw [interior_Iio] at hy
    have hy0 : y ≠ 0 := ne_of_lt hy
    rw [(millsAux_hasDerivAt hy0).deriv]
    have hy2 : 0 < y ^ 2 := by positivity
    have : 0 < phi y / y ^ 2 := div_pos (phi_pos y) hy2
    linarith

theorem millsAux_nonpos {x : ℝ} (hx : x < 0) : Phi x + phi x / x ≤ 0 := by
  have hlim : Tendsto (fun y => Phi y + phi y / y) atBot (𝓝 (0 + 0)) :=
    Phi_tendsto_atBot.add phi_div_tendsto_atBot
  rw [add_zero] at hlim
  refine ge_of_tendsto hlim ?_
  filter_upwards [eventually_le_atBot x] with y hy
  exact millsAux_strictAntiOn.antitoneOn (lt_of_le_of_lt hy hx) hx hy

/-- Mills-ratio bound: `x Φ(x) + φ(x) > 0` for every real `x`
(equivalently `Φ(−a) < φ(a)/a` for `a > 0`) -/
theorem mills_pos (x : ℝ) : 0 < x * Phi x + phi x := by
  rcases le_or_gt 0 x with hx | hx
  · have := mul_nonneg hx (Phi_nonneg x)
    have := phi_pos x
    linarith
  · have h1 := millsAux_nonpos (x := x - 1) (by linarith)
    have hlt : Phi x + phi x / x < Phi (x - 1) + phi (x - 1) / (x - 1) :=
      millsAux_strictAntiOn (show x - 1 ∈ Iio (0 : ℝ) by simp only [mem_Iio]; linarith) hx
        (by linarith)
    have hneg : Phi x + phi x / x < 0 := by linarith
    have hne : x ≠ 0 := ne_of_lt hx
    have e : x * Phi x + phi x = x * (Phi x + phi x / x) := by field_simp
    rw [e]
    exact mul_pos_of_neg_of_neg hx hneg

theorem mills_nonneg (x : ℝ) : 0 ≤ x * Phi x + phi x := (mills_pos x).le

/-! ### monotonicity in the log-moneyness at fixed total volatility `w > 0` -/

/-- `∂/∂s [eˢ K Φ(d₁) − K Φ(d₂)] = eˢ K Φ(d₁)` -/
theorem european_hasDerivAt_s (K s : ℝ) {w : ℝ} (hw : 0 < w) :
    HasDerivAt (fun y => Real.exp y * K * Phi (d1 y w) - K * Phi (d2 y w))
      (Real.exp s * K * Phi (d1 s w)) s := by
  have h := hasDerivAt_european (sf := fun y => y) (wf := fun _ => w) K (hasDerivAt_id' s)
    (hasDerivAt_const s w) hw.ne'
  refine h.congr_deriv ?_
  ring

theorem european_strictMono_s {K w : ℝ} (hK : 0 < K) (hw : 0 < w) :
    StrictMono fun y => Real.exp y * K * Phi (d1 y w) - K * Phi (d2 y w) :=
  strictMono_of_deriv_pos fun s => by
    rw [(european_hasDerivAt_s K s hw).deriv]
    exact mul_pos (mul_pos (Real.exp_pos s) hK) (Phi_mem_Ioo _).1

/-- `∂/∂s [Φ(d₂) + eˢ Φ(d₁)] = eˢ Φ(d₁) + 2 φ(d₂)/w` -/
theorem american_hasDerivAt_s (s : ℝ) {w : ℝ} (hw : 0 < w) :
    HasDerivAt (fun y => Phi (d2 y w) + Real.exp y * Phi (d1 y w))
      (Real.exp s * Phi (d1 s w) + 2 * phi (d2 s w) / w) s := by
  have h := hasDerivAt_american (sf := fun y => y) (wf := fun _ => w) (hasDerivAt_id' s)
    (hasDerivAt_const s w) hw.ne'
  refine h.congr_deriv ?_
  have := hw.ne'
  field_simp
  ring

theorem american_strictMono_s {w : ℝ} (hw : 0 < w) :
    StrictMono fun y => Phi (d2 y w) + Real.exp y * Phi (d1 y w) :=
  strictMono_of_deriv_pos fun s => by
    rw [(american_hasDerivAt_s s hw).deriv]
    have h1 : 0 < Real.exp s * Phi (d1 s w) := mul_pos (Real.exp_pos s) (Phi_mem_Ioo _).1
    have h2 : 0 < 2 * phi (d2 s w) / w := div_pos (mul_pos two_pos (phi_pos _)) hw
    linarith

/-- at the barrier the American binary formula equals one: `Φ(−w/2) + Φ(w/2) = 1` -/
theorem american_at_barrier (w : ℝ) : Phi (d2 0 w) + Real.exp 0 * Phi (d1 0 w) = 1 := by
  have e1 : d1 0 w = w / 2 := by unfold d1; simp
  have e2 : d2 0 w = -(w / 2) := by unfold d2; simp
  rw [e1, e2, Phi_neg, Real.exp_zero]
  ring

theorem american_le_one {s w : ℝ} (hs : s ≤ 0) (hw : 0 < w) :
    Phi (d2 s w) + Real.exp s * Phi (d1 s w) ≤ 1 := by
  rw [← american_at_barrier w]
  exact (american_strictMono_s hw).monotone hs

theorem american_lt_one {s w : ℝ} (hs : s < 0) (hw : 0 < w) :
    Phi (d2 s w) + Real.exp s * Phi (d1 s w) < 1 := by
  rw [← american_at_barrier w]
  exact american_strictMono_s hw hs

theorem american_gt_one {s w : ℝ} (hs : 0 < s) (hw : 0 < w) :
    1 < Phi (d2 s w) + Real.exp s * Phi (d1 s w) := by
  rw [← american_at_barrier w]
  exact american_strictMono_s hw hs

end PfVerif.BSIneq
