/-
  C13 — the repaired step-count / start-index formulas under the *standard model of
  floating-point arithmetic*.

  Code (after the `fix:` commits for F9 / F10):
    brownian.py   `n_steps = ceil(time_horizon / dt - 1e-8) + 1`
    cliquet.py    `floor(start / dt + 1e-8)`
  Model/Grid.lean replicates them bit-for-bit on IEEE doubles (`nStepsShipped`,
  `startIndexShipped`); Props/C13.lean has kernel-checked concrete IEEE instances.  Lean has no
  verified IEEE-754 library, so here rounding enters only through the standard model:

      every basic operation returns  fl(x) = x·(1+δ),  |δ| ≤ u       (u = 2⁻⁵³ for binary64)

  i.e. a computed value of the exact real `x` is *any* real `x'` with `|x' − x| ≤ u·|x|`.
  With `q = M/dt` the exact quotient:
      computed quotient     q'  with |q' − q| ≤ u·|q|
      computed difference   d'  with |d' − (q' − tol)| ≤ u·|q' − tol|     (resp. `q' + tol`)
      result                ⌈d'⌉ + 1                                      (resp. ⌊d'⌋)
  (`ceil`, `floor`, `+ 1` on integers are exact.)  The theorems quantify over all admissible
  `q'`, `d'`, hence cover every execution the standard model allows — in particular the IEEE one.

  Everything is over ℝ with Mathlib's `Int.ceil` / `Int.floor`.
-/
import PfVerif.Model.Grid
import Mathlib.Data.Rat.Floor
import Mathlib.Algebra.Order.Archimedean.Real.Basic
import Mathlib.Algebra.Order.Floor.Ring
import Mathlib.Tactic.Linarith
import Mathlib.Tactic.NormNum
import Mathlib.Tactic.Positivity

namespace PfVerif.C13Round
open PfVerif

/-- unit roundoff of IEEE binary64 (round to nearest): `2⁻⁵³` -/
noncomputable def u : ℝ := 1 / 2 ^ 53

/-- the tolerance `1e-8` of the repaired formulas -/
noncomputable def tol : ℝ := 1 / 10 ^ 8

theorem u_pos : 0 < u := by unfold u; positivity
theorem u_le : u ≤ 1 / 8 := by unfold u; norm_num
theorem tol_pos : 0 < tol := by unfold tol; positivity

/-! ### generic part: arbitrary unit roundoff `u ∈ [0, 1/8]` and tolerance `t` -/

section generic
variable {u t : ℝ}

/-- a relative perturbation `|x' − x| ≤ u·|x|` of a quantity bounded by `B` is an absolute
perturbation by at most `u·B` -/
theorem round_bound {x x' B : ℝ} (hu0 : 0 ≤ u) (hx : |x| ≤ B) (h : |x' - x| ≤ u * |x|) :
    x - u * B ≤ x' ∧ x' ≤ x + u * B := by
  have := mul_le_mul_of_nonneg_left hx hu0
  obtain ⟨h1, h2⟩ := abs_le.mp h
  constructor <;> linarith

/-- exact quotient within `4uk` of `k`  ⟹  computed quotient within `6uk` of `k` -/
theorem quot_near_integer (hu0 : 0 ≤ u) (hu : u ≤ 1 / 8) {k q q' : ℝ} (hk : 0 ≤ k)
    (hq : |q - k| ≤ 4 * u * k) (hq' : |q' - q| ≤ u * |q|) : |q' - k| ≤ 6 * (u * k) := by
  have ha0 : 0 ≤ u * k := mul_nonneg hu0 hk
  have ha : u * k ≤ 1 / 8 * k := mul_le_mul_of_nonneg_right hu hk
  obtain ⟨h1, h2⟩ := abs_le.mp hq
  have hB : |q| ≤ 2 * k := abs_le.mpr ⟨by linarith, by linarith⟩
  obtain ⟨h3, h4⟩ := round_bound hu0 hB hq'
  exact abs_le.mpr ⟨by linarith, by linarith⟩

/-- computed quotient within `6uk` of `k`, then a rounded addition of `s` (`|s| ≤ 1`)
⟹  result within `8u(k+1)` of `k + s` -/
theorem sum_near_integer (hu0 : 0 ≤ u) (hu : u ≤ 1 / 8) {k q' d' s : ℝ} (hk : 0 ≤ k)
    (hs : |s| ≤ 1) (hq : |q' - k| ≤ 6 * (u * k)) (hd : |d' - (q' + s)| ≤ u * |q' + s|) :
    |d' - (k + s)| ≤ 8 * u * (k + 1) := by
  have ha0 : 0 ≤ u * k := mul_nonneg hu0 hk
  have ha : u * k ≤ 1 / 8 * k := mul_le_mul_of_nonneg_right hu hk
  obtain ⟨h1, h2⟩ := abs_le.mp hq
  obtain ⟨s1, s2⟩ := abs_le.mp hs
  have hB : |q' + s| ≤ 2 * k + 1 := abs_le.mpr ⟨by linarith, by linarith⟩
  obtain ⟨h3, h4⟩ := round_bound hu0 hB hd
  exact abs_le.mpr ⟨by linarith, by linarith⟩

/-- `⌈fl(fl(q) − t)⌉ = k` whenever `q` is within `4uk` of the integer `k ≥ 0` and the
accumulated rounding error `8u(k+1)` is below the tolerance `t` (and `t + 8u(k+1) < 1`). -/
theorem ceil_at_integer (hu0 : 0 ≤ u) (hu : u ≤ 1 / 8) (k : ℕ)
    (hE1 : 8 * u * ((k : ℝ) + 1) < t) (hE2 : t + 8 * u * ((k : ℝ) + 1) < 1)
    {q q' d' : ℝ} (hq : |q - k| ≤ 4 * u * k) (hq' : |q' - q| ≤ u * |q|)
    (hd : |d' - (q' - t)| ≤ u * |q' - t|) : ⌈d'⌉ = (k : ℤ) := by
  have hk : (0 : ℝ) ≤ k := Nat.cast_nonneg k
  have hE0 : 0 ≤ 8 * u * ((k : ℝ) + 1) :=
    mul_nonneg (mul_nonneg (by norm_num) hu0) (by linarith)
  have hs : |(-t)| ≤ 1 := by rw [abs_neg]; exact abs_le.mpr ⟨by linarith, by linarith⟩
  have h := sum_near_integer hu0 hu hk hs (quot_near_integer hu0 hu hk hq hq')
    (by rw [← sub_eq_add_neg]; exact hd)
  obtain ⟨h1, h2⟩ := abs_le.mp h
  rw [Int.ceil_eq_iff]
  push_cast
  constructor <;> linarith

/-- `⌊fl(fl(q) + t)⌋ = k` under the same hypotheses -/
theorem floor_at_integer (hu0 : 0 ≤ u) (hu : u ≤ 1 / 8) (k : ℕ)
    (hE1 : 8 * u * ((k : ℝ) + 1) < t) (hE2 : t + 8 * u * ((k : ℝ) + 1) < 1)
    {q q' d' : ℝ} (hq : |q - k| ≤ 4 * u * k) (hq' : |q' - q| ≤ u * |q|)
    (hd : |d' - (q' + t)| ≤ u * |q' + t|) : ⌊d'⌋ = (k : ℤ) := by
  have hk : (0 : ℝ) ≤ k := Nat.cast_nonneg k
  have hE0 : 0 ≤ 8 * u * ((k : ℝ) + 1) :=
    mul_nonneg (mul_nonneg (by norm_num) hu0) (by linarith)
  have hs : |t| ≤ 1 := abs_le.mpr ⟨by linarith, by linarith⟩
  have h := sum_near_integer hu0 hu hk hs (quot_near_integer hu0 hu hk hq hq') hd
  obtain ⟨h1, h2⟩ := abs_le.mp h
  rw [Int.floor_eq_iff]
  push_cast
  constructor <;> linarith

/-- rounded quotient then rounded addition of `s`, for `q ≥ 0`, `|s| ≤ 1`:
absolute error at most `u(3q+1)` -/
theorem sum_error (hu0 : 0 ≤ u) (hu : u ≤ 1 / 8) {q q' d' s : ℝ} (hq0 : 0 ≤ q)
    (hs : |s| ≤ 1) (hq' : |q' - q| ≤ u * |q|) (hd : |d' - (q' + s)| ≤ u * |q' + s|) :
    |d' - (q + s)| ≤ u * (3 * q + 1) := by
  have hb0 : 0 ≤ u * q := mul_nonneg hu0 hq0
  have hb : u * q ≤ 1 / 8 * q := mul_le_mul_of_nonneg_right hu hq0
  obtain ⟨h1, h2⟩ := round_bound hu0 (le_of_eq (abs_of_nonneg hq0)) hq'
  obtain ⟨s1, s2⟩ := abs_le.mp hs
  have hB : |q' + s| ≤ 2 * q + 1 := abs_le.mpr ⟨by linarith, by linarith⟩
  obtain ⟨h3, h4⟩ := round_bound hu0 hB hd
  exact abs_le.mpr ⟨by linarith, by linarith⟩

/-- away from the integers the tolerance changes nothing: `⌈fl(fl(q) − t)⌉ = ⌈q⌉` -/
theorem ceil_away_from_integers (hu0 : 0 ≤ u) (hu : u ≤ 1 / 8) {q q' d' : ℝ} (hq0 : 0 ≤ q)
    (ht0 : 0 ≤ t) (hE : 8 * u * (q + 1) < t) (hsep : ∀ n : ℤ, 2 * t ≤ |q - n|)
    (hq' : |q' - q| ≤ u * |q|) (hd : |d' - (q' - t)| ≤ u * |q' - t|) : ⌈d'⌉ = ⌈q⌉ := by
  have hc1 : q ≤ ⌈q⌉ := Int.le_ceil q
  have hc2 : (⌈q⌉ : ℝ) < q + 1 := Int.ceil_lt_add_one q
  have e1 := hsep ⌈q⌉
  rw [abs_of_nonpos (by linarith)] at e1
  have e2 := hsep (⌈q⌉ - 1)
  push_cast at e2
  rw [abs_of_nonneg (by linarith)] at e2
  have hs : |(-t)| ≤ 1 := by rw [abs_neg]; exact abs_le.mpr ⟨by linarith, by linarith⟩
  have h := sum_error hu0 hu hq0 hs hq' (by rw [← sub_eq_add_neg]; exact hd)
  obtain ⟨h1, h2⟩ := abs_le.mp h
  have hb0 : 0 ≤ u * q := mul_nonneg hu0 hq0
  rw [Int.ceil_eq_iff]
  constructor <;> linarith

/-- away from the integers: `⌊fl(fl(q) + t)⌋ = ⌊q⌋` -/
theorem floor_away_from_integers (hu0 : 0 ≤ u) (hu : u ≤ 1 / 8) {q q' d' : ℝ} (hq0 : 0 ≤ q)
    (ht0 : 0 ≤ t) (hE : 8 * u * (q + 1) < t) (hsep : ∀ n : ℤ, 2 * t ≤ |q - n|)
    (hq' : |q' - q| ≤ u * |q|) (hd : |d' - (q' + t)| ≤ u * |q' + t|) : ⌊d'⌋ = ⌊q⌋ := by
  have hc1 : (⌊q⌋ : ℝ) ≤ q := Int.floor_le q
  have hc2 : q < (⌊q⌋ : ℝ) + 1 := Int.lt_floor_add_one q
  have e1 := hsep ⌊q⌋
  rw [abs_of_nonneg (by linarith)] at e1
  have e2 := hsep (⌊q⌋ + 1)
  push_cast at e2
  rw [abs_of_nonpos (by linarith)] at e2
  have hs : |t| ≤ 1 := abs_le.mpr ⟨by linarith, by linarith⟩
  have h := sum_error hu0 hu hq0 hs hq' hd
  obtain ⟨h1, h2⟩ := abs_le.mp h
  have hb0 : 0 ≤ u * q := mul_nonneg hu0 hq0
  rw [Int.floor_eq_iff]
  constructor <;> linarith

/-- the old formula `⌈fl(fl(q) + 1)⌉` allows an execution returning `k + 2` at `q = k`:
the quotient rounds up to `k(1+u)`, the addition is exact -/
theorem old_ceil_can_overshoot (hu0 : 0 < u) (k : ℕ) (hk : 1 ≤ k) (huk : u * k ≤ 1) :
    ∃ q' s' : ℝ, |q' - k| ≤ u * |(k : ℝ)| ∧ (k : ℝ) < q' ∧
      |s' - (q' + 1)| ≤ u * |q' + 1| ∧ ⌈s'⌉ = (k : ℤ) + 2 := by
  have hk' : (1 : ℝ) ≤ k := by exact_mod_cast hk
  have hpos : 0 < u * k := mul_pos hu0 (by linarith)
  refine ⟨k * (1 + u), k * (1 + u) + 1, ?_, by linarith, ?_, ?_⟩
  · rw [abs_of_nonneg (by linarith : (0 : ℝ) ≤ k), abs_of_nonneg (by linarith)]
    linarith
  · rw [sub_self, abs_zero]
    exact mul_nonneg hu0.le (abs_nonneg _)
  · rw [Int.ceil_eq_iff]
    push_cast
    constructor <;> linarith

/-- the old start index `⌊fl(q)⌋` allows an execution returning `k − 1` at `q = k`:
the quotient rounds down to `k(1−u)` -/
theorem old_floor_can_undershoot (hu0 : 0 < u) (k : ℕ) (hk : 1 ≤ k) (huk : u * k ≤ 1) :
    ∃ q' : ℝ, |q' - k| ≤ u * |(k : ℝ)| ∧ q' < k ∧ ⌊q'⌋ = (k : ℤ) - 1 := by
  have hk' : (1 : ℝ) ≤ k := by exact_mod_cast hk
  have hpos : 0 < u * k := mul_pos hu0 (by linarith)
  refine ⟨k * (1 - u), ?_, by linarith, ?_⟩
  · rw [abs_of_nonneg (by linarith : (0 : ℝ) ≤ k), abs_of_nonpos (by linarith)]
    linarith
  · rw [Int.floor_eq_iff]
    push_cast
    constructor <;> linarith

end generic

/-! ### binary64 / `1e-8` instances: `u = 2⁻⁵³`, `tol = 10⁻⁸`, ratios up to `10⁶` -/

/-- for ratios up to `10⁶` all rounding errors are far below the tolerance -/
theorem err_lt_tol {x : ℝ} (hx : x ≤ 10 ^ 6) : 8 * u * (x + 1) < tol := by
  unfold u tol; norm_num; linarith

theorem tol_add_err_lt_one {x : ℝ} (hx : x ≤ 10 ^ 6) : tol + 8 * u * (x + 1) < 1 := by
  unfold u tol; norm_num; linarith

/-- **The repaired formula returns exactly `k + 1` points whenever `M/dt` is within rounding
distance of the integer `k`.**  `q` is the exact ratio with `|q − k| ≤ 4uk` (for `k = 0`:
`q = 0`); `q'` any admissible computed quotient; `d'` any admissible computed `q' − tol`. -/
theorem nSteps_at_integers (k : ℕ) (hk : k ≤ 10 ^ 6) {q q' d' : ℝ}
    (hq : |q - k| ≤ 4 * u * k) (hq' : |q' - q| ≤ u * |q|)
    (hd : |d' - (q' - tol)| ≤ u * |q' - tol|) : ⌈d'⌉ + 1 = (k : ℤ) + 1 := by
  have hk' : (k : ℝ) ≤ 10 ^ 6 := by exact_mod_cast hk
  rw [ceil_at_integer u_pos.le u_le k (err_lt_tol hk') (tol_add_err_lt_one hk') hq hq' hd]

/-- **Away from the integers the tolerance changes nothing**: if the exact ratio
`0 ≤ q ≤ 10⁶` is at least `2·tol` from every integer, the result is the exact `⌈M/dt⌉ + 1`. -/
theorem nSteps_away_from_integers {q q' d' : ℝ} (hq0 : 0 ≤ q) (hq1 : q ≤ 10 ^ 6)
    (hsep : ∀ n : ℤ, 2 * tol ≤ |q - n|) (hq' : |q' - q| ≤ u * |q|)
    (hd : |d' - (q' - tol)| ≤ u * |q' - tol|) : ⌈d'⌉ + 1 = ⌈q⌉ + 1 := by
  rw [ceil_away_from_integers u_pos.le u_le hq0 tol_pos.le (err_lt_tol hq1) hsep hq' hd]

/-- **Why the tolerance is needed**: under the same model the old formula `⌈fl(fl(q) + 1)⌉`
allows, at an exactly integral ratio `q = k ≥ 1`, an execution (quotient rounded up, `q' > k`)
returning `k + 2` points.  Abstract counterpart of the kernel-checked IEEE witness
`C13.old_formula_off_by_one` (`M = 29/365`, `dt = 1/365`). -/
theorem nSteps_old_can_overshoot (k : ℕ) (hk1 : 1 ≤ k) (hk : k ≤ 10 ^ 6) :
    ∃ q' s' : ℝ, |q' - k| ≤ u * |(k : ℝ)| ∧ (k : ℝ) < q' ∧
      |s' - (q' + 1)| ≤ u * |q' + 1| ∧ ⌈s'⌉ = (k : ℤ) + 2 := by
  have hk' : (k : ℝ) ≤ 10 ^ 6 := by exact_mod_cast hk
  refine old_ceil_can_overshoot u_pos k hk1 ?_
  unfold u; norm_num; linarith

/-- the repaired start index is exactly `k` whenever `start/dt` is within rounding distance of
the integer `k` -/
theorem startIndex_at_integers (k : ℕ) (hk : k ≤ 10 ^ 6) {q q' d' : ℝ}
    (hq : |q - k| ≤ 4 * u * k) (hq' : |q' - q| ≤ u * |q|)
    (hd : |d' - (q' + tol)| ≤ u * |q' + tol|) : ⌊d'⌋ = (k : ℤ) := by
  have hk' : (k : ℝ) ≤ 10 ^ 6 := by exact_mod_cast hk
  exact floor_at_integer u_pos.le u_le k (err_lt_tol hk') (tol_add_err_lt_one hk') hq hq' hd

/-- away from the integers the repaired start index is the exact `⌊start/dt⌋` -/
theorem startIndex_away_from_integers {q q' d' : ℝ} (hq0 : 0 ≤ q) (hq1 : q ≤ 10 ^ 6)
    (hsep : ∀ n : ℤ, 2 * tol ≤ |q - n|) (hq' : |q' - q| ≤ u * |q|)
    (hd : |d' - (q' + tol)| ≤ u * |q' + tol|) : ⌊d'⌋ = ⌊q⌋ :=
  floor_away_from_integers u_pos.le u_le hq0 tol_pos.le (err_lt_tol hq1) hsep hq' hd

/-- the old start index `⌊fl(q)⌋` allows, at `q = k ≥ 1`, an execution (quotient rounded down)
returning `k − 1`; abstract counterpart of `C13.old_start_index_one_early` (`0.3 / 0.1`). -/
theorem startIndex_old_can_undershoot (k : ℕ) (hk1 : 1 ≤ k) (hk : k ≤ 10 ^ 6) :
    ∃ q' : ℝ, |q' - k| ≤ u * |(k : ℝ)| ∧ q' < k ∧ ⌊q'⌋ = (k : ℤ) - 1 := by
  have hk' : (k : ℝ) ≤ 10 ^ 6 := by exact_mod_cast hk
  refine old_floor_can_undershoot u_pos k hk1 ?_
  unfold u; norm_num; linarith

/-! ### connection with the exact definitions of Model/Grid.lean -/

/-- core's `Rat.ceil` is Mathlib's `Int.ceil` on `ℚ` -/
theorem rat_ceil_eq (x : ℚ) : x.ceil = ⌈x⌉ := Rat.ceil_eq_neg_floor_neg x

/-- core's `Rat.floor` is Mathlib's `Int.floor` on `ℚ` -/
theorem rat_floor_eq (x : ℚ) : x.floor = ⌊x⌋ := rfl

/-- the exact step count of the model is `⌈M/dt⌉ + 1` with the real-number ceiling -/
theorem nStepsExact_eq_ceil (m dt : ℚ) :
    nStepsExact m dt = ⌈((m : ℝ) / (dt : ℝ))⌉ + 1 := by
  unfold nStepsExact
  rw [rat_ceil_eq, ← Rat.cast_div, Rat.ceil_cast]

/-- the exact start index of the model is `⌊start/dt⌋` with the real-number floor -/
theorem startIndexExact_eq_floor (s dt : ℚ) :
    startIndexExact s dt = ⌊((s : ℝ) / (dt : ℝ))⌋ := by
  unfold startIndexExact
  rw [rat_floor_eq, ← Rat.cast_div, Rat.floor_cast]

/-- integral ratio `M = k·dt`: every execution of the repaired formula allowed by the standard
model returns the exact count `nStepsExact M dt` (`= k + 1`) -/
theorem nSteps_eq_exact_at_integers (k : ℕ) (hk : k ≤ 10 ^ 6) (dt : ℚ) (hdt : 0 < dt)
    {q' d' : ℝ}
    (hq' : |q' - (((k : ℚ) * dt : ℚ) : ℝ) / (dt : ℝ)| ≤ u * |(((k : ℚ) * dt : ℚ) : ℝ) / (dt : ℝ)|)
    (hd : |d' - (q' - tol)| ≤ u * |q' - tol|) :
    ⌈d'⌉ + 1 = nStepsExact ((k : ℚ) * dt) dt := by
  have hdt' : (dt : ℝ) ≠ 0 := by exact_mod_cast hdt.ne'
  have hq : (((k : ℚ) * dt : ℚ) : ℝ) / (dt : ℝ) = (k : ℝ) := by
    push_cast; field_simp
  rw [nStepsExact_eq_ceil, hq]
  rw [hq] at hq'
  rw [Int.ceil_natCast]
  refine nSteps_at_integers k hk (q := (k : ℝ)) ?_ hq' hd
  rw [sub_self, abs_zero]
  exact mul_nonneg (mul_nonneg (by norm_num) u_pos.le) (Nat.cast_nonneg k)

/-- ratio away from the integers: every execution of the repaired formula allowed by the
standard model returns the exact count `nStepsExact M dt` -/
theorem nSteps_eq_exact_away_from_integers (m dt : ℚ) {q' d' : ℝ}
    (hq0 : 0 ≤ (m : ℝ) / (dt : ℝ)) (hq1 : (m : ℝ) / (dt : ℝ) ≤ 10 ^ 6)
    (hsep : ∀ n : ℤ, 2 * tol ≤ |(m : ℝ) / (dt : ℝ) - n|)
    (hq' : |q' - (m : ℝ) / (dt : ℝ)| ≤ u * |(m : ℝ) / (dt : ℝ)|)
    (hd : |d' - (q' - tol)| ≤ u * |q' - tol|) :
    ⌈d'⌉ + 1 = nStepsExact m dt := by
  rw [nStepsExact_eq_ceil]
  exact nSteps_away_from_integers hq0 hq1 hsep hq' hd

/-- integral ratio `start = k·dt`: the repaired start index is the exact one -/
theorem startIndex_eq_exact_at_integers (k : ℕ) (hk : k ≤ 10 ^ 6) (dt : ℚ) (hdt : 0 < dt)
    {q' d' : ℝ}
    (hq' : |q' - (((k : ℚ) * dt : ℚ) : ℝ) / (dt : ℝ)| ≤ u * |(((k : ℚ) * dt : ℚ) : ℝ) / (dt : ℝ)|)
    (hd : |d' - (q' + tol)| ≤ u * |q' + tol|) :
    ⌊d'⌋ = startIndexExact ((k : ℚ) * dt) dt := by
  have hdt' : (dt : ℝ) ≠ 0 := by exact_mod_cast hdt.ne'
  have hq : (((k : ℚ) * dt : ℚ) : ℝ) / (dt : ℝ) = (k : ℝ) := by
    push_cast; field_simp
  rw [startIndexExact_eq_floor, hq]
  rw [hq] at hq'
  rw [Int.floor_natCast]
  refine startIndex_at_integers k hk (q := (k : ℝ)) ?_ hq' hd
  rw [sub_self, abs_zero]
  exact mul_nonneg (mul_nonneg (by norm_num) u_pos.le) (Nat.cast_nonneg k)

theorem startIndex_eq_exact_away_from_integers (s dt : ℚ) {q' d' : ℝ}
    (hq0 : 0 ≤ (s : ℝ) / (dt : ℝ)) (hq1 : (s : ℝ) / (dt : ℝ) ≤ 10 ^ 6)
    (hsep : ∀ n : ℤ, 2 * tol ≤ |(s : ℝ) / (dt : ℝ) - n|)
    (hq' : |q' - (s : ℝ) / (dt : ℝ)| ≤ u * |(s : ℝ) / (dt : ℝ)|)
    (hd : |d' - (q' + tol)| ≤ u * |q' + tol|) :
    ⌊d'⌋ = startIndexExact s dt := by
  rw [startIndexExact_eq_floor]
  exact startIndex_away_from_integers hq0 hq1 hsep hq' hd

/-! ### non-vacuity -/

/-- `q = 29` (the ratio of the F9 reproducer `M = 29/365`, `dt = 1/365`): the quotient may round
up to `29(1+u)` and the subtraction up again — still 30 points -/
example : ⌈(29 * (1 + u) - tol) * (1 + u)⌉ + 1 = (30 : ℤ) := by
  have h := nSteps_at_integers 29 (by norm_num) (q := 29) (q' := 29 * (1 + u))
    (d' := (29 * (1 + u) - tol) * (1 + u))
    (by norm_num; exact u_pos.le)
    (by
      have := u_pos
      rw [abs_of_nonneg (by linarith), abs_of_nonneg (by norm_num)]; linarith)
    (by
      have h1 := u_pos
      have h2 : tol < 1 := by unfold tol; norm_num
      have h3 : 0 ≤ 29 * (1 + u) - tol := by nlinarith
      rw [abs_of_nonneg (by nlinarith), abs_of_nonneg h3]; linarith)
  rw [h]; norm_num

/-- the hypotheses of `nSteps_at_integers` are satisfiable with inexact `q`, `q'`, `d'`, and the
old formula overshoots for the same `k` -/
example : ∃ q' s' : ℝ, |q' - 29| ≤ u * |(29 : ℝ)| ∧ ⌈s'⌉ = (31 : ℤ) ∧
    |s' - (q' + 1)| ≤ u * |q' + 1| := by
  obtain ⟨q', s', h1, _, h3, h4⟩ := nSteps_old_can_overshoot 29 (by norm_num) (by norm_num)
  exact ⟨q', s', by simpa using h1, by simpa using h4, h3⟩

/-- away from the integers: `q = 29/2` is `1/2 ≥ 2·tol` from every integer, exact execution
(`δ = 0`) returns `⌈29/2⌉ + 1 = 16` -/
example : ⌈(29 / 2 : ℝ) - tol⌉ + 1 = (16 : ℤ) := by
  have hsep : ∀ n : ℤ, 2 * tol ≤ |(29 / 2 : ℝ) - n| := by
    intro n
    have ht : 2 * tol ≤ 1 / 2 := by unfold tol; norm_num
    refine le_trans ht ?_
    rcases le_or_gt n 14 with h | h
    · have : (n : ℝ) ≤ 14 := by exact_mod_cast h
      rw [abs_of_nonneg (by linarith)]; linarith
    · have : (15 : ℝ) ≤ n := by exact_mod_cast h
      rw [abs_of_nonpos (by linarith)]; linarith
  have h := nSteps_away_from_integers (q := 29 / 2) (q' := 29 / 2) (d' := 29 / 2 - tol)
    (by norm_num) (by norm_num) hsep
    (by rw [sub_self, abs_zero]; exact mul_nonneg u_pos.le (abs_nonneg _))
    (by rw [sub_self, abs_zero]; exact mul_nonneg u_pos.le (abs_nonneg _))
  rw [h]
  have : ⌈(29 / 2 : ℝ)⌉ = 15 := by
    rw [Int.ceil_eq_iff]; norm_num
  rw [this]; norm_num

end PfVerif.C13Round
