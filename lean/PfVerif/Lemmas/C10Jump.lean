/-
  C10 (jump models, log-variance) — the "documented jump contributions" to the one-step
  log-variance of `generate_merton_jump` and `generate_kou_jump`.

  Per step the Merton log-return is
    R = (mu − σ²/2 − λ(e^{jm+js²/2} − 1))·dt + σ√dt·Z + (jm·C + Zj·js·√C),
  `C ~ Poisson(λ dt)`, `Z, Zj ~ N(0,1)` independent (`mertonLogRet`, = the exponent of the transition
  in `C10.merton_scan`), and the Kou log-return is
    R = (mu − λ m − σ²/2)·dt + σ√dt·Z + Σ_{j ≤ C} J_j,
  `C ~ Poisson(λ dt)`, `J_j` i.i.d. `+Exp(η₊)` w.p. `p`, `−Exp(η₋)` w.p. `1 − p` (`kouLogRet`, = the
  exponent of the transition in `C10.kou_scan`).

  Expectations are written out as in Props/C10.lean (the law of the draws is the trusted base):
  a normal draw is an integral against `phi`, the Poisson count the series `∑' k, poissonPmf L k * …`,
  an exponential draw an integral over `Ioi 0` against `η e^{−η x}`; one Kou log-jump is the mixture
  `kouE`; independence = iterated form.  The sum of `k` i.i.d. log-jumps is the `k`-fold iterated
  expectation `iterSum` (tower property written out, `iterSum_two`).

  Results (`L = λ·dt`):
  * Poisson: `E[C] = L`, `E[C²] = L + L²` (index shift `k·Lᵏ/k! = L·Lᵏ⁻¹/(k−1)!`);
  * Merton: jump part given `C = k` has mean `jm·k`, variance `js²·k`; unconditionally mean `jm·L`,
    variance `L(jm² + js²)`; `Var[R] = σ²·dt + λ·dt·(jm² + js²)` (`merton_step_logvar`);
  * Kou: `E[J] = p/η₊ − (1−p)/η₋`, `E[J²] = 2p/η₊² + 2(1−p)/η₋²`; the sum of `k` i.i.d. jumps has
    mean `k·E[J]` and centred second moment `k·Var[J] + (shift)²` (`iterSum_mean`, `iterSum_sq`,
    proved for any one-draw expectation functional that evaluates quadratics through its first two
    moments); compound-Poisson variance `L·E[J²]`; `Var[R] = σ²·dt + λ·dt·(2p/η₊² + 2(1−p)/η₋²)`
    (`kou_step_logvar`).
  None of the identities needs `0 ≤ λ`; `0 ≤ dt` is needed only for `(√dt)² = dt`.
-/
import PfVerif.Props.C10
import Mathlib.Analysis.SpecialFunctions.Gamma.Basic
import Mathlib.Topology.Algebra.InfiniteSum.NatInt

namespace PfVerif.C10Jump
open PfVerif PfVerif.C10Aux Real MeasureTheory Set

/-! ### moments of the Poisson law -/

/-- index shift: `pmf(k+1)·(k+1) = L·pmf(k)` -/
theorem poissonPmf_succ (L : ℝ) (k : ℕ) :
    poissonPmf L (k + 1) * ((k + 1 : ℕ) : ℝ) = L * poissonPmf L k := by
  unfold poissonPmf
  rw [Nat.factorial_succ]
  have h1 : ((k + 1 : ℕ) : ℝ) ≠ 0 := by positivity
  have h2 : ((k.factorial : ℕ) : ℝ) ≠ 0 := by positivity
  push_cast
  field_simp
  ring

/-- total mass one -/
theorem poisson_total_hasSum (L : ℝ) : HasSum (poissonPmf L) 1 := by
  have h := poisson_pgf_hasSum L 1
  simpa using h

/-- `E[C] = L` for `C ~ Poisson(L)` -/
theorem poisson_mean_hasSum (L : ℝ) : HasSum (fun k : ℕ => poissonPmf L k * (k : ℝ)) L := by
  have h : HasSum (fun k : ℕ => poissonPmf L (k + 1) * ((k + 1 : ℕ) : ℝ)) L := by
    simp_rw [poissonPmf_succ]
    simpa using (poisson_total_hasSum L).mul_left L
  have := (hasSum_nat_add_iff (f := fun k : ℕ => poissonPmf L k * (k : ℝ)) 1).1 h
  simpa using this

/-- `E[C²] = L + L²` -/
theorem poisson_second_moment_hasSum (L : ℝ) :
    HasSum (fun k : ℕ => poissonPmf L k * (k : ℝ) ^ 2) (L + L ^ 2) := by
  have h : HasSum (fun k : ℕ => poissonPmf L (k + 1) * ((k + 1 : ℕ) : ℝ) ^ 2) (L + L ^ 2) := by
    have e : ∀ k : ℕ, poissonPmf L (k + 1) * ((k + 1 : ℕ) : ℝ) ^ 2
        = L * (poissonPmf L k * (k : ℝ) + poissonPmf L k) := by
      intro k
      rw [pow_two, ← mul_assoc, poissonPmf_succ]
      push_cast
      ring
    simp_rw [e]
    have := ((poisson_mean_hasSum L).add (poisson_total_hasSum L)).mul_left L
    rw [show L + L ^ 2 = L * (L + 1) by ring]
    exact this
  have := (hasSum_nat_add_iff (f := fun k : ℕ => poissonPmf L k * (k : ℝ) ^ 2) 1).1 h
  simpa using this

/-- expectation of a quadratic in the Poisson count -/
theorem poisson_quadratic_hasSum (L α β γ : ℝ) :
    HasSum (fun k : ℕ => poissonPmf L k * (α + β * (k : ℝ) + γ * (k : ℝ) ^ 2))
      (α + β * L + γ * (L + L ^ 2)) := by
  have h := (((poisson_total_hasSum L).mul_left α).add ((poisson_mean_hasSum L).mul_left β)).add
    ((poisson_second_moment_hasSum L).mul_left γ)
  have e : (fun k : ℕ => poissonPmf L k * (α + β * (k : ℝ) + γ * (k : ℝ) ^ 2))
      = fun k : ℕ => α * poissonPmf L k + β * (poissonPmf L k * (k : ℝ))
          + γ * (poissonPmf L k * (k : ℝ) ^ 2) := by
    funext k; ring
  rw [e, show α + β * L + γ * (L + L ^ 2) = α * 1 + β * L + γ * (L + L ^ 2) by ring]
  exact h

/-! ### moments of the exponential law -/

/-- total mass one -/
theorem exp_density_integral (η : ℝ) (h : 0 < η) :
    ∫ x in Ioi (0 : ℝ), η * Real.exp (-η * x) = 1 := by
  rw [integral_const_mul, integral_exp_mul_Ioi (by linarith : -η < 0)]
  simp
  field_simp

/-- `E[X] = 1/η` for `X ~ Exp(η)` -/
theorem exp_first_moment (η : ℝ) (h : 0 < η) :
    ∫ x in Ioi (0 : ℝ), x * (η * Real.exp (-η * x)) = 1 / η := by
  have key := Real.integral_rpow_mul_exp_neg_mul_Ioi (a := 2) (r := η) (by norm_num) h
  have e : ∀ x ∈ Ioi (0 : ℝ), x * (η * Real.exp (-η * x))
      = η * (x ^ ((2 : ℝ) - 1) * Real.exp (-(η * x))) := by
    intro x hx
    rw [show (2 : ℝ) - 1 = 1 by norm_num, Real.rpow_one, neg_mul]
    ring
  rw [setIntegral_congr_fun measurableSet_Ioi e, integral_const_mul, key,
    show (2 : ℝ) = ((1 : ℕ) : ℝ) + 1 by norm_num, Real.Gamma_nat_eq_factorial]
  have : η ≠ 0 := h.ne'
  norm_num
  field_simp

/-- `E[X²] = 2/η²` -/
theorem exp_second_moment (η : ℝ) (h : 0 < η) :
    ∫ x in Ioi (0 : ℝ), x ^ 2 * (η * Real.exp (-η * x)) = 2 / η ^ 2 := by
  have key := Real.integral_rpow_mul_exp_neg_mul_Ioi (a := 3) (r := η) (by norm_num) h
  have e : ∀ x ∈ Ioi (0 : ℝ), x ^ 2 * (η * Real.exp (-η * x))
      = η * (x ^ ((3 : ℝ) - 1) * Real.exp (-(η * x))) := by
    intro x hx
    rw [show (3 : ℝ) - 1 = 2 by norm_num, Real.rpow_two, neg_mul]
    ring
  rw [setIntegral_congr_fun measurableSet_Ioi e, integral_const_mul, key,
    show (3 : ℝ) = ((2 : ℕ) : ℝ) + 1 by norm_num, Real.Gamma_nat_eq_factorial]
  have : η ≠ 0 := h.ne'
  norm_num
  field_simp


/-! ### Merton: one-step log-return -/

/-- one-step Merton log-return, exactly the exponent of the transition in `C10.merton_scan` -/
noncomputable def mertonLogRet (mu sigma lam jm js dt z zj c : ℝ) : ℝ :=
  (mu - sigma ^ 2 / 2 - lam * (Real.exp (jm + js ^ 2 / 2) - 1)) * dt
    + sigma * Real.sqrt dt * z + (jm * c + zj * js * Real.sqrt c)

/-- the generated Merton path is the scan of `S ↦ S·e^{R}` with `R = mertonLogRet` at the step's draws
(normal `z`, jump normal `zj`, Poisson count `c`) -/
theorem merton_scan_logRet (init mu sigma lam jm js dt z0 : ℝ) (zs nj zj : List ℝ)
    (hnj : nj.length = zs.length) (hzj : zj.length = zs.length) :
    mertonJump init mu sigma lam jm js dt nj zj (z0 :: zs)
      = List.scanl (fun S (d : ℝ × ℝ × ℝ) =>
          S * Real.exp (mertonLogRet mu sigma lam jm js dt d.1 d.2.2 d.2.1))
          init (List.zip zs (List.zip nj zj)) :=
  C10.merton_scan init mu sigma lam jm js dt z0 zs nj zj hnj hzj

/-- second moment of the jump part about any centre `m`, given the count `c` -/
theorem merton_jump_cond_sq (jm js c m : ℝ) (hc : 0 ≤ c) :
    ∫ zj, ((jm * c + zj * js * Real.sqrt c) - m) ^ 2 * phi zj = (jm * c - m) ^ 2 + js ^ 2 * c := by
  have e : (fun zj => ((jm * c + zj * js * Real.sqrt c) - m) ^ 2 * phi zj)
      = fun zj => ((jm * c - m) + (js * Real.sqrt c) * zj) ^ 2 * phi zj := by
    funext zj; ring
  rw [e, integral_affine_sq_mul_phi, mul_pow, Real.sq_sqrt hc]

/-- given `C = c`: the jump part has mean `jm·c` -/
theorem merton_jump_cond_mean (jm js c : ℝ) :
    ∫ zj, (jm * c + zj * js * Real.sqrt c) * phi zj = jm * c := by
  have e : (fun zj => (jm * c + zj * js * Real.sqrt c) * phi zj)
      = fun zj => (jm * c + (js * Real.sqrt c) * zj) * phi zj := by
    funext zj; ring
  rw [e, integral_affine_mul_phi]

/-- given `C = c`: the jump part has variance `js²·c` -/
theorem merton_jump_cond_var (jm js c : ℝ) (hc : 0 ≤ c) :
    ∫ zj, ((jm * c + zj * js * Real.sqrt c) - jm * c) ^ 2 * phi zj = js ^ 2 * c := by
  rw [merton_jump_cond_sq jm js c _ hc]; ring

/-- unconditional mean of the jump part: `jm·L` -/
theorem merton_jump_mean_hasSum (L jm js : ℝ) :
    HasSum (fun k : ℕ => poissonPmf L k
        * ∫ zj, (jm * (k : ℝ) + zj * js * Real.sqrt (k : ℝ)) * phi zj) (jm * L) := by
  simp_rw [merton_jump_cond_mean]
  have h := poisson_quadratic_hasSum L 0 jm 0
  have e : (fun k : ℕ => poissonPmf L k * (0 + jm * (k : ℝ) + 0 * (k : ℝ) ^ 2))
      = fun k : ℕ => poissonPmf L k * (jm * (k : ℝ)) := by funext k; ring
  rw [e, show 0 + jm * L + 0 * (L + L ^ 2) = jm * L by ring] at h
  exact h

/-- unconditional variance of the jump part (law of total variance written out): `L(jm² + js²)` -/
theorem merton_jump_var_hasSum (L jm js : ℝ) :
    HasSum (fun k : ℕ => poissonPmf L k
        * ∫ zj, ((jm * (k : ℝ) + zj * js * Real.sqrt (k : ℝ)) - jm * L) ^ 2 * phi zj)
      (L * (jm ^ 2 + js ^ 2)) := by
  have e : (fun k : ℕ => poissonPmf L k
        * ∫ zj, ((jm * (k : ℝ) + zj * js * Real.sqrt (k : ℝ)) - jm * L) ^ 2 * phi zj)
      = fun k : ℕ => poissonPmf L k
          * (jm ^ 2 * L ^ 2 + (js ^ 2 - 2 * jm ^ 2 * L) * (k : ℝ) + jm ^ 2 * (k : ℝ) ^ 2) := by
    funext k
    rw [merton_jump_cond_sq jm js k _ (Nat.cast_nonneg k)]
    ring
  rw [e, show L * (jm ^ 2 + js ^ 2)
    = jm ^ 2 * L ^ 2 + (js ^ 2 - 2 * jm ^ 2 * L) * L + jm ^ 2 * (L + L ^ 2) by ring]
  exact poisson_quadratic_hasSum L _ _ _

/-- inner two Gaussian integrals of the centred square, given the count -/
theorem merton_logRet_cond_sq (mu sigma lam jm js dt c m : ℝ) (hdt : 0 ≤ dt) (hc : 0 ≤ c) :
    ∫ z, (∫ zj, (mertonLogRet mu sigma lam jm js dt z zj c - m) ^ 2 * phi zj) * phi z
      = ((mu - sigma ^ 2 / 2 - lam * (Real.exp (jm + js ^ 2 / 2) - 1)) * dt + jm * c - m) ^ 2
        + sigma ^ 2 * dt + js ^ 2 * c := by
  set D := (mu - sigma ^ 2 / 2 - lam * (Real.exp (jm + js ^ 2 / 2) - 1)) * dt with hD
  have inner : ∀ z : ℝ, ∫ zj, (mertonLogRet mu sigma lam jm js dt z zj c - m) ^ 2 * phi zj
      = ((D + jm * c - m) + (sigma * Real.sqrt dt) * z) ^ 2 + js ^ 2 * c := by
    intro z
    have e : (fun zj => (mertonLogRet mu sigma lam jm js dt z zj c - m) ^ 2 * phi zj)
        = fun zj => ((jm * c + zj * js * Real.sqrt c)
            - (m - D - sigma * Real.sqrt dt * z)) ^ 2 * phi zj := by
      funext zj; unfold mertonLogRet; rw [← hD]; ring
    rw [e, merton_jump_cond_sq jm js c _ hc]
    ring
  simp_rw [inner]
  have e : (fun z => (((D + jm * c - m) + (sigma * Real.sqrt dt) * z) ^ 2 + js ^ 2 * c) * phi z)
      = fun z => ((D + jm * c - m) + (sigma * Real.sqrt dt) * z) ^ 2 * phi z
          + (js ^ 2 * c) * phi z := by
    funext z; ring
  rw [e, integral_add (affine_sq_mul_phi_integrable _ _) (phi_integrable.const_mul _),
    integral_affine_sq_mul_phi, integral_const_mul, integral_phi, mul_pow, Real.sq_sqrt hdt]
  ring

/-- given the count: mean of the log-return over both normal draws -/
theorem merton_logRet_cond_mean (mu sigma lam jm js dt c : ℝ) :
    ∫ z, (∫ zj, mertonLogRet mu sigma lam jm js dt z zj c * phi zj) * phi z
      = (mu - sigma ^ 2 / 2 - lam * (Real.exp (jm + js ^ 2 / 2) - 1)) * dt + jm * c := by
  set D := (mu - sigma ^ 2 / 2 - lam * (Real.exp (jm + js ^ 2 / 2) - 1)) * dt with hD
  have inner : ∀ z : ℝ, ∫ zj, mertonLogRet mu sigma lam jm js dt z zj c * phi zj
      = (D + jm * c) + (sigma * Real.sqrt dt) * z := by
    intro z
    have e : (fun zj => mertonLogRet mu sigma lam jm js dt z zj c * phi zj)
        = fun zj => ((D + sigma * Real.sqrt dt * z + jm * c) + (js * Real.sqrt c) * zj)
            * phi zj := by
      funext zj; unfold mertonLogRet; rw [← hD]; ring
    rw [e, integral_affine_mul_phi]
    ring
  simp_rw [inner]
  rw [integral_affine_mul_phi]

/-- `E[R] = drift·dt + jm·λ·dt` -/
theorem merton_step_logmean_hasSum (mu sigma lam jm js dt : ℝ) :
    HasSum (fun k : ℕ => poissonPmf (lam * dt) k
        * ∫ z, (∫ zj, mertonLogRet mu sigma lam jm js dt z zj (k : ℝ) * phi zj) * phi z)
      ((mu - sigma ^ 2 / 2 - lam * (Real.exp (jm + js ^ 2 / 2) - 1)) * dt + jm * (lam * dt)) := by
  simp_rw [merton_logRet_cond_mean]
  set D := (mu - sigma ^ 2 / 2 - lam * (Real.exp (jm + js ^ 2 / 2) - 1)) * dt with hD
  have h := poisson_quadratic_hasSum (lam * dt) D jm 0
  have e : (fun k : ℕ => poissonPmf (lam * dt) k * (D + jm * (k : ℝ) + 0 * (k : ℝ) ^ 2))
      = fun k : ℕ => poissonPmf (lam * dt) k * (D + jm * (k : ℝ)) := by funext k; ring
  rw [e, show D + jm * (lam * dt) + 0 * (lam * dt + (lam * dt) ^ 2) = D + jm * (lam * dt) by ring]
    at h
  exact h

/-- `Var[R] = σ²·dt + λ·dt·(jm² + js²)` -/
theorem merton_step_logvar_hasSum (mu sigma lam jm js dt : ℝ) (hdt : 0 ≤ dt) :
    HasSum (fun k : ℕ => poissonPmf (lam * dt) k
        * ∫ z, (∫ zj, (mertonLogRet mu sigma lam jm js dt z zj (k : ℝ)
            - ((mu - sigma ^ 2 / 2 - lam * (Real.exp (jm + js ^ 2 / 2) - 1)) * dt
                + jm * (lam * dt))) ^ 2 * phi zj) * phi z)
      (sigma ^ 2 * dt + lam * dt * (jm ^ 2 + js ^ 2)) := by
  set L := lam * dt with hL
  have e : (fun k : ℕ => poissonPmf L k
        * ∫ z, (∫ zj, (mertonLogRet mu sigma lam jm js dt z zj (k : ℝ)
            - ((mu - sigma ^ 2 / 2 - lam * (Real.exp (jm + js ^ 2 / 2) - 1)) * dt
                + jm * L)) ^ 2 * phi zj) * phi z)
      = fun k : ℕ => poissonPmf L k
          * ((jm ^ 2 * L ^ 2 + sigma ^ 2 * dt) + (js ^ 2 - 2 * jm ^ 2 * L) * (k : ℝ)
              + jm ^ 2 * (k : ℝ) ^ 2) := by
    funext k
    rw [merton_logRet_cond_sq mu sigma lam jm js dt k _ hdt (Nat.cast_nonneg k)]
    ring
  rw [e, show sigma ^ 2 * dt + L * (jm ^ 2 + js ^ 2)
    = (jm ^ 2 * L ^ 2 + sigma ^ 2 * dt) + (js ^ 2 - 2 * jm ^ 2 * L) * L
        + jm ^ 2 * (L + L ^ 2) by ring]
  exact poisson_quadratic_hasSum L _ _ _


/-! ### Kou: single log-jump, sum of i.i.d. log-jumps, one-step log-return -/

/- integrability from the value of the integral: a non-integrable function has integral `0` -/
theorem expDensity_integrableOn (η : ℝ) (h : 0 < η) :
    IntegrableOn (fun x : ℝ => η * Real.exp (-η * x)) (Ioi 0) := by
  by_contra hf
  have := integral_undef hf
  rw [exp_density_integral η h] at this
  exact one_ne_zero this

theorem id_mul_expDensity_integrableOn (η : ℝ) (h : 0 < η) :
    IntegrableOn (fun x : ℝ => x * (η * Real.exp (-η * x))) (Ioi 0) := by
  by_contra hf
  have := integral_undef hf
  rw [exp_first_moment η h] at this
  exact (one_div_ne_zero h.ne') this

theorem sq_mul_expDensity_integrableOn (η : ℝ) (h : 0 < η) :
    IntegrableOn (fun x : ℝ => x ^ 2 * (η * Real.exp (-η * x))) (Ioi 0) := by
  by_contra hf
  have := integral_undef hf
  rw [exp_second_moment η h] at this
  exact (div_ne_zero two_ne_zero (pow_ne_zero 2 h.ne')) this

/-- `E[α + β X + γ X²]` for `X ~ Exp(η)` -/
theorem exp_quadratic (η : ℝ) (h : 0 < η) (α β γ : ℝ) :
    ∫ x in Ioi (0 : ℝ), (α + β * x + γ * x ^ 2) * (η * Real.exp (-η * x))
      = α + β / η + 2 * γ / η ^ 2 := by
  have e : (fun x : ℝ => (α + β * x + γ * x ^ 2) * (η * Real.exp (-η * x)))
      = fun x => α * (η * Real.exp (-η * x)) + β * (x * (η * Real.exp (-η * x)))
          + γ * (x ^ 2 * (η * Real.exp (-η * x))) := by
    funext x; ring
  have I1 : IntegrableOn (fun x : ℝ => α * (η * Real.exp (-η * x))) (Ioi 0) :=
    (expDensity_integrableOn η h).const_mul α
  have I2 : IntegrableOn (fun x : ℝ => β * (x * (η * Real.exp (-η * x)))) (Ioi 0) :=
    (id_mul_expDensity_integrableOn η h).const_mul β
  have I3 : IntegrableOn (fun x : ℝ => γ * (x ^ 2 * (η * Real.exp (-η * x)))) (Ioi 0) :=
    (sq_mul_expDensity_integrableOn η h).const_mul γ
  have I12 : IntegrableOn (fun x : ℝ => α * (η * Real.exp (-η * x))
      + β * (x * (η * Real.exp (-η * x)))) (Ioi 0) := I1.add I2
  have J1 : ∫ x in Ioi (0 : ℝ), α * (η * Real.exp (-η * x)) = α * 1 := by
    rw [← exp_density_integral η h]; exact integral_const_mul α _
  have J2 : ∫ x in Ioi (0 : ℝ), β * (x * (η * Real.exp (-η * x))) = β * (1 / η) := by
    rw [← exp_first_moment η h]; exact integral_const_mul β _
  have J3 : ∫ x in Ioi (0 : ℝ), γ * (x ^ 2 * (η * Real.exp (-η * x))) = γ * (2 / η ^ 2) := by
    rw [← exp_second_moment η h]; exact integral_const_mul γ _
  rw [e, integral_add I12 I3, integral_add I1 I2, J1, J2, J3]
  ring

/-- expectation of `g J` for one Kou log-jump -/
noncomputable def kouE (p etaUp etaDown : ℝ) (g : ℝ → ℝ) : ℝ :=
  p * (∫ x in Ioi (0 : ℝ), g x * (etaUp * Real.exp (-etaUp * x)))
    + (1 - p) * ∫ x in Ioi (0 : ℝ), g (-x) * (etaDown * Real.exp (-etaDown * x))

/-- `kouE` evaluates quadratics through `E[J]` and `E[J²]` -/
theorem kouE_quadratic (p etaUp etaDown : ℝ) (hu : 0 < etaUp) (hd : 0 < etaDown) (α β γ : ℝ) :
    kouE p etaUp etaDown (fun j => α + β * j + γ * j ^ 2)
      = α + β * (p / etaUp - (1 - p) / etaDown)
          + γ * (2 * p / etaUp ^ 2 + 2 * (1 - p) / etaDown ^ 2) := by
  unfold kouE
  have e : (fun x : ℝ => (α + β * (-x) + γ * (-x) ^ 2) * (etaDown * Real.exp (-etaDown * x)))
      = fun x => (α + (-β) * x + γ * x ^ 2) * (etaDown * Real.exp (-etaDown * x)) := by
    funext x; ring
  rw [e, exp_quadratic etaUp hu, exp_quadratic etaDown hd]
  ring

theorem kouE_id (p etaUp etaDown : ℝ) (hu : 0 < etaUp) (hd : 0 < etaDown) :
    kouE p etaUp etaDown (fun j => j) = p / etaUp - (1 - p) / etaDown := by
  have h := kouE_quadratic p etaUp etaDown hu hd 0 1 0
  have e : (fun j : ℝ => 0 + 1 * j + 0 * j ^ 2) = fun j => j := by funext j; ring
  rw [e] at h
  rw [h]; ring

theorem kouE_sq (p etaUp etaDown : ℝ) (hu : 0 < etaUp) (hd : 0 < etaDown) :
    kouE p etaUp etaDown (fun j => j ^ 2) = 2 * p / etaUp ^ 2 + 2 * (1 - p) / etaDown ^ 2 := by
  have h := kouE_quadratic p etaUp etaDown hu hd 0 0 1
  have e : (fun j : ℝ => 0 + 0 * j + 1 * j ^ 2) = fun j => j ^ 2 := by funext j; ring
  rw [e] at h
  rw [h]; ring

/-- `iterSum E k g s` = expectation of `g (s + J₁ + … + J_k)` for i.i.d. `J_i` whose one-draw
expectation functional is `E`: the `k`-fold iterated expectation (tower property) -/
def iterSum (E : (ℝ → ℝ) → ℝ) : ℕ → (ℝ → ℝ) → ℝ → ℝ
  | 0, g, s => g s
  | k + 1, g, s => E (fun j => iterSum E k g (s + j))

/-- what `iterSum` computes, written out for two jumps -/
theorem iterSum_two (E : (ℝ → ℝ) → ℝ) (g : ℝ → ℝ) (s : ℝ) :
    iterSum E 2 g s = E (fun j1 => E (fun j2 => g (s + j1 + j2))) := rfl

/-- for any one-draw expectation functional `E` that evaluates quadratics through a first moment `a`
and a second moment `b` (linear, normalised): the sum of `k` i.i.d. draws has mean `k·a` -/
theorem iterSum_mean (E : (ℝ → ℝ) → ℝ) (a b : ℝ)
    (hE : ∀ α β γ : ℝ, E (fun j => α + β * j + γ * j ^ 2) = α + β * a + γ * b) :
    ∀ (k : ℕ) (s : ℝ), iterSum E k (fun y => y) s = s + k * a := by
  intro k
  induction k with
  | zero => intro s; simp [iterSum]
  | succ k ih =>
    intro s
    simp only [iterSum, ih]
    have e : (fun j : ℝ => s + j + (k : ℝ) * a) = fun j => (s + k * a) + 1 * j + 0 * j ^ 2 := by
      funext j; ring
    rw [e, hE]
    push_cast
    ring

/-- … and second moment about any centre `c` equal to `k·(b − a²) + (s + k·a − c)²`
(variance `k·(b − a²)`: variances of independent draws add) -/
theorem iterSum_sq (E : (ℝ → ℝ) → ℝ) (a b : ℝ)
    (hE : ∀ α β γ : ℝ, E (fun j => α + β * j + γ * j ^ 2) = α + β * a + γ * b) :
    ∀ (k : ℕ) (s c : ℝ), iterSum E k (fun y => (y - c) ^ 2) s
      = k * (b - a ^ 2) + (s + k * a - c) ^ 2 := by
  intro k
  induction k with
  | zero => intro s c; simp [iterSum]
  | succ k ih =>
    intro s c
    simp only [iterSum, ih]
    have e : (fun j : ℝ => (k : ℝ) * (b - a ^ 2) + (s + j + (k : ℝ) * a - c) ^ 2)
        = fun j => ((k : ℝ) * (b - a ^ 2) + (s + k * a - c) ^ 2) + (2 * (s + k * a - c)) * j
            + 1 * j ^ 2 := by
      funext j; ring
    rw [e, hE]
    push_cast
    ring

/-- compound-Poisson variance (law of total variance): conditional variance `k(b − a²)` plus squared
deviation of the conditional mean `k·a` from `L·a`, averaged over `k ~ Poisson(L)`, is `L·b` -/
theorem compound_poisson_var_hasSum (L a b : ℝ) :
    HasSum (fun k : ℕ => poissonPmf L k * ((k : ℝ) * (b - a ^ 2) + ((k : ℝ) * a - L * a) ^ 2))
      (L * b) := by
  have e : (fun k : ℕ => poissonPmf L k * ((k : ℝ) * (b - a ^ 2) + ((k : ℝ) * a - L * a) ^ 2))
      = fun k : ℕ => poissonPmf L k
          * (L ^ 2 * a ^ 2 + (b - a ^ 2 - 2 * L * a ^ 2) * (k : ℝ) + a ^ 2 * (k : ℝ) ^ 2) := by
    funext k; ring
  rw [e, show L * b = L ^ 2 * a ^ 2 + (b - a ^ 2 - 2 * L * a ^ 2) * L + a ^ 2 * (L + L ^ 2) by ring]
  exact poisson_quadratic_hasSum L _ _ _

/-- one-step Kou log-return given the normal draw `z` and the sum `J` of the step's log-jumps -/
noncomputable def kouLogRet (mu sigma lam m dt z J : ℝ) : ℝ :=
  (mu - lam * m - sigma ^ 2 / 2) * dt + sigma * Real.sqrt dt * z + J

/-- the generated Kou path is the scan of `S ↦ S·e^{R}` with `R = kouLogRet` at the step's normal draw
and the sum of the step's log-jumps, `m` the coded compensator -/
theorem kou_scan_logRet (init sigma mu lam etaUp etaDown pUp dt z0 : ℝ) (zs : List ℝ)
    (jumps : List (List ℝ)) (hj : jumps.length = zs.length) :
    kouJump init sigma mu lam etaUp etaDown pUp dt jumps (z0 :: zs)
      = List.scanl (fun S (d : ℝ × List ℝ) =>
          S * Real.exp (kouLogRet mu sigma lam ((1 - pUp) * (etaDown / (etaDown + 1))
                + pUp * (etaUp / (etaUp - 1)) - 1) dt d.1 d.2.sum))
          init (List.zip zs jumps) := by
  rw [C10.kou_scan _ _ _ _ _ _ _ _ _ _ _ hj]
  congr 1
  funext S d
  unfold kouLogRet
  rw [mul_assoc, ← Real.exp_add]

/-- given the count `k`: second moment of the log-return about any centre `c`, over the `k` jumps
(inner, iterated) and the normal draw (outer) -/
theorem kou_logRet_cond_sq (mu sigma lam m dt p etaUp etaDown c : ℝ) (hdt : 0 ≤ dt)
    (hu : 0 < etaUp) (hd : 0 < etaDown) (k : ℕ) :
    ∫ z, iterSum (kouE p etaUp etaDown) k
        (fun J => (kouLogRet mu sigma lam m dt z J - c) ^ 2) 0 * phi z
      = k * ((2 * p / etaUp ^ 2 + 2 * (1 - p) / etaDown ^ 2) - (p / etaUp - (1 - p) / etaDown) ^ 2)
        + ((mu - lam * m - sigma ^ 2 / 2) * dt + k * (p / etaUp - (1 - p) / etaDown) - c) ^ 2
        + sigma ^ 2 * dt := by
  set a := p / etaUp - (1 - p) / etaDown with ha
  set b := 2 * p / etaUp ^ 2 + 2 * (1 - p) / etaDown ^ 2 with hb
  set D := (mu - lam * m - sigma ^ 2 / 2) * dt with hD
  have inner : ∀ z : ℝ, iterSum (kouE p etaUp etaDown) k
        (fun J => (kouLogRet mu sigma lam m dt z J - c) ^ 2) 0
      = (k : ℝ) * (b - a ^ 2) + ((D + k * a - c) + (sigma * Real.sqrt dt) * z) ^ 2 := by
    intro z
    have e : (fun J => (kouLogRet mu sigma lam m dt z J - c) ^ 2)
        = fun J => (J - (c - D - sigma * Real.sqrt dt * z)) ^ 2 := by
      funext J; unfold kouLogRet; rw [← hD]; ring
    rw [e, iterSum_sq _ a b (kouE_quadratic p etaUp etaDown hu hd)]
    ring
  simp_rw [inner]
  have e : (fun z => ((k : ℝ) * (b - a ^ 2)
        + ((D + k * a - c) + (sigma * Real.sqrt dt) * z) ^ 2) * phi z)
      = fun z => ((k : ℝ) * (b - a ^ 2)) * phi z
          + ((D + k * a - c) + (sigma * Real.sqrt dt) * z) ^ 2 * phi z := by
    funext z; ring
  rw [e, integral_add (phi_integrable.const_mul _) (affine_sq_mul_phi_integrable _ _),
    integral_affine_sq_mul_phi, integral_const_mul, integral_phi, mul_pow, Real.sq_sqrt hdt]
  ring

/-- given the count `k`: mean of the log-return -/
theorem kou_logRet_cond_mean (mu sigma lam m dt p etaUp etaDown : ℝ)
    (hu : 0 < etaUp) (hd : 0 < etaDown) (k : ℕ) :
    ∫ z, iterSum (kouE p etaUp etaDown) k (fun J => kouLogRet mu sigma lam m dt z J) 0 * phi z
      = (mu - lam * m - sigma ^ 2 / 2) * dt + k * (p / etaUp - (1 - p) / etaDown) := by
  set a := p / etaUp - (1 - p) / etaDown with ha
  set D := (mu - lam * m - sigma ^ 2 / 2) * dt with hD
  have lin : ∀ (n : ℕ) (s t : ℝ), iterSum (kouE p etaUp etaDown) n (fun J => t + J) s
      = t + s + n * a := by
    intro n
    induction n with
    | zero => intro s t; simp [iterSum]
    | succ n ih =>
      intro s t
      simp only [iterSum, ih]
      have e : (fun j : ℝ => t + (s + j) + (n : ℝ) * a)
          = fun j => (t + s + n * a) + 1 * j + 0 * j ^ 2 := by
        funext j; ring
      rw [e, kouE_quadratic p etaUp etaDown hu hd, ← ha]
      push_cast
      ring
  have inner : ∀ z : ℝ, iterSum (kouE p etaUp etaDown) k
        (fun J => kouLogRet mu sigma lam m dt z J) 0
      = (D + k * a) + (sigma * Real.sqrt dt) * z := by
    intro z
    have e : (fun J => kouLogRet mu sigma lam m dt z J)
        = fun J => (D + sigma * Real.sqrt dt * z) + J := by
      funext J; unfold kouLogRet; rw [← hD]
    rw [e, lin]
    ring
  simp_rw [inner]
  rw [integral_affine_mul_phi]


/-- the jump sum alone: `Var[Σ_{j ≤ C} J_j] = L·E[J²]` -/
theorem kou_jump_var_hasSum (L p etaUp etaDown : ℝ) (hu : 0 < etaUp) (hd : 0 < etaDown) :
    HasSum (fun k : ℕ => poissonPmf L k * iterSum (kouE p etaUp etaDown) k
        (fun J => (J - L * (p / etaUp - (1 - p) / etaDown)) ^ 2) 0)
      (L * (2 * p / etaUp ^ 2 + 2 * (1 - p) / etaDown ^ 2)) := by
  have h := compound_poisson_var_hasSum L (p / etaUp - (1 - p) / etaDown)
    (2 * p / etaUp ^ 2 + 2 * (1 - p) / etaDown ^ 2)
  refine h.congr_fun ?_
  intro k
  rw [iterSum_sq _ _ _ (kouE_quadratic p etaUp etaDown hu hd)]
  ring

/-- the jump sum alone: `E[Σ_{j ≤ C} J_j] = L·E[J]` -/
theorem kou_jump_mean_hasSum (L p etaUp etaDown : ℝ) (hu : 0 < etaUp) (hd : 0 < etaDown) :
    HasSum (fun k : ℕ => poissonPmf L k * iterSum (kouE p etaUp etaDown) k (fun J => J) 0)
      (L * (p / etaUp - (1 - p) / etaDown)) := by
  have h := poisson_quadratic_hasSum L 0 (p / etaUp - (1 - p) / etaDown) 0
  rw [show 0 + (p / etaUp - (1 - p) / etaDown) * L + 0 * (L + L ^ 2)
    = L * (p / etaUp - (1 - p) / etaDown) by ring] at h
  refine h.congr_fun ?_
  intro k
  rw [iterSum_mean _ _ _ (kouE_quadratic p etaUp etaDown hu hd)]
  ring

/-- `E[R] = (mu − λm − σ²/2)·dt + λ·dt·E[J]` -/
theorem kou_step_logmean_hasSum (mu sigma lam m dt p etaUp etaDown : ℝ)
    (hu : 0 < etaUp) (hd : 0 < etaDown) :
    HasSum (fun k : ℕ => poissonPmf (lam * dt) k
        * ∫ z, iterSum (kouE p etaUp etaDown) k (fun J => kouLogRet mu sigma lam m dt z J) 0 * phi z)
      ((mu - lam * m - sigma ^ 2 / 2) * dt + lam * dt * (p / etaUp - (1 - p) / etaDown)) := by
  simp_rw [kou_logRet_cond_mean mu sigma lam m dt p etaUp etaDown hu hd]
  have h := poisson_quadratic_hasSum (lam * dt) ((mu - lam * m - sigma ^ 2 / 2) * dt)
    (p / etaUp - (1 - p) / etaDown) 0
  rw [show (mu - lam * m - sigma ^ 2 / 2) * dt + (p / etaUp - (1 - p) / etaDown) * (lam * dt)
      + 0 * (lam * dt + (lam * dt) ^ 2)
    = (mu - lam * m - sigma ^ 2 / 2) * dt + lam * dt * (p / etaUp - (1 - p) / etaDown) by ring] at h
  refine h.congr_fun ?_
  intro k
  ring

/-- `Var[R] = σ²·dt + λ·dt·E[J²]` -/
theorem kou_step_logvar_hasSum (mu sigma lam m dt p etaUp etaDown : ℝ) (hdt : 0 ≤ dt)
    (hu : 0 < etaUp) (hd : 0 < etaDown) :
    HasSum (fun k : ℕ => poissonPmf (lam * dt) k
        * ∫ z, iterSum (kouE p etaUp etaDown) k (fun J => (kouLogRet mu sigma lam m dt z J
            - ((mu - lam * m - sigma ^ 2 / 2) * dt
                + lam * dt * (p / etaUp - (1 - p) / etaDown))) ^ 2) 0 * phi z)
      (sigma ^ 2 * dt + lam * dt * (2 * p / etaUp ^ 2 + 2 * (1 - p) / etaDown ^ 2)) := by
  simp_rw [kou_logRet_cond_sq mu sigma lam m dt p etaUp etaDown _ hdt hu hd]
  set L := lam * dt with hL
  set a := p / etaUp - (1 - p) / etaDown with ha
  set b := 2 * p / etaUp ^ 2 + 2 * (1 - p) / etaDown ^ 2 with hb
  have h := poisson_quadratic_hasSum L (L ^ 2 * a ^ 2 + sigma ^ 2 * dt)
    (b - a ^ 2 - 2 * L * a ^ 2) (a ^ 2)
  rw [show L ^ 2 * a ^ 2 + sigma ^ 2 * dt + (b - a ^ 2 - 2 * L * a ^ 2) * L + a ^ 2 * (L + L ^ 2)
    = sigma ^ 2 * dt + L * b by ring] at h
  refine h.congr_fun ?_
  intro k
  ring

/-! ## the statements as `tsum` identities -/

/-- `E[C] = L` for `C ~ Poisson(L)` -/
theorem poisson_mean (L : ℝ) : ∑' k : ℕ, poissonPmf L k * (k : ℝ) = L :=
  (poisson_mean_hasSum L).tsum_eq

/-- `E[C²] = L + L²` -/
theorem poisson_second_moment (L : ℝ) : ∑' k : ℕ, poissonPmf L k * (k : ℝ) ^ 2 = L + L ^ 2 :=
  (poisson_second_moment_hasSum L).tsum_eq

/-- `Var[C] = L` -/
theorem poisson_variance (L : ℝ) : ∑' k : ℕ, poissonPmf L k * ((k : ℝ) - L) ^ 2 = L := by
  have h := poisson_quadratic_hasSum L (L ^ 2) (-2 * L) 1
  rw [show L ^ 2 + -2 * L * L + 1 * (L + L ^ 2) = L by ring] at h
  exact (h.congr_fun fun k => by ring).tsum_eq

/-- Merton, mean of the jump part `jm·C + Zj·js·√C`: `jm·λ·dt` -/
theorem merton_jump_logmean (lam jm js dt : ℝ) :
    ∑' k : ℕ, poissonPmf (lam * dt) k
        * ∫ zj, (jm * (k : ℝ) + zj * js * Real.sqrt (k : ℝ)) * phi zj = jm * (lam * dt) :=
  (merton_jump_mean_hasSum (lam * dt) jm js).tsum_eq

/-- Merton, variance of the jump part: `λ·dt·(jm² + js²)` -/
theorem merton_jump_logvar (lam jm js dt : ℝ) :
    ∑' k : ℕ, poissonPmf (lam * dt) k
        * ∫ zj, ((jm * (k : ℝ) + zj * js * Real.sqrt (k : ℝ)) - jm * (lam * dt)) ^ 2 * phi zj
      = lam * dt * (jm ^ 2 + js ^ 2) :=
  (merton_jump_var_hasSum (lam * dt) jm js).tsum_eq

/-- Merton, mean of the one-step log-return (expectation over the Poisson count, the diffusion
normal `z` and the jump normal `zj`) -/
theorem merton_step_logmean (mu sigma lam jm js dt : ℝ) :
    ∑' k : ℕ, poissonPmf (lam * dt) k
        * ∫ z, (∫ zj, mertonLogRet mu sigma lam jm js dt z zj (k : ℝ) * phi zj) * phi z
      = (mu - sigma ^ 2 / 2 - lam * (Real.exp (jm + js ^ 2 / 2) - 1)) * dt + jm * (lam * dt) :=
  (merton_step_logmean_hasSum mu sigma lam jm js dt).tsum_eq

/-- Merton, variance of the one-step log-return: `σ²·dt + λ·dt·(jm² + js²)` — the diffusion variance
plus the documented jump contribution -/
theorem merton_step_logvar (mu sigma lam jm js dt : ℝ) (hdt : 0 ≤ dt) :
    ∑' k : ℕ, poissonPmf (lam * dt) k
        * ∫ z, (∫ zj, (mertonLogRet mu sigma lam jm js dt z zj (k : ℝ)
            - ((mu - sigma ^ 2 / 2 - lam * (Real.exp (jm + js ^ 2 / 2) - 1)) * dt
                + jm * (lam * dt))) ^ 2 * phi zj) * phi z
      = sigma ^ 2 * dt + lam * dt * (jm ^ 2 + js ^ 2) :=
  (merton_step_logvar_hasSum mu sigma lam jm js dt hdt).tsum_eq

/-- Kou, one log-jump `J = +Exp(η₊)` w.p. `p`, `−Exp(η₋)` w.p. `1 − p`:
`E[J] = p/η₊ − (1−p)/η₋` -/
theorem kou_jump_mean (p etaUp etaDown : ℝ) (hu : 0 < etaUp) (hd : 0 < etaDown) :
    p * (∫ x in Ioi (0 : ℝ), x * (etaUp * Real.exp (-etaUp * x)))
        + (1 - p) * ∫ x in Ioi (0 : ℝ), (-x) * (etaDown * Real.exp (-etaDown * x))
      = p / etaUp - (1 - p) / etaDown :=
  kouE_id p etaUp etaDown hu hd

/-- `E[J²] = 2p/η₊² + 2(1−p)/η₋²` -/
theorem kou_jump_second_moment (p etaUp etaDown : ℝ) (hu : 0 < etaUp) (hd : 0 < etaDown) :
    p * (∫ x in Ioi (0 : ℝ), x ^ 2 * (etaUp * Real.exp (-etaUp * x)))
        + (1 - p) * ∫ x in Ioi (0 : ℝ), (-x) ^ 2 * (etaDown * Real.exp (-etaDown * x))
      = 2 * p / etaUp ^ 2 + 2 * (1 - p) / etaDown ^ 2 :=
  kouE_sq p etaUp etaDown hu hd

/-- compound-Poisson variance, algebraic form: `Σₖ pmf(k)·(k(b − a²) + (k·a − L·a)²) = L·b` -/
theorem compound_poisson_var (L a b : ℝ) :
    ∑' k : ℕ, poissonPmf L k * ((k : ℝ) * (b - a ^ 2) + ((k : ℝ) * a - L * a) ^ 2) = L * b :=
  (compound_poisson_var_hasSum L a b).tsum_eq

/-- Kou, the jump contribution to the one-step log-variance:
`Var[Σ_{j ≤ C} J_j] = λ·dt·(2p/η₊² + 2(1−p)/η₋²)` -/
theorem kou_jump_logvar (lam dt p etaUp etaDown : ℝ) (hu : 0 < etaUp) (hd : 0 < etaDown) :
    ∑' k : ℕ, poissonPmf (lam * dt) k * iterSum (kouE p etaUp etaDown) k
        (fun J => (J - lam * dt * (p / etaUp - (1 - p) / etaDown)) ^ 2) 0
      = lam * dt * (2 * p / etaUp ^ 2 + 2 * (1 - p) / etaDown ^ 2) :=
  (kou_jump_var_hasSum (lam * dt) p etaUp etaDown hu hd).tsum_eq

/-- Kou, mean of the one-step log-return (any compensator `m`) -/
theorem kou_step_logmean (mu sigma lam m dt p etaUp etaDown : ℝ)
    (hu : 0 < etaUp) (hd : 0 < etaDown) :
    ∑' k : ℕ, poissonPmf (lam * dt) k
        * ∫ z, iterSum (kouE p etaUp etaDown) k (fun J => kouLogRet mu sigma lam m dt z J) 0 * phi z
      = (mu - lam * m - sigma ^ 2 / 2) * dt + lam * dt * (p / etaUp - (1 - p) / etaDown) :=
  (kou_step_logmean_hasSum mu sigma lam m dt p etaUp etaDown hu hd).tsum_eq

/-- Kou, variance of the one-step log-return (expectation over the Poisson count `k`, the diffusion
normal `z` and the `k` i.i.d. log-jumps): `σ²·dt + λ·dt·(2p/η₊² + 2(1−p)/η₋²)` -/
theorem kou_step_logvar (mu sigma lam m dt p etaUp etaDown : ℝ) (hdt : 0 ≤ dt)
    (hu : 0 < etaUp) (hd : 0 < etaDown) :
    ∑' k : ℕ, poissonPmf (lam * dt) k
        * ∫ z, iterSum (kouE p etaUp etaDown) k (fun J => (kouLogRet mu sigma lam m dt z J
            - ((mu - lam * m - sigma ^ 2 / 2) * dt
                + lam * dt * (p / etaUp - (1 - p) / etaDown))) ^ 2) 0 * phi z
      = sigma ^ 2 * dt + lam * dt * (2 * p / etaUp ^ 2 + 2 * (1 - p) / etaDown ^ 2) :=
  (kou_step_logvar_hasSum mu sigma lam m dt p etaUp etaDown hdt hu hd).tsum_eq

/-! ## non-vacuity -/

/-- Poisson(3): mean 3, second moment 12, and the probabilities are positive and sum to one -/
example : ∑' k : ℕ, poissonPmf 3 k * (k : ℝ) = 3 ∧ ∑' k : ℕ, poissonPmf 3 k * (k : ℝ) ^ 2 = 12
    ∧ ∑' k : ℕ, poissonPmf 3 k = 1 ∧ 0 < poissonPmf 3 2 := by
  refine ⟨poisson_mean 3, ?_, (poisson_total_hasSum 3).tsum_eq, ?_⟩
  · rw [poisson_second_moment]; norm_num
  · unfold poissonPmf; positivity

/-- Merton at `σ = 1/2`, `dt = 1/4`, `λ = 2`, `jm = −1`, `js = 1`: one-step log-variance
`1/16 + 1 = 17/16`, of which the jump contribution is `1` -/
example :
    ∑' k : ℕ, poissonPmf (2 * (1 / 4)) k
        * ∫ z, (∫ zj, (mertonLogRet 0 (1 / 2) 2 (-1) 1 (1 / 4) z zj (k : ℝ)
            - ((0 - (1 / 2 : ℝ) ^ 2 / 2 - 2 * (Real.exp (-1 + 1 ^ 2 / 2) - 1)) * (1 / 4)
                + -1 * (2 * (1 / 4)))) ^ 2 * phi zj) * phi z
      = 17 / 16 := by
  rw [merton_step_logvar 0 (1 / 2) 2 (-1) 1 (1 / 4) (by norm_num)]
  norm_num

/-- Kou at `p = 1/2`, `η₊ = 2`, `η₋ = 1`: `E[J] = −1/4`, `E[J²] = 5/4`; with `σ = 1`, `dt = 1`,
`λ = 4` the one-step log-variance is `1 + 5 = 6` -/
example :
    (1 / 2 : ℝ) * (∫ x in Ioi (0 : ℝ), x * (2 * Real.exp (-2 * x)))
        + (1 - 1 / 2) * ∫ x in Ioi (0 : ℝ), (-x) * (1 * Real.exp (-1 * x)) = -1 / 4 ∧
    (1 / 2 : ℝ) * (∫ x in Ioi (0 : ℝ), x ^ 2 * (2 * Real.exp (-2 * x)))
        + (1 - 1 / 2) * ∫ x in Ioi (0 : ℝ), (-x) ^ 2 * (1 * Real.exp (-1 * x)) = 5 / 4 ∧
    (1 : ℝ) ^ 2 * 1 + 4 * 1 * (2 * (1 / 2) / 2 ^ 2 + 2 * (1 - 1 / 2) / 1 ^ 2) = 6 := by
  refine ⟨?_, ?_, by norm_num⟩
  · rw [kou_jump_mean (1 / 2) 2 1 (by norm_num) (by norm_num)]; norm_num
  · rw [kou_jump_second_moment (1 / 2) 2 1 (by norm_num) (by norm_num)]; norm_num

/-- the iterated expectation over two Kou log-jumps is the written-out double mixture integral -/
example (g : ℝ → ℝ) :
    iterSum (kouE (1 / 2) 2 1) 2 g 0
      = kouE (1 / 2) 2 1 (fun j1 => kouE (1 / 2) 2 1 (fun j2 => g (0 + j1 + j2))) := rfl

end PfVerif.C10Jump
