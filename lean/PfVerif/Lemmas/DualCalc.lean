/-
  Forward-mode differentiation is differentiation.

  `Tracks D f θ` : the dual number `D` carries the value and the derivative of `f` at `θ`.
  Closure lemmas for every operation of the `Dual ℝ` instances (Inst/Dual.lean) and for the
  list primitives of the executable model; selections (`abs`, `relu`, `max`, `min`) away from
  their kinks / ties.
-/
import PfVerif.Inst.Dual
import PfVerif.Model.Module
import PfVerif.Model.PL
import PfVerif.Lemmas.Gauss
import PfVerif.Lemmas.BSCalc
import PfVerif.Lemmas.ListR
import Mathlib.Analysis.Calculus.Deriv.Add
import Mathlib.Analysis.Calculus.Deriv.Mul
import Mathlib.Analysis.Calculus.Deriv.Inv
import Mathlib.Analysis.Calculus.Deriv.Comp
import Mathlib.Analysis.SpecialFunctions.ExpDeriv
import Mathlib.Analysis.SpecialFunctions.Log.Deriv
import Mathlib.Analysis.SpecialFunctions.Sqrt
import Mathlib.Analysis.SpecialFunctions.Pow.Deriv
import Mathlib.Analysis.SpecialFunctions.Trigonometric.Deriv

namespace PfVerif
open Transc Filter Topology

/-! ### the `Dual ℝ` instances, componentwise -/

namespace Dual

@[ext] theorem ext' {a b : Dual ℝ} (h1 : a.val = b.val) (h2 : a.eps = b.eps) : a = b := by
  cases a; cases b; simp_all

@[simp] theorem add_val (a b : Dual ℝ) : (a + b).val = a.val + b.val := rfl
@[simp] theorem add_eps (a b : Dual ℝ) : (a + b).eps = a.eps + b.eps := rfl
@[simp] theorem sub_val (a b : Dual ℝ) : (a - b).val = a.val - b.val := rfl
@[simp] theorem sub_eps (a b : Dual ℝ) : (a - b).eps = a.eps - b.eps := rfl
@[simp] theorem neg_val (a : Dual ℝ) : (-a).val = -a.val := rfl
@[simp] theorem neg_eps (a : Dual ℝ) : (-a).eps = -a.eps := rfl
@[simp] theorem mul_val (a b : Dual ℝ) : (a * b).val = a.val * b.val := rfl
@[simp] theorem mul_eps (a b : Dual ℝ) : (a * b).eps = a.eps * b.val + a.val * b.eps := rfl
@[simp] theorem div_val (a b : Dual ℝ) : (a / b).val = a.val / b.val := rfl
@[simp] theorem div_eps (a b : Dual ℝ) :
    (a / b).eps = (a.eps * b.val - a.val * b.eps) / (b.val * b.val) := rfl
@[simp] theorem zero_val : (0 : Dual ℝ).val = 0 := rfl
@[simp] theorem zero_eps : (0 : Dual ℝ).eps = 0 := rfl
@[simp] theorem one_val : (1 : Dual ℝ).val = 1 := rfl
@[simp] theorem one_eps : (1 : Dual ℝ).eps = 0 := rfl
@[simp] theorem ofNat_val (n : ℕ) [n.AtLeastTwo] : (OfNat.ofNat n : Dual ℝ).val = OfNat.ofNat n := rfl
@[simp] theorem ofNat_eps (n : ℕ) [n.AtLeastTwo] : (OfNat.ofNat n : Dual ℝ).eps = 0 := rfl
@[simp] theorem natCast_val (n : ℕ) : ((n : ℕ) : Dual ℝ).val = n := rfl
@[simp] theorem natCast_eps (n : ℕ) : ((n : ℕ) : Dual ℝ).eps = 0 := rfl
theorem le_iff (a b : Dual ℝ) : a ≤ b ↔ a.val ≤ b.val := Iff.rfl
theorem lt_iff (a b : Dual ℝ) : a < b ↔ a.val < b.val := Iff.rfl
theorem max_def' (a b : Dual ℝ) : max a b = if a.val ≤ b.val then b else a := rfl
theorem min_def' (a b : Dual ℝ) : min a b = if a.val ≤ b.val then a else b := rfl

@[simp] theorem exp_val (a : Dual ℝ) : (exp a).val = Real.exp a.val := rfl
@[simp] theorem exp_eps (a : Dual ℝ) : (exp a).eps = a.eps * Real.exp a.val := rfl
@[simp] theorem log_val (a : Dual ℝ) : (log a).val = Real.log a.val := rfl
@[simp] theorem log_eps (a : Dual ℝ) : (log a).eps = a.eps / a.val := rfl
@[simp] theorem sqrt_val (a : Dual ℝ) : (sqrt a).val = Real.sqrt a.val := rfl
@[simp] theorem sqrt_eps (a : Dual ℝ) : (sqrt a).eps = a.eps / (2 * Real.sqrt a.val) := rfl
@[simp] theorem ncdf_val (a : Dual ℝ) : (ncdf a).val = Phi a.val := rfl
@[simp] theorem ncdf_eps (a : Dual ℝ) : (ncdf a).eps = a.eps * phi a.val := rfl
@[simp] theorem npdf_val (a : Dual ℝ) : (npdf a).val = phi a.val := rfl
@[simp] theorem npdf_eps (a : Dual ℝ) : (npdf a).eps = -(a.eps * (a.val * phi a.val)) := rfl
@[simp] theorem cos_val (a : Dual ℝ) : (cos a).val = Real.cos a.val := rfl
@[simp] theorem cos_eps (a : Dual ℝ) : (cos a).eps = -(a.eps * Real.sin a.val) := rfl
@[simp] theorem sin_val (a : Dual ℝ) : (sin a).val = Real.sin a.val := rfl
@[simp] theorem sin_eps (a : Dual ℝ) : (sin a).eps = a.eps * Real.cos a.val := rfl
@[simp] theorem cbrt_val (a : Dual ℝ) : (cbrt a).val = a.val ^ ((1 : ℝ) / 3) := rfl
@[simp] theorem cbrt_eps (a : Dual ℝ) :
    (cbrt a).eps = a.eps * (a.val ^ ((1 : ℝ) / 3) / (3 * a.val)) := rfl

end Dual

/-! ### `Tracks` -/

/-- `D` is the value and the derivative of `f` at `θ` -/
def Tracks (D : Dual ℝ) (f : ℝ → ℝ) (θ : ℝ) : Prop := D.val = f θ ∧ HasDerivAt f D.eps θ

/-- a real constant as a dual number -/
def lift (x : ℝ) : Dual ℝ := ⟨x, 0⟩

@[simp] theorem lift_val (x : ℝ) : (lift x).val = x := rfl
@[simp] theorem lift_eps (x : ℝ) : (lift x).eps = 0 := rfl

section scalar
variable {θ : ℝ} {A B D : Dual ℝ} {f g : ℝ → ℝ}

theorem Tracks.val_eq (h : Tracks D f θ) : D.val = f θ := h.1
theorem Tracks.hasDerivAt (h : Tracks D f θ) : HasDerivAt f D.eps θ := h.2
/-- the ε-part is the derivative -/
theorem Tracks.deriv_eq (h : Tracks D f θ) : deriv f θ = D.eps := h.2.deriv

theorem Tracks.congr (h : Tracks D f θ) (e : ∀ t, g t = f t) : Tracks D g θ := by
  have : g = f := funext e
  rw [this]; exact h

theorem Tracks.congr_eventually (h : Tracks D f θ) (e : g =ᶠ[𝓝 θ] f) : Tracks D g θ :=
  ⟨h.1.trans e.self_of_nhds.symm, h.2.congr_of_eventuallyEq e⟩

theorem tracks_const (c : ℝ) : Tracks ⟨c, 0⟩ (fun _ => c) θ := ⟨rfl, hasDerivAt_const θ c⟩
theorem tracks_lift (c : ℝ) : Tracks (lift c) (fun _ => c) θ := tracks_const c
theorem tracks_var : Tracks ⟨θ, 1⟩ id θ := ⟨rfl, hasDerivAt_id θ⟩
theorem tracks_var' : Tracks ⟨θ, 1⟩ (fun t => t) θ := ⟨rfl, hasDerivAt_id θ⟩
theorem tracks_zero : Tracks (0 : Dual ℝ) (fun _ => (0 : ℝ)) θ := tracks_const 0
theorem tracks_one : Tracks (1 : Dual ℝ) (fun _ => (1 : ℝ)) θ := tracks_const 1
theorem tracks_ofNat (n : ℕ) [n.AtLeastTwo] :
    Tracks (OfNat.ofNat n : Dual ℝ) (fun _ => (OfNat.ofNat n : ℝ)) θ := tracks_const _
theorem tracks_natCast (n : ℕ) : Tracks ((n : ℕ) : Dual ℝ) (fun _ => (n : ℝ)) θ := tracks_const _

/-- any dual number is the value and slope of an affine function -/
theorem tracks_affine (D : Dual ℝ) : Tracks D (fun t => D.val + D.eps * (t - θ)) θ := by
  refine ⟨by simp, ?_⟩
  have h := ((hasDerivAt_id θ).sub_const θ).const_mul D.eps |>.const_add D.val
  simpa using h

theorem Tracks.add (ha : Tracks A f θ) (hb : Tracks B g θ) : Tracks (A + B) (fun t => f t + g t) θ :=
  ⟨by simp [ha.1, hb.1], ha.2.fun_add hb.2⟩

theorem Tracks.sub (ha : Tracks A f θ) (hb : Tracks B g θ) : Tracks (A - B) (fun t => f t - g t) θ :=
  ⟨by simp [ha.1, hb.1], ha.2.fun_sub hb.2⟩

theorem Tracks.neg (ha : Tracks A f θ) : Tracks (-A) (fun t => -f t) θ :=
  ⟨by simp [ha.1], ha.2.fun_neg⟩

theorem Tracks.mul (ha : Tracks A f θ) (hb : Tracks B g θ) : Tracks (A * B) (fun t => f t * g t) θ := by
  refine ⟨by simp [ha.1, hb.1], ?_⟩
  have h := ha.2.fun_mul hb.2
  rw [← ha.1, ← hb.1] at h
  exact h

theorem Tracks.div (ha : Tracks A f θ) (hb : Tracks B g θ) (h0 : g θ ≠ 0) :
    Tracks (A / B) (fun t => f t / g t) θ := by
  refine ⟨by simp [ha.1, hb.1], ?_⟩
  have h := ha.2.fun_div hb.2 h0
  rw [← ha.1, ← hb.1] at h
  refine h.congr_deriv ?_
  simp [sq]

/-- division by a constant (any constant: `x / 0 = 0` on both sides) -/
theorem Tracks.div_const (ha : Tracks A f θ) (c : ℝ) : Tracks (A / lift c) (fun t => f t / c) θ := by
  refine ⟨by simp [ha.1], ?_⟩
  refine (ha.2.div_const c).congr_deriv ?_
  by_cases hc : c = 0
  · simp [hc]
  · simp only [Dual.div_eps, lift_val, lift_eps]
    field_simp
    ring

theorem Tracks.div_natCast (ha : Tracks A f θ) (n : ℕ) :
    Tracks (A / ((n : ℕ) : Dual ℝ)) (fun t => f t / (n : ℝ)) θ := ha.div_const n

theorem Tracks.exp (ha : Tracks A f θ) : Tracks (exp A) (fun t => Real.exp (f t)) θ := by
  refine ⟨by simp [ha.1], ?_⟩
  refine ha.2.exp.congr_deriv ?_
  simp [ha.1, mul_comm]

theorem Tracks.log (ha : Tracks A f θ) (h0 : f θ ≠ 0) : Tracks (log A) (fun t => Real.log (f t)) θ := by
  refine ⟨by simp [ha.1], ?_⟩
  refine (ha.2.log h0).congr_deriv ?_
  simp [ha.1]

theorem Tracks.sqrt (ha : Tracks A f θ) (h0 : f θ ≠ 0) :
    Tracks (sqrt A) (fun t => Real.sqrt (f t)) θ := by
  refine ⟨by simp [ha.1], ?_⟩
  refine (ha.2.sqrt h0).congr_deriv ?_
  simp [ha.1]

theorem Tracks.ncdf (ha : Tracks A f θ) : Tracks (ncdf A) (fun t => Phi (f t)) θ := by
  refine ⟨by simp [ha.1], ?_⟩
  have h := (Phi_hasDerivAt (f θ)).comp θ ha.2
  refine h.congr_deriv ?_
  simp [ha.1, mul_comm]

theorem Tracks.npdf (ha : Tracks A f θ) : Tracks (npdf A) (fun t => phi (f t)) θ := by
  refine ⟨by simp [ha.1], ?_⟩
  have h := (BSCalc.phi_hasDerivAt (f θ)).comp θ ha.2
  refine h.congr_deriv ?_
  simp only [Dual.npdf_eps, ha.1]
  ring

theorem Tracks.cos (ha : Tracks A f θ) : Tracks (cos A) (fun t => Real.cos (f t)) θ := by
  refine ⟨by simp [ha.1], ?_⟩
  refine ha.2.cos.congr_deriv ?_
  simp only [Dual.cos_eps, ha.1]
  ring

theorem Tracks.sin (ha : Tracks A f θ) : Tracks (sin A) (fun t => Real.sin (f t)) θ := by
  refine ⟨by simp [ha.1], ?_⟩
  refine ha.2.sin.congr_deriv ?_
  simp only [Dual.sin_eps, ha.1]
  ring

theorem Tracks.cbrt (ha : Tracks A f θ) (h0 : f θ ≠ 0) :
    Tracks (cbrt A) (fun t => f t ^ ((1 : ℝ) / 3)) θ := by
  refine ⟨by simp [ha.1], ?_⟩
  refine (ha.2.rpow_const (p := (1 : ℝ) / 3) (Or.inl h0)).congr_deriv ?_
  simp only [Dual.cbrt_eps, ha.1]
  rw [Real.rpow_sub_one h0]
  field_simp

/-! ### selections away from kinks / ties -/

theorem Tracks.abs (ha : Tracks A f θ) (h0 : f θ ≠ 0) : Tracks (absS A) (fun t => |f t|) θ := by
  rcases lt_or_gt_of_ne h0 with hn | hp
  · have e : absS A = -A := by
      unfold absS; rw [if_neg]; rw [Dual.le_iff, Dual.zero_val, ha.1]; exact not_le.2 hn
    rw [e]
    refine ha.neg.congr_eventually ?_
    filter_upwards [ha.2.continuousAt.eventually_lt continuousAt_const hn] with t ht
    exact abs_of_neg ht
  · have e : absS A = A := by
      unfold absS; rw [if_pos]; rw [Dual.le_iff, Dual.zero_val, ha.1]; exact hp.le
    rw [e]
    refine ha.congr_eventually ?_
    filter_upwards [continuousAt_const.eventually_lt ha.2.continuousAt hp] with t ht
    exact abs_of_pos ht

theorem Tracks.relu (ha : Tracks A f θ) (h0 : f θ ≠ 0) : Tracks (reluS A) (fun t => max (f t) 0) θ := by
  rcases lt_or_gt_of_ne h0 with hn | hp
  · have e : reluS A = 0 := by
      unfold reluS; rw [if_neg]; rw [Dual.le_iff, Dual.zero_val, ha.1]; exact not_le.2 hn
    rw [e]
    refine tracks_zero.congr_eventually ?_
    filter_upwards [ha.2.continuousAt.eventually_lt continuousAt_const hn] with t ht
    exact max_eq_right ht.le
  · have e : reluS A = A := by
      unfold reluS; rw [if_pos]; rw [Dual.le_iff, Dual.zero_val, ha.1]; exact hp.le
    rw [e]
    refine ha.congr_eventually ?_
    filter_upwards [continuousAt_const.eventually_lt ha.2.continuousAt hp] with t ht
    exact max_eq_left ht.le

/-- `relu` in the model's own form at ℝ -/
theorem Tracks.reluS (ha : Tracks A f θ) (h0 : f θ ≠ 0) :
    Tracks (PfVerif.reluS A) (fun t => PfVerif.reluS (f t)) θ :=
  (ha.relu h0).congr fun _ => reluS_eq_max _

/-- `abs` in the model's own form at ℝ -/
theorem Tracks.absS (ha : Tracks A f θ) (h0 : f θ ≠ 0) :
    Tracks (PfVerif.absS A) (fun t => PfVerif.absS (f t)) θ :=
  (ha.abs h0).congr fun _ => absS_eq_abs _

/-- `abs` of a function that vanishes identically near `θ` (e.g. the difference of a position
with itself): the selected branch carries ε = 0, which is the derivative of `|0|` -/
theorem Tracks.absS_of_eventually_zero (ha : Tracks A f θ) (h0 : ∀ᶠ t in 𝓝 θ, f t = 0) :
    Tracks (PfVerif.absS A) (fun t => PfVerif.absS (f t)) θ := by
  have hv : f θ = 0 := h0.self_of_nhds
  have e : PfVerif.absS A = A := by
    unfold PfVerif.absS; rw [if_pos]; rw [Dual.le_iff, Dual.zero_val, ha.1, hv]
  rw [e]
  refine ha.congr_eventually ?_
  filter_upwards [h0] with t ht
  rw [ht, absS_eq_abs, abs_zero]

/-- `abs` away from its kink, or on a locally vanishing function -/
theorem Tracks.absS' (ha : Tracks A f θ) (h0 : f θ ≠ 0 ∨ ∀ᶠ t in 𝓝 θ, f t = 0) :
    Tracks (PfVerif.absS A) (fun t => PfVerif.absS (f t)) θ :=
  h0.elim ha.absS ha.absS_of_eventually_zero

theorem Tracks.max (ha : Tracks A f θ) (hb : Tracks B g θ) (h : f θ ≠ g θ) :
    Tracks (max A B) (fun t => max (f t) (g t)) θ := by
  rw [Dual.max_def']
  rcases lt_or_gt_of_ne h with hlt | hgt
  · rw [if_pos (by rw [ha.1, hb.1]; exact hlt.le)]
    refine hb.congr_eventually ?_
    filter_upwards [ha.2.continuousAt.eventually_lt hb.2.continuousAt hlt] with t ht
    exact max_eq_right ht.le
  · rw [if_neg (by rw [ha.1, hb.1]; exact not_le.2 hgt)]
    refine ha.congr_eventually ?_
    filter_upwards [hb.2.continuousAt.eventually_lt ha.2.continuousAt hgt] with t ht
    exact max_eq_left ht.le

theorem Tracks.min (ha : Tracks A f θ) (hb : Tracks B g θ) (h : f θ ≠ g θ) :
    Tracks (min A B) (fun t => min (f t) (g t)) θ := by
  rw [Dual.min_def']
  rcases lt_or_gt_of_ne h with hlt | hgt
  · rw [if_pos (by rw [ha.1, hb.1]; exact hlt.le)]
    refine ha.congr_eventually ?_
    filter_upwards [ha.2.continuousAt.eventually_lt hb.2.continuousAt hlt] with t ht
    exact min_eq_left ht.le
  · rw [if_neg (by rw [ha.1, hb.1]; exact not_le.2 hgt)]
    refine hb.congr_eventually ?_
    filter_upwards [hb.2.continuousAt.eventually_lt ha.2.continuousAt hgt] with t ht
    exact min_eq_right ht.le

end scalar

/-! ### lists

A tracked list is a list of dual numbers together with a list of real functions of the parameter,
related elementwise.  `evalL fs t` evaluates the functions at `t`.  Several model primitives are
used at the carrier `ℝ → ℝ` with Mathlib's pointwise (`Pi`) instances: `diffL fs`, `mulL fs gs`,
`linearL ws bs xs` on lists of functions are the lists of the pointwise differences / products /
affine combinations (`evalL_diffL`, `evalL_mulL`, `evalL_linearL`). -/

/-- evaluate a list of functions of the parameter -/
abbrev evalL (fs : List (ℝ → ℝ)) (t : ℝ) : List ℝ := fs.map (fun f => f t)

/-- a real list as a list of constant functions of the parameter -/
abbrev constL (xs : List ℝ) : List (ℝ → ℝ) := xs.map (fun x _ => x)

@[simp] theorem evalL_constL (xs : List ℝ) (t : ℝ) : evalL (constL xs) t = xs := by
  simp [evalL, constL, Function.comp_def]

def TracksL (Ds : List (Dual ℝ)) (fs : List (ℝ → ℝ)) (θ : ℝ) : Prop :=
  List.Forall₂ (fun D f => Tracks D f θ) Ds fs

/-- matrices (lists of rows) -/
def TracksLL (Ds : List (List (Dual ℝ))) (fs : List (List (ℝ → ℝ))) (θ : ℝ) : Prop :=
  List.Forall₂ (fun D f => TracksL D f θ) Ds fs

section lists
variable {θ : ℝ} {Ds As Bs : List (Dual ℝ)} {fs gs : List (ℝ → ℝ)}

theorem TracksL.nil : TracksL [] [] θ := List.Forall₂.nil
theorem TracksL.cons {D : Dual ℝ} {f : ℝ → ℝ} (h : Tracks D f θ) (hs : TracksL Ds fs θ) :
    TracksL (D :: Ds) (f :: fs) θ := List.Forall₂.cons h hs
theorem TracksL.length_eq (h : TracksL Ds fs θ) : Ds.length = fs.length := List.Forall₂.length_eq h
theorem TracksL.single {D : Dual ℝ} {f : ℝ → ℝ} (h : Tracks D f θ) : TracksL [D] [f] θ :=
  TracksL.cons h TracksL.nil

theorem TracksL.append {Es : List (Dual ℝ)} {hs : List (ℝ → ℝ)} (h1 : TracksL Ds fs θ)
    (h2 : TracksL Es hs θ) : TracksL (Ds ++ Es) (fs ++ hs) θ := by
  induction h1 with
  | nil => exact h2
  | cons h _ ih => exact TracksL.cons h ih

/-- the primal parts are the values of the functions -/
theorem TracksL.val_eq (h : TracksL Ds fs θ) : Ds.map Dual.val = evalL fs θ := by
  induction h with
  | nil => rfl
  | cons h _ ih => simp only [List.map_cons, h.1, ih]

theorem tracksL_lift (xs : List ℝ) : TracksL (xs.map lift) (constL xs) θ := by
  induction xs with
  | nil => exact TracksL.nil
  | cons x xs ih => exact TracksL.cons (tracks_lift x) ih

theorem tracksL_replicate_zero (n : ℕ) :
    TracksL (List.replicate n (0 : Dual ℝ)) (constL (List.replicate n 0)) θ := by
  induction n with
  | zero => exact TracksL.nil
  | succ n ih => exact TracksL.cons tracks_zero ih

theorem TracksL.sumL (h : TracksL Ds fs θ) : Tracks (sumL Ds) (fun t => sumL (evalL fs t)) θ := by
  induction h with
  | nil => exact tracks_zero
  | cons h _ ih => exact h.add ih

/-- a unary operation that preserves `Tracks` on functions satisfying `P` -/
theorem TracksL.map {op : Dual ℝ → Dual ℝ} {opF : (ℝ → ℝ) → (ℝ → ℝ)} {P : (ℝ → ℝ) → Prop}
    (hop : ∀ D f, Tracks D f θ → P f → Tracks (op D) (opF f) θ)
    (h : TracksL Ds fs θ) (hP : ∀ f ∈ fs, P f) : TracksL (Ds.map op) (fs.map opF) θ := by
  induction h with
  | nil => exact TracksL.nil
  | cons h _ ih =>
    exact TracksL.cons (hop _ _ h (hP _ List.mem_cons_self))
      (ih fun f hf => hP f (List.mem_cons_of_mem _ hf))

/-- a binary operation that preserves `Tracks` (side condition `P` on the second function) -/
theorem TracksL.zipWith {op : Dual ℝ → Dual ℝ → Dual ℝ} {opF : (ℝ → ℝ) → (ℝ → ℝ) → (ℝ → ℝ)}
    {P : (ℝ → ℝ) → Prop}
    (hop : ∀ A B f g, Tracks A f θ → Tracks B g θ → P g → Tracks (op A B) (opF f g) θ)
    (ha : TracksL As fs θ) (hb : TracksL Bs gs θ) (hP : ∀ g ∈ gs, P g) :
    TracksL (List.zipWith op As Bs) (List.zipWith opF fs gs) θ := by
  induction ha generalizing Bs gs with
  | nil => simp only [List.zipWith_nil_left]; exact TracksL.nil
  | cons h _ ih =>
    cases hb with
    | nil => simp only [List.zipWith_nil_right]; exact TracksL.nil
    | cons h' hb' =>
      exact TracksL.cons (hop _ _ _ _ h h' (hP _ List.mem_cons_self))
        (ih hb' fun g hg => hP g (List.mem_cons_of_mem _ hg))

theorem evalL_zipWith (opR : ℝ → ℝ → ℝ) (fs gs : List (ℝ → ℝ)) (t : ℝ) :
    evalL (List.zipWith (fun f g t => opR (f t) (g t)) fs gs) t
      = List.zipWith opR (evalL fs t) (evalL gs t) := by
  induction fs generalizing gs with
  | nil => simp
  | cons f fs ih => cases gs with
    | nil => simp
    | cons g gs => simp only [List.zipWith_cons_cons, List.map_cons, evalL] at ih ⊢; rw [ih]

/-- the same with an operation that itself depends on the parameter -/
theorem evalL_zipWith_dep (opR : ℝ → ℝ → ℝ → ℝ) (fs gs : List (ℝ → ℝ)) (t : ℝ) :
    evalL (List.zipWith (fun f g t => opR t (f t) (g t)) fs gs) t
      = List.zipWith (opR t) (evalL fs t) (evalL gs t) := by
  induction fs generalizing gs with
  | nil => simp
  | cons f fs ih => cases gs with
    | nil => simp
    | cons g gs => simp only [List.zipWith_cons_cons, List.map_cons, evalL] at ih ⊢; rw [ih]

theorem evalL_map (opR : ℝ → ℝ) (fs : List (ℝ → ℝ)) (t : ℝ) :
    evalL (fs.map (fun f t => opR (f t))) t = (evalL fs t).map opR := by
  simp [evalL]

theorem TracksL.diffL (h : TracksL Ds fs θ) : TracksL (diffL Ds) (diffL fs) θ := by
  induction h with
  | nil => exact TracksL.nil
  | cons h hs ih =>
    cases hs with
    | nil => exact TracksL.nil
    | cons h' hs' => exact TracksL.cons (h'.sub h) ih

theorem evalL_diffL (fs : List (ℝ → ℝ)) (t : ℝ) : evalL (diffL fs) t = diffL (evalL fs t) := by
  induction fs with
  | nil => rfl
  | cons f fs ih =>
    cases fs with
    | nil => rfl
    | cons g gs =>
      simp only [diffL, evalL, List.map_cons, Pi.sub_apply] at ih ⊢
      rw [ih]

theorem TracksL.initL (h : TracksL Ds fs θ) : TracksL (initL Ds) (initL fs) θ := by
  induction h with
  | nil => exact TracksL.nil
  | cons h hs ih =>
    cases hs with
    | nil => exact TracksL.nil
    | cons h' hs' => exact TracksL.cons h ih

theorem evalL_initL (fs : List (ℝ → ℝ)) (t : ℝ) : evalL (initL fs) t = initL (evalL fs t) := by
  induction fs with
  | nil => rfl
  | cons f fs ih =>
    cases fs with
    | nil => rfl
    | cons g gs =>
      simp only [initL, evalL, List.map_cons] at ih ⊢
      rw [ih]

theorem TracksL.tailL (h : TracksL Ds fs θ) : TracksL (tailL Ds) (tailL fs) θ := by
  cases h with
  | nil => exact TracksL.nil
  | cons _ hs => exact hs

theorem evalL_tailL (fs : List (ℝ → ℝ)) (t : ℝ) : evalL (tailL fs) t = tailL (evalL fs t) := by
  cases fs <;> rfl

theorem TracksL.mulL (ha : TracksL As fs θ) (hb : TracksL Bs gs θ) :
    TracksL (mulL As Bs) (mulL fs gs) θ :=
  TracksL.zipWith (P := fun _ => True) (fun _ _ _ _ h1 h2 _ => h1.mul h2) ha hb (fun _ _ => trivial)

theorem evalL_mulL (fs gs : List (ℝ → ℝ)) (t : ℝ) :
    evalL (mulL fs gs) t = mulL (evalL fs t) (evalL gs t) :=
  evalL_zipWith (· * ·) fs gs t

theorem TracksL.dotL (ha : TracksL As fs θ) (hb : TracksL Bs gs θ) :
    Tracks (dotL As Bs) (fun t => dotL (evalL fs t) (evalL gs t)) θ :=
  (ha.mulL hb).sumL.congr fun t => by
    show PfVerif.dotL _ _ = PfVerif.sumL (evalL (PfVerif.mulL fs gs) t)
    rw [evalL_mulL]; rfl

theorem sumL_fun (fs : List (ℝ → ℝ)) (t : ℝ) : sumL fs t = sumL (evalL fs t) := by
  induction fs with
  | nil => rfl
  | cons f fs ih => simp only [sumL, evalL, List.map_cons, Pi.add_apply] at ih ⊢; rw [ih]

theorem dotL_fun (fs gs : List (ℝ → ℝ)) (t : ℝ) :
    dotL fs gs t = dotL (evalL fs t) (evalL gs t) := by
  unfold dotL
  rw [sumL_fun]
  congr 1
  exact evalL_mulL fs gs t

/-! ### affine layer, ReLU, multi-layer perceptron -/

/-- evaluate a matrix of functions of the parameter -/
abbrev evalLL (ws : List (List (ℝ → ℝ))) (t : ℝ) : List (List ℝ) := ws.map (fun r => evalL r t)

theorem TracksL.linearL {W : List (List (Dual ℝ))} {ws : List (List (ℝ → ℝ))}
    {X : List (Dual ℝ)} {xs : List (ℝ → ℝ)}
    (hW : TracksLL W ws θ) (hb : TracksL Bs gs θ) (hx : TracksL X xs θ) :
    TracksL (linearL W Bs X) (linearL ws gs xs) θ := by
  unfold PfVerif.linearL
  induction hW generalizing Bs gs with
  | nil => simp only [List.zipWith_nil_left]; exact TracksL.nil
  | cons hrow _ ih =>
    cases hb with
    | nil => simp only [List.zipWith_nil_right]; exact TracksL.nil
    | cons hbi hb' =>
      refine TracksL.cons ?_ (ih hb')
      exact ((hrow.dotL hx).add hbi).congr fun t => by simp only [Pi.add_apply, dotL_fun]

theorem evalL_linearL (ws : List (List (ℝ → ℝ))) (bs xs : List (ℝ → ℝ)) (t : ℝ) :
    evalL (linearL ws bs xs) t = linearL (evalLL ws t) (evalL bs t) (evalL xs t) := by
  unfold linearL
  induction ws generalizing bs with
  | nil => simp
  | cons w ws ih =>
    cases bs with
    | nil => simp
    | cons b bs =>
      have := ih bs
      simp only [evalL, evalLL, List.zipWith_cons_cons, List.map_cons, Pi.add_apply, dotL_fun] at this ⊢
      rw [this]

/-- pointwise ReLU of a list of functions -/
noncomputable def reluF (fs : List (ℝ → ℝ)) : List (ℝ → ℝ) := fs.map (fun f t => reluS (f t))

theorem evalL_reluF (fs : List (ℝ → ℝ)) (t : ℝ) : evalL (reluF fs) t = reluL (evalL fs t) := by
  simp [evalL, reluF, reluL]

theorem TracksL.reluL (h : TracksL Ds fs θ) (h0 : ∀ f ∈ fs, f θ ≠ 0) :
    TracksL (reluL Ds) (reluF fs) θ :=
  TracksL.map (P := fun f => f θ ≠ 0) (fun _ _ hD hf => hD.reluS hf) h h0

/-- a layer: weight matrix and bias vector -/
abbrev LayerD := List (List (Dual ℝ)) × List (Dual ℝ)
abbrev LayerF := List (List (ℝ → ℝ)) × List (ℝ → ℝ)
abbrev LayerR := List (List ℝ) × List ℝ

/-- all weights and biases of all layers are tracked -/
def TracksLayers (Ls : List LayerD) (ls : List LayerF) (θ : ℝ) : Prop :=
  List.Forall₂ (fun L l => TracksLL L.1 l.1 θ ∧ TracksL L.2 l.2 θ) Ls ls

/-- the real network at parameter value `t` -/
def evalLayers (ls : List LayerF) (t : ℝ) : List LayerR := ls.map (fun l => (evalLL l.1 t, evalL l.2 t))

/-- the multi-layer perceptron on functions of the parameter (pointwise `mlpL`) -/
noncomputable def mlpF : List LayerF → List (ℝ → ℝ) → List (ℝ → ℝ)
  | [], x => x
  | [(w, b)], x => linearL w b x
  | (w, b) :: rest, x => mlpF rest (reluF (linearL w b x))

theorem evalL_mlpF (ls : List LayerF) (xs : List (ℝ → ℝ)) (t : ℝ) :
    evalL (mlpF ls xs) t = mlpL (evalLayers ls t) (evalL xs t) := by
  induction ls generalizing xs with
  | nil => rfl
  | cons l ls ih =>
    obtain ⟨w, b⟩ := l
    cases ls with
    | nil => exact evalL_linearL w b xs t
    | cons l' ls' =>
      have := ih (reluF (linearL w b xs))
      simp only [mlpF, evalLayers, List.map_cons, mlpL] at this ⊢
      rw [this, evalL_reluF, evalL_linearL]

/-- generic point of a real ReLU network: no hidden pre-activation is exactly zero -/
def mlpGeneric : List LayerR → List ℝ → Prop
  | [], _ => True
  | [_], _ => True
  | (w, b) :: rest, x => (∀ y ∈ linearL w b x, y ≠ 0) ∧ mlpGeneric rest (reluL (linearL w b x))

theorem TracksL.mlpL {Ls : List LayerD} {ls : List LayerF} {X : List (Dual ℝ)} {xs : List (ℝ → ℝ)}
    (hL : TracksLayers Ls ls θ) (hx : TracksL X xs θ)
    (hgen : mlpGeneric (evalLayers ls θ) (evalL xs θ)) :
    TracksL (mlpL Ls X) (mlpF ls xs) θ := by
  induction hL generalizing X xs with
  | nil => exact hx
  | @cons L l Ls' ls' hl hrest ih =>
    obtain ⟨W, Bv⟩ := L
    obtain ⟨w, b⟩ := l
    cases hrest with
    | nil => exact TracksL.linearL hl.1 hl.2 hx
    | cons hl' hrest' =>
      simp only [PfVerif.mlpL, mlpF]
      simp only [evalLayers, List.map_cons, mlpGeneric] at hgen
      have hlin := TracksL.linearL hl.1 hl.2 hx
      have h0 : ∀ f ∈ PfVerif.linearL w b xs, f θ ≠ 0 := by
        intro f hf
        apply hgen.1
        rw [← evalL_linearL]
        exact List.mem_map_of_mem hf
      refine ih (hlin.reluL h0) ?_
      simp only [evalLayers, List.map_cons]
      rw [evalL_reluF, evalL_linearL]
      exact hgen.2

end lists

/-! ### constants: `lift` commutes with every operation (ε stays `0`) -/

@[simp] theorem lift_add (a b : ℝ) : lift a + lift b = lift (a + b) := by ext <;> simp
@[simp] theorem lift_sub (a b : ℝ) : lift a - lift b = lift (a - b) := by ext <;> simp
@[simp] theorem lift_neg (a : ℝ) : -lift a = lift (-a) := by ext <;> simp
@[simp] theorem lift_mul (a b : ℝ) : lift a * lift b = lift (a * b) := by ext <;> simp
@[simp] theorem lift_div (a b : ℝ) : lift a / lift b = lift (a / b) := by ext <;> simp
@[simp] theorem lift_log (a : ℝ) : log (lift a) = lift (Real.log a) := by ext <;> simp
@[simp] theorem lift_exp (a : ℝ) : exp (lift a) = lift (Real.exp a) := by ext <;> simp
theorem lift_zero : (0 : Dual ℝ) = lift 0 := rfl
theorem lift_one : (1 : Dual ℝ) = lift 1 := rfl
theorem lift_natCast (n : ℕ) : ((n : ℕ) : Dual ℝ) = lift (n : ℝ) := rfl
@[simp] theorem lift_le_lift (a b : ℝ) : lift a ≤ lift b ↔ a ≤ b := Iff.rfl

@[simp] theorem lift_max (a b : ℝ) : max (lift a) (lift b) = lift (max a b) := by
  by_cases h : a ≤ b
  · rw [Dual.max_def', if_pos (show (lift a).val ≤ (lift b).val from h), max_eq_right h]
  · rw [Dual.max_def', if_neg (show ¬ (lift a).val ≤ (lift b).val from h),
      max_eq_left (le_of_not_ge h)]

@[simp] theorem lift_min (a b : ℝ) : min (lift a) (lift b) = lift (min a b) := by
  by_cases h : a ≤ b
  · rw [Dual.min_def', if_pos (show (lift a).val ≤ (lift b).val from h), min_eq_left h]
  · rw [Dual.min_def', if_neg (show ¬ (lift a).val ≤ (lift b).val from h),
      min_eq_right (le_of_not_ge h)]

theorem maxL_lift (x : ℝ) (xs : List ℝ) : maxL (lift x) (xs.map lift) = lift (maxL x xs) := by
  unfold maxL
  induction xs generalizing x with
  | nil => rfl
  | cons y ys ih => simp only [List.map_cons, List.foldl_cons, lift_max, ih]

theorem minL_lift (x : ℝ) (xs : List ℝ) : minL (lift x) (xs.map lift) = lift (minL x xs) := by
  unfold minL
  induction xs generalizing x with
  | nil => rfl
  | cons y ys ih => simp only [List.map_cons, List.foldl_cons, lift_min, ih]

theorem lift_ite_le (a b : ℝ) (x y : ℝ) :
    (if lift a ≤ lift b then lift x else lift y) = lift (if a ≤ b then x else y) := by
  by_cases h : a ≤ b
  · rw [if_pos h, if_pos (show lift a ≤ lift b from h)]
  · rw [if_neg h, if_neg (show ¬ lift a ≤ lift b from h)]

/-! ### list-valued curves and the error monad -/

/-- a list of dual numbers tracks a list-valued curve `x : ℝ → List ℝ` -/
def TracksC (X : List (Dual ℝ)) (x : ℝ → List ℝ) (θ : ℝ) : Prop :=
  ∃ xs, TracksL X xs θ ∧ ∀ t, x t = evalL xs t

/-- rows of dual numbers track a matrix-valued curve -/
def TracksCC (X : List (List (Dual ℝ))) (x : ℝ → List (List ℝ)) (θ : ℝ) : Prop :=
  ∃ xss, TracksLL X xss θ ∧ ∀ t, x t = evalLL xss t

theorem TracksL.toC {θ : ℝ} {X : List (Dual ℝ)} {xs : List (ℝ → ℝ)} (h : TracksL X xs θ) :
    TracksC X (evalL xs) θ := ⟨xs, h, fun _ => rfl⟩

theorem tracksC_lift {θ : ℝ} (xs : List ℝ) : TracksC (xs.map lift) (fun _ => xs) θ :=
  ⟨constL xs, tracksL_lift xs, fun t => (evalL_constL xs t).symm⟩

theorem TracksC.append {θ : ℝ} {X Y : List (Dual ℝ)} {x y : ℝ → List ℝ}
    (hx : TracksC X x θ) (hy : TracksC Y y θ) : TracksC (X ++ Y) (fun t => x t ++ y t) θ := by
  obtain ⟨xs, h1, e1⟩ := hx
  obtain ⟨ys, h2, e2⟩ := hy
  exact ⟨xs ++ ys, h1.append h2, fun t => by simp [e1, e2, evalL]⟩

theorem TracksCC.nil {θ : ℝ} : TracksCC [] (fun _ => []) θ := ⟨[], List.Forall₂.nil, fun _ => rfl⟩

theorem TracksCC.cons {θ : ℝ} {X : List (Dual ℝ)} {x : ℝ → List ℝ} {Xs : List (List (Dual ℝ))}
    {xs : ℝ → List (List ℝ)} (h : TracksC X x θ) (hs : TracksCC Xs xs θ) :
    TracksCC (X :: Xs) (fun t => x t :: xs t) θ := by
  obtain ⟨r, h1, e1⟩ := h
  obtain ⟨rs, h2, e2⟩ := hs
  exact ⟨r :: rs, List.Forall₂.cons h1 h2, fun t => by simp [e1, e2, evalLL]⟩

/-- the dual evaluation and the real evaluation (for every parameter value) fail with the same
error, or both succeed with related results -/
def TracksE {A B : Type} (Rel : A → (ℝ → B) → Prop) (R : Except Err A) (r : ℝ → Except Err B) :
    Prop :=
  match R with
  | .error e => ∀ t, r t = .error e
  | .ok X => ∃ x, Rel X x ∧ ∀ t, r t = .ok (x t)

theorem TracksE.ok {A B : Type} {Rel : A → (ℝ → B) → Prop} {X : A} {x : ℝ → B} (h : Rel X x) :
    TracksE Rel (.ok X) (fun t => .ok (x t)) := ⟨x, h, fun _ => rfl⟩

theorem TracksE.pure {A B : Type} {Rel : A → (ℝ → B) → Prop} {X : A} {x : ℝ → B} (h : Rel X x) :
    TracksE Rel (pure X) (fun t => pure (x t)) := ⟨x, h, fun _ => rfl⟩

theorem TracksE.error {A B : Type} {Rel : A → (ℝ → B) → Prop} (e : Err) :
    TracksE Rel (.error e) (fun _ => .error e) := fun _ => rfl

/-- bind; the continuation needs to be related only at the value actually produced -/
theorem TracksE.bind' {A B A' B' : Type} {Rel : A → (ℝ → B) → Prop}
    {Rel' : A' → (ℝ → B') → Prop}
    {R : Except Err A} {r : ℝ → Except Err B} {K : A → Except Err A'}
    {k : ℝ → B → Except Err B'}
    (h : TracksE Rel R r)
    (hk : ∀ X x, R = .ok X → (∀ t, r t = .ok (x t)) → Rel X x →
      TracksE Rel' (K X) (fun t => k t (x t))) :
    TracksE Rel' (R >>= K) (fun t => r t >>= k t) := by
  cases R with
  | error e =>
    intro t
    have := h t
    simp only [this]; rfl
  | ok X =>
    obtain ⟨x, hx, e⟩ := h
    have h2 := hk X x rfl e hx
    have e2 : (fun t => r t >>= k t) = fun t => k t (x t) := by
      funext t; rw [e t]; rfl
    rw [e2]
    exact h2

theorem TracksE.bind {A B A' B' : Type} {Rel : A → (ℝ → B) → Prop} {Rel' : A' → (ℝ → B') → Prop}
    {R : Except Err A} {r : ℝ → Except Err B} {K : A → Except Err A'}
    {k : ℝ → B → Except Err B'}
    (h : TracksE Rel R r) (hk : ∀ X x, Rel X x → TracksE Rel' (K X) (fun t => k t (x t))) :
    TracksE Rel' (R >>= K) (fun t => r t >>= k t) :=
  h.bind' fun X x _ _ hx => hk X x hx

/-- on success the result is tracked -/
theorem TracksE.of_ok {θ : ℝ} {R : Except Err (Dual ℝ)} {r : ℝ → Except Err ℝ} {D : Dual ℝ}
    (h : TracksE (fun D f => Tracks D f θ) R r) (hR : R = .ok D) :
    ∃ f, (∀ t, r t = .ok (f t)) ∧ Tracks D f θ := by
  subst hR
  obtain ⟨f, hf, e⟩ := h
  exact ⟨f, e, hf⟩

theorem TracksE.congr {A B : Type} {Rel : A → (ℝ → B) → Prop} {R : Except Err A}
    {r r' : ℝ → Except Err B} (h : TracksE Rel R r) (e : ∀ t, r' t = r t) : TracksE Rel R r' := by
  have : r' = r := funext e
  rw [this]; exact h

/-- a θ-independent real evaluation, lifted -/
theorem tracksE_lift {θ : ℝ} (r : Except Err (List ℝ)) :
    TracksE (fun X x => TracksC X x θ) (Except.map (List.map lift) r) (fun _ => r) := by
  cases r with
  | error e => exact TracksE.error e
  | ok xs => exact TracksE.ok (tracksC_lift xs)

end PfVerif
