/-
  C13 (last clause) — "every underlier and every buffer gets T = ceil(M/dt)+1 time points ... and
  payoffs, features and hedges all use this same grid", over ANY history of objects: underliers
  replaced by attribute assignment or `register_underlier`, maturities changed, several underliers
  with different step sizes, re-simulation through another owner.
  Model: Model/GridSys.lean on top of Model/InstrSys.lean (driver op "grid_sys").

  The transition function takes the step count `N : α → α → Nat` as a parameter; the theorems hold for
  every `N` (the driver runs `nExact` on rationals and `nStepsShipped` on doubles), the statements
  about values are for `nExact m dt = (nStepsExact m dt).toNat` of Model/Grid.lean.
-/
import PfVerif.Model.GridSys
import PfVerif.Lemmas.C11Buffers
import PfVerif.Props.C13

namespace PfVerif.C13SystemAux
open PfVerif PfVerif.InstrSys PfVerif.GridSys PfVerif.C17SystemAux PfVerif.C11BuffersAux

variable {α : Type}

/-- decidable equality of results (for the kernel-checked examples at the end) -/
instance exceptDecEq {ε β : Type} [DecidableEq ε] [DecidableEq β] : DecidableEq (Except ε β) := fun a b =>
  match a, b with
  | .ok x, .ok y => if h : x = y then isTrue (by rw [h]) else isFalse (fun e => by cases e; exact h rfl)
  | .error x, .error y => if h : x = y then isTrue (by rw [h]) else isFalse (fun e => by cases e; exact h rfl)
  | .ok _, .error _ => isFalse (fun e => by cases e)
  | .error _, .ok _ => isFalse (fun e => by cases e)

/-! ### insertion-ordered dicts -/

theorem mem_dictSet {β : Type} {m : List (String × β)} {k : String} {v : β} {x : String × β}
    (hx : x ∈ dictSet m k v) : (x ∈ m ∧ x.1 ≠ k) ∨ x = (k, v) := by
  unfold dictSet at hx
  split at hx
  · rcases List.mem_map.1 hx with ⟨q, hq, rfl⟩
    by_cases hqn : q.1 = k
    · right; simp [hqn]
    · left; simp [hqn, hq]
  · rename_i hany
    rcases List.mem_append.1 hx with h | h
    · left
      refine ⟨h, ?_⟩
      intro hpn
      apply hany
      exact List.any_eq_true.2 ⟨x, h, by simp [hpn]⟩
    · right; simpa using h

theorem dictSet_mem_self {β : Type} (m : List (String × β)) (k : String) (v : β) : (k, v) ∈ dictSet m k v := by
  unfold dictSet
  split
  · rename_i hany
    rcases List.any_eq_true.1 hany with ⟨x, hx, hxk⟩
    exact List.mem_map.2 ⟨x, hx, by simp [hxk]⟩
  · simp

theorem dictSet_keeps {β : Type} {m : List (String × β)} {k : String} {v : β} {x : String × β}
    (hx : x ∈ m) (hne : x.1 ≠ k) : x ∈ dictSet m k v := by
  unfold dictSet
  split
  · exact List.mem_map.2 ⟨x, hx, by simp [hne]⟩
  · exact List.mem_append_left _ hx

/-- the first key of a non-empty dict keeps its place -/
theorem dictSet_cons {β : Type} (x : String × β) (t : List (String × β)) (k : String) (v : β) :
    ∃ t', dictSet (x :: t) k v = (if x.1 = k then (k, v) else x) :: t' := by
  unfold dictSet
  split
  · refine ⟨t.map (fun p => if (p.1 == k) = true then (k, v) else p), ?_⟩
    by_cases h : x.1 = k <;> simp [h]
  · rename_i hany
    have hx : x.1 ≠ k := by
      intro h
      apply hany
      simp [h]
    exact ⟨t ++ [(k, v)], by simp [hx]⟩

theorem dictSet_nil {β : Type} (k : String) (v : β) : dictSet ([] : List (String × β)) k v = [(k, v)] := rfl

theorem dictGet_cons_self {β : Type} (n : String) (p : β) (t : List (String × β)) :
    dictGet ((n, p) :: t) n = some p := by
  simp [dictGet]

theorem dictGet_nil {β : Type} (n : String) : dictGet ([] : List (String × β)) n = none := rfl

theorem dictGet_mem {β : Type} {m : List (String × β)} {n : String} {p : β} (h : dictGet m n = some p) :
    (n, p) ∈ m := by
  unfold dictGet at h
  cases hf : m.find? (fun q => q.1 == n) with
  | none => rw [hf] at h; cases h
  | some y =>
    rw [hf] at h
    simp only [Option.map_some, Option.some.injEq] at h
    have hm := List.mem_of_find?_eq_some hf
    have hn : y.1 = n := by simpa using List.find?_some hf
    have : y = (n, p) := by rw [← hn, ← h]
    rwa [this] at hm

theorem find_map_key {β : Type} (f : String × β → String × β) (hf : ∀ p, (f p).1 = p.1) (k : String) :
    ∀ m : List (String × β), (m.map f).find? (fun p => p.1 == k) = (m.find? (fun p => p.1 == k)).map f
  | [] => rfl
  | x :: t => by
    rw [List.map_cons, List.find?_cons, List.find?_cons, hf x]
    cases hxk : (x.1 == k)
    · exact find_map_key f hf k t
    · rfl

theorem find_none_of_not_any {β : Type} {m : List (String × β)} {k : String}
    (h : ¬ (m.any (fun p => p.1 == k)) = true) : m.find? (fun p => p.1 == k) = none := by
  apply List.find?_eq_none.2
  intro x hx hxk
  exact h (List.any_eq_true.2 ⟨x, hx, hxk⟩)

theorem find_some_of_any {β : Type} {m : List (String × β)} {k : String}
    (h : (m.any (fun p => p.1 == k)) = true) : ∃ y, m.find? (fun p => p.1 == k) = some y ∧ y.1 = k := by
  cases hf : m.find? (fun p => p.1 == k) with
  | some y => exact ⟨y, rfl, by simpa using List.find?_some hf⟩
  | none =>
    rcases List.any_eq_true.1 h with ⟨x, hx, hxk⟩
    have := List.find?_eq_none.1 hf x hx
    exact absurd hxk this

theorem dictGet_dictSet_self {β : Type} (m : List (String × β)) (k : String) (v : β) :
    dictGet (dictSet m k v) k = some v := by
  unfold dictSet dictGet
  split
  · rename_i hany
    rw [find_map_key (fun p => if (p.1 == k) = true then (k, v) else p) (by intro p; by_cases h : p.1 = k <;> simp [h]) k m]
    rcases find_some_of_any hany with ⟨y, hy, hyk⟩
    rw [hy]
    simp [hyk]
  · rename_i hany
    rw [List.find?_append, find_none_of_not_any hany]
    simp

theorem dictGet_dictSet_other {β : Type} (m : List (String × β)) {k k' : String} (v : β) (hne : k' ≠ k) :
    dictGet (dictSet m k v) k' = dictGet m k' := by
  unfold dictSet dictGet
  split
  · rw [find_map_key (fun p => if (p.1 == k) = true then (k, v) else p) (by intro p; by_cases h : p.1 = k <;> simp [h]) k' m]
    cases hf : m.find? (fun p => p.1 == k') with
    | none => rfl
    | some y =>
      have hyk : y.1 = k' := by simpa using List.find?_some hf
      have : ¬ y.1 = k := by rw [hyk]; exact hne
      simp [this]
  · rw [List.find?_append]
    have : ¬ k = k' := fun h => hne h.symm
    cases m.find? (fun p => p.1 == k') <;> simp [this]

/-! ### one simulation -/

theorem primStep_simulate (q : Prim) (c np ns : Nat) : ∃ q', q.step c (.simulate np ns) = .ok q' := by
  unfold Prim.step
  simp only [POp.dop, DOp.step]
  exact ⟨_, rfl⟩

theorem simPrim_ok {N : α → α → Nat} {s s' : GSys α} {p np : Nat} {h : α} {via : Option Nat}
    (hs : s.simPrim N p np h via = .ok s') :
    ∃ dt q q', s.dts[p]? = some dt ∧ s.prims[p]? = some q ∧ q.step s.clock (.simulate np (N h dt)) = .ok q' ∧
      (SOp.primSimulate p np (N h dt)).step s.proj = .ok s'.proj ∧
      s' = { s with prims := s.prims.set p q', clock := s.clock + 1, last := s.last.set p (some (h, via)) } := by
  unfold GSys.simPrim at hs
  cases hdt : s.dts[p]? with
  | none => rw [hdt] at hs; cases hs
  | some dt =>
    rw [hdt] at hs
    simp only at hs
    cases hb : (SOp.primSimulate p np (N h dt)).step s.proj with
    | error e => rw [hb] at hs; cases hs
    | ok b =>
      rw [hb] at hs
      simp only [Except.ok.injEq] at hs
      rcases onPrim_ok (show s.proj.onPrim p (.simulate np (N h dt)) = .ok b from hb) with ⟨q, q', hq, hstep, hbeq⟩
      subst hs
      refine ⟨dt, q, q', rfl, hq, hstep, ?_, ?_⟩
      · rw [hb, hbeq]; rfl
      · rw [hbeq]; rfl

theorem simPrim_total {N : α → α → Nat} {s : GSys α} {p np : Nat} {h : α} {via : Option Nat} {dt : α} {q : Prim}
    (hdt : s.dts[p]? = some dt) (hq : s.prims[p]? = some q) : ∃ s', s.simPrim N p np h via = .ok s' := by
  rcases primStep_simulate q s.clock np (N h dt) with ⟨q', hq'⟩
  have hp : s.proj.prims[p]? = some q := hq
  have hc : s.proj.clock = s.clock := rfl
  unfold GSys.simPrim
  rw [hdt]
  simp only [SOp.step, Sys.onPrim, hp, hc, hq']
  exact ⟨_, rfl⟩

/-! ### the invariant -/

/-- what holds of a system after any history -/
structure GInv (N : α → α → Nat) (s : GSys α) : Prop where
  /-- the buffers of every primary satisfy the invariant of Lemmas/C11Buffers.lean -/
  buf : SysBufInv s.proj
  /-- there is no user `register_buffer` in this system: every buffer comes from a simulate -/
  allSim : ∀ (i : Nat) (q : Prim), s.prims[i]? = some q → ∀ x ∈ q.info, x.2.bySim = true
  lenDt : s.dts.length = s.prims.length
  lenLast : s.last.length = s.prims.length
  /-- registries point to existing primaries -/
  regValid : ∀ (k : Nat) (d : GDeriv α), s.ders[k]? = some d → ∀ x ∈ d.reg, x.2 < s.prims.length
  /-- the ghost record of the last horizon is the `n_steps` of the last simulate ... -/
  ghostSome : ∀ (i : Nat) (q : Prim) (dt h : α) (via : Option Nat), s.prims[i]? = some q → s.dts[i]? = some dt → s.last[i]? = some (some (h, via)) →
    ∃ np g, q.lastSim = some ((np, N h dt), g)
  /-- ... and a primary never simulated has no buffers -/
  ghostNone : ∀ (i : Nat) (q : Prim), s.prims[i]? = some q → s.last[i]? = some none → q.lastSim = none ∧ q.info = []

theorem sysBufInv_congr {s1 s2 : Sys} (hp : s2.prims = s1.prims) (hc : s2.clock = s1.clock)
    (h : SysBufInv s1) : SysBufInv s2 := by
  intro i p hi
  rw [hp] at hi
  rw [hc]
  exact h i p hi

theorem GInv.simPrim {N : α → α → Nat} {s s' : GSys α} {p np : Nat} {h : α} {via : Option Nat}
    (hi : GInv N s) (hs : s.simPrim N p np h via = .ok s') : GInv N s' := by
  rcases simPrim_ok hs with ⟨dt, q, q', hdt, hq, hstep, hproj, rfl⟩
  have hlt : p < s.prims.length := (List.getElem?_eq_some_iff.1 hq).1
  have hrep := C11Buffers.simulate_replaces_entirely hstep
  refine ⟨sysBufInv_step hi.buf hproj, ?_, ?_, ?_, ?_, ?_, ?_⟩
  · intro i r hr x hx
    simp only at hr
    by_cases hpi : p = i
    · subst hpi
      rw [List.getElem?_set_self hlt] at hr
      simp only [Option.some.injEq] at hr
      subst hr
      by_cases hn : x.1 ∈ q.kind.simNames
      · rw [hrep.2.1 x hx hn]
      · exact hi.allSim p q hq x (hrep.2.2.1 x hx hn)
    · rw [List.getElem?_set_ne hpi] at hr
      exact hi.allSim i r hr x hx
  · simp only [List.length_set]; exact hi.lenDt
  · simp only [List.length_set]; exact hi.lenLast
  · intro k d hd x hx
    simp only [List.length_set]
    exact hi.regValid k d hd x hx
  · intro i r dt' h' via' hr hdt' hl
    simp only at hr hdt' hl
    by_cases hpi : p = i
    · subst hpi
      rw [List.getElem?_set_self hlt] at hr
      have hlt' : p < s.last.length := by rw [hi.lenLast]; exact hlt
      rw [List.getElem?_set_self hlt'] at hl
      simp only [Option.some.injEq, Prod.mk.injEq] at hr hl
      subst hr
      rw [hdt] at hdt'
      simp only [Option.some.injEq] at hdt'
      subst hdt'
      rw [← hl.1]
      exact ⟨np, s.clock, hrep.2.2.2.2.1⟩
    · rw [List.getElem?_set_ne hpi] at hr hl
      exact hi.ghostSome i r dt' h' via' hr hdt' hl
  · intro i r hr hl
    simp only at hr hl
    by_cases hpi : p = i
    · subst hpi
      have hlt' : p < s.last.length := by rw [hi.lenLast]; exact hlt
      rw [List.getElem?_set_self hlt'] at hl
      simp at hl
    · rw [List.getElem?_set_ne hpi] at hr hl
      exact hi.ghostNone i r hr hl

theorem simEach_inv {N : α → α → Nat} {np : Nat} {h : α} {via : Option Nat} :
    ∀ (l : List Nat) (s : GSys α), GInv N s → GInv N (GSys.simEach N np h via s l).1
  | [], _, hi => hi
  | p :: ps, s, hi => by
    unfold GSys.simEach
    cases hs : s.simPrim N p np h via with
    | error e => exact hi
    | ok s' => exact simEach_inv ps s' (hi.simPrim hs)

theorem GInv.updDer {N : α → α → Nat} {s : GSys α} (hi : GInv N s) (k : Nat) (f : GDeriv α → GDeriv α)
    (hf : ∀ d, s.ders[k]? = some d → ∀ x ∈ (f d).reg, x.2 < s.prims.length) : GInv N (s.updDer k f).1 := by
  unfold GSys.updDer
  cases hk : s.ders[k]? with
  | none => exact hi
  | some d =>
    refine ⟨sysBufInv_congr rfl rfl hi.buf, hi.allSim, hi.lenDt, hi.lenLast, ?_, hi.ghostSome, hi.ghostNone⟩
    intro k' d' hd' x hx
    simp only at hd' ⊢
    by_cases hkk : k = k'
    · subst hkk
      have hlt : k < s.ders.length := (List.getElem?_eq_some_iff.1 hk).1
      rw [List.getElem?_set_self hlt] at hd'
      simp only [Option.some.injEq] at hd'
      subst hd'
      exact hf d hk x hx
    · rw [List.getElem?_set_ne hkk] at hd'
      exact hi.regValid k' d' hd' x hx

theorem GInv.step {N : α → α → Nat} {s : GSys α} (hi : GInv N s) (o : GOp α) : GInv N (o.step N s).1 := by
  have hset : ∀ (k : Nat) (n : String) (p : Nat) (g : GDeriv α → GDeriv α), p < s.prims.length →
      (∀ d, (g d).reg = dictSet d.reg n p) → GInv N (s.updDer k g).1 := by
    intro k n p g hp hg
    apply hi.updDer
    intro d hd x hx
    rw [hg d] at hx
    rcases mem_dictSet hx with ⟨hm, _⟩ | rfl
    · exact hi.regValid k d hd x hm
    · exact hp
  cases o with
  | setMaturity k m => exact hi.updDer k _ (fun d hd x hx => hi.regValid k d hd x hx)
  | assign k n p =>
    simp only [GOp.step]
    split
    · rename_i hp; exact hset k n p _ hp (fun _ => rfl)
    · exact hi
  | assignOld k n p =>
    simp only [GOp.step]
    split
    · rename_i hp; exact hset k n p _ hp (fun _ => rfl)
    · exact hi
  | register k n p =>
    simp only [GOp.step]
    split
    · rename_i hp; exact hset k n p _ hp (fun _ => rfl)
    · exact hi
  | derivSim k np =>
    simp only [GOp.step]
    cases hk : s.ders[k]? with
    | none => exact hi
    | some d => exact simEach_inv _ s hi
  | primSim p np h =>
    simp only [GOp.step]
    cases hs : s.simPrim N p np h none with
    | error e => exact hi
    | ok s' => exact hi.simPrim hs

theorem run_inv {N : α → α → Nat} : ∀ (cs : List (GOp α)) (s : GSys α), GInv N s → GInv N (GSys.run N s cs)
  | [], _, hi => hi
  | o :: rest, s, hi => run_inv rest (o.step N s).1 (hi.step o)

theorem foldl_dictSet_mem {β : Type} (regs : List (String × β)) :
    ∀ (m : List (String × β)) (x : String × β), x ∈ regs.foldl (fun m x => dictSet m x.1 x.2) m → x ∈ m ∨ x ∈ regs := by
  induction regs with
  | nil => intro m x hx; exact Or.inl hx
  | cons r rs ih =>
    intro m x hx
    rcases ih _ x hx with h | h
    · rcases mem_dictSet h with ⟨hm, _⟩ | rfl
      · exact Or.inl hm
      · exact Or.inr List.mem_cons_self
    · exact Or.inr (List.mem_cons_of_mem _ h)

theorem init_ok {amb : DType} {prims : List ((PrimKind × Option DType) × α)} {ders : List (DerivSpec α)}
    {s0 : GSys α} (h0 : GSys.init amb prims ders = .ok s0) :
    ∃ b, Sys.init amb (prims.map (·.1)) [] = .ok b ∧
      (∀ d ∈ ders, ∀ x ∈ d.regs, x.2 < prims.length) ∧
      s0 = { prims := b.prims, dts := prims.map (·.2), last := prims.map (fun _ => none),
             ders := ders.map DerivSpec.build, ambient := amb, clock := b.clock } := by
  unfold GSys.init at h0
  cases hb : Sys.init amb (prims.map (·.1)) [] with
  | error e => rw [hb] at h0; cases h0
  | ok b =>
    rw [hb] at h0
    simp only at h0
    split at h0
    · rename_i hall
      simp only [Except.ok.injEq] at h0
      refine ⟨b, rfl, ?_, h0.symm⟩
      intro d hd x hx
      have := List.all_eq_true.1 hall d hd
      have := List.all_eq_true.1 this x hx
      simpa using this
    · cases h0

theorem sysInit_length {amb : DType} {ps : List (PrimKind × Option DType)} {ds : List (Nat × PayoffKind)} {b : Sys}
    (h : Sys.init amb ps ds = .ok b) : b.prims.length = ps.length := by
  unfold Sys.init at h
  cases hm : mapE (Prim.init amb) ps with
  | error e => rw [hm] at h; cases h
  | ok l =>
    rw [hm] at h
    simp only [Except.ok.injEq] at h
    subst h
    exact mapE_ok_length hm

theorem init_inv {N : α → α → Nat} {amb : DType} {prims : List ((PrimKind × Option DType) × α)}
    {ders : List (DerivSpec α)} {s0 : GSys α} (h0 : GSys.init amb prims ders = .ok s0) : GInv N s0 := by
  rcases init_ok h0 with ⟨b, hb, hreg, rfl⟩
  have hlen : b.prims.length = prims.length := by simpa using sysInit_length hb
  have htab := (init_table hb).2.2.1
  refine ⟨sysBufInv_congr (s1 := b) rfl rfl (sysBufInv_init hb), ?_, by simp [hlen], by simp [hlen], ?_, ?_, ?_⟩
  · intro i q hq x hx
    rcases htab i q hq with ⟨_, _, _, _, hinfo, _⟩
    rw [hinfo] at hx; cases hx
  · intro k d hd x hx
    simp only [List.getElem?_map] at hd
    cases hk : ders[k]? with
    | none => rw [hk] at hd; cases hd
    | some sp =>
      rw [hk] at hd
      simp only [Option.map_some, Option.some.injEq] at hd
      subst hd
      simp only [hlen]
      rcases foldl_dictSet_mem sp.regs [] x hx with h | h
      · cases h
      · exact hreg sp (List.mem_of_getElem? hk) x h
  · intro i q dt h via _ _ hl
    simp only [List.getElem?_map] at hl
    cases hp : prims[i]? <;> rw [hp] at hl <;> simp at hl
  · intro i q hq _
    rcases htab i q hq with ⟨_, _, _, _, hinfo, hlast⟩
    exact ⟨hlast, hinfo⟩

/-! ### the grid of a primary is that of its last simulate -/

theorem find_key_iff {β : Type} (l : List (String × β)) (n : String) :
    n ∈ l.map Prod.fst ↔ ∃ y, l.find? (fun b => b.1 == n) = some y := by
  constructor
  · intro h
    rcases List.mem_map.1 h with ⟨y, hy, hyn⟩
    cases hf : l.find? (fun b => b.1 == n) with
    | some z => exact ⟨z, rfl⟩
    | none =>
      have := List.find?_eq_none.1 hf y hy
      simp [hyn] at this
  · rintro ⟨y, hy⟩
    exact List.mem_map.2 ⟨y, List.mem_of_find?_eq_some hy, by simpa using List.find?_some hy⟩

theorem buf_shape_of_inv {c : Nat} {q : Prim} (hb : BufInv c q) (hall : ∀ x ∈ q.info, x.2.bySim = true)
    {sh : Shape} {g : Nat} (hl : q.lastSim = some (sh, g)) {b : String} {y : DType × Shape}
    (hy : q.buf b = .ok y) : y.2 = sh := by
  unfold Prim.buf at hy
  split at hy
  · rename_i b' m _ hm
    simp only [Except.ok.injEq] at hy
    subst hy
    have hmem := List.mem_of_find?_eq_some hm
    have := (hb.sim m hmem (hall m hmem)).1
    rw [hl] at this
    simp only [Option.some.injEq, Prod.mk.injEq] at this
    exact this.1.symm
  · cases hy

theorem buf_exists_of_inv {c : Nat} {q : Prim} (hb : BufInv c q) {sh : Shape} {g : Nat}
    (hl : q.lastSim = some (sh, g)) {b : String} (hn : b ∈ q.kind.simNames) : ∃ y, q.buf b = .ok y := by
  rcases hb.present sh g hl b hn with ⟨x, hx, hxb⟩
  have h1 : b ∈ q.info.map Prod.fst := List.mem_map.2 ⟨x, hx, hxb⟩
  have h2 : b ∈ q.st.buffers.map Prod.fst := by rw [← hb.names]; exact h1
  rcases (find_key_iff _ _).1 h1 with ⟨m, hm⟩
  rcases (find_key_iff _ _).1 h2 with ⟨b', hb'⟩
  exact ⟨(b'.2, m.2.shape), by unfold Prim.buf; rw [hb', hm]⟩

theorem buf_none_of_no_info {q : Prim} (h : q.info = []) (b : String) : q.buf b = .error .attributeError := by
  unfold Prim.buf
  rw [h]
  cases q.st.buffers.find? (fun x => x.1 == b) <;> rfl

/-- after any history: a primary whose last simulate had horizon `h` has ALL its buffers on
`N h dt` points (and the buffers its class simulates exist); a primary never simulated has none -/
theorem grid_of_last {N : α → α → Nat} {s : GSys α} (hi : GInv N s) {i : Nat} {q : Prim} {dt : α}
    (hq : s.prims[i]? = some q) (hdt : s.dts[i]? = some dt) :
    (∀ h via, s.last[i]? = some (some (h, via)) →
      ∃ np g, q.lastSim = some ((np, N h dt), g) ∧ (∀ b y, q.buf b = .ok y → y.2 = (np, N h dt)) ∧
        (∀ b ∈ q.kind.simNames, ∃ y, q.buf b = .ok y)) ∧
    (s.last[i]? = some none → ∀ b, q.buf b = .error .attributeError) := by
  have hb : BufInv s.clock q := hi.buf i q hq
  constructor
  · intro h via hl
    rcases hi.ghostSome i q dt h via hq hdt hl with ⟨np, g, hls⟩
    exact ⟨np, g, hls, fun b y hy => buf_shape_of_inv hb (hi.allSim i q hq) hls hy,
      fun b hn => buf_exists_of_inv hb hls hn⟩
  · intro hl b
    exact buf_none_of_no_info (hi.ghostNone i q hq hl).2 b

/-! ### `derivative.simulate`: every registered underlier -/

theorem simEach_spec {N : α → α → Nat} {np : Nat} {h : α} {via : Option Nat} :
    ∀ (l : List Nat) (s : GSys α), GInv N s → (∀ p ∈ l, p < s.prims.length) →
      (GSys.simEach N np h via s l).2 = none ∧
      (GSys.simEach N np h via s l).1.ders = s.ders ∧
      (GSys.simEach N np h via s l).1.dts = s.dts ∧
      (GSys.simEach N np h via s l).1.ambient = s.ambient ∧
      (GSys.simEach N np h via s l).1.prims.length = s.prims.length ∧
      (∀ p ∈ l, ∃ q dt g, (GSys.simEach N np h via s l).1.prims[p]? = some q ∧ s.dts[p]? = some dt ∧
        q.lastSim = some ((np, N h dt), g) ∧ (GSys.simEach N np h via s l).1.last[p]? = some (some (h, via))) ∧
      (∀ p, p ∉ l → (GSys.simEach N np h via s l).1.prims[p]? = s.prims[p]? ∧
        (GSys.simEach N np h via s l).1.last[p]? = s.last[p]?)
  | [], s, _, _ => ⟨rfl, rfl, rfl, rfl, rfl, fun p hp => (by cases hp), fun p _ => ⟨rfl, rfl⟩⟩
  | p :: ps, s, hi, hv => by
    have hlt : p < s.prims.length := hv p List.mem_cons_self
    have hq : s.prims[p]? = some s.prims[p] := List.getElem?_eq_getElem hlt
    have hlt2 : p < s.dts.length := by rw [hi.lenDt]; exact hlt
    have hdt : s.dts[p]? = some s.dts[p] := List.getElem?_eq_getElem hlt2
    rcases simPrim_total (N := N) (np := np) (h := h) (via := via) hdt hq with ⟨s1, hs1⟩
    have hi1 := hi.simPrim hs1
    rcases simPrim_ok hs1 with ⟨dt, q, q', hdt', hq', hstep, _, hs1eq⟩
    have hrep := C11Buffers.simulate_replaces_entirely hstep
    have hlen1 : s1.prims.length = s.prims.length := by rw [hs1eq]; simp
    have hdts1 : s1.dts = s.dts := by rw [hs1eq]
    have ih := simEach_spec (N := N) (np := np) (h := h) (via := via) ps s1 hi1
      (fun p' hp' => by rw [hlen1]; exact hv p' (List.mem_cons_of_mem _ hp'))
    have hunf : GSys.simEach N np h via s (p :: ps) = GSys.simEach N np h via s1 ps := by
      rw [GSys.simEach, hs1]
    rw [hunf]
    rcases ih with ⟨h1, h2, h3, h4, h5, h6, h7⟩
    have hlt3 : p < s.last.length := by rw [hi.lenLast]; exact hlt
    refine ⟨h1, ?_, ?_, ?_, ?_, ?_, ?_⟩
    · rw [h2, hs1eq]
    · rw [h3, hdts1]
    · rw [h4, hs1eq]
    · rw [h5, hlen1]
    · intro p' hp'
      by_cases hmem : p' ∈ ps
      · rcases h6 p' hmem with ⟨r, dt', g, hr, hd, hls, hla⟩
        exact ⟨r, dt', g, hr, by rw [← hdts1]; exact hd, hls, hla⟩
      · have hpp : p' = p := by
          rcases List.mem_cons.1 hp' with h | h
          · exact h
          · exact absurd h hmem
        subst hpp
        rcases h7 p' hmem with ⟨hpr, hla⟩
        refine ⟨q', dt, s.clock, ?_, hdt', hrep.2.2.2.2.1, ?_⟩
        · rw [hpr, hs1eq]; exact List.getElem?_set_self hlt
        · rw [hla, hs1eq]; exact List.getElem?_set_self hlt3
    · intro p' hp'
      have hne : p ≠ p' := fun h => hp' (h ▸ List.mem_cons_self)
      have hnm : p' ∉ ps := fun h => hp' (List.mem_cons_of_mem _ h)
      rcases h7 p' hnm with ⟨hpr, hla⟩
      constructor
      · rw [hpr, hs1eq]; exact List.getElem?_set_ne hne
      · rw [hla, hs1eq]; exact List.getElem?_set_ne hne

/-! ### what the InstrSys queries read -/

theorem view_ul (d : GDeriv α) (s : GSys α) (i : Nat) :
    (d.view s i).ul 0 = match s.prims[i]? with
      | none => .error .noSuchObject
      | some p => .ok (⟨i, d.pk, d.pricer⟩, p) := by
  simp only [Sys.ul, GDeriv.view, List.getElem?_cons_zero]
  cases s.prims[i]? <;> rfl

theorem view_ul_ok {d : GDeriv α} {s : GSys α} {i : Nat} {q : Prim} (hq : s.prims[i]? = some q) :
    (d.view s i).ul 0 = .ok (⟨i, d.pk, d.pricer⟩, q) := by
  rw [view_ul, hq]

theorem volatility_shape {p : Prim} {a : DType} {sh : Shape} (hall : ∀ b y, p.buf b = .ok y → y.2 = sh)
    {x : DType × Shape} (h : p.volatility a = .ok x) : x.2 = sh := by
  unfold Prim.volatility at h
  cases hk : p.kind <;> rw [hk] at h <;> simp only at h
  · rcases except_map_ok h with ⟨y, hy, rfl⟩
    exact hall _ y hy
  · rcases except_map_ok h with ⟨y, hy, rfl⟩
    exact hall _ y hy
  · exact hall _ x h
  · exact hall _ x h

theorem variance_shape {p : Prim} {sh : Shape} (hall : ∀ b y, p.buf b = .ok y → y.2 = sh)
    {x : DType × Shape} (h : p.variance = .ok x) : x.2 = sh := by
  unfold Prim.variance at h
  cases hk : p.kind <;> rw [hk] at h <;> simp only at h
  · rcases except_map_ok h with ⟨y, hy, rfl⟩
    exact hall _ y hy
  · exact hall _ x h
  · exact hall _ x h
  · exact hall _ x h

theorem listed_shape {s : Sys} {k : Nat} {dv : Deriv} {p : Prim} (hul : s.ul k = .ok (dv, p)) {sh : Shape}
    (hall : ∀ b y, p.buf b = .ok y → y.2 = sh) {r : DType × Shape} (hr : s.listed k = .ok r) : r.2 = sh := by
  unfold Sys.listed at hr
  rw [hul] at hr
  simp only at hr
  cases hp : dv.pricer with
  | none => rw [hp] at hr; cases hr
  | some b =>
    rw [hp] at hr
    simp only at hr
    rcases except_map_ok hr with ⟨y, hy, rfl⟩
    exact hall _ y hy

/-- every built-in feature lives on the grid of the primary its accessor returned -/
theorem featSrc_shape {s : Sys} {k : Nat} {dv : Deriv} {p : Prim} (hul : s.ul k = .ok (dv, p)) {sh : Shape}
    (hall : ∀ b y, p.buf b = .ok y → y.2 = sh) {f : Feat} {r : DType × Shape}
    (hr : s.featSrc k f = .ok r) : r.2 = sh := by
  unfold Sys.featSrc at hr
  rw [hul] at hr
  simp only at hr
  cases hc : f.cls <;> rw [hc] at hr <;> simp only at hr
  · rcases except_map_ok hr with ⟨y, hy, rfl⟩
    exact hall _ y hy
  · cases hb : p.buf "spot" with
    | error e => rw [hb] at hr; cases hr
    | ok x =>
      rw [hb] at hr
      simp only at hr
      split at hr
      · cases hr
      · simp only [Except.ok.injEq] at hr
        subst hr
        exact hall _ x hb
  · rcases except_map_ok hr with ⟨y, hy, rfl⟩
    exact hall _ y hy
  · exact listed_shape hul hall hr
  · exact volatility_shape hall hr
  · exact variance_shape hall hr
  · cases hr

theorem payoff_paths {s : Sys} {k : Nat} {dv : Deriv} {p : Prim} (hul : s.ul k = .ok (dv, p)) {sh : Shape}
    (hall : ∀ b y, p.buf b = .ok y → y.2 = sh) {r : DType × Nat} (hr : s.payoff k = .ok r) : r.2 = sh.1 := by
  unfold Sys.payoff at hr
  rw [hul] at hr
  simp only at hr
  cases hb : p.buf "spot" with
  | error e => rw [hb] at hr; cases hr
  | ok x =>
    rw [hb] at hr
    simp only at hr
    split at hr
    · cases hr
    · simp only [Except.ok.injEq] at hr
      subst hr
      simp only
      rw [hall _ x hb]

/-- a feature of the model reads ONE primary: the one its accessor returns -/
theorem featSrc_reads {s : GSys α} {k : Nat} {f : Feat} {x : DType × Shape} (hx : s.featSrc k f = .ok x) :
    ∃ d i q, s.ders[k]? = some d ∧ d.featPrim f = .ok i ∧ s.prims[i]? = some q ∧
      ∀ sh, (∀ b y, q.buf b = .ok y → y.2 = sh) → x.2 = sh := by
  unfold GSys.featSrc at hx
  cases hk : s.ders[k]? with
  | none => rw [hk] at hx; cases hx
  | some d =>
    rw [hk] at hx
    simp only at hx
    split at hx
    · cases hx
    · split at hx
      · cases hx
      · cases hp : d.featPrim f with
        | error e => rw [hp] at hx; cases hx
        | ok i =>
          rw [hp] at hx
          simp only at hx
          cases hq : s.prims[i]? with
          | none =>
            have : (d.view s i).ul 0 = .error .noSuchObject := by rw [view_ul, hq]
            unfold Sys.featSrc at hx
            rw [this] at hx
            cases hx
          | some q =>
            exact ⟨d, i, q, rfl, hp, hq, fun sh hall => featSrc_shape (view_ul_ok hq) hall hx⟩

/-! ### what a command does to the derivatives -/

theorem updDer_ders (s : GSys α) (k : Nat) (f : GDeriv α → GDeriv α) (j : Nat) :
    (s.updDer k f).1.ders[j]? = if k = j then (s.ders[j]?).map f else s.ders[j]? := by
  unfold GSys.updDer
  cases hk : s.ders[k]? with
  | none =>
    simp only
    split
    · rename_i hkj; rw [← hkj, hk]; rfl
    · rfl
  | some d =>
    simp only
    split
    · rename_i hkj
      subst hkj
      have hlt : k < s.ders.length := (List.getElem?_eq_some_iff.1 hk).1
      rw [List.getElem?_set_self hlt, hk]; rfl
    · rename_i hkj
      exact List.getElem?_set_ne hkj

theorem updDer_frame (s : GSys α) (k : Nat) (f : GDeriv α → GDeriv α) :
    (s.updDer k f).1.prims = s.prims ∧ (s.updDer k f).1.dts = s.dts ∧ (s.updDer k f).1.last = s.last ∧
    (s.updDer k f).1.ambient = s.ambient ∧ (s.updDer k f).1.clock = s.clock := by
  unfold GSys.updDer
  cases s.ders[k]? <;> exact ⟨rfl, rfl, rfl, rfl, rfl⟩

theorem simPrim_ders {N : α → α → Nat} {s s' : GSys α} {p np : Nat} {h : α} {via : Option Nat}
    (hs : s.simPrim N p np h via = .ok s') : s'.ders = s.ders ∧ s'.dts = s.dts ∧ s'.ambient = s.ambient := by
  rcases simPrim_ok hs with ⟨_, _, _, _, _, _, _, rfl⟩
  exact ⟨rfl, rfl, rfl⟩

theorem simEach_ders {N : α → α → Nat} {np : Nat} {h : α} {via : Option Nat} :
    ∀ (l : List Nat) (s : GSys α), (GSys.simEach N np h via s l).1.ders = s.ders ∧
      (GSys.simEach N np h via s l).1.dts = s.dts
  | [], _ => ⟨rfl, rfl⟩
  | p :: ps, s => by
    unfold GSys.simEach
    cases hs : s.simPrim N p np h via with
    | error e => exact ⟨rfl, rfl⟩
    | ok s' =>
      have := simEach_ders (N := N) (np := np) (h := h) (via := via) ps s'
      exact ⟨this.1.trans (simPrim_ders hs).1, this.2.trans (simPrim_ders hs).2.1⟩

/-- what a command does to a derivative it addresses -/
def derFn : GOp α → GDeriv α → GDeriv α
  | .setMaturity _ m => fun d => { d with maturity := m }
  | .assign _ n p => fun d => { d with reg := dictSet d.reg n p, shadow := dictDel d.shadow n }
  | .assignOld _ n p => fun d => { d with reg := dictSet d.reg n p, shadow := dictSet d.shadow n p }
  | .register _ n p => fun d => { d with reg := dictSet d.reg n p }
  | .derivSim _ _ => id
  | .primSim _ _ _ => id

theorem map_id' {β : Type} (o : Option β) : o = o.map id := by cases o <;> rfl

/-- every command maps every derivative by the identity or by `derFn` -/
theorem step_ders {N : α → α → Nat} (o : GOp α) (s : GSys α) (j : Nat) :
    ∃ g : GDeriv α → GDeriv α, (g = id ∨ g = derFn o) ∧ (o.step N s).1.ders[j]? = (s.ders[j]?).map g ∧
      (o.step N s).1.dts = s.dts := by
  have hupd : ∀ (k : Nat) (f : GDeriv α → GDeriv α), f = derFn o →
      ∃ g : GDeriv α → GDeriv α, (g = id ∨ g = derFn o) ∧ (s.updDer k f).1.ders[j]? = (s.ders[j]?).map g ∧
        (s.updDer k f).1.dts = s.dts := by
    intro k f hf
    by_cases hkj : k = j
    · exact ⟨f, Or.inr hf, by rw [updDer_ders, if_pos hkj], (updDer_frame s k f).2.1⟩
    · exact ⟨id, Or.inl rfl, by rw [updDer_ders, if_neg hkj]; exact map_id' _, (updDer_frame s k f).2.1⟩
  have hsame : ∃ g : GDeriv α → GDeriv α, (g = id ∨ g = derFn o) ∧ s.ders[j]? = (s.ders[j]?).map g ∧ s.dts = s.dts :=
    ⟨id, Or.inl rfl, map_id' _, rfl⟩
  cases o with
  | setMaturity k m => exact hupd k _ rfl
  | assign k n p =>
    simp only [GOp.step]
    split
    · exact hupd k _ rfl
    · exact hsame
  | assignOld k n p =>
    simp only [GOp.step]
    split
    · exact hupd k _ rfl
    · exact hsame
  | register k n p =>
    simp only [GOp.step]
    split
    · exact hupd k _ rfl
    · exact hsame
  | derivSim k np =>
    simp only [GOp.step]
    cases hk : s.ders[k]? with
    | none => exact hsame
    | some d =>
      simp only
      refine ⟨id, Or.inl rfl, ?_, (simEach_ders _ s).2⟩
      rw [(simEach_ders _ s).1]; exact map_id' _
  | primSim p np h =>
    simp only [GOp.step]
    cases hs : s.simPrim N p np h none with
    | error e => exact hsame
    | ok s' =>
      simp only
      refine ⟨id, Or.inl rfl, ?_, (simPrim_ders hs).2.1⟩
      rw [(simPrim_ders hs).1]; exact map_id' _

/-- a property of derivatives kept by what the commands of a history do to a derivative holds
after the history -/
theorem run_ders {N : α → α → Nat} (P : GDeriv α → Prop) :
    ∀ (cs : List (GOp α)) (s : GSys α), (∀ o ∈ cs, ∀ d, P d → P (derFn o d)) → ∀ j : Nat,
      ∃ G : GDeriv α → GDeriv α, (∀ d, P d → P (G d)) ∧ (GSys.run N s cs).ders[j]? = (s.ders[j]?).map G ∧
        (GSys.run N s cs).dts = s.dts
  | [], s, _, j => ⟨id, fun _ h => h, map_id' _, rfl⟩
  | o :: rest, s, hP, j => by
    rcases step_ders (N := N) o s j with ⟨g, hg, hgj, hdts⟩
    rcases run_ders P rest (o.step N s).1 (fun o' ho' => hP o' (List.mem_cons_of_mem _ ho')) j with ⟨G, hG, hGj, hGd⟩
    refine ⟨G ∘ g, ?_, ?_, ?_⟩
    · intro d hd
      apply hG
      rcases hg with rfl | rfl
      · exact hd
      · exact hP o List.mem_cons_self d hd
    · show (GSys.run N (o.step N s).1 rest).ders[j]? = _
      rw [hGj, hgj]
      cases s.ders[j]? <;> rfl
    · show (GSys.run N (o.step N s).1 rest).dts = _
      rw [hGd, hdts]

end PfVerif.C13SystemAux

namespace PfVerif.C13System
open PfVerif PfVerif.InstrSys PfVerif.GridSys PfVerif.C17SystemAux PfVerif.C11BuffersAux PfVerif.C13SystemAux

variable {α : Type}

/-! ## histories -/

/-- reached from a constructed system by SOME history of commands (maturities set, underliers
assigned / registered - repaired or pre-fix -, derivatives and primaries simulated) -/
def Reachable (N : α → α → Nat) (s : GSys α) : Prop :=
  ∃ amb prims ders s0 cs, GSys.init amb prims ders = .ok s0 ∧ s = GSys.run N s0 cs

private theorem run_append (N : α → α → Nat) : ∀ (a b : List (GOp α)) (s : GSys α),
    GSys.run N s (a ++ b) = GSys.run N (GSys.run N s a) b
  | [], _, _ => rfl
  | o :: a, b, s => run_append N a b (o.step N s).1

theorem reachable_init {N : α → α → Nat} {amb : DType} {prims : List ((PrimKind × Option DType) × α)}
    {ders : List (DerivSpec α)} {s0 : GSys α} (h0 : GSys.init amb prims ders = .ok s0) : Reachable N s0 :=
  ⟨amb, prims, ders, s0, [], h0, rfl⟩

theorem reachable_step {N : α → α → Nat} {s : GSys α} (h : Reachable N s) (o : GOp α) :
    Reachable N (o.step N s).1 := by
  rcases h with ⟨amb, prims, ders, s0, cs, h0, rfl⟩
  exact ⟨amb, prims, ders, s0, cs ++ [o], h0, by rw [run_append]; rfl⟩

theorem reachable_run {N : α → α → Nat} {s : GSys α} (h : Reachable N s) (cs : List (GOp α)) :
    Reachable N (GSys.run N s cs) := by
  rcases h with ⟨amb, prims, ders, s0, cs0, h0, rfl⟩
  exact ⟨amb, prims, ders, s0, cs0 ++ cs, h0, by rw [run_append]⟩

/-- the invariant of Lemmas/C11Buffers.lean and the coherence of registries and ghost records hold
after any history -/
theorem reachable_inv {N : α → α → Nat} {s : GSys α} (h : Reachable N s) : GInv N s := by
  rcases h with ⟨amb, prims, ders, s0, cs, h0, rfl⟩
  exact run_inv cs s0 (init_inv h0)

/-! ## `derivative.simulate`: every underlier, every buffer, the grid of the CURRENT maturity -/

/-- C13 over any history.  `d.simulate(n_paths)` after ANY history of assignments, registrations,
maturity changes and other simulations: it does not raise, and EVERY registered underlier has
afterwards every buffer its class simulates, ALL its buffers have shape
`(n_paths, N maturity dt)` with ITS `dt` and the maturity the derivative has NOW, and its last
simulate is recorded as this one. -/
theorem derivSim_every_underlier_on_its_grid {N : α → α → Nat} {s : GSys α} (hr : Reachable N s) {k np : Nat}
    {d : GDeriv α} (hd : s.ders[k]? = some d) :
    ((GOp.derivSim k np).step N s).2 = none ∧
    ((GOp.derivSim k np).step N s).1.ders = s.ders ∧
    ((GOp.derivSim k np).step N s).1.dts = s.dts ∧
    ∀ x ∈ d.reg, ∃ q dt, ((GOp.derivSim k np).step N s).1.prims[x.2]? = some q ∧ s.dts[x.2]? = some dt ∧
      (∀ b ∈ q.kind.simNames, ∃ y, q.buf b = .ok y) ∧
      (∀ b y, q.buf b = .ok y → y.2 = (np, N d.maturity dt)) ∧
      ((GOp.derivSim k np).step N s).1.last[x.2]? = some (some (d.maturity, some k)) := by
  have hi := reachable_inv hr
  have hstep : (GOp.derivSim k np).step N s = GSys.simEach N np d.maturity (some k) s (d.reg.map (·.2)) := by
    simp only [GOp.step, hd]
  rw [hstep]
  have hv : ∀ p ∈ d.reg.map (·.2), p < s.prims.length := by
    intro p hp
    rcases List.mem_map.1 hp with ⟨x, hx, rfl⟩
    exact hi.regValid k d hd x hx
  rcases simEach_spec (N := N) (np := np) (h := d.maturity) (via := some k) _ s hi hv with ⟨h1, h2, h3, _, _, h6, _⟩
  have hi' := simEach_inv (N := N) (np := np) (h := d.maturity) (via := some k) (d.reg.map (·.2)) s hi
  refine ⟨h1, h2, h3, ?_⟩
  intro x hx
  rcases h6 x.2 (List.mem_map.2 ⟨x, hx, rfl⟩) with ⟨q, dt, g, hq, hdt, hls, hla⟩
  have hdt' : (GSys.simEach N np d.maturity (some k) s (d.reg.map (·.2))).1.dts[x.2]? = some dt := by rw [h3]; exact hdt
  rcases (grid_of_last hi' hq hdt').1 d.maturity (some k) hla with ⟨np', g', hls', hall, hex⟩
  rw [hls] at hls'
  simp only [Option.some.injEq, Prod.mk.injEq] at hls'
  refine ⟨q, dt, hq, hdt, hex, ?_, hla⟩
  intro b y hy
  rw [hall b y hy, ← hls'.1.1]

/-- after any history the grid of a primary is that of its LAST simulate (whoever issued it): all
its buffers have `N h dt` time points, `h` the `time_horizon` of that call; a primary never
simulated has no buffer at all.  In particular a primary that was replaced in a registry and is no
longer simulated keeps its old paths, and a primary re-simulated through another owner carries that
owner's grid. -/
theorem grid_is_that_of_the_last_simulation {N : α → α → Nat} {s : GSys α} (hr : Reachable N s) {i : Nat}
    {q : Prim} {dt : α} (hq : s.prims[i]? = some q) (hdt : s.dts[i]? = some dt) :
    (∀ h via, s.last[i]? = some (some (h, via)) →
      ∃ np, (∀ b y, q.buf b = .ok y → y.2 = (np, N h dt)) ∧ (∀ b ∈ q.kind.simNames, ∃ y, q.buf b = .ok y)) ∧
    (s.last[i]? = some none → ∀ b, q.buf b = .error .attributeError) := by
  have := grid_of_last (reachable_inv hr) hq hdt
  refine ⟨fun h via hl => ?_, this.2⟩
  rcases this.1 h via hl with ⟨np, _, _, hall, hex⟩
  exact ⟨np, hall, hex⟩

/-- every primary has a ghost record: it was simulated last with some horizon, or never -/
theorem last_defined {N : α → α → Nat} {s : GSys α} (hr : Reachable N s) {i : Nat} {q : Prim}
    (hq : s.prims[i]? = some q) : ∃ l, s.last[i]? = some l := by
  have hlt : i < s.prims.length := (List.getElem?_eq_some_iff.1 hq).1
  have : i < s.last.length := by rw [(reachable_inv hr).lenLast]; exact hlt
  exact ⟨_, List.getElem?_eq_getElem this⟩

/-! ## accessors: `d.underlier`, `ul()`, the registry entry -/

/-- without a copy among the instance attributes, `d.<name>` IS the registry entry -/
theorem attr_is_registry_entry {d : GDeriv α} (hsh : d.shadow = []) (name : String) :
    d.attr name = d.getUnderlier name := by
  unfold GDeriv.attr
  rw [hsh]
  rfl

/-- ... and for a derivative whose FIRST registered name is `underlier` (every built-in option),
`d.underlier`, `ul()` and `get_underlier("underlier")` are ONE primary -/
theorem accessors_one_primary {d : GDeriv α} {p : Nat} {t : List (String × Nat)}
    (hreg : d.reg = ("underlier", p) :: t) (hsh : d.shadow = []) :
    d.attr "underlier" = .ok p ∧ d.ul 0 = .ok p ∧ d.getUnderlier "underlier" = .ok p := by
  have hg : d.getUnderlier "underlier" = .ok p := by
    unfold GDeriv.getUnderlier
    rw [hreg, dictGet_cons_self]
  refine ⟨by rw [attr_is_registry_entry hsh]; exact hg, ?_, hg⟩
  unfold GDeriv.ul
  rw [hreg]
  rfl

/-- commands of the repaired code -/
def Repaired : GOp α → Prop
  | .assignOld _ _ _ => False
  | _ => True

/-- the repaired `__setattr__` never leaves a primary among the instance attributes: after any
history of repaired commands no derivative has a shadow -/
theorem no_shadow_after_history {N : α → α → Nat} {amb : DType} {prims : List ((PrimKind × Option DType) × α)}
    {ders : List (DerivSpec α)} {s0 : GSys α} (h0 : GSys.init amb prims ders = .ok s0) (cs : List (GOp α))
    (hrep : ∀ o ∈ cs, Repaired o) {k : Nat} {d : GDeriv α} (hd : (GSys.run N s0 cs).ders[k]? = some d) :
    d.shadow = [] := by
  rcases run_ders (N := N) (fun d => d.shadow = []) cs s0 (by
    intro o ho d hd
    have := hrep o ho
    cases o with
    | assignOld k n p => exact absurd this id
    | setMaturity k m => exact hd
    | assign k n p => simp only [derFn]; rw [hd]; rfl
    | register k n p => exact hd
    | derivSim k np => exact hd
    | primSim p np h => exact hd) k with ⟨G, hG, hGk, _⟩
  rw [hGk] at hd
  rcases init_ok h0 with ⟨b, _, _, rfl⟩
  simp only [List.getElem?_map] at hd
  cases hsp : ders[k]? with
  | none => rw [hsp] at hd; cases hd
  | some sp =>
    rw [hsp] at hd
    simp only [Option.map_some, Option.some.injEq] at hd
    rw [← hd]
    exact hG _ rfl

/-- the first registered name keeps its place (an insertion-ordered dict): after any history the
registry of a derivative constructed with first name `n` still starts with `n` -/
theorem first_name_after_history {N : α → α → Nat} {amb : DType} {prims : List ((PrimKind × Option DType) × α)}
    {ders : List (DerivSpec α)} {s0 : GSys α} (h0 : GSys.init amb prims ders = .ok s0) (cs : List (GOp α))
    {k : Nat} {sp : DerivSpec α} (hsp : ders[k]? = some sp) {n : String} {p : Nat} {rest : List (String × Nat)}
    (hregs : sp.regs = (n, p) :: rest) :
    ∃ d p' t, (GSys.run N s0 cs).ders[k]? = some d ∧ d.reg = (n, p') :: t := by
  have hfold : ∀ (l : List (String × Nat)) (m : List (String × Nat)), (∃ p' t, m = (n, p') :: t) →
      ∃ p' t, l.foldl (fun m x => dictSet m x.1 x.2) m = (n, p') :: t := by
    intro l
    induction l with
    | nil => intro m hm; exact hm
    | cons x xs ih =>
      intro m hm
      apply ih
      rcases hm with ⟨p', t, rfl⟩
      rcases dictSet_cons (n, p') t x.1 x.2 with ⟨t', ht'⟩
      show ∃ p'' t'', dictSet ((n, p') :: t) x.1 x.2 = (n, p'') :: t''
      rw [ht']
      by_cases hx : n = x.1
      · exact ⟨x.2, t', by simp [hx]⟩
      · exact ⟨p', t', by simp [hx]⟩
  rcases run_ders (N := N) (fun d => ∃ p' t, d.reg = (n, p') :: t) cs s0 (by
    intro o _ d hd
    have hset : ∀ (k : String) (v : Nat), ∃ p' t, dictSet d.reg k v = (n, p') :: t := by
      intro k v
      rcases hd with ⟨p', t, hreg⟩
      rcases dictSet_cons (n, p') t k v with ⟨t', ht'⟩
      rw [hreg, ht']
      by_cases hx : n = k
      · exact ⟨v, t', by simp [hx]⟩
      · exact ⟨p', t', by simp [hx]⟩
    cases o with
    | assignOld k n p => exact hset n p
    | setMaturity k m => exact hd
    | assign k n p => exact hset n p
    | register k n p => exact hset n p
    | derivSim k np => exact hd
    | primSim p np h => exact hd) k with ⟨G, hG, hGk, _⟩
  rcases init_ok h0 with ⟨b, _, _, rfl⟩
  simp only [List.getElem?_map, hsp, Option.map_some] at hGk
  have : ∃ p' t, (G sp.build).reg = (n, p') :: t := by
    apply hG
    simp only [DerivSpec.build, hregs, List.foldl_cons, dictSet_nil]
    exact hfold rest _ ⟨p, [], rfl⟩
  rcases this with ⟨p', t, ht⟩
  exact ⟨_, p', t, hGk, ht⟩

/-! ## one grid: time to maturity, payoff, features, hedge -/

/-- the registered underliers of `d` all carry `np` paths over `T` time points, in every buffer -/
def OnOneGrid (s : GSys α) (d : GDeriv α) (np T : Nat) : Prop :=
  ∀ x ∈ d.reg, ∃ q, s.prims[x.2]? = some q ∧ ∀ b y, q.buf b = .ok y → y.2 = (np, T)

/-- without a shadow every accessor of a feature returns a REGISTERED primary -/
theorem featPrim_registered {d : GDeriv α} (hsh : d.shadow = []) {f : Feat} {i : Nat}
    (h : d.featPrim f = .ok i) : ∃ x ∈ d.reg, x.2 = i := by
  unfold GDeriv.featPrim at h
  split at h
  · split at h
    · rw [attr_is_registry_entry hsh] at h
      unfold GDeriv.getUnderlier at h
      cases hg : dictGet d.reg "underlier" with
      | none => rw [hg] at h; cases h
      | some p =>
        rw [hg] at h
        simp only [Except.ok.injEq] at h
        subst h
        exact ⟨_, dictGet_mem hg, rfl⟩
    · cases h
  · unfold GDeriv.ul at h
    cases hg : d.reg[0]? with
    | none => rw [hg] at h; cases h
    | some x =>
      rw [hg] at h
      simp only [Except.ok.injEq] at h
      exact ⟨x, List.mem_of_getElem? hg, h⟩

/-- every built-in feature (time to maturity among them) is on the one grid -/
theorem shared_grid_feature {s : GSys α} {k np T : Nat} {d : GDeriv α} (hd : s.ders[k]? = some d)
    (hsh : d.shadow = []) (hg : OnOneGrid s d np T) {f : Feat} {x : DType × Shape}
    (hx : s.featSrc k f = .ok x) : x.2 = (np, T) := by
  rcases featSrc_reads hx with ⟨d', i, q, hd', hfp, hq, hall⟩
  rw [hd] at hd'
  simp only [Option.some.injEq] at hd'
  subst hd'
  rcases featPrim_registered hsh hfp with ⟨y, hy, rfl⟩
  rcases hg y hy with ⟨q', hq', hall'⟩
  rw [hq] at hq'
  simp only [Option.some.injEq] at hq'
  subst hq'
  exact hall _ hall'

private theorem spotOf_ok {s : GSys α} {i : Nat} {y : DType × Shape} (h : s.spotOf i = .ok y) :
    ∃ q, s.prims[i]? = some q ∧ q.buf "spot" = .ok y := by
  unfold GSys.spotOf at h
  cases hq : s.prims[i]? with
  | none => rw [hq] at h; cases h
  | some q => rw [hq] at h; exact ⟨q, rfl, h⟩

/-- every tensor the payoff reads is on the one grid -/
theorem shared_grid_payoffInputs {s : GSys α} {k np T : Nat} {d : GDeriv α} (hd : s.ders[k]? = some d)
    (hg : OnOneGrid s d np T) {l : List (DType × Shape)} (hl : s.payoffInputs k = .ok l) :
    ∀ y ∈ l, y.2 = (np, T) := by
  have hreg : ∀ x ∈ d.reg, ∀ y, s.spotOf x.2 = .ok y → y.2 = (np, T) := by
    intro x hx y hy
    rcases spotOf_ok hy with ⟨q, hq, hb⟩
    rcases hg x hx with ⟨q', hq', hall⟩
    rw [hq] at hq'
    simp only [Option.some.injEq] at hq'
    subst hq'
    exact hall _ y hb
  unfold GSys.payoffInputs at hl
  rw [hd] at hl
  simp only at hl
  cases hp : d.pay with
  | ul0 =>
    rw [hp] at hl
    simp only at hl
    cases hu : d.ul 0 with
    | error e => rw [hu] at hl; cases hl
    | ok i =>
      rw [hu] at hl
      simp only at hl
      rcases except_map_ok hl with ⟨y0, hy0, rfl⟩
      unfold GDeriv.ul at hu
      cases hg0 : d.reg[0]? with
      | none => rw [hg0] at hu; cases hu
      | some x =>
        rw [hg0] at hu
        simp only [Except.ok.injEq] at hu
        subst hu
        intro y hy
        simp only [List.mem_singleton] at hy
        subst hy
        exact hreg x (List.mem_of_getElem? hg0) y hy0
  | named n ns =>
    rw [hp] at hl
    simp only at hl
    intro y hy
    rcases mapE_ok_mem hl y hy with ⟨nm, _, hnm⟩
    cases hgu : d.getUnderlier nm with
    | error e => rw [hgu] at hnm; cases hnm
    | ok i =>
      rw [hgu] at hnm
      simp only at hnm
      unfold GDeriv.getUnderlier at hgu
      cases hdg : dictGet d.reg nm with
      | none => rw [hdg] at hgu; cases hgu
      | some p =>
        rw [hdg] at hgu
        simp only [Except.ok.injEq] at hgu
        subst hgu
        exact hreg _ (dictGet_mem hdg) y hnm

/-- `FeatureList.get(None)`: all features side by side, `T` time points -/
theorem shared_grid_features {s : GSys α} {k np T : Nat} {d : GDeriv α} (hd : s.ders[k]? = some d)
    (hsh : d.shadow = []) (hg : OnOneGrid s d np T) {fs : List Feat} {t : TInfo}
    (ht : s.features k fs = .ok t) : t.shape = [np, T, fs.length] := by
  unfold GSys.features at ht
  cases hm : mapE (s.featSrc k) fs with
  | error e => rw [hm] at ht; cases ht
  | ok srcs =>
    rw [hm] at ht
    cases srcs with
    | nil => cases ht
    | cons x0 rest =>
      simp only at ht
      split at ht
      · cases ht
      · simp only [Except.ok.injEq] at ht
        subst ht
        rcases mapE_ok_mem hm x0 List.mem_cons_self with ⟨f, _, hf⟩
        have := shared_grid_feature hd hsh hg hf
        simp only [this]

private theorem hedgeSpot_prim (s : GSys α) (i : Nat) :
    s.proj.hedgeSpot (.prim i) = match s.prims[i]? with
      | none => .error .noSuchObject
      | some p => p.buf "spot" := rfl

/-- the hedge computed on the default hedge (ALL underliers) has `T` time points and one row per
underlier -/
theorem shared_grid_hedge {s : GSys α} {k np T : Nat} {d : GDeriv α} (hd : s.ders[k]? = some d)
    (hsh : d.shadow = []) (hg : OnOneGrid s d np T) {m : ModelKind} {fs : List Feat} {t : TInfo}
    (ht : s.computeHedge k ⟨m, fs, none⟩ = .ok t) : t.shape = [np, d.reg.length, T] := by
  unfold GSys.computeHedge at ht
  cases hp : s.hedgePre k fs none with
  | error e => rw [hp] at ht; cases ht
  | ok pre =>
    rw [hp] at ht
    simp only at ht
    cases hmo : modelOut s.ambient m pre.input with
    | error e => rw [hmo] at ht; cases ht
    | ok o =>
      rw [hmo] at ht
      simp only at ht
      split at ht
      · cases ht
      · simp only [Except.ok.injEq] at ht
        subst ht
        simp only
        unfold GSys.hedgePre at hp
        simp only [GSys.hedgeRefs, hd] at hp
        cases hreg : d.reg with
        | nil => rw [hreg] at hp; cases hp
        | cons x0 xs =>
          rw [hreg] at hp
          simp only [List.map_cons] at hp
          cases h0 : s.proj.hedgeSpot (.prim x0.2) with
          | error e => rw [h0] at hp; cases hp
          | ok y0 =>
            rw [h0] at hp
            simp only at hp
            have hy0 : y0.2 = (np, T) := by
              rw [hedgeSpot_prim] at h0
              rcases hg x0 (by rw [hreg]; exact List.mem_cons_self) with ⟨q, hq, hall⟩
              rw [hq] at h0
              exact hall _ y0 h0
            cases hc : s.proj.checkHedges y0.2 (HRef.prim x0.2 :: List.map (fun x => HRef.prim x.2) xs) with
            | error e => rw [hc] at hp; cases hp
            | ok u =>
              rw [hc] at hp
              simp only at hp
              split at hp
              · split at hp
                · cases hp
                · cases hm : mapE (s.featStep k y0) fs with
                  | error e => rw [hm] at hp; cases hp
                  | ok srcs =>
                    rw [hm] at hp
                    cases srcs with
                    | nil => cases hp
                    | cons z0 rest =>
                      simp only at hp
                      split at hp
                      · cases hp
                      · simp only [Except.ok.injEq] at hp
                        subst hp
                        simp [hy0]
              · cases hm : mapE (s.featSrc k) fs with
                | error e => rw [hm] at hp; cases hp
                | ok srcs =>
                  rw [hm] at hp
                  cases srcs with
                  | nil => cases hp
                  | cons z0 rest =>
                    simp only at hp
                    split at hp
                    · cases hp
                    · simp only [Except.ok.injEq] at hp
                      subst hp
                      rcases mapE_ok_mem hm z0 List.mem_cons_self with ⟨f, _, hf⟩
                      have := shared_grid_feature hd hsh hg hf
                      simp [this]

/-- `d.simulate(n_paths)` after any history, when the step counts of all registered underliers
agree (`T`; in particular when all have the same `dt`): the underliers are on ONE grid, and with
it - for a derivative without shadow, as every derivative of the repaired code - time to maturity,
every feature, everything the payoff reads, `FeatureList.get` and the hedge -/
theorem derivSim_one_grid {N : α → α → Nat} {s : GSys α} (hr : Reachable N s) {k np T : Nat}
    {d : GDeriv α} (hd : s.ders[k]? = some d)
    (hT : ∀ x ∈ d.reg, ∀ dt, s.dts[x.2]? = some dt → N d.maturity dt = T) :
    OnOneGrid ((GOp.derivSim k np).step N s).1 d np T ∧
    ((GOp.derivSim k np).step N s).1.ders[k]? = some d := by
  rcases derivSim_every_underlier_on_its_grid hr (np := np) hd with ⟨_, hders, _, hall⟩
  refine ⟨?_, by rw [hders]; exact hd⟩
  intro x hx
  rcases hall x hx with ⟨q, dt, hq, hdt, _, hsh, _⟩
  exact ⟨q, hq, fun b y hy => by rw [hsh b y hy, hT x hx dt hdt]⟩

theorem derivSim_shared_grid {N : α → α → Nat} {s : GSys α} (hr : Reachable N s) {k np T : Nat}
    {d : GDeriv α} (hd : s.ders[k]? = some d) (hsh : d.shadow = [])
    (hT : ∀ x ∈ d.reg, ∀ dt, s.dts[x.2]? = some dt → N d.maturity dt = T) :
    (∀ x, ((GOp.derivSim k np).step N s).1.ttm k = .ok x → x.2 = (np, T)) ∧
    (∀ f x, ((GOp.derivSim k np).step N s).1.featSrc k f = .ok x → x.2 = (np, T)) ∧
    (∀ l, ((GOp.derivSim k np).step N s).1.payoffInputs k = .ok l → ∀ y ∈ l, y.2 = (np, T)) ∧
    (∀ fs t, ((GOp.derivSim k np).step N s).1.features k fs = .ok t → t.shape = [np, T, fs.length]) ∧
    (∀ m fs t, ((GOp.derivSim k np).step N s).1.computeHedge k ⟨m, fs, none⟩ = .ok t →
      t.shape = [np, d.reg.length, T]) := by
  rcases derivSim_one_grid hr (np := np) hd hT with ⟨hg, hd'⟩
  exact ⟨fun x hx => shared_grid_feature hd' hsh hg hx,
    fun f x hx => shared_grid_feature hd' hsh hg hx,
    fun l hl => shared_grid_payoffInputs hd' hg hl,
    fun fs t ht => shared_grid_features hd' hsh hg ht,
    fun m fs t ht => shared_grid_hedge hd' hsh hg ht⟩

/-! ## the values of time to maturity on that grid -/

private theorem spot_simulated (k : PrimKind) : "spot" ∈ k.simNames := by cases k <;> simp [PrimKind.simNames]

/-- time to maturity exists once the primary reached as `d.underlier` has a spot with at least one
time point, and has the shape of that spot -/
theorem ttm_ok {s : GSys α} {k i : Nat} {d : GDeriv α} {q : Prim} {y : DType × Shape}
    (hd : s.ders[k]? = some d) (hm : d.mixin = true) (ha : d.attr "underlier" = .ok i)
    (hq : s.prims[i]? = some q) (hb : q.buf "spot" = .ok y) (hT : y.2.2 ≠ 0) :
    s.ttm k = .ok (numT s.ambient (toLike y.1 .i64), y.2) := by
  unfold GSys.ttm GSys.featSrc
  rw [hd]
  simp only
  have hfp : d.featPrim .timeToMaturity = .ok i := by
    unfold GDeriv.featPrim
    simp only [viaMixin, hm, if_true]
    exact ha
  have hne : ¬ (Feat.timeToMaturity = Feat.listedSpot ∧ d.pricer = none) := fun h => by cases h.1
  rw [if_neg hne, hfp]
  simp only
  unfold Sys.featSrc
  rw [view_ul_ok hq]
  simp only [Feat.cls, hb, hT, if_false]
  rfl

section values
variable [Sub α] [Mul α] [NatCast α]

/-- `time_to_maturity(None)` is `ttmAll` of Model/Grid.lean on the number of time points of the
spot of `d.underlier` and on the `dt` of THAT primary -/
theorem ttmValues_ok {s : GSys α} {k i : Nat} {d : GDeriv α} {x : DType × Shape} {dt : α}
    (hd : s.ders[k]? = some d) (ha : d.attr "underlier" = .ok i) (hdt : s.dts[i]? = some dt)
    (hx : s.ttm k = .ok x) : s.ttmValues k = .ok (ttmAll x.2.2 dt) := by
  unfold GSys.ttmValues
  rw [hx, hd]
  simp only
  rw [ha]
  simp only
  rw [hdt]

end values

theorem nExact_spec {m dt : Rat} (hm : 0 ≤ m) (hdt : 0 < dt) :
    ((nExact m dt : Nat) : Int) = nStepsExact m dt ∧ 1 ≤ nExact m dt := by
  have hq : 0 ≤ m / dt := div_nonneg hm (le_of_lt hdt)
  have hc : 0 ≤ (m / dt).ceil := by
    by_contra hneg
    have h1 : (m / dt).ceil ≤ -1 := by omega
    have h2 : ((m / dt).ceil : Rat) ≤ ((-1 : Int) : Rat) := by exact_mod_cast h1
    have h3 : m / dt ≤ ((m / dt).ceil : Rat) := Rat.le_ceil
    have : m / dt ≤ -1 := by
      calc m / dt ≤ ((m / dt).ceil : Rat) := h3
        _ ≤ ((-1 : Int) : Rat) := h2
        _ = -1 := by norm_num
    linarith
  unfold nExact nStepsExact
  constructor
  · rw [Int.toNat_of_nonneg (by omega)]
  · omega

private theorem ttmAll_cast (T : ℕ) (dt : ℚ) : (ttmAll T dt).map (Rat.cast : ℚ → ℝ) = ttmAll T (dt : ℝ) := by
  simp only [ttmAll, List.map_map]
  apply List.map_congr_left
  intro i _
  simp only [Function.comp]
  push_cast
  rfl

/-- the headline on the exact rationals: after `d.simulate(n_paths)` following any history, every
buffer of every registered underlier `p` has exactly `⌈M/dt_p⌉ + 1` time points (`nStepsExact` of
Model/Grid.lean, the count of the property statement), for `M >= 0`, `dt_p > 0` -/
theorem derivSim_exact_count {s : GSys Rat} (hr : Reachable nExact s) {k np : Nat} {d : GDeriv Rat}
    (hd : s.ders[k]? = some d) (hM : 0 ≤ d.maturity) {x : String × Nat} (hx : x ∈ d.reg) :
    ∃ q dt, ((GOp.derivSim k np).step nExact s).1.prims[x.2]? = some q ∧ s.dts[x.2]? = some dt ∧
      (∀ b ∈ q.kind.simNames, ∃ y, q.buf b = .ok y) ∧
      ∀ b y, q.buf b = .ok y → y.2.1 = np ∧ (0 < dt → ((y.2.2 : Nat) : Int) = nStepsExact d.maturity dt ∧ 1 ≤ y.2.2) := by
  rcases (derivSim_every_underlier_on_its_grid hr (np := np) hd).2.2.2 x hx with ⟨q, dt, hq, hdt, hex, hsh, _⟩
  refine ⟨q, dt, hq, hdt, hex, ?_⟩
  intro b y hy
  rw [hsh b y hy]
  exact ⟨rfl, fun hdt0 => nExact_spec hM hdt0⟩

/-- C13 on the exact rationals, after any history.  A built-in option (first registered name
`underlier`, `OptionMixin`) of the repaired code (no shadow), maturity `M >= 0`, whose CURRENT
underlier `p` has step `dt > 0`: after `d.simulate(n_paths)`
* `d.underlier`, `ul()`, `get_underlier("underlier")` are the one primary `p`;
* `time_to_maturity(None)` has shape `(n_paths, T)` with `T = ⌈M/dt⌉ + 1 >= 1`;
* its row is `ttmAll T dt`: entry `i` is `(T-1-i)·dt` and the last entry is exactly 0
  (`C13.ttm_formula`, `C13.ttm_last_zero`). -/
theorem ttm_after_derivSim {s : GSys Rat} (hr : Reachable nExact s) {k np p : Nat} {d : GDeriv Rat}
    {t : List (String × Nat)} {dt : Rat} (hd : s.ders[k]? = some d) (hreg : d.reg = ("underlier", p) :: t)
    (hsh : d.shadow = []) (hm : d.mixin = true) (hdt : s.dts[p]? = some dt) (hM : 0 ≤ d.maturity) (hdt0 : 0 < dt) :
    (d.attr "underlier" = .ok p ∧ d.ul 0 = .ok p ∧ d.getUnderlier "underlier" = .ok p) ∧
    ((nExact d.maturity dt : Nat) : Int) = nStepsExact d.maturity dt ∧ 1 ≤ nExact d.maturity dt ∧
    (∃ dty, ((GOp.derivSim k np).step nExact s).1.ttm k = .ok (dty, (np, nExact d.maturity dt))) ∧
    ((GOp.derivSim k np).step nExact s).1.ttmValues k = .ok (ttmAll (nExact d.maturity dt) dt) ∧
    (∀ i (hi : i < nExact d.maturity dt),
      (((ttmAll (nExact d.maturity dt) dt)[i]'(by simp [ttmAll, hi]) : Rat) : ℝ) =
        ((nExact d.maturity dt - 1 - i : ℕ) : ℝ) * (dt : ℝ)) ∧
    (ttmAll (nExact d.maturity dt) dt)[nExact d.maturity dt - 1]? = some 0 := by
  have hacc := accessors_one_primary hreg hsh
  have hspec := nExact_spec hM hdt0
  rcases derivSim_every_underlier_on_its_grid hr (np := np) hd with ⟨_, hders, hdts, hall⟩
  rcases hall ("underlier", p) (by rw [hreg]; exact List.mem_cons_self) with ⟨q, dt', hq, hdt', hex, hsh', _⟩
  rw [hdt] at hdt'
  simp only [Option.some.injEq] at hdt'
  subst hdt'
  rcases hex "spot" (spot_simulated _) with ⟨y, hy⟩
  have hy2 := hsh' _ y hy
  have hd' : ((GOp.derivSim k np).step nExact s).1.ders[k]? = some d := by rw [hders]; exact hd
  have hT0 : y.2.2 ≠ 0 := by rw [hy2]; simp only; omega
  have httm := ttm_ok hd' hm hacc.1 hq hy hT0
  have hdts' : ((GOp.derivSim k np).step nExact s).1.dts[p]? = some dt := by rw [hdts]; exact hdt
  have hval := ttmValues_ok hd' hacc.1 hdts' httm
  rw [hy2] at hval
  refine ⟨hacc, hspec.1, hspec.2, ⟨_, by rw [httm, hy2]⟩, hval, ?_, ?_⟩
  · intro i hi
    have h1 := C13.ttm_formula (nExact d.maturity dt) (dt : ℝ) i hi
    have h2 := ttmAll_cast (nExact d.maturity dt) dt
    have hlen : i < (List.map (Rat.cast : ℚ → ℝ) (ttmAll (nExact d.maturity dt) dt)).length := by
      simp [ttmAll, hi]
    have h3 : (List.map (Rat.cast : ℚ → ℝ) (ttmAll (nExact d.maturity dt) dt))[i]'hlen =
        (ttmAll (nExact d.maturity dt) (dt : ℝ))[i]'(by simp [ttmAll, hi]) := by
      simp only [h2]
    rw [List.getElem_map] at h3
    rw [h3, h1]
  · have hlt : nExact d.maturity dt - 1 < nExact d.maturity dt := by omega
    have hlen : nExact d.maturity dt - 1 < (ttmAll (nExact d.maturity dt) dt).length := by simp [ttmAll, hlt]
    rw [List.getElem?_eq_getElem hlen]
    simp [ttmAll]

/-! ## underliers with different step sizes: different grids, and what the code raises -/

/-- each tensor a user payoff reads is on the grid of ITS underlier: after `d.simulate(n_paths)` the
`j`-th input has shape `(n_paths, N maturity dt_j)`, `dt_j` the step of the underlier registered under
the `j`-th name -/
theorem payoff_inputs_each_on_its_own_grid {N : α → α → Nat} {s : GSys α} (hr : Reachable N s) {k np : Nat}
    {d : GDeriv α} (hd : s.ders[k]? = some d) {n : String} {ns : List String} (hpay : d.pay = .named n ns)
    {l : List (DType × Shape)} (hl : ((GOp.derivSim k np).step N s).1.payoffInputs k = .ok l) :
    l.length = (n :: ns).length ∧
    ∀ (j : Nat) (name : String) (y : DType × Shape), (n :: ns)[j]? = some name → l[j]? = some y →
      ∃ p dt, d.getUnderlier name = .ok p ∧ s.dts[p]? = some dt ∧ y.2 = (np, N d.maturity dt) := by
  rcases derivSim_every_underlier_on_its_grid hr (np := np) hd with ⟨_, hders, _, hall⟩
  unfold GSys.payoffInputs at hl
  rw [hders, hd] at hl
  simp only [hpay] at hl
  refine ⟨mapE_ok_length hl, ?_⟩
  intro j name y hname hy
  rcases mapE_ok_getElem hl j y hy with ⟨nm, hnm, hf⟩
  rw [hname] at hnm
  simp only [Option.some.injEq] at hnm
  subst hnm
  cases hgu : d.getUnderlier name with
  | error e => rw [hgu] at hf; cases hf
  | ok p =>
    rw [hgu] at hf
    simp only at hf
    have hmem : (name, p) ∈ d.reg := by
      unfold GDeriv.getUnderlier at hgu
      cases hdg : dictGet d.reg name with
      | none => rw [hdg] at hgu; cases hgu
      | some p' =>
        rw [hdg] at hgu
        simp only [Except.ok.injEq] at hgu
        subst hgu
        exact dictGet_mem hdg
    rcases hall (name, p) hmem with ⟨q, dt, hq, hdt, _, hsh, _⟩
    rcases spotOf_ok hf with ⟨q', hq', hb⟩
    rw [hq] at hq'
    simp only [Option.some.injEq] at hq'
    subst hq'
    exact ⟨p, dt, rfl, hdt, hsh _ y hb⟩

private theorem checkHedges_all_equal (s : GSys α) (sh : Shape) :
    ∀ xs : List (String × Nat), (∀ x ∈ xs, ∃ y, s.proj.hedgeSpot (.prim x.2) = .ok y ∧ y.2 = sh) →
      s.proj.checkHedges sh (xs.map (fun x => HRef.prim x.2)) = .ok ()
  | [], _ => rfl
  | x :: xs, h => by
    rcases h x List.mem_cons_self with ⟨y, hy, hysh⟩
    simp only [List.map_cons, Sys.checkHedges, hy, hysh, if_true]
    exact checkHedges_all_equal s sh xs (fun x' hx' => h x' (List.mem_cons_of_mem _ hx'))

private theorem checkHedges_differ (s : GSys α) (sh : Shape) :
    ∀ xs : List (String × Nat), (∀ x ∈ xs, ∃ y, s.proj.hedgeSpot (.prim x.2) = .ok y) →
      (∃ x ∈ xs, ∀ y, s.proj.hedgeSpot (.prim x.2) = .ok y → y.2 ≠ sh) →
      s.proj.checkHedges sh (xs.map (fun x => HRef.prim x.2)) = .error .valueError
  | [], _, hd => by rcases hd with ⟨x, hx, _⟩; cases hx
  | x :: xs, h, hd => by
    rcases h x List.mem_cons_self with ⟨y, hy⟩
    simp only [List.map_cons, Sys.checkHedges, hy]
    by_cases hysh : y.2 = sh
    · rw [if_pos hysh]
      apply checkHedges_differ s sh xs (fun x' hx' => h x' (List.mem_cons_of_mem _ hx'))
      rcases hd with ⟨x', hx', hne⟩
      rcases List.mem_cons.1 hx' with rfl | hx'
      · exact absurd hysh (hne y hy)
      · exact ⟨x', hx', hne⟩
    · rw [if_neg hysh]

/-- `compute_hedge` on the default hedge when the spots of the underliers do not all have the size
of the first one: ValueError ("The spot prices of the hedges must have the same size"), whatever
the features -/
theorem hedge_sizes_differ_valueError {s : GSys α} {k : Nat} {d : GDeriv α} (hd : s.ders[k]? = some d)
    {x0 : String × Nat} {xs : List (String × Nat)} (hreg : d.reg = x0 :: xs) {y0 : DType × Shape}
    (h0 : s.proj.hedgeSpot (.prim x0.2) = .ok y0)
    (hall : ∀ x ∈ xs, ∃ y, s.proj.hedgeSpot (.prim x.2) = .ok y)
    (hdiff : ∃ x ∈ xs, ∀ y, s.proj.hedgeSpot (.prim x.2) = .ok y → y.2 ≠ y0.2)
    (m : ModelKind) (fs : List Feat) : s.computeHedge k ⟨m, fs, none⟩ = .error .valueError := by
  have hc : s.proj.checkHedges y0.2 ((x0 :: xs).map (fun x => HRef.prim x.2)) = .error .valueError := by
    simp only [List.map_cons, Sys.checkHedges, h0, if_true]
    exact checkHedges_differ s y0.2 xs hall hdiff
  unfold GSys.computeHedge GSys.hedgePre
  simp only [GSys.hedgeRefs, hd, hreg, List.map_cons, h0]
  simp only [List.map_cons] at hc
  rw [hc]

/-- after `d.simulate(n_paths)` on a derivative with two underliers whose step counts differ, the
default hedge raises that ValueError -/
theorem derivSim_different_grids_hedge_valueError {N : α → α → Nat} {s : GSys α} (hr : Reachable N s)
    {k np : Nat} {d : GDeriv α} (hd : s.ders[k]? = some d) {x0 : String × Nat} {xs : List (String × Nat)}
    (hreg : d.reg = x0 :: xs) {dt0 : α} (hdt0 : s.dts[x0.2]? = some dt0)
    (hdiff : ∃ x ∈ xs, ∀ dt, s.dts[x.2]? = some dt → N d.maturity dt ≠ N d.maturity dt0)
    (m : ModelKind) (fs : List Feat) :
    ((GOp.derivSim k np).step N s).1.computeHedge k ⟨m, fs, none⟩ = .error .valueError := by
  rcases derivSim_every_underlier_on_its_grid hr (np := np) hd with ⟨_, hders, _, hall⟩
  have hspot : ∀ x ∈ d.reg, ∃ y dt, ((GOp.derivSim k np).step N s).1.proj.hedgeSpot (.prim x.2) = .ok y ∧
      s.dts[x.2]? = some dt ∧ y.2 = (np, N d.maturity dt) := by
    intro x hx
    rcases hall x hx with ⟨q, dt, hq, hdt, hex, hsh, _⟩
    rcases hex "spot" (spot_simulated _) with ⟨y, hy⟩
    exact ⟨y, dt, by rw [hedgeSpot_prim, hq]; exact hy, hdt, hsh _ y hy⟩
  rcases hspot x0 (by rw [hreg]; exact List.mem_cons_self) with ⟨y0, dt0', hy0, hdt0', hy0sh⟩
  rw [hdt0] at hdt0'
  simp only [Option.some.injEq] at hdt0'
  subst hdt0'
  apply hedge_sizes_differ_valueError (by rw [hders]; exact hd) hreg hy0
  · intro x hx
    rcases hspot x (by rw [hreg]; exact List.mem_cons_of_mem _ hx) with ⟨y, _, hy, _, _⟩
    exact ⟨y, hy⟩
  · rcases hdiff with ⟨x, hx, hne⟩
    refine ⟨x, hx, ?_⟩
    intro y hy
    rcases hspot x (by rw [hreg]; exact List.mem_cons_of_mem _ hx) with ⟨y', dt, hy', hdt, hysh⟩
    rw [hy] at hy'
    simp only [Except.ok.injEq] at hy'
    subst hy'
    rw [hysh, hy0sh]
    intro heq
    simp only [Prod.mk.injEq, true_and] at heq
    exact hne dt hdt heq

/-- `FeatureList.get(None)` of two features that are not on one grid: RuntimeError (`torch.cat`) -/
theorem features_off_grid_runtimeError {s : GSys α} {k : Nat} {f1 f2 : Feat} {x1 x2 : DType × Shape}
    (h1 : s.featSrc k f1 = .ok x1) (h2 : s.featSrc k f2 = .ok x2) (hne : x2.2 ≠ x1.2) :
    s.features k [f1, f2] = .error .runtimeError := by
  unfold GSys.features
  simp only [mapE, h1, h2, List.any_cons, List.any_nil, Bool.or_false]
  have : (x2.2 != x1.2) = true := by simpa using hne
  rw [if_pos this]

/-- ... and the hedge on such features raises the same error (hedging instruments of one size) -/
theorem hedge_off_grid_runtimeError {s : GSys α} {k : Nat} {f1 f2 : Feat} {x1 x2 : DType × Shape}
    (h1 : s.featSrc k f1 = .ok x1) (h2 : s.featSrc k f2 = .ok x2) (hne : x2.2 ≠ x1.2)
    (hp1 : f1 ≠ .prevHedge) (hp2 : f2 ≠ .prevHedge)
    {hedge : Option (List HRef)} {r0 : HRef} {rs : List HRef} (hrefs : s.hedgeRefs k hedge = .ok (r0 :: rs))
    {h0 : DType × Shape} (hh0 : s.proj.hedgeSpot r0 = .ok h0) (hc : s.proj.checkHedges h0.2 (r0 :: rs) = .ok ())
    (m : ModelKind) : s.computeHedge k ⟨m, [f1, f2], hedge⟩ = .error .runtimeError := by
  have hcont : ([f1, f2].contains Feat.prevHedge) = false := by
    simp only [List.contains_cons, List.contains_nil, Bool.or_false, Bool.or_eq_false_iff, beq_eq_false_iff_ne]
    exact ⟨fun h => hp1 h.symm, fun h => hp2 h.symm⟩
  unfold GSys.computeHedge GSys.hedgePre
  simp only [hrefs, hh0, hc, hcont, mapE, h1, h2, List.any_cons, List.any_nil, Bool.or_false]
  have : (x2.2 != x1.2) = true := by simpa using hne
  simp [this]

/-- where that happens in the REPAIRED code: `OptionMixin` reads the attribute NAMED `underlier`,
the other features read `ul()` = the first registry entry.  For a derivative registered as
(`first`, `underlier`) these are two primaries -/
theorem mixin_reads_the_name_underlier {d : GDeriv α} {a b : Nat} {t : List (String × Nat)}
    (hreg : d.reg = ("first", a) :: ("underlier", b) :: t) (hsh : d.shadow = []) (hm : d.mixin = true) :
    d.featPrim .timeToMaturity = .ok b ∧ d.featPrim .moneyness = .ok b ∧
    d.featPrim .underlierSpot = .ok a ∧ d.featPrim .volatility = .ok a ∧ d.ul 0 = .ok a := by
  have hattr : d.attr "underlier" = .ok b := by
    rw [attr_is_registry_entry hsh]
    unfold GDeriv.getUnderlier dictGet
    rw [hreg]
    simp
  have hul : d.ul 0 = .ok a := by unfold GDeriv.ul; rw [hreg]; rfl
  refine ⟨?_, ?_, ?_, ?_, hul⟩
  · simp only [GDeriv.featPrim, viaMixin, hm, if_true]; exact hattr
  · simp only [GDeriv.featPrim, viaMixin, hm, if_true]; exact hattr
  · simp only [GDeriv.featPrim, viaMixin]; exact hul
  · simp only [GDeriv.featPrim, viaMixin]; exact hul

/-! ## staleness: what is NOT re-simulated -/

/-- `d.simulate` touches the registered underliers only: every other primary keeps its buffers and
the record of its last simulate -/
theorem derivSim_leaves_unregistered_untouched {N : α → α → Nat} {s : GSys α} (hr : Reachable N s) {k np : Nat}
    {d : GDeriv α} (hd : s.ders[k]? = some d) {p : Nat} (hp : ∀ x ∈ d.reg, x.2 ≠ p) :
    ((GOp.derivSim k np).step N s).1.prims[p]? = s.prims[p]? ∧
    ((GOp.derivSim k np).step N s).1.last[p]? = s.last[p]? := by
  have hi := reachable_inv hr
  have hstep : (GOp.derivSim k np).step N s = GSys.simEach N np d.maturity (some k) s (d.reg.map (·.2)) := by
    simp only [GOp.step, hd]
  rw [hstep]
  have hv : ∀ p ∈ d.reg.map (·.2), p < s.prims.length := by
    intro p hp
    rcases List.mem_map.1 hp with ⟨x, hx, rfl⟩
    exact hi.regValid k d hd x hx
  have hnm : p ∉ d.reg.map (·.2) := by
    intro hm
    rcases List.mem_map.1 hm with ⟨x, hx, hxp⟩
    exact hp x hx hxp
  exact (simEach_spec (N := N) (np := np) (h := d.maturity) (via := some k) _ s hi hv).2.2.2.2.2.2 p hnm

/-- commands on the registry or the maturity do not touch any primary: nothing is re-simulated
until the next `simulate` -/
theorem registry_commands_simulate_nothing {N : α → α → Nat} (s : GSys α) (o : GOp α)
    (ho : match o with | .derivSim _ _ => False | .primSim _ _ _ => False | _ => True) :
    (o.step N s).1.prims = s.prims ∧ (o.step N s).1.last = s.last ∧ (o.step N s).1.dts = s.dts := by
  cases o with
  | setMaturity k m => exact ⟨(updDer_frame s k _).1, (updDer_frame s k _).2.2.1, (updDer_frame s k _).2.1⟩
  | assign k n p =>
    simp only [GOp.step]
    split
    · exact ⟨(updDer_frame s k _).1, (updDer_frame s k _).2.2.1, (updDer_frame s k _).2.1⟩
    · exact ⟨rfl, rfl, rfl⟩
  | assignOld k n p =>
    simp only [GOp.step]
    split
    · exact ⟨(updDer_frame s k _).1, (updDer_frame s k _).2.2.1, (updDer_frame s k _).2.1⟩
    · exact ⟨rfl, rfl, rfl⟩
  | register k n p =>
    simp only [GOp.step]
    split
    · exact ⟨(updDer_frame s k _).1, (updDer_frame s k _).2.2.1, (updDer_frame s k _).2.1⟩
    · exact ⟨rfl, rfl, rfl⟩
  | derivSim k np => exact absurd ho id
  | primSim p np h => exact absurd ho id

/-- a primary that was replaced in the registry keeps its OLD buffers: replace (by assignment or
registration), simulate the derivative again - a primary that is no longer registered is exactly as
before, on the grid of the maturity and route of ITS last simulate -/
theorem replaced_underlier_keeps_its_paths {N : α → α → Nat} {s : GSys α} (hr : Reachable N s)
    {k np : Nat} {name : String} {pnew p : Nat} (o : GOp α)
    (ho : o = .assign k name pnew ∨ o = .register k name pnew ∨ o = .assignOld k name pnew)
    {d1 : GDeriv α} (hd1 : (o.step N s).1.ders[k]? = some d1) (hp : ∀ x ∈ d1.reg, x.2 ≠ p) :
    ((GOp.derivSim k np).step N (o.step N s).1).1.prims[p]? = s.prims[p]? ∧
    ((GOp.derivSim k np).step N (o.step N s).1).1.last[p]? = s.last[p]? := by
  have hfr := registry_commands_simulate_nothing (N := N) s o (by
    rcases ho with rfl | rfl | rfl <;> trivial)
  have := derivSim_leaves_unregistered_untouched (reachable_step hr o) (np := np) hd1 hp
  rw [this.1, this.2, hfr.1, hfr.2.1]
  exact ⟨rfl, rfl⟩

/-! ## the repaired defect: an instance attribute that hides the registry -/

private theorem dictGet_dictDel_self {β : Type} (m : List (String × β)) (k : String) : dictGet (dictDel m k) k = none := by
  unfold dictGet dictDel
  have : (m.filter (fun p => !(p.1 == k))).find? (fun p => p.1 == k) = none := by
    apply List.find?_eq_none.2
    intro x hx
    have := (List.mem_filter.1 hx).2
    simpa using this
  rw [this]; rfl

private theorem step_registry_der {N : α → α → Nat} {s : GSys α} {k : Nat} {d : GDeriv α} (hd : s.ders[k]? = some d)
    {n : String} {a : Nat} (ha : a < s.prims.length) (o : GOp α)
    (ho : o = .assign k n a ∨ o = .register k n a ∨ o = .assignOld k n a) :
    (o.step N s).1.ders[k]? = some (derFn o d) ∧ (o.step N s).1.prims = s.prims := by
  have key : (o.step N s).1 = (s.updDer k (derFn o)).1 := by
    rcases ho with rfl | rfl | rfl <;> simp only [GOp.step, ha, if_true] <;> rfl
  rw [key, updDer_ders, if_pos rfl, hd]
  exact ⟨rfl, (updDer_frame s k _).1⟩

/-- PRE-fix: `setattr(d, n, A)` followed by `d.register_underlier(n, B)` leaves `d.<n>` returning `A`
while the registry (hence `simulate`, `ul()`, the payoff) uses `B` -/
theorem assignOld_then_register_diverge {N : α → α → Nat} {s : GSys α} {k : Nat} {d : GDeriv α}
    (hd : s.ders[k]? = some d) {n : String} {a b : Nat} (ha : a < s.prims.length) (hb : b < s.prims.length) :
    ∃ d2, (GSys.run N s [.assignOld k n a, .register k n b]).ders[k]? = some d2 ∧
      d2.attr n = .ok a ∧ d2.getUnderlier n = .ok b ∧ (∀ x ∈ d2.reg, x.1 = n → x.2 = b) := by
  rcases step_registry_der (N := N) hd ha (.assignOld k n a) (Or.inr (Or.inr rfl)) with ⟨hd1, hp1⟩
  have hb1 : b < ((GOp.assignOld k n a).step N s).1.prims.length := by rw [hp1]; exact hb
  rcases step_registry_der (N := N) hd1 hb1 (.register k n b) (Or.inr (Or.inl rfl)) with ⟨hd2, _⟩
  refine ⟨_, hd2, ?_, ?_, ?_⟩
  · simp only [derFn, GDeriv.attr, dictGet_dictSet_self]
  · simp only [derFn, GDeriv.getUnderlier, dictGet_dictSet_self]
  · intro x hx hxn
    simp only [derFn] at hx
    rcases mem_dictSet hx with ⟨_, hne⟩ | rfl
    · exact absurd hxn hne
    · rfl

/-- REPAIRED: after `setattr(d, n, A)` the attribute `d.<n>` is the registry entry `A` - and any
older copy among the instance attributes is gone -/
theorem assign_never_shadows {N : α → α → Nat} {s : GSys α} {k : Nat} {d : GDeriv α}
    (hd : s.ders[k]? = some d) {n : String} {a : Nat} (ha : a < s.prims.length) :
    ∃ d1, ((GOp.assign k n a).step N s).1.ders[k]? = some d1 ∧
      d1.attr n = .ok a ∧ d1.getUnderlier n = .ok a ∧ dictGet d1.shadow n = none := by
  rcases step_registry_der (N := N) hd ha (.assign k n a) (Or.inl rfl) with ⟨hd1, _⟩
  refine ⟨_, hd1, ?_, ?_, ?_⟩
  · simp only [derFn, GDeriv.attr, dictGet_dictDel_self, GDeriv.getUnderlier, dictGet_dictSet_self]
  · simp only [derFn, GDeriv.getUnderlier, dictGet_dictSet_self]
  · exact dictGet_dictDel_self _ _

/-- REPAIRED, over histories: whatever assignments, registrations, maturity changes and simulations
were performed, for every derivative and EVERY name the attribute is the registry entry; for a
derivative constructed with first name `underlier` (every built-in option) `d.underlier`, `ul()` and
the registry entry are one primary.  The state of the defect (`d.underlier ≠ ul()`) is unreachable. -/
theorem repaired_accessors_agree {N : α → α → Nat} {amb : DType} {prims : List ((PrimKind × Option DType) × α)}
    {ders : List (DerivSpec α)} {s0 : GSys α} (h0 : GSys.init amb prims ders = .ok s0) (cs : List (GOp α))
    (hrep : ∀ o ∈ cs, Repaired o) {k : Nat} {d : GDeriv α} (hd : (GSys.run N s0 cs).ders[k]? = some d) :
    (∀ name, d.attr name = d.getUnderlier name) ∧
    (∀ sp p rest, ders[k]? = some sp → sp.regs = ("underlier", p) :: rest →
      ∃ p', d.attr "underlier" = .ok p' ∧ d.ul 0 = .ok p' ∧ d.getUnderlier "underlier" = .ok p') := by
  have hsh := no_shadow_after_history h0 cs hrep hd
  refine ⟨attr_is_registry_entry hsh, ?_⟩
  intro sp p rest hsp hregs
  rcases first_name_after_history (N := N) h0 cs hsp hregs with ⟨d', p', t, hd', hreg⟩
  rw [hd] at hd'
  simp only [Option.some.injEq] at hd'
  subst hd'
  exact ⟨p', accessors_one_primary hreg hsh⟩

/-! ## re-simulation through another owner -/

/-- after ANY history the grid a derivative sees (time to maturity, any feature) is that of the LAST
simulate of the primary the accessor returns: `N h dt` time points, `h` the horizon of that call -
through this derivative, through another owner of the primary, or directly.  It is the derivative's
own `N maturity dt` iff that horizon gives the same count. -/
theorem seen_grid_is_last_simulation {N : α → α → Nat} {s : GSys α} (hr : Reachable N s) {k : Nat} {f : Feat}
    {y : DType × Shape} (hy : s.featSrc k f = .ok y) :
    ∃ d i dt h via, s.ders[k]? = some d ∧ d.featPrim f = .ok i ∧ s.dts[i]? = some dt ∧
      s.last[i]? = some (some (h, via)) ∧ y.2.2 = N h dt ∧
      (y.2.2 = N d.maturity dt ↔ N h dt = N d.maturity dt) := by
  rcases featSrc_reads hy with ⟨d, i, q, hd, hfp, hq, himp⟩
  have hi := reachable_inv hr
  have hlt : i < s.prims.length := (List.getElem?_eq_some_iff.1 hq).1
  have hlt2 : i < s.dts.length := by rw [hi.lenDt]; exact hlt
  have hdt : s.dts[i]? = some s.dts[i] := List.getElem?_eq_getElem hlt2
  rcases last_defined hr hq with ⟨l, hl⟩
  have hg := grid_of_last hi hq hdt
  cases l with
  | none =>
    have hnone := hg.2 hl
    have h1 := himp (0, 0) (fun b y' hy' => by rw [hnone b] at hy'; cases hy')
    have h2 := himp (1, 1) (fun b y' hy' => by rw [hnone b] at hy'; cases hy')
    rw [h1] at h2
    cases h2
  | some hv =>
    rcases hv with ⟨h, via⟩
    rcases hg.1 h via hl with ⟨np, _, _, hall, _⟩
    have := himp _ hall
    refine ⟨d, i, _, h, via, hd, hfp, hdt, hl, by rw [this], by rw [this]⟩

/-- re-simulation through ANOTHER owner changes the grid seen by the first derivative: when
derivative `k2` (maturity `M2`) is simulated and one of its underliers is the primary a feature of
derivative `k1` reads, that feature of `k1` now has `N M2 dt` time points - `k1`'s own count only if
`N M2 dt = N M1 dt` -/
theorem other_owner_changes_the_grid {N : α → α → Nat} {s : GSys α} (hr : Reachable N s) {k1 k2 np : Nat}
    {d1 d2 : GDeriv α} (hd1 : s.ders[k1]? = some d1) (hd2 : s.ders[k2]? = some d2) {x : String × Nat}
    (hx : x ∈ d2.reg) {f : Feat} (hf : d1.featPrim f = .ok x.2) {y : DType × Shape}
    (hy : ((GOp.derivSim k2 np).step N s).1.featSrc k1 f = .ok y) :
    ∃ dt, s.dts[x.2]? = some dt ∧ y.2 = (np, N d2.maturity dt) ∧
      (y.2.2 = N d1.maturity dt ↔ N d2.maturity dt = N d1.maturity dt) := by
  rcases derivSim_every_underlier_on_its_grid hr (np := np) hd2 with ⟨_, hders, _, hall⟩
  rcases hall x hx with ⟨q, dt, hq, hdt, _, hsh, _⟩
  rcases featSrc_reads hy with ⟨d, i, q', hd, hfp, hq', himp⟩
  rw [hders, hd1] at hd
  simp only [Option.some.injEq] at hd
  subst hd
  rw [hf] at hfp
  simp only [Except.ok.injEq] at hfp
  subst hfp
  rw [hq] at hq'
  simp only [Option.some.injEq] at hq'
  subst hq'
  have := himp _ hsh
  exact ⟨dt, hdt, this, by rw [this]⟩

/-! ## refinement: the projection on Model/InstrSys.lean -/

/-- `primary.simulate(n_paths, time_horizon)` IS `SOp.primSimulate` of InstrSys with
`n_steps = N time_horizon dt` on the projection -/
theorem primSim_refines {N : α → α → Nat} {s : GSys α} {p np : Nat} {h dt : α} (hdt : s.dts[p]? = some dt) :
    match (GOp.primSim p np h).step N s with
    | (s', none) => (SOp.primSimulate p np (N h dt)).step s.proj = .ok s'.proj
    | (s', some e) => (SOp.primSimulate p np (N h dt)).step s.proj = .error e ∧ s' = s := by
  simp only [GOp.step]
  cases hs : s.simPrim N p np h none with
  | ok s' =>
    simp only
    rcases simPrim_ok hs with ⟨dt', _, _, hdt', _, _, hproj, _⟩
    rw [hdt] at hdt'
    simp only [Option.some.injEq] at hdt'
    subst hdt'
    exact hproj
  | error e =>
    simp only
    refine ⟨?_, by trivial⟩
    unfold GSys.simPrim at hs
    rw [hdt] at hs
    simp only at hs
    cases hb : (SOp.primSimulate p np (N h dt)).step s.proj with
    | error e' => rw [hb] at hs; simp only [Except.error.injEq] at hs; rw [hs]
    | ok b => rw [hb] at hs; cases hs

/-- `d.simulate(n_paths)` of a derivative with ONE underlier (the domain of InstrSys) IS
`SOp.derivSimulate` of InstrSys with `n_steps = N maturity dt` - the formula C13 owns - on the
projection -/
theorem derivSim_refines {N : α → α → Nat} {s : GSys α} {k np p : Nat} {d : GDeriv α} {n : String} {dt : α}
    (hd : s.ders[k]? = some d) (hreg : d.reg = [(n, p)]) (hdt : s.dts[p]? = some dt) :
    match (GOp.derivSim k np).step N s with
    | (s', none) => (SOp.derivSimulate k np (N d.maturity dt)).step s.proj = .ok s'.proj
    | (s', some e) => (SOp.derivSimulate k np (N d.maturity dt)).step s.proj = .error e ∧ s' = s := by
  have hpk : s.proj.derivs[k]? = some d.proj := by
    simp only [GSys.proj, List.getElem?_map, hd, Option.map_some]
  have hul : d.proj.ul = p := by simp only [GDeriv.proj, hreg]
  rw [C17System.derivSimulate_is_primSimulate hpk, hul]
  simp only [GOp.step, hd, hreg, List.map_cons, List.map_nil, GSys.simEach]
  cases hs : s.simPrim N p np d.maturity (some k) with
  | ok s' =>
    simp only
    rcases simPrim_ok hs with ⟨dt', _, _, hdt', _, _, hproj, _⟩
    rw [hdt] at hdt'
    simp only [Option.some.injEq] at hdt'
    subst hdt'
    exact hproj
  | error e =>
    simp only
    refine ⟨?_, by trivial⟩
    unfold GSys.simPrim at hs
    rw [hdt] at hs
    simp only at hs
    cases hb : (SOp.primSimulate p np (N d.maturity dt)).step s.proj with
    | error e' => rw [hb] at hs; simp only [Except.error.injEq] at hs; rw [hs]
    | ok b => rw [hb] at hs; cases hs

/-- the InstrSys commands `d.simulate(n_paths)` amounts to for ANY registry: one
`primSimulate p n_paths (N maturity dt_p)` per registered underlier, in registry order -/
def simCmds (N : α → α → Nat) (s : GSys α) (np : Nat) (h : α) (l : List Nat) : List Cmd :=
  l.filterMap (fun p => (s.dts[p]?).map (fun dt => Cmd.op (.primSimulate p np (N h dt))))

theorem simEach_refines {N : α → α → Nat} {np : Nat} {h : α} {via : Option Nat} :
    ∀ (l : List Nat) (s : GSys α), (GSys.simEach N np h via s l).2 = none →
      (GSys.simEach N np h via s l).1.proj = runCmds s.proj (simCmds N s np h l)
  | [], _, _ => rfl
  | p :: ps, s, hnone => by
    unfold GSys.simEach at hnone ⊢
    cases hs : s.simPrim N p np h via with
    | error e => rw [hs] at hnone; cases hnone
    | ok s' =>
      rw [hs] at hnone
      simp only at hnone ⊢
      rcases simPrim_ok hs with ⟨dt, _, _, hdt, _, _, hproj, hs'⟩
      have hdts : s'.dts = s.dts := by rw [hs']
      have ih := simEach_refines ps s' hnone
      rw [ih]
      have hc : simCmds N s np h (p :: ps) = Cmd.op (.primSimulate p np (N h dt)) :: simCmds N s' np h ps := by
        simp only [simCmds, List.filterMap_cons, hdt, Option.map_some, hdts]
      rw [hc]
      simp only [runCmds, Cmd.exec, hproj]

/-- `d.simulate(n_paths)` of a derivative with any number of underliers, projected on InstrSys -/
theorem derivSim_refines_multi {N : α → α → Nat} {s : GSys α} (hr : Reachable N s) {k np : Nat} {d : GDeriv α}
    (hd : s.ders[k]? = some d) :
    ((GOp.derivSim k np).step N s).1.proj = runCmds s.proj (simCmds N s np d.maturity (d.reg.map (·.2))) := by
  have hnone := (derivSim_every_underlier_on_its_grid hr (np := np) hd).1
  have hstep : (GOp.derivSim k np).step N s = GSys.simEach N np d.maturity (some k) s (d.reg.map (·.2)) := by
    simp only [GOp.step, hd]
  rw [hstep] at hnone ⊢
  exact simEach_refines _ s hnone

private theorem featSrc_congr {s1 s2 : Sys} {k1 k2 : Nat} {dv : Deriv} {q : Prim} (h1 : s1.ul k1 = .ok (dv, q))
    (h2 : s2.ul k2 = .ok (dv, q)) (ha : s1.ambient = s2.ambient) (f : Feat) :
    s1.featSrc k1 f = s2.featSrc k2 f := by
  unfold Sys.featSrc Sys.listed
  rw [h1, h2, ha]

/-- the queries refine those of InstrSys: for a one-underlier derivative of the repaired code whose
registered name is `underlier` (what InstrSys models) every feature of the model is the feature of
InstrSys on the projection -/
theorem featSrc_refines {s : GSys α} {k p : Nat} {d : GDeriv α} {t : List (String × Nat)} {q : Prim}
    (hd : s.ders[k]? = some d) (hreg : d.reg = ("underlier", p) :: t) (hsh : d.shadow = [])
    (hm : d.mixin = true) (hq : s.prims[p]? = some q) (f : Feat) :
    s.featSrc k f = s.proj.featSrc k f := by
  have hacc := accessors_one_primary hreg hsh
  have hpk : s.proj.derivs[k]? = some d.proj := by
    simp only [GSys.proj, List.getElem?_map, hd, Option.map_some]
  have hproj : d.proj = ⟨p, d.pk, d.pricer⟩ := by simp only [GDeriv.proj, hreg]
  have hul : s.proj.ul k = .ok (⟨p, d.pk, d.pricer⟩, q) := by
    have hq' : s.proj.prims[p]? = some q := hq
    simp only [Sys.ul, hpk, hproj, hq']
  have hfp : ∀ f, d.featPrim f = .ok p := by
    intro f
    by_cases hv : viaMixin f = true
    · simp only [GDeriv.featPrim, hv, hm, if_true]; exact hacc.1
    · simp only [GDeriv.featPrim, hv]; exact hacc.2.1
  unfold GSys.featSrc
  rw [hd]
  simp only
  split
  · unfold Sys.featSrc
    rw [hul]
    rfl
  · rename_i f' hf'
    split
    · rename_i hl
      rw [hl.1]
      unfold Sys.featSrc Sys.listed
      rw [hul]
      simp only [Feat.cls, hl.2]
    · rw [hfp]
      simp only
      exact featSrc_congr (view_ul_ok hq) hul rfl _

/-- ... and so is the hedge (any model, any features incl. `prev_hedge`, any hedging instruments):
`compute_hedge` of the model is `Sys.computeHedge` of InstrSys on the projection -/
theorem computeHedge_refines {s : GSys α} {k p : Nat} {d : GDeriv α} {q : Prim}
    (hd : s.ders[k]? = some d) (hreg : d.reg = [("underlier", p)]) (hsh : d.shadow = [])
    (hm : d.mixin = true) (hq : s.prims[p]? = some q) (cfg : HedgeCfg) :
    s.computeHedge k cfg = s.proj.computeHedge k cfg := by
  have hfs : s.featSrc k = s.proj.featSrc k := funext (featSrc_refines hd hreg hsh hm hq)
  have hst : ∀ h0, s.featStep k h0 = s.proj.featStep k h0 := by
    intro h0
    funext f
    unfold GSys.featStep Sys.featStep
    rw [hfs]
    cases f <;> rfl
  have hpk : s.proj.derivs[k]? = some d.proj := by
    simp only [GSys.proj, List.getElem?_map, hd, Option.map_some]
  have hrefs : s.hedgeRefs k cfg.hedge = s.proj.hedgeRefs k cfg.hedge := by
    unfold GSys.hedgeRefs Sys.hedgeRefs
    cases cfg.hedge with
    | some l => rfl
    | none => simp only [hd, Sys.ulOf, hpk, GDeriv.proj, hreg, List.map_cons, List.map_nil]
  unfold GSys.computeHedge Sys.computeHedge GSys.hedgePre Sys.hedgePre
  rw [hrefs, hfs]
  simp only [hst]
  rfl

/-! ## non-vacuity and the repaired defect, on concrete systems (exact rationals, `nExact`) -/

/-- `HestonStock(dt=1/12)`, `BrownianStock(dt=1/10)` under float32, `EuropeanOption(heston, maturity=1)` -/
def demoInit : Except QErr (GSys Rat) :=
  GSys.init .f32 [((.stochVar, none), 1 / 12), ((.flat, none), 1 / 10)]
    [⟨1, [("underlier", 0)], true, .ul0, .arith, none⟩]

def demo : GSys Rat :=
  { prims := [{ kind := .stochVar, st := { declared := none, buffers := [], ambient := .f32 }, info := [], lastSim := none },
              { kind := .flat, st := { declared := none, buffers := [], ambient := .f32 }, info := [], lastSim := none }],
    dts := [1 / 12, 1 / 10], last := [none, none],
    ders := [{ maturity := 1, reg := [("underlier", 0)], shadow := [], mixin := true, pay := .ul0, pk := .arith, pricer := none }],
    ambient := .f32, clock := 0 }

example : demoInit = .ok demo := by decide +kernel

theorem demo_reachable : Reachable nExact demo := reachable_init (show demoInit = .ok demo by decide +kernel)

/-- the history of the repaired defect: simulate; `d.underlier = heston` (an attribute assignment);
`d.register_underlier("underlier", brownian)`; `d.maturity = 1/2`; simulate -/
def defectHistory (old : Bool) : List (GOp Rat) :=
  [.derivSim 0 2, if old then .assignOld 0 "underlier" 0 else .assign 0 "underlier" 0,
   .register 0 "underlier" 1, .setMaturity 0 (1 / 2), .derivSim 0 3]

/-- PRE-fix (`assignOld`): `d.underlier` is still the Heston stock (13 points: maturity 1, dt 1/12,
never re-simulated) while `ul()`, `simulate` and the payoff use the Brownian stock (6 points:
maturity 1/2, dt 1/10): time to maturity has 13 columns, the payoff reads 6, and combining
moneyness / time to maturity (13) with volatility (6) raises RuntimeError - in the features and in
the hedge -/
def afterOld : GSys Rat := GSys.run nExact demo (defectHistory true)

def afterRepaired : GSys Rat := GSys.run nExact demo (defectHistory false)

example :
    (afterOld.ders[0]?.map (fun d => (d.attr "underlier", d.ul 0, d.getUnderlier "underlier"))) = some (.ok 0, .ok 1, .ok 1) ∧
    afterOld.ttm 0 = .ok (.f32, (2, 13)) ∧ afterOld.payoffInputs 0 = .ok [(.f32, (3, 6))] ∧
    afterOld.payoff 0 = .ok (.f32, 3) := by
  decide +kernel

example :
    afterOld.featSrc 0 .moneyness = .ok (.f32, (2, 13)) ∧ afterOld.featSrc 0 .volatility = .ok (.f32, (3, 6)) ∧
    afterOld.features 0 [.moneyness, .timeToMaturity, .volatility] = .error .runtimeError ∧
    afterOld.computeHedge 0 ⟨.naked, [.moneyness, .timeToMaturity, .volatility], none⟩ = .error .runtimeError := by
  decide +kernel

example :
    afterOld.buffers 0 = .ok [("spot", (2, 13)), ("variance", (2, 13))] ∧ afterOld.buffers 1 = .ok [("spot", (3, 6))] ∧
    afterOld.last = [some (1, some 0), some (1 / 2, some 0)] := by
  decide +kernel

/-- REPAIRED (`assign`): one primary behind every accessor, one grid of 6 points for time to
maturity, payoff, features and hedge; the replaced Heston stock keeps its 13-point paths -/
example :
    (afterRepaired.ders[0]?.map (fun d => (d.attr "underlier", d.ul 0, d.getUnderlier "underlier"))) = some (.ok 1, .ok 1, .ok 1) ∧
    afterRepaired.ttm 0 = .ok (.f32, (3, 6)) ∧ afterRepaired.payoffInputs 0 = .ok [(.f32, (3, 6))] ∧
    afterRepaired.payoff 0 = .ok (.f32, 3) := by
  decide +kernel

example :
    afterRepaired.features 0 [.moneyness, .timeToMaturity, .volatility] = .ok ⟨.f32, [3, 6, 3]⟩ ∧
    afterRepaired.computeHedge 0 ⟨.naked, [.moneyness, .timeToMaturity, .volatility], none⟩ = .ok ⟨.f32, [3, 1, 6]⟩ ∧
    afterRepaired.ttmValues 0 = .ok [1 / 2, 2 / 5, 3 / 10, 1 / 5, 1 / 10, 0] := by
  decide +kernel

example :
    afterRepaired.buffers 0 = .ok [("spot", (2, 13)), ("variance", (2, 13))] ∧
    afterRepaired.buffers 1 = .ok [("spot", (3, 6))] := by
  decide +kernel

/-- the hypotheses of `ttm_after_derivSim` / `derivSim_shared_grid` hold on `demo`: T = 13 -/
example : ∃ d, demo.ders[0]? = some d ∧ d.reg = ("underlier", 0) :: [] ∧ d.shadow = [] ∧ d.mixin = true ∧
    demo.dts[0]? = some (1 / 12) ∧ (0 : Rat) ≤ d.maturity ∧ nExact d.maturity (1 / 12) = 13 :=
  ⟨_, rfl, rfl, rfl, rfl, rfl, by decide +kernel, by decide +kernel⟩

/-- two underliers with DIFFERENT step sizes (1/12 and 1/10), maturity 1: a user derivative without
`OptionMixin` reading both (`Spread`), and one with `OptionMixin` registered as (`first`, `underlier`) -/
def demo2 : GSys Rat :=
  { demo with ders := [{ maturity := 1, reg := [("first", 0), ("second", 1)], shadow := [], mixin := false,
                         pay := .named "first" ["second"], pk := .arith, pricer := none },
                       { maturity := 1, reg := [("first", 0), ("underlier", 1)], shadow := [], mixin := true,
                         pay := .named "first" ["underlier"], pk := .arith, pricer := none }] }

example : GSys.init .f32 [((.stochVar, none), 1 / 12), ((.flat, none), 1 / 10)]
    [⟨1, [("first", 0), ("second", 1)], false, .named "first" ["second"], .arith, none⟩,
     ⟨1, [("first", 0), ("underlier", 1)], true, .named "first" ["underlier"], .arith, none⟩] = .ok demo2 := by
  decide +kernel

/-- every underlier on ITS grid (13 and 11 points), the payoff reads both and is fine (it uses the
last column of each), the default hedge raises ValueError, an explicit one-instrument hedge is on the
grid of `ul()`; `OptionMixin` features are refused by the derivative without the mixin
(AttributeError); with the mixin they read the entry named `underlier` (11 points) while
`underlier_spot` reads `ul()` = `first` (13 points): together RuntimeError -/
def after2 : GSys Rat := GSys.run nExact demo2 [.derivSim 0 2]

example :
    after2.payoffInputs 0 = .ok [(.f32, (2, 13)), (.f32, (2, 11))] ∧ after2.payoff 0 = .ok (.f32, 2) ∧
    after2.computeHedge 0 ⟨.naked, [.underlierSpot], none⟩ = .error .valueError ∧
    after2.computeHedge 0 ⟨.naked, [.underlierSpot], some [.prim 0]⟩ = .ok ⟨.f32, [2, 1, 13]⟩ := by
  decide +kernel

example :
    after2.ttm 0 = .error .attributeError ∧
    after2.ttm 1 = .ok (.f32, (2, 11)) ∧ after2.featSrc 1 .underlierSpot = .ok (.f32, (2, 13)) := by
  decide +kernel

example :
    after2.features 1 [.timeToMaturity, .underlierSpot] = .error .runtimeError ∧
    after2.computeHedge 1 ⟨.naked, [.timeToMaturity, .underlierSpot], some [.prim 0]⟩ = .error .runtimeError := by
  decide +kernel

/-- another owner: two options of maturities 1 and 1/2 on the same Heston stock.  After the second
is simulated the first sees 7 time points, not its own 13; a direct `primary.simulate` of horizon 1/4
leaves 4 -/
def demo3 : GSys Rat :=
  { demo with ders := [{ maturity := 1, reg := [("underlier", 0)], shadow := [], mixin := true, pay := .ul0, pk := .arith, pricer := none },
                       { maturity := 1 / 2, reg := [("underlier", 0)], shadow := [], mixin := true, pay := .ul0, pk := .indicator, pricer := none }] }

example :
    (GSys.run nExact demo3 [.derivSim 0 2]).ttm 0 = .ok (.f32, (2, 13)) ∧
    (GSys.run nExact demo3 [.derivSim 0 2, .derivSim 1 5]).ttm 0 = .ok (.f32, (5, 7)) ∧
    (GSys.run nExact demo3 [.derivSim 0 2, .derivSim 1 5]).last = [some (1 / 2, some 1), none] ∧
    (GSys.run nExact demo3 [.derivSim 0 2, .derivSim 1 5, .primSim 0 1 (1 / 4)]).ttm 0 = .ok (.f32, (1, 4)) ∧
    (GSys.run nExact demo3 [.derivSim 0 2, .setMaturity 0 (1 / 3)]).ttm 0 = .ok (.f32, (2, 13)) := by
  decide +kernel

/-- the projection of `d.simulate(n_paths=2)` on `demo` is InstrSys's `derivSimulate 0 2 13` -/
example : (SOp.derivSimulate 0 2 13).step demo.proj = .ok ((GOp.derivSim 0 2).step nExact demo).1.proj := by
  decide +kernel

end PfVerif.C13System
