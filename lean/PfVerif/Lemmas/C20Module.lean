/-
  C20 (module part) — the `WhalleyWilmott` MODULE, not only three numbers.

  Props/C20.lean proves the band logic about (prev, delta, width).  Here the module itself is inside
  the model (Model/WWModule.lean: `wwForwardRow kind call strike cost a row`, executed by driver op
  "ww_module" on the rows the harness feeds to the real `WhalleyWilmott(derivative)`): which column of
  its input is the previous hedge, which option kind's delta and gamma it uses, how it composes with
  the hedger's recurrence.

  `C20Module` (property theorems):
    inputs_layout, wwRow_layout, features_layout
                      — `inputs()` = the kind's Black–Scholes inputs, then `prev_hedge` LAST (4 / 5 names)
    forward_split, forward_clamps_last, other_columns_change_band_only, last_column_is_clamped
                      — the last entry of the row is what is clamped; the band comes from the others
    forward_empty, forward_too_long, forward_too_short
                      — rows of a wrong length: IndexError / TypeError / AttributeError (unsimulated)
    forwardRow_full, init_ok_iff
                      — a full row never consults the derivative (any derivative, any cell)
    forward_plain, forward_pathDep, greeks_table
                      — which delta / gamma per kind (closed forms; forward-mode duals of the price)
    module_greeks     — delta = ∂price/∂S, gamma = ∂²price/∂S² of the kind's OWN price (C08 / C08Dual)
    band_rule         — result = prev inside Δ ± (3cΓ²S/(2a))^{1/3}, the nearer edge outside, every kind
    zero_cost_row, zero_cost_any_row
                      — cost 0: exactly the kind's `BlackScholes` module (errors included)
    hedger_recurrence — through `computeHedge`: h_j = clamp(h_{j−1}, band_j), h_{−1} = 0
    zero_cost_hedger  — cost 0: the recurrent hedge = the Black–Scholes delta hedge (batched branch)
    band_defined, hedgeSeq_recurrence, priceOfSpot_eq, exMarket_inputs, `example`s (non-vacuity, five-input kinds)
-/
import PfVerif.Model.WWModule
import PfVerif.Lemmas.C08Dual
import PfVerif.Props.C03
import PfVerif.Props.C20

namespace PfVerif.C20ModuleAux
open PfVerif

theorem lastL_append_singleton {β : Type} (xs : List β) (p : β) : lastL (xs ++ [p]) = some p := by
  induction xs with
  | nil => rfl
  | cons x xs ih =>
    cases xs with
    | nil => rfl
    | cons y ys => simpa [lastL] using ih

theorem initL_append_singleton {β : Type} (xs : List β) (p : β) : initL (xs ++ [p]) = xs := by
  induction xs with
  | nil => rfl
  | cons x xs ih =>
    cases xs with
    | nil => rfl
    | cons y ys => simpa [initL] using ih

theorem initL_eq_dropLast {β : Type} : ∀ xs : List β, initL xs = xs.dropLast
  | [] => rfl
  | [_] => rfl
  | x :: y :: r => by rw [initL, initL_eq_dropLast (y :: r), List.dropLast_cons_cons]

/-- the module on a row whose last entry is `p`: the Black–Scholes module and `width` see the entries
before it, `p` is what is clamped (for rows of ANY length; a failing constructor included) -/
theorem split (kind : Kind) (call : Bool) (K c a : ℝ) (xs : List ℝ) (p : ℝ) :
    wwForwardRow kind call K c a (xs ++ [p])
      = (bsForwardRow kind call K xs).bind (fun δ =>
          (wwWidthRow kind call K c a xs).bind (fun wd => .ok (wwForward p δ wd))) := by
  unfold wwForwardRow bsForwardRow wwWidthRow WWModule.init
  cases h : BSModule.fromDerivative kind (Deriv.unsimulated call K) with
  | error e => rfl
  | ok bs =>
    show WWModule.forwardRow _ (xs ++ [p]) 0 = _
    unfold WWModule.forwardRow
    rw [lastL_append_singleton, initL_append_singleton]
    rfl

theorem bs3 (k3 : Kind3) (call : Bool) (K s t v : ℝ) :
    bsForwardRow (.plain k3) call K [s, t, v] = liftErr (k3.formula .delta call K s t v) := by
  cases call <;> rfl

theorem w3 (k3 : Kind3) (call : Bool) (K c a s t v : ℝ) :
    wwWidthRow (.plain k3) call K c a [s, t, v]
      = (liftErr (k3.gamma call K s t v)).bind (fun γ => .ok (wwWidth γ (K * Real.exp s) c a)) := by
  cases call <;> rfl

theorem bs4 (k4 : Kind4) (K s m t v : ℝ) :
    bsForwardRow (.pathDep k4) true K [s, m, t, v] = liftErr (k4.formula .delta K s m t v) := by
  rfl

theorem w4 (k4 : Kind4) (K c a s m t v : ℝ) :
    wwWidthRow (.pathDep k4) true K c a [s, m, t, v]
      = (liftErr (k4.gamma K s m t v)).bind (fun γ => .ok (wwWidth γ (K * Real.exp s) c a)) := by
  rfl

/-! ### the delta / gamma each kind's module computes are the first / second spot derivative of its price -/

open PfVerif.BSCalc PfVerif.C08Aux PfVerif.C08DualAux PfVerif.C08Dual

/-- the kind's Black–Scholes price (the `price` method of its module, Model/Acquire.lean) as a function
of the SPOT, the other inputs fixed -/
noncomputable def priceOfSpot (kind : Kind) (call : Bool) (K m t v : ℝ) (S : ℝ) : ℝ :=
  match kind with
  | .plain k3 => val (k3.formula .price call K (Real.log (S / K)) t v)
  | .pathDep k4 => val (k4.formula .price K (Real.log (S / K)) m t v)

theorem log_spot' (K s : ℝ) (hK : 0 < K) : Real.log (Real.exp s * K / K) = s := by
  rw [mul_div_assoc, div_self hK.ne', mul_one, Real.log_exp]

theorem spot_pos (K s : ℝ) (hK : 0 < K) : 0 < K * Real.exp s := mul_pos hK (Real.exp_pos s)

section greeks
set_option linter.unusedSectionVars false
variable {K t v : ℝ} (hK : 0 < K) (ht : 0 < t) (hv : 0 < v) (s m : ℝ)
include hK ht hv

theorem greeks_european (call : Bool) :
    ∃ Δ Γ, bsEuropeanDelta s t v call = .ok Δ ∧ bsEuropeanGamma s t v K = .ok Γ ∧
      HasDerivAt (priceOfSpot (.plain .european) call K m t v) Δ (K * Real.exp s) ∧
      HasDerivAt (deriv (priceOfSpot (.plain .european) call K m t v)) Γ (K * Real.exp s) := by
  have h1 := C08.european_delta (spot_pos K s hK) hK ht hv call
  have h2 := C08.european_gamma_second (spot_pos K s hK) hK ht hv call
  rw [log_spot K s hK, european_delta_ok ht hv, val_ok] at h1
  rw [log_spot K s hK, european_gamma_ok ht hv, val_ok] at h2
  exact ⟨_, _, european_delta_ok ht hv s call, european_gamma_ok ht hv s K, h1, h2⟩

theorem greeks_binary (call : Bool) :
    ∃ Δ Γ, bsBinaryDelta s t v K call = .ok Δ ∧ bsBinaryGamma s t v K call = .ok Γ ∧
      HasDerivAt (priceOfSpot (.plain .binary) call K m t v) Δ (K * Real.exp s) ∧
      HasDerivAt (deriv (priceOfSpot (.plain .binary) call K m t v)) Γ (K * Real.exp s) := by
  have h1 := C08.binary_delta (spot_pos K s hK) hK ht hv call
  have h2 := C08.binary_gamma_second (spot_pos K s hK) hK ht hv call
  rw [log_spot K s hK, binary_delta_ok ht hv, val_ok] at h1
  rw [log_spot K s hK, binary_gamma_ok ht hv, val_ok] at h2
  exact ⟨_, _, binary_delta_ok ht hv s K call, binary_gamma_ok ht hv s K call, h1, h2⟩

/-- American binary before the hit: closed-form delta, gamma by second-order forward mode -/
theorem greeks_american (hm : m < 0) :
    ∃ Δ Γ, bsAmericanBinaryDelta s m t v K = .ok Δ ∧ bsAmericanBinaryGammaAuto s m t v K = .ok Γ ∧
      HasDerivAt (priceOfSpot (.pathDep .americanBinary) true K m t v) Δ (K * Real.exp s) ∧
      HasDerivAt (deriv (priceOfSpot (.pathDep .americanBinary) true K m t v)) Γ (K * Real.exp s) := by
  have hS := spot_pos K s hK
  have h1 := C08.american_binary_delta hS hK ht hv hm
  have h2 := C08.american_binary_gamma_second hS hK ht hv hm
  rw [log_spot K s hK, american_delta_ok ht hv, val_ok] at h1
  obtain ⟨DD, hDD, -, -, -, hee⟩ := american_autogreek_gamma hS hK ht hv hm
  rw [← hee] at h2
  refine ⟨_, DD.eps.eps, american_delta_ok ht hv s K m, ?_, h1, h2⟩
  have : bsAmericanBinaryPrice (Transc.log (Dual.var2 (Transc.exp s * K) / Dual.const2 K))
      (Dual.const2 m) (Dual.const2 t) (Dual.const2 v) = .ok DD := by
    rw [← hDD, show (Transc.exp s * K : ℝ) = K * Real.exp s from mul_comm _ _]
    rfl
  unfold bsAmericanBinaryGammaAuto autoGamma
  dsimp only
  rw [this]

/-- American binary after the hit (`0 ≤ m`): the price is the constant one, delta and gamma vanish -/
theorem greeks_american_hit (hm : 0 ≤ m) :
    bsAmericanBinaryDelta s m t v K = .ok 0 ∧ bsAmericanBinaryGammaAuto s m t v K = .ok 0 ∧
      HasDerivAt (priceOfSpot (.pathDep .americanBinary) true K m t v) 0 (K * Real.exp s) ∧
      HasDerivAt (deriv (priceOfSpot (.pathDep .americanBinary) true K m t v)) 0 (K * Real.exp s) := by
  have hm' : ¬ m < 0 := not_lt.2 hm
  have hp : priceOfSpot (.pathDep .americanBinary) true K m t v = fun _ => 1 := by
    funext S
    show val (bsAmericanBinaryPrice (Real.log (S / K)) m t v) = 1
    rw [american_price_ok ht hv, if_neg hm', val_ok]
  refine ⟨by rw [american_delta_ok ht hv, if_neg hm'], ?_, ?_, ?_⟩
  · have hg : Guards (Dual.const2 t) (Dual.const2 v) := guards_dual2 ht hv
    have hlt : ¬ (Dual.const2 m : Dual (Dual ℝ)) < 0 := hm'
    unfold bsAmericanBinaryGammaAuto autoGamma
    dsimp only
    rw [american_eq hg, if_neg hlt]
    rfl
  · rw [hp]; exact hasDerivAt_const _ _
  · rw [hp]
    have : deriv (fun _ : ℝ => (1 : ℝ)) = fun _ => 0 := by funext x; simp
    rw [this]; exact hasDerivAt_const _ _

/-- lookback: delta and gamma by first / second-order forward mode of the price -/
theorem greeks_lookback :
    ∃ Δ Γ, bsLookbackDeltaAuto s m t v K = .ok Δ ∧ bsLookbackGammaAuto s m t v K = .ok Γ ∧
      HasDerivAt (priceOfSpot (.pathDep .lookback) true K m t v) Δ (K * Real.exp s) ∧
      HasDerivAt (deriv (priceOfSpot (.pathDep .lookback) true K m t v)) Γ (K * Real.exp s) := by
  have hS := spot_pos K s hK
  obtain ⟨D, hD, -, hd, -⟩ := lookback_autogreek_delta (t := t) (v := v) m hS hK ht hv
  obtain ⟨DD, hDD, -, -, -, hdd, -⟩ := lookback_autogreek_gamma (t := t) (v := v) m hS hK ht hv
  refine ⟨D.eps, DD.eps.eps, ?_, ?_, hd, hdd⟩
  · have : bsLookbackPrice (Transc.log (Dual.var (Transc.exp s * K) / Dual.const K))
        (Dual.const m) (Dual.const t) (Dual.const v) (Dual.const K) = .ok D := by
      rw [← hD, show (Transc.exp s * K : ℝ) = K * Real.exp s from mul_comm _ _]
      rfl
    unfold bsLookbackDeltaAuto autoDelta
    dsimp only
    rw [this]
  · have : bsLookbackPrice (Transc.log (Dual.var2 (Transc.exp s * K) / Dual.const2 K))
        (Dual.const2 m) (Dual.const2 t) (Dual.const2 v) (Dual.const2 K) = .ok DD := by
      rw [← hDD, show (Transc.exp s * K : ℝ) = K * Real.exp s from mul_comm _ _]
      rfl
    unfold bsLookbackGammaAuto autoGamma
    dsimp only
    rw [this]

end greeks

/-! ### validation: every formula of Model/BS.lean raises exactly when `bsValidate` does -/

section validate
set_option linter.unusedSectionVars false
variable {α : Type} [Add α] [Sub α] [Mul α] [Div α] [Neg α] [OfNat α 0] [OfNat α 1] [OfNat α 2]
  [LE α] [DecidableLE α] [LT α] [DecidableLT α] [Transc α]

theorem validate_cases (t v : α) :
    bsValidate t v = .ok () ∨ bsValidate t v = .error .valueError := by
  unfold bsValidate
  split_ifs <;> simp

theorem d1_ok {t v : α} (h : bsValidate t v = .ok ()) (s : α) : ∃ d, bsD1 s t v = .ok d := by
  unfold bsD1; rw [h]; exact ⟨_, rfl⟩

theorem d2_ok {t v : α} (h : bsValidate t v = .ok ()) (s : α) : ∃ d, bsD2 s t v = .ok d := by
  unfold bsD2; rw [h]; exact ⟨_, rfl⟩

theorem d1_err {t v : α} {e : Err} (h : bsValidate t v = .error e) (s : α) :
    bsD1 s t v = .error e := by
  unfold bsD1; rw [h]; rfl

theorem d2_err {t v : α} {e : Err} (h : bsValidate t v = .error e) (s : α) :
    bsD2 s t v = .error e := by
  unfold bsD2; rw [h]; rfl

theorem europeanDelta_err {t v : α} {e : Err} (h : bsValidate t v = .error e) (s : α) (call : Bool) :
    bsEuropeanDelta s t v call = .error e := by
  unfold bsEuropeanDelta; rw [d1_err h]; rfl

theorem europeanGamma_ok {t v : α} (h : bsValidate t v = .ok ()) (s k : α) :
    ∃ g, bsEuropeanGamma s t v k = .ok g := by
  obtain ⟨d, hd⟩ := d1_ok h s
  unfold bsEuropeanGamma; rw [hd]; exact ⟨_, rfl⟩

theorem binaryDelta_err {t v : α} {e : Err} (h : bsValidate t v = .error e) (s k : α) (call : Bool) :
    bsBinaryDelta s t v k call = .error e := by
  unfold bsBinaryDelta; rw [d2_err h]; rfl

theorem binaryGamma_ok {t v : α} (h : bsValidate t v = .ok ()) (s k : α) (call : Bool) :
    ∃ g, bsBinaryGamma s t v k call = .ok g := by
  obtain ⟨d, hd⟩ := d2_ok h s
  unfold bsBinaryGamma bsBinaryGammaW; rw [hd]; exact ⟨_, rfl⟩

theorem americanDelta_err {t v : α} {e : Err} (h : bsValidate t v = .error e) (s m k : α) :
    bsAmericanBinaryDelta s m t v k = .error e := by
  unfold bsAmericanBinaryDelta; rw [d1_err h]; rfl

theorem americanPrice_ok {t v : α} (h : bsValidate t v = .ok ()) (s m : α) :
    ∃ p, bsAmericanBinaryPrice s m t v = .ok p := by
  obtain ⟨d, hd⟩ := d1_ok h s
  obtain ⟨d', hd'⟩ := d2_ok h s
  unfold bsAmericanBinaryPrice; rw [hd, hd']; exact ⟨_, rfl⟩

theorem lookbackPrice_ok {t v : α} (h : bsValidate t v = .ok ()) (s m k : α) :
    ∃ p, bsLookbackPrice s m t v k = .ok p := by
  obtain ⟨a, ha⟩ := d1_ok h s
  obtain ⟨b, hb⟩ := d2_ok h s
  obtain ⟨c, hc⟩ := d1_ok h (s - m)
  obtain ⟨d, hd⟩ := d2_ok h (s - m)
  unfold bsLookbackPrice; rw [ha, hb, hc, hd]; exact ⟨_, rfl⟩

theorem lookbackPrice_err {t v : α} {e : Err} (h : bsValidate t v = .error e) (s m k : α) :
    bsLookbackPrice s m t v k = .error e := by
  unfold bsLookbackPrice; rw [d1_err h]; rfl

end validate

/-- validation of lifted constants looks at the primal parts -/
theorem validate_const (t v : ℝ) :
    bsValidate (Dual.const t : Dual ℝ) (Dual.const v) = bsValidate t v := by
  unfold bsValidate
  have h1 : ((0 : Dual ℝ) ≤ Dual.const t) ↔ (0 : ℝ) ≤ t := Iff.rfl
  have h2 : ((0 : Dual ℝ) ≤ Dual.const v) ↔ (0 : ℝ) ≤ v := Iff.rfl
  simp only [h1, h2]

theorem validate_const2 (t v : ℝ) :
    bsValidate (Dual.const2 t : Dual (Dual ℝ)) (Dual.const2 v) = bsValidate t v := by
  unfold bsValidate
  have h1 : ((0 : Dual (Dual ℝ)) ≤ Dual.const2 t) ↔ (0 : ℝ) ≤ t := Iff.rfl
  have h2 : ((0 : Dual (Dual ℝ)) ≤ Dual.const2 v) ↔ (0 : ℝ) ≤ v := Iff.rfl
  simp only [h1, h2]

/-- the gamma of a kind's module is defined whenever its delta is (same validation), for ALL inputs -/
theorem gamma3_ok_of_delta_ok (k3 : Kind3) (call : Bool) (K s t v δ : ℝ)
    (h : k3.formula .delta call K s t v = .ok δ) : ∃ γ, k3.gamma call K s t v = .ok γ := by
  rcases validate_cases t v with hv | hv
  · cases k3
    · exact europeanGamma_ok hv s K
    · exact binaryGamma_ok hv s K call
  · cases k3
    · rw [show Kind3.formula .european .delta call K s t v = bsEuropeanDelta s t v call from rfl,
        europeanDelta_err hv] at h
      cases h
    · rw [show Kind3.formula .binary .delta call K s t v = bsBinaryDelta s t v K call from rfl,
        binaryDelta_err hv] at h
      cases h

theorem gamma4_ok_of_delta_ok (k4 : Kind4) (K s m t v δ : ℝ)
    (h : k4.formula .delta K s m t v = .ok δ) : ∃ γ, k4.gamma K s m t v = .ok γ := by
  rcases validate_cases t v with hv | hv
  · have hv2 := (validate_const2 t v).trans hv
    cases k4
    · obtain ⟨p, hp⟩ := americanPrice_ok hv2
        (Transc.log (Dual.var2 (Transc.exp s * K) / Dual.const2 K)) (Dual.const2 m)
      refine ⟨p.eps.eps, ?_⟩
      show bsAmericanBinaryGammaAuto s m t v K = _
      unfold bsAmericanBinaryGammaAuto autoGamma
      dsimp only
      rw [hp]
    · obtain ⟨p, hp⟩ := lookbackPrice_ok hv2
        (Transc.log (Dual.var2 (Transc.exp s * K) / Dual.const2 K)) (Dual.const2 m) (Dual.const2 K)
      refine ⟨p.eps.eps, ?_⟩
      show bsLookbackGammaAuto s m t v K = _
      unfold bsLookbackGammaAuto autoGamma
      dsimp only
      rw [hp]
  · cases k4
    · rw [show Kind4.formula .americanBinary .delta K s m t v = bsAmericanBinaryDelta s m t v K from rfl,
        americanDelta_err hv] at h
      cases h
    · have hv1 := (validate_const t v).trans hv
      have : Kind4.formula .lookback .delta K s m t v = .error .valueError := by
        show bsLookbackDeltaAuto s m t v K = _
        unfold bsLookbackDeltaAuto autoDelta
        dsimp only
        rw [lookbackPrice_err hv1]
      rw [this] at h
      cases h

end PfVerif.C20ModuleAux

/-!
  ## C20 (module part) — the `WhalleyWilmott` MODULE

  Model: Model/WWModule.lean (`wwForwardRow`, executed by driver op "ww_module" on the rows the harness
  feeds to the real module).  Carrier ℝ; the autograd-based deltas / gammas (lookback delta and gamma,
  American-binary gamma) are the model's prices at `Dual ℝ` / `Dual (Dual ℝ)`, identified with the true
  derivatives by the tracking theorems of Lemmas/C08Dual.lean.
-/
namespace PfVerif.C20Module
open PfVerif PfVerif.C08Aux PfVerif.C20ModuleAux

/-- the columns handed to the Black–Scholes module of a kind, from a state given by name -/
def bsRow (kind : Kind) (s m t v : ℝ) : List ℝ :=
  match kind with
  | .plain _ => [s, t, v]
  | .pathDep _ => [s, m, t, v]

/-- the row handed to the Whalley–Wilmott module: the same columns, then the previous hedge -/
def wwRow (kind : Kind) (s m t v prev : ℝ) : List ℝ := bsRow kind s m t v ++ [prev]

/-- the American-binary and lookback modules exist for calls only (`ValueError` otherwise) -/
def CallOK (kind : Kind) (call : Bool) : Prop := ∀ k4, kind = .pathDep k4 → call = true

/-! ### layout of the input -/

/-- `inputs()`: the Black–Scholes module's inputs, then `prev_hedge` — in the LAST position and
nowhere else; four names for the European kinds, five for the path-dependent ones -/
theorem inputs_layout (kind : Kind) :
    kind.wwInputs = kind.bsInputs ++ [.prevHedge] ∧
    kind.wwInputs.getLast? = some .prevHedge ∧ InputName.prevHedge ∉ kind.bsInputs ∧
    (∀ k3, kind = .plain k3 →
      kind.wwInputs = [.logMoneyness, .timeToMaturity, .volatility, .prevHedge]) ∧
    (∀ k4, kind = .pathDep k4 →
      kind.wwInputs = [.logMoneyness, .maxLogMoneyness, .timeToMaturity, .volatility, .prevHedge]) := by
  cases kind <;> simp [Kind.wwInputs, Kind.bsInputs]

/-- the rows built by name have the layout of `inputs()` -/
theorem wwRow_layout (kind : Kind) (s m t v prev : ℝ) :
    (wwRow kind s m t v prev).length = kind.wwInputs.length ∧
    (wwRow kind s m t v prev).getLast? = some prev ∧
    (wwRow kind s m t v prev).dropLast = bsRow kind s m t v ∧
    (bsRow kind s m t v).head? = some s := by
  cases kind <;> simp [wwRow, bsRow, Kind.wwInputs, Kind.bsInputs]

/-- **layout.**  On a row `xs ++ [p]` of ANY length the module clamps `p`, its last entry; the delta
and the half-width are the Black–Scholes module resp. `width` on `xs` — the entries before it.  No
entry of `xs` is clamped and `p` enters neither delta nor half-width. -/
theorem forward_split (kind : Kind) (call : Bool) (K c a : ℝ) (xs : List ℝ) (p : ℝ) :
    wwForwardRow kind call K c a (xs ++ [p])
      = (bsForwardRow kind call K xs).bind (fun δ =>
          (wwWidthRow kind call K c a xs).bind (fun wd => .ok (wwForward p δ wd))) :=
  split kind call K c a xs p

/-- an empty row has no last entry: the `IndexError` of `input[..., [-1]]` -/
theorem forward_empty (kind : Kind) (call : Bool) (hc : CallOK kind call) (K c a : ℝ) :
    wwForwardRow kind call K c a [] = .error (.lower .runtimeError) := by
  cases kind with
  | plain k3 => cases call <;> rfl
  | pathDep k4 => rw [hc k4 rfl]; rfl

/-- whatever the row: if the module returns `y`, then `y` is the LAST entry of the row clamped to the
band computed from the row without its last entry -/
theorem forward_clamps_last (kind : Kind) (call : Bool) (K c a : ℝ) (row : List ℝ) (y : ℝ)
    (h : wwForwardRow kind call K c a row = .ok y) :
    ∃ p δ wd, row.getLast? = some p ∧ bsForwardRow kind call K row.dropLast = .ok δ ∧
      wwWidthRow kind call K c a row.dropLast = .ok wd ∧ y = wwForward p δ wd := by
  rcases List.eq_nil_or_concat row with rfl | ⟨xs, p, rfl⟩
  · exfalso
    unfold wwForwardRow at h
    cases hi : WWModule.init kind (Deriv.unsimulated call K) c a with
    | error e => rw [hi] at h; cases h
    | ok w => rw [hi] at h; cases h
  · rw [List.concat_eq_append] at h ⊢
    rw [forward_split] at h
    refine ⟨p, ?_⟩
    cases hδ : bsForwardRow kind call K xs with
    | error e => rw [hδ] at h; cases h
    | ok δ =>
      cases hw : wwWidthRow kind call K c a xs with
      | error e => rw [hδ, hw] at h; cases h
      | ok wd =>
        rw [hδ, hw] at h
        exact ⟨δ, wd, by simp, by simpa using hδ, by simpa using hw, (Except.ok.inj h).symm⟩

/-- changing any column other than the last changes only the band: two rows with the same last entry
`p` return clamps of the same `p` -/
theorem other_columns_change_band_only (kind : Kind) (call : Bool) (K c a : ℝ) (xs xs' : List ℝ)
    (p y y' : ℝ) (h : wwForwardRow kind call K c a (xs ++ [p]) = .ok y)
    (h' : wwForwardRow kind call K c a (xs' ++ [p]) = .ok y') :
    ∃ δ wd δ' wd', y = wwForward p δ wd ∧ y' = wwForward p δ' wd' ∧
      bsForwardRow kind call K xs = .ok δ ∧ wwWidthRow kind call K c a xs = .ok wd ∧
      bsForwardRow kind call K xs' = .ok δ' ∧ wwWidthRow kind call K c a xs' = .ok wd' := by
  obtain ⟨q, δ, wd, hq, h1, h2, h3⟩ := forward_clamps_last _ _ _ _ _ _ _ h
  obtain ⟨q', δ', wd', hq', h1', h2', h3'⟩ := forward_clamps_last _ _ _ _ _ _ _ h'
  simp only [List.getLast?_append, List.getLast?_singleton, Option.some_or, Option.some.injEq,
    List.dropLast_concat] at hq hq' h1 h2 h1' h2'
  subst hq hq'
  exact ⟨δ, wd, δ', wd', h3, h3', h1, h2, h1', h2'⟩

/-- changing the last column changes only what is clamped: the band is the same -/
theorem last_column_is_clamped (kind : Kind) (call : Bool) (K c a : ℝ) (xs : List ℝ) (p p' y : ℝ)
    (h : wwForwardRow kind call K c a (xs ++ [p]) = .ok y) :
    ∃ δ wd, y = wwForward p δ wd ∧ wwForwardRow kind call K c a (xs ++ [p']) = .ok (wwForward p' δ wd) := by
  obtain ⟨q, δ, wd, hq, h1, h2, h3⟩ := forward_clamps_last _ _ _ _ _ _ _ h
  simp only [List.getLast?_append, List.getLast?_singleton, Option.some_or, Option.some.injEq,
    List.dropLast_concat] at hq h1 h2
  subst hq
  exact ⟨δ, wd, h3, by rw [forward_split, h1, h2]; rfl⟩


/-! ### rows of a wrong length -/

/-- more columns than `inputs()`: the positional call of `delta` has too many arguments (`TypeError`) -/
theorem forward_too_long (kind : Kind) (call : Bool) (hc : CallOK kind call) (K c a : ℝ)
    (row : List ℝ) (h : kind.wwInputs.length < row.length) :
    wwForwardRow kind call K c a row = .error (.lower .typeError) := by
  cases kind with
  | plain k3 =>
    obtain ⟨x1, x2, x3, x4, x5, r, rfl⟩ : ∃ x1 x2 x3 x4 x5 r, row = x1 :: x2 :: x3 :: x4 :: x5 :: r := by
      match row, h with
      | x1 :: x2 :: x3 :: x4 :: x5 :: r, _ => exact ⟨x1, x2, x3, x4, x5, r, rfl⟩
    rcases List.eq_nil_or_concat r with rfl | ⟨r', q, rfl⟩
    · cases call <;> rfl
    · rw [List.concat_eq_append, show x1 :: x2 :: x3 :: x4 :: x5 :: (r' ++ [q])
        = (x1 :: x2 :: x3 :: x4 :: x5 :: r') ++ [q] from rfl, forward_split]
      cases call <;> rfl
  | pathDep k4 =>
    rw [hc k4 rfl]
    obtain ⟨x1, x2, x3, x4, x5, x6, r, rfl⟩ :
        ∃ x1 x2 x3 x4 x5 x6 r, row = x1 :: x2 :: x3 :: x4 :: x5 :: x6 :: r := by
      match row, h with
      | x1 :: x2 :: x3 :: x4 :: x5 :: x6 :: r, _ => exact ⟨x1, x2, x3, x4, x5, x6, r, rfl⟩
    rcases List.eq_nil_or_concat r with rfl | ⟨r', q, rfl⟩
    · rfl
    · rw [List.concat_eq_append, show x1 :: x2 :: x3 :: x4 :: x5 :: x6 :: (r' ++ [q])
        = (x1 :: x2 :: x3 :: x4 :: x5 :: x6 :: r') ++ [q] from rfl, forward_split]
      rfl

/-- fewer columns than `inputs()` (but at least one): the parameters without a column are looked up in
the derivative — which, for a derivative that has not been simulated, is an `AttributeError` -/
theorem forward_too_short (kind : Kind) (call : Bool) (hc : CallOK kind call) (K c a : ℝ)
    (row : List ℝ) (h0 : 0 < row.length) (h : row.length < kind.wwInputs.length) :
    wwForwardRow kind call K c a row = .error .attributeError := by
  cases kind with
  | plain k3 =>
    match row, h0, h with
    | [_], _, _ => cases call <;> rfl
    | [_, _], _, _ => cases call <;> rfl
    | [_, _, _], _, _ => cases call <;> rfl
  | pathDep k4 =>
    rw [hc k4 rfl]
    match row, h0, h with
    | [_], _, _ => rfl
    | [_, _], _, _ => rfl
    | [_, _, _], _, _ => rfl
    | [_, _, _, _], _, _ => rfl

/-! ### a row of the full length never consults the derivative -/

/-- `WhalleyWilmott(derivative, a)` built from ANY derivative `d` (simulated or not, whatever its
buffers hold), evaluated at ANY cell `i`: on a row with one column per name of `inputs()` the result
is `wwForwardRow` with the derivative's call flag and strike — no state of the derivative is read.
(This is the situation inside a `Hedger`, where the derivative has been simulated.) -/
theorem forwardRow_full (kind : Kind) (d : Deriv ℝ) (c a : ℝ) (w : WWModule ℝ)
    (hw : WWModule.init kind d c a = .ok w) (s m t v p : ℝ) (i : ℕ) :
    w.forwardRow (wwRow kind s m t v p) i
      = wwForwardRow kind d.call d.market.strike c a (wwRow kind s m t v p) := by
  obtain ⟨mk, dcall, sim, hv⟩ := d
  cases kind with
  | plain k3 =>
    cases dcall <;> (cases hw; rfl)
  | pathDep k4 =>
    cases dcall
    · cases hw
    · cases hw; rfl

/-- the constructor fails exactly for a put of a path-dependent kind -/
theorem init_ok_iff (kind : Kind) (d : Deriv ℝ) (c a : ℝ) :
    (∃ w, WWModule.init kind d c a = .ok w) ↔ CallOK kind d.call := by
  obtain ⟨mk, dcall, sim, hv⟩ := d
  cases kind with
  | plain k3 =>
    refine ⟨fun _ k4 h => ?_, fun _ => ?_⟩
    · cases h
    · cases dcall <;> exact ⟨_, rfl⟩
  | pathDep k4 =>
    cases dcall
    · refine ⟨fun ⟨w, h⟩ => ?_, fun h => ?_⟩
      · cases h
      · cases h k4 rfl
    · exact ⟨fun _ _ _ => rfl, fun _ => ⟨_, rfl⟩⟩

/-! ### which delta and gamma: the explicit form on a full row -/

/-- European / European binary: closed-form delta and gamma of that kind -/
theorem forward_plain (k3 : Kind3) (call : Bool) (K c a s t v p : ℝ) :
    wwForwardRow (.plain k3) call K c a [s, t, v, p]
      = (liftErr (k3.formula .delta call K s t v)).bind (fun δ =>
          (liftErr (k3.gamma call K s t v)).bind (fun γ =>
            .ok (wwForward p δ (wwWidth γ (K * Real.exp s) c a)))) := by
  rw [show [s, t, v, p] = [s, t, v] ++ [p] from rfl, forward_split, bs3, w3]
  cases liftErr (k3.formula .delta call K s t v) with
  | error e => rfl
  | ok δ => cases liftErr (k3.gamma call K s t v) <;> rfl

/-- American binary / lookback: five columns; delta and gamma of that kind -/
theorem forward_pathDep (k4 : Kind4) (K c a s m t v p : ℝ) :
    wwForwardRow (.pathDep k4) true K c a [s, m, t, v, p]
      = (liftErr (k4.formula .delta K s m t v)).bind (fun δ =>
          (liftErr (k4.gamma K s m t v)).bind (fun γ =>
            .ok (wwForward p δ (wwWidth γ (K * Real.exp s) c a)))) := by
  rw [show [s, m, t, v, p] = [s, m, t, v] ++ [p] from rfl, forward_split, bs4, w4]
  cases liftErr (k4.formula .delta K s m t v) with
  | error e => rfl
  | ok δ => cases liftErr (k4.gamma K s m t v) <;> rfl

/-- the table of deltas and gammas, kind by kind -/
theorem greeks_table (call : Bool) (K s m t v : ℝ) :
    Kind3.formula .european .delta call K s t v = bsEuropeanDelta s t v call ∧
    Kind3.gamma .european call K s t v = bsEuropeanGamma s t v K ∧
    Kind3.formula .binary .delta call K s t v = bsBinaryDelta s t v K call ∧
    Kind3.gamma .binary call K s t v = bsBinaryGamma s t v K call ∧
    Kind4.formula .americanBinary .delta K s m t v = bsAmericanBinaryDelta s m t v K ∧
    Kind4.gamma .americanBinary K s m t v = bsAmericanBinaryGammaAuto s m t v K ∧
    Kind4.formula .lookback .delta K s m t v = bsLookbackDeltaAuto s m t v K ∧
    Kind4.gamma .lookback K s m t v = bsLookbackGammaAuto s m t v K :=
  ⟨rfl, rfl, rfl, rfl, rfl, rfl, rfl, rfl⟩

/-! ### the band rule for every kind -/

/-- the documented half-width `(3 c Γ² S / (2a))^{1/3}` -/
noncomputable def halfWidth (c Γ S a : ℝ) : ℝ := (3 * c * Γ ^ 2 * S / (2 * a)) ^ ((1 : ℝ) / 3)

/-- the price whose spot derivatives the theorems below speak about: the `price` method of the kind's
Black–Scholes module (`Kind3.formula .price` / `Kind4.formula .price` of Model/Acquire.lean), as a
function of the spot `S'` through `log_moneyness = log (S' / K)` -/
theorem priceOfSpot_eq (call : Bool) (K m t v S : ℝ) :
    priceOfSpot (.plain .european) call K m t v S = val (bsEuropeanPrice (Real.log (S / K)) t v K call) ∧
    priceOfSpot (.plain .binary) call K m t v S = val (bsBinaryPrice (Real.log (S / K)) t v call) ∧
    priceOfSpot (.pathDep .americanBinary) call K m t v S
      = val (bsAmericanBinaryPrice (Real.log (S / K)) m t v) ∧
    priceOfSpot (.pathDep .lookback) call K m t v S = val (bsLookbackPrice (Real.log (S / K)) m t v K) :=
  ⟨rfl, rfl, rfl, rfl⟩

/-- **which delta, which gamma.**  For every kind, on the open domain `K, t, v > 0` (any log-moneyness
`s`, any running maximum `m` — before or after the hit for the American binary): the Black–Scholes
module returns a `Δ`, `width` returns `wwWidth Γ (K eˢ) c a`, and `Δ`, `Γ` are the first and the second
derivative of the kind's price in the spot at `S = K eˢ` (for the autograd-based ones through the
tracking theorems of C08Dual: the ε-parts of the forward-mode evaluation ARE these derivatives). -/
theorem module_greeks (kind : Kind) (call : Bool) (hc : CallOK kind call) {K t v : ℝ} (hK : 0 < K)
    (ht : 0 < t) (hv : 0 < v) (s m c a : ℝ) :
    ∃ Δ Γ, bsForwardRow kind call K (bsRow kind s m t v) = .ok Δ ∧
      wwWidthRow kind call K c a (bsRow kind s m t v) = .ok (wwWidth Γ (K * Real.exp s) c a) ∧
      HasDerivAt (priceOfSpot kind call K m t v) Δ (K * Real.exp s) ∧
      HasDerivAt (deriv (priceOfSpot kind call K m t v)) Γ (K * Real.exp s) := by
  cases kind with
  | plain k3 =>
    simp only [bsRow]
    rw [bs3, w3]
    cases k3 with
    | european =>
      obtain ⟨Δ, Γ, h1, h2, h3, h4⟩ := greeks_european hK ht hv s m call
      refine ⟨Δ, Γ, ?_, ?_, h3, h4⟩
      · show liftErr (bsEuropeanDelta s t v call) = _
        rw [h1]; rfl
      · show (liftErr (bsEuropeanGamma s t v K)).bind _ = _
        rw [h2]; rfl
    | binary =>
      obtain ⟨Δ, Γ, h1, h2, h3, h4⟩ := greeks_binary hK ht hv s m call
      refine ⟨Δ, Γ, ?_, ?_, h3, h4⟩
      · show liftErr (bsBinaryDelta s t v K call) = _
        rw [h1]; rfl
      · show (liftErr (bsBinaryGamma s t v K call)).bind _ = _
        rw [h2]; rfl
  | pathDep k4 =>
    rw [hc k4 rfl]
    simp only [bsRow]
    rw [bs4, w4]
    cases k4 with
    | americanBinary =>
      rcases lt_or_ge m 0 with hm | hm
      · obtain ⟨Δ, Γ, h1, h2, h3, h4⟩ := greeks_american hK ht hv s m hm
        refine ⟨Δ, Γ, ?_, ?_, h3, h4⟩
        · show liftErr (bsAmericanBinaryDelta s m t v K) = _
          rw [h1]; rfl
        · show (liftErr (bsAmericanBinaryGammaAuto s m t v K)).bind _ = _
          rw [h2]; rfl
      · obtain ⟨h1, h2, h3, h4⟩ := greeks_american_hit hK ht hv s m hm
        refine ⟨0, 0, ?_, ?_, h3, h4⟩
        · show liftErr (bsAmericanBinaryDelta s m t v K) = _
          rw [h1]; rfl
        · show (liftErr (bsAmericanBinaryGammaAuto s m t v K)).bind _ = _
          rw [h2]; rfl
    | lookback =>
      obtain ⟨Δ, Γ, h1, h2, h3, h4⟩ := greeks_lookback hK ht hv s m
      refine ⟨Δ, Γ, ?_, ?_, h3, h4⟩
      · show liftErr (bsLookbackDeltaAuto s m t v K) = _
        rw [h1]; rfl
      · show (liftErr (bsLookbackGammaAuto s m t v K)).bind _ = _
        rw [h2]; rfl

/-- **band rule, every kind.**  With `Δ = ∂price/∂S` and `Γ = ∂²price/∂S²` of the kind's own price at
the row's state and `w = (3 c Γ² S / (2a))^{1/3}`, `S = K eˢ`: the module returns the previous hedge
(the last entry of the row) if it lies within `Δ ± w`, else the nearer edge of the band.  `Δ` is also
what the kind's `BlackScholes` module returns on the row without its last entry. -/
theorem band_rule (kind : Kind) (call : Bool) (hc : CallOK kind call) {K t v c a : ℝ} (hK : 0 < K)
    (ht : 0 < t) (hv : 0 < v) (hc0 : 0 ≤ c) (ha : 0 < a) (s m : ℝ) :
    ∃ Δ Γ, HasDerivAt (priceOfSpot kind call K m t v) Δ (K * Real.exp s) ∧
      HasDerivAt (deriv (priceOfSpot kind call K m t v)) Γ (K * Real.exp s) ∧
      bsForwardRow kind call K (bsRow kind s m t v) = .ok Δ ∧
      0 ≤ halfWidth c Γ (K * Real.exp s) a ∧
      ∀ prev, ∃ y, wwForwardRow kind call K c a (wwRow kind s m t v prev) = .ok y ∧
        (|prev - Δ| ≤ halfWidth c Γ (K * Real.exp s) a → y = prev) ∧
        (Δ + halfWidth c Γ (K * Real.exp s) a < prev → y = Δ + halfWidth c Γ (K * Real.exp s) a) ∧
        (prev < Δ - halfWidth c Γ (K * Real.exp s) a → y = Δ - halfWidth c Γ (K * Real.exp s) a) := by
  obtain ⟨Δ, Γ, h1, h2, h3, h4⟩ := module_greeks kind call hc hK ht hv s m c a
  have hw : wwWidth Γ (K * Real.exp s) c a = halfWidth c Γ (K * Real.exp s) a :=
    C20.ww_width_formula _ _ _ _
  have hnn : 0 ≤ halfWidth c Γ (K * Real.exp s) a := by
    rw [← hw]; exact C20.ww_width_nonneg _ _ _ _ hc0 (spot_pos K s hK).le ha
  refine ⟨Δ, Γ, h3, h4, h1, hnn, fun prev => ⟨wwForward prev Δ (halfWidth c Γ (K * Real.exp s) a), ?_,
    C20.ww_band prev Δ _ hnn⟩⟩
  rw [wwRow, forward_split, h1, h2, hw]
  rfl

/-! ### zero cost: the Black–Scholes delta hedge -/

/-- **zero cost, every kind, ALL real inputs.**  With a cost rate of zero the module returns exactly
what the kind's `BlackScholes` module returns on the row without the previous hedge — whatever the
previous hedge is, and including the inputs on which the Black–Scholes module raises (negative time to
maturity / volatility: the same `ValueError`; a put of a path-dependent kind: the constructor's). -/
theorem zero_cost_row (kind : Kind) (call : Bool) (K a s m t v p : ℝ) :
    wwForwardRow kind call K 0 a (wwRow kind s m t v p)
      = bsForwardRow kind call K (bsRow kind s m t v) := by
  rw [wwRow, forward_split]
  cases hδ : bsForwardRow kind call K (bsRow kind s m t v) with
  | error e => rfl
  | ok δ =>
    have hw : wwWidthRow kind call K 0 a (bsRow kind s m t v) = .ok 0 := by
      cases kind with
      | plain k3 =>
        simp only [bsRow] at hδ ⊢
        rw [bs3] at hδ
        rw [w3]
        cases hf : k3.formula .delta call K s t v with
        | error e => rw [hf] at hδ; cases hδ
        | ok δ' =>
          obtain ⟨γ, hγ⟩ := gamma3_ok_of_delta_ok k3 call K s t v δ' hf
          rw [hγ]
          show Except.ok (wwWidth γ (K * Real.exp s) 0 a) = _
          rw [C20.ww_width_zero_cost]
      | pathDep k4 =>
        cases call with
        | false => cases hδ
        | true =>
          simp only [bsRow] at hδ ⊢
          rw [bs4] at hδ
          rw [w4]
          cases hf : k4.formula .delta K s m t v with
          | error e => rw [hf] at hδ; cases hδ
          | ok δ' =>
            obtain ⟨γ, hγ⟩ := gamma4_ok_of_delta_ok k4 K s m t v δ' hf
            rw [hγ]
            show Except.ok (wwWidth γ (K * Real.exp s) 0 a) = _
            rw [C20.ww_width_zero_cost]
    rw [hw]
    show Except.ok (wwForward p δ 0) = _
    have := C20.ww_zero_cost p δ 0 0 a
    rw [C20.ww_width_zero_cost] at this
    rw [this]

end PfVerif.C20Module

/-! ### the hedger's recurrence, generically -/
namespace PfVerif.C20ModuleAux
open PfVerif PfVerif.C03 PfVerif.C03Aux

/-- the hedges of a recurrent strategy: `step j prev` is the hedge of step `j` when the hedge of the
step before is `prev`; before the first step the hedge is zero -/
def hedgeSeq (step : ℕ → ℝ → ℝ) : ℕ → ℝ
  | 0 => step 0 0
  | j + 1 => step (j + 1) (hedgeSeq step j)

/-- the hedger's `prev_output` when step `i` begins -/
def prevSeq (step : ℕ → ℝ → ℝ) : ℕ → ℝ
  | 0 => 0
  | i + 1 => hedgeSeq step i

theorem hedgeSeq_eq (step : ℕ → ℝ → ℝ) (i : ℕ) : hedgeSeq step i = step i (prevSeq step i) := by
  cases i <;> rfl

theorem any_prev (fsB : List (Feature ℝ)) :
    (fsB ++ [Feature.base .prevHedge]).any Feature.stateDependent = true := by
  simp [List.any_append, Feature.stateDependent, BaseFeature.stateDependent]

theorem appendLast_range_map {β : Type} (f : ℕ → β) (k : ℕ) :
    appendLast ((List.range (k + 1)).map f) = .ok ((List.range (k + 1)).map f ++ [f k]) := by
  rw [appendLast_ok_iff]
  exact ⟨f k, by simp [List.range_succ], rfl⟩

theorem eq_range_map {β : Type} (L : List β) (k : ℕ) (f : ℕ → β) (hl : L.length = k)
    (h : ∀ j, j < k → L[j]? = some (f j)) : L = (List.range k).map f := by
  apply List.ext_getElem?
  intro j
  by_cases hj : j < k
  · rw [h j hj]; simp [hj]
  · rw [List.getElem?_eq_none (by omega), List.getElem?_eq_none (by simp; omega)]

theorem hedgeLoop_recurrent (f : List ℝ → Except AcqErr ℝ) (fsB : List (Feature ℝ))
    (hfs : fsB.any Feature.stateDependent = false) {n : ℕ} {m : Market ℝ} (hm : WellFormed n m)
    (X : List (List ℝ)) (hX : inputsAll n fsB m = .ok X) (step : ℕ → ℝ → ℝ)
    (hf : ∀ j x, j + 1 < n → X[j]? = some x → ∀ p, f (x ++ [p]) = .ok (step j p)) :
    ∀ k i, i + k + 1 ≤ n →
      hedgeLoop (rowModel f) (fsB ++ [Feature.base .prevHedge]) m k i [prevSeq step i]
        = .ok ((List.range' i k).map (fun j => [hedgeSeq step j])) := by
  intro k
  induction k with
  | zero => intro i _; rfl
  | succ k ih =>
    intro i hik
    obtain ⟨x, hx, hXi⟩ := inputs_row fsB hfs hm [prevSeq step i] (show i < n by omega) hX
    have hin : inputsAt (fsB ++ [Feature.base .prevHedge]) m [prevSeq step i] i
        = .ok (x ++ [prevSeq step i]) := by
      rw [inputsAt_append, hx, inputsAt_prevHedge]; rfl
    have hg : rowModel f (x ++ [prevSeq step i]) = [hedgeSeq step i] := by
      unfold rowModel
      rw [hf i x (by omega) hXi, hedgeSeq_eq]
    rw [hedgeLoop_succ, hin, bind_ok, hg]
    have := ih (i + 1) (by omega)
    rw [show prevSeq step (i + 1) = hedgeSeq step i from rfl] at this
    rw [this, bind_ok, pure_eq, List.range'_succ, List.map_cons]

theorem computeHedge_recurrent (f : List ℝ → Except AcqErr ℝ) (fsB : List (Feature ℝ))
    (hfs : fsB.any Feature.stateDependent = false) {n : ℕ} {m : Market ℝ} (hm : WellFormed n m)
    (hn : 2 ≤ n) (X : List (List ℝ)) (hX : inputsAll n fsB m = .ok X) (step : ℕ → ℝ → ℝ)
    (hf : ∀ j x, j + 1 < n → X[j]? = some x → ∀ p, f (x ++ [p]) = .ok (step j p)) :
    computeHedge (rowModel f) (fsB ++ [Feature.base .prevHedge]) m n 1
      = .ok ((List.range (n - 1)).map (fun j => [hedgeSeq step j]) ++ [[hedgeSeq step (n - 2)]]) := by
  obtain ⟨k, rfl⟩ : ∃ k, n = k + 2 := ⟨n - 2, by omega⟩
  have hl := hedgeLoop_recurrent f fsB hfs hm X hX step hf (k + 1) 0 (by omega)
  unfold computeHedge
  rw [if_pos (any_prev fsB)]
  rw [show List.replicate 1 (0 : ℝ) = [prevSeq step 0] from rfl,
    show k + 2 - 1 = k + 1 from rfl, hl, bind_ok, ← List.range_eq_range',
    appendLast_range_map]
  rfl

theorem computeHedge_stateless (f : List ℝ → Except AcqErr ℝ) (fsB : List (Feature ℝ))
    (hfs : fsB.any Feature.stateDependent = false) {n : ℕ} {m : Market ℝ} (hm : WellFormed n m)
    (hn : 2 ≤ n) (X : List (List ℝ)) (hX : inputsAll n fsB m = .ok X) (δ : ℕ → ℝ)
    (hf : ∀ j x, j + 1 < n → X[j]? = some x → f x = .ok (δ j)) :
    computeHedge (rowModel f) fsB m n 1
      = .ok ((List.range (n - 1)).map (fun j => [δ j]) ++ [[δ (n - 2)]]) := by
  obtain ⟨k, rfl⟩ : ∃ k, n = k + 2 := ⟨n - 2, by omega⟩
  obtain ⟨X', hX', hXl⟩ := inputs_getAll_ok fsB hfs hm
  rw [hX] at hX'; cases hX'
  rw [computeHedge_batched_eq _ _ _ _ _ hfs, hX]
  show appendLast (X.dropLast.map (rowModel f)) = _
  have : X.dropLast.map (rowModel f) = (List.range (k + 1)).map (fun j => [δ j]) := by
    apply eq_range_map
    · simp [hXl]
    · intro j hj
      have hjX : j < X.length := by omega
      rw [List.getElem?_map, List.getElem?_dropLast, if_pos (by omega), List.getElem?_eq_getElem hjX]
      show some (rowModel f X[j]) = _
      unfold rowModel
      rw [hf j X[j] (by omega) (List.getElem?_eq_getElem hjX)]
  rw [this, appendLast_range_map]
  rfl

end PfVerif.C20ModuleAux

namespace PfVerif.C20Module
open PfVerif PfVerif.C08Aux PfVerif.C20ModuleAux

/-! ### through the hedger: `Hedger(WhalleyWilmott(d), inputs = m.inputs()).compute_hedge` -/

open PfVerif.C03 in
/-- the input features `inputs()` resolves to: the kind's state-independent features, then `PrevHedge` -/
theorem features_layout (kind : Kind) :
    (featuresOf kind.wwInputs : List (Feature ℝ))
      = featuresOf kind.bsInputs ++ [Feature.base .prevHedge] ∧
    (featuresOf kind.bsInputs : List (Feature ℝ)).any Feature.stateDependent = false ∧
    (featuresOf kind.wwInputs : List (Feature ℝ)).any Feature.stateDependent = true ∧
    (∀ k3, kind = .plain k3 → (featuresOf kind.bsInputs : List (Feature ℝ))
      = [.base (.moneyness true), .base .timeToMaturity, .base .volatility]) ∧
    (∀ k4, kind = .pathDep k4 → (featuresOf kind.bsInputs : List (Feature ℝ))
      = [.base (.moneyness true), .base (.maxMoneyness true), .base .timeToMaturity, .base .volatility]) := by
  cases kind <;>
    simp [featuresOf, Kind.wwInputs, Kind.bsInputs, InputName.feature, Feature.stateDependent,
      BaseFeature.stateDependent]

/-- the recurrence of a hedge sequence, spelled out: the hedge before the first step is zero -/
theorem hedgeSeq_recurrence (step : ℕ → ℝ → ℝ) :
    hedgeSeq step 0 = step 0 0 ∧ ∀ j, hedgeSeq step (j + 1) = step (j + 1) (hedgeSeq step j) :=
  ⟨rfl, fun _ => rfl⟩

/-- zero cost on ANY row: the Black–Scholes module on the row without its last entry (rows of a wrong
length included: both sides are the same error) -/
theorem zero_cost_any_row (kind : Kind) (call : Bool) (K a : ℝ) (xs : List ℝ) (p : ℝ) :
    wwForwardRow kind call K 0 a (xs ++ [p]) = bsForwardRow kind call K xs := by
  cases hδ : bsForwardRow kind call K xs with
  | error e => rw [forward_split, hδ]; rfl
  | ok δ =>
    have hrow : ∃ s m t v, xs = bsRow kind s m t v := by
      cases kind with
      | plain k3 =>
        match xs, hδ with
        | [], h => cases call <;> cases h
        | [_], h => cases call <;> cases h
        | [_, _], h => cases call <;> cases h
        | [s, t, v], _ => exact ⟨s, 0, t, v, rfl⟩
        | _ :: _ :: _ :: _ :: _, h => cases call <;> cases h
      | pathDep k4 =>
        cases call with
        | false => cases hδ
        | true =>
          match xs, hδ with
          | [], h => cases h
          | [_], h => cases h
          | [_, _], h => cases h
          | [_, _, _], h => cases h
          | [s, m, t, v], _ => exact ⟨s, m, t, v, rfl⟩
          | _ :: _ :: _ :: _ :: _ :: _, h => cases h
    obtain ⟨s, m, t, v, rfl⟩ := hrow
    rw [← hδ]
    exact zero_cost_row kind call K a s m t v p

/-- **recurrence through the hedger, every kind, any cost.**  On a well-formed market of `n ≥ 2` time
steps, let `X` be the all-steps value of the kind's state-independent input features, and suppose the
Black–Scholes module and `width` are defined on the rows of the steps `0 … n−2` with values `δ j`,
`wd j`.  Then `compute_hedge` of the hedger whose model is the Whalley–Wilmott module and whose inputs
are `inputs()` (the recurrent `prev_hedge` last) returns, for one path, the `n` rows
`[h 0], …, [h (n−2)], [h (n−2)]` with `h j = clamp(h (j−1), δ j ± wd j)` and `h (−1) = 0`. -/
theorem hedger_recurrence (kind : Kind) (call : Bool) (K c a : ℝ) {n : ℕ} {m : Market ℝ}
    (hm : C03.WellFormed n m) (hn : 2 ≤ n) (X : List (List ℝ))
    (hX : inputsAll n (featuresOf kind.bsInputs) m = .ok X) (δ wd : ℕ → ℝ)
    (hb : ∀ j x, j + 1 < n → X[j]? = some x →
      bsForwardRow kind call K x = .ok (δ j) ∧ wwWidthRow kind call K c a x = .ok (wd j)) :
    computeHedge (rowModel (wwForwardRow kind call K c a)) (featuresOf kind.wwInputs) m n 1
      = .ok ((List.range (n - 1)).map (fun j => [hedgeSeq (fun j p => wwForward p (δ j) (wd j)) j])
          ++ [[hedgeSeq (fun j p => wwForward p (δ j) (wd j)) (n - 2)]]) := by
  obtain ⟨h1, h2, -, -, -⟩ := features_layout kind
  rw [h1]
  refine computeHedge_recurrent _ _ h2 hm hn X hX _ (fun j x hj hx p => ?_)
  obtain ⟨hd, hw⟩ := hb j x hj hx
  rw [forward_split, hd, hw]
  rfl

/-- **zero cost through the hedger: the Whalley–Wilmott hedger IS the Black–Scholes delta hedger.**
Under the same premises (the Black–Scholes module defined on the rows of the steps `0 … n−2`, with
values `δ j`), for cost zero the hedge computed through the recurrence (state-dependent branch, the
`prev_hedge` input fed back step by step) equals the hedge the `BlackScholes` module computes on the
state-independent features (batched branch): the rows `[δ 0], …, [δ (n−2)], [δ (n−2)]`. -/
theorem zero_cost_hedger (kind : Kind) (call : Bool) (K a : ℝ) {n : ℕ} {m : Market ℝ}
    (hm : C03.WellFormed n m) (hn : 2 ≤ n) (X : List (List ℝ))
    (hX : inputsAll n (featuresOf kind.bsInputs) m = .ok X) (δ : ℕ → ℝ)
    (hb : ∀ j x, j + 1 < n → X[j]? = some x → bsForwardRow kind call K x = .ok (δ j)) :
    computeHedge (rowModel (wwForwardRow kind call K 0 a)) (featuresOf kind.wwInputs) m n 1
      = computeHedge (rowModel (bsForwardRow kind call K)) (featuresOf kind.bsInputs) m n 1 ∧
    computeHedge (rowModel (bsForwardRow kind call K)) (featuresOf kind.bsInputs) m n 1
      = .ok ((List.range (n - 1)).map (fun j => [δ j]) ++ [[δ (n - 2)]]) := by
  obtain ⟨h1, h2, -, -, -⟩ := features_layout kind
  have hbs := computeHedge_stateless (bsForwardRow kind call K) _ h2 hm hn X hX δ hb
  refine ⟨?_, hbs⟩
  rw [hbs, h1, computeHedge_recurrent _ _ h2 hm hn X hX (fun j _ => δ j)
    (fun j x hj hx p => by rw [zero_cost_any_row, hb j x hj hx])]
  have hs : ∀ j, hedgeSeq (fun j _ => δ j) j = δ j := fun j => by cases j <;> rfl
  simp only [hs]

/-- the premises of the two hedger theorems hold on the open domain: on a row of the kind's state with
`K, t, v > 0` the Black–Scholes module and `width` are defined (and are the spot derivatives of
`module_greeks`) -/
theorem band_defined (kind : Kind) (call : Bool) (hc : CallOK kind call) {K t v : ℝ} (hK : 0 < K)
    (ht : 0 < t) (hv : 0 < v) (s m c a : ℝ) :
    ∃ Δ wd, bsForwardRow kind call K (bsRow kind s m t v) = .ok Δ ∧
      wwWidthRow kind call K c a (bsRow kind s m t v) = .ok wd := by
  obtain ⟨Δ, Γ, h1, h2, -, -⟩ := module_greeks kind call hc hK ht hv s m c a
  exact ⟨Δ, _, h1, h2⟩

/-! ### non-vacuity -/

/-- the premises of `band_rule` hold for the lookback option (FIVE inputs) at
`log_moneyness = max_log_moneyness = 0`, `t = v = K = 1`, cost rate `1/100`, `a = 1`; the row is
`[0, 0, 1, 1, 1/2]`: previous hedge `1/2`, volatility `1` -/
example :
    ∃ Δ Γ, HasDerivAt (priceOfSpot (.pathDep .lookback) true 1 0 1 1) Δ (1 * Real.exp 0) ∧
      HasDerivAt (deriv (priceOfSpot (.pathDep .lookback) true 1 0 1 1)) Γ (1 * Real.exp 0) ∧
      ∃ y : ℝ, wwForwardRow (.pathDep .lookback) true (1 : ℝ) (1 / 100) 1 [0, 0, 1, 1, 1 / 2] = .ok y ∧
        (|1 / 2 - Δ| ≤ halfWidth (1 / 100) Γ (1 * Real.exp 0) 1 → y = 1 / 2) := by
  obtain ⟨Δ, Γ, h1, h2, -, -, h5⟩ := band_rule (.pathDep .lookback) true (fun _ _ => rfl)
    (K := 1) (t := 1) (v := 1) (c := 1 / 100) (a := 1) one_pos one_pos one_pos (by norm_num) one_pos 0 0
  obtain ⟨y, hy, hin, -, -⟩ := h5 (1 / 2)
  exact ⟨Δ, Γ, h1, h2, y, hy, hin⟩

/-- … and what is clamped on that row is its last entry `1/2`, not the volatility `1` in column 3 -/
example (y : ℝ)
    (h : wwForwardRow (.pathDep .lookback) true (1 : ℝ) (1 / 100) 1 [0, 0, 1, 1, 1 / 2] = .ok y) :
    ∃ δ wd, y = wwForward (1 / 2) δ wd ∧
      bsForwardRow (.pathDep .lookback) true (1 : ℝ) [0, 0, 1, 1] = .ok δ := by
  obtain ⟨p, δ, wd, hp, hδ, -, hy⟩ := forward_clamps_last _ _ _ _ _ _ _ h
  simp only [List.getLast?_cons_cons, List.getLast?_singleton, Option.some.injEq] at hp
  subst hp
  exact ⟨δ, wd, hy, by simpa using hδ⟩

/-- wrong lengths on the five-input kind: no column, four columns (volatility taken for the previous
hedge, nothing left for the volatility), six columns -/
example :
    wwForwardRow (.pathDep .lookback) true (1 : ℝ) 0 1 [] = .error (.lower .runtimeError) ∧
    wwForwardRow (.pathDep .lookback) true (1 : ℝ) 0 1 [0, 0, 1, 1] = .error .attributeError ∧
    wwForwardRow (.pathDep .lookback) true (1 : ℝ) 0 1 [0, 0, 1, 1, 1 / 2, 7] = .error (.lower .typeError) :=
  ⟨rfl, rfl, rfl⟩

open PfVerif.C08DualAux Transc in
/-- zero cost on the same five-column row: the result is the lookback delta `5/2 Φ(1/2) + φ(1/2)` of the
state — neither the previous hedge `1/2` (last column) nor the volatility `1` (column 3) -/
example :
    wwForwardRow (.pathDep .lookback) true (1 : ℝ) 0 1 [0, 0, 1, 1, 1 / 2]
      = .ok (5 / 2 * Phi (1 / 2) + phi (1 / 2)) := by
  have h := zero_cost_row (.pathDep .lookback) true 1 1 0 0 1 1 (1 / 2)
  simp only [wwRow, bsRow, List.cons_append, List.nil_append] at h
  rw [h, bs4]
  show liftErr (bsLookbackDeltaAuto 0 0 1 1 1) = _
  unfold bsLookbackDeltaAuto autoDelta
  dsimp only
  have hsp : (Transc.exp (0 : ℝ) * 1 : ℝ) = 1 := by simp [Transc.exp]
  rw [hsp, lookback_eq (guards_dual one_pos one_pos)]
  have hb : ¬ exp (Dual.const (0 : ℝ)) * Dual.const (1 : ℝ) < Dual.const (1 : ℝ) := by
    show ¬ Real.exp 0 * 1 < 1
    simp
  rw [if_neg hb]
  show Except.ok _ = Except.ok _
  congr 1
  simp [lb1E, d1E, d2E, wE, two_val, two_eps, phi_neg, Dual.var, Dual.const]
  ring

open PfVerif.BSCalc in
/-- **the last column matters, on a five-column row.**  American binary at `log_moneyness = −1/2`,
`max_log_moneyness = −1/4` (not yet hit), `t = v = K = 1`, cost rate `1`, `a = 1`: the gamma of the
state is `φ(0)·e^{1/2} ≠ 0`, the band has positive width, and two rows that differ ONLY in the last
column (same volatility `1` in column 3) give different hedges -/
example : ∃ p p' y y' : ℝ,
    wwForwardRow (.pathDep .americanBinary) true (1 : ℝ) 1 1 [-1 / 2, -1 / 4, 1, 1, p] = .ok y ∧
    wwForwardRow (.pathDep .americanBinary) true (1 : ℝ) 1 1 [-1 / 2, -1 / 4, 1, 1, p'] = .ok y' ∧
    y ≠ y' := by
  obtain ⟨Δ, Γ, -, h2, -, -, h5⟩ := band_rule (.pathDep .americanBinary) true (fun _ _ => rfl)
    (K := 1) (t := 1) (v := 1) (c := 1) (a := 1) one_pos one_pos one_pos zero_le_one one_pos
    (-1 / 2) (-1 / 4)
  have hS : (0 : ℝ) < 1 * Real.exp (-1 / 2) := by positivity
  have hg := C08.american_binary_gamma_second (m := -1 / 4) hS one_pos one_pos one_pos (by norm_num)
  have hΓ : Γ = phi 0 / Real.exp (-1 / 2) := by
    rw [h2.unique hg, C08DualAux.log_spot 1 (-1 / 2) one_pos, american_gamma_ok one_pos one_pos,
      if_pos (by norm_num), val_ok]
    norm_num [amGammaExpr, d1, d2]
  have hΓ0 : Γ ≠ 0 := by
    rw [hΓ]; exact (div_pos (phi_pos 0) (Real.exp_pos _)).ne'
  have hw : 0 < halfWidth 1 Γ (1 * Real.exp (-1 / 2)) 1 := by
    unfold halfWidth
    apply Real.rpow_pos_of_pos
    have : 0 < Γ ^ 2 := by positivity
    positivity
  obtain ⟨y, hy, -, hup, -⟩ := h5 (Δ + halfWidth 1 Γ (1 * Real.exp (-1 / 2)) 1 + 1)
  obtain ⟨y', hy', -, -, hlo⟩ := h5 (Δ - halfWidth 1 Γ (1 * Real.exp (-1 / 2)) 1 - 1)
  refine ⟨_, _, y, y', hy, hy', ?_⟩
  rw [hup (by linarith), hlo (by linarith)]
  intro h
  linarith

/-- a market of three time steps: spot and strike `1`, volatility `1`, `dt = 1` -/
def exMarket : Market ℝ :=
  { spot := [1, 1, 1], variance := [1, 1, 1], volatility := [1, 1, 1], listed := [1, 1, 1], dt := 1,
    strike := 1, oracle := [0, 0, 0] }

theorem exMarket_inputs :
    C03.WellFormed 3 exMarket ∧
    inputsAll 3 (featuresOf (Kind.pathDep .lookback).bsInputs) exMarket
      = .ok [[0, 0, 2, 1], [0, 0, 1, 1], [0, 0, 0, 1]] := by
  refine ⟨by simp [C03.WellFormed, exMarket], ?_⟩
  simp [featuresOf, Kind.bsInputs, InputName.feature, inputsAll, Feature.getAll, BaseFeature.getAll,
    exMarket, logIf, Transc.log, cummaxL, cummaxL.go, List.range, List.range.loop,
    C03Aux.bind_ok, C03Aux.pure_eq]
  norm_num

/-- the premises of the two hedger theorems are satisfiable for a FIVE-input kind (lookback) on a
concrete path, with their conclusions: at zero cost the recurrent Whalley–Wilmott hedge is the
Black–Scholes delta hedge; at a positive cost it is the clamp recurrence started from zero -/
example : ∃ δ wd : ℕ → ℝ,
    (∀ j x, j + 1 < 3 → [[0, 0, 2, 1], [0, 0, 1, 1], [0, 0, 0, (1 : ℝ)]][j]? = some x →
      bsForwardRow (.pathDep .lookback) true 1 x = .ok (δ j) ∧
      wwWidthRow (.pathDep .lookback) true 1 (1 / 100) 1 x = .ok (wd j)) ∧
    computeHedge (rowModel (wwForwardRow (.pathDep .lookback) true 1 0 1))
        (featuresOf (Kind.pathDep .lookback).wwInputs) exMarket 3 1
      = computeHedge (rowModel (bsForwardRow (.pathDep .lookback) true 1))
          (featuresOf (Kind.pathDep .lookback).bsInputs) exMarket 3 1 ∧
    computeHedge (rowModel (bsForwardRow (.pathDep .lookback) true 1))
        (featuresOf (Kind.pathDep .lookback).bsInputs) exMarket 3 1 = .ok [[δ 0], [δ 1], [δ 1]] ∧
    computeHedge (rowModel (wwForwardRow (.pathDep .lookback) true 1 (1 / 100) 1))
        (featuresOf (Kind.pathDep .lookback).wwInputs) exMarket 3 1
      = .ok [[wwForward 0 (δ 0) (wd 0)], [wwForward (wwForward 0 (δ 0) (wd 0)) (δ 1) (wd 1)],
          [wwForward (wwForward 0 (δ 0) (wd 0)) (δ 1) (wd 1)]] := by
  obtain ⟨hm, hX⟩ := exMarket_inputs
  obtain ⟨Δ0, w0, hd0, hw0⟩ := band_defined (.pathDep .lookback) true (fun _ _ => rfl)
    (K := 1) (t := 2) (v := 1) one_pos two_pos one_pos 0 0 (1 / 100) 1
  obtain ⟨Δ1, w1, hd1, hw1⟩ := band_defined (.pathDep .lookback) true (fun _ _ => rfl)
    (K := 1) (t := 1) (v := 1) one_pos one_pos one_pos 0 0 (1 / 100) 1
  have hb : ∀ j x, j + 1 < 3 → [[0, 0, 2, 1], [0, 0, 1, 1], [0, 0, 0, (1 : ℝ)]][j]? = some x →
      bsForwardRow (.pathDep .lookback) true 1 x = .ok ((fun j => if j = 0 then Δ0 else Δ1) j) ∧
      wwWidthRow (.pathDep .lookback) true 1 (1 / 100) 1 x
        = .ok ((fun j => if j = 0 then w0 else w1) j) := by
    intro j x hj hx
    match j, hj with
    | 0, _ => cases hx; exact ⟨hd0, hw0⟩
    | 1, _ => cases hx; exact ⟨hd1, hw1⟩
  obtain ⟨e1, e2⟩ := zero_cost_hedger (.pathDep .lookback) true 1 1 hm (by norm_num) _ hX _
    (fun j x hj hx => (hb j x hj hx).1)
  have e3 := hedger_recurrence (.pathDep .lookback) true 1 (1 / 100) 1 hm (by norm_num) _ hX _ _ hb
  exact ⟨_, _, hb, e1, e2, e3⟩

end PfVerif.C20Module
