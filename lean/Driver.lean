import PfVerif.Driver.All
open Lean PfVerif.Driver

partial def loop (h : IO.FS.Stream) (out : IO.FS.Stream) : IO Unit := do
  let line ← h.getLine
  if line.isEmpty then return ()
  let res : Json :=
    match Json.parse line with
    | .error e => Json.mkObj [("bad", Json.str e)]
    | .ok j =>
      match (do let op ← getStr (← field j "op"); dispatch op j : R Json) with
      | .ok r => r
      | .error e => Json.mkObj [("bad", Json.str e)]
  out.putStrLn res.compress
  loop h out

def main : IO Unit := do
  loop (← IO.getStdin) (← IO.getStdout)
