import PfVerif.Model.Basic
import PfVerif.Model.PL
import PfVerif.Lemmas.ListR
import PfVerif.Props.C01
import PfVerif.Driver.All
import PfVerif.Audit.Tool
