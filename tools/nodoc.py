#!/usr/bin/env python3
"""print a python file without docstrings/blank lines, keeping original line numbers"""
import ast, sys
src = open(sys.argv[1]).read()
tree = ast.parse(src)
skip = set()
for node in ast.walk(tree):
    if isinstance(node, (ast.FunctionDef, ast.ClassDef, ast.AsyncFunctionDef, ast.Module)):
        b = node.body
        if b and isinstance(b[0], ast.Expr) and isinstance(getattr(b[0], 'value', None), ast.Constant) and isinstance(b[0].value.value, str):
            for i in range(b[0].lineno, b[0].end_lineno + 1):
                skip.add(i)
for i, l in enumerate(src.splitlines(), 1):
    if i in skip or not l.strip():
        continue
    print(f"{i:4d} {l}")
