#!/usr/bin/env python3
"""Regenerate the table "which checks catch which seeded changes" in DESIGN.md (between the
SEEDED-TABLE markers) from seeded/*/meta.json and seeded/detection.json."""
import json, os, glob, re
V = os.path.dirname(os.path.dirname(os.path.abspath(__file__)))
det = json.load(open(f"{V}/seeded/detection.json"))
rows = []
for d in sorted(glob.glob(f"{V}/seeded/C*_[mnpqrstuv]*")):
    sid = os.path.basename(d)
    m = json.load(open(f"{d}/meta.json"))
    r = det.get(sid, {})
    summ = (m.get("summary") or "").replace("|", "/").replace("\n", " ")
    if len(summ) > 230:
        summ = summ[:227] + "..."
    needs = (m.get("needs") or "").replace("|", "/").replace("\n", " ")
    if len(needs) > 160:
        needs = needs[:157] + "..."
    keys = ", ".join(f"`{k}`" for k in (r.get("keys") or [])[:3]) or "—"
    status = "detected" if r.get("detected") else ("MISSED" if r else "not run")
    if r.get("detected") and any("no-failing-input-found" in v for v in r.get("violations", [])):
        status = "detected (tie broken, no failing input found)"
    rows.append(f"| {sid} | {summ} | {needs} | {status}: {keys} |")
tab = ["| id | change | needs, to manifest | `./check` (quick tier) result: failure keys |", "|----|--------|--------------------|-----------------------------|"] + rows
n_det = sum(1 for s in det.values() if s.get("detected"))
head = f"{len(rows)} seeded changes archived under `seeded/`; {n_det} of {len(det)} evaluated are detected by the quick tier of the property's own check.\n\n"
p = f"{V}/DESIGN.md"
s = open(p).read()
b, e = "<!-- SEEDED-TABLE-BEGIN -->", "<!-- SEEDED-TABLE-END -->"
assert b in s and e in s
s = s[:s.index(b) + len(b)] + "\n" + head + "\n".join(tab) + "\n" + s[s.index(e):]
open(p, "w").write(s)
print(head)
