#!/bin/sh
# development aid: tools/quick_detect.sh <Cxx> <patch.diff> [tier]  -- run the check against a scratch worktree of /repo HEAD with the patch applied
# (own replay directory, so several of these may run side by side, also for one property)
prop=$1; diff=$(readlink -f "$2"); tier=${3:-quick}
wt=/tmp/ws/qd_$$; rd=/tmp/ws/qd_replays_$$
mkdir -p /tmp/ws
git -C /repo worktree add -q --detach $wt HEAD || exit 2
if git -C $wt apply $diff 2>/dev/null || git -C $wt apply --3way $diff 2>/dev/null; then
  cd "$(dirname "$0")/.." && PFHEDGE_REPO=$wt VERIF_DEV_SKIP_LEAN=1 VERIF_DEV_REPLAY_DIR=$rd ./check $prop --tier $tier 2>&1 | grep -v "Warning\|KNOWN-FINDING" | tail -4
  for r in $(ls $rd/$prop-*.json 2>/dev/null | head -3); do python3 -c "
import json;r=json.load(open('$r'));print('   key:',r.get('key'),'|',(r.get('what') or str(r.get('ties_broken'))[:300])[:300])"; done
else
  echo "PATCH DOES NOT APPLY"
fi
rm -rf $rd
git -C /repo worktree remove --force $wt
