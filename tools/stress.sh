#!/bin/bash
# multi-seed false-alarm stress on the clean tree: tools/stress.sh <tier> <first-seed> <n-seeds> <parallel> [props...]
# (development aid; skips the Lean gate, writes no evidence; failures keep their log and replay under /tmp/stress)
tier=$1; s0=$2; n=$3; par=${4:-4}; shift 4
props=${*:-C01 C02 C03 C04 C05 C06 C07 C08 C09 C10 C11 C12 C13 C14 C15 C16 C17 C18 C19 C20}
cd "$(dirname "$0")/.."
mkdir -p /tmp/stress
one() {
  c=$1; tier=$2; s0=$3; n=$4
  for ((i=0; i<n; i++)); do
    sd=$((s0+i))
    log=/tmp/stress/$c.$tier.$sd.log
    start=$(date +%s)
    VERIF_SEED=$sd VERIF_DEV_SKIP_LEAN=1 ./check $c --tier $tier > $log 2>&1
    rc=$?
    el=$(( $(date +%s) - start ))
    if [ $rc -ne 0 ]; then
      echo "FAIL $c tier=$tier seed=$sd rc=$rc ${el}s :: $(grep -v KNOWN $log | tail -1 | cut -c1-200)"
      for r in $(grep -o 'replay=[^ ]*' $log | cut -d= -f2); do cp $r /tmp/stress/$c.$tier.$sd.$(basename $r) 2>/dev/null; done
    else
      echo "ok   $c tier=$tier seed=$sd ${el}s"
      rm -f $log
    fi
  done
}
export -f one
printf "%s\n" $props | xargs -P $par -I{} bash -c "one {} $tier $s0 $n"
