#!/bin/sh
# multi-seed false-alarm stress on the clean tree: tools/stress.sh <tier> <first-seed> <n-seeds> [props...]
# (development aid; skips the Lean gate; failures keep their replay under /tmp/stress)
tier=$1; s0=$2; n=$3; shift 3
props=${*:-C01 C02 C03 C04 C05 C06 C07 C08 C09 C10 C11 C12 C13 C14 C15 C16 C17 C18 C19 C20}
cd "$(dirname "$0")/.."
mkdir -p /tmp/stress
one() {
  c=$1
  i=0
  while [ $i -lt $n ]; do
    sd=$((s0+i))
    VERIF_SEED=$sd VERIF_DEV_SKIP_LEAN=1 ./check $c --tier $tier > /tmp/stress/$c.$tier.$sd.log 2>&1
    rc=$?
    if [ $rc -ne 0 ]; then
      echo "FAIL $c tier=$tier seed=$sd rc=$rc :: $(grep -v KNOWN /tmp/stress/$c.$tier.$sd.log | tail -1 | cut -c1-200)"
      for r in $(grep -o 'replay=[^ ]*' /tmp/stress/$c.$tier.$sd.log | cut -d= -f2); do cp $r /tmp/stress/$c.$tier.$sd.$(basename $r) 2>/dev/null; done
    else
      rm -f /tmp/stress/$c.$tier.$sd.log
    fi
    i=$((i+1))
  done
  echo "done $c"
}
for c in $props; do one $c & 
  while [ $(jobs -r | wc -l) -ge 6 ]; do sleep 2; done
done
wait
