#!/usr/bin/env python3
"""regenerate MANIFEST.json from tools/manifest_src.json (claimed checks) + properties.jsonl"""
import json, os
V = os.path.dirname(os.path.dirname(os.path.abspath(__file__)))
src = json.load(open(os.path.join(V, "tools", "manifest_src.json")))
props = [json.loads(l) for l in open(os.path.join(V, "properties.jsonl"))]
checks, na = [], []
for p in props:
    pid = p["id"]
    c = src["checks"].get(pid)
    if c is None:
        na.append({"property_id": pid, "reason": src["not_applicable"].get(pid, "check not built yet in this framework (no model/theorem/correspondence committed); not claimed")})
        continue
    checks.append({
        "property_id": pid,
        "quick_cmd": f"./check {pid} --tier quick",
        "thorough_cmd": f"./check {pid} --tier thorough",
        "evidence_file": f"evidence/{pid}.json",
        "replay_cmd_template": f"./check {pid} --replay {{path}}",
        "engine": "lean4-model+correspondence",
        "level_claimed": {"category": c.get("category", "proof"), "text": c["text"], "design_ref": c["design_ref"]},
        "level_note": c["note"],
        "technique": c["technique"],
    })
m = {
    "version": 1,
    "setup_cmd": "cd lean && lake build",
    "hooks": {"guard": "PFHEDGE_VERIF", "enable": "no source hooks are needed: the harness observes pfhedge in-process by wrapping/subclassing (PFHEDGE_VERIF=1 is exported by ./check for completeness)",
              "baseline_off_cmd": "cd /repo && /venv/bin/python -m pytest -ra -q -p no:cacheprovider --timeout=900 --continue-on-collection-errors tests",
              "source_commits": [], "add_only": True},
    "engines": [{"name": "lean4-model+correspondence", "path": "lean/ + harness/",
                 "serves_properties": [c["property_id"] for c in checks],
                 "kind_free_text": "Lean 4 theorems about a hand-written executable model (PfVerif.Model.*, Mathlib-free, scalar-generic) + differential correspondence check of that model against /repo through a JSON line protocol (lake env lean --run Driver.lean)"}],
    "checks": checks,
    "notes": src.get("notes", ""),
    "not_applicable": na,
}
json.dump(m, open(os.path.join(V, "MANIFEST.json"), "w"), indent=1)
print(len(checks), "checks;", len(na), "not claimed")
