#!/usr/bin/env python3
"""development aid: rewrite the theorem counts of DESIGN §11.17 (and the leading count of each manifest text) from the
evidence files of the last full run (evidence/Cxx.json: coverage.obligations and coverage.checker_cmd)."""
import json, re, os, glob
V = os.path.dirname(os.path.dirname(os.path.abspath(__file__)))
rows, total = [], 0
for i in range(1, 21):
    c = f"C{i:02d}"
    e = json.load(open(f"{V}/evidence/{c}.json"))
    n = e["coverage"]["obligations"]
    assert n == e["coverage"]["discharged"], c
    mods = re.findall(r"PfVerif\.(Props\.C\d+|Lemmas\.\w+)", e["coverage"]["checker_cmd"].split("&&")[1])
    rows.append(f"| {c} | {n} | " + ", ".join(f"`{m}`" for m in mods) + " |")
    total += n
s = open(f"{V}/DESIGN.md").read()
a = s.index("| check | theorems | modules audited with the property |")
b = s.index("\n\n", a)
table = "| check | theorems | modules audited with the property |\n|-------|----------|-----------------------------------|\n" + "\n".join(rows)
s = s[:a] + table + s[b:]
n_model = len(glob.glob(f"{V}/lean/PfVerif/Model/*.lean"))
n_driver = len(glob.glob(f"{V}/lean/PfVerif/Driver/*.lean"))
ops = len(re.findall(r'^\s*\| "[a-z_0-9]+" =>', open(f"{V}/lean/PfVerif/Driver/All.lean").read(), re.M))
s = re.sub(r"Total: \d+ theorems in 20 checks; model and driver: \d+ model files \(core Lean only\) and \d+ driver files\n\(\d+ ops of the line protocol\)",
           f"Total: {total} theorems in 20 checks; model and driver: {n_model} model files (core Lean only) and {n_driver} driver files\n({ops} ops of the line protocol)", s)
open(f"{V}/DESIGN.md", "w").write(s)
print(total, n_model, n_driver, ops)
