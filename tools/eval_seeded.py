#!/usr/bin/env python3
"""Confirm and archive seeded changes produced by the independent sub-agents, then run the checks
against each.

  eval_seeded.py confirm  [Cxx ...]   # scratch worktrees under /tmp/ws: demo passes without / fails with the change,
                                      # test-suite outcome unchanged; archives into /verif/seeded/<id>/
  eval_seeded.py detect   [id ...]    # git -C /repo apply; ./check <prop>; git -C /repo checkout -- .   (sequential)
"""
import json, os, subprocess, sys, shutil, glob, re, concurrent.futures as cf

V = os.path.dirname(os.path.dirname(os.path.abspath(__file__)))
SRC = os.environ.get("SEEDED_SRC", "/tmp/wt")
TAG = os.environ.get("SEEDED_TAG", "m")      # round 1: m, round 2: n
WS = "/tmp/ws"
PY = "/venv/bin/python"


def sh(cmd, cwd=None, env=None, timeout=3600):
    p = subprocess.run(cmd, cwd=cwd, env=env, shell=isinstance(cmd, str), capture_output=True, text=True, timeout=timeout)
    return p.returncode, p.stdout + p.stderr


def suite(wt):
    env = dict(os.environ, PYTHONPATH=wt, PYTHONDONTWRITEBYTECODE="1")
    rc, out = sh(f"{PY} -m pytest -q -p no:cacheprovider --timeout=900 tests -k 'not _gpu' 2>&1 | tail -15", cwd=wt, env=env, timeout=3000)
    m = re.search(r"(\d+) failed", out)
    p = re.search(r"(\d+) passed", out)
    failed = sorted(set(re.findall(r"FAILED (\S+)", out)))
    return {"passed": int(p.group(1)) if p else None, "failed": int(m.group(1)) if m else 0, "failed_tests": failed}


def confirm_one(args):
    prop, idx, base = args
    sid = f"{prop}_{TAG}{idx}"
    out = f"{SRC}/{prop}/out"
    diff, demo, meta = f"{out}/m{idx}.diff", f"{out}/demo_m{idx}.py", f"{out}/meta_m{idx}.json"
    if not (os.path.exists(diff) and os.path.exists(demo)):
        return sid, {"status": "missing files"}
    wt = f"{WS}/{sid}"
    sh(["git", "-C", "/repo", "worktree", "remove", "--force", wt])
    shutil.rmtree(wt, ignore_errors=True)
    rc, o = sh(["git", "-C", "/repo", "worktree", "add", "-q", "--detach", wt, "HEAD"])
    if rc:
        return sid, {"status": "worktree failed: " + o[-200:]}
    res = {"property": prop}
    try:
        env = dict(os.environ, PYTHONPATH=wt, PYTHONDONTWRITEBYTECODE="1")
        rc0, o0 = sh([PY, demo], cwd=wt, env=env, timeout=600)
        res["demo_without_rc"] = rc0
        rc, o = sh(["git", "apply", diff], cwd=wt)
        how = "git apply"
        if rc:
            rc, o = sh(["git", "apply", "--3way", diff], cwd=wt)
            how = "git apply --3way"
        if rc:
            res["status"] = "patch does not apply to the current tree (superseded by a fix: commit?)"
            res["apply_log"] = o[-300:]
            return sid, res
        res["applied_with"] = how
        rc1, o1 = sh([PY, demo], cwd=wt, env=env, timeout=600)
        res["demo_with_rc"] = rc1
        res["demo_with_msg"] = o1.strip()[-300:]
        st = suite(wt)
        res["suite_with_change"] = st
        res["suite_baseline"] = base
        same = st["passed"] == base["passed"] and st["failed_tests"] == base["failed_tests"]
        res["suite_unchanged"] = same
        ok = rc0 == 0 and rc1 != 0 and same
        res["status"] = "confirmed" if ok else "rejected"
        if ok:
            d = f"{V}/seeded/{sid}"
            os.makedirs(d, exist_ok=True)
            rc, patch = sh(["git", "diff", "HEAD"], cwd=wt)
            open(f"{d}/patch.diff", "w").write(patch)
            shutil.copy(demo, f"{d}/demo.py")
            m = json.load(open(meta)) if os.path.exists(meta) else {}
            m.update({"id": sid, "property": prop, "needs": m.get("needs"), "summary": m.get("summary"),
                      "confirmed": {"demo_without_change_rc": rc0, "demo_with_change_rc": rc1, "demo_message": res["demo_with_msg"],
                                    "suite_with_change": st, "suite_baseline": base,
                                    "what_i_ran": f"scratch worktree of /repo HEAD; {how} <patch>; PYTHONPATH=<worktree> {PY} demo.py; "
                                                  f"PYTHONPATH=<worktree> {PY} -m pytest -q tests -k 'not _gpu'"}})
            json.dump(m, open(f"{d}/meta.json", "w"), indent=1)
        return sid, res
    finally:
        sh(["git", "-C", "/repo", "worktree", "remove", "--force", wt])
        shutil.rmtree(wt, ignore_errors=True)


def confirm(props):
    os.makedirs(WS, exist_ok=True)
    wt = f"{WS}/baseline"
    sh(["git", "-C", "/repo", "worktree", "remove", "--force", wt])
    sh(["git", "-C", "/repo", "worktree", "add", "-q", "--detach", wt, "HEAD"])
    base = suite(wt)
    sh(["git", "-C", "/repo", "worktree", "remove", "--force", wt])
    print("baseline", base)
    jobs = []
    for prop in props:
        for f in sorted(glob.glob(f"{SRC}/{prop}/out/m*.diff")):
            idx = re.search(r"m(\d+)\.diff", f).group(1)
            if os.path.exists(f"{V}/seeded/{prop}_{TAG}{idx}/meta.json"):
                continue
            jobs.append((prop, idx, base))
    with cf.ThreadPoolExecutor(max_workers=6) as ex:
        for sid, res in ex.map(confirm_one, jobs):
            print(sid, res.get("status"), {k: res[k] for k in ("demo_without_rc", "demo_with_rc", "suite_unchanged") if k in res})
            os.makedirs(f"{V}/seeded", exist_ok=True)
            log = f"{V}/seeded/confirm_log.json"
            L = json.load(open(log)) if os.path.exists(log) else {}
            L[sid] = res
            json.dump(L, open(log, "w"), indent=1)


def detect(ids, tier="quick", extra_props=()):
    results = {}
    resf = f"{V}/seeded/detection.json"
    if os.path.exists(resf):
        results = json.load(open(resf))
    for sid in ids:
        d = f"{V}/seeded/{sid}"
        meta = json.load(open(f"{d}/meta.json"))
        prop = meta["property"]
        rc, o = sh(["git", "-C", "/repo", "status", "--porcelain"])
        if o.strip():
            print("REPO NOT CLEAN", o)
            sys.exit(2)
        rc, o = sh(["git", "-C", "/repo", "apply", f"{d}/patch.diff"])
        if rc:
            results[sid] = {"status": "patch does not apply", "log": o[-200:]}
            continue
        try:
            env = dict(os.environ, VERIF_SEED=os.environ.get("VERIF_SEED", "20260930"))
            rc, out = sh([f"{V}/check", prop, "--tier", tier], cwd=V, env=env, timeout=3600)
            viol = [l for l in out.splitlines() if l.startswith("VIOLATION")]
            keys = []
            for l in viol:
                m = re.search(r"replay=(\S+)", l)
                if m and os.path.exists(f"{V}/{m.group(1)}"):
                    r = json.load(open(f"{V}/{m.group(1)}"))
                    keys.append(r.get("key") or ("tie-broken:" + ",".join(sorted({t.get('kind', '?') + ':' + str(t.get('op', '')) for t in r.get('ties_broken', [])}))))
            results[sid] = {"property": prop, "tier": tier, "rc": rc, "detected": rc == 1 and bool(viol), "violations": viol[:4], "keys": keys[:6],
                            "tail": out.strip().splitlines()[-1][-200:] if out.strip() else ""}
            print(sid, "DETECTED" if results[sid]["detected"] else f"MISSED rc={rc}", keys[:3])
        finally:
            sh(["git", "-C", "/repo", "checkout", "--", "."])
        json.dump(results, open(resf, "w"), indent=1)


def _detect_group(args):
    """all seeded changes of one property, one after the other, each in its own scratch worktree of /repo HEAD
    (PFHEDGE_REPO=<worktree>; the Lean gate runs as usual; evidence of such runs goes to /tmp, never to evidence/)"""
    prop, sids, tier = args
    res = {}
    for sid in sids:
        d = f"{V}/seeded/{sid}"
        wt = f"{WS}/det_{sid}"
        sh(["git", "-C", "/repo", "worktree", "remove", "--force", wt])
        shutil.rmtree(wt, ignore_errors=True)
        rc, o = sh(["git", "-C", "/repo", "worktree", "add", "-q", "--detach", wt, "HEAD"])
        if rc:
            res[sid] = {"status": "worktree failed", "log": o[-200:]}
            continue
        try:
            rc, o = sh(["git", "apply", f"{d}/patch.diff"], cwd=wt)
            if rc:
                res[sid] = {"status": "patch does not apply", "log": o[-200:]}
                continue
            rdir = f"{WS}/replays_{sid}"
            shutil.rmtree(rdir, ignore_errors=True)
            env = dict(os.environ, VERIF_SEED=os.environ.get("VERIF_SEED", "20260930"), PFHEDGE_REPO=wt, VERIF_DEV_REPLAY_DIR=rdir)
            rc, out = sh([f"{V}/check", prop, "--tier", tier], cwd=V, env=env, timeout=7200)
            viol = [l for l in out.splitlines() if l.startswith("VIOLATION")]
            keys = []
            for l in viol:
                m = re.search(r"replay=(\S+)", l)
                rp = os.path.normpath(os.path.join(V, m.group(1))) if m else None
                if rp and os.path.exists(rp):
                    r = json.load(open(rp))
                    keys.append(r.get("key") or ("tie-broken:" + ",".join(sorted({t.get('kind', '?') + ':' + str(t.get('op', '')) for t in r.get('ties_broken', [])}))))
            res[sid] = {"property": prop, "tier": tier, "rc": rc, "detected": rc == 1 and bool(viol), "violations": viol[:4], "keys": keys[:6],
                        "tail": out.strip().splitlines()[-1][-200:] if out.strip() else "", "how": "scratch worktree of /repo HEAD + PFHEDGE_REPO"}
            print(sid, "DETECTED" if res[sid]["detected"] else f"MISSED rc={rc}", keys[:3], flush=True)
        finally:
            sh(["git", "-C", "/repo", "worktree", "remove", "--force", wt])
            shutil.rmtree(wt, ignore_errors=True)
            shutil.rmtree(f"{WS}/replays_{sid}", ignore_errors=True)
    return res


def detect_parallel(ids, tier="quick", workers=6):
    os.makedirs(WS, exist_ok=True)
    groups = {}
    for sid in ids:
        # each run has its own replay directory, so the changes of one property can run side by side
        groups.setdefault(sid, []).append(sid)
    resf = os.environ.get("SEEDED_RESULT", f"{V}/seeded/detection.json")
    results = json.load(open(resf)) if os.path.exists(resf) else {}
    with cf.ThreadPoolExecutor(max_workers=workers) as ex:
        for res in ex.map(_detect_group, [(json.load(open(f"{V}/seeded/{s[0]}/meta.json"))["property"], s, tier) for p, s in sorted(groups.items())]):
            results.update(res)
            json.dump(results, open(resf, "w"), indent=1)
    missed = [k for k in ids if not results.get(k, {}).get("detected")]
    print("missed:", missed)


if __name__ == "__main__":
    cmd = sys.argv[1]
    if cmd == "confirm":
        confirm(sys.argv[2:])
    elif cmd == "detect":
        ids = sys.argv[2:] or sorted(os.path.basename(p) for p in glob.glob(f"{V}/seeded/C*_[mnpqrstuv]*"))
        detect(ids, tier=os.environ.get("SEEDED_TIER", "quick"))
    elif cmd == "detect-parallel":
        ids = sys.argv[2:] or sorted(os.path.basename(p) for p in glob.glob(f"{V}/seeded/C*_[mnpqrstuv]*"))
        detect_parallel(ids, tier=os.environ.get("SEEDED_TIER", "quick"), workers=int(os.environ.get("SEEDED_WORKERS", "6")))
