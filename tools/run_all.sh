#!/bin/sh
# run every check at a tier, one after the other; summary lines to stdout
tier=${1:-quick}
cd "$(dirname "$0")/.."
for c in C01 C02 C03 C04 C05 C06 C07 C08 C09 C10 C11 C12 C13 C14 C15 C16 C17 C18 C19 C20; do
  start=$(date +%s)
  ./check $c --tier $tier > /tmp/run_$c.$tier.log 2>&1
  rc=$?
  end=$(date +%s)
  echo "$c rc=$rc $((end-start))s $(grep -c '^VIOLATION' /tmp/run_$c.$tier.log) violations $(grep -c '^KNOWN-FINDING' /tmp/run_$c.$tier.log) known :: $(tail -1 /tmp/run_$c.$tier.log | cut -c1-160)"
done
