#!/usr/bin/env python3
"""Run the pinned baseline command of /root/.vp/BASELINE.json on a tree and
report which of its stable tests do not pass.  Usage: baseline_suite.py [repo]"""
import json, os, subprocess, sys, tempfile
import xml.etree.ElementTree as ET

repo = sys.argv[1] if len(sys.argv) > 1 else "/repo"
base = json.load(open("/root/.vp/BASELINE.json"))
fd, junit = tempfile.mkstemp(suffix=".xml", dir="/tmp")
os.close(fd)
cmd = base["cmd"].replace("cd /repo", f"cd {repo}").replace("<file>", junit)
subprocess.run(cmd, shell=True, stdout=subprocess.DEVNULL, stderr=subprocess.DEVNULL)
passed = set()
for tc in ET.parse(junit).getroot().iter("testcase"):
    if not any(ch.tag in ("failure", "error", "skipped") for ch in tc):
        passed.add(f"{tc.get('classname')}::{tc.get('name')}")
os.remove(junit)
stable = base["stable_pass"]
missing = [t for t in stable if t not in passed]
print("passed", len(stable) - len(missing), "stable missing", len(missing), missing[:20])
sys.exit(1 if missing else 0)
