"""C12 extension: protocols that list and delist a derivative (Model/Listing.lean, Lemmas/C12Listing.lean, op `listing`).

One derivative object is taken through a history of: contract terms re-assigned, clauses registered (fresh and existing
names), `list(pricer, cost)`, `delist()`, and the reads `payoff()`, `is_listed`, `cost`, `spot`.  Prices are dyadic and injected
with `register_buffer`, so every payoff and quote is compared with the model exactly (Fractions).  Independently of the model
the property's own statement is checked on the real code: listing and delisting do not change `named_clauses()` nor the payoff.
"""
from fractions import Fraction as F

from common import import_impl, rat_str, tensor_to_fracs, canon_error

KINDS = ["european", "lookback", "american_binary", "european_binary"]
NAMES = ["z", "a", "m", "k9", "c10", "bonus", "Cap"]


def _gen_ops(g, n_steps, T):
    ops = []
    listed = False
    for _ in range(n_steps):
        r = g.choice(["clause", "clause", "list", "delist", "query", "query", "is_listed", "cost", "spot", "strike", "toggle"])
        if r == "clause":
            k = g.choice(["affine", "cap", "floor", "knock_out"])
            if k == "affine":
                d = ["affine", g.choice([F(2), F(1, 2), F(-1), F(1)]), g.choice([F(0), F(1, 4), F(-1, 2), F(3)])]
            elif k == "knock_out":
                d = ["knock_out", g.choice([F(1), F(5, 4), F(2), F(3, 4)])]
            else:
                d = [k, g.choice([F(0), F(1, 4), F(1, 2), F(1)])]
            ops.append(["clause", g.choice(NAMES), d])
        elif r == "list":
            ops.append(["list", g.choice([0, 1, 2]), g.choice([F(0), F(1, 1024), F(1, 64), F(-1, 256)])])
            listed = True
        elif r == "strike":
            ops.append(["strike", g.choice([F(1), F(3, 4), F(5, 4), F(0), F(-1, 2)])])
        else:
            ops.append([r])
    return ops


CORPUS = [
    [["clause", "z", ["affine", F(2), F(0)]], ["list", 1, F(1, 64)], ["clause", "a", ["cap", F(1, 2)]], ["is_listed"], ["spot"], ["cost"],
     ["delist"], ["is_listed"], ["cost"], ["spot"], ["query"]],
    [["clause", "m", ["knock_out", F(5, 4)]], ["delist"], ["query"], ["list", 0, F(0)], ["query"], ["spot"], ["list", 2, F(1, 1024)], ["cost"], ["spot"]],
    [["list", 0, F(1, 64)], ["clause", "bonus", ["affine", F(1), F(1, 4)]], ["clause", "Cap", ["cap", F(1, 4)]], ["spot"], ["strike", F(3, 4)], ["spot"],
     ["delist"], ["clause", "bonus", ["affine", F(1), F(3)]], ["query"], ["list", 1, F(0)], ["toggle"], ["spot"], ["delist"], ["delist"], ["cost"], ["query"]],
]


def run(ctx, g):
    torch, pfhedge = import_impl()
    from pfhedge.instruments import BrownianStock, EuropeanOption, LookbackOption, AmericanBinaryOption, EuropeanBinaryOption
    CLS = {"european": EuropeanOption, "lookback": LookbackOption, "american_binary": AmericanBinaryOption, "european_binary": EuropeanBinaryOption}
    pricers = [(lambda d, k=k: (k + 1) * d.payoff()) for k in range(3)]

    def clause_fn(desc):
        kind = desc[0]
        if kind == "affine":
            a, b = float(desc[1]), float(desc[2])
            return lambda d, p: a * p + b
        if kind == "cap":
            c = float(desc[1])
            return lambda d, p: p.clamp(max=c)
        if kind == "floor":
            c = float(desc[1])
            return lambda d, p: p.clamp(min=c)
        b = float(desc[1])
        return lambda d, p: torch.where(d.ul().spot.max(-1).values < b, p, torch.zeros_like(p))

    n_rand = 60 if ctx.tier == "quick" else 900
    scenarios = [(kind, ops) for kind in KINDS for ops in CORPUS]
    for _ in range(n_rand):
        scenarios.append((g.choice(KINDS), None))
    reqs, metas = [], []
    for kind, ops in scenarios:
        N, T = g.choice([1, 2, 3]), g.choice([1, 2, 3, 5])
        paths = [[g.choice([F(1, 2), F(3, 4), F(1), F(5, 4), F(3, 2), F(2)]) for _ in range(T)] for _ in range(N)]
        strike, call = g.choice([F(1), F(3, 4), F(5, 4)]), g.chance(0.7)
        if ops is None:
            ops = _gen_ops(g, g.choice([4, 6, 9, 12]), T)
        stock = BrownianStock()
        d = CLS[kind](stock, call=call, strike=float(strike))
        stock.register_buffer("spot", torch.tensor([[float(v) for v in p] for p in paths], dtype=torch.float64))
        case = {"kind": kind, "strike": rat_str(strike), "call": call, "paths": [[rat_str(v) for v in p] for p in paths],
                "ops": [[(rat_str(x) if isinstance(x, F) else ([y if isinstance(y, str) else rat_str(y) for y in x] if isinstance(x, list) else x)) for x in op] for op in ops]}
        outs = []
        for op in ops:
            what = op[0]
            try:
                if what == "clause":
                    d.add_clause(op[1], clause_fn(op[2]))
                    outs.append(None)
                elif what == "list":
                    names0 = [n for n, _ in d.named_clauses()]
                    pay0 = tensor_to_fracs(d.payoff())
                    d.list(pricers[op[1]], cost=float(op[2]))
                    outs.append(None)
                    if [n for n, _ in d.named_clauses()] != names0 or tensor_to_fracs(d.payoff()) != pay0:
                        ctx.fail("listing a derivative changed its clause registry or its payoff", dict(case, at=case["ops"][len(outs) - 1]), key="listing:list:clauses-or-payoff-changed")
                elif what == "delist":
                    names0 = [n for n, _ in d.named_clauses()]
                    pay0 = tensor_to_fracs(d.payoff())
                    d.delist()
                    outs.append(None)
                    if [n for n, _ in d.named_clauses()] != names0 or tensor_to_fracs(d.payoff()) != pay0:
                        ctx.fail("delisting a derivative changed its clause registry or its payoff", dict(case, at=len(outs) - 1), key="listing:delist:clauses-or-payoff-changed")
                    if d.is_listed or d.cost != 0.0:
                        ctx.fail("after delist() the derivative is still listed or still carries a cost rate", dict(case, at=len(outs) - 1), key="listing:delist:still-listed")
                elif what == "strike":
                    d.strike = float(op[1])
                    outs.append(None)
                elif what == "toggle":
                    d.call = not d.call
                    outs.append(None)
                elif what == "query":
                    outs.append({"ok": [rat_str(v) for v in tensor_to_fracs(d.payoff())]})
                elif what == "is_listed":
                    outs.append({"ok": bool(d.is_listed)})
                elif what == "cost":
                    outs.append({"ok": rat_str(F(d.cost))})
                elif what == "spot":
                    outs.append({"ok": [rat_str(v) for v in tensor_to_fracs(d.spot)]})
            except Exception as e:  # noqa
                outs.append({"err": canon_error(e)})
        impl = {"outs": outs, "names": [n for n, _ in d.named_clauses()], "listed": bool(d.is_listed), "cost": rat_str(F(d.cost))}
        ctx.case({"op": "listing", "case": case}, nontrivial=any(o[0] in ("list", "delist") for o in ops), tag="listing")
        reqs.append({"op": "listing", "kind": kind, "strike": rat_str(strike), "call": call, "start": 0, "dt": "1",
                     "spot": case["paths"], "attrs": [], "ops": case["ops"]})
        metas.append((case, impl))
    res = ctx.driver(reqs)
    for (case, impl), mo in zip(metas, res):
        if not isinstance(mo, dict) or "outs" not in mo:
            ctx.disagree("listing", case, impl, mo)
            continue
        model = {"outs": mo["outs"], "names": mo["final"]["names"], "listed": mo["listed"], "cost": mo["cost"]}
        if impl != model:
            ctx.disagree("listing", case, impl, model)
