"""C14 extension: the autograd switch around the Hedger's entry points over histories of calls (Model/GradMode.lean,
Lemmas/C14GradMode.lean, op `grad_mode`).

A script of library calls - price / compute_loss with either `enable_grad`, compute_pl, fit with and without validation -
is run on the real Hedger, each call possibly failing (an exception raised inside `derivative.simulate` or inside the
hedging model passes through the call and is caught here, as a caller would), possibly inside the caller's own
`torch.no_grad()` / `torch.enable_grad()` block, possibly interleaved with `torch.set_grad_enabled(b)` as a function.
Observed per evaluation: the switch while the body ran, whether the returned tensor carries a graph (or that the call
raised), the switch right after.  The same script goes to the model; the property's own last sentence is checked on the
real code independently of the model (keys `gradmode:*`).
"""
from common import import_impl


class Injected(RuntimeError):
    pass


def _corpus():
    P = lambda eg, f=False: {"c": "price", "eg": eg, "fails": f}      # noqa
    L = lambda eg, f=False: {"c": "loss", "eg": eg, "fails": f}       # noqa
    PL = lambda f=False: {"c": "pl", "fails": f}                      # noqa
    FIT = lambda n, v, fe=None, fv=False: {"c": "fit", "epochs": n, "validation": v, "fail_epoch": fe, "fail_val": fv}   # noqa
    B = lambda b, body: {"c": "block", "b": b, "body": body}          # noqa
    S = lambda b: {"c": "set", "b": b}                                # noqa
    out = []
    for mode in (True, False):
        out += [
            (True, mode, [P(False, True), PL(), L(True), P(False)]),
            (True, mode, [P(True, True), PL(), P(True), L(False, True), PL()]),
            (True, mode, [L(True, True), PL(), L(False), PL(True), PL()]),
            (True, mode, [FIT(2, True), PL(), FIT(2, True, 1, True), PL(), FIT(3, True, 1, False), PL(), FIT(2, False, 0), PL()]),
            (True, mode, [B(False, [P(True), L(True), PL(), P(False, True), PL()]), PL(), B(True, [P(False), L(False, True), PL()]), PL()]),
            (True, mode, [S(not mode), P(False, True), PL(), S(mode), L(False, True), PL(), FIT(1, True, 0, True), PL()]),
            (False, mode, [P(True), L(True), PL(), P(False, True), PL(), B(not mode, [P(True, True), PL()]), PL()]),
        ]
    return out


def _gen_script(g):
    trainable = g.chance(0.8)
    script = []

    def prim(allow_fit=True):
        kind = g.choice(["price", "loss", "pl", "fit"] if (trainable and allow_fit) else ["price", "loss", "pl"])
        if kind == "pl":
            return {"c": "pl", "fails": g.chance(0.3)}
        if kind == "fit":
            n = g.choice([0, 1, 2, 3])
            v = g.chance(0.6)
            fe, fv = None, False
            if n and g.chance(0.5):
                fe = g.randint(0, n - 1)
                fv = v and g.chance(0.5)
            return {"c": "fit", "epochs": n, "validation": v, "fail_epoch": fe, "fail_val": fv}
        return {"c": kind, "eg": g.chance(0.5), "fails": g.chance(0.4)}
    for _ in range(g.choice([2, 3, 4, 6])):
        r = g.choice(["prim", "prim", "prim", "block", "set"])
        if r == "prim":
            script.append(prim())
        elif r == "block":
            script.append({"c": "block", "b": g.chance(0.4), "body": [prim() for _ in range(g.choice([1, 2, 3]))]})
        else:
            script.append({"c": "set", "b": g.chance(0.5)})
    return trainable, g.chance(0.5), script


def run(ctx, g):
    torch, pfhedge = import_impl()
    from pfhedge.instruments import BrownianStock, EuropeanOption
    from pfhedge.nn import Hedger

    class Probe:
        inside = []
        count = 0
        fail_at = ()
        model_fail = False

    class ProbeOption(EuropeanOption):
        def simulate(self, n_paths=1, init_state=None):
            Probe.inside.append(torch.is_grad_enabled())
            k = Probe.count
            Probe.count += 1
            if k in Probe.fail_at:
                raise Injected("injected failure in simulate")
            super().simulate(n_paths=n_paths, init_state=init_state)

    class ProbeModel(torch.nn.Module):
        def __init__(self):
            super().__init__()
            self.lin = torch.nn.Linear(2, 1)

        def forward(self, x):
            Probe.inside.append(torch.is_grad_enabled())
            if Probe.model_fail:
                raise Injected("injected failure in the hedging model")
            return self.lin(x)

    def run_prim(hedger, d, p, case):
        """one library call: the list of observations [{inside, graph, after}]"""
        m0 = torch.is_grad_enabled()
        Probe.inside, Probe.count, Probe.fail_at, Probe.model_fail = [], 0, (), False
        outs = []
        if p["c"] in ("price", "loss"):
            Probe.fail_at = (0,) if p["fails"] else ()
            fn = hedger.price if p["c"] == "price" else hedger.compute_loss
            try:
                r = fn(d, n_paths=3, enable_grad=p["eg"])
                graph = bool(r.requires_grad)
            except Injected:
                graph = "raised"
            # the model forward also records the switch; the first record is the one made in simulate
            outs.append({"inside": Probe.inside[0] if Probe.inside else None, "graph": graph, "after": torch.is_grad_enabled()})
        elif p["c"] == "pl":
            Probe.model_fail = p["fails"]
            try:
                r = hedger.compute_pl(d)
                graph = bool(r.requires_grad)
            except Injected:
                graph = "raised"
            Probe.model_fail = False
            outs.append({"inside": Probe.inside[0] if Probe.inside else None, "graph": graph, "after": torch.is_grad_enabled()})
        else:
            per = 2 if p["validation"] else 1
            if p["fail_epoch"] is not None:
                Probe.fail_at = (p["fail_epoch"] * per + (1 if p["fail_val"] else 0),)
            cls_loss = type(hedger).compute_loss
            seen = []

            def wrapped(*a, **k):
                n0 = len(Probe.inside)
                try:
                    r = cls_loss(hedger, *a, **k)
                    graph = bool(r.requires_grad)
                    return r
                except Injected:
                    graph = "raised"
                    raise
                finally:
                    # the first record of THIS evaluation is the one made in its simulate (one per evaluation: n_times = 1)
                    seen.append({"inside": Probe.inside[n0] if len(Probe.inside) > n0 else None, "graph": graph,
                                 "after": torch.is_grad_enabled()})
            hedger.compute_loss = wrapped
            try:
                hedger.fit(d, n_paths=3, n_epochs=p["epochs"], verbose=False, validation=p["validation"])
            except Injected:
                pass
            finally:
                del hedger.compute_loss
            outs = seen
        m1 = torch.is_grad_enabled()
        if m1 != m0:
            ctx.fail("a library call (failing or not) left the autograd switch in another state than it found it",
                     dict(case, call=p, before=m0, after=m1), key="gradmode:not-restored:" + p["c"] + (":after-exception" if _fails(p) else ""))
            torch.set_grad_enabled(m0)          # keep the rest of the script meaningful
        return outs

    def _fails(p):
        return bool(p.get("fails")) or p.get("fail_epoch") is not None

    def prop_predicates(p, outs, trainable, ambient, case):
        """the last sentence of C14 on the real code, independent of the model"""
        for i, o in enumerate(outs):
            if o["graph"] == "raised":
                continue
            want = None
            if p["c"] in ("price", "loss"):
                want = p["eg"] and trainable
            elif p["c"] == "pl":
                want = ambient and trainable
            elif p["c"] == "fit":
                per = 2 if p["validation"] else 1
                want = trainable if i % per == 0 else False
            if want is not None and o["graph"] != want:
                ctx.fail("a quantity carries a graph where it is documented as evaluation-only, or carries none where it is differentiable",
                         dict(case, call=p, evaluation=i, observed=o, expected_graph=want),
                         key="gradmode:graph:" + p["c"] + (":validation" if p["c"] == "fit" and i % (2 if p["validation"] else 1) else ""))

    n_rand = 25 if ctx.tier == "quick" else 300
    scripts = _corpus() + [_gen_script(g) for _ in range(n_rand)]
    reqs, metas = [], []
    saved_mode = torch.is_grad_enabled()
    rng_state = torch.get_rng_state()
    try:
        for trainable, mode, script in scripts:
            torch.manual_seed(0)
            d = ProbeOption(BrownianStock(), maturity=3 / 250)
            model = ProbeModel()
            if not trainable:
                for q in model.parameters():
                    q.requires_grad_(False)
            hedger = Hedger(model, ["log_moneyness", "time_to_maturity"])
            d.simulate(n_paths=3)
            case = {"trainable": trainable, "mode": mode, "script": script}
            torch.set_grad_enabled(mode)
            outs = []
            for c in script:
                if c["c"] == "set":
                    torch.set_grad_enabled(c["b"])
                    outs.append([])
                elif c["c"] == "block":
                    inner = []
                    with (torch.enable_grad() if c["b"] else torch.no_grad()):
                        for p in c["body"]:
                            o = run_prim(hedger, d, p, case)
                            prop_predicates(p, o, trainable, c["b"], case)
                            inner.append(o)
                    outs.append(inner)
                else:
                    amb = torch.is_grad_enabled()
                    o = run_prim(hedger, d, c, case)
                    prop_predicates(c, o, trainable, amb, case)
                    outs.append([o])
            final = torch.is_grad_enabled()
            torch.set_grad_enabled(saved_mode)
            ctx.case({"op": "grad_mode", "case": case}, nontrivial=any(_fails(p) for c in script for p in ([c] if c["c"] not in ("block", "set") else c.get("body", []))),
                     tag="grad_mode")
            reqs.append({"op": "grad_mode", "trainable": trainable, "mode": mode, "script": script})
            metas.append((case, {"mode": final, "outs": outs}))
    finally:
        torch.set_grad_enabled(saved_mode)
        torch.set_rng_state(rng_state)
    res = ctx.driver(reqs)
    for (case, impl), mo in zip(metas, res):
        if not isinstance(mo, dict) or "outs" not in mo:
            ctx.disagree("grad_mode", case, "(impl ran)", mo)
            continue
        if impl != mo:
            ctx.disagree("grad_mode", case, impl, mo)
