"""C04 — Risk measures obey the convex-risk-measure axioms.

correspondence: ExpectedShortfall / EntropicRiskMeasure / QuadraticCVaR / EntropicLoss /
IsoelasticLoss vs the Lean model (exact for ES on dyadic samples, Float carrier otherwise) — this
is what transfers the theorems of Props/C04 (monotone, cash-invariant, convex, homogeneous, level
and risk-aversion monotone, bounds) to the code.
predicate (real code): each axiom evaluated on generated samples / pairs / mixtures with a
rounding-aware tolerance.
"""
import math
from fractions import Fraction as F
from common import *  # noqa
from risk_common import *  # noqa


def check(ctx):
    torch, pfhedge = import_impl()
    import pfhedge.nn as nn
    import pfhedge.nn.functional as fnl
    g = ctx.gen
    ctx.lean_gate()
    n = 3000 if ctx.tier == "quick" else 12000
    reqs, metas = [], []
    dt = torch.float64
    for it in range(n):
        which = g.choice(["es", "erm", "qcvar", "eloss", "iso"])
        smp = gen_sample(g, M=1)
        N = smp["N"]
        x = smp["cols"][0]
        scale = max(1.0, max(abs(float(z)) for z in x))
        # a pointwise better sample, a second sample for mixing
        y = [z + (g.dy(0, 1, 3) * ((1 << 20) if smp["kind"] == "large" else 1) / ((1 << 20) if smp["kind"] == "small" else 1) if g.chance(0.6) else 0) for z in x]
        z2 = gen_sample(g, N=N, M=1, kind=smp["kind"])["cols"][0]
        c = g.dy(-2, 2, 2)
        T = lambda col: torch.tensor([float(v) for v in col], dtype=dt)
        case = {"which": which, "N": N, "kind": smp["kind"], "x": enc_rat(x), "y": enc_rat(y), "z": enc_rat(z2), "c": rat_str(c)}
        ctx.stats[f"which={which}"] += 1
        ctx.stats[f"kind={smp['kind']}"] += 1
        ctx.case(case, nontrivial=(N >= 2), tag=which)
        ctx.traces += 1
        tol = 1e-9 * scale

        def run(mod, col):
            return float(mod(T(col)))

        def bad(what, key, **d):
            ctx.fail(what, case | d.pop("extra", {}), key=key, detail=d)
        lam_t = g.choice([F(1, 2), F(1, 4), F(3, 4), F(0), F(1)])
        mix = [lam_t * a_ + (1 - lam_t) * b_ for a_, b_ in zip(x, z2)]
        if which == "es":
            p = g.choice([0.1, 0.25, 0.5, 0.3, 1.0, 1 / N, g.randint(1, N) / N, 0.33])
            m = nn.ExpectedShortfall(p)
            case["p"] = p
            rx, ry, rz, rm = run(m, x), run(m, y), run(m, z2), run(m, mix)
            if ry > rx + tol:
                bad("expected shortfall is not monotone: a pointwise better P&L has higher risk", "es:monotone", rx=rx, ry=ry)
            if abs(run(m, [v + c for v in x]) - (rx - float(c))) > tol:
                bad("expected shortfall is not cash-invariant", "es:cash", rx=rx)
            if rm > float(lam_t) * rx + (1 - float(lam_t)) * rz + tol:
                bad("expected shortfall is not convex under mixing", "es:convex", rx=rx, rz=rz, rmix=rm, t=float(lam_t))
            a_ = g.choice([F(1, 2), F(2), F(3), F(0)])
            if abs(run(m, [a_ * v for v in x]) - float(a_) * rx) > tol * max(1, float(a_)):
                bad("expected shortfall is not positively homogeneous", "es:homogeneous", rx=rx, a=float(a_))
            p2 = min(1.0, p + g.choice([0.05, 0.2, 0.5]))
            if run(nn.ExpectedShortfall(p2), x) > rx + tol:
                bad("expected shortfall increases with its quantile level", "es:level", p2=p2, rx=rx)
            if not (-float(max(x)) - tol <= rx <= -float(min(x)) + tol) or rx < -float(sum(x) / N) - tol:
                bad("expected shortfall outside [-max, -min] or below -mean", "es:bounds", rx=rx)
            k = math.ceil(p * N)
            pn = F(p) * N
            if not (abs(pn - round(pn)) <= F(1, 10 ** 9) and pn != round(pn)):
                reqs.append({"op": "es", "k": k, "cols": [enc_rat(x)]})
                metas.append(("es", case, rx))
        elif which == "erm":
            a = g.choice([0.25, 1.0, 2.0, 1 / 64, 8.0])
            if scale > 1e4:
                a = a / scale
            m = nn.EntropicRiskMeasure(a)
            case["a"] = a
            rx, ry, rz, rm = run(m, x), run(m, y), run(m, z2), run(m, mix)
            if ry > rx + tol:
                bad("entropic risk measure is not monotone", "erm:monotone", rx=rx, ry=ry)
            if abs(run(m, [v + c for v in x]) - (rx - float(c))) > tol:
                bad("entropic risk measure is not cash-invariant", "erm:cash", rx=rx)
            if rm > float(lam_t) * rx + (1 - float(lam_t)) * rz + tol:
                bad("entropic risk measure is not convex under mixing", "erm:convex", rx=rx, rz=rz, rmix=rm)
            a2 = a * g.choice([1.5, 2.0, 10.0])
            if run(nn.EntropicRiskMeasure(a2), x) < rx - tol:
                bad("entropic risk decreases when the risk aversion increases", "erm:risk-aversion", a2=a2, rx=rx)
            if not (-float(max(x)) - tol <= rx <= -float(min(x)) + tol) or rx < -float(sum(x) / N) - tol:
                bad("entropic risk measure outside [-max, -min] or below -mean", "erm:bounds", rx=rx)
            reqs.append({"op": "erm", "a": float_bits(a), "cols": [enc_flt([float(v) for v in x])]})
            metas.append(("erm", case, rx))
        elif which == "qcvar":
            lam = g.choice([1.0, 2.0, 10.0, 64.0])
            m = nn.QuadraticCVaR(lam)
            case["lam"] = lam
            rx, ry, rz, rm = run(m, x), run(m, y), run(m, z2), run(m, mix)
            def prec_of(col):
                spread = float(max(col) - min(col)) + 2e-8
                return 1e-6 * 10 ** int(math.log10(spread))
            prec = max(prec_of(col) for col in (x, y, z2, mix, [v + c for v in x]))
            # the bisection's own precision bounds the error of the value: second order in the root error
            qtol = tol + lam * (10 * prec) ** 2
            narrow = lambda col: float(max(col)) - float(sum(col) / len(col)) < 1 / (2 * lam)
            kn = "quadratic_cvar:bracket-misses-root"
            anynarrow = narrow(x) or narrow(y) or narrow(z2) or narrow(mix)
            if ry > rx + qtol:
                bad("quadratic CVaR is not monotone", kn if anynarrow else "qcvar:monotone", rx=rx, ry=ry)
            rc = run(m, [v + c for v in x])
            if abs(rc - (rx - float(c))) > qtol:
                bad("quadratic CVaR is not cash-invariant", kn if anynarrow else "qcvar:cash", rx=rx, rc=rc)
            if rm > float(lam_t) * rx + (1 - float(lam_t)) * rz + qtol:
                bad("quadratic CVaR is not convex under mixing", kn if anynarrow else "qcvar:convex", rx=rx, rz=rz, rmix=rm)
            lo_b, hi_b = -float(max(x)) - 1 / (4 * lam), -float(min(x)) - 1 / (4 * lam)
            if not (lo_b - qtol <= rx <= hi_b + qtol):
                bad("quadratic CVaR outside [-max - 1/(4 lam), -min - 1/(4 lam)]", kn if narrow(x) else "qcvar:bounds", rx=rx, lo=lo_b, hi=hi_b)
        elif which == "eloss":
            a = g.choice([0.25, 1.0, 2.0])
            if scale > 1e4:
                a = a / scale
            m = nn.EntropicLoss(a)
            rx, ry, rz, rm = run(m, x), run(m, y), run(m, z2), run(m, mix)
            rt = 1e-9 * max(abs(rx), abs(rz), 1e-300)
            if ry > rx * (1 + 1e-12) + 1e-300:
                bad("entropic loss is not monotone", "eloss:monotone", rx=rx, ry=ry)
            if rm > float(lam_t) * rx + (1 - float(lam_t)) * rz + rt:
                bad("entropic loss is not convex", "eloss:convex", rx=rx, rz=rz, rmix=rm)
        else:
            a = g.choice([1.0, 0.5, 0.25])
            m = nn.IsoelasticLoss(a)
            px = [abs(v) + F(1, 8) for v in x]
            py = [v + (g.dy(0, 1, 3) if g.chance(0.6) else 0) for v in px]
            pz = [abs(v) + F(1, 8) for v in z2]
            pm = [lam_t * a_ + (1 - lam_t) * b_ for a_, b_ in zip(px, pz)]
            rx, ry, rz, rm = run(m, px), run(m, py), run(m, pz), run(m, pm)
            rt = 1e-9 * max(abs(rx), abs(rz), 1.0)
            if ry > rx + rt:
                bad("isoelastic loss is not monotone", "iso:monotone", rx=rx, ry=ry)
            if rm > float(lam_t) * rx + (1 - float(lam_t)) * rz + rt:
                bad("isoelastic loss is not convex", "iso:convex", rx=rx, rz=rz, rmix=rm)
    # ---- columns of one tensor are independent samples: the value of column j of a batch equals the
    # value of column j alone (monotonicity/bounds then hold column-wise)
    for it in range(60 if ctx.tier == "quick" else 900):
        which = g.choice(["es", "erm", "qcvar"])
        smp = gen_sample(g, M=g.choice([2, 3]), kind="mixed")
        N, M = smp["N"], smp["M"]
        x = torch.tensor([[float(smp["cols"][m][i]) for m in range(M)] for i in range(N)], dtype=dt)
        if which == "es":
            crit = nn.ExpectedShortfall(g.choice([0.1, 0.5, 0.3]))
        elif which == "erm":
            crit = nn.EntropicRiskMeasure(g.choice([0.25, 1.0]))
        else:
            crit = nn.QuadraticCVaR(g.choice([1.0, 10.0]))
        case = {"which": which + "_batch", "N": N, "M": M, "cols": enc_rat(smp["cols"])}
        ctx.case(case, True, tag=which + "_batch")
        ctx.traces += 1
        with torch.no_grad():
            whole = [float(v) for v in crit(x).tolist()]
            alone = [float(crit(x[:, j])) for j in range(M)]
        for j in range(M):
            col = smp["cols"][j]
            tolb = 1e-9 * max(1.0, abs(alone[j]))
            narrow = False
            if which == "qcvar":
                spread = max(float(max(c) - min(c)) for c in smp["cols"]) + 2e-8
                tolb += crit.lam * (10 * 1e-6 * 10 ** int(math.log10(spread))) ** 2
                narrow = any(float(max(c)) - float(sum(c) / len(c)) < 1 / (2 * crit.lam) for c in smp["cols"])
            if not (abs(whole[j] - alone[j]) <= tolb) or not math.isfinite(whole[j]):
                ctx.fail("the risk of one column of a batch differs from the risk of that column alone (columns are independent samples)",
                         case | {"column": j}, key="quadratic_cvar:bracket-misses-root" if narrow else f"{which}:batch-column",
                         detail={"in_batch": whole[j], "alone": alone[j]})
                break
    try:
        outs = ctx.driver(reqs)
    except DriverBroken as e:
        ctx.ties_broken.append({"kind": "driver", "detail": str(e)[:1500]})
        outs = []
    for (which, case, got), mo in zip(metas, outs):
        if which == "es":
            mv = float(dec_rat(mo["es"])[0])
            if not close(got, mv, 1e-13, 1e-15):
                ctx.disagree("es", case, got, mv)
        else:
            o = mo["erm"][0]
            if "ok" not in o or not close(got, float_of_bits(o["ok"]), 1e-10, 1e-12):
                ctx.disagree("erm", case, got, o)
    return ctx.finish(
        rule="samples N in {1..33} with ties/constants/heavy tails/scales 2^-20..2^20, a pointwise-better sample, a second sample and mixtures "
             "t in {0,1/4,1/2,3/4,1}, cash shifts, scalings, levels and risk aversions; non-trivial = N>=2; distinct = sha1 of canonical case")
