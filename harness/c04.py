"""C04 — Risk measures obey the convex-risk-measure axioms.

correspondence: ExpectedShortfall / EntropicRiskMeasure / QuadraticCVaR / EntropicLoss /
IsoelasticLoss vs the Lean model (exact for ES on dyadic samples, Float carrier otherwise) — this
is what transfers the theorems of Props/C04 (monotone, cash-invariant, convex, homogeneous, level
and risk-aversion monotone, bounds) to the code.
predicate (real code): each axiom evaluated on generated samples / pairs / mixtures with a
rounding-aware tolerance.
"""
import math
import copy
from fractions import Fraction as F
from common import *  # noqa
from risk_common import *  # noqa


MODULES = {"es": "ExpectedShortfall", "erm": "EntropicRiskMeasure", "qcvar": "QuadraticCVaR", "eloss": "EntropicLoss", "iso": "IsoelasticLoss"}


def make_crit(nn, fnl, which, par, form, copied=False):
    """criterion `which` with parameter `par` as a callable (input, target=None) -> tensor that reduces the path dimension 0.
    form 'module': the loss module (optionally a copy.deepcopy of it); 'functional': pfhedge.nn.functional with dim=0 where the
    function has a dim; 'dimnone': the functional form with its default dim (1-D samples only); 'lastdim': the functional form on
    the tensor with the paths moved to the last dimension and dim=-1.  Without a target the functional forms receive the caller's
    tensor object itself (not a temporary)."""
    if form == "module":
        mod = getattr(nn, MODULES[which])(par)
        if copied:
            mod = copy.deepcopy(mod)
        return lambda t, target=None: mod(t) if target is None else mod(t, target)

    def f(t, target=None):
        v = t if target is None else t - target
        kw = {}
        if form == "functional" and which in ("es", "qcvar"):
            kw = {"dim": 0}
        elif form == "lastdim":
            v, kw = v.movedim(0, -1).contiguous(), {"dim": -1}
        if which == "es":
            return fnl.expected_shortfall(v, par, **kw)
        if which == "qcvar":
            return fnl.quadratic_cvar(v, par, **kw)
        if which == "erm":
            return fnl.entropic_risk_measure(v, par)
        if which == "eloss":
            return -fnl.exp_utility(v, par).mean(0)
        return -fnl.isoelastic_utility(v, par).mean(0)
    return f


# ---------------- whole tensors through the tensor level of the model (Model/CritTensor.lean, driver op "crit_tensor"): the input
# tensor of any shape, the target as the caller passes it (none, Python number, 0-dim / per-column / per-path / full tensor), the
# form (module | functional with its dim, None = the function's default) -> shape and values of the result, or the error kind
CT_RAT = ("es", "var", "oce")


def ct_tensor(t, carrier):
    vals = [float(v) for v in t.detach().reshape(-1).tolist()]
    return {"shape": list(t.shape), "data": enc_rat([F(v) for v in vals]) if carrier == "rat" else enc_flt(vals)}


def ct_add(torch, reqs, metas, case, which, par, x, target, form, dim, st, v):
    """queue one call for "crit_tensor"; `par` = p | a | lam | [u-kind, a, b, w]; (st, v) = what the implementation returned"""
    if x.dtype != torch.float64 or (torch.is_tensor(target) and target.dtype != torch.float64):
        return
    carrier = "rat" if which in CT_RAT else "float"
    aux = None
    if which in ("es", "var", "erm", "eloss"):
        spec = [which, float_bits(float(par))]
    elif which == "iso":
        spec = ["iso", float_bits(float(par)), float(par) == 1.0]
    elif which == "oce":
        spec = ["oce", list(par[:3]), par[3]]
    else:   # quadratic CVaR: the precision is derived from input - target along the reduced dimension exactly as the code does
        try:
            pl = (x if target is None else x - target).detach()
            d = 0 if form != "functional" else dim
            if d is None:
                pl, d = pl.flatten(), 0
            cen = pl - pl.mean(dim=d, keepdim=True)
            lower = torch.amin(-cen, dim=d, keepdim=True) - 1e-8
            upper = torch.amax(-cen, dim=d, keepdim=True) + 1e-8
            precision = 1e-6 * 10 ** int(math.log10((upper - lower).amax()))
        except Exception:  # noqa
            return
        spec = ["qcvar", float_bits(float(par)), float_bits(1e-8), float_bits(precision), 100000]
        aux = (float(par), precision)
    if target is None:
        tj = None
    elif torch.is_tensor(target):
        tj = ct_tensor(target, carrier)
    else:
        tj = {"number": rat_str(F(target)) if carrier == "rat" else float_bits(float(target))}
    if st == "ok":
        impl = ("ok", list(v.shape), [float(z) for z in v.detach().reshape(-1).tolist()])
    else:
        impl = ("err", v)
    rq = {"op": "crit_tensor", "carrier": carrier, "crit": spec, "form": form, "dim": dim, "target": tj}
    rq.update(ct_tensor(x, carrier))
    reqs.append(rq)
    metas.append(("crit_tensor", case | {"crit_tensor": {"criterion": which, "form": form, "dim": dim, "shape": list(x.shape),
                                                         "target": "none" if target is None else (list(target.shape) if torch.is_tensor(target) else repr(target))}},
                  (which, aux, impl)))


def ct_check(ctx, case, info, mo):
    """shape exactly; values at the tolerances of the one-column ops"""
    which, aux, impl = info
    if impl[0] == "err":
        if mo.get("err") != impl[1]:
            ctx.disagree("crit_tensor", case, list(impl), mo, note="error kind")
        return
    if "ok" not in mo:
        ctx.disagree("crit_tensor", case, {"shape": impl[1], "values": impl[2][:8]}, mo, note="the model raises")
        return
    shape, data = mo["ok"]["shape"], mo["ok"]["data"]
    got = impl[2]
    if shape != impl[1] or len(data) != len(got):
        ctx.disagree("crit_tensor", case, {"shape": impl[1], "values": got[:8]}, {"shape": shape, "values": data[:8]}, note="shape")
        return
    if which == "es":
        ok = all(close(a, float(b), 1e-13, 1e-15) for a, b in zip(got, dec_rat(data)))
    elif which == "erm":
        ok = all(close(a, b, 1e-10, 1e-12) for a, b in zip(got, dec_flt(data)))
    elif which in ("eloss", "iso"):
        ok = all(close(a, b, 1e-10) for a, b in zip(got, dec_flt(data)))
    else:
        lam, prec = aux
        tol = lam * (4 * prec) ** 2 + 4 * prec * 1e-3
        ok = all(abs(a - b) <= tol + 1e-9 * max(1.0, abs(a)) for a, b in zip(got, dec_flt(data)))
    if not ok:
        ctx.disagree("crit_tensor", case, {"shape": impl[1], "values": got[:8]}, {"shape": shape, "values": data[:8]}, note="value")


def qprec(col):
    """the precision quadratic_cvar derives from the bracket of a column (1e-6 * 10^int(log10(max - min + 2e-8)))"""
    spread = float(max(col) - min(col)) + 2e-8
    return 1e-6 * 10 ** int(math.log10(spread))


def is_narrow(col, lam):
    """known finding K3: the bracket of the centred sample misses the root"""
    return float(max(col)) - float(sum(col) / len(col)) < 1 / (2 * lam)


def check(ctx):
    torch, pfhedge = import_impl()
    import pfhedge.nn as nn
    import pfhedge.nn.functional as fnl
    g = ctx.gen
    ctx.lean_gate()
    import warnings
    # quadratic_cvar derives its precision with int(math.log10(tensor)); on samples that require grad torch warns about it
    warnings.filterwarnings("ignore", message="Converting a tensor with requires_grad=True to a scalar")
    n = 3000 if ctx.tier == "quick" else 12000
    reqs, metas = [], []
    dt = torch.float64
    for it in range(n):
        which = g.choice(["es", "erm", "qcvar", "eloss", "iso"])
        smp = gen_sample(g, M=1)
        N = smp["N"]
        x = smp["cols"][0]
        scale = max(1.0, max(abs(float(z)) for z in x))
        # a pointwise better sample, a second sample for mixing
        y = [z + (g.dy(0, 1, 3) * ((1 << 20) if smp["kind"] == "large" else 1) / ((1 << 20) if smp["kind"] == "small" else 1) if g.chance(0.6) else 0) for z in x]
        z2 = gen_sample(g, N=N, M=1, kind=smp["kind"])["cols"][0]
        c = g.dy(-2, 2, 2)
        T = lambda col: torch.tensor([float(v) for v in col], dtype=dt)
        case = {"which": which, "N": N, "kind": smp["kind"], "x": enc_rat(x), "y": enc_rat(y), "z": enc_rat(z2), "c": rat_str(c)}
        ctx.stats[f"which={which}"] += 1
        ctx.stats[f"kind={smp['kind']}"] += 1
        ctx.case(case, nontrivial=(N >= 2), tag=which)
        ctx.traces += 1
        tol = 1e-9 * scale

        def run(mod, col):
            return float(mod(T(col)))

        def bad(what, key, **d):
            ctx.fail(what, case | d.pop("extra", {}), key=key, detail=d)
        lam_t = g.choice([F(1, 2), F(1, 4), F(3, 4), F(0), F(1)])
        mix = [lam_t * a_ + (1 - lam_t) * b_ for a_, b_ in zip(x, z2)]
        if which == "es":
            p = g.choice([0.1, 0.25, 0.5, 0.3, 1.0, 1 / N, g.randint(1, N) / N, 0.33])
            m = nn.ExpectedShortfall(p)
            case["p"] = p
            rx, ry, rz, rm = run(m, x), run(m, y), run(m, z2), run(m, mix)
            if ry > rx + tol:
                bad("expected shortfall is not monotone: a pointwise better P&L has higher risk", "es:monotone", rx=rx, ry=ry)
            if abs(run(m, [v + c for v in x]) - (rx - float(c))) > tol:
                bad("expected shortfall is not cash-invariant", "es:cash", rx=rx)
            if rm > float(lam_t) * rx + (1 - float(lam_t)) * rz + tol:
                bad("expected shortfall is not convex under mixing", "es:convex", rx=rx, rz=rz, rmix=rm, t=float(lam_t))
            a_ = g.choice([F(1, 2), F(2), F(3), F(0)])
            if abs(run(m, [a_ * v for v in x]) - float(a_) * rx) > tol * max(1, float(a_)):
                bad("expected shortfall is not positively homogeneous", "es:homogeneous", rx=rx, a=float(a_))
            p2 = min(1.0, p + g.choice([0.05, 0.2, 0.5]))
            if run(nn.ExpectedShortfall(p2), x) > rx + tol:
                bad("expected shortfall increases with its quantile level", "es:level", p2=p2, rx=rx)
            if not (-float(max(x)) - tol <= rx <= -float(min(x)) + tol) or rx < -float(sum(x) / N) - tol:
                bad("expected shortfall outside [-max, -min] or below -mean", "es:bounds", rx=rx)
            k = math.ceil(p * N)
            pn = F(p) * N
            if not (abs(pn - round(pn)) <= F(1, 10 ** 9) and pn != round(pn)):
                reqs.append({"op": "es", "k": k, "cols": [enc_rat(x)]})
                metas.append(("es", case, rx))
        elif which == "erm":
            a = g.choice([0.25, 1.0, 2.0, 1 / 64, 8.0])
            if scale > 1e4:
                a = a / scale
            m = nn.EntropicRiskMeasure(a)
            case["a"] = a
            rx, ry, rz, rm = run(m, x), run(m, y), run(m, z2), run(m, mix)
            if ry > rx + tol:
                bad("entropic risk measure is not monotone", "erm:monotone", rx=rx, ry=ry)
            if abs(run(m, [v + c for v in x]) - (rx - float(c))) > tol:
                bad("entropic risk measure is not cash-invariant", "erm:cash", rx=rx)
            if rm > float(lam_t) * rx + (1 - float(lam_t)) * rz + tol:
                bad("entropic risk measure is not convex under mixing", "erm:convex", rx=rx, rz=rz, rmix=rm)
            a2 = a * g.choice([1.5, 2.0, 10.0])
            if run(nn.EntropicRiskMeasure(a2), x) < rx - tol:
                bad("entropic risk decreases when the risk aversion increases", "erm:risk-aversion", a2=a2, rx=rx)
            if not (-float(max(x)) - tol <= rx <= -float(min(x)) + tol) or rx < -float(sum(x) / N) - tol:
                bad("entropic risk measure outside [-max, -min] or below -mean", "erm:bounds", rx=rx)
            reqs.append({"op": "erm", "a": float_bits(a), "cols": [enc_flt([float(v) for v in x])]})
            metas.append(("erm", case, rx))
        elif which == "qcvar":
            lam = g.choice([1.0, 2.0, 10.0, 64.0])
            m = nn.QuadraticCVaR(lam)
            case["lam"] = lam
            rx, ry, rz, rm = run(m, x), run(m, y), run(m, z2), run(m, mix)
            def prec_of(col):
                spread = float(max(col) - min(col)) + 2e-8
                return 1e-6 * 10 ** int(math.log10(spread))
            prec = max(prec_of(col) for col in (x, y, z2, mix, [v + c for v in x]))
            # the bisection's own precision bounds the error of the value: second order in the root error
            qtol = tol + lam * (10 * prec) ** 2
            narrow = lambda col: float(max(col)) - float(sum(col) / len(col)) < 1 / (2 * lam)
            kn = "quadratic_cvar:bracket-misses-root"
            anynarrow = narrow(x) or narrow(y) or narrow(z2) or narrow(mix)
            if ry > rx + qtol:
                bad("quadratic CVaR is not monotone", kn if anynarrow else "qcvar:monotone", rx=rx, ry=ry)
            rc = run(m, [v + c for v in x])
            if abs(rc - (rx - float(c))) > qtol:
                bad("quadratic CVaR is not cash-invariant", kn if anynarrow else "qcvar:cash", rx=rx, rc=rc)
            if rm > float(lam_t) * rx + (1 - float(lam_t)) * rz + qtol:
                bad("quadratic CVaR is not convex under mixing", kn if anynarrow else "qcvar:convex", rx=rx, rz=rz, rmix=rm)
            lo_b, hi_b = -float(max(x)) - 1 / (4 * lam), -float(min(x)) - 1 / (4 * lam)
            if not (lo_b - qtol <= rx <= hi_b + qtol):
                bad("quadratic CVaR outside [-max - 1/(4 lam), -min - 1/(4 lam)]", kn if narrow(x) else "qcvar:bounds", rx=rx, lo=lo_b, hi=hi_b)
        elif which == "eloss":
            a = g.choice([0.25, 1.0, 2.0])
            if scale > 1e4:
                a = a / scale
            m = nn.EntropicLoss(a)
            rx, ry, rz, rm = run(m, x), run(m, y), run(m, z2), run(m, mix)
            rt = 1e-9 * max(abs(rx), abs(rz), 1e-300)
            if ry > rx * (1 + 1e-12) + 1e-300:
                bad("entropic loss is not monotone", "eloss:monotone", rx=rx, ry=ry)
            if rm > float(lam_t) * rx + (1 - float(lam_t)) * rz + rt:
                bad("entropic loss is not convex", "eloss:convex", rx=rx, rz=rz, rmix=rm)
        else:
            a = g.choice([1.0, 0.5, 0.25])
            m = nn.IsoelasticLoss(a)
            px = [abs(v) + F(1, 8) for v in x]
            py = [v + (g.dy(0, 1, 3) if g.chance(0.6) else 0) for v in px]
            pz = [abs(v) + F(1, 8) for v in z2]
            pm = [lam_t * a_ + (1 - lam_t) * b_ for a_, b_ in zip(px, pz)]
            rx, ry, rz, rm = run(m, px), run(m, py), run(m, pz), run(m, pm)
            rt = 1e-9 * max(abs(rx), abs(rz), 1.0)
            if ry > rx + rt:
                bad("isoelastic loss is not monotone", "iso:monotone", rx=rx, ry=ry)
            if rm > float(lam_t) * rx + (1 - float(lam_t)) * rz + rt:
                bad("isoelastic loss is not convex", "iso:convex", rx=rx, rz=rz, rmix=rm)
    # ---- columns of one tensor are independent samples: the value of column j of a batch equals the
    # value of column j alone (monotonicity/bounds then hold column-wise)
    for it in range(60 if ctx.tier == "quick" else 900):
        which = g.choice(["es", "erm", "qcvar"])
        smp = gen_sample(g, M=g.choice([2, 3]), kind="mixed")
        N, M = smp["N"], smp["M"]
        x = torch.tensor([[float(smp["cols"][m][i]) for m in range(M)] for i in range(N)], dtype=dt)
        if which == "es":
            crit = nn.ExpectedShortfall(g.choice([0.1, 0.5, 0.3]))
        elif which == "erm":
            crit = nn.EntropicRiskMeasure(g.choice([0.25, 1.0]))
        else:
            crit = nn.QuadraticCVaR(g.choice([1.0, 10.0]))
        case = {"which": which + "_batch", "N": N, "M": M, "cols": enc_rat(smp["cols"])}
        ctx.case(case, True, tag=which + "_batch")
        ctx.traces += 1
        with torch.no_grad():
            whole_t = crit(x)
            whole = [float(v) for v in whole_t.tolist()]
            alone = [float(crit(x[:, j])) for j in range(M)]
        ct_add(torch, reqs, metas, case, which, crit.p if which == "es" else (crit.a if which == "erm" else crit.lam), x, None, "module", None, "ok", whole_t)
        for j in range(M):
            col = smp["cols"][j]
            tolb = 1e-9 * max(1.0, abs(alone[j]))
            narrow = False
            if which == "qcvar":
                spread = max(float(max(c) - min(c)) for c in smp["cols"]) + 2e-8
                tolb += crit.lam * (10 * 1e-6 * 10 ** int(math.log10(spread))) ** 2
                narrow = any(float(max(c)) - float(sum(c) / len(c)) < 1 / (2 * crit.lam) for c in smp["cols"])
            if not (abs(whole[j] - alone[j]) <= tolb) or not math.isfinite(whole[j]):
                ctx.fail("the risk of one column of a batch differs from the risk of that column alone (columns are independent samples)",
                         case | {"column": j}, key="quadratic_cvar:bracket-misses-root" if narrow else f"{which}:batch-column",
                         detail={"in_batch": whole[j], "alone": alone[j]})
                break
    # ---- boundary parameters x trailing shapes x forms: every admissible parameter (p = 1, p = 1/N, a and lam at the ends of their
    # ranges) on samples of shape (N, *) whose columns sit on different cash levels, through the module (with and without a scalar /
    # per-column target, also a deep copy of the module) and through the functional forms (dim=0, paths in the last dimension).
    # Axioms, column by column: the output has the trailing shape, a column's risk is the risk of that column alone, lies within
    # its bounds, a per-column cash amount lowers each column's risk by exactly that amount, ES does not increase up to p = 1
    def T1(col):
        return torch.tensor([float(v) for v in col], dtype=dt)

    def vals(t):
        return [float(v) for v in t.detach().reshape(-1).tolist()]
    for it in range(150 if ctx.tier == "quick" else 1500):
        which = g.choice(["es", "es", "erm", "qcvar", "eloss", "iso"])
        N = g.small((1, 2, 3, 4, 5, 7, 8, 10, 16))
        trailing = g.choice([(2,), (3,), (4,), (1,), (2, 2), (3, 1), (1, 2), (2, 3)])
        M = 1
        for t_ in trailing:
            M *= t_
        smp = gen_sample(g, N=N, M=M, kind="mixed" if which in ("es", "erm", "qcvar") else g.choice(["generic", "ties"]))
        cols = smp["cols"]
        if which == "iso":
            cols = [[abs(v) + F(1, 8) for v in col] for col in cols]
        form = g.choice(["module", "module", "functional"] + (["lastdim"] if which in ("es", "qcvar") else []))
        copied = form == "module" and g.chance(0.3)
        tk = g.choice(["none", "scalar", "column", "column"])
        tlo, thi = (-1, 0) if which == "iso" else (-2, 2)
        if tk == "scalar":
            tq = [g.dy(tlo, thi, 2)] * M
        elif tk == "column":
            tq = [g.dy(tlo, thi, 2) for _ in range(M)]
        else:
            tq = [F(0)] * M
        eff = [[v - tq[m] for v in cols[m]] for m in range(M)]          # the samples whose risk is asked for
        scale = max(1.0, max(abs(float(v)) for col in cols + eff for v in col))
        if which == "es":
            par = g.choice([1.0, 1.0, 1, 1 / N, g.randint(1, N) / N, 0.99, 0.5, 0.1, 0.33])
        elif which == "erm":
            par = g.choice([1 / 64, 0.25, 1.0, 8.0])
        elif which == "qcvar":
            par = g.choice([1.0, 2.0, 10.0, 64.0])
        elif which == "eloss":
            par = g.choice([0.25, 1.0, 2.0])
        else:
            par = g.choice([1.0, 0.5, 0.25])
        x = torch.tensor([[float(cols[m][i]) for m in range(M)] for i in range(N)], dtype=dt).reshape((N,) + trailing)
        target = None if tk == "none" else (float(tq[0]) if tk == "scalar" else T1(tq).reshape(trailing))
        case = {"which": which + "_shape", "N": N, "trailing": list(trailing), "form": form, "copied": copied, "par": repr(par),
                "target": tk, "targets": enc_rat(tq), "cols": enc_rat(cols)}
        ctx.case(case, True, tag=f"{which}_shape:{form}")
        ctx.stats[f"shape-target={tk}"] += 1
        ctx.traces += 1
        crit = make_crit(nn, fnl, which, par, form, copied)
        try:
            with torch.no_grad():
                plain_t = crit(x)
                whole_t = plain_t if target is None else crit(x, target)
                alone = [float(make_crit(nn, fnl, which, par, "module")(T1(col))) for col in eff]
        except Exception as e:  # noqa
            ctx.fail("a criterion raised on a valid sample with trailing dimensions", case, key=f"{which}:shape:error", detail=repr(e)[:300])
            continue
        if form == "lastdim":      # the paths moved to the last dimension, dim=-1
            ct_add(torch, reqs, metas, case, which, par, (x if target is None else x - target).movedim(0, -1).contiguous(), None, "functional", -1, "ok", whole_t)
        else:
            ct_add(torch, reqs, metas, case, which, par, x, target, form, 0 if form == "functional" else None, "ok", whole_t)
        if tuple(plain_t.shape) != trailing or tuple(whole_t.shape) != trailing:
            ctx.fail("the risk of a sample of shape (N, *) does not have the trailing shape (*): the columns are not measured one by one",
                     case, key=f"{which}:shape:output-shape", detail={"shape": list(whole_t.shape), "shape without target": list(plain_t.shape)})
            continue
        plain, whole = vals(plain_t), vals(whole_t)
        tol = 1e-9 * scale
        qtol, narrow = tol, False
        if which == "qcvar":
            qtol = tol + par * (10 * max(qprec(col) for col in cols + eff)) ** 2
            narrow = any(is_narrow(col, par) for col in cols + eff)
        kn = "quadratic_cvar:bracket-misses-root"
        for j in range(M):
            col = eff[j]
            tolb = 1e-9 * max(1.0, abs(alone[j])) + (qtol - tol)
            if not (abs(whole[j] - alone[j]) <= tolb) and not (whole[j] == alone[j]):
                ctx.fail("the risk of one column of a sample of shape (N, *) differs from the risk of that column alone",
                         case | {"column": j}, key=kn if narrow else f"{which}:shape:column", detail={"in_batch": whole[j], "alone": alone[j]})
                break
            if which in ("es", "erm", "qcvar"):
                low = F(1, 4) / F(par) if which == "qcvar" else 0
                if not (-float(max(col) + low) - qtol <= whole[j] <= -float(min(col) + low) + qtol) or \
                        (which != "qcvar" and whole[j] < -float(sum(col) / N) - tol):
                    ctx.fail("the risk of one column of a sample of shape (N, *) is outside [-max, -min] of that column or below minus its mean"
                             " (lowered by 1/(4 lam) for quadratic CVaR)", case | {"column": j},
                             key=kn if narrow else f"{which}:shape:bounds", detail={"risk": whole[j]})
                    break
                if abs(whole[j] - (plain[j] + float(tq[j]))) > qtol:
                    ctx.fail("cash invariance fails column by column: a per-column cash amount (the target) does not lower each column's risk by exactly that amount",
                             case | {"column": j}, key=kn if narrow else f"{which}:shape:cash", detail={"with target": whole[j], "without": plain[j]})
                    break
        else:
            if which == "es":
                p2 = g.choice([1.0, 1.0, 0.99, min(1.0, float(par) + 0.2)])
                if p2 >= par:
                    with torch.no_grad():
                        r2 = vals(make_crit(nn, fnl, "es", p2, form)(x, target))
                    if len(r2) != M or any(r2[j] > whole[j] + tol for j in range(M)):
                        ctx.fail("expected shortfall of a column increases with the quantile level (up to p = 1)", case | {"p2": p2},
                                 key="es:shape:level", detail={"p": whole, "p2": r2})
            elif which == "erm":
                a2 = par * g.choice([1.5, 2.0, 8.0])
                with torch.no_grad():
                    r2 = vals(make_crit(nn, fnl, "erm", a2, form)(x, target))
                if len(r2) != M or any(r2[j] < whole[j] - tol for j in range(M)):
                    ctx.fail("entropic risk of a column decreases when the risk aversion increases", case | {"a2": a2},
                             key="erm:shape:risk-aversion", detail={"a": whole, "a2": r2})
        if which == "es":
            pn = F(float(par)) * N
            if not (abs(pn - round(pn)) <= F(1, 10 ** 9) and pn != round(pn)):
                reqs.append({"op": "es", "k": math.ceil(par * N), "cols": enc_rat(eff)})
                metas.append(("es", case, whole))
        elif which == "erm":
            reqs.append({"op": "erm", "a": float_bits(par), "cols": enc_flt([[float(v) for v in col] for col in eff])})
            metas.append(("erm", case, whole))
    # ---- the caller's tensors are used again after an evaluation: rho(X) is computed, then X + c, a better position X + D and a
    # mixture t X + (1 - t) Z are built FROM THE SAME tensor objects (the ordinary way of checking an axiom), X is evaluated again,
    # and the bounds are taken from the tensor as it is after the evaluation.  Module (also deep-copied, with a tensor target that is
    # reused as well) and functional forms (dim=0 and the default dim), samples that require grad (leaf tensors) included
    for it in range(240 if ctx.tier == "quick" else 2400):
        which = g.choice(["es", "erm", "qcvar", "qcvar", "eloss", "iso"])
        N = g.small((1, 2, 3, 4, 5, 7, 8, 10, 16, 25))
        M = g.choice([1, 1, 2])
        kind = g.choice(["generic", "ties", "heavy", "mixed", "generic_shifted", "wide"]) if which not in ("eloss", "iso") else g.choice(["generic", "ties"])
        xs = gen_sample(g, N=N, M=M, kind=kind)["cols"]
        zs = gen_sample(g, N=N, M=M, kind=kind)["cols"]
        if which == "iso":
            xs = [[abs(v) + F(1, 8) for v in col] for col in xs]
            zs = [[abs(v) + F(1, 8) for v in col] for col in zs]
        form = g.choice(["module", "module_target", "functional", "functional"] + (["dimnone"] if (M == 1 and which in ("es", "qcvar")) else []))
        copied = form.startswith("module") and g.chance(0.3)
        grad = g.chance(0.2)
        if form == "module_target":
            thi = 1 if which != "iso" else 0          # isoelastic utility needs input - target > 0
            tq = [[g.dy(-1, thi, 2) for _ in range(N)] for _ in range(M)]
        else:
            tq = [[F(0)] * N for _ in range(M)]
        ds = [[(g.dy(0, 1, 3) if g.chance(0.6) else F(0)) for _ in range(N)] for _ in range(M)]
        c = g.dy(-2, 2, 2)
        lam_t = g.choice([F(1, 2), F(1, 4), F(3, 4), F(0), F(1)])
        xe = [[a_ - b_ for a_, b_ in zip(xs[m], tq[m])] for m in range(M)]
        ze = [[a_ - b_ for a_, b_ in zip(zs[m], tq[m])] for m in range(M)]
        ye = [[a_ + b_ for a_, b_ in zip(xe[m], ds[m])] for m in range(M)]
        me = [[lam_t * a_ + (1 - lam_t) * b_ for a_, b_ in zip(xe[m], ze[m])] for m in range(M)]
        scale = max(1.0, max(abs(float(v)) for col in xs + zs + xe + ze for v in col))
        if which == "es":
            par = g.choice([0.1, 0.25, 0.5, 0.3, 1.0, 1 / N, g.randint(1, N) / N, 0.33])
        elif which == "erm":
            par = g.choice([0.25, 1.0, 2.0, 1 / 64, 8.0])
        elif which == "qcvar":
            par = g.choice([1.0, 2.0, 10.0, 64.0])
        elif which == "eloss":
            par = g.choice([0.25, 1.0, 2.0])
        else:
            par = g.choice([1.0, 0.5, 0.25])

        def T2(cs):
            t = torch.tensor([[float(cs[m][i]) for m in range(M)] for i in range(N)], dtype=dt)
            return t[:, 0].contiguous() if (M == 1 and shape1) else t
        shape1 = M == 1 and (form == "dimnone" or g.chance(0.7))
        X, Z, D = T2(xs), T2(zs), T2(ds)
        TG = T2(tq) if form == "module_target" else None
        if grad:
            X.requires_grad_(True)
        case = {"which": which + "_reuse", "N": N, "M": M, "kind": kind, "form": form, "copied": copied, "requires_grad": grad, "par": repr(par),
                "shape": list(X.shape), "x": enc_rat(xs), "z": enc_rat(zs), "d": enc_rat(ds), "target": enc_rat(tq) if TG is not None else None,
                "c": rat_str(c), "t": rat_str(lam_t)}
        ctx.case(case, nontrivial=(N >= 2), tag=f"{which}_reuse:{form}")
        ctx.traces += 1
        crit = make_crit(nn, fnl, which, par, "module" if form.startswith("module") else form, copied)

        last = {}

        def rho(t, f=None):
            last["t"] = (f or crit)(t, TG)
            return vals(last["t"])
        tol = 1e-9 * scale
        qtol, narrow = tol, False
        if which == "qcvar":
            xc = [[v + c for v in col] for col in xe]
            qtol = tol + par * (10 * max(qprec(col) for col in xe + ze + ye + me + xc)) ** 2
            narrow = any(is_narrow(col, par) for col in xe + ze + ye + me)
        kn = "quadratic_cvar:bracket-misses-root"
        ft = float(lam_t)

        def bad(what, axiom, **d):
            ctx.fail(what + " when the same tensor objects are used again after an evaluation", case,
                     key=kn if narrow else f"{which}:reuse:{axiom}", detail=d)
        try:
            r1 = rho(X)
            r2 = rho(X)
            live = X.detach() if TG is None else X.detach() - TG
            live = live.reshape(N, M)
            hi, lo, mean = vals(live.amax(0)), vals(live.amin(0)), vals(live.mean(0))
            rc = rho(X + float(c)) if which in ("es", "erm", "qcvar") else None
            ry = rho(X + D)
            rz = rho(Z)
            rm = rho(ft * X + (1 - ft) * Z)
            r3 = rho(X)
            ct_add(torch, reqs, metas, case, which, par, X, TG, "module" if form.startswith("module") else "functional",
                   None if form.startswith("module") or form == "dimnone" else 0, "ok", last["t"])
            extra = None
            if which == "es":
                a_ = g.choice([F(1, 2), F(2), F(3)])
                p2 = min(1.0, par + g.choice([0.05, 0.2, 0.5]))
                extra = (float(a_), rho(float(a_) * X) if TG is None else None, p2, rho(X, make_crit(nn, fnl, "es", p2, "module" if form.startswith("module") else form)))
            elif which == "erm":
                a2 = par * g.choice([1.5, 2.0, 10.0])
                extra = (a2, rho(X, make_crit(nn, fnl, "erm", a2, "module" if form.startswith("module") else form)))
        except Exception as e:  # noqa
            ctx.fail("a criterion raised when the sample tensor (a leaf that requires grad / a tensor used before) was evaluated", case,
                     key=f"{which}:reuse:error", detail=repr(e)[:300])
            continue
        more = [e for e in ((extra[1], extra[3]) if which == "es" else ((extra[1],) if which == "erm" else ())) if e is not None]
        if any(len(r) != M for r in [r1, r2, ry, rz, rm, r3] + more):
            ctx.fail("the risk of a sample of shape (N, M) does not have M entries", case, key=f"{which}:reuse:output-shape")
            continue
        rel = lambda v: 1e-9 * max(abs(v), 1e-300) if which == "eloss" else (1e-9 * max(abs(v), 1.0) if which == "iso" else qtol)
        for j in range(M):
            if abs(r2[j] - r1[j]) > rel(r1[j]) or abs(r3[j] - r1[j]) > rel(r1[j]):
                bad("the risk of a sample changes between evaluations of the same tensor", "repeat", first=r1[j], second=r2[j], last=r3[j])
                break
            if which in ("es", "erm", "qcvar"):
                low = 1 / (4 * par) if which == "qcvar" else 0.0
                if not (-hi[j] - low - qtol <= r1[j] <= -lo[j] - low + qtol) or (which != "qcvar" and r1[j] < -mean[j] - tol):
                    bad("the risk lies outside [-max, -min] (or below minus the mean) of the sample as the tensor holds it after the evaluation",
                        "bounds", risk=r1[j], max=hi[j], min=lo[j], mean=mean[j])
                    break
                if abs(rc[j] - (r1[j] - float(c))) > qtol:
                    bad("cash invariance fails", "cash", rx=r1[j], rc=rc[j])
                    break
                if ry[j] > r1[j] + qtol:
                    bad("monotonicity fails: a pointwise better P&L has higher risk", "monotone", rx=r1[j], ry=ry[j])
                    break
                if rm[j] > ft * r1[j] + (1 - ft) * rz[j] + qtol:
                    bad("convexity under mixing fails", "convex", rx=r1[j], rz=rz[j], rmix=rm[j], t=ft)
                    break
            else:
                if ry[j] > r1[j] * (1 + 1e-12) + 1e-300 + (rel(r1[j]) if which == "iso" else 0.0):
                    bad("monotonicity of the expected-utility loss fails", "monotone", rx=r1[j], ry=ry[j])
                    break
                if rm[j] > ft * r1[j] + (1 - ft) * rz[j] + max(rel(r1[j]), rel(rz[j])):
                    bad("convexity of the expected-utility loss fails", "convex", rx=r1[j], rz=rz[j], rmix=rm[j], t=ft)
                    break
            if which == "es":
                if extra[1] is not None and abs(extra[1][j] - extra[0] * r1[j]) > tol * max(1, extra[0]):
                    bad("positive homogeneity of expected shortfall fails", "homogeneous", rx=r1[j], a=extra[0], rax=extra[1][j])
                    break
                if extra[3][j] > r1[j] + tol:
                    bad("expected shortfall increases with its quantile level", "level", rx=r1[j], p2=extra[2], rp2=extra[3][j])
                    break
            elif which == "erm" and extra[1][j] < r1[j] - tol:
                bad("entropic risk decreases when the risk aversion increases", "risk-aversion", rx=r1[j], a2=extra[0], ra2=extra[1][j])
                break
        # correspondence with the model for the LAST evaluation of the reused tensor
        if which == "es":
            pn = F(float(par)) * N
            if not (abs(pn - round(pn)) <= F(1, 10 ** 9) and pn != round(pn)):
                reqs.append({"op": "es", "k": math.ceil(par * N), "cols": enc_rat(xe)})
                metas.append(("es", case, r3))
        elif which == "erm":
            reqs.append({"op": "erm", "a": float_bits(par), "cols": enc_flt([[float(v) for v in col] for col in xe])})
            metas.append(("erm", case, r3))
    # ---- the smallest samples: ONE path and two paths (also three in the random part), measured through the MODULE together with a
    # non-zero target of every admissible kind: a Python float, a Python int, a 0-dim tensor, one value per column (shape (*)), a
    # row (shape (1, *)) and one value per path (shape (N, *)); positional or keyword, module or a deep copy of it, float64 and
    # float32.  The sample whose risk is asked for is the P&L input - target:
    #   * rho(input, target) has the trailing shape and is exactly rho(input - target) (and the functional form of input - target)
    #   * bounds of the P&L: -max - low <= rho, rho >= -mean - low, rho <= -min (low = 1/(4 lam) for quadratic CVaR, else 0; for
    #     quadratic CVaR rho <= -min - low is reported under the known finding on narrow samples - a one-path sample is narrow -
    #     and under its own key otherwise)
    #   * cash invariance through the position AND through the liability: rho(input + c, target) = rho - c, rho(input, target + c)
    #     = rho + c
    #   * monotone through the liability: a smaller liability on every path never raises the risk; a liability larger by at least
    #     1 on every path raises it by at least 1
    #   * ES does not increase up to the level 1 (given as the float 1.0 and as the int 1: the same level), entropic risk does not
    #     decrease in the risk aversion; convexity under mixing of two positions held against the same liability
    # A deterministic list of (criterion, N, trailing shape, kind of target, dtype) runs on every tier; the values are drawn from g.
    f32 = torch.float32
    tiny_kinds = ["number", "int", "zerodim", "column", "row", "path"]
    tiny = [(w, N_, tr, tk, d_) for w in ("es", "erm", "qcvar", "eloss", "iso") for N_ in (1, 2) for tr in ((), (3,), (2, 2))
            for tk in tiny_kinds if not (tk == "column" and not tr) for d_ in (dt, f32) if d_ is dt or tr != (2, 2)]
    for it in range(60 if ctx.tier == "quick" else 1200):
        tr = g.choice([(), (1,), (2,), (3,), (2, 2), (1, 2)])
        tiny.append((g.choice(["es", "erm", "qcvar", "qcvar", "eloss", "iso"]), g.choice([1, 1, 2, 3]), tr,
                     g.choice([k_ for k_ in tiny_kinds if not (k_ == "column" and not tr)]), g.choice([dt, dt, f32])))
    for which, N, trailing, tk, dtype in tiny:
        M = 1
        for t_ in trailing:
            M *= t_
        utility = which in ("eloss", "iso")
        kind = g.choice(["generic", "ties"]) if utility else g.choice(["generic", "generic", "ties", "heavy", "generic_shifted", "const"])
        cols = gen_sample(g, N=N, M=M, kind=kind)["cols"]
        zcols = gen_sample(g, N=N, M=M, kind=kind)["cols"]
        if which == "iso":
            cols = [[abs(v) + F(1, 8) for v in col] for col in cols]
            zcols = [[abs(v) + F(1, 8) for v in col] for col in zcols]
        tlo, thi = (-1, 0) if which == "iso" else (-2, 2)          # isoelastic utility needs input - target > 0

        def nz():
            v = g.dy(tlo, thi, 2)
            return v if v != 0 else F(-1, 4)
        if tk == "int":
            t0 = F(g.choice([-1] if which == "iso" else [-2, -1, 1, 2]))
            tq = [[t0] * N for _ in range(M)]
        elif tk in ("number", "zerodim"):
            t0 = nz()
            tq = [[t0] * N for _ in range(M)]
        elif tk in ("column", "row"):
            tq = [[nz()] * N for _ in range(M)]
        else:
            tq = [[nz() for _ in range(N)] for _ in range(M)]
        if which == "es":
            par = g.choice([0.1, 0.5, 0.75, 0.99, 1.0, 1, 1 / N])
        elif which == "erm":
            par = g.choice([1 / 64, 0.25, 1.0, 8.0])
        elif which == "qcvar":
            par = g.choice([1.0, 2.0, 10.0, 64.0])
        elif which == "eloss":
            par = g.choice([0.25, 1.0, 2.0])
        else:
            par = g.choice([1.0, 0.5, 0.25])
        copied, keyword = g.chance(0.3), g.chance(0.5)
        c = g.dy(-2, 2, 2) if not utility else F(0)
        c = c if (c != 0 or utility) else F(3, 4)
        ds = [[(g.dy(0, 1, 3) if g.chance(0.7) else F(0)) for _ in range(N)] for _ in range(M)]
        lam_t = g.choice([F(1, 2), F(1, 4), F(3, 4)])
        eff = [[a_ - b_ for a_, b_ in zip(cols[m], tq[m])] for m in range(M)]           # the P&L samples whose risk is asked for
        zeff = [[a_ - b_ for a_, b_ in zip(zcols[m], tq[m])] for m in range(M)]
        meff = [[lam_t * a_ + (1 - lam_t) * b_ for a_, b_ in zip(eff[m], zeff[m])] for m in range(M)]
        scale = max(1.0, max(abs(float(v)) for col in cols + zcols + eff + zeff for v in col))

        def TT(cs, shape=None):
            return torch.tensor([[float(cs[m][i]) for m in range(M)] for i in range(N)], dtype=dtype).reshape(shape or ((N,) + trailing))
        X, Z, D = TT(cols), TT(zcols), TT(ds)
        if tk in ("number", "int"):
            target = int(tq[0][0]) if tk == "int" else float(tq[0][0])
        elif tk == "zerodim":
            target = torch.tensor(float(tq[0][0]), dtype=dtype)
        elif tk == "column":
            target = TT(tq)[0].clone()
        elif tk == "row":
            target = TT(tq)[:1].clone()
        else:
            target = TT(tq)
        case = {"which": which + "_tiny", "N": N, "trailing": list(trailing), "dtype": str(dtype), "par": repr(par), "target": tk,
                "keyword": keyword, "copied": copied, "kind": kind, "cols": enc_rat(cols), "targets": enc_rat(tq), "z": enc_rat(zcols),
                "d": enc_rat(ds), "c": rat_str(c), "t": rat_str(lam_t)}
        ctx.case(case, True, tag=f"{which}_tiny:N={N}")
        ctx.stats[f"tiny-target={tk}"] += 1
        ctx.traces += 1
        mod = getattr(nn, MODULES[which])(par)
        if copied:
            mod = copy.deepcopy(mod)

        def rho(t, tg, m_=None):
            with torch.no_grad():
                return ((m_ or mod)(t, target=tg) if keyword else (m_ or mod)(t, tg)).to(torch.float64)
        try:
            PL = X - target
            r_t = rho(X, target)
            with torch.no_grad():
                r_pl = mod(PL).to(torch.float64)
                r_fn = make_crit(nn, fnl, which, par, "functional")(PL).to(torch.float64)
            ct_add(torch, reqs, metas, case, which, par, X, target, "module", None, "ok", r_t)
            if tuple(r_t.shape) != trailing or tuple(PL.shape) != tuple(X.shape):
                ctx.fail("the risk of a sample of shape (N, *) measured against a target does not have the trailing shape (*)", case,
                         key=f"{which}:tiny:output-shape", detail={"shape": list(r_t.shape)})
                continue
            r_better = rho(X, target - D)                       # a smaller liability on every path
            r_worse = rho(X, target + 1.0 + D) if not utility else r_t      # a liability larger by at least 1 on every path
            r_z = rho(Z, target)
            ft = float(lam_t)
            r_mix = rho(ft * X + (1 - ft) * Z, target)
            if not utility:
                r_cx = rho(X + float(c), target)
                r_ct = rho(X, target + (int(c) if (tk == "int" and c.denominator == 1) else float(c)))
            if which == "es":
                r_one = [rho(X, target, nn.ExpectedShortfall(p1)) for p1 in (1.0, 1)]
            elif which == "erm":
                a2 = par * g.choice([1.5, 2.0, 8.0])
                r_a2 = rho(X, target, nn.EntropicRiskMeasure(a2))
        except Exception as e:  # noqa
            ctx.fail("a criterion raised on a one-/two-path sample with a target", case, key=f"{which}:tiny:error", detail=repr(e)[:300])
            continue
        eps_ = 2.0 ** -52 if dtype is dt else 2.0 ** -23
        tol = 1e-9 * scale if dtype is dt else 256 * eps_ * (scale + (1 / par if which == "erm" else 0.0))
        qtol, narrow, slack = tol, False, 0.0
        kn = "quadratic_cvar:bracket-misses-root"
        if which == "qcvar":
            worse = [[v - 1 - d_ for v, d_ in zip(eff[m], ds[m])] for m in range(M)]
            better = [[v + d_ for v, d_ in zip(eff[m], ds[m])] for m in range(M)]
            allc = eff + zeff + meff + worse + better
            qtol = tol + par * (10 * max(qprec(col) for col in allc)) ** 2
            narrow = any(is_narrow(col, par) for col in allc)
            # on a narrow sample the library evaluates the objective at the lower end of its bracket up to the bisection's precision
            # (slope <= 1 there): two different narrow samples are comparable up to that precision (first order), not its square
            slack = max(qprec(col) for col in allc) if narrow else 0.0
        if not torch.equal(r_t, r_pl):
            ctx.fail("the risk measured against a target is not the risk of the P&L input - target: criterion(input, target) != criterion(input - target)",
                     case, key=f"{which}:tiny:target", detail={"with target": vals(r_t), "of input - target": vals(r_pl)})
        v_t, v_fn, v_b, v_w, v_z, v_m = vals(r_t), vals(r_fn), vals(r_better), vals(r_worse), vals(r_z), vals(r_mix)
        relu_ = lambda v: (1e-9 if dtype is dt else 64 * eps_) * max(abs(v), 1e-300 if which == "eloss" else 1.0)   # noqa
        for j in range(M):
            col = eff[j]
            r = v_t[j]
            if not math.isfinite(r):
                ctx.fail("the risk of a one-/two-path P&L is not finite", case | {"column": j}, key=f"{which}:tiny:nonfinite", detail={"risk": r})
                break
            if abs(v_fn[j] - r) > (relu_(r) if utility else qtol):
                ctx.fail("the module measured against a target differs from the functional form of the P&L input - target", case | {"column": j},
                         key=f"{which}:tiny:target-functional", detail={"module": r, "functional": v_fn[j]})
            if utility:
                if v_b[j] > r + relu_(r):
                    ctx.fail("expected-utility loss is not monotone in the liability: a smaller target on every path gives a higher loss",
                             case | {"column": j}, key=f"{which}:tiny:monotone", detail={"loss": r, "better": v_b[j]})
                    break
                if v_m[j] > ft * r + (1 - ft) * v_z[j] + max(relu_(r), relu_(v_z[j])):
                    ctx.fail("expected-utility loss is not convex under mixing of two positions held against the same liability",
                             case | {"column": j}, key=f"{which}:tiny:convex", detail={"rx": r, "rz": v_z[j], "rmix": v_m[j], "t": ft})
                    break
                continue
            low = 1 / (4 * par) if which == "qcvar" else 0.0
            hi_, lo_, mean_ = float(max(col)), float(min(col)), float(sum(col) / N)
            if r < -hi_ - low - qtol or r < -mean_ - low - qtol or r > -lo_ + qtol:
                ctx.fail("the risk of a one-/two-path P&L input - target is outside its bounds: below minus the best outcome or minus the mean "
                         "(lowered by 1/(4 lam) for quadratic CVaR) or above minus the worst outcome", case | {"column": j},
                         key=f"{which}:tiny:bounds", detail={"risk": r, "max": hi_, "min": lo_, "mean": mean_, "low": low})
                break
            if which == "qcvar" and r > -lo_ - low + qtol:
                ctx.fail("quadratic CVaR of a one-/two-path P&L input - target is above minus the worst outcome - 1/(4 lam)", case | {"column": j},
                         key=kn if is_narrow(col, par) else "qcvar:tiny:upper-bound", detail={"risk": r, "min": lo_, "low": low})
                break
            v_cx, v_ct = vals(r_cx), vals(r_ct)
            if abs(v_cx[j] - (r - float(c))) > qtol:
                ctx.fail("cash invariance fails on a one-/two-path sample: cash added to the position does not lower the risk by that amount",
                         case | {"column": j}, key=f"{which}:tiny:cash", detail={"rho": r, "rho(input + c, target)": v_cx[j], "c": float(c)})
                break
            if abs(v_ct[j] - (r + float(c))) > qtol:
                ctx.fail("cash invariance fails through the liability: rho(input, target + c) != rho(input, target) + c",
                         case | {"column": j}, key=f"{which}:tiny:cash-target", detail={"rho": r, "rho(input, target + c)": v_ct[j], "c": float(c)})
                break
            if v_b[j] > r + qtol + slack:
                ctx.fail("monotonicity fails through the liability: a smaller target on every path (a pointwise better P&L) has higher risk",
                         case | {"column": j}, key=f"{which}:tiny:monotone", detail={"rho": r, "better": v_b[j]})
                break
            if v_w[j] < r + 1.0 - qtol - slack:
                ctx.fail("a P&L that is worse by at least 1 on every path (a larger target) is not riskier by at least 1",
                         case | {"column": j}, key=f"{which}:tiny:worse-by-one", detail={"rho": r, "worse": v_w[j]})
                break
            if v_m[j] > ft * r + (1 - ft) * v_z[j] + qtol:
                ctx.fail("convexity under mixing of two positions held against the same liability fails", case | {"column": j},
                         key=kn if narrow else f"{which}:tiny:convex", detail={"rx": r, "rz": v_z[j], "rmix": v_m[j], "t": ft})
                break
            if which == "es":
                if len(vals(r_one[0])) != M or len(vals(r_one[1])) != M:
                    ctx.fail("expected shortfall at the level 1 of a sample of shape (N, *) measured against a target does not have the trailing shape (*)",
                             case, key="es:tiny:output-shape", detail={"shape p=1.0": list(r_one[0].shape), "shape p=1 (int)": list(r_one[1].shape)})
                    break
                o_f, o_i = vals(r_one[0])[j], vals(r_one[1])[j]
                if o_f > r + tol or o_i > r + tol or abs(o_f - o_i) > tol:
                    ctx.fail("expected shortfall increases with its quantile level up to the level 1 (given as 1.0 and as the int 1)",
                             case | {"column": j}, key="es:tiny:level", detail={"p": r, "p=1.0": o_f, "p=1 (int)": o_i})
                    break
            elif which == "erm" and vals(r_a2)[j] < r - tol:
                ctx.fail("entropic risk decreases when the risk aversion increases", case | {"column": j, "a2": a2},
                         key="erm:tiny:risk-aversion", detail={"a": r, "a2": vals(r_a2)[j]})
                break
        else:
            if dtype is dt and which == "es":
                pn = F(float(par)) * N
                if not (abs(pn - round(pn)) <= F(1, 10 ** 9) and pn != round(pn)):
                    reqs.append({"op": "es", "k": math.ceil(par * N), "cols": enc_rat(eff)})
                    metas.append(("es", case, v_t))
            elif dtype is dt and which == "erm":
                reqs.append({"op": "erm", "a": float_bits(par), "cols": enc_flt([[float(v) for v in col] for col in eff])})
                metas.append(("erm", case, v_t))
    try:
        outs = ctx.driver(reqs)
    except DriverBroken as e:
        ctx.ties_broken.append({"kind": "driver", "detail": str(e)[:1500]})
        outs = []
    for (which, case, got), mo in zip(metas, outs):
        if which == "crit_tensor":
            ctx.stats["crit_tensor"] += 1
            ctx.stats[f"crit_tensor:{got[0]}:{case['crit_tensor']['form']}:dim={case['crit_tensor']['dim']}"] += 1
            ct_check(ctx, case, got, mo)
            continue
        gots = got if isinstance(got, list) else [got]        # one value per column
        if which == "es":
            mvs = [float(v) for v in dec_rat(mo["es"])]
            if len(mvs) != len(gots) or not all(close(gv, mv, 1e-13, 1e-15) for gv, mv in zip(gots, mvs)):
                ctx.disagree("es", case, got, mvs)
        else:
            os_ = mo["erm"]
            if len(os_) != len(gots) or not all("ok" in o and close(gv, float_of_bits(o["ok"]), 1e-10, 1e-12) for gv, o in zip(gots, os_)):
                ctx.disagree("erm", case, got, os_)
    return ctx.finish(
        rule="samples N in {1..33} with ties/constants/heavy tails/scales 2^-20..2^20, a pointwise-better sample, a second sample and mixtures "
             "t in {0,1/4,1/2,3/4,1}, cash shifts, scalings, levels and risk aversions; samples of shape (N, *) with boundary parameters (p = 1, 1/N; a, lam at the ends), "
             "scalar / per-column targets, module (also deep-copied) and functional forms (dim=0, last dim), column by column; the same tensor "
             "objects evaluated again and reused to build X + c, X + D and mixtures (module with a reused target, functional dim=0 / default, "
             "leaf tensors that require grad); the batched-shape, boundary-parameter, reuse and tiny-sample calls also as whole tensors through the "
             "tensor level of the model (op crit_tensor: input tensor, target object, form, dim -> shape exactly, values at the one-column tolerances); "
             "non-trivial = N>=2; distinct = sha1 of canonical case")
