"""Recording of the random draws consumed by pfhedge's generators (in-process monkeypatch, no repo
change) and construction of the model requests (`gen` op, Float carrier, one path per request)."""
import math
from common import *  # noqa


class Recorder:
    """records every draw of torch.randn / randn_like / rand_like and of the torch.distributions
    samplers used by the generators, in consumption order"""

    def __init__(self, torch):
        self.torch = torch
        self.draws = []
        self._saved = []

    def engine(self, *size, dtype=None, device=None):
        t = self.torch.randn(*size, dtype=dtype, device=device) if False else self._orig_randn(*size, dtype=dtype, device=device)
        self.draws.append(("engine", t.clone()))
        return t

    def __enter__(self):
        torch = self.torch
        D = torch.distributions
        self._orig_randn = torch.randn
        rec = self

        def wrap(label, fn):
            def f(*a, **k):
                t = fn(*a, **k)
                rec.draws.append((label, t.clone()))
                return t
            return f

        def wrap_method(label, cls):
            orig = cls.sample

            def sample(self_, *a, **k):
                t = orig(self_, *a, **k)
                rec.draws.append((label, t.clone()))
                return t
            rec._saved.append((cls, "sample", orig))
            cls.sample = sample
        for name in ("randn", "randn_like", "rand_like"):
            self._saved.append((torch, name, getattr(torch, name)))
            setattr(torch, name, wrap(name, getattr(torch, name)))
        wrap_method("poisson", D.poisson.Poisson)
        wrap_method("exponential", D.exponential.Exponential)
        wrap_method("uniform", D.uniform.Uniform)
        wrap_method("mvn", D.multivariate_normal.MultivariateNormal)
        return self

    def __exit__(self, *exc):
        for obj, name, orig in reversed(self._saved):
            setattr(obj, name, orig)
        self._saved = []
        return False

    def take(self, label):
        for i, (l, t) in enumerate(self.draws):
            if l == label:
                return self.draws.pop(i)[1]
        raise InternalError(f"no recorded draw labelled {label}; have {[l for l, _ in self.draws]}")


class GridMismatch(Exception):
    pass


GENERATORS = ["brownian", "geometric_brownian", "vasicek", "cir", "heston", "merton_jump", "kou_jump", "local_volatility", "rough_bergomi"]


def gen_params(g, name):
    dt = g.choice([1 / 250, 1 / 12, 0.1, 1 / 365])
    n = g.small((1, 2, 3, 5, 8, 20))
    N = g.small((1, 2, 3))
    p = {"dt": dt, "n": n, "N": N}
    if name in ("brownian", "geometric_brownian"):
        p |= {"init": g.choice([0.0, 1.0, 2.5, -1.0]) if name == "brownian" else g.choice([1.0, 2.5, 0.3]),
              "sigma": g.choice([0.2, 0.05, 1.0, 2.0]), "mu": g.choice([0.0, 0.1, -0.5, 1.0])}
    elif name == "vasicek":
        p |= {"init": g.choice([0.04, 0.0, 0.1, -0.02, 1.0]), "kappa": g.choice([1.0, 0.1, 5.0]), "theta": g.choice([0.04, 0.0, 0.1]),
              "sigma": g.choice([0.04, 0.2, 0.0])}
    elif name == "cir":
        p |= {"init": g.choice([0.04, 0.0, 0.2, 1e-6, 1.0]), "kappa": g.choice([1.0, 0.1, 5.0]), "theta": g.choice([0.04, 0.2]),      # theta > 0: admissible CIR parameters (theta = 0 is degenerate: 0 * inf once v hits 0)
              "sigma": g.choice([0.2, 2.0, 0.01, 5.0])}
    elif name == "heston":
        p |= {"s0": g.choice([1.0, 2.0, 0.5]), "v0": g.choice([0.04, 0.2, 1e-6, 0.0]), "kappa": g.choice([1.0, 0.1, 5.0]),
              "theta": g.choice([0.04, 0.2]), "sigma": g.choice([0.2, 2.0, 0.01]), "rho": g.choice([-0.7, 0.0, 0.9, -0.99])}
    elif name == "merton_jump":
        p |= {"init": g.choice([1.0, 2.0]), "mu": g.choice([0.0, 0.1]), "sigma": g.choice([0.2, 0.5]), "lam": g.choice([68.2, 0.0, 5.0, 500.0]),
              "jm": g.choice([0.0, -0.05, 0.1]), "js": g.choice([0.02, 0.2, 0.0])}
    elif name == "kou_jump":
        p |= {"init": g.choice([1.0, 2.0]), "sigma": g.choice([0.2, 0.5]), "mu": g.choice([0.0, 0.1]), "lam": g.choice([68.0, 0.0, 5.0, 500.0]),
              "mean_up": g.choice([0.02, 0.1, 0.5]), "mean_down": g.choice([0.05, 0.2, 2.0]), "p_up": g.choice([0.5, 0.0, 1.0, 0.3])}
    elif name == "local_volatility":
        p |= {"init": g.choice([1.0, 2.0]), "a": g.choice([0.2, 0.0, 0.5, 3.0]), "b": g.choice([0.0, 0.1, -0.05]), "c": g.choice([0.0, 0.3])}
        if p["a"] >= 3.0:
            # 300 % volatility is there for steps with sigma*sqrt(dt) of order one; together with a volatility that GROWS with the
            # price (b > 0: super-linear diffusion coefficient) the explicit Euler recursion S <- S + (a + b S) S dW squares the price
            # at every step and leaves the float range within twenty steps for ANY implementation of the scheme - that is the user's
            # sigma_fn overflowing, not a generator defect, so the two are not combined
            p["b"] = min(p["b"], 0.0)
    else:
        p |= {"s0": g.choice([1.0, 2.0]), "v0": g.choice([0.04, 0.1]), "alpha": g.choice([-0.4, -0.2, -0.45, 0.1]), "rho": g.choice([-0.9, 0.0, 0.5]),
              "eta": g.choice([1.9, 0.5]), "n": max(2, n), "xi": g.choice([0.04, 0.2])}
    return p


INSTRUMENTS = {"geometric_brownian": "BrownianStock", "heston": "HestonStock", "cir": "CIRRate", "vasicek": "VasicekRate",
               "merton_jump": "MertonJumpStock", "kou_jump": "KouJumpStock", "rough_bergomi": "RoughBergomiStock",
               "local_volatility": "LocalVolatilityStock"}


def run_instrument(torch, name, p, rec, dtype):
    """the primary instrument named after generator `name`, constructed with the parameters `p`, simulated over the horizon
    (n-1) dt from the initial state of `p`; returns the buffers.  Checks the parameter plumbing instrument -> generator."""
    import pfhedge.instruments as I
    N, n, dt = p["N"], p["n"], p["dt"]
    hor = (n - 1) * dt
    if name == "geometric_brownian":
        inst = I.BrownianStock(sigma=p["sigma"], mu=p["mu"], dt=dt, dtype=dtype)
        seed = 12345 + n * 7 + N
        torch.manual_seed(seed)
        inst.simulate(n_paths=N, time_horizon=hor, init_state=(p["init"],))
        torch.manual_seed(seed)      # BrownianStock has no engine argument: regenerate the normals it drew
        rec.draws.append(("engine", torch.randn(N, inst.spot.size(1), dtype=dtype)))
        return inst, {"spot": inst.spot}
    if name == "vasicek":
        inst = I.VasicekRate(kappa=p["kappa"], theta=p["theta"], sigma=p["sigma"], dt=dt, dtype=dtype)
        inst.simulate(n_paths=N, time_horizon=hor, init_state=(p["init"],))
        return inst, {"spot": inst.spot}
    if name == "cir":
        inst = I.CIRRate(kappa=p["kappa"], theta=p["theta"], sigma=p["sigma"], dt=dt, dtype=dtype)
        inst.simulate(n_paths=N, time_horizon=hor, init_state=(p["init"],))
        return inst, {"spot": inst.spot}
    if name == "heston":
        inst = I.HestonStock(kappa=p["kappa"], theta=p["theta"], sigma=p["sigma"], rho=p["rho"], dt=dt, dtype=dtype)
        inst.simulate(n_paths=N, time_horizon=hor, init_state=(p["s0"], p["v0"]))
        return inst, {"spot": inst.spot, "variance": inst.variance}
    if name == "merton_jump":
        inst = I.MertonJumpStock(mu=p["mu"], sigma=p["sigma"], jump_per_year=p["lam"], jump_mean=p["jm"], jump_std=p["js"], dt=dt, dtype=dtype,
                                 engine=rec.engine)
        inst.simulate(n_paths=N, time_horizon=hor, init_state=(p["init"],))
        return inst, {"spot": inst.spot}
    if name == "kou_jump":
        inst = I.KouJumpStock(sigma=p["sigma"], mu=p["mu"], jump_per_year=p["lam"], jump_mean_up=p["mean_up"], jump_mean_down=p["mean_down"],
                              jump_up_prob=p["p_up"], dt=dt, dtype=dtype, engine=rec.engine)
        inst.simulate(n_paths=N, time_horizon=hor, init_state=(p["init"],))
        return inst, {"spot": inst.spot}
    if name == "local_volatility":
        a, b, c = p["a"], p["b"], p["c"]
        inst = I.LocalVolatilityStock(lambda t, s: a + b * s + c * t, dt=dt, dtype=dtype)
        inst.simulate(n_paths=N, time_horizon=hor, init_state=(p["init"],))
        return inst, {"spot": inst.spot, "volatility": inst.volatility}
    inst = I.RoughBergomiStock(alpha=p["alpha"], rho=p["rho"], eta=p["eta"], xi=p["xi"], dt=dt, dtype=dtype)
    inst.simulate(n_paths=N, time_horizon=hor, init_state=(p["s0"], p["v0"]))
    return inst, {"spot": inst.spot, "variance": inst.variance}


def run_generator(torch, name, p, dtype=None, via="generator"):
    """run the real generator (or, with via="instrument", the primary instrument built on it) recording its draws;
    returns (outputs dict name->tensor (N,n), per-path model requests, recorder)"""
    import pfhedge.stochastic as S
    dtype = dtype or torch.float64
    N, n, dt = p["N"], p["n"], p["dt"]
    rec = Recorder(torch)
    fb = float_bits
    if via == "instrument":
        with rec:
            inst, out = run_instrument(torch, name, p, rec, dtype)
        if any(tuple(t.shape) != (N, n) for t in out.values()):
            raise GridMismatch({k: list(t.shape) for k, t in out.items()})
    else:
      with rec:
          if name == "brownian":
              out = {"spot": S.generate_brownian(N, n, init_state=(p["init"],), sigma=p["sigma"], mu=p["mu"], dt=dt, dtype=dtype, engine=rec.engine)}
          elif name == "geometric_brownian":
              out = {"spot": S.generate_geometric_brownian(N, n, init_state=(p["init"],), sigma=p["sigma"], mu=p["mu"], dt=dt, dtype=dtype, engine=rec.engine)}
          elif name == "vasicek":
              out = {"spot": S.generate_vasicek(N, n, init_state=(p["init"],), kappa=p["kappa"], theta=p["theta"], sigma=p["sigma"], dt=dt, dtype=dtype)}
          elif name == "cir":
              out = {"spot": S.generate_cir(N, n, init_state=(p["init"],), kappa=p["kappa"], theta=p["theta"], sigma=p["sigma"], dt=dt, dtype=dtype)}
          elif name == "heston":
              o = S.generate_heston(N, n, init_state=(p["s0"], p["v0"]), kappa=p["kappa"], theta=p["theta"], sigma=p["sigma"], rho=p["rho"], dt=dt, dtype=dtype)
              out = {"spot": o.spot, "variance": o.variance}
          elif name == "merton_jump":
              out = {"spot": S.generate_merton_jump(N, n, init_state=(p["init"],), mu=p["mu"], sigma=p["sigma"], jump_per_year=p["lam"],
                                                    jump_mean=p["jm"], jump_std=p["js"], dt=dt, dtype=dtype, engine=rec.engine)}
          elif name == "kou_jump":
              out = {"spot": S.generate_kou_jump(N, n, init_state=(p["init"],), sigma=p["sigma"], mu=p["mu"], jump_per_year=p["lam"],
                                                 jump_mean_up=p["mean_up"], jump_mean_down=p["mean_down"], jump_up_prob=p["p_up"], dt=dt,
                                                 dtype=dtype, engine=rec.engine)}
          elif name == "local_volatility":
              a, b, c = p["a"], p["b"], p["c"]
              o = S.generate_local_volatility_process(N, n, lambda t, s: a + b * s + c * t, init_state=(p["init"],), dt=dt, dtype=dtype)
              out = {"spot": o.spot, "volatility": o.volatility}
          else:
              o = S.generate_rough_bergomi(N, n, init_state=(p["s0"], p["v0"]), alpha=p["alpha"], rho=p["rho"], eta=p["eta"], xi=p["xi"], dt=dt, dtype=dtype)
              out = {"spot": o.spot, "variance": o.variance}
    eps = float(torch.finfo(dtype).tiny)
    reqs = []

    def via_default(x):
        """generate_cir / generate_vasicek convert their Python-float parameters with
        `torch.as_tensor(x).to(output)`: through the default dtype (float32)"""
        return float(torch.as_tensor(x).to(dtype))
    L = lambda t, i: enc_flt([float(x) for x in t[i].tolist()])
    if name in ("brownian", "geometric_brownian"):
        z = rec.take("engine")
        for i in range(N):
            reqs.append({"op": "gen", "name": name, "p": {k: fb(p[k]) for k in ("init", "sigma", "mu", "dt")}, "draws": {"z": L(z, i)}})
    elif name == "vasicek":
        z = rec.take("randn_like")
        for i in range(N):
            reqs.append({"op": "gen", "name": name, "p": {"init": fb(p["init"])} | {k: fb(via_default(p[k])) for k in ("kappa", "theta", "sigma", "dt")},
                         "draws": {"z": L(z, i)}})
    elif name == "cir":
        z, u = rec.take("randn_like"), rec.take("rand_like")
        for i in range(N):
            reqs.append({"op": "gen", "name": name, "p": {"init": fb(p["init"])} | {k: fb(via_default(p[k])) for k in ("kappa", "theta", "sigma", "dt")} | {"eps": fb(eps)},
                         "draws": {"z": L(z, i), "u": L(u, i)}})
    elif name == "heston":
        z, u, zs = rec.take("randn_like"), rec.take("rand_like"), rec.take("randn_like")
        for i in range(N):
            reqs.append({"op": "gen", "name": name, "p": {k: fb(p[k]) for k in ("s0", "v0", "kappa", "theta", "sigma", "rho", "dt")} | {"eps": fb(eps)},
                         "pc": {"v0": fb(p["v0"])} | {k: fb(via_default(p[k])) for k in ("kappa", "theta", "sigma", "dt")} | {"eps": fb(eps)},
                         "draws": {"z": L(z, i), "u": L(u, i), "zs": L(zs, i)}})
    elif name == "merton_jump":
        nj, zj, z = rec.take("poisson").to(dtype), rec.take("engine"), rec.take("engine")
        for i in range(N):
            reqs.append({"op": "gen", "name": name, "p": {k: fb(p[k]) for k in ("init", "mu", "sigma", "lam", "jm", "js", "dt")},
                         "draws": {"nj": L(nj, i), "zj": L(zj, i), "z": L(z, i)}})
    elif name == "kou_jump":
        z = rec.take("engine")
        nj = rec.take("poisson")
        lj = None
        if n - 1 > 0 and (float(nj.sum()) != 0.0 or any(l == "uniform" for l, _ in rec.draws)):
            uni, up, down = rec.take("uniform"), rec.take("exponential"), rec.take("exponential")
            lj = torch.where(uni < p["p_up"], up, -down).to(dtype)
        # (a call in which NO jump was counted needs no jump sizes: the model request is then complete without them, whether or not
        # the implementation drew any)
        for i in range(N):
            jumps = []
            for s_ in range(n - 1):
                c = int(nj[i, s_])
                jumps.append([float(x) for x in lj[i, s_, :c].tolist()] if c else [])
            reqs.append({"op": "gen", "name": name,
                         "p": {"init": fb(p["init"]), "sigma": fb(p["sigma"]), "mu": fb(p["mu"]), "lam": fb(p["lam"]), "eta_up": fb(1 / p["mean_up"]),
                               "eta_down": fb(1 / p["mean_down"]), "p_up": fb(p["p_up"]), "dt": fb(dt)},
                         "draws": {"jumps": enc_flt(jumps), "z": L(z, i)}})
    elif name == "local_volatility":
        z = rec.take("randn_like")
        for i in range(N):
            r32 = float(torch.as_tensor(dt).sqrt())
            reqs.append({"op": "gen", "name": name, "p": {k: fb(p[k]) for k in ("init", "a", "b", "c", "dt")} | {"dtw": fb(r32 * r32)},
                         "draws": {"z": L(z, i)}})
    else:
        w1 = rec.take("mvn")
        w2 = rec.take("randn") * math.sqrt(dt)
        for i in range(N):
            reqs.append({"op": "gen", "name": name,
                         "p": {k: fb(p[k]) for k in ("s0", "v0", "alpha", "rho", "eta", "dt")} | {"norm": fb(float(n - 1)), "n": n},
                         "draws": {"w1a": L(w1[..., 0], i), "w1b": L(w1[..., 1], i), "w2": L(w2, i)}})
    return out, reqs, rec


def close_arr(a, b, rel=1e-9, ab=1e-12):
    if len(a) != len(b):
        return False
    for x, y in zip(a, b):
        if math.isnan(x) or math.isnan(y):
            if not (math.isnan(x) and math.isnan(y)):
                return False
        elif math.isinf(x) or math.isinf(y):
            if x != y:
                return False
        elif abs(x - y) > rel * max(abs(x), abs(y)) + ab:
            return False
    return True
