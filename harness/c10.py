"""C10 — Simulated paths follow the law of the model they are named after.

correspondence: all nine generators run with their random draws recorded (engine argument /
in-process patch of torch.randn_like, rand_like, Poisson/Exponential/Uniform/MultivariateNormal
samplers) vs the Lean model (Model/Stoch.lean, Float carrier) fed with the SAME draws.
predicate (real code): exact SDE step for Brownian / geometric Brownian, jump models at zero
intensity == geometric Brownian on the same normals, and — search support, labelled — large-sample
moment estimates with explicit 5-sigma error bars over a parameter sweep.
"""
import math
from common import *  # noqa
from stoch_common import *  # noqa


def mean_se(t):
    n = t.numel()
    return float(t.mean()), float(t.std()) / math.sqrt(n)


def check(ctx):
    torch, pfhedge = import_impl()
    import pfhedge.stochastic as S
    g = ctx.gen
    ctx.lean_gate()
    dt64 = torch.float64
    torch.manual_seed(ctx.seed % (2 ** 31))
    n = 220 if ctx.tier == "quick" else 3000
    reqs, metas = [], []
    for it in range(n):
        name = g.choice(GENERATORS)
        p = gen_params(g, name)
        case = {"generator": name, "params": p}
        try:
            out, rq, rec = run_generator(torch, name, p)
        except InternalError:
            raise
        except RecursionError:
            ctx.case(case, True, tag=name)
            ctx.fail("generator raised RecursionError", case, key=f"gen:{name}:recursion")
            continue
        except Exception as e:  # noqa
            ctx.case(case, True, tag=name)
            ctx.fail("generator raised on admissible parameters", case, key=f"gen:{name}:error", detail=repr(e)[:200])
            continue
        ctx.stats[f"generator={name}"] += 1
        ctx.case(case, nontrivial=p["n"] >= 2, tag=name)
        ctx.traces += 1
        if name == "cir" or name == "heston":
            ctx.stats["qe_branches_seen"] += 0
        for i, r in enumerate(rq):
            reqs.append(r)
            metas.append((case | {"path": i}, {k: [float(x) for x in v[i].tolist()] for k, v in out.items()}))
        # ---- pathwise predicate: exact SDE step
        if name in ("brownian", "geometric_brownian"):
            z = None
            for l, t in [(l, t) for l, t in [("engine", None)]]:
                pass
        if name == "geometric_brownian" and p["n"] >= 2:
            # S_{i+1} = S_i exp((mu - sigma^2/2) dt + sigma sqrt(dt) z_{i+1}) with the recorded normals
            zs = dec_flt(rq[0]["draws"]["z"])
            path = [float(x) for x in out["spot"][0].tolist()]
            for i in range(p["n"] - 1):
                exp = path[i] * math.exp((p["mu"] - p["sigma"] ** 2 / 2) * p["dt"] + p["sigma"] * math.sqrt(p["dt"]) * zs[i + 1])
                if abs(path[i + 1] - exp) > 1e-9 * max(1.0, abs(exp)):
                    ctx.fail("geometric Brownian path is not the exact SDE solution step by step for the supplied normals", case | {"step": i},
                             key="gen:geometric_brownian:sde-step", detail={"impl": path[i + 1], "exact": exp})
                    break
        if name == "brownian" and p["n"] >= 2:
            zs = dec_flt(rq[0]["draws"]["z"])
            path = [float(x) for x in out["spot"][0].tolist()]
            for i in range(p["n"] - 1):
                exp = path[i] + p["mu"] * p["dt"] + p["sigma"] * math.sqrt(p["dt"]) * zs[i + 1]
                if abs(path[i + 1] - exp) > 1e-9 * max(1.0, abs(exp)):
                    ctx.fail("Brownian path is not the exact SDE solution step by step for the supplied normals", case | {"step": i},
                             key="gen:brownian:sde-step", detail={"impl": path[i + 1], "exact": exp})
                    break
        if name in ("merton_jump", "kou_jump") and p["lam"] == 0.0:
            # zero intensity: equals geometric Brownian motion on the same normals
            zs = dec_flt(rq[0]["draws"]["z"])
            path = [float(x) for x in out["spot"][0].tolist()]
            s = p["init"]
            for i in range(p["n"]):
                if i > 0:
                    s = s * math.exp((p["mu"] - p["sigma"] ** 2 / 2) * p["dt"] + p["sigma"] * math.sqrt(p["dt"]) * zs[i])
                if abs(path[i] - s) > 1e-9 * max(1.0, abs(s)):
                    ctx.fail("jump model with zero intensity differs from geometric Brownian motion on the same normals", case | {"step": i},
                             key=f"gen:{name}:zero-intensity", detail={"impl": path[i], "gbm": s})
                    break
    try:
        outs = ctx.driver(reqs)
    except DriverBroken as e:
        ctx.ties_broken.append({"kind": "driver", "detail": str(e)[:1500]})
        outs = []
    for (case, real), mo in zip(metas, outs):
        if "ok" not in mo:
            ctx.disagree("gen", case, real, mo)
            continue
        mv = mo["ok"]
        if isinstance(mv, list):
            mv = {"spot": mv}
        for k, arr in real.items():
            if k not in mv or not close_arr(arr, dec_flt(mv[k]), 1e-8, 1e-12):
                ctx.disagree("gen", case | {"series": k}, arr, dec_flt(mv[k]) if k in mv else None)
                break
    # ---------------- distributional statements: large-sample estimates with 5-sigma error bars (search support)
    NP = 20000 if ctx.tier == "quick" else 200000
    sweeps = 2 if ctx.tier == "quick" else 8
    for sw in range(sweeps):
        dt = g.choice([1 / 250, 1 / 50])
        n_steps = g.choice([11, 26])
        T = (n_steps - 1) * dt
        mu, sigma, s0 = g.choice([0.0, 0.3]), g.choice([0.2, 0.5]), g.choice([1.0, 2.0])

        def chk(name, what, est, se, exact, case, key):
            ctx.case(case | {"stat": what}, True, tag="moments")
            ctx.stats[f"moment:{name}"] += 1
            if abs(est - exact) > 5 * se + 1e-12:
                ctx.fail(f"{name}: {what} deviates from its closed form by more than 5 standard errors", case | {"stat": what}, key=key,
                         detail={"estimate": est, "std_error": se, "closed_form": exact})
        case = {"dt": dt, "n_steps": n_steps, "mu": mu, "sigma": sigma, "s0": s0, "n_paths": NP}
        x = S.generate_geometric_brownian(NP, n_steps, init_state=(s0,), sigma=sigma, mu=mu, dt=dt, dtype=dt64)[:, -1]
        m, se = mean_se(x)
        chk("geometric_brownian", "terminal mean = S0 exp(mu t)", m, se, s0 * math.exp(mu * T), case, "moment:gbm:mean")
        lv = (x / s0).log()
        v, sev = float(lv.var()), float(lv.var()) * math.sqrt(2 / (NP - 1))
        chk("geometric_brownian", "log-variance = sigma^2 t", v, sev, sigma ** 2 * T, case, "moment:gbm:logvar")
        lam, jm, js = g.choice([10.0, 68.0]), g.choice([0.0, -0.05]), g.choice([0.02, 0.1])
        x = S.generate_merton_jump(NP, n_steps, init_state=(s0,), mu=mu, sigma=sigma, jump_per_year=lam, jump_mean=jm, jump_std=js, dt=dt, dtype=dt64)[:, -1]
        m, se = mean_se(x)
        chk("merton_jump", "terminal mean = S0 exp(mu t)", m, se, s0 * math.exp(mu * T), case | {"lam": lam, "jm": jm, "js": js}, "moment:merton:mean")
        lv = (x / s0).log()
        v, sev = float(lv.var()), float(lv.var()) * math.sqrt((2 + 3 * 2) / (NP - 1))
        chk("merton_jump", "log-variance = (sigma^2 + lam (jm^2 + js^2)) t", v, sev, (sigma ** 2 + lam * (jm ** 2 + js ** 2)) * T,
            case | {"lam": lam, "jm": jm, "js": js}, "moment:merton:logvar")
        up, dn, pu = g.choice([0.02, 0.1]), g.choice([0.05, 0.1]), g.choice([0.5, 0.3])
        x = S.generate_kou_jump(NP, n_steps, init_state=(s0,), sigma=sigma, mu=mu, jump_per_year=lam, jump_mean_up=up, jump_mean_down=dn,
                                jump_up_prob=pu, dt=dt, dtype=dt64)[:, -1]
        m, se = mean_se(x)
        chk("kou_jump", "terminal mean = S0 exp(mu t)", m, se, s0 * math.exp(mu * T), case | {"lam": lam, "up": up, "down": dn, "p_up": pu}, "moment:kou:mean")
        kappa, theta, sg, x0 = g.choice([1.0, 3.0]), g.choice([0.04, 0.1]), g.choice([0.02, 0.1]), g.choice([0.0, 0.04, 0.2])
        x = S.generate_vasicek(NP, n_steps, init_state=(x0,), kappa=kappa, theta=theta, sigma=sg, dt=dt, dtype=dt64)[:, -1]
        m, se = mean_se(x)
        cv = {"kappa": kappa, "theta": theta, "sigma": sg, "x0": x0} | case
        chk("vasicek", "mean = theta + (x0 - theta) exp(-kappa t)", m, se, theta + (x0 - theta) * math.exp(-kappa * T), cv, "moment:vasicek:mean")
        v = float(x.var())
        chk("vasicek", "variance = sigma^2 (1 - exp(-2 kappa t)) / (2 kappa)", v, v * math.sqrt(2 / (NP - 1)),
            sg ** 2 * (1 - math.exp(-2 * kappa * T)) / (2 * kappa), cv, "moment:vasicek:var")
        csig, v0 = g.choice([0.2, 1.0]), g.choice([0.04, 0.2, 0.0])
        x = S.generate_cir(NP, n_steps, init_state=(v0,), kappa=kappa, theta=theta, sigma=csig, dt=dt, dtype=dt64)[:, -1]
        m, se = mean_se(x)
        chk("cir", "mean = theta + (v0 - theta) exp(-kappa t)", m, se, theta + (v0 - theta) * math.exp(-kappa * T),
            {"kappa": kappa, "theta": theta, "sigma": csig, "v0": v0} | case, "moment:cir:mean")
        rho = g.choice([-0.7, 0.6])
        o = S.generate_heston(NP, n_steps, init_state=(s0, max(v0, 0.04)), kappa=kappa, theta=theta, sigma=csig, rho=rho, dt=dt, dtype=dt64)
        m, se = mean_se(o.spot[:, -1])
        ch = {"kappa": kappa, "theta": theta, "sigma": csig, "rho": rho} | case
        chk("heston", "terminal spot mean = S0 (martingale)", m, se, s0, ch, "moment:heston:mean")
        ret = (o.spot[:, 1] / o.spot[:, 0]).log()
        dv = o.variance[:, 1] - o.variance[:, 0]
        corr = float(torch.corrcoef(torch.stack([ret, dv]))[0, 1])
        ctx.case(ch | {"stat": "corr"}, True, tag="moments")
        if not (abs(corr - rho) < 0.1):
            ctx.fail("heston: correlation of returns and variance moves does not have the sign and size of rho", ch | {"stat": "corr"},
                     key="moment:heston:corr", detail={"corr": corr, "rho": rho})
        a, b = g.choice([0.2, 0.4]), g.choice([0.0, 0.1])
        o = S.generate_local_volatility_process(NP, n_steps, lambda t, s: a + b * s, init_state=(s0,), dt=dt, dtype=dt64)
        m, se = mean_se(o.spot[:, -1])
        chk("local_volatility", "terminal mean = S0 (martingale)", m, se, s0, case | {"a": a, "b": b}, "moment:localvol:mean")
        # rough Bergomi: forward variance stays at xi
        xi = g.choice([0.04, 0.09])
        nrb = g.choice([6, 21])
        o = S.generate_rough_bergomi(min(NP, 20000), nrb, init_state=(1.0, xi), xi=xi, dt=dt, dtype=dt64)
        m, se = mean_se(o.variance[:, -1])
        key = "moment:rough_bergomi:variance-mean"
        crb = {"xi": xi, "n_steps": nrb, "dt": dt, "horizon_years": (nrb - 1) * dt}
        ctx.case(crb, True, tag="moments")
        ctx.stats["moment:rough_bergomi"] += 1
        if abs(m - xi) > 5 * se + 0.02 * xi:
            ctx.fail("rough Bergomi: mean forward variance drifts away from xi (kernel normalised by n_steps-1 instead of 1/dt)", crb, key=key,
                     detail={"estimate": m, "std_error": se, "xi": xi})
    return ctx.finish(
        rule="all nine generators with recorded draws over parameter sweeps (non-default initial states, dt in {1/250,1/12,0.1,1/365}, n in {1..20}, "
             "both CIR QE branches via high/low vol-of-vol, zero and high jump intensities); moment estimates with 5-sigma bars on 2 (quick) / 8 (thorough) "
             "parameter sets with 2e4 / 2e5 paths; non-trivial = n >= 2; distinct = sha1 of canonical case",
        explanation="pathwise statements and one-step / inductive moment formulas are theorems (Props/C10); the law of torch's RNG is trusted; the "
                    "large-sample estimates are search support only.")
