"""C10 — Simulated paths follow the law of the model they are named after.

correspondence: all nine generators run with their random draws recorded (engine argument /
in-process patch of torch.randn_like, rand_like, Poisson/Exponential/Uniform/MultivariateNormal
samplers) vs the Lean model (Model/Stoch.lean, Float carrier) fed with the SAME draws.
predicate (real code): exact SDE step for Brownian / geometric Brownian, jump models at zero
intensity == geometric Brownian on the same normals (also when the caller keeps ONE tensor of normals /
one initial-state tensor and hands it to several simulations in a row), and — search support, labelled — large-sample
moment estimates with explicit 5-sigma error bars over a parameter sweep; the same statements on paths produced by MANY SMALL calls
(one or two paths, one or two steps per call: whole calls without a single jump) -- the law of a path does not depend on what the other
paths of the call drew --, with sigma = 0 the compensated drift of the jump-free steps of the jump models, and on LONG series (301 / 513
time points over one year; rough Bergomi: forward variance and Var[log V] at several dates of the series); TINY batches (1, 3, 5 paths per
call, odd sizes too) driven by each of the library's engines (torch.randn, randn_antithetic, scrambled Sobol / Box-Muller over one step),
pooled over thousands of calls: moments per path position, no deterministic path; ONE STARTING VALUE PER PATH (init_state as a bare tensor
with one entry per path, or tuples of such tensors, in the shape each generator takes) for every generator and instrument: every path starts
at its own value and is the exact solution from there for the recorded normals, the model reproduces it path by path (op gen with that
path's initial state), and the closed-form moments hold block by block from each block's own starting value.
"""
import math
from common import *  # noqa
from stoch_common import *  # noqa


def mean_se(t):
    n = t.numel()
    return float(t.mean()), float(t.std()) / math.sqrt(n)


def var_se(x):
    """sample variance and its standard error from the empirical fourth central moment"""
    n = x.numel()
    c = x - x.mean()
    v = float((c ** 2).sum() / (n - 1))
    m4 = float((c ** 4).mean())
    return v, math.sqrt(max(m4 - v * v, 0.0) / n)


def sweep_params(g, name):
    """moment-search parameter sets: moderate total log-variance so that 5-sigma bars from empirical standard errors are reliable"""
    dt = g.choice([1 / 250, 1 / 50])
    p = {"dt": dt, "n": g.choice([11, 26]), "via": g.choice(["generator", "generator", "instrument", "instrument", "instrument-again", "instrument-copied"]), "dtype": g.choice(["float64", "float64", "float32"])}
    if name == "brownian":
        p |= {"init": g.choice([0.0, 1.0, -1.0]), "sigma": g.choice([0.2, 1.0]), "mu": g.choice([0.0, 0.3, -0.5])}
    elif name == "geometric_brownian":
        p |= {"init": g.choice([1.0, 2.0]), "sigma": g.choice([0.2, 0.5]), "mu": g.choice([0.0, 0.3])}
    elif name == "vasicek":
        p |= {"init": g.choice([0.0, 0.04, 0.2, 0.0]), "kappa": g.choice([1.0, 3.0]), "theta": g.choice([0.04, 0.1]), "sigma": g.choice([0.02, 0.1]),
              "init_form": g.choice(["tuple", "scalar", "tensor0"])}      # the initial state as a tuple, a bare scalar or a 0-dim tensor
    elif name == "cir":
        p |= {"init": g.choice([0.04, 0.2, 0.0]), "kappa": g.choice([1.0, 3.0, 0.5]), "theta": g.choice([0.04, 0.1]), "sigma": g.choice([0.2, 1.0])}
        if g.chance(0.35):      # a rate / variance LEVEL of the order of 1e-4 (1 % volatility): the divisions of the QE scheme must not be clamped there
            lvl = g.choice([1e-4, 2.5e-5])
            p |= {"init": lvl, "theta": lvl, "sigma": g.choice([0.01, 0.003])}
    elif name == "heston":
        p |= {"s0": g.choice([1.0, 2.0]), "v0": g.choice([0.04, 0.2]), "kappa": g.choice([1.0, 3.0]), "theta": g.choice([0.04, 0.1]),
              "sigma": g.choice([0.2, 1.0]), "rho": g.choice([-0.7, 0.6])}
        if g.chance(0.35):
            lvl = g.choice([1e-4, 2.5e-5])
            p |= {"v0": lvl, "theta": lvl, "sigma": g.choice([0.01, 0.003])}
    elif name == "merton_jump":
        p |= {"init": g.choice([1.0, 2.0]), "mu": g.choice([0.0, 0.3]), "sigma": g.choice([0.2, 0.5]), "lam": g.choice([10.0, 68.0]),
              "jm": g.choice([0.0, -0.05]), "js": g.choice([0.02, 0.1])}
    elif name == "kou_jump":
        p |= {"init": g.choice([1.0, 2.0]), "mu": g.choice([0.0, 0.3]), "sigma": g.choice([0.2, 0.5]), "lam": g.choice([10.0, 68.0]),
              "mean_up": g.choice([0.02, 0.1]), "mean_down": g.choice([0.05, 0.1]), "p_up": g.choice([0.5, 0.3, 0.8])}
    elif name == "local_volatility":
        p |= {"init": g.choice([1.0, 2.0]), "a": g.choice([0.2, 0.4]), "b": g.choice([0.0, 0.1]), "c": 0.0}
        if g.chance(0.35):      # a few LARGE Euler steps (sigma sqrt(dt) = 0.6): each increment is exactly normal, so the mean test stays sharp
            p |= {"a": 3.0, "b": 0.0, "dt": 0.04, "n": g.choice([2, 3])}
    else:
        p |= {"s0": 1.0, "xi": g.choice([0.04, 0.09]), "n": g.choice([6, 21]), "alpha": -0.4, "rho": -0.9, "eta": 1.9}
        p["v0"] = p["xi"]
    return p


def logvar_total(name, p):
    """total log-variance of the terminal value (None: not an exponential-type statistic)"""
    T = (p["n"] - 1) * p["dt"]
    if name == "geometric_brownian":
        return p["sigma"] ** 2 * T
    if name == "merton_jump":
        return (p["sigma"] ** 2 + p["lam"] * (p["jm"] ** 2 + p["js"] ** 2)) * T
    if name == "kou_jump":
        return (p["sigma"] ** 2 + p["lam"] * 2 * (p["p_up"] * p["mean_up"] ** 2 + (1 - p["p_up"]) * p["mean_down"] ** 2)) * T
    if name == "heston":
        return max(p["v0"], p["theta"]) * T
    if name == "local_volatility":
        return (abs(p["a"]) + abs(p["b"]) * 2 * p["init"] + abs(p.get("c", 0.0)) * T) ** 2 * T
    return None


def directed_params(name, p):
    """variants of a disagreeing parameter set on which the 5-sigma moment statements are reliable: the case itself with a
    longer / one-step grid, and tamed variants (jump sizes with finite fourth exponential moment, moderate total log-variance)"""
    out = []
    base = dict(p)
    base.pop("N", None)
    for n in (max(p["n"], 6), 2):
        q = dict(base, n=n)
        if name == "kou_jump":
            q["mean_up"] = min(q["mean_up"], 0.1)
            q["mean_down"] = min(q["mean_down"], 0.2)
        if name in ("merton_jump", "kou_jump"):
            q["lam"] = min(q["lam"], 68.0)
        if name == "rough_bergomi":
            q["n"] = max(n, 3)
        lv = logvar_total(name, q)
        while lv is not None and lv > 0.5 and q["n"] > 2:
            q["n"] = max(2, q["n"] // 2)
            lv = logvar_total(name, q)
        if lv is not None and lv > 0.5:
            continue
        if q not in out:
            out.append(q)
    return out


class _ViaInstrument:
    """generate_* look-alikes that go through the primary instruments (constructed with the same parameters, simulated over the
    horizon (n_steps-1) dt): the moment statements must hold for the instruments too"""

    def __init__(self, torch, used_before=None):
        import pfhedge.instruments as I
        from collections import namedtuple
        self.I, self.torch = I, torch
        self.SV = namedtuple("SV", ["spot", "variance"])
        self.used_before = used_before

    def _sim(self, inst, n_paths, n_steps, init_state):
        if self.used_before:
            # the instrument has been simulated before (a few paths over another horizon from its default state); "copied": and is
            # then copied with copy.deepcopy -- the moment statements hold for every simulation of an instrument, not only the first
            inst.simulate(n_paths=3, time_horizon=2 * inst.dt)
            if self.used_before == "copied":
                import copy
                inst = copy.deepcopy(inst)
        inst.simulate(n_paths=n_paths, time_horizon=(n_steps - 1) * inst.dt, init_state=init_state)
        if inst.spot.size(1) != n_steps:
            raise GridMismatch(list(inst.spot.shape))
        return inst

    def generate_geometric_brownian(self, N, n, init_state, sigma, mu, dt, dtype):
        return self._sim(self.I.BrownianStock(sigma=sigma, mu=mu, dt=dt, dtype=dtype), N, n, init_state).spot

    def generate_merton_jump(self, N, n, init_state, mu, sigma, jump_per_year, jump_mean, jump_std, dt, dtype):
        return self._sim(self.I.MertonJumpStock(mu=mu, sigma=sigma, jump_per_year=jump_per_year, jump_mean=jump_mean, jump_std=jump_std, dt=dt, dtype=dtype),
                         N, n, init_state).spot

    def generate_kou_jump(self, N, n, init_state, sigma, mu, jump_per_year, jump_mean_up, jump_mean_down, jump_up_prob, dt, dtype):
        return self._sim(self.I.KouJumpStock(sigma=sigma, mu=mu, jump_per_year=jump_per_year, jump_mean_up=jump_mean_up, jump_mean_down=jump_mean_down,
                                             jump_up_prob=jump_up_prob, dt=dt, dtype=dtype), N, n, init_state).spot

    def generate_vasicek(self, N, n, init_state, kappa, theta, sigma, dt, dtype):
        return self._sim(self.I.VasicekRate(kappa=kappa, theta=theta, sigma=sigma, dt=dt, dtype=dtype), N, n, init_state).spot

    def generate_cir(self, N, n, init_state, kappa, theta, sigma, dt, dtype):
        return self._sim(self.I.CIRRate(kappa=kappa, theta=theta, sigma=sigma, dt=dt, dtype=dtype), N, n, init_state).spot

    def generate_heston(self, N, n, init_state, kappa, theta, sigma, rho, dt, dtype):
        i = self._sim(self.I.HestonStock(kappa=kappa, theta=theta, sigma=sigma, rho=rho, dt=dt, dtype=dtype), N, n, init_state)
        return self.SV(i.spot, i.variance)

    def generate_local_volatility_process(self, N, n, sigma_fn, init_state, dt, dtype):
        i = self._sim(self.I.LocalVolatilityStock(sigma_fn, dt=dt, dtype=dtype), N, n, init_state)
        return self.SV(i.spot, i.variance)

    def generate_rough_bergomi(self, N, n, init_state, alpha, rho, eta, xi, dt, dtype):
        i = self._sim(self.I.RoughBergomiStock(alpha=alpha, rho=rho, eta=eta, xi=xi, dt=dt, dtype=dtype), N, n, init_state)
        return self.SV(i.spot, i.variance)


class _SmallBatches:
    """generate_* look-alikes that produce the requested number of paths by MANY calls of the wrapped functions with `batch` paths each
    and concatenate them.  With one or two paths and one or two time steps per call, calls in which no path draws a jump (or any other
    rare event) are the rule: the law of a path must not depend on what the other paths of the same call drew."""

    def __init__(self, inner, torch, batch):
        self.inner, self.torch, self.batch = inner, torch, batch

    def __getattr__(self, fname):
        f, torch, b = getattr(self.inner, fname), self.torch, self.batch

        def many(NP, *a, **k):
            outs = [f(b, *a, **k) for _ in range(-(-NP // b))]
            if isinstance(outs[0], tuple):
                return type(outs[0])(*[torch.cat([o[i] for o in outs])[:NP] for i in range(len(outs[0]))])
            return torch.cat(outs)[:NP]
        return many


def long_params(g, name):
    """parameter sets for LONG series: n_steps in {301, 513} over one year (grids finer than the library's 250 steps per year), total
    log-variance moderate so that the 5-sigma bars stay reliable"""
    p = sweep_params(g, name)
    n = g.choice([301, 513])
    p |= {"n": n, "dt": 1 / (n - 1), "via": g.choice(["generator", "instrument"])}
    if name == "geometric_brownian":
        p["sigma"] = g.choice([0.2, 0.4])
    elif name in ("cir", "heston") and min(p["theta"], p.get("init", p.get("v0"))) < 1e-3:
        p |= {"theta": 0.04, "sigma": 0.2} | ({"init": 0.04} if name == "cir" else {"v0": 0.04})
    elif name == "merton_jump":
        p |= {"lam": 10.0, "sigma": g.choice([0.2, 0.4])}
    elif name == "kou_jump":
        p |= {"lam": 10.0, "sigma": g.choice([0.2, 0.4])}
    elif name == "local_volatility":
        p |= {"init": 1.0, "a": g.choice([0.2, 0.3]), "b": g.choice([0.0, 0.1]), "c": 0.0, "n": n, "dt": 1 / (n - 1)}
    elif name == "rough_bergomi":
        p |= {"alpha": g.choice([-0.4, -0.3, -0.2, 0.1]), "eta": g.choice([0.5, 1.0, 1.9]), "rho": g.choice([-0.9, 0.0, 0.5])}
    return p


def small_params(g, name):
    """parameter sets for paths produced by many SMALL calls: `batch` paths and 2-3 time points per call; jump intensities such that
    most calls contain no jump at all"""
    p = sweep_params(g, name)
    p |= {"n": g.choice([2, 2, 3]), "batch": g.choice([1, 1, 2]), "via": g.choice(["generator", "instrument"])}
    if name in ("merton_jump", "kou_jump"):
        p |= {"lam": g.choice([5.0, 25.0, 50.0]), "dt": g.choice([1 / 250, 0.01])}
    if name == "kou_jump":
        p |= {"p_up": g.choice([0.9, 0.2, 0.5]), "mean_up": 0.1, "mean_down": 0.05}
    if name == "merton_jump":
        p |= {"jm": g.choice([-0.1, 0.1, 0.0]), "js": 0.05}
    if name == "local_volatility":
        p |= {"dt": 1 / 250, "a": g.choice([0.2, 0.4]), "b": g.choice([0.0, 0.1]), "n": p["n"]}
    return p


def jump_compensator(name, p):
    """m = E[exp(jump)] - 1 of one jump: the price drifts with mu - lam m between the jumps so that E[S_t] = S0 exp(mu t)"""
    if name == "merton_jump":
        return math.exp(p["jm"] + p["js"] ** 2 / 2) - 1
    eu, ed = 1 / p["mean_up"], 1 / p["mean_down"]
    return p["p_up"] * eu / (eu - 1) + (1 - p["p_up"]) * ed / (ed + 1) - 1


def binom_two_sided(n, q, k):
    """exact two-sided tail probability 2 min(P[X <= k], P[X >= k]) of X ~ Binomial(n, q), 0 < q < 1"""
    lp = [math.lgamma(n + 1) - math.lgamma(j + 1) - math.lgamma(n - j + 1) + j * math.log(q) + (n - j) * math.log1p(-q) for j in range(n + 1)]
    lo, hi = sum(math.exp(x) for x in lp[:k + 1]), sum(math.exp(x) for x in lp[k:])
    return min(1.0, 2 * min(lo, hi))


def jump_free_steps(ctx, torch, S, name, p, n_calls, origin):
    """sigma = 0: a jump model is piecewise deterministic.  A step without jump has the log-increment (mu - lam m) dt exactly, in
    every call and whatever the other steps / paths of the call do, and a step with a jump has another one (the jump sizes have a
    density); so the number of steps with exactly the compensated drift is Binomial(steps, exp(-lam dt)).  Evaluated over many SMALL
    calls (`batch` paths, n time points) of the generator or of ONE instrument that is simulated again and again."""
    import pfhedge.instruments as I
    f64 = torch.float64
    N, n, dt, lam, mu, s0, via = p["batch"], p["n"], p["dt"], p["lam"], p["mu"], p["init"], p["via"]
    drift = (mu - lam * jump_compensator(name, p)) * dt
    case = {"kind": "jump-free-steps", "generator": name, "origin": origin, "n_calls": n_calls} | {k: v for k, v in p.items()} | {"sigma": 0.0}
    ctx.case(case, True, tag="jump-free-steps")
    ctx.stats[f"jump-free-steps {name}/{via}"] += 1
    if name == "merton_jump":
        kw = dict(mu=mu, sigma=0.0, jump_per_year=lam, jump_mean=p["jm"], jump_std=p["js"], dt=dt, dtype=f64)
        inst = I.MertonJumpStock(**kw) if via == "instrument" else None
        fn = S.generate_merton_jump
    else:
        kw = dict(sigma=0.0, mu=mu, jump_per_year=lam, jump_mean_up=p["mean_up"], jump_mean_down=p["mean_down"], jump_up_prob=p["p_up"], dt=dt, dtype=f64)
        inst = I.KouJumpStock(**kw) if via == "instrument" else None
        fn = S.generate_kou_jump
    hits = total = 0
    example = None
    for c in range(n_calls):
        try:
            if inst is not None:
                inst.simulate(n_paths=N, time_horizon=(n - 1) * dt, init_state=(s0,))
                out = inst.spot
            else:
                out = fn(N, n, init_state=(s0,), **kw)
        except Exception as e:  # noqa
            ctx.fail("a jump model raised on admissible parameters (small call, sigma = 0)", case | {"call": c}, key=f"jump-free-steps:{name}:error", detail=repr(e)[:200])
            return
        if tuple(out.shape) != (N, n):
            ctx.fail("an instrument simulated over the horizon (n-1) dt does not return n time steps", case, key=f"inst:{name}:grid", detail=list(out.shape))
            return
        inc = out.log().diff(dim=1)
        ok = (inc - drift).abs() <= 1e-10
        hits += int(ok.sum())
        total += inc.numel()
        if example is None and not bool(ok.all()):
            example = {"call": c, "prices": [float(x) for x in out[0].tolist()], "log_increments_path0": [float(x) for x in inc[0].tolist()]}
    q = math.exp(-lam * dt)
    sd = math.sqrt(total * q * (1 - q))
    # (exact binomial tail; 5.7e-7 is the two-sided 5-sigma level used for the moment estimates)
    if binom_two_sided(total, q, hits) < 5.7e-7:
        ctx.fail(f"{name} with sigma = 0 over many small calls: the number of steps that move with the compensated drift (mu - lam m) dt is not "
                 "Binomial(steps, exp(-lam dt)) -- jump-free steps do not drift with mu - lam m (or jumps are not drawn with intensity lam)", case,
                 key=f"jump-free-steps:{name}:compensated-drift",
                 detail={"steps": total, "steps_with_compensated_drift": hits, "expected": total * q, "std_dev": sd, "two_sided_binomial_tail": binom_two_sided(total, q, hits),
                         "compensated_log_drift_per_step": drift,
                         "first_call_with_another_increment": example})


def moment_suite(ctx, torch, S, name, p, NP, origin):
    """search support (not proof): large-sample estimates of the moment statements of C10 on the REAL generator at parameter set `p`,
    each with an explicit 5-standard-error bar; a deviation is a failing input of the property"""
    dt64 = getattr(torch, p.get("dtype", "float64"))
    if str(p.get("via")).startswith("instrument") and name != "brownian":
        S = _ViaInstrument(torch, used_before={"instrument-again": "again", "instrument-copied": "copied"}.get(p["via"]))
    if p.get("batch"):
        S = _SmallBatches(S, torch, p["batch"])      # the NP paths come from NP / batch small calls
    dt, n = p["dt"], p["n"]
    sfx = ":small-calls" if p.get("batch") else (":long-series" if n > 256 else "")
    T = (n - 1) * dt
    case = {k: v for k, v in p.items()} | {"generator": name, "n_paths": NP, "origin": origin}
    _mean_se, _var_se = mean_se, var_se
    mean_se_ = lambda t: _mean_se(t.to(torch.float64))
    var_se_ = lambda t: _var_se(t.to(torch.float64))

    def chk(what, est, se, exact, key, slack=1e-12):
        ctx.case(case | {"stat": what}, True, tag="moments")
        ctx.stats[f"moment:{name}"] += 1
        if not abs(est - exact) <= 5 * se + slack:
            ctx.fail(f"{name}: {what} deviates from its closed form by more than 5 standard errors"
                     + (" (paths produced by many small calls)" if p.get("batch") else ""), case | {"stat": what}, key=key + sfx,
                     detail={"estimate": est, "std_error": se, "closed_form": exact})
    if name == "brownian":
        x = S.generate_brownian(NP, n, init_state=(p["init"],), sigma=p["sigma"], mu=p["mu"], dt=dt, dtype=dt64)[:, -1]
        m, se = mean_se_(x)
        chk("terminal mean = x0 + mu t", m, se, p["init"] + p["mu"] * T, "moment:brownian:mean")
        v, sev = var_se_(x)
        chk("terminal variance = sigma^2 t", v, sev, p["sigma"] ** 2 * T, "moment:brownian:var")
    elif name == "geometric_brownian":
        s0 = p["init"]
        x = S.generate_geometric_brownian(NP, n, init_state=(s0,), sigma=p["sigma"], mu=p["mu"], dt=dt, dtype=dt64)[:, -1]
        m, se = mean_se_(x)
        chk("terminal mean = S0 exp(mu t)", m, se, s0 * math.exp(p["mu"] * T), "moment:gbm:mean")
        v, sev = var_se_((x / s0).log())
        chk("log-variance = sigma^2 t", v, sev, p["sigma"] ** 2 * T, "moment:gbm:logvar")
    elif name == "merton_jump":
        s0 = p["init"]
        x = S.generate_merton_jump(NP, n, init_state=(s0,), mu=p["mu"], sigma=p["sigma"], jump_per_year=p["lam"], jump_mean=p["jm"],
                                   jump_std=p["js"], dt=dt, dtype=dt64)[:, -1]
        m, se = mean_se_(x)
        chk("terminal mean = S0 exp(mu t)", m, se, s0 * math.exp(p["mu"] * T), "moment:merton:mean")
        v, sev = var_se_((x / s0).log())
        chk("log-variance = (sigma^2 + lam (jm^2 + js^2)) t", v, sev, (p["sigma"] ** 2 + p["lam"] * (p["jm"] ** 2 + p["js"] ** 2)) * T,
            "moment:merton:logvar")
    elif name == "kou_jump":
        s0, pu, up, dn = p["init"], p["p_up"], p["mean_up"], p["mean_down"]
        x = S.generate_kou_jump(NP, n, init_state=(s0,), sigma=p["sigma"], mu=p["mu"], jump_per_year=p["lam"], jump_mean_up=up,
                                jump_mean_down=dn, jump_up_prob=pu, dt=dt, dtype=dt64)[:, -1]
        m, se = mean_se_(x)
        chk("terminal mean = S0 exp(mu t)", m, se, s0 * math.exp(p["mu"] * T), "moment:kou:mean")
        v, sev = var_se_((x / s0).log())
        chk("log-variance = (sigma^2 + 2 lam (p up^2 + (1-p) down^2)) t", v, sev,
            (p["sigma"] ** 2 + 2 * p["lam"] * (pu * up ** 2 + (1 - pu) * dn ** 2)) * T, "moment:kou:logvar")
    elif name == "vasicek":
        k, th, sg, x0 = p["kappa"], p["theta"], p["sigma"], p["init"]
        form = p.get("init_form", "tuple")
        init_arg = (x0,) if form == "tuple" else (x0 if form == "scalar" else torch.tensor(x0, dtype=dt64))
        x = S.generate_vasicek(NP, n, init_state=init_arg, kappa=k, theta=th, sigma=sg, dt=dt, dtype=dt64)[:, -1]
        m, se = mean_se_(x)
        chk("mean = theta + (x0 - theta) exp(-kappa t)", m, se, th + (x0 - th) * math.exp(-k * T), "moment:vasicek:mean")
        v, sev = var_se_(x)
        chk("variance = sigma^2 (1 - exp(-2 kappa t)) / (2 kappa)", v, sev, sg ** 2 * (1 - math.exp(-2 * k * T)) / (2 * k), "moment:vasicek:var",
            slack=1e-18)
    elif name in ("cir", "heston"):
        k, th, sg = p["kappa"], p["theta"], p["sigma"]
        if name == "cir":
            v0 = p["init"]
            x = S.generate_cir(NP, n, init_state=(v0,), kappa=k, theta=th, sigma=sg, dt=dt, dtype=dt64)[:, -1]
        else:
            v0 = p["v0"]
            o = S.generate_heston(NP, n, init_state=(p["s0"], v0), kappa=k, theta=th, sigma=sg, rho=p["rho"], dt=dt, dtype=dt64)
            x = o.variance[:, -1]
        e1 = math.exp(-k * T)
        m, se = mean_se_(x)
        chk("variance-process mean = theta + (v0 - theta) exp(-kappa t)", m, se, th + (v0 - th) * e1, f"moment:{name}:var-mean" if name == "heston" else "moment:cir:mean")
        # the QE scheme matches the exact conditional mean and variance at every step and both are affine in v, so the terminal
        # variance equals the exact CIR variance (theorem cirStep_variance_* + total variance)
        v, sev = var_se_(x)
        exactv = v0 * sg ** 2 / k * (e1 - e1 * e1) + th * sg ** 2 / (2 * k) * (1 - e1) ** 2
        chk("variance-process variance = v0 sigma^2/kappa (e^-kt - e^-2kt) + theta sigma^2/(2 kappa) (1 - e^-kt)^2", v, sev, exactv,
            f"moment:{name}:var-var" if name == "heston" else "moment:cir:var", slack=1e-4 * exactv + 1e-18)
        if name == "heston":
            m, se = mean_se_(o.spot[:, -1])
            chk("terminal spot mean = S0 (martingale)", m, se, p["s0"], "moment:heston:mean")
            if n >= 2 and v0 > 0:
                ret = (o.spot[:, 1] / o.spot[:, 0]).log()
                dv = o.variance[:, 1] - o.variance[:, 0]
                corr = float(torch.corrcoef(torch.stack([ret, dv]))[0, 1])
                ctx.case(case | {"stat": "corr"}, True, tag="moments")
                if not (abs(corr - p["rho"]) < 0.1):
                    ctx.fail("heston: correlation of returns and variance moves does not have the sign and size of rho", case | {"stat": "corr"},
                             key="moment:heston:corr" + sfx, detail={"corr": corr, "rho": p["rho"]})
    elif name == "local_volatility":
        a, b, c = p["a"], p["b"], p.get("c", 0.0)
        o = S.generate_local_volatility_process(NP, n, lambda t, s: a + b * s + c * t, init_state=(p["init"],), dt=dt, dtype=dt64)
        m, se = mean_se_(o.spot[:, -1])
        chk("terminal mean = S0 (martingale)", m, se, p["init"], "moment:localvol:mean")
    else:
        xi = p["xi"]
        o = S.generate_rough_bergomi(min(NP, 20000), n, init_state=(p["s0"], xi), alpha=p["alpha"], rho=p["rho"], eta=p["eta"], xi=xi, dt=dt, dtype=dt64)
        m, se = mean_se_(o.variance[:, -1])
        crb = {"xi": xi, "n_steps": n, "dt": dt, "horizon_years": (n - 1) * dt, "alpha": p["alpha"], "eta": p["eta"]}
        if p.get("batch") or n > 256 or origin != "sweep":
            crb |= {"n_paths": min(NP, 20000), "via": p.get("via"), "dtype": p.get("dtype", "float64"), "origin": origin, "batch": p.get("batch")}
        ctx.case(crb, True, tag="moments")
        ctx.stats["moment:rough_bergomi"] += 1
        if abs((n - 1) * dt - 1.0) > 1e-9:
            if abs(m - xi) > 5 * se + 0.02 * xi:
                ctx.fail("rough Bergomi: mean forward variance drifts away from xi (kernel normalised by n_steps-1 instead of 1/dt)", crb,
                         key="moment:rough_bergomi:variance-mean", detail={"estimate": m, "std_error": se, "xi": xi})
        else:
            # a horizon of exactly one year (where the generator's kernel normalisation n_steps - 1 IS 1/dt; other horizons: known finding
            # K4): V(t) = xi exp(eta Y(t) - eta^2/2 t^(2 alpha + 1)) with Var Y(t) = t^(2 alpha + 1), at EVERY date of the series, however
            # many steps the year is divided into: E[V(t)] = xi and Var[log V(t)] = eta^2 t^(2 alpha + 1).  Tolerance beyond the 5
            # standard errors: the hybrid scheme's kernel weights reproduce t^(2 alpha + 1) to a relative 1e-3 (computed from the
            # weights for alpha in [-0.45, 0.1] and 5 .. 1024 steps per year), i.e. Var[log V] to 2e-3 relative and E[V] to
            # eta^2/2 * 1e-3 <= 2e-3 relative for eta <= 1.9.  (The 5-sigma bar of the MEAN of the lognormal V is only used for a
            # moderate log-variance eta^2 <= 1.)
            expo = 2 * p["alpha"] + 1
            for k in sorted({max(1, (n - 1) // 4), max(1, (n - 1) // 2), max(1, 3 * (n - 1) // 4), n - 1}):
                t = k * dt
                v = o.variance[:, k].to(torch.float64)
                ck = crb | {"time_index": k, "t": t}
                ctx.case(ck, True, tag="moments")
                if p["eta"] <= 1.0:
                    m, se = mean_se_(v)
                    if not abs(m - xi) <= 5 * se + 0.005 * xi:
                        ctx.fail("rough Bergomi on a one-year horizon: the mean forward variance E[V(t)] does not stay at xi", ck,
                                 key="moment:rough_bergomi:unit-horizon:forward-variance" + sfx, detail={"estimate": m, "std_error": se, "xi": xi})
                lv, selv = var_se_((v / xi).log())
                law = p["eta"] ** 2 * t ** expo
                if not abs(lv - law) <= 5 * selv + 0.002 * law:
                    ctx.fail("rough Bergomi on a one-year horizon: Var[log V(t)] is not eta^2 t^(2 alpha + 1)", ck,
                             key="moment:rough_bergomi:unit-horizon:log-variance" + sfx, detail={"estimate": lv, "std_error": selv, "law": law})
            m, se = mean_se_(o.spot[:, -1])
            if p["eta"] <= 1.0 and not abs(m - p["s0"]) <= 5 * se + 1e-12:
                ctx.fail("rough Bergomi on a one-year horizon: the terminal spot mean is not S0 (martingale)", crb,
                         key="moment:rough_bergomi:unit-horizon:spot-mean" + sfx, detail={"estimate": m, "std_error": se, "S0": p["s0"]})


class KeptNormals:
    """an `engine` of a caller who keeps ONE tensor of normals per requested shape and hands it out for every simulation
    (common random numbers): the same object, `kept.to(dtype=, device=)` (the same object when nothing changes) or a fresh
    view of the same storage.  `orig` holds what the caller generated."""

    def __init__(self, torch, hand):
        self.torch, self.hand, self.pool, self.orig, self.handed = torch, hand, {}, {}, Counter()

    def __call__(self, *size, dtype=None, device=None):
        size = tuple(size)
        if size not in self.pool:
            z = self.torch.randn(*size, dtype=self.torch.float64)
            self.pool[size], self.orig[size] = z, z.clone()
        self.handed[size] += 1
        z = self.pool[size]
        if self.hand == "same-object":
            return z
        return z.to(dtype=dtype, device=device) if self.hand == "to" else z.view(size)


def supplied_normals_block(ctx, torch, S, g, n_scen, reqs, metas):
    """the caller's tensors are used for SEVERAL simulations: one kept tensor of normals per shape handed out by the engine to
    2-4 simulations in a row (other parameters, Brownian and geometric Brownian on the same draws, jump models / jump instruments
    at zero intensity, an instrument simulated again), optionally one kept 0-dim tensor as initial state of all of them.  EVERY
    simulation has to be the exact SDE solution, step by step, for the normals the caller generated (first column = time 0, no
    increment) from the initial value the caller supplied; the same runs go to the model (op gen) with the ORIGINAL normals as
    draws.  A volatility callable that hands out one kept tensor at every step / simulation goes to the model as well."""
    import pfhedge.instruments as I
    JUMPS = ("merton_jump", "kou_jump")
    f64 = torch.float64
    fb = float_bits
    for sc in range(n_scen):
        N, n, dt = g.small((1, 2, 3)), g.choice((2, 3, 5, 8, 20)), g.choice([1 / 250, 1 / 12, 0.1, 1 / 365, 1 / 52])
        hand = g.choice(["same-object", "to", "view"])
        eng = KeptNormals(torch, hand)
        kept_init = g.choice([None, None, 1.0, 2.5, 0.3])
        x0t = None if kept_init is None else torch.tensor(kept_init, dtype=f64)
        init_form = g.choice(["tuple", "bare"])
        insts = {}
        base = {"kind": "supplied-normals", "handed_out_as": hand, "N": N, "n": n, "dt": dt, "kept_init_tensor": kept_init, "init_form": init_form}
        history = []
        for u in range(g.randint(2, 4)):
            name = g.choice(["brownian", "geometric_brownian", "geometric_brownian", "merton_jump", "kou_jump"])
            via = "instrument" if (name in JUMPS and g.chance(0.5)) else "generator"
            again = via == "instrument" and name in insts
            p = dict(insts[name][1]) if again else gen_params(g, name) | {"dt": dt, "n": n, "N": N}
            if name in JUMPS:
                p["lam"] = 0.0
            if again:
                p["init"] = g.choice([1.0, 2.0, 0.7])
            if x0t is not None:
                p["init"] = kept_init
            x0 = p["init"]
            init_arg = ((x0t,) if init_form == "tuple" else x0t) if x0t is not None else (x0,)
            history.append(name + ("/" + via if name in JUMPS else "") + ("/again" if again else ""))
            case = base | {"generator": name, "params": p, "via": via, "use": u, "uses_so_far": list(history)}
            ctx.case(case, True, tag="supplied-normals")
            ctx.stats[f"supplied-normals {history[-1]}"] += 1
            ctx.stats["supplied-normals later use" if u else "supplied-normals first use"] += 1
            ctx.traces += 1
            try:
                if name == "brownian":
                    out = S.generate_brownian(N, n, init_state=init_arg, sigma=p["sigma"], mu=p["mu"], dt=dt, dtype=f64, engine=eng)
                elif name == "geometric_brownian":
                    out = S.generate_geometric_brownian(N, n, init_state=init_arg, sigma=p["sigma"], mu=p["mu"], dt=dt, dtype=f64, engine=eng)
                elif via == "generator" and name == "merton_jump":
                    out = S.generate_merton_jump(N, n, init_state=init_arg, mu=p["mu"], sigma=p["sigma"], jump_per_year=0.0, jump_mean=p["jm"],
                                                 jump_std=p["js"], dt=dt, dtype=f64, engine=eng)
                elif via == "generator":
                    out = S.generate_kou_jump(N, n, init_state=init_arg, sigma=p["sigma"], mu=p["mu"], jump_per_year=0.0, jump_mean_up=p["mean_up"],
                                              jump_mean_down=p["mean_down"], jump_up_prob=p["p_up"], dt=dt, dtype=f64, engine=eng)
                else:
                    if not again:
                        if name == "merton_jump":
                            inst = I.MertonJumpStock(mu=p["mu"], sigma=p["sigma"], jump_per_year=0.0, jump_mean=p["jm"], jump_std=p["js"], dt=dt, dtype=f64, engine=eng)
                        else:
                            inst = I.KouJumpStock(sigma=p["sigma"], mu=p["mu"], jump_per_year=0.0, jump_mean_up=p["mean_up"], jump_mean_down=p["mean_down"],
                                                  jump_up_prob=p["p_up"], dt=dt, dtype=f64, engine=eng)
                        insts[name] = (inst, dict(p))
                    inst = insts[name][0]
                    inst.simulate(n_paths=N, time_horizon=(n - 1) * dt, init_state=init_arg if isinstance(init_arg, tuple) else (init_arg,))
                    out = inst.spot
            except Exception as e:  # noqa
                ctx.fail("generator raised when the caller's normals / initial state are handed to it (again)", case, key=f"supplied-normals:{name}:error",
                         detail=repr(e)[:200])
                continue
            if tuple(out.shape) != (N, n):
                ctx.fail("an instrument simulated over the horizon (n-1) dt does not return n time steps", case, key=f"inst:{name}:grid", detail=list(out.shape))
                continue
            z = eng.orig[(N, n)]
            if name == "brownian":
                step = lambda x, zk: x + p["mu"] * dt + p["sigma"] * math.sqrt(dt) * zk
            else:
                step = lambda x, zk: x * math.exp((p["mu"] - p["sigma"] ** 2 / 2) * dt + p["sigma"] * math.sqrt(dt) * zk)
            for r in range(N):
                path, zs = [float(x) for x in out[r].tolist()], [float(x) for x in z[r].tolist()]
                bad = None
                if abs(path[0] - x0) > 1e-9 * max(1.0, abs(x0)):
                    bad = (0, path[0], x0)
                for i in range(n - 1):
                    if bad:
                        break
                    exp = step(path[i], zs[i + 1])
                    if not abs(path[i + 1] - exp) <= 1e-9 * max(1.0, abs(exp)):
                        bad = (i + 1, path[i + 1], exp)
                if bad:
                    ctx.fail(f"{name} path is not the exact SDE solution step by step for the normals / initial value the caller supplied"
                             + (" (the caller's tensors had already been handed to an earlier simulation)" if u else ""),
                             case | {"path": r, "step": bad[0], "times_these_normals_were_handed_out": eng.handed[(N, n)]},
                             key=f"supplied-normals:{name}:sde-step", detail={"impl": bad[1], "exact": bad[2]})
                    break
            # the same run for the model, with the normals the caller generated as draws
            L = lambda t, i: enc_flt([float(x) for x in t[i].tolist()])
            for r in range(N):
                if name in ("brownian", "geometric_brownian"):
                    rq = {"op": "gen", "name": name, "p": {k: fb(p[k]) for k in ("init", "sigma", "mu", "dt")}, "draws": {"z": L(z, r)}}
                elif name == "merton_jump":
                    rq = {"op": "gen", "name": name, "p": {k: fb(p[k]) for k in ("init", "mu", "sigma", "lam", "jm", "js", "dt")},
                          "draws": {"nj": enc_flt([0.0] * (n - 1)), "zj": L(eng.orig[(N, n - 1)], r), "z": L(z, r)}}
                else:
                    rq = {"op": "gen", "name": name,
                          "p": {"init": fb(p["init"]), "sigma": fb(p["sigma"]), "mu": fb(p["mu"]), "lam": fb(0.0), "eta_up": fb(1 / p["mean_up"]),
                                "eta_down": fb(1 / p["mean_down"]), "p_up": fb(p["p_up"]), "dt": fb(dt)},
                          "draws": {"jumps": enc_flt([[] for _ in range(n - 1)]), "z": L(z, r)}}
                reqs.append(rq)
                metas.append((case | {"path": r}, {"spot": [float(x) for x in out[r].tolist()]}))
        # ---- a volatility callable that hands out ONE kept tensor at every step, for two simulations (correspondence only: the
        # property's statement about local volatility is distributional)
        if sc % 3 == 0:
            a = g.choice([0.2, 0.5, 3.0])
            p = {"dt": dt, "n": n, "N": N, "init": g.choice([1.0, 2.0]), "a": a, "b": 0.0, "c": 0.0}
            vol = torch.full((N,), a, dtype=f64)
            for u in range(2):
                case = {"kind": "kept-volatility-tensor", "generator": "local_volatility", "params": p, "via": "generator", "use": u}
                ctx.case(case, True, tag="kept-volatility-tensor")
                ctx.traces += 1
                rec = Recorder(torch)
                with rec:
                    o = S.generate_local_volatility_process(N, n, lambda t, s: vol, init_state=(p["init"],), dt=dt, dtype=f64)
                zz = rec.take("randn_like")
                r32 = float(torch.as_tensor(dt).sqrt())
                for r in range(N):
                    reqs.append({"op": "gen", "name": "local_volatility", "p": {k: fb(p[k]) for k in ("init", "a", "b", "c", "dt")} | {"dtw": fb(r32 * r32)},
                                 "draws": {"z": enc_flt([float(x) for x in zz[r].tolist()])}})
                    metas.append((case | {"path": r}, {"spot": [float(x) for x in o.spot[r].tolist()], "volatility": [float(x) for x in o.volatility[r].tolist()]}))


ENGINE_ENTRIES = ("brownian", "geometric_brownian", "merton_jump", "kou_jump", "MertonJumpStock", "KouJumpStock")      # everything with an `engine` argument
ENGINES = ("torch.randn", "randn_antithetic", "randn_sobol_boxmuller")


def tiny_params(g, entry, engine_name):
    """parameter sets for the tiny batches: a few time points, jump models mostly in the no-jump limit (the engine drives the diffusion; Merton's
    jump sizes too).  With a positive intensity the horizon is 4 steps of 1/50: lam t = 0.8 jumps per path, so that a thousand pooled paths
    contain hundreds of jumps and the 5-sigma bar of the log-variance (empirical fourth moment) is reliable"""
    p = {"dt": g.choice([1 / 250, 1 / 50]), "n": 2 if engine_name == "randn_sobol_boxmuller" else g.choice([2, 3, 5]), "sigma": g.choice([0.2, 0.5]), "mu": g.choice([0.0, 0.3])}
    if entry == "brownian":
        return p | {"init": g.choice([0.0, 1.0, -1.0]), "mu": g.choice([0.0, 0.3, -0.5])}
    p |= {"init": g.choice([1.0, 2.0])}
    if entry in ("merton_jump", "MertonJumpStock"):
        p |= {"lam": g.choice([0.0, 0.0, 10.0]), "jm": g.choice([0.0, -0.05]), "js": 0.05}
    elif entry in ("kou_jump", "KouJumpStock"):
        p |= {"lam": g.choice([0.0, 0.0, 10.0]), "mean_up": 0.05, "mean_down": 0.05, "p_up": g.choice([0.5, 0.3])}
    if "lam" in p and engine_name == "randn_sobol_boxmuller":
        p["lam"] = 0.0
    if p.get("lam", 0.0) > 0:
        p |= {"dt": 1 / 50, "n": 5}
    return p


def tiny_batches(ctx, torch, S, entry, engine_name, N, M, p, origin):
    """The law of a path depends neither on how many paths the call simulates nor on which of the library's engines supplies the normals:
    M calls with N paths each (N tiny, odd as well as even: 1, 3, 5 -- one path is what simulate() draws by default).  Path POSITION r of
    the calls gives M independent paths with exactly the law of the model -- also for randn_antithetic (every row is +z or -z of a row z of
    independent standard normals) and, over ONE time step, for the scrambled Sobol / Box-Muller engine (every entry is marginally standard
    normal; entries of one call are dependent, which is why several steps are not pooled for it) --, so per position: terminal mean and
    variance / log-variance against the closed forms with 5 standard errors.  And no path is deterministic: a path whose increments ALL equal
    the drift to 1e-12 (every one of its normals zero) is an event of probability zero."""
    import pfhedge.instruments as I
    from pfhedge.stochastic import randn_antithetic, randn_sobol_boxmuller
    f64 = torch.float64
    eng = {"torch.randn": torch.randn, "randn_antithetic": randn_antithetic, "randn_sobol_boxmuller": randn_sobol_boxmuller}[engine_name]
    dt, n, mu, sg, x0, lam = p["dt"], p["n"], p["mu"], p["sigma"], p["init"], p.get("lam", 0.0)
    T = (n - 1) * dt
    case = {"kind": "tiny-batches", "entry": entry, "engine": engine_name, "n_paths_per_call": N, "n_calls": M, "origin": origin} | p
    ctx.stats[f"tiny-batches {entry}/{engine_name}/N={N}"] += 1
    name = {"MertonJumpStock": "merton_jump", "KouJumpStock": "kou_jump"}.get(entry, entry)
    mj = dict(mu=mu, sigma=sg, jump_per_year=lam, jump_mean=p.get("jm"), jump_std=p.get("js"), dt=dt, dtype=f64, engine=eng)
    kj = dict(sigma=sg, mu=mu, jump_per_year=lam, jump_mean_up=p.get("mean_up"), jump_mean_down=p.get("mean_down"), jump_up_prob=p.get("p_up"), dt=dt, dtype=f64, engine=eng)
    if entry in ("MertonJumpStock", "KouJumpStock"):
        inst = I.MertonJumpStock(**mj) if entry == "MertonJumpStock" else I.KouJumpStock(**kj)      # ONE instrument, simulated again and again

        def call():
            inst.simulate(n_paths=N, time_horizon=T, init_state=(x0,))
            return inst.spot
    elif entry == "brownian":
        call = lambda: S.generate_brownian(N, n, init_state=(x0,), sigma=sg, mu=mu, dt=dt, dtype=f64, engine=eng)      # noqa
    elif entry == "geometric_brownian":
        call = lambda: S.generate_geometric_brownian(N, n, init_state=(x0,), sigma=sg, mu=mu, dt=dt, dtype=f64, engine=eng)      # noqa
    elif entry == "merton_jump":
        call = lambda: S.generate_merton_jump(N, n, init_state=(x0,), **mj)      # noqa
    else:
        call = lambda: S.generate_kou_jump(N, n, init_state=(x0,), **kj)      # noqa
    outs = []
    for c in range(M):
        try:
            o = call()
        except Exception as e:  # noqa
            ctx.case(case, True, tag="tiny-batches")
            ctx.fail("a generator / instrument driven by one of the library's engines raised on a tiny batch", case | {"call": c}, key=f"tiny-batches:{entry}:error", detail=repr(e)[:200])
            return
        if tuple(o.shape) != (N, n):
            ctx.case(case, True, tag="tiny-batches")
            ctx.fail("a generator / instrument driven by one of the library's engines does not return (n_paths, n) values on a tiny batch", case | {"call": c},
                     key=f"tiny-batches:{entry}:shape", detail=list(o.shape))
            return
        outs.append(o)
    outs = torch.stack(outs).to(f64)                                     # (calls, paths, time points)
    # ---- no deterministic path
    comp = lam * jump_compensator(name, p) if lam else 0.0
    inc = outs.diff(dim=2) - mu * dt if name == "brownian" else outs.log().diff(dim=2) - (mu - sg * sg / 2 - comp) * dt
    dead = inc.abs().amax(dim=2) <= 1e-12                                # (calls, paths)
    ctx.case(case | {"stat": "no deterministic path"}, True, tag="tiny-batches")
    if bool(dead.any()):
        c, r = [int(x) for x in dead.nonzero()[0].tolist()]
        ctx.fail(f"{name} driven by {engine_name}, {N} path(s) per call: a path is deterministic -- every increment equals the drift, as if all of its normals "
                 "were zero (an event of probability zero under the model)", case | {"stat": "no deterministic path", "call": c, "path": r},
                 key=f"tiny-batches:{entry}:deterministic-path",
                 detail={"deterministic_paths": int(dead.sum()), "of": M * N, "path": [float(x) for x in outs[c, r].tolist()],
                         "deterministic_paths_per_position": [int(x) for x in dead.sum(dim=0).tolist()]})
    # ---- per path position: the closed-form terminal moments

    def chk(what, r, est, se, exact, key):
        ctx.case(case | {"stat": what, "path_position": r}, True, tag="tiny-batches")
        if not abs(est - exact) <= 5 * se + 1e-12:
            ctx.fail(f"{name} driven by {engine_name}, {N} path(s) per call, pooled over {M} calls at path position {r}: {what} deviates from its closed form by more "
                     "than 5 standard errors", case | {"stat": what, "path_position": r}, key=key, detail={"estimate": est, "std_error": se, "closed_form": exact})
    for r in range(N):
        x = outs[:, r, -1]
        m, se = mean_se(x)
        if name == "brownian":
            chk("terminal mean = x0 + mu t", r, m, se, x0 + mu * T, f"tiny-batches:{entry}:mean")
            v, sev = var_se(x)
            chk("terminal variance = sigma^2 t", r, v, sev, sg * sg * T, f"tiny-batches:{entry}:var")
        else:
            chk("terminal mean = S0 exp(mu t)", r, m, se, x0 * math.exp(mu * T), f"tiny-batches:{entry}:mean")
            v, sev = var_se((x / x0).log())
            chk("log-variance = sigma^2 t (+ the jump contribution)", r, v, sev, logvar_total(name, p), f"tiny-batches:{entry}:logvar")


# ---- one starting value PER PATH.  `init_state` "also accepts a torch.Tensor": a tensor with one entry per path starts path i at its own
# value.  Shapes the generators take (instruments: as the generator they are built on): Brownian / geometric Brownian / Merton broadcast the
# state against (n_paths, n_steps): shape (n_paths, 1); Vasicek / CIR / local volatility / Heston write it into column 0: shape (n_paths,);
# Kou reshapes it itself: either; rough Bergomi multiplies: (n_paths, 1).  One-factor models take the tensor bare or in a 1-tuple, the
# two-factor ones a tuple of two such tensors (or a tensor and a number).
PER_PATH_SHAPES = {"brownian": ["(N,1)"], "geometric_brownian": ["(N,1)"], "merton_jump": ["(N,1)"], "kou_jump": ["(N,)", "(N,1)"], "vasicek": ["(N,)"], "cir": ["(N,)"],
                   "local_volatility": ["(N,)"], "heston": ["(N,)"], "rough_bergomi": ["(N,1)"]}
TWO_FACTOR = ("heston", "rough_bergomi")
PER_PATH_STARTS = {"brownian": [0.0, 1.0, -1.0, 2.5, 100.0], "vasicek": [0.0, 0.04, 0.2, -0.02, 1.0], "cir": [0.0, 0.04, 0.2, 1e-6, 1.0]}
PER_PATH_V0 = [0.04, 0.2, 0.01, 0.09]


def per_path_state(torch, name, cols, shape, form, dtype):
    """the init_state argument: cols = one list of starting values (one per path) per state component"""
    ts = [torch.tensor(c, dtype=dtype).reshape((-1, 1) if shape == "(N,1)" else (-1,)) for c in cols]
    if name in TWO_FACTOR:
        return (ts[0], cols[1][0]) if form == "tuple (tensor, number)" else tuple(ts)
    return ts[0] if form == "bare" else (ts[0],)


class PerPathInit:
    """while active, generate_<name> of pfhedge.stochastic (via generator) or <Instrument>.simulate (via instrument) is CALLED WITH `arg` as
    init_state, whatever the caller wrote there: lets stoch_common.run_generator (which records the draws and builds the model requests, and
    writes the initial state as a tuple of numbers) run the real code on a per-path initial state"""

    def __init__(self, name, via, arg):
        import pfhedge.stochastic as S
        import pfhedge.instruments as I
        self.arg = arg
        self.owner, self.attr = (getattr(I, INSTRUMENTS[name]), "simulate") if via == "instrument" else \
            (S, "generate_local_volatility_process" if name == "local_volatility" else "generate_" + name)

    def __enter__(self):
        orig, arg = getattr(self.owner, self.attr), self.arg
        self.orig = orig

        def with_arg(*a, **k):
            k["init_state"] = arg
            return orig(*a, **k)
        setattr(self.owner, self.attr, with_arg)
        return self

    def __exit__(self, *exc):
        setattr(self.owner, self.attr, self.orig)
        return False


def per_path_block(ctx, torch, S, g, n_rand, reqs, metas):
    """every generator and every instrument started from one value per path (see PER_PATH_SHAPES), in every spelling, with recorded draws:
    (a) every path starts at ITS OWN value; Brownian / geometric Brownian paths -- and Merton / Kou paths at zero intensity -- are the exact
    solution from that value step by step for the recorded normals; (b) the model (op gen, one request per path with that path's initial
    state) reproduces every series from the same draws.  A fixed plan (every generator x generator / instrument x spelling x shape) runs on
    every tier, random picks follow."""
    plan = []
    for name in GENERATORS:
        for via in ["generator"] + (["instrument"] if name in INSTRUMENTS else []):
            for shape in PER_PATH_SHAPES[name]:
                for form in (["tuple of tensors", "tuple (tensor, number)"] if name in TWO_FACTOR else ["bare", "tuple"]):
                    plan.append((name, via, shape, form))
    for it in range(len(plan) + n_rand):
        name, via, shape, form = plan[it] if it < len(plan) else g.choice(plan)
        p = gen_params(g, name)
        N = p["N"] = g.choice([2, 3, 4])
        if name in ("merton_jump", "kou_jump") and (form == "bare" or g.chance(0.5)):
            p["lam"] = 0.0
        pool = PER_PATH_STARTS.get(name, [0.5, 1.0, 2.0, 2.5, 100.0])
        first = g.choice(pool)
        x0s = [first] + [g.choice([x for x in pool if x != first])] + [g.choice(pool) for _ in range(N - 2)]      # (path 1 never starts where path 0 does)
        cols = [x0s]
        if name in TWO_FACTOR:
            v_first = g.choice(PER_PATH_V0)
            v0s = [v_first] * N if form == "tuple (tensor, number)" else [v_first] + [g.choice([x for x in PER_PATH_V0 if x != v_first])] + [g.choice(PER_PATH_V0) for _ in range(N - 2)]
            cols.append(v0s)
            p |= {"s0": x0s[0], "v0": v0s[0]}
        else:
            p["init"] = x0s[0]
        case = {"kind": "per-path-init", "generator": name, "via": via, "init_state_spelling": form, "shape_of_the_state_tensor": shape,
                "starting_values": cols[0] if len(cols) == 1 else cols, "params": p}
        ctx.case(case, True, tag="per-path-init")
        ctx.stats[f"per-path-init {name}/{via}/{form}"] += 1
        ctx.traces += 1
        try:
            with PerPathInit(name, via, per_path_state(torch, name, cols, shape, form, torch.float64)):
                out, rq, rec = run_generator(torch, name, p, via=via)
        except InternalError:
            raise
        except GridMismatch as e:
            ctx.fail("an instrument simulated over the horizon (n-1) dt does not return n time steps", case, key=f"inst:{name}:grid", detail=str(e)[:200])
            continue
        except Exception as e:  # noqa
            ctx.fail("a generator / instrument raised on one starting value per path", case, key=f"per-path-init:{name}:error", detail=repr(e)[:200])
            continue
        if any(tuple(t.shape) != (N, p["n"]) for t in out.values()):
            ctx.fail("one starting value per path: a series does not have (n_paths, n) values", case, key=f"per-path-init:{name}:shape",
                     detail={k: list(t.shape) for k, t in out.items()})
            continue
        # (a) every path starts at its own value ...
        starts_ok = True
        for bn, col in zip(["spot", "variance"], cols):
            got = [float(x) for x in out[bn][:, 0].tolist()]
            if any(abs(a - b) > 1e-9 * max(1.0, abs(b)) for a, b in zip(got, col)):
                starts_ok = False
                ctx.fail(f"{name}: with one starting value per path the paths do not start at their own values (the law holds from ANY starting value: at t = 0 "
                         "a path is at the value it was given)", case | {"series": bn}, key=f"per-path-init:{name}:start", detail={"first_column": got, "requested": col})
        # ... and is the exact solution from there for the recorded normals
        if starts_ok and (name in ("brownian", "geometric_brownian") or (name in ("merton_jump", "kou_jump") and p["lam"] == 0.0)) and p["n"] >= 2:
            for r in range(N):
                zs = dec_flt(rq[r]["draws"]["z"])
                path = [float(x) for x in out["spot"][r].tolist()]
                s = x0s[r]
                for i in range(1, p["n"]):
                    s = s + p["mu"] * p["dt"] + p["sigma"] * math.sqrt(p["dt"]) * zs[i] if name == "brownian" else \
                        s * math.exp((p["mu"] - p["sigma"] ** 2 / 2) * p["dt"] + p["sigma"] * math.sqrt(p["dt"]) * zs[i])
                    if abs(path[i] - s) > 1e-9 * max(1.0, abs(s)):
                        ctx.fail(f"{name}: with one starting value per path a path is not the exact SDE solution from ITS starting value for the supplied normals",
                                 case | {"path": r, "step": i}, key=f"per-path-init:{name}:sde-step", detail={"impl": path[i], "exact": s, "starting_value": x0s[r]})
                        break
                else:
                    continue
                break
        # (b) the model, path by path from that path's initial state
        fb = float_bits
        for r, q in enumerate(rq):
            q = dict(q, p=dict(q["p"]))
            if name in TWO_FACTOR:
                q["p"] |= {"s0": fb(cols[0][r]), "v0": fb(cols[1][r])}
                if "pc" in q:
                    q["pc"] = dict(q["pc"]) | {"v0": fb(cols[1][r])}
            else:
                q["p"]["init"] = fb(x0s[r])
            reqs.append(q)
            metas.append((case | {"path": r}, {k: [float(x) for x in v[r].tolist()] for k, v in out.items()}))


def per_path_moments(ctx, torch, S, g, name, NP, origin):
    """search support: the closed-form moments PER STARTING VALUE.  NP paths in K blocks, block k started at its own value through ONE
    init_state tensor with one entry per path (bare or in a tuple; generator or instrument); each block's terminal mean (and variance /
    log-variance around its own starting value) against the closed form from THAT value, 5 standard errors."""
    p = sweep_params(g, name)
    via = "generator" if name == "brownian" else g.choice(["generator", "instrument"])
    shape = g.choice(PER_PATH_SHAPES[name])
    form = g.choice(["tuple of tensors", "tuple (tensor, number)"] if name in TWO_FACTOR else ["bare", "bare", "tuple"])
    p |= {"n": g.choice([6, 11]), "via": via, "dtype": "float64"}
    if name == "local_volatility":
        p |= {"dt": g.choice([1 / 250, 1 / 50]), "a": g.choice([0.2, 0.4]), "b": g.choice([0.0, 0.1]), "c": 0.0}
    if name == "rough_bergomi":
        p |= {"n": 6, "dt": 0.2, "alpha": g.choice([-0.4, -0.3, -0.2]), "eta": g.choice([0.5, 1.0]), "rho": g.choice([-0.9, 0.0])}      # a one-year horizon (others: K4)
    if name in ("cir", "heston"):
        # (blocks of a few thousand paths: a moderate vol-of-vol, 2 kappa theta / sigma^2 >= 2, keeps the 5-sigma bar of the variance estimate
        # reliable; the QE regimes are the business of the sweeps above)
        p |= {"theta": g.choice([0.04, 0.1]), "sigma": 0.2, "kappa": g.choice([1.0, 3.0])}
    K = g.choice([2, 3])
    pool = {"brownian": [0.0, 1.0, -1.0, 5.0], "vasicek": [0.0, 0.04, 0.2, -0.05], "cir": [0.0, 0.04, 0.2, 0.5], "local_volatility": [0.5, 1.0, 2.0]}.get(name, [0.5, 1.0, 2.0, 10.0])
    starts, vstarts = [], []
    while len(starts) < K:
        x = g.choice(pool)
        if x not in starts:
            starts.append(x)
    vpool = [0.04, 0.2, 0.09]
    if name == "rough_bergomi":
        vpool = [p["xi"], 2 * p["xi"], p["xi"] / 2]
    while name in TWO_FACTOR and len(vstarts) < K:
        v = g.choice(vpool)
        if form == "tuple (tensor, number)":
            vstarts = [v] * K
        elif v not in vstarts:
            vstarts.append(v)
    B = NP // K
    dt64 = torch.float64
    cols = [[x for x in starts for _ in range(B)]] + ([[v for v in vstarts for _ in range(B)]] if name in TWO_FACTOR else [])
    arg = per_path_state(torch, name, cols, shape, form, dt64)
    dt, n = p["dt"], p["n"]
    T = (n - 1) * dt
    case = {"kind": "per-path-moments", "generator": name, "origin": origin, "init_state_spelling": form, "shape_of_the_state_tensor": shape, "starting_values_of_the_blocks": starts,
            "paths_per_block": B} | ({"starting_variances_of_the_blocks": vstarts} if name in TWO_FACTOR else {}) | p
    G = _ViaInstrument(torch) if via == "instrument" else S
    ctx.stats[f"per-path-moments {name}/{via}"] += 1
    try:
        if name == "brownian":
            o = G.generate_brownian(B * K, n, init_state=arg, sigma=p["sigma"], mu=p["mu"], dt=dt, dtype=dt64)
        elif name == "geometric_brownian":
            o = G.generate_geometric_brownian(B * K, n, init_state=arg, sigma=p["sigma"], mu=p["mu"], dt=dt, dtype=dt64)
        elif name == "merton_jump":
            o = G.generate_merton_jump(B * K, n, init_state=arg, mu=p["mu"], sigma=p["sigma"], jump_per_year=p["lam"], jump_mean=p["jm"], jump_std=p["js"], dt=dt, dtype=dt64)
        elif name == "kou_jump":
            o = G.generate_kou_jump(B * K, n, init_state=arg, sigma=p["sigma"], mu=p["mu"], jump_per_year=p["lam"], jump_mean_up=p["mean_up"], jump_mean_down=p["mean_down"],
                                    jump_up_prob=p["p_up"], dt=dt, dtype=dt64)
        elif name == "vasicek":
            o = G.generate_vasicek(B * K, n, init_state=arg, kappa=p["kappa"], theta=p["theta"], sigma=p["sigma"], dt=dt, dtype=dt64)
        elif name == "cir":
            o = G.generate_cir(B * K, n, init_state=arg, kappa=p["kappa"], theta=p["theta"], sigma=p["sigma"], dt=dt, dtype=dt64)
        elif name == "heston":
            o = G.generate_heston(B * K, n, init_state=arg, kappa=p["kappa"], theta=p["theta"], sigma=p["sigma"], rho=p["rho"], dt=dt, dtype=dt64)
        elif name == "local_volatility":
            a, b, c = p["a"], p["b"], p["c"]
            o = G.generate_local_volatility_process(B * K, n, lambda t, s: a + b * s + c * t, init_state=arg, dt=dt, dtype=dt64)
        else:
            o = G.generate_rough_bergomi(B * K, n, init_state=arg, alpha=p["alpha"], rho=p["rho"], eta=p["eta"], xi=p["xi"], dt=dt, dtype=dt64)
    except GridMismatch as e:
        ctx.case(case, True, tag="per-path-moments")
        ctx.fail("an instrument simulated over the horizon (n-1) dt does not return n time steps", case, key=f"inst:{name}:grid", detail=str(e)[:200])
        return
    except Exception as e:  # noqa
        ctx.case(case, True, tag="per-path-moments")
        ctx.fail("a generator / instrument raised on one starting value per path", case, key=f"per-path-init:{name}:error", detail=repr(e)[:200])
        return
    spot = (o if isinstance(o, torch.Tensor) else o.spot).to(dt64)
    var = None if isinstance(o, torch.Tensor) or name == "local_volatility" else o.variance.to(dt64)

    def chk(what, k, est, se, exact, key, slack=1e-12):
        ck = case | {"stat": what, "block": k, "starting_value": starts[k]}
        ctx.case(ck, True, tag="per-path-moments")
        if not abs(est - exact) <= 5 * se + slack:
            ctx.fail(f"{name}: {what} of the block of paths started at {starts[k]}" + (f" (variance {vstarts[k]})" if name in TWO_FACTOR else "")
                     + " deviates from its closed form from THAT starting value by more than 5 standard errors", ck, key=key,
                     detail={"estimate": est, "std_error": se, "closed_form": exact, "mean_of_the_block_at_t0": float(spot[k * B:(k + 1) * B, 0].mean())})
    for k in range(K):
        x0 = starts[k]
        x = spot[k * B:(k + 1) * B, -1]
        m, se = mean_se(x)
        if name == "brownian":
            chk("terminal mean = x0 + mu t", k, m, se, x0 + p["mu"] * T, "per-path-moments:brownian:mean")
            v, sev = var_se(x)
            chk("terminal variance = sigma^2 t", k, v, sev, p["sigma"] ** 2 * T, "per-path-moments:brownian:var")
        elif name in ("geometric_brownian", "merton_jump", "kou_jump"):
            chk("terminal mean = S0 exp(mu t)", k, m, se, x0 * math.exp(p["mu"] * T), f"per-path-moments:{name}:mean")
            v, sev = var_se((x / x0).log())
            chk("variance of log(S_t / S0) = sigma^2 t (+ the jump contribution)", k, v, sev, logvar_total(name, p), f"per-path-moments:{name}:logvar")
        elif name == "vasicek":
            kp, th, sg = p["kappa"], p["theta"], p["sigma"]
            chk("mean = theta + (x0 - theta) exp(-kappa t)", k, m, se, th + (x0 - th) * math.exp(-kp * T), "per-path-moments:vasicek:mean")
            v, sev = var_se(x)
            chk("variance = sigma^2 (1 - exp(-2 kappa t)) / (2 kappa)", k, v, sev, sg ** 2 * (1 - math.exp(-2 * kp * T)) / (2 * kp), "per-path-moments:vasicek:var", slack=1e-18)
        elif name in ("cir", "heston"):
            kp, th, sg = p["kappa"], p["theta"], p["sigma"]
            v0 = x0 if name == "cir" else vstarts[k]
            y = x if name == "cir" else var[k * B:(k + 1) * B, -1]
            e1 = math.exp(-kp * T)
            m_, se_ = mean_se(y)
            chk("variance-process mean = theta + (v0 - theta) exp(-kappa t)", k, m_, se_, th + (v0 - th) * e1, f"per-path-moments:{name}:var-mean" if name == "heston" else "per-path-moments:cir:mean")
            v, sev = var_se(y)
            exactv = v0 * sg ** 2 / kp * (e1 - e1 * e1) + th * sg ** 2 / (2 * kp) * (1 - e1) ** 2
            chk("variance-process variance = v0 sigma^2/kappa (e^-kt - e^-2kt) + theta sigma^2/(2 kappa) (1 - e^-kt)^2", k, v, sev, exactv,
                f"per-path-moments:{name}:var-var" if name == "heston" else "per-path-moments:cir:var", slack=1e-4 * exactv + 1e-18)
            if name == "heston":
                chk("terminal spot mean = S0 (martingale)", k, m, se, x0, "per-path-moments:heston:mean")
        elif name == "local_volatility":
            chk("terminal mean = S0 (martingale)", k, m, se, x0, "per-path-moments:localvol:mean")
        else:
            # (one-year horizon, eta <= 1: see the unit-horizon statements of moment_suite for the tolerance beyond the 5 standard errors)
            mv, sev = mean_se(var[k * B:(k + 1) * B, -1])
            chk("mean forward variance E[V(1)] = V(0)", k, mv, sev, vstarts[k], "per-path-moments:rough_bergomi:forward-variance", slack=0.005 * vstarts[k])
            chk("terminal spot mean = S0 (martingale)", k, m, se, x0, "per-path-moments:rough_bergomi:spot-mean")


def check(ctx):
    torch, pfhedge = import_impl()
    import pfhedge.stochastic as S
    g = ctx.gen
    ctx.lean_gate()
    dt64 = torch.float64
    torch.manual_seed(ctx.seed % (2 ** 31))
    n = 1000 if ctx.tier == "quick" else 5000
    reqs, metas = [], []
    n_long = len(GENERATORS) * (1 if ctx.tier == "quick" else 4)
    for it in range(n + n_long):
        name = g.choice(GENERATORS) if it < n else GENERATORS[(it - n) % len(GENERATORS)]
        # (after the random cases: every generator on a LONG series, one path of 301 / 513 time points over one year -- the model
        # follows the same draws over the whole series)
        p = gen_params(g, name) if it < n else {k: v for k, v in long_params(g, name).items() if k not in ("via", "dtype")} | {"N": 1}
        # a third of the cases go through the primary instrument built on the generator (parameter plumbing instrument -> generator)
        via = "instrument" if (name in INSTRUMENTS and g.chance(0.35)) else "generator"
        case = {"generator": name, "params": p, "via": via}
        try:
            out, rq, rec = run_generator(torch, name, p, via=via)
        except InternalError:
            raise
        except GridMismatch as e:
            ctx.case(case, True, tag=name)
            ctx.fail("an instrument simulated over the horizon (n-1) dt does not return n time steps", case, key=f"inst:{name}:grid", detail=str(e)[:200])
            continue
        except RecursionError:
            ctx.case(case, True, tag=name)
            ctx.fail("generator raised RecursionError", case, key=f"gen:{name}:recursion")
            continue
        except Exception as e:  # noqa
            ctx.case(case, True, tag=name)
            ctx.fail("generator raised on admissible parameters", case, key=f"gen:{name}:error", detail=repr(e)[:200])
            continue
        ctx.stats[f"generator={name}"] += 1
        ctx.stats[f"via={via}"] += 1
        if it >= n:
            ctx.stats["long series with recorded draws"] += 1
        ctx.case(case, nontrivial=p["n"] >= 2, tag=name)
        ctx.traces += 1
        if name == "cir" or name == "heston":
            ctx.stats["qe_branches_seen"] += 0
        for i, r in enumerate(rq):
            reqs.append(r)
            metas.append((case | {"path": i}, {k: [float(x) for x in v[i].tolist()] for k, v in out.items()}))
        # ---- pathwise predicate: exact SDE step
        if name in ("brownian", "geometric_brownian"):
            z = None
            for l, t in [(l, t) for l, t in [("engine", None)]]:
                pass
        if name == "geometric_brownian" and p["n"] >= 2:
            # S_{i+1} = S_i exp((mu - sigma^2/2) dt + sigma sqrt(dt) z_{i+1}) with the recorded normals
            zs = dec_flt(rq[0]["draws"]["z"])
            path = [float(x) for x in out["spot"][0].tolist()]
            for i in range(p["n"] - 1):
                exp = path[i] * math.exp((p["mu"] - p["sigma"] ** 2 / 2) * p["dt"] + p["sigma"] * math.sqrt(p["dt"]) * zs[i + 1])
                if abs(path[i + 1] - exp) > 1e-9 * max(1.0, abs(exp)):
                    ctx.fail("geometric Brownian path is not the exact SDE solution step by step for the supplied normals", case | {"step": i},
                             key="gen:geometric_brownian:sde-step", detail={"impl": path[i + 1], "exact": exp})
                    break
        if name == "brownian" and p["n"] >= 2:
            zs = dec_flt(rq[0]["draws"]["z"])
            path = [float(x) for x in out["spot"][0].tolist()]
            for i in range(p["n"] - 1):
                exp = path[i] + p["mu"] * p["dt"] + p["sigma"] * math.sqrt(p["dt"]) * zs[i + 1]
                if abs(path[i + 1] - exp) > 1e-9 * max(1.0, abs(exp)):
                    ctx.fail("Brownian path is not the exact SDE solution step by step for the supplied normals", case | {"step": i},
                             key="gen:brownian:sde-step", detail={"impl": path[i + 1], "exact": exp})
                    break
        if name in ("merton_jump", "kou_jump") and p["lam"] == 0.0:
            # zero intensity: equals geometric Brownian motion on the same normals
            zs = dec_flt(rq[0]["draws"]["z"])
            path = [float(x) for x in out["spot"][0].tolist()]
            s = p["init"]
            for i in range(p["n"]):
                if i > 0:
                    s = s * math.exp((p["mu"] - p["sigma"] ** 2 / 2) * p["dt"] + p["sigma"] * math.sqrt(p["dt"]) * zs[i])
                if abs(path[i] - s) > 1e-9 * max(1.0, abs(s)):
                    ctx.fail("jump model with zero intensity differs from geometric Brownian motion on the same normals", case | {"step": i},
                             key=f"gen:{name}:zero-intensity", detail={"impl": path[i], "gbm": s})
                    break
    supplied_normals_block(ctx, torch, S, g, 60 if ctx.tier == "quick" else 400, reqs, metas)
    per_path_block(ctx, torch, S, g, 20 if ctx.tier == "quick" else 300, reqs, metas)
    try:
        outs = ctx.driver(reqs)
    except DriverBroken as e:
        ctx.ties_broken.append({"kind": "driver", "detail": str(e)[:1500]})
        outs = []
    for (case, real), mo in zip(metas, outs):
        if "ok" not in mo:
            ctx.disagree("gen", case, real, mo)
            continue
        mv = mo["ok"]
        if isinstance(mv, list):
            mv = {"spot": mv}
        for k, arr in real.items():
            if k not in mv or not close_arr(arr, dec_flt(mv[k]), 1e-8, 1e-12):
                ctx.disagree("gen", case | {"series": k}, arr, dec_flt(mv[k]) if k in mv else None)
                break
    # ---------------- distributional statements: large-sample estimates with 5-sigma error bars (search support)
    NP = 20000 if ctx.tier == "quick" else 200000
    sweeps = 3 if ctx.tier == "quick" else 8
    for sw in range(sweeps):
        for name in GENERATORS:
            sp_ = sweep_params(g, name)
            try:
                moment_suite(ctx, torch, S, name, sp_, NP, "sweep")
            except GridMismatch as e:
                ctx.fail("an instrument simulated over the horizon (n-1) dt does not return n time steps", sp_ | {"generator": name}, key=f"inst:{name}:grid",
                         detail=str(e)[:200])
    # corpus: a local-volatility Euler scheme with LARGE steps (sigma sqrt(dt) = 0.6) is still a martingale: S (1 + sigma dW) may
    # become negative, flooring the factor at 0 would add drift
    for via_ in ("generator", "instrument"):
        moment_suite(ctx, torch, S, "local_volatility", {"dt": 0.04, "n": 2, "init": 2.0, "a": 3.0, "b": 0.0, "c": 0.0, "via": via_}, max(NP, 100000), "corpus")
    # corpus of regimes that the random sweeps reach only now and then, run on every tier: variance / rate LEVELS of the order of 1e-4 in
    # float32 (the divisions of the QE scheme must not be clamped at the float32 epsilon there) and a zero starting rate in every
    # spelling (a falsy initial state is still the initial state)
    for via_ in ("generator", "instrument"):
        for lvl, sg in ((1e-4, 0.01), (2.5e-5, 0.003)):
            moment_suite(ctx, torch, S, "cir", {"dt": 1 / 250, "n": 11, "init": lvl, "kappa": 1.0, "theta": lvl, "sigma": sg, "via": via_, "dtype": "float32"}, NP, "corpus")
            moment_suite(ctx, torch, S, "heston", {"dt": 1 / 250, "n": 11, "s0": 1.0, "v0": lvl, "kappa": 1.0, "theta": lvl, "sigma": sg, "rho": -0.7, "via": via_,
                                                   "dtype": "float32"}, NP, "corpus")
        for form in ("tuple", "scalar", "tensor0"):
            moment_suite(ctx, torch, S, "vasicek", {"dt": 1 / 250, "n": 11, "init": 0.0, "kappa": 3.0, "theta": 0.1, "sigma": 0.02, "init_form": form, "via": via_,
                                                    "dtype": "float64"}, NP, "corpus")
    # ---------------- LONG series (more than 256 time points: 301 / 513 over one year, finer than the library's 250 steps per year): the
    # statements do not depend on how finely the horizon is divided.  Corpus on every tier: rough Bergomi (forward variance and Var[log V]
    # at the quarter dates of the series; the horizon is one year, where the generator's kernel normalisation is right -- other horizons
    # are known finding K4) through the generator and the instrument; random: every generator once per sweep
    NL = 3000 if ctx.tier == "quick" else 20000
    rb_long = {"s0": 1.0, "xi": 0.09, "v0": 0.09, "n": 513, "dt": 1 / 512, "rho": -0.7}
    moment_suite(ctx, torch, S, "rough_bergomi", rb_long | {"alpha": -0.3, "eta": 1.0, "via": "generator", "dtype": "float32"}, 20000, "corpus")
    moment_suite(ctx, torch, S, "rough_bergomi", rb_long | {"alpha": -0.2, "eta": 1.9, "via": "instrument", "dtype": "float64"}, max(NL, 4000), "corpus")
    for sw in range(1 if ctx.tier == "quick" else 3):
        for name in GENERATORS:
            lp_ = long_params(g, name)
            try:
                moment_suite(ctx, torch, S, name, lp_, NL, "sweep")
            except GridMismatch as e:
                ctx.fail("an instrument simulated over the horizon (n-1) dt does not return n time steps", lp_ | {"generator": name}, key=f"inst:{name}:grid",
                         detail=str(e)[:200])
    # ---------------- paths produced by MANY SMALL calls (one or two paths, one or two steps per call, jump intensities such that most calls
    # contain no jump at all): the law of a path does not depend on what the other paths of the same call drew.  Corpus on every tier:
    # both jump models through the generator and through one instrument simulated again and again -- (a) sigma = 0: jump-free steps
    # move with the compensated drift (mu - lam m) dt exactly, (b) sigma > 0: mean and log-variance of S(dt) over the calls; random: any generator
    NS = 1200 if ctx.tier == "quick" else 6000
    small_corpus = [("kou_jump", {"init": 2.0, "mu": 0.05, "sigma": 0.1, "lam": 50.0, "mean_up": 0.1, "mean_down": 0.05, "p_up": 0.9, "dt": 0.01}),
                    ("merton_jump", {"init": 1.5, "mu": 0.03, "sigma": 0.1, "lam": 50.0, "jm": -0.1, "js": 0.05, "dt": 0.01})]
    for name, sp_ in small_corpus:
        for via_ in ("generator", "instrument"):
            jump_free_steps(ctx, torch, S, name, sp_ | {"n": 2, "batch": 1, "via": via_}, NS // 2, "corpus")
            moment_suite(ctx, torch, S, name, sp_ | {"n": 2, "batch": 1, "via": via_, "dtype": "float64"}, NS, "corpus")
    for sw in range(2 if ctx.tier == "quick" else 12):
        name = g.choice(GENERATORS)
        sp_ = small_params(g, name)
        try:
            moment_suite(ctx, torch, S, name, sp_, NS, "sweep")
        except GridMismatch as e:
            ctx.fail("an instrument simulated over the horizon (n-1) dt does not return n time steps", sp_ | {"generator": name}, key=f"inst:{name}:grid",
                     detail=str(e)[:200])
        name = g.choice(["merton_jump", "kou_jump"])
        sp_ = small_params(g, name)
        jump_free_steps(ctx, torch, S, name, sp_, max(150, NS // (2 * sp_["batch"] * (sp_["n"] - 1))), "sweep")
    # ---------------- TINY batches (1, 3, 5 paths per call -- odd numbers too; one path is what simulate() draws by default) driven by each of the
    # library's engines, pooled over thousands of calls: per path position the terminal mean and variance / log-variance, and no deterministic
    # path.  Corpus on every tier: randn_antithetic with 1, 3 and 5 paths for Brownian and geometric Brownian, one odd size for each of the
    # Merton / Kou generators and instruments (one instrument simulated again and again), torch.randn and the scrambled Sobol / Box-Muller
    # engine (one time step) on two entries each; random: any entry x engine x 1..5 paths
    MT = 2000 if ctx.tier == "quick" else 6000
    tiny_corpus = [("brownian", "randn_antithetic", 1, MT), ("brownian", "randn_antithetic", 3, MT), ("brownian", "randn_antithetic", 5, MT),
                   ("geometric_brownian", "randn_antithetic", 1, MT), ("geometric_brownian", "randn_antithetic", 3, MT), ("geometric_brownian", "randn_antithetic", 5, MT),
                   ("merton_jump", "randn_antithetic", 1, MT // 2), ("kou_jump", "randn_antithetic", 3, MT // 2),
                   ("MertonJumpStock", "randn_antithetic", 3, MT // 2), ("KouJumpStock", "randn_antithetic", 1, MT // 2),
                   ("brownian", "torch.randn", 3, MT // 2), ("geometric_brownian", "torch.randn", 1, MT // 2),
                   ("brownian", "randn_sobol_boxmuller", 3, MT // 2), ("geometric_brownian", "randn_sobol_boxmuller", 1, MT // 2)]
    for entry, ename, N_, M_ in tiny_corpus:
        tiny_batches(ctx, torch, S, entry, ename, N_, M_, tiny_params(g, entry, ename), "corpus")
    for sw in range(2 if ctx.tier == "quick" else 12):
        entry, ename = g.choice(ENGINE_ENTRIES), g.choice(ENGINES)
        tiny_batches(ctx, torch, S, entry, ename, g.choice([1, 2, 3, 4, 5]), MT // 2, tiny_params(g, entry, ename), "sweep")
    # ---------------- one starting value PER PATH (a bare init_state tensor with one entry per path, or a tuple of such tensors): the closed-form
    # moments hold block by block from each block's own starting value -- every generator once (generator or instrument, spelling and
    # shape at random)
    for sw in range(1 if ctx.tier == "quick" else 4):
        for name in GENERATORS:
            per_path_moments(ctx, torch, S, g, name, 12000 if ctx.tier == "quick" else 60000, "sweep")
    # ---------------- failing-input search directed at the generators whose correspondence broke:
    # the same moment statements evaluated at (tamed variants of) the disagreeing parameter sets
    seen = set()
    for t in list(ctx.ties_broken):
        if t.get("kind") != "correspondence" or t.get("op") != "gen":
            continue
        c = t["case"]
        k = json.dumps([c["generator"], c["params"]], sort_keys=True)
        if k in seen or len(seen) >= 6:
            continue
        seen.add(k)
        for mp in directed_params(c["generator"], c["params"]):
            moment_suite(ctx, torch, S, c["generator"], mp, 100000, "directed")
            if c["generator"] in ("merton_jump", "kou_jump") and mp["lam"] > 0 and (c["generator"] == "kou_jump" or mp["js"] > 0):
                # ... and on small calls (the disagreeing call was one)
                jump_free_steps(ctx, torch, S, c["generator"], mp | {"n": max(2, min(mp["n"], 3)), "batch": min(c["params"].get("N", 1), 2), "via": c.get("via", "generator")},
                                300, "directed")
    return ctx.finish(
        rule="all nine generators with recorded draws over parameter sweeps (non-default initial states, dt in {1/250,1/12,0.1,1/365}, n in {1..20}, "
             "both CIR QE branches via high/low vol-of-vol, zero and high jump intensities); moment estimates with 5-sigma bars on 2 (quick) / 8 (thorough) "
             "parameter sets with 2e4 / 2e5 paths (generator, instrument, instrument simulated before, instrument simulated before and deep-copied); LONG series (301 / 513 time "
             "points over one year: every generator with recorded draws against the model, moment estimates for every generator, rough Bergomi forward variance and Var[log V] at "
             "the quarter dates, corpus alpha=-0.3/-0.2 at 513 points via generator and instrument); paths produced by many SMALL calls (1-2 paths, 2-3 time points per call: moment "
             "estimates over 1200 / 6000 calls, corpus Kou / Merton via generator and one re-simulated instrument, random any generator; sigma = 0: number of steps with the "
             "compensated drift vs Binomial(steps, exp(-lam dt)), exact tail); caller-kept tensors used for "
             "2-4 simulations in a row (one tensor of normals per shape handed out by the engine as the same object / .to() / a view, optionally one 0-dim initial-state tensor; Brownian, "
             "geometric Brownian, Merton / Kou generators and instruments at zero intensity, instruments simulated again) checked step by step against the normals the caller generated and "
             "sent to the model with those normals; a volatility callable handing out one kept tensor (model only); tiny batches (1-5 paths per call, corpus: randn_antithetic with "
             "1, 3, 5 paths on Brownian / geometric Brownian, one odd size per Merton / Kou generator and instrument, torch.randn and scrambled Sobol / Box-Muller on two entries; "
             "1000-2000 / 3000-6000 calls pooled per path position: mean, variance / log-variance, no deterministic path); one starting value per path (fixed plan: every generator x "
             "generator / instrument x bare tensor / tuple x accepted shape, with recorded draws against the exact solution and the model; moments per block of paths from its own "
             "starting value, every generator); non-trivial = n >= 2; distinct = sha1 of canonical case",
        explanation="pathwise statements and one-step / inductive moment formulas are theorems (Props/C10); the law of torch's RNG is trusted; the "
                    "large-sample estimates are search support only.")
