"""C06 — cash() is the certainty equivalent and price() the indifference price.

correspondence: closed-form cash overrides and the default search (IsoelasticLoss, EntropicLoss via
the base class, a user subclass, OCE) vs the Lean model (Model/Risk.lean: cashNeg, entropicLossCash,
cashDefault; Float carrier), and Hedger.price vs `priceOf` on the same simulated paths; Hedger.price / Hedger.compute_loss vs the
composed model `hedgerPriceN` / `hedgerLossN` (Model/HedgerPrice.lean, op "hedger_price": paths -> hedgerPL -> criterion / -cash -> ensemble mean).
predicate (real code): criterion(constant sample at cash) == criterion(sample), min <= cash <= max,
cash <= mean for risk-averse criteria, QCVaR cash = -risk, price = -cash(portfolio - payoff) with the portfolio both from
Hedger.compute_portfolio and written out (hedge gains minus proportional costs at the instrument's rate; linear and Black-Scholes hedges),
price(payoff + k) = price(payoff) + k under the same seed, ERM price = loss; a clause REGISTERED AGAIN under an existing name before pricing
(add_clause(name, c1) ... add_clause(name, c2)): the price follows the clause in force (shift by k_new - k_old, value against the contractual
payoff written out, sequences of registrations with repeated names sent to op "hedger_price", whose registry replaces in place);
price = -cash(hedge portfolio - payoff) with the hedge portfolio built by the harness from the MODULE's own outputs (the module evaluated
step by step on the features of each step, instrument h holding output h; no compute_hedge / compute_portfolio / functional.pl): hedgers
with state-independent features only and with prev_hedge, H in {1, 2, 3}, every criterion (stepwise_portfolio; also in every op
"hedger_price" scenario); derivatives with two or more NON-COMMUTING clauses registered under names whose alphabetical order differs from the
order of registration: payoff(), price and loss against the contractual payoff (payoff_fn() passed by hand through the clauses in registration
order), shift by k through a last-registered "+k" clause whose name sorts first (clause_order_section; cap / floor / affine ones also in op
"hedger_price").
"""
import math
from fractions import Fraction as F
from common import *  # noqa
from risk_common import *  # noqa


# ---- Hedger.price / compute_loss against the composed model (Lean op "hedger_price") -------------------------------------

_HP_W = [F(-1), F(-1, 2), F(-1, 4), F(0), F(1, 4), F(1, 2), F(1), F(3, 4)]
_HP_CLAUSES = [[], [], [["cap", F(1, 64)]], [["cap", F(1, 32)]], [["affine", F(1), F(1, 4)]], [["affine", F(1), F(-1, 2)]],
               [["cap", F(1, 64)], ["affine", F(1), F(1)]], [["affine", F(1), F(1, 4)], ["cap", F(17, 64)]],
               [["affine", F(2), F(1, 8)], ["floor", F(9, 64)]], [["floor", F(1, 128)], ["affine", F(1), F(-1, 4)]]]


# clauses RE-REGISTERED under an existing name before pricing (the way a contractual term of an existing derivative object is updated):
# `add_clause(name, c1)` ... `add_clause(name, c2)`.  The registry is an ordered dict: the later registration replaces the clause and keeps
# its position; the payoff -- and so the price -- follows the current clause.  A scenario's "adds" is the SEQUENCE of registrations.
# The first entries are a fixed corpus (every run): a re-registered affine clause always moves the payoff of every path.
_HP_REG_POOL = [["cap", F(1, 64)], ["cap", F(1, 32)], ["cap", F(17, 64)], ["floor", F(9, 64)], ["floor", F(1, 128)], ["affine", F(1), F(1, 4)],
                ["affine", F(1), F(-1, 2)], ["affine", F(1), F(1)], ["affine", F(2), F(1, 8)], ["affine", F(1, 2), F(0)]]
_HP_REREGISTERED = [
    [["fee", ["affine", F(1), F(1, 4)]], ["fee", ["affine", F(1), F(-1, 2)]]],
    [["fee", ["affine", F(1), F(0)]], ["fee", ["affine", F(1), F(1)]], ["fee", ["affine", F(1), F(1, 8)]]],
    [["c0", ["cap", F(1, 64)]], ["c1", ["affine", F(1), F(1)]], ["c0", ["floor", F(9, 64)]]],            # position kept: floor, then + 1
    [["c0", ["affine", F(2), F(1, 8)]], ["c1", ["cap", F(17, 64)]], ["c0", ["affine", F(1), F(1, 4)]], ["c2", ["affine", F(1), F(-1, 4)]]],
    [["c0", ["cap", F(1, 32)]], ["c1", ["affine", F(1), F(1, 4)]], ["c1", ["affine", F(1), F(-1, 2)]], ["c0", ["cap", F(1, 64)]]],
    [["c0", ["affine", F(1), F(1, 2)]], ["c0", ["affine", F(1), F(1, 2)]], ["c0", ["affine", F(1), F(3, 4)]]],
]


# two or more NON-COMMUTING clauses registered under names whose alphabetical order differs from the order of registration (the way contractual
# terms are named: "knockout" first, then "bonus"; "c9" before "c10").  Clauses modify the payoff one after another in the order in which they
# were added, whatever they are called.  Fixed corpus (every run), with (deriv, strike) such that the order matters on every path:
_HP_ORDERED = [
    ("european", 0.9, [["knockout-cap", ["cap", F(1, 64)]], ["bonus", ["affine", F(1), F(1, 4)]]]),          # min(p, 1/64) + 1/4, not min(p + 1/4, 1/64)
    ("european", 1.1, [["scale", ["affine", F(2), F(1, 8)]], ["floor", ["floor", F(9, 64)]]]),               # max(2p + 1/8, 9/64), not 2 max(p, 9/64) + 1/8
    ("european", 1.0, [["z", ["cap", F(1, 32)]], ["m", ["affine", F(1), F(-1, 2)]], ["a", ["affine", F(1, 2), F(0)]]]),
    ("european_put", 1.1, [["c9", ["cap", F(1, 64)]], ["c10", ["affine", F(1), F(1)]]]),
    ("lookback", 0.9, [["rebate-floor", ["floor", F(9, 64)]], ["fee", ["affine", F(1), F(-1, 4)]], ["Cap", ["cap", F(1, 128)]]]),
    ("european", 0.9, [["knockout-cap", ["cap", F(1, 64)]], ["bonus", ["affine", F(1), F(1, 4)]], ["a-last", ["affine", F(1), F(-1, 2)]]]),
]
_HP_ORDER_NAMES = ["knockout", "bonus", "cap", "fee", "rebate", "zero-floor", "a", "B", "c9", "c10", "c11", "Z", "scale", "_x", "2nd"]


def gen_ordered(g, it, c):
    """clause registrations under distinct names that are NOT in alphabetical order; non-commuting neighbours (cap / floor next to affine)"""
    if it < len(_HP_ORDERED):
        c["deriv"], c["strike"], adds = _HP_ORDERED[it]
        c["n_paths"] = max(c["n_paths"], 5)
        return [[n, list(cl)] for n, cl in adds]
    n = g.choice([2, 2, 3, 4])
    names = []
    while len(names) < n:
        nm = g.choice(_HP_ORDER_NAMES)
        if nm not in names:
            names.append(nm)
    if names == sorted(names):
        names.reverse()
    clamp = [cl for cl in _HP_REG_POOL if cl[0] != "affine"]
    aff = [cl for cl in _HP_REG_POOL if cl[0] == "affine" and cl != ["affine", F(1, 2), F(0)]]
    first = g.chance(0.5)
    return [[nm, g.choice(clamp if (i % 2 == 0) == first else aff)] for i, nm in enumerate(names)]


def _apply_hp_clauses(z, clauses):
    for cl in clauses:
        z = z.clamp(max=float(cl[1])) if cl[0] == "cap" else z.clamp(min=float(cl[1])) if cl[0] == "floor" else float(cl[1]) * z + float(cl[2])
    return z


def gen_reregistered(g, it):
    """a sequence of clause registrations in which at least one name is registered again with a different clause"""
    if it < len(_HP_REREGISTERED):
        return [[n, list(cl)] for n, cl in _HP_REREGISTERED[it]]
    n_names = g.choice([1, 1, 2, 3])
    adds = [[f"c{i}", g.choice(_HP_REG_POOL)] for i in range(n_names)]
    for _ in range(g.choice([1, 1, 2, 3])):
        name = f"c{g.randint(0, n_names - 1)}"
        current = [cl for n, cl in adds if n == name][-1]
        adds.append([name, g.choice([cl for cl in _HP_REG_POOL if cl != current])])
        if g.chance(0.3):       # a new name registered between / after the updates
            adds.append([f"c{n_names}", g.choice(_HP_REG_POOL)])
            n_names += 1
    return adds


def gen_hedger_price(g, tier):
    """one Hedger.price scenario; everything the composed model needs except the simulated buffers"""
    which = g.weighted([("es", 3), ("erm", 2), ("eloss", 2)])
    nh = g.choice([1, 1, 2, 2, 3])
    hedges = [dict(kind="primary", cost=F(g.choice([0, 1, 2, 3, 8]), 512))]
    for _ in range(nh - 1):
        hedges.append(dict(kind=g.choice(["primary", "listed", "listed", "self"]), cost=F(g.choice([0, 1, 2, 3, 8]), 512),
                           a=g.choice([F(1), F(2), F(1, 2)]), b=g.choice([F(0), F(1), F(-1, 4)])))
    model = g.weighted([("linear", 3), ("relu", 2), ("prev", 3), ("naked", 0.5), ("badwidth", 0.4)])
    nin = 1 + nh if model == "prev" else 2
    nout = nh + 1 if model == "badwidth" else nh
    c = dict(which=which, param=g.choice([0.5, 1.0, 2.0]) if which != "es" else g.choice([0.1, 0.3, 0.5, 1.0]),
             hedges=hedges, model=model, w=[[g.choice(_HP_W) for _ in range(nin)] for _ in range(nout)],
             b=[g.choice([F(0), F(1, 2), F(-1, 4), F(1, 8)]) for _ in range(nout)],
             log=(which != "es" and g.chance(0.3)),
             deriv=g.choice(["european", "european", "european_put", "lookback"]), strike=g.choice([0.9, 1.0, 1.0, 1.1]),
             steps=g.choice([2, 3, 5]), sigma=g.choice([0.2, 0.3, 0.6]), clauses=g.choice(_HP_CLAUSES),
             n_paths=g.choice([1, 2, 3, 5, 8, 20] if tier == "quick" else [1, 2, 3, 5, 8, 20, 50]),
             n_times=g.choice([1, 1, 2, 3]), seed=g.randint(0, 10 ** 6))
    c["adds"] = [[f"c{i}", cl] for i, cl in enumerate(c["clauses"])]      # the sequence of add_clause(name, clause) calls
    return c


def build_hedger_price(torch, nn, c):
    """the real objects: (hedger, derivative, hedge list, the derivative's underlier, [other underliers by hedge index])"""
    from pfhedge.instruments import BrownianStock, EuropeanOption, LookbackOption
    from pfhedge.nn import Hedger, Naked
    dt = torch.float64
    stock = BrownianStock(cost=float(c["hedges"][0]["cost"]), sigma=c["sigma"], dtype=dt)
    mat = c["steps"] / 250
    if c["deriv"] == "lookback":
        deriv = LookbackOption(stock, strike=c["strike"], maturity=mat)
    else:
        deriv = EuropeanOption(stock, call=(c["deriv"] == "european"), strike=c["strike"], maturity=mat)
    for name, cl in c["adds"]:
        if cl[0] == "cap":
            deriv.add_clause(name, lambda d, p, v=float(cl[1]): p.clamp(max=v))
        elif cl[0] == "floor":
            deriv.add_clause(name, lambda d, p, v=float(cl[1]): p.clamp(min=v))
        else:
            deriv.add_clause(name, lambda d, p, a=float(cl[1]), b=float(cl[2]): a * p + b)
    hedge, others = [stock], {}
    for i, h in enumerate(c["hedges"][1:], start=1):
        if h["kind"] == "primary":
            s = BrownianStock(cost=float(h["cost"]), sigma=0.25, dtype=dt)
            others[i] = s
            hedge.append(s)
        else:
            s = stock if h["kind"] == "self" else BrownianStock(sigma=0.25, dtype=dt)
            if h["kind"] == "listed":
                others[i] = s
            o = EuropeanOption(s, maturity=mat)
            o.list(lambda d, a=float(h["a"]), b=float(h["b"]): d.ul().spot * a + b, cost=float(h["cost"]))
            hedge.append(o)
    crit = {"es": nn.ExpectedShortfall, "erm": nn.EntropicRiskMeasure, "eloss": nn.EntropicLoss}[c["which"]](c["param"])
    nh = len(hedge)
    if c["model"] == "naked":
        model, inputs = Naked(nh), ["moneyness"]
    else:
        inputs = ["log_moneyness" if c["log"] else "moneyness", "prev_hedge" if c["model"] == "prev" else "time_to_maturity"]
        lin = torch.nn.Linear(len(c["w"][0]), len(c["w"]), dtype=dt)
        with torch.no_grad():
            lin.weight.copy_(torch.tensor([[float(x) for x in r] for r in c["w"]], dtype=dt))
            lin.bias.copy_(torch.tensor([float(x) for x in c["b"]], dtype=dt))
        model = torch.nn.Sequential(lin, torch.nn.ReLU()) if c["model"] == "relu" else lin
    cls = Hedger
    if c.get("subclass"):
        fee = float(c["subclass"]["fee"])

        class FeeHedger(Hedger):        # a user subclass that defines its own hedge portfolio: the library's one minus a flat fee
            def compute_portfolio(self, derivative, hedge=None):
                return super().compute_portfolio(derivative, hedge) - fee
        cls = FeeHedger
    c["_inputs"] = inputs
    return cls(model, inputs, criterion=crit), deriv, hedge, stock, others


def hedger_price_req(c, k, dt_, und_batches, other_rows):
    """the whole scenario for the Lean op "hedger_price" (model `hedgerPriceN` / `hedgerLossN`): the simulated buffers (exact values of the
    float64 entries) and the harness's own description of module, features, instruments, cost rates, payoff and clauses"""
    rat = c["which"] == "es"
    num = (lambda x: rat_str(F(x))) if rat else (lambda x: float_bits(float(x)))
    nums = lambda xs: [num(x) for x in xs]
    nh = len(c["hedges"])
    if c["model"] == "naked":
        feats, model = [["moneyness", False]], {"kind": "naked", "h": nh}
    else:
        feats = [["moneyness", bool(c["log"])], ["prev_hedge"] if c["model"] == "prev" else ["time_to_maturity"]]
        model = {"kind": "linear", "w": [nums(r) for r in c["w"]], "b": nums(c["b"]), "relu": c["model"] == "relu"}
    batches = []
    for und in und_batches:
        paths = []
        for n, row in enumerate(und):
            hs = [{"kind": "primary", "row": nums(row), "cost": num(c["hedges"][0]["cost"])}]
            for i, h in enumerate(c["hedges"][1:], start=1):
                if h["kind"] == "primary":
                    hs.append({"kind": "primary", "row": nums(other_rows[i][n]), "cost": num(h["cost"])})
                else:
                    hs.append({"kind": "listed", "a": num(h["a"]), "b": num(h["b"]), "cost": num(h["cost"]),
                               "row": nums(row if h["kind"] == "self" else other_rows[i][n])})
            market = {"spot": nums(row), "variance": [], "volatility": [], "listed": [], "dt": num(dt_), "strike": num(c["strike"]),
                      "oracle": []}
            paths.append({"market": market, "hedges": hs})
        batches.append(paths)
    payoff = {"kind": "lookback" if c["deriv"] == "lookback" else "european", "call": c["deriv"] != "european_put", "strike": num(c["strike"])}
    adds = [[name, [cl[0]] + nums(cl[1:])] for name, cl in c["adds"]]
    if c.get("subclass"):
        # the subclass's hedge portfolio is the library's minus a flat fee: (portfolio - fee) - payoff is the P&L of the library's hedger
        # against the payoff with a last clause "+ fee"
        adds.append(["hedger subclass fee", ["affine"] + nums([F(1), c["subclass"]["fee"]])])
    return {"op": "hedger_price", "carrier": "rat" if rat else "float",
            "criterion": ["es", k] if rat else [c["which"], num(c["param"])],
            "features": feats, "model": model, "payoff": payoff, "adds": adds, "first": True, "batches": batches}


def _small_hp(c):
    d = {k: c[k] for k in ("which", "param", "model", "log", "deriv", "strike", "steps", "sigma", "n_paths", "n_times", "seed")}
    d["hedges"] = [{k: (rat_str(v) if isinstance(v, F) else v) for k, v in h.items()} for h in c["hedges"]]
    d["w"], d["b"] = enc_rat(c["w"]), enc_rat(c["b"])
    d["clauses"] = [[cl[0]] + enc_rat(cl[1:]) for cl in c["clauses"]]
    if c.get("reregistered") or c.get("ordered"):
        d["add_clause_calls"] = [[name, [cl[0]] + enc_rat(cl[1:])] for name, cl in c["adds"]]
    if c.get("subclass"):
        d["hedger_subclass"] = "compute_portfolio = Hedger.compute_portfolio - (" + rat_str(c["subclass"]["fee"]) + ")"
    return d


def hedger_price_section(ctx, torch, nn):
    """Hedger.price / Hedger.compute_loss against the composed model: the harness freezes the torch seed, lets the Hedger simulate and price,
    re-creates the same simulations under the same seed to read the market of every batch, and sends those buffers with its own description
    of the hedger to the model.  Expected shortfall: exact rational value of the model on the exact values of the float64 buffers (only the
    implementation's own arithmetic rounds); entropic criteria: IEEE double replica."""
    from pfhedge.nn import Hedger as _Hedger
    g = ctx.gen
    dt = torch.float64
    reqs, metas = [], []
    n_gen = 48 if ctx.tier == "quick" else 480
    n_rereg = 12 if ctx.tier == "quick" else 80
    n_sub = 12 if ctx.tier == "quick" else 80
    n_ord = 12 if ctx.tier == "quick" else 80
    for it in range(n_gen + n_rereg + n_sub + n_ord):
        c = gen_hedger_price(g, ctx.tier)
        if it >= n_gen + n_rereg + n_sub:
            # non-commuting clauses registered under names in non-alphabetical order
            c["adds"] = gen_ordered(g, it - n_gen - n_rereg - n_sub, c)
            c["ordered"] = True
            c["clauses"] = [cl for _, cl in c["adds"]]
            if it - n_gen - n_rereg - n_sub < len(_HP_ORDERED):      # every criterion on every run
                c["which"] = ["es", "erm", "eloss"][(it - n_gen - n_rereg - n_sub) % 3]
                c["param"] = 0.5 if c["which"] == "es" else 1.0
                c["log"] = c["log"] and c["which"] != "es"
            if c["model"] == "badwidth":
                c["model"], c["w"], c["b"] = "linear", c["w"][:-1], c["b"][:-1]
        elif it >= n_gen + n_rereg:
            # a user SUBCLASS of Hedger that overrides compute_portfolio (the library's portfolio minus a flat fee): price and loss are
            # defined through the subclass's hedge portfolio; the model sees the fee as a last "+ fee" clause of the payoff
            c["subclass"] = {"fee": g.choice([F(1, 4), F(-1, 8), F(1, 2), F(3, 64), F(-1)])}
            if it - n_gen - n_rereg < 3:        # every criterion, with a module that can be evaluated, on every run
                c["which"] = ["es", "erm", "eloss"][it - n_gen - n_rereg]
                c["param"] = 0.5 if c["which"] == "es" else 1.0
                c["log"] = c["log"] and c["which"] != "es"
                if c["model"] == "badwidth":
                    c["model"], c["w"], c["b"] = "linear", c["w"][:-1], c["b"][:-1]
        elif it >= n_gen:         # clauses re-registered under an existing name before pricing
            c["adds"] = gen_reregistered(g, it - n_gen)
            c["reregistered"] = True
            reg = {}
            for name, cl in c["adds"]:
                reg[name] = cl
            c["clauses"] = list(reg.values())       # the clauses in force, in registry order
            if c["model"] == "badwidth":
                c["model"], c["w"], c["b"] = "linear", c["w"][:-1], c["b"][:-1]
        small = _small_hp(c)
        try:
            hedger, deriv, hedge, stock, others = build_hedger_price(torch, nn, c)
            # instruments that the derivative does not simulate keep the paths they are given here, for every batch
            torch.manual_seed(c["seed"] + 1)
            for s in others.values():
                s.simulate(n_paths=c["n_paths"], time_horizon=deriv.maturity)
            other_rows = {i: tensor_to_fracs(s.spot) for i, s in others.items()}
        except Exception as e:  # noqa  (constructing the scenario is harness code)
            raise InternalError("cannot build Hedger.price scenario: " + repr(e))
        N, nt = c["n_paths"], c["n_times"]
        if c["which"] == "es":
            pn = F(c["param"]) * N
            if abs(pn - round(pn)) <= F(1, 10 ** 9) and pn != round(pn):
                ctx.stats["hedger_price:skipped_ceil_ambiguous"] += 1
                continue
        k = math.ceil(c["param"] * N) if c["which"] == "es" else None
        torch.manual_seed(c["seed"])
        st_p, price, _ = call_impl(hedger.price, deriv, hedge=hedge, n_paths=N, n_times=nt)
        torch.manual_seed(c["seed"])
        st_l, loss, _ = call_impl(hedger.compute_loss, deriv, hedge=hedge, n_paths=N, n_times=nt, enable_grad=False)
        # the same simulations once more, to read the market of every batch
        torch.manual_seed(c["seed"])
        und_batches, by_hand, by_hand_lib, by_hand_sw, payoff_bad, order_matters = [], [], [], [], None, False
        for _ in range(nt):
            deriv.simulate(n_paths=N)
            und_batches.append(tensor_to_fracs(stock.spot))
            if st_p == "ok":
                # the property on the real code, for every scenario: minus the cash amount of (portfolio - payoff) on these paths, the
                # hedger being evaluated once more
                with torch.no_grad():
                    st_h, pf, _ = call_impl(hedger.compute_portfolio, deriv, hedge)
                    if st_h == "ok":
                        by_hand_lib.append(float(-hedger.criterion.cash(pf - deriv.payoff())))
                    if c["model"] != "badwidth":
                        # ... and with the hedge portfolio built by the harness from the module's own outputs, step by step
                        pf_sw = stepwise_portfolio(torch, _Hedger, nn, hedger.model, c["_inputs"], deriv, hedge)
                        if c.get("subclass"):
                            pf_sw = pf_sw - float(c["subclass"]["fee"])
                        by_hand_sw.append(float(-hedger.criterion.cash(pf_sw - deriv.payoff())))
            if c.get("ordered"):
                with torch.no_grad():
                    by_name = [cl for _, cl in sorted(c["adds"], key=lambda nc: nc[0])]
                    if not torch.equal(_apply_hp_clauses(deriv.payoff_fn(), c["clauses"]), _apply_hp_clauses(deriv.payoff_fn(), by_name)):
                        order_matters = True
            if (c.get("reregistered") or c.get("ordered")) and st_p == "ok":
                # the contractual payoff written out: payoff_fn() through the clauses IN FORCE (the last registration of every name, at
                # the position of the name's first registration)
                with torch.no_grad():
                    z = deriv.payoff_fn()
                    for cl in c["clauses"]:
                        z = z.clamp(max=float(cl[1])) if cl[0] == "cap" else z.clamp(min=float(cl[1])) if cl[0] == "floor" \
                            else float(cl[1]) * z + float(cl[2])
                    st_h, pf, _ = call_impl(hedger.compute_portfolio, deriv, hedge)
                    if st_h == "ok":
                        by_hand.append(float(-hedger.criterion.cash(pf - z)))
                    if payoff_bad is None and not torch.equal(deriv.payoff(), z):
                        payoff_bad = {"payoff()": deriv.payoff().tolist(), "payoff_fn() through the clauses in force": z.tolist()}
        generic_ok = True
        sub = "subclass:" if c.get("subclass") else ""
        sub_txt = " (a user subclass of Hedger that overrides compute_portfolio)" if sub else ""
        if st_p == "ok" and st_l == "ok" and c["which"] == "erm" and not abs(float(price) - float(loss)) <= 1e-9 * max(1.0, abs(float(price))):
            # price and loss were asked for with the SAME hedge argument under the same seed
            ctx.fail("for the entropic risk measure Hedger.price differs from Hedger.compute_loss on the same simulated paths with the same hedging "
                     "instruments" + sub_txt, small, key=f"price:erm:{sub}scenario:loss", detail={"price": float(price), "loss": float(loss)})
        if (st_p == "ok") != (st_l == "ok"):
            ctx.fail("Hedger.price and Hedger.compute_loss, asked with the same hedging instruments under the same seed, do not both succeed / both fail",
                     small, key=f"price:{c['which']}:{sub}scenario:loss-error", detail={"price": str(price)[:200], "loss": str(loss)[:200]})
        if st_p == "ok" and len(by_hand_lib) == nt:
            exp = sum(by_hand_lib) / nt
            if not abs(float(price) - exp) <= 1e-9 * max(1.0, abs(exp)):
                generic_ok = False
                ctx.fail("Hedger.price differs from minus the cash amount of (the hedger's compute_portfolio - payoff) evaluated afterwards on the same "
                         "simulated paths (several hedging instruments, prev_hedge / ReLU / Naked modules, clauses)" + sub_txt, small,
                         key=f"price:{c['which']}:{sub}scenario:value", detail={"price": float(price), "expected": exp})
        if st_p == "ok" and len(by_hand_sw) == nt:
            exp = sum(by_hand_sw) / nt
            if not abs(float(price) - exp) <= 1e-9 * max(1.0, abs(exp)):
                ctx.fail("Hedger.price differs from minus the cash amount of (hedge portfolio - payoff) on the simulated paths, the hedge portfolio "
                         "being built from the module's own outputs (the module evaluated step by step on the features of each step, instrument h "
                         "holding output h, gains minus proportional costs summed over instruments and steps)" + sub_txt, small,
                         key=f"price:{c['which']}:{sub}scenario:stepwise", detail={"price": float(price), "expected": exp, "H": len(hedge)})
        if c.get("reregistered") and st_p == "ok":
            if payoff_bad is not None:
                ctx.fail("after a clause was registered again under an existing name, payoff() is not payoff_fn() passed through the clauses in "
                         "force (the price is quoted for a payoff that is no longer the contractual one)", small,
                         key="price:reregistered-clause:payoff", detail=payoff_bad)
            if len(by_hand) == nt and generic_ok:
                exp = sum(by_hand) / nt
                if not abs(float(price) - exp) <= 1e-9 * max(1.0, abs(exp)):
                    ctx.fail("after a clause was registered again under an existing name, Hedger.price differs from minus the cash amount of "
                             "(portfolio - payoff under the clauses in force) on the simulated paths", small,
                             key=f"price:{c['which']}:reregistered-clause:value", detail={"price": float(price), "expected": exp})
        if c.get("ordered") and st_p == "ok":
            if payoff_bad is not None:
                ctx.fail("clauses registered under names that are not in alphabetical order: payoff() is not payoff_fn() passed through the "
                         "clauses in the order in which they were added (the price is quoted for a payoff that is not the contractual one)", small,
                         key="price:clause-order:scenario:payoff", detail=payoff_bad)
            if len(by_hand) == nt:
                exp = sum(by_hand) / nt
                if not abs(float(price) - exp) <= 1e-9 * max(1.0, abs(exp)):
                    ctx.fail("clauses registered under names that are not in alphabetical order: Hedger.price differs from minus the cash amount "
                             "of (portfolio - contractual payoff) on the simulated paths, the contractual payoff being payoff_fn() passed by hand "
                             "through the clauses in the order of registration", small,
                             key=f"price:{c['which']}:clause-order:scenario:value", detail={"price": float(price), "expected": exp})
        for i, s in others.items():
            if tensor_to_fracs(s.spot) != other_rows[i]:
                raise InternalError("a hedging instrument that the derivative does not simulate changed its paths")
        if c.get("ordered"):
            ctx.stats[f"hedger_price:ordered:{'order-matters' if order_matters else 'order-immaterial-on-these-paths'}"] += 1
        ctx.case(small, c["model"] != "badwidth" and (order_matters or not c.get("ordered")),
                 tag="hedger_price:reregistered_clause" if c.get("reregistered") else
                 "hedger_price:subclass" if c.get("subclass") else "hedger_price:clause_order" if c.get("ordered") else "hedger_price")
        ctx.traces += 1
        for kk in ("which", "model", "deriv"):
            ctx.stats[f"hedger_price:{kk}={c[kk]}"] += 1
        ctx.stats[f"hedger_price:H={len(hedge)}"] += 1
        ctx.stats[f"hedger_price:n_times={nt}"] += 1
        ctx.stats[f"hedger_price:clauses={'+'.join(cl[0] for cl in c['clauses']) or 'none'}"] += 1
        reqs.append(hedger_price_req(c, k, F(stock.dt), und_batches, other_rows))
        metas.append((c, small, (st_p, float(price) if st_p == "ok" else price), (st_l, float(loss) if st_l == "ok" else loss)))
    try:
        outs = ctx.driver(reqs)
    except DriverBroken as e:
        ctx.ties_broken.append({"kind": "driver", "detail": str(e)[:1500]})
        return
    for (c, small, ip, il), mo in zip(metas, outs):
        if not isinstance(mo, dict) or "price" not in mo:
            ctx.disagree("hedger_price", small, {"price": ip, "loss": il}, mo)
            continue
        rat = c["which"] == "es"
        dec = (lambda v: F(v)) if rat else float_of_bits
        # expected shortfall: the model value is exact; the implementation rounds in the features, the hedge, the P&L sums and the mean of the
        # k worst outcomes: a few dozen operations on numbers of size <= ~4.  Entropic: the tolerance this file applies to the "erm" op.
        tol = 1e-13 if rat else 1e-10
        bad = []
        for name, (st, v) in (("price", ip), ("loss", il)):
            m = mo[name]
            if st == "ok":
                if "ok" not in m:
                    bad.append(name)
                    continue
                mv = float(dec(m["ok"]))
                if not (abs(v - mv) <= tol * max(1.0, abs(mv))):
                    bad.append(name)
            elif m.get("err") != v:
                bad.append(name)
        ctx.stats["hedger_price_compared"] += 1
        if bad:
            ctx.stats["hedger_price_disagreements"] += 1
            show = lambda m: (str(float(dec(m["ok"]))) if "ok" in m else m)
            ctx.disagree("hedger_price", small | {"differs": bad}, {"price": ip, "loss": il},
                         {"price": show(mo["price"]), "loss": show(mo["loss"]), "per_batch_prices": [show(x) for x in mo["prices"]],
                          "per_batch_losses": [show(x) for x in mo["losses"]]},
                         note="composed model hedgerPriceN / hedgerLossN (paths -> hedgerPL -> criterion / -cash -> ensemble mean) on the buffers "
                              "simulated under the scenario's seed")


# ---- user SUBCLASSES of Hedger ---------------------------------------------------------------------------------------------------

_SUB_KINDS = ["financed", "rebate", "own-book", "net-pl", "both", "capped"]


def make_hedger_subclass(torch, Hedger, kind, par):
    """a user subclass of Hedger of the given kind, and the function (spot (N, T), units (N, T), cost rate, library wealth (N)) -> (N) that
    writes out the terminal value of ITS hedge portfolio for one hedging instrument.
    financed: compute_portfolio = the library's minus the financing of the position held (rate * dt * sum_t |units_t| spot_t)
    rebate:   compute_portfolio = the library's plus a flat amount
    own-book: compute_portfolio written from scratch (no super()): trading gains minus a flat charge per unit of turnover
    net-pl:   compute_pl only (a performance fee on the P&L reported by compute_pl); the hedge portfolio is the library's
    both:     compute_portfolio (minus a flat fee) and compute_pl (through that portfolio) overridden consistently
    capped:   compute_hedge overridden (position limits); the portfolio is the library's for the capped position"""
    if kind == "financed":
        class Financed(Hedger):
            def compute_portfolio(self, derivative, hedge=None):
                portfolio = super().compute_portfolio(derivative, hedge)
                hedge = hedge or [derivative.ul()]
                spot = torch.stack([h.spot for h in hedge], dim=1)
                unit = self.compute_hedge(derivative, hedge=hedge)
                return portfolio - par * derivative.ul().dt * (unit.abs() * spot).sum(dim=(-2, -1))
        return Financed, lambda s_, u_, cost, w, dt_: w - par * dt_ * (u_.abs() * s_).sum(-1)
    if kind == "rebate":
        class Rebate(Hedger):
            def compute_portfolio(self, derivative, hedge=None):
                return super().compute_portfolio(derivative, hedge) + par
        return Rebate, lambda s_, u_, cost, w, dt_: w + par
    if kind == "own-book":
        class OwnBook(Hedger):
            def compute_portfolio(self, derivative, hedge=None):
                hedge = hedge or [derivative.ul()]
                spot = torch.stack([h.spot for h in hedge], dim=1)
                unit = self.compute_hedge(derivative, hedge=hedge)
                gains = (unit[..., :-1] * spot.diff(dim=-1)).sum(dim=(-2, -1))
                turnover = unit[..., 0].abs().sum(-1) + unit.diff(dim=-1).abs().sum(dim=(-2, -1))
                return gains - par * turnover
        return OwnBook, lambda s_, u_, cost, w, dt_: (u_[:, :-1] * (s_[:, 1:] - s_[:, :-1])).sum(-1) - par * (u_[:, 0].abs() + (u_[:, 1:] - u_[:, :-1]).abs().sum(-1))
    if kind == "net-pl":
        class NetPL(Hedger):
            def compute_pl(self, derivative, hedge=None):
                return (1.0 - par) * super().compute_pl(derivative, hedge) - par
        return NetPL, lambda s_, u_, cost, w, dt_: w
    if kind == "both":
        class Both(Hedger):
            def compute_portfolio(self, derivative, hedge=None):
                return super().compute_portfolio(derivative, hedge) - par

            def compute_pl(self, derivative, hedge=None):
                return self.compute_portfolio(derivative, hedge) - derivative.payoff()
        return Both, lambda s_, u_, cost, w, dt_: w - par

    class Capped(Hedger):
        def compute_hedge(self, derivative, hedge=None):
            return super().compute_hedge(derivative, hedge=hedge).clamp(min=-par, max=par)
    return Capped, lambda s_, u_, cost, w, dt_: w


def hedger_subclass_section(ctx, torch, nn):
    """Hedger.price / Hedger.compute_loss of user SUBCLASSES of Hedger.  compute_portfolio is documented as the terminal value of the hedging
    portfolio, so a subclass that overrides it (financing charge, rebate, its own book-keeping), or that overrides compute_hedge, defines the
    hedge portfolio the statement speaks of: the price is minus the cash amount of (self.compute_portfolio - payoff) on the simulated paths
    (also with the subclass's portfolio written out by the harness), a constant added to the payoff raises it by that constant, and for the
    entropic risk measure it equals compute_loss.  A subclass that overrides compute_pl only has the library's hedge portfolio: the same three
    statements hold with that portfolio.  Every (kind of subclass, criterion) pair runs on every tier."""
    from pfhedge.instruments import BrownianStock, EuropeanOption, LookbackOption
    from pfhedge.nn import Hedger
    g = ctx.gen
    dt = torch.float64
    todo = [(kind, which) for kind in _SUB_KINDS for which in ("erm", "es", "eloss", "qcvar", "iso")]
    for _ in range(6 if ctx.tier == "quick" else 200):
        todo.append((g.choice(_SUB_KINDS), g.choice(["erm", "erm", "es", "eloss", "qcvar", "iso"])))
    for kind, which in todo:
        crit = {"erm": nn.EntropicRiskMeasure(g.choice([0.5, 1.0, 2.0])), "es": nn.ExpectedShortfall(g.choice([0.1, 0.5, 1.0])),
                "eloss": nn.EntropicLoss(g.choice([1.0, 1.5])), "qcvar": nn.QuadraticCVaR(g.choice([1.0, 10.0])), "iso": nn.IsoelasticLoss(0.5)}[which]
        cost_rate = g.choice([0.0, 1e-3, 2.0 ** -9, 2.0 ** -6])
        stock = BrownianStock(cost=cost_rate, sigma=0.3, dtype=dt)
        deriv = g.choice([EuropeanOption, LookbackOption])(stock, strike=g.choice([0.9, 1.0]), maturity=g.choice([3, 5]) / 250)
        par = {"financed": g.choice([0.5, 2.0, 0.05]), "rebate": g.choice([0.25, -0.5, 0.125]), "own-book": g.choice([2.0 ** -6, 0.0, 1e-2]),
               "net-pl": g.choice([0.25, 0.5]), "both": g.choice([0.25, -0.125, 1.0]), "capped": g.choice([0.25, 0.5, 0.05])}[kind]
        cls, written_out = make_hedger_subclass(torch, Hedger, kind, par)
        model_kind = g.choice(["linear", "bs"])
        if model_kind == "bs":
            bs = nn.BlackScholes(deriv).to(dt)
            hedger = cls(bs, bs.inputs(), criterion=crit)
        else:
            lin = torch.nn.Linear(2, 1, dtype=dt)
            with torch.no_grad():
                lin.weight.copy_(torch.tensor([[g.choice([0.5, -0.5, 1.0]), 0.25]], dtype=dt))
                lin.bias.copy_(torch.tensor([0.1], dtype=dt))
            hedger = cls(lin, ["moneyness", "time_to_maturity"], criterion=crit)
        n_paths, n_times = g.choice([1, 5, 50]), g.choice([1, 1, 2, 3])
        hedge = g.choice([None, [stock]])
        seed = g.randint(0, 10 ** 6)
        k_shift = g.choice([0.25, 1.0, -0.5])
        case = {"hedger_subclass": kind, "subclass_parameter": par, "criterion": which, "criterion_parameter": repr(crit), "n_paths": n_paths,
                "n_times": n_times, "seed": seed, "derivative": type(deriv).__name__, "strike": deriv.strike, "maturity": deriv.maturity,
                "cost": cost_rate, "model": model_kind, "hedge_argument": "None" if hedge is None else "[underlier]", "k": k_shift}
        if which == "iso":
            deriv.add_clause("pos", lambda d, p: p - 3.0)          # keep portfolio - payoff positive for the isoelastic utility
        ctx.case(case, True, tag=f"price:subclass:{kind}")
        ctx.stats[f"price:subclass:{which}"] += 1
        ctx.traces += 1
        torch.manual_seed(seed)
        st, price, _ = call_impl(hedger.price, deriv, hedge=hedge, n_paths=n_paths, n_times=n_times)
        torch.manual_seed(seed)
        stl, loss, _ = call_impl(hedger.compute_loss, deriv, hedge=hedge, n_paths=n_paths, n_times=n_times, enable_grad=False)
        if st != "ok" or stl != "ok":
            ctx.fail("Hedger.price / Hedger.compute_loss of a user subclass of Hedger raised", case, key=f"price:{which}:subclass:error",
                     detail=[price if st != "ok" else "ok", loss if stl != "ok" else "ok"])
            continue
        # the same paths, by hand
        torch.manual_seed(seed)
        vals, vals_w, losses = [], [], []
        with torch.no_grad():
            for _ in range(n_times):
                deriv.simulate(n_paths=n_paths)
                z = deriv.payoff()
                pf = hedger.compute_portfolio(deriv, hedge)
                vals.append(float(-crit.cash(pf - z)))
                losses.append(float(crit(pf - z)))
                # the library's wealth written out (gains of the hedge held minus proportional costs at the instrument's rate), then the
                # subclass's own terms on top of it
                s_, u_ = stock.spot, hedger.compute_hedge(deriv, hedge)[:, 0, :]
                wealth = torch.zeros(n_paths, dtype=dt) - stock.cost * s_[:, 0] * u_[:, 0].abs()
                for t_ in range(s_.size(1) - 1):
                    wealth = wealth + u_[:, t_] * (s_[:, t_ + 1] - s_[:, t_]) - stock.cost * s_[:, t_ + 1] * (u_[:, t_ + 1] - u_[:, t_]).abs()
                vals_w.append(float(-crit.cash(written_out(s_, u_, stock.cost, wealth, stock.dt) - z)))
        exp, exp_w, exp_l = sum(vals) / n_times, sum(vals_w) / n_times, sum(losses) / n_times
        tolw = 1e-9 if which in ("erm", "es", "eloss") else 2e-5
        if abs(float(price) - exp) > 1e-9 * max(1.0, abs(exp)):
            ctx.fail("the price quoted by a user subclass of Hedger differs from minus the cash amount of (its compute_portfolio - payoff) on the "
                     "simulated paths", case, key=f"price:{which}:subclass:value", detail={"price": float(price), "expected": exp})
        if abs(float(price) - exp_w) > tolw * max(1.0, abs(exp_w)):
            ctx.fail("the price quoted by a user subclass of Hedger differs from minus the cash amount of (its hedge portfolio written out - payoff) "
                     "on the simulated paths", case, key=f"price:{which}:subclass:written-out", detail={"price": float(price), "expected": exp_w})
        if abs(float(loss) - exp_l) > 1e-9 * max(1.0, abs(exp_l)):
            ctx.fail("compute_loss of a user subclass of Hedger differs from the criterion of (its compute_portfolio - payoff) on the simulated paths",
                     case, key=f"loss:{which}:subclass:value", detail={"loss": float(loss), "expected": exp_l})
        if which == "erm" and abs(float(price) - float(loss)) > 1e-9 * max(1.0, abs(exp)):
            ctx.fail("for the entropic risk measure the price quoted by a user subclass of Hedger differs from its compute_loss on the same paths",
                     case, key="price:erm:subclass:loss", detail={"price": float(price), "loss": float(loss)})
        if which != "iso":
            deriv.add_clause("shift", lambda d, p, k=k_shift: p + k)
            torch.manual_seed(seed)
            st2, price2, _ = call_impl(hedger.price, deriv, hedge=hedge, n_paths=n_paths, n_times=n_times)
            if st2 != "ok" or abs(float(price2) - (float(price) + k_shift)) > tolw * max(1.0, abs(exp)):
                ctx.fail("adding a constant k to the payoff does not raise the price quoted by a user subclass of Hedger by exactly k", case,
                         key=f"price:{which}:subclass:shift", detail={"price": float(price), "price_shifted": float(price2) if st2 == "ok" else price2})


# ---- the hedge portfolio built step by step from the MODULE's own outputs -----------------------------------------------------------

def stepwise_portfolio(torch, Hedger, nn, model, inputs, deriv, hedge):
    """terminal value (N,) of the hedge portfolio, without Hedger.compute_hedge / compute_portfolio / functional.pl: the module is evaluated by
    the harness one time step after the other on the features of that step (state-independent ones read with Hedger.get_input(derivative, i)
    of a probe hedger, "prev_hedge" = the module's previous output, zero before the first step), instrument h holds output[..., h] over
    [t_i, t_i+1], the wealth is sum_h sum_i unit_h,i (S_h,i+1 - S_h,i) minus the proportional cost c_h S_h,i |unit_h,i - unit_h,i-1| of every
    change of the position (the position is kept over the last step)"""
    si = [f for f in inputs if f != "prev_hedge"]
    probe = Hedger(nn.Naked(), si)            # only to read the features of one time step
    spots = [h.spot for h in hedge]
    N, T = spots[0].shape
    prev_u = spots[0].new_zeros((N, 1, len(hedge)))
    units = []
    for i in range(T - 1):
        x_si = probe.get_input(deriv, i)      # (N, 1, len(si))
        cols, j = [], 0
        for f in inputs:
            if f == "prev_hedge":
                cols.append(prev_u)
            else:
                cols.append(x_si[..., j:j + 1])
                j += 1
        prev_u = model(torch.cat(cols, dim=-1))     # (N, 1, H)
        units.append(prev_u[:, 0, :])
    wealth = spots[0].new_zeros((N,))
    for h, inst in enumerate(hedge):
        s_, pos = spots[h], spots[0].new_zeros((N,))
        for i in range(T - 1):
            u = units[i][:, h]
            wealth = wealth - inst.cost * s_[:, i] * (u - pos).abs() + u * (s_[:, i + 1] - s_[:, i])
            pos = u
    return wealth


_SW_W0 = [F(-1), F(-1, 2), F(1, 4), F(1, 2), F(1), F(3, 4)]


def hedger_stepwise_section(ctx, torch, nn):
    """Hedger.price against minus the cash amount of (hedge portfolio built step by step from the module's outputs - payoff) on the simulated
    paths: hedgers whose features are all state-independent (the library evaluates the module on all time steps at once) and hedgers with
    "prev_hedge" (step by step), H in {1, 2, 3} hedging instruments (the underlier, other stocks, options listed with a linear or a
    Black-Scholes pricer on the underlier or on another stock, with cost rates), modules whose outputs differ per instrument and per time
    step (a Linear layer, a user module), every criterion of this file.  Every (prev_hedge?, H, criterion) triple runs on every tier."""
    from pfhedge.instruments import BrownianStock, EuropeanOption, LookbackOption
    from pfhedge.nn import Hedger
    g = ctx.gen
    dt = torch.float64
    crits = ("erm", "es", "eloss", "qcvar", "iso")
    todo = [(prev, nh, which) for prev in (False, True) for nh in (1, 2, 3) for which in crits]
    for _ in range(10 if ctx.tier == "quick" else 300):
        todo.append((g.chance(0.5), g.choice([1, 2, 2, 3]), g.choice(crits)))

    class Legs(torch.nn.Module):          # a user module: hedge ratio of instrument h = shift_h + scale_h * tanh(w_h . features + b_h)
        def __init__(self, w, b, scale):
            super().__init__()
            self.register_buffer("w", w)
            self.register_buffer("b", b)
            self.register_buffer("scale", scale)

        def forward(self, input):
            return 0.25 * self.b + self.scale * torch.tanh(input @ self.w.T + self.b)

    for it, (prev, nh, which) in enumerate(todo):
        corpus = it < 30
        crit = {"erm": nn.EntropicRiskMeasure(g.choice([0.5, 1.0, 2.0])), "es": nn.ExpectedShortfall(g.choice([0.1, 0.5, 1.0])),
                "eloss": nn.EntropicLoss(g.choice([1.0, 1.5])), "qcvar": nn.QuadraticCVaR(g.choice([1.0, 10.0])), "iso": nn.IsoelasticLoss(0.5)}[which]
        costs = [g.choice([0.0, 2.0 ** -9, 2.0 ** -6]) for _ in range(nh)]
        n_steps = g.choice([2, 3, 5])
        mat = n_steps / 250
        stock = BrownianStock(cost=costs[0], sigma=g.choice([0.2, 0.3, 0.6]), dtype=dt)
        deriv = g.choice([EuropeanOption, LookbackOption])(stock, strike=g.choice([0.9, 1.0, 1.1]), maturity=mat)
        n_paths = g.choice([5, 50]) if corpus else g.choice([1, 2, 5, 50])
        n_times = g.choice([1, 1, 2, 3])
        seed = g.randint(0, 10 ** 6)
        kinds, hedge, others = ["underlier"], [stock], []
        for h in range(1, nh):
            kind = g.choice(["stock", "listed-linear", "listed-bs", "listed-linear-other"])
            kinds.append(kind)
            if kind == "stock":
                o = BrownianStock(cost=costs[h], sigma=0.25, dtype=dt)
                others.append(o)
            else:
                ul = stock
                if kind == "listed-linear-other":
                    ul = BrownianStock(sigma=0.25, dtype=dt)
                    others.append(ul)
                o = EuropeanOption(ul, strike=g.choice([1.0, 1.05]), maturity=mat)
                if kind == "listed-bs":
                    o.list(lambda d: nn.BlackScholes(d).price(log_moneyness=d.log_moneyness(), time_to_maturity=d.time_to_maturity(),
                                                              volatility=d.ul().volatility), cost=costs[h])
                else:
                    o.list(lambda d, a=g.choice([1.0, 2.0, 0.5]), b=g.choice([0.0, 1.0, -0.25]): d.ul().spot * a + b, cost=costs[h])
            hedge.append(o)
        # instruments that the derivative does not simulate keep the paths they are given here, for every batch
        torch.manual_seed(seed + 1)
        for o in others:
            o.simulate(n_paths=n_paths, time_horizon=deriv.maturity)
        inputs = [g.choice(["moneyness", "log_moneyness"])] + (["time_to_maturity"] if (not prev or g.chance(0.5)) else [])
        if prev:
            inputs.insert(g.randint(0, len(inputs)), "prev_hedge")
        colnames = [c_ for f in inputs for c_ in (["prev_hedge"] * nh if f == "prev_hedge" else [f])]
        nin = len(colnames)
        # rows that differ per instrument (bias and scale strictly increasing in h) and react to every state-independent feature; the weights
        # of the previous hedge are small enough for the position to stay bounded
        w = [[float(g.choice(_SW_W0)) * (0.25 if cn == "prev_hedge" else 1.0) for cn in colnames] for _ in range(nh)]
        b = [0.25 * (h + 1) * g.choice([1.0, -1.0]) for h in range(nh)]
        model_kind = g.choice(["linear", "user-module"])
        if model_kind == "linear":
            model = torch.nn.Linear(nin, nh, dtype=dt)
            with torch.no_grad():
                model.weight.copy_(torch.tensor(w, dtype=dt))
                model.bias.copy_(torch.tensor(b, dtype=dt))
        else:
            model = Legs(torch.tensor(w, dtype=dt), torch.tensor(b, dtype=dt), torch.tensor([1.0 + 0.5 * h for h in range(nh)], dtype=dt))
        hedger = Hedger(model, inputs, criterion=crit)
        hedge_arg = None if (nh == 1 and g.chance(0.5)) else hedge
        case = {"criterion": which, "criterion_parameter": repr(crit), "features": inputs, "H": nh, "hedges": kinds, "costs": costs,
                "model": model_kind, "w": w, "b": b, "derivative": type(deriv).__name__, "strike": deriv.strike, "steps": n_steps,
                "sigma": stock.sigma, "n_paths": n_paths, "n_times": n_times, "seed": seed,
                "hedge_argument": "None" if hedge_arg is None else "list of the instruments"}
        if which == "iso":
            deriv.add_clause("pos", lambda d, p: p - 8.0)          # keep portfolio - payoff positive for the isoelastic utility
        ctx.case(case, True, tag="price:stepwise:prev_hedge" if prev else "price:stepwise")
        ctx.stats[f"price:stepwise:{which}"] += 1
        ctx.stats[f"price:stepwise:H={nh}:{'prev_hedge' if prev else 'state-independent'}"] += 1
        ctx.traces += 1
        torch.manual_seed(seed)
        st, price, _ = call_impl(hedger.price, deriv, hedge=hedge_arg, n_paths=n_paths, n_times=n_times)
        if st != "ok":
            ctx.fail("Hedger.price raised (several hedging instruments / a module with one output per instrument)", case,
                     key=f"price:{which}:stepwise:error", detail=price)
            continue
        torch.manual_seed(seed)
        vals = []
        with torch.no_grad():
            for _ in range(n_times):
                deriv.simulate(n_paths=n_paths)
                wealth = stepwise_portfolio(torch, Hedger, nn, model, inputs, deriv, hedge)
                vals.append(float(-crit.cash(wealth - deriv.payoff())))
        exp = sum(vals) / n_times
        # same tolerances as the wealth predicate of the single-instrument section (dyadic cost rates; summation order only)
        tolw = 1e-9 if which in ("erm", "es", "eloss") else 2e-5
        if not abs(float(price) - exp) <= tolw * max(1.0, abs(exp)):
            ctx.fail("Hedger.price differs from minus the cash amount of (hedge portfolio - payoff) on the simulated paths, the hedge portfolio "
                     "being built from the module's own outputs: the module evaluated step by step on the features of each step, instrument h "
                     "holding output h, gains minus proportional costs summed over instruments and steps", case,
                     key=f"price:{which}:stepwise:prev-hedge" if prev else f"price:{which}:stepwise", detail={"price": float(price), "expected": exp})


# ---- non-commuting clauses registered under names in non-alphabetical order ------------------------------------------------------------

_ORDER_FAMILIES = ["knockout+bonus", "scale+cap", "rebate-floor+fee", "participation+knockin+coupon", "c9+c10"]


def clause_order_section(ctx, torch, nn):
    """Derivatives with two or more NON-COMMUTING clauses whose names are not in alphabetical order (knock-out then bonus, scale then cap,
    floor then fee, "c9" then "c10" ...), on paths where the clauses bite (barriers at the median of the running extremum of the first
    simulated batch).  Clauses modify the payoff one after another in the order in which they were added, so the contractual payoff is
    payoff_fn() passed BY HAND through the harness's own list of the clauses, in the order of registration.  Predicates on the real code:
    payoff() is that payoff; Hedger.price = -cash(portfolio - contractual payoff) and Hedger.compute_loss = criterion(portfolio - contractual
    payoff) on the simulated paths; ERM price = loss; and a constant k added as the LAST registered clause, under a name that sorts before
    every other name, raises the price by exactly k.  Hedger and a user subclass of Hedger; every (family, criterion) pair on every tier."""
    from pfhedge.instruments import BrownianStock, EuropeanOption, LookbackOption
    from pfhedge.nn import Hedger
    g = ctx.gen
    dt = torch.float64
    crits = ("erm", "es", "eloss", "qcvar", "iso")
    todo = [(fam, which) for fam in _ORDER_FAMILIES for which in crits]
    for _ in range(5 if ctx.tier == "quick" else 200):
        todo.append((g.choice(_ORDER_FAMILIES), g.choice(crits)))
    for fam, which in todo:
        crit = {"erm": nn.EntropicRiskMeasure(g.choice([0.5, 1.0, 2.0])), "es": nn.ExpectedShortfall(g.choice([0.1, 0.5, 1.0])),
                "eloss": nn.EntropicLoss(g.choice([1.0, 1.5])), "qcvar": nn.QuadraticCVaR(g.choice([1.0, 10.0])), "iso": nn.IsoelasticLoss(0.5)}[which]
        cost_rate = g.choice([0.0, 2.0 ** -9, 2.0 ** -6])
        stock = BrownianStock(cost=cost_rate, sigma=g.choice([0.2, 0.3]), dtype=dt)
        n_steps = g.choice([3, 5, 20])
        strike = {"knockout+bonus": 1.0, "scale+cap": 0.9, "rebate-floor+fee": 1.1, "participation+knockin+coupon": 0.9, "c9+c10": 0.9}[fam]
        deriv = g.choice([EuropeanOption, LookbackOption])(stock, strike=strike, maturity=n_steps / 250)
        n_paths, n_times = g.choice([5, 20, 50]), g.choice([1, 1, 2, 3])
        seed = g.randint(0, 10 ** 6)
        # the barrier levels are contractual terms fixed before pricing: the median of the running maximum / minimum of the first batch
        torch.manual_seed(seed)
        deriv.simulate(n_paths=n_paths)
        hi, lo = sorted(stock.spot.max(-1).values.tolist()), sorted(stock.spot.min(-1).values.tolist())
        up = (hi[(n_paths - 1) // 2] + hi[(n_paths - 1) // 2 + 1]) / 2
        down = (lo[(n_paths - 1) // 2] + lo[(n_paths - 1) // 2 + 1]) / 2
        kb = g.choice([0.25, -0.125, 0.5])
        if fam == "knockout+bonus":
            regs = [("knockout", f"0 where max spot > {up!r}", lambda d, p: torch.where(d.ul().spot.max(-1).values > up, torch.zeros_like(p), p)),
                    ("bonus", f"+ {kb}", lambda d, p: p + kb)]
        elif fam == "scale+cap":
            regs = [("scale", "* 2", lambda d, p: 2.0 * p), ("cap", "min(., 1/32)", lambda d, p: p.clamp(max=1 / 32))]
        elif fam == "rebate-floor+fee":
            regs = [("rebate-floor", "max(., 1/64)", lambda d, p: p.clamp(min=1 / 64)), ("fee", f"- {abs(kb)}", lambda d, p: p - abs(kb))]
        elif fam == "participation+knockin+coupon":
            regs = [("participation", "* 0.5", lambda d, p: 0.5 * p),
                    ("knockin", f"0 unless min spot < {down!r}", lambda d, p: torch.where(d.ul().spot.min(-1).values < down, p, torch.zeros_like(p))),
                    ("coupon", f"+ {kb}", lambda d, p: p + kb)]
        else:       # names numbered by the user: "c9" is registered before "c10" and sorts after it
            regs = [("c9", f"0 where max spot > {up!r}", lambda d, p: torch.where(d.ul().spot.max(-1).values > up, torch.zeros_like(p), p)),
                    ("c10", "* 0.5 + 0.125", lambda d, p: 0.5 * p + 0.125), ("c11", "max(., 0.13)", lambda d, p: p.clamp(min=0.13))]
        if which == "iso":
            regs.append(("Positive", "- 8", lambda d, p: p - 8.0))      # keep portfolio - payoff positive for the isoelastic utility
        for name, _, fn in regs:
            deriv.add_clause(name, fn)
        sub_kind = g.choice([None, None, "rebate", "both"])
        cls, par = Hedger, None
        if sub_kind:
            par = g.choice([0.25, -0.125])
            cls, _ = make_hedger_subclass(torch, Hedger, sub_kind, par)
        model_kind = g.choice(["linear", "bs"])
        if model_kind == "bs":
            bs = nn.BlackScholes(EuropeanOption(stock, strike=strike, maturity=n_steps / 250)).to(dt)
            hedger = cls(bs, bs.inputs(), criterion=crit)
        else:
            lin = torch.nn.Linear(2, 1, dtype=dt)
            with torch.no_grad():
                lin.weight.copy_(torch.tensor([[g.choice([0.5, -0.5, 1.0]), 0.25]], dtype=dt))
                lin.bias.copy_(torch.tensor([0.1], dtype=dt))
            hedger = cls(lin, ["moneyness", "time_to_maturity"], criterion=crit)
        hedge = g.choice([None, [stock]])
        k_shift = g.choice([0.25, 1.0, -0.5])
        k_name = g.choice(["adjustment", "0-add-on", "Bonus", "a"])        # sorts before every name registered so far
        case = {"clauses_in_order_of_registration": [[n_, txt] for n_, txt, _ in regs], "criterion": which, "criterion_parameter": repr(crit),
                "n_paths": n_paths, "n_times": n_times, "seed": seed, "derivative": type(deriv).__name__, "strike": strike, "steps": n_steps,
                "sigma": stock.sigma, "cost": cost_rate, "model": model_kind, "hedger": sub_kind or "Hedger", "subclass_parameter": par,
                "hedge_argument": "None" if hedge is None else "[underlier]", "k": k_shift, "k_clause_name": k_name}
        fns = [fn for _, _, fn in regs]
        by_name = [fn for _, _, fn in sorted(regs, key=lambda r: r[0])]

        def through(z, fs):
            for fn in fs:
                z = fn(deriv, z)
            return z
        torch.manual_seed(seed)
        st, price, _ = call_impl(hedger.price, deriv, hedge=hedge, n_paths=n_paths, n_times=n_times)
        torch.manual_seed(seed)
        stl, loss, _ = call_impl(hedger.compute_loss, deriv, hedge=hedge, n_paths=n_paths, n_times=n_times, enable_grad=False)
        # the same paths: the contractual payoff by hand
        torch.manual_seed(seed)
        vals, losses, payoff_bad, matters = [], [], None, False
        with torch.no_grad():
            for _ in range(n_times):
                deriv.simulate(n_paths=n_paths)
                z = through(deriv.payoff_fn(), fns)
                matters = matters or not torch.equal(z, through(deriv.payoff_fn(), by_name))
                pf = hedger.compute_portfolio(deriv, hedge)
                vals.append(float(-crit.cash(pf - z)))
                losses.append(float(crit(pf - z)))
                if payoff_bad is None and not torch.equal(deriv.payoff(), z):
                    payoff_bad = {"payoff()": deriv.payoff().tolist()[:8], "payoff_fn() through the clauses in the order of registration": z.tolist()[:8]}
        ctx.case(case, matters, tag=f"price:clause_order:{fam}")
        ctx.stats[f"price:clause-order:{which}"] += 1
        ctx.stats[f"price:clause-order:{'order-matters' if matters else 'order-immaterial-on-these-paths'}"] += 1
        ctx.traces += 1
        if payoff_bad is not None:
            ctx.fail("clauses registered under names that are not in alphabetical order: payoff() is not payoff_fn() passed through the clauses in "
                     "the order in which they were added (the price is quoted for a payoff that is not the contractual one)", case,
                     key="price:clause-order:payoff", detail=payoff_bad)
        if st != "ok" or stl != "ok":
            ctx.fail("Hedger.price / Hedger.compute_loss raised for a derivative with several clauses", case, key=f"price:{which}:clause-order:error",
                     detail=[price if st != "ok" else "ok", loss if stl != "ok" else "ok"])
            continue
        exp, exp_l = sum(vals) / n_times, sum(losses) / n_times
        tolp = 1e-9 if which in ("erm", "es", "eloss") else 2e-5      # as in the sections above (root searches with precision 1e-6)
        if not abs(float(price) - exp) <= tolp * max(1.0, abs(exp)):
            ctx.fail("non-commuting clauses registered under names that are not in alphabetical order: Hedger.price differs from minus the cash "
                     "amount of (portfolio - contractual payoff) on the simulated paths, the contractual payoff being payoff_fn() passed by hand "
                     "through the clauses in the order of registration", case, key=f"price:{which}:clause-order:value",
                     detail={"price": float(price), "expected": exp})
        if not abs(float(loss) - exp_l) <= 1e-9 * max(1.0, abs(exp_l)):
            ctx.fail("non-commuting clauses registered under names that are not in alphabetical order: Hedger.compute_loss differs from the "
                     "criterion of (portfolio - contractual payoff) on the simulated paths", case, key=f"loss:{which}:clause-order:value",
                     detail={"loss": float(loss), "expected": exp_l})
        if which == "erm" and not abs(float(price) - float(loss)) <= 1e-9 * max(1.0, abs(exp)):
            ctx.fail("for the entropic risk measure the price differs from the loss (derivative with several clauses)", case,
                     key="price:erm:clause-order:loss", detail={"price": float(price), "loss": float(loss)})
        # the constant k as the LAST registered clause, under a name that sorts first: the contract pays (everything above) + k
        deriv.add_clause(k_name, lambda d, p, k=k_shift: p + k)
        torch.manual_seed(seed)
        st2, price2, _ = call_impl(hedger.price, deriv, hedge=hedge, n_paths=n_paths, n_times=n_times)
        if st2 != "ok" or not abs(float(price2) - (float(price) + k_shift)) <= tolp * max(1.0, abs(exp)):
            ctx.fail("adding a constant k to the payoff, as the last registered clause of a derivative with knock-out / cap / floor clauses (its "
                     "name sorts before theirs), does not raise the price by exactly k", case, key=f"price:{which}:clause-order:shift",
                     detail={"price": float(price), "k": k_shift, "price_shifted": float(price2) if st2 == "ok" else price2})


def check(ctx):
    torch, pfhedge = import_impl()
    import pfhedge.nn as nn
    from pfhedge.nn.modules.loss import OCE, HedgeLoss
    g = ctx.gen
    ctx.lean_gate()
    dt = torch.float64

    class PWL(HedgeLoss):           # user criterion relying on the default search
        def forward(self, input, target=0.0):
            x = input - target
            return (-x + torch.relu(-x)).mean(0)

    n = 3000 if ctx.tier == "quick" else 12000
    reqs, metas = [], []
    for it in range(n):
        which = g.choice(["erm", "eloss", "iso", "es", "qcvar", "pwl", "eloss_default"])
        smp = gen_sample(g, kind=g.weighted([("ties", 3), ("generic", 3), ("const", 2), ("heavy", 1), ("mixed", 2)]))
        N, M = smp["N"], smp["M"]
        cols = smp["cols"]
        if which == "iso":
            cols = [[abs(v) + F(1, 8) for v in c] for c in cols]
        x = torch.tensor([[float(cols[m][i]) for m in range(M)] for i in range(N)], dtype=dt)
        if M == 1 and g.chance(0.7):
            x = x[:, 0]
        tgt = g.choice([0.0, 0.0, 0.5, 8.0, -16.0])
        shifted = [[v - F(tgt) for v in c] for c in cols]
        if which == "iso" and tgt:
            tgt = 0.0
            shifted = cols
        case = {"which": which, "N": N, "M": M, "kind": smp["kind"], "cols": enc_rat(cols), "target": tgt, "shape": list(x.shape)}
        a = g.choice([0.5, 1.0, 2.0])
        if which == "erm":
            crit = nn.EntropicRiskMeasure(a)
        elif which == "eloss":
            crit = nn.EntropicLoss(a)
        elif which == "eloss_default":
            class ELossDefault(nn.EntropicLoss):      # same criterion, but relying on the base-class search
                cash = HedgeLoss.cash
            crit = ELossDefault(a)
        elif which == "iso":
            a = g.choice([1.0, 0.5, 0.25])
            crit = nn.IsoelasticLoss(a)
        elif which == "es":
            a = g.choice([0.1, 0.5, 0.3, 1.0, 1 / N])
            crit = nn.ExpectedShortfall(a)
        elif which == "qcvar":
            a = g.choice([1.0, 2.0, 10.0])
            crit = nn.QuadraticCVaR(a)
        else:
            crit = PWL()
        case["param"] = a
        if which == "eloss_default" and max(abs(float(v)) for c in shifted for v in c) * a > 600.0:
            # exp(-a x) leaves the float64 range: the criterion itself under/overflows (loss 0 or inf), which is outside the
            # model (DESIGN 5.4 "unmodelled"); such samples are counted, not evaluated
            ctx.stats["float_range_exceeded"] += 1
            continue
        ctx.stats[f"which={which}"] += 1
        ctx.stats[f"kind={smp['kind']}"] += 1
        ctx.stats[f"cols={'multi' if M > 1 else 'single'}"] += 1
        ctx.case(case, nontrivial=True, tag=which)
        ctx.traces += 1
        st, cash, mut = call_impl(crit.cash, x, tgt)
        if mut:
            ctx.mutated(f"{which}.cash", mut, case)
        if st != "ok":
            key = f"cash:{which}:error"
            what = "cash() raised on a valid P&L sample"
            if which in ("iso", "pwl", "eloss_default") and cash == "value_error" and all(len(set(c)) == 1 for c in shifted):
                key, what = "HedgeLoss.cash:constant-sample", "default cash() raises ValueError on a constant sample (bracket lower < upper fails)"
            ctx.fail(what, case, key=key, detail=cash)
            continue
        cv = [float(z) for z in cash.reshape(-1).tolist()]
        if len(cv) != M:
            ctx.fail("cash() does not return one amount per column", case, key=f"cash:{which}:shape", detail=list(cash.shape))
            continue
        with torch.no_grad():
            lx = [float(z) for z in crit(x, tgt).reshape(-1).tolist()]
        multi = M > 1 and which in ("iso", "pwl", "eloss_default")
        for m_, (col, c_, l_) in enumerate(zip(shifted, cv, lx)):
            colf = [float(v) for v in col]
            if not math.isfinite(c_):
                ctx.fail("cash() is not finite on a finite sample", case, key=f"cash:{which}:nonfinite", detail=c_)
                break
            if which == "qcvar":
                if abs(c_ + l_) > 1e-12 * max(1.0, abs(l_)):
                    ctx.fail("quadratic CVaR cash is not minus the risk", case, key="cash:qcvar:value", detail={"cash": c_, "risk": l_})
                    break
                continue
            with torch.no_grad():
                lc = float(crit(torch.full((N,), c_, dtype=dt)))
            # certainty equivalence, up to the search precision times the criterion's slope
            slope = max(1.0, abs(l_)) * (a if which in ("eloss", "eloss_default") else 2.0)
            tolv = 1e-9 * max(1.0, abs(l_)) if which in ("erm", "eloss", "es") else 3e-6 * slope
            key_multi = "HedgeLoss.cash:multi-column" if multi else None
            if abs(lc - l_) > tolv:
                ctx.fail("the criterion of a constant sample at cash() differs from the criterion of the sample", case | {"column": m_},
                         key=key_multi or f"cash:{which}:equivalence", detail={"cash": c_, "loss(cash)": lc, "loss(sample)": l_})
                break
            pt = 2e-6 * max(1.0, abs(c_))
            if not (min(colf) - pt <= c_ <= max(colf) + pt):
                ctx.fail("cash() lies outside [worst, best] outcome", case | {"column": m_}, key=key_multi or f"cash:{which}:range",
                         detail={"cash": c_, "min": min(colf), "max": max(colf)})
                break
            if c_ > sum(colf) / N + pt:
                ctx.fail("cash() of a risk-averse criterion exceeds the mean", case | {"column": m_}, key=key_multi or f"cash:{which}:mean",
                         detail={"cash": c_, "mean": sum(colf) / N})
                break
        # ---- model
        fcols = [[float(v) for v in c] for c in shifted]
        if which in ("erm", "eloss"):
            reqs.append({"op": "erm", "a": float_bits(a), "cols": enc_flt(fcols)})
            metas.append((which, case, cv))
        elif which == "es":
            pn = F(a) * N
            if not (abs(pn - round(pn)) <= F(1, 10 ** 9) and pn != round(pn)):
                reqs.append({"op": "es", "k": math.ceil(a * N), "cols": enc_rat(shifted)})
                metas.append((which, case, cv))
        elif which in ("iso", "pwl", "eloss_default"):
            spec = ["iso", float_bits(a), a == 1.0] if which == "iso" else (["pwl"] if which == "pwl" else ["eloss", float_bits(a)])
            reqs.append({"op": "cash_default", "loss": spec, "precision": float_bits(1e-6), "max_iter": 100000, "cols": enc_flt(fcols)})
            metas.append(("default", case, cv))
    try:
        outs = ctx.driver(reqs)
    except DriverBroken as e:
        ctx.ties_broken.append({"kind": "driver", "detail": str(e)[:1500]})
        outs = []
    for (which, case, cv), mo in zip(metas, outs):
        if which == "erm":
            mv = [-(float_of_bits(o["ok"])) if "ok" in o else None for o in mo["erm"]]
        elif which == "eloss":
            mv = [float_of_bits(o["ok"]) if "ok" in o else None for o in mo["eloss_cash"]]
        elif which == "es":
            mv = [-float(v) for v in dec_rat(mo["es"])]
        else:
            mv = [float_of_bits(o["ok"]) if "ok" in o else None for o in mo]
        tol = 2.5e-6 if which == "default" else 1e-10
        if not all(b is not None and abs(a_ - b) <= tol * max(1.0, abs(a_)) for a_, b in zip(cv, mv)):
            ctx.disagree("cash_" + which, case, cv, mv)
    # ---------------- Hedger.price
    from pfhedge.instruments import BrownianStock, EuropeanOption, LookbackOption
    from pfhedge.nn import Hedger
    for it in range(25 if ctx.tier == "quick" else 400):
        which = g.choice(["erm", "es", "eloss", "qcvar", "iso"])
        crit = {"erm": nn.EntropicRiskMeasure(g.choice([0.5, 1.0])), "es": nn.ExpectedShortfall(g.choice([0.1, 0.5])),
                "eloss": nn.EntropicLoss(1.0), "qcvar": nn.QuadraticCVaR(g.choice([1.0, 10.0])), "iso": nn.IsoelasticLoss(0.5)}[which]
        cost_rate = g.choice([0.0, 1e-3, 2.0 ** -9, 2.0 ** -6])
        stock = BrownianStock(cost=cost_rate, sigma=0.3, dtype=dt)
        deriv = g.choice([EuropeanOption, LookbackOption])(stock, strike=g.choice([0.9, 1.0]), maturity=5 / 250)
        k_shift = g.choice([0.25, 1.0, -0.5])
        model_kind = g.choice(["linear", "linear", "bs"])
        if model_kind == "bs":
            bs = nn.BlackScholes(deriv).to(dt)       # a model that trades: the delta moves with the simulated spot
            hedger = Hedger(bs, bs.inputs(), criterion=crit)
        else:
            lin = torch.nn.Linear(2, 1, dtype=dt)
            with torch.no_grad():
                lin.weight.copy_(torch.tensor([[0.5, 0.25]], dtype=dt))
                lin.bias.copy_(torch.tensor([0.1], dtype=dt))
            hedger = Hedger(lin, ["moneyness", "time_to_maturity"], criterion=crit)
        n_paths, n_times = g.choice([1, 5, 50]), g.choice([1, 1, 2, 3])
        seed = g.randint(0, 10 ** 6)
        case = {"criterion": which, "n_paths": n_paths, "n_times": n_times, "seed": seed, "derivative": type(deriv).__name__, "k": k_shift,
                "cost": cost_rate, "model": model_kind}
        if which == "iso":
            deriv.add_clause("pos", lambda d, p: p - 3.0)          # keep portfolio - payoff positive for the isoelastic utility
        torch.manual_seed(seed)
        st, price, _ = call_impl(hedger.price, deriv, n_paths=n_paths, n_times=n_times)
        ctx.case(case, True, tag="price")
        ctx.stats[f"price:{which}"] += 1
        ctx.traces += 1
        if st != "ok":
            ctx.fail("Hedger.price raised", case, key=f"price:{which}:error", detail=price)
            continue
        if price.requires_grad or price.grad_fn is not None:
            ctx.fail("Hedger.price carries an autograd graph by default", case, key="price:grad")
        # same paths, by hand: - cash(portfolio - payoff), averaged over n_times evaluations
        torch.manual_seed(seed)
        vals, losses, vals_w, traded = [], [], [], 0.0
        with torch.no_grad():
            for _ in range(n_times):
                deriv.simulate(n_paths=n_paths)
                pf = hedger.compute_portfolio(deriv)
                z = deriv.payoff()
                vals.append(float(-crit.cash(pf - z)))
                losses.append(float(crit(pf, z)))
                # the hedge portfolio written out (not through Hedger.compute_portfolio / functional.pl): gains of the hedge held
                # over each step minus the proportional cost, at the instrument's rate, of every change of the position
                s_, u_ = stock.spot, hedger.compute_hedge(deriv)[:, 0, :]
                wealth = torch.zeros(n_paths, dtype=dt) - stock.cost * s_[:, 0] * u_[:, 0].abs()
                for t_ in range(s_.size(1) - 1):
                    wealth = wealth + u_[:, t_] * (s_[:, t_ + 1] - s_[:, t_]) - stock.cost * s_[:, t_ + 1] * (u_[:, t_ + 1] - u_[:, t_]).abs()
                vals_w.append(float(-crit.cash(wealth - z)))
                traded = max(traded, float(u_[:, 0].abs().max()))
        exp = sum(vals) / n_times
        exp_w = sum(vals_w) / n_times
        ctx.stats[f"price:cost={'zero' if cost_rate == 0.0 else 'nonzero'}:{'trades' if traded > 0 else 'no-trade'}"] += 1
        # erm / es / eloss cash amounts are 1-Lipschitz in the sample (monotone, translation invariant) and the wealth above differs from
        # the library's by summation order and the float32 rounding of the cost rate (<= 6e-8 * cost paid): 1e-9.  The quadratic CVaR and
        # the default search (iso) solve for a root with precision 1e-6: same tolerance as the shift predicate below.
        tolw = 1e-9 if which in ("erm", "es", "eloss") else 2e-5
        if abs(float(price) - exp_w) > tolw * max(1.0, abs(exp_w)):
            ctx.fail("Hedger.price differs from minus the cash amount of (hedge gains - transaction costs at the instrument's rate - payoff) "
                     "written out on the simulated paths", case, key=f"price:{which}:wealth" if cost_rate == 0.0 else f"price:{which}:wealth-with-cost",
                     detail={"price": float(price), "expected": exp_w, "cost": cost_rate})
        if abs(float(price) - exp) > 1e-9 * max(1.0, abs(exp)):
            ctx.fail("Hedger.price differs from minus the cash amount of (portfolio - payoff) on the simulated paths", case,
                     key=f"price:{which}:value", detail={"price": float(price), "expected": exp})
        if which == "erm" and abs(float(price) - sum(losses) / n_times) > 1e-9 * max(1.0, abs(exp)):
            ctx.fail("for the entropic risk measure the price differs from the loss", case, key="price:erm:loss",
                     detail={"price": float(price), "loss": sum(losses) / n_times})
        if which != "iso":
            deriv.add_clause("shift", lambda d, p, k=k_shift: p + k)
            torch.manual_seed(seed)
            st2, price2, _ = call_impl(hedger.price, deriv, n_paths=n_paths, n_times=n_times)
            tolp = 1e-9 if which in ("erm", "es", "eloss") else 2e-5
            if st2 != "ok" or abs(float(price2) - (float(price) + k_shift)) > tolp * max(1.0, abs(exp)):
                ctx.fail("adding a constant k to the payoff does not raise the price by exactly k", case, key=f"price:{which}:shift",
                         detail={"price": float(price), "price_shifted": float(price2) if st2 == "ok" else price2})
        # ---- the clause that carries the constant is REGISTERED AGAIN under its name with another constant (a contractual term of an existing
        # derivative object is updated): the price follows the current clause.  Without the clause the payoff is payoff_fn(), so with the
        # constant k_new in force the price is the price without the clause plus k_new (isoelastic: the price at -3 plus k_new + 3), it is
        # minus the cash amount of (portfolio - (payoff_fn() + k_new)) on the simulated paths, and for the entropic risk measure it is the loss.
        name, k_old = ("pos", -3.0) if which == "iso" else ("shift", 0.0)
        k_new = -3.0 + g.choice([0.5, -0.5, -1.0]) if which == "iso" else g.choice([x for x in (0.25, 1.0, -0.5, 0.75, -1.25) if x != k_shift])
        rcase = case | {"re_registered_clause": name, "k_new": k_new}
        deriv.add_clause(name, lambda d, p, k=k_new: p + k)
        torch.manual_seed(seed)
        st3, price3, _ = call_impl(hedger.price, deriv, n_paths=n_paths, n_times=n_times)
        torch.manual_seed(seed)
        st3l, loss3, _ = call_impl(hedger.compute_loss, deriv, n_paths=n_paths, n_times=n_times, enable_grad=False)
        ctx.case(rcase, True, tag="price:reregistered_clause")
        ctx.traces += 1
        if st3 != "ok" or st3l != "ok":
            ctx.fail("Hedger.price / compute_loss raised after a clause was registered again under its name", rcase,
                     key=f"price:{which}:reregistered-clause:error", detail=[price3 if st3 != "ok" else "ok", loss3 if st3l != "ok" else "ok"])
            continue
        tolp = 1e-9 if which in ("erm", "es", "eloss") else 2e-5
        if abs(float(price3) - (float(price) + k_new - k_old)) > tolp * max(1.0, abs(exp)):
            ctx.fail("a clause adding a constant to the payoff was registered again under its name with the constant k_new: the price does not "
                     "follow the current clause (it is not the price for the constant k_old plus k_new - k_old)", rcase,
                     key=f"price:{which}:reregistered-clause:shift",
                     detail={"price_k_old": float(price), "k_old": k_old, "k_new": k_new, "price_k_new": float(price3)})
        torch.manual_seed(seed)
        vals3, payoff_bad = [], None
        with torch.no_grad():
            for _ in range(n_times):
                deriv.simulate(n_paths=n_paths)
                z = deriv.payoff_fn() + k_new          # the contractual payoff, written out
                vals3.append(float(-crit.cash(hedger.compute_portfolio(deriv) - z)))
                if payoff_bad is None and not torch.equal(deriv.payoff(), z):
                    payoff_bad = {"payoff()": deriv.payoff().tolist()[:8], "payoff_fn() + k_new": z.tolist()[:8]}
        exp3 = sum(vals3) / n_times
        if payoff_bad is not None:
            ctx.fail("after the clause was registered again under its name, payoff() is not payoff_fn() + k_new (the price is quoted for a payoff "
                     "that is no longer the contractual one)", rcase, key="price:reregistered-clause:payoff", detail=payoff_bad)
        if abs(float(price3) - exp3) > tolp * max(1.0, abs(exp3)):
            ctx.fail("after the clause was registered again under its name, Hedger.price differs from minus the cash amount of "
                     "(portfolio - (payoff_fn() + k_new)) on the simulated paths", rcase, key=f"price:{which}:reregistered-clause:value",
                     detail={"price": float(price3), "expected": exp3})
        if which == "erm" and abs(float(price3) - float(loss3)) > 1e-9 * max(1.0, abs(exp3)):
            ctx.fail("for the entropic risk measure the price differs from the loss (after a clause was registered again)", rcase,
                     key="price:erm:reregistered-clause:loss", detail={"price": float(price3), "loss": float(loss3)})
    hedger_price_section(ctx, torch, nn)
    hedger_subclass_section(ctx, torch, nn)
    hedger_stepwise_section(ctx, torch, nn)
    clause_order_section(ctx, torch, nn)
    return ctx.finish(
        rule="criteria {EntropicRiskMeasure, EntropicLoss, IsoelasticLoss, ExpectedShortfall, QuadraticCVaR, user subclass and EntropicLoss forced "
             "through the default search} on (N,) and (N,M) samples incl. constants and ties, targets; Hedger.price with frozen seeds, n_times in "
             "{1,2,3}, cost rates {0, 1e-3, 2^-9, 2^-6}, linear / Black-Scholes hedges, payoff shifts through a clause, the clause registered again "
             "under its name with another constant (and sequences of registrations with repeated names in the composed-model scenarios); "
             "Hedger.price and Hedger.compute_loss against the composed model hedgerPriceN / hedgerLossN (op hedger_price): H in 1..3 with primary / listed / "
             "self-listed hedges and dyadic cost rates, linear / ReLU / prev_hedge / Naked modules, cap / floor / affine clauses, n_times 1..3, "
             "expected shortfall exact on the rational values of the simulated float64 buffers, entropic criteria on the IEEE replica; "
             "user subclasses of Hedger (compute_portfolio with a financing charge / rebate / own book-keeping, compute_pl only, both, compute_hedge "
             "with position limits; a flat fee in the composed-model scenarios, sent to op hedger_price as a last clause) x every criterion: price "
             "= -cash(its portfolio - payoff), also written out, payoff shift, ERM price = loss; "
             "price = -cash(portfolio built step by step from the module's own outputs - payoff): {state-independent features, prev_hedge} x H in "
             "{1,2,3} (underlier, other stocks, options listed with linear / Black-Scholes pricers, dyadic cost rates) x {Linear, user module} x "
             "every criterion on every tier, and in every composed-model scenario; "
             "non-commuting clauses registered under names in non-alphabetical order (knock-out then bonus, scale then cap, floor then fee, "
             "participation / knock-in / coupon, c9 before c10; barriers at the median running extremum of the first batch) x every criterion: "
             "payoff() and price / loss against the contractual payoff applied by hand in registration order, shift by k through a last-registered "
             "clause whose name sorts first; the same class (cap / floor / affine) in the composed-model scenarios; "
             "every case non-trivial except modules of the wrong width (error agreement); distinct = sha1 of canonical case")
