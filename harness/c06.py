"""C06 — cash() is the certainty equivalent and price() the indifference price.

correspondence: closed-form cash overrides and the default search (IsoelasticLoss, EntropicLoss via
the base class, a user subclass, OCE) vs the Lean model (Model/Risk.lean: cashNeg, entropicLossCash,
cashDefault; Float carrier), and Hedger.price vs `priceOf` on the same simulated paths.
predicate (real code): criterion(constant sample at cash) == criterion(sample), min <= cash <= max,
cash <= mean for risk-averse criteria, QCVaR cash = -risk, price = -cash(portfolio - payoff) with the portfolio both from
Hedger.compute_portfolio and written out (hedge gains minus proportional costs at the instrument's rate; linear and Black-Scholes hedges),
price(payoff + k) = price(payoff) + k under the same seed, ERM price = loss.
"""
import math
from fractions import Fraction as F
from common import *  # noqa
from risk_common import *  # noqa


def check(ctx):
    torch, pfhedge = import_impl()
    import pfhedge.nn as nn
    from pfhedge.nn.modules.loss import OCE, HedgeLoss
    g = ctx.gen
    ctx.lean_gate()
    dt = torch.float64

    class PWL(HedgeLoss):           # user criterion relying on the default search
        def forward(self, input, target=0.0):
            x = input - target
            return (-x + torch.relu(-x)).mean(0)

    n = 3000 if ctx.tier == "quick" else 12000
    reqs, metas = [], []
    for it in range(n):
        which = g.choice(["erm", "eloss", "iso", "es", "qcvar", "pwl", "eloss_default"])
        smp = gen_sample(g, kind=g.weighted([("ties", 3), ("generic", 3), ("const", 2), ("heavy", 1), ("mixed", 2)]))
        N, M = smp["N"], smp["M"]
        cols = smp["cols"]
        if which == "iso":
            cols = [[abs(v) + F(1, 8) for v in c] for c in cols]
        x = torch.tensor([[float(cols[m][i]) for m in range(M)] for i in range(N)], dtype=dt)
        if M == 1 and g.chance(0.7):
            x = x[:, 0]
        tgt = g.choice([0.0, 0.0, 0.5, 8.0, -16.0])
        shifted = [[v - F(tgt) for v in c] for c in cols]
        if which == "iso" and tgt:
            tgt = 0.0
            shifted = cols
        case = {"which": which, "N": N, "M": M, "kind": smp["kind"], "cols": enc_rat(cols), "target": tgt, "shape": list(x.shape)}
        a = g.choice([0.5, 1.0, 2.0])
        if which == "erm":
            crit = nn.EntropicRiskMeasure(a)
        elif which == "eloss":
            crit = nn.EntropicLoss(a)
        elif which == "eloss_default":
            class ELossDefault(nn.EntropicLoss):      # same criterion, but relying on the base-class search
                cash = HedgeLoss.cash
            crit = ELossDefault(a)
        elif which == "iso":
            a = g.choice([1.0, 0.5, 0.25])
            crit = nn.IsoelasticLoss(a)
        elif which == "es":
            a = g.choice([0.1, 0.5, 0.3, 1.0, 1 / N])
            crit = nn.ExpectedShortfall(a)
        elif which == "qcvar":
            a = g.choice([1.0, 2.0, 10.0])
            crit = nn.QuadraticCVaR(a)
        else:
            crit = PWL()
        case["param"] = a
        if which == "eloss_default" and max(abs(float(v)) for c in shifted for v in c) * a > 600.0:
            # exp(-a x) leaves the float64 range: the criterion itself under/overflows (loss 0 or inf), which is outside the
            # model (DESIGN 5.4 "unmodelled"); such samples are counted, not evaluated
            ctx.stats["float_range_exceeded"] += 1
            continue
        ctx.stats[f"which={which}"] += 1
        ctx.stats[f"kind={smp['kind']}"] += 1
        ctx.stats[f"cols={'multi' if M > 1 else 'single'}"] += 1
        ctx.case(case, nontrivial=True, tag=which)
        ctx.traces += 1
        st, cash, mut = call_impl(crit.cash, x, tgt)
        if mut:
            ctx.mutated(f"{which}.cash", mut, case)
        if st != "ok":
            key = f"cash:{which}:error"
            what = "cash() raised on a valid P&L sample"
            if which in ("iso", "pwl", "eloss_default") and cash == "value_error" and all(len(set(c)) == 1 for c in shifted):
                key, what = "HedgeLoss.cash:constant-sample", "default cash() raises ValueError on a constant sample (bracket lower < upper fails)"
            ctx.fail(what, case, key=key, detail=cash)
            continue
        cv = [float(z) for z in cash.reshape(-1).tolist()]
        if len(cv) != M:
            ctx.fail("cash() does not return one amount per column", case, key=f"cash:{which}:shape", detail=list(cash.shape))
            continue
        with torch.no_grad():
            lx = [float(z) for z in crit(x, tgt).reshape(-1).tolist()]
        multi = M > 1 and which in ("iso", "pwl", "eloss_default")
        for m_, (col, c_, l_) in enumerate(zip(shifted, cv, lx)):
            colf = [float(v) for v in col]
            if not math.isfinite(c_):
                ctx.fail("cash() is not finite on a finite sample", case, key=f"cash:{which}:nonfinite", detail=c_)
                break
            if which == "qcvar":
                if abs(c_ + l_) > 1e-12 * max(1.0, abs(l_)):
                    ctx.fail("quadratic CVaR cash is not minus the risk", case, key="cash:qcvar:value", detail={"cash": c_, "risk": l_})
                    break
                continue
            with torch.no_grad():
                lc = float(crit(torch.full((N,), c_, dtype=dt)))
            # certainty equivalence, up to the search precision times the criterion's slope
            slope = max(1.0, abs(l_)) * (a if which in ("eloss", "eloss_default") else 2.0)
            tolv = 1e-9 * max(1.0, abs(l_)) if which in ("erm", "eloss", "es") else 3e-6 * slope
            key_multi = "HedgeLoss.cash:multi-column" if multi else None
            if abs(lc - l_) > tolv:
                ctx.fail("the criterion of a constant sample at cash() differs from the criterion of the sample", case | {"column": m_},
                         key=key_multi or f"cash:{which}:equivalence", detail={"cash": c_, "loss(cash)": lc, "loss(sample)": l_})
                break
            pt = 2e-6 * max(1.0, abs(c_))
            if not (min(colf) - pt <= c_ <= max(colf) + pt):
                ctx.fail("cash() lies outside [worst, best] outcome", case | {"column": m_}, key=key_multi or f"cash:{which}:range",
                         detail={"cash": c_, "min": min(colf), "max": max(colf)})
                break
            if c_ > sum(colf) / N + pt:
                ctx.fail("cash() of a risk-averse criterion exceeds the mean", case | {"column": m_}, key=key_multi or f"cash:{which}:mean",
                         detail={"cash": c_, "mean": sum(colf) / N})
                break
        # ---- model
        fcols = [[float(v) for v in c] for c in shifted]
        if which in ("erm", "eloss"):
            reqs.append({"op": "erm", "a": float_bits(a), "cols": enc_flt(fcols)})
            metas.append((which, case, cv))
        elif which == "es":
            pn = F(a) * N
            if not (abs(pn - round(pn)) <= F(1, 10 ** 9) and pn != round(pn)):
                reqs.append({"op": "es", "k": math.ceil(a * N), "cols": enc_rat(shifted)})
                metas.append((which, case, cv))
        elif which in ("iso", "pwl", "eloss_default"):
            spec = ["iso", float_bits(a), a == 1.0] if which == "iso" else (["pwl"] if which == "pwl" else ["eloss", float_bits(a)])
            reqs.append({"op": "cash_default", "loss": spec, "precision": float_bits(1e-6), "max_iter": 100000, "cols": enc_flt(fcols)})
            metas.append(("default", case, cv))
    try:
        outs = ctx.driver(reqs)
    except DriverBroken as e:
        ctx.ties_broken.append({"kind": "driver", "detail": str(e)[:1500]})
        outs = []
    for (which, case, cv), mo in zip(metas, outs):
        if which == "erm":
            mv = [-(float_of_bits(o["ok"])) if "ok" in o else None for o in mo["erm"]]
        elif which == "eloss":
            mv = [float_of_bits(o["ok"]) if "ok" in o else None for o in mo["eloss_cash"]]
        elif which == "es":
            mv = [-float(v) for v in dec_rat(mo["es"])]
        else:
            mv = [float_of_bits(o["ok"]) if "ok" in o else None for o in mo]
        tol = 2.5e-6 if which == "default" else 1e-10
        if not all(b is not None and abs(a_ - b) <= tol * max(1.0, abs(a_)) for a_, b in zip(cv, mv)):
            ctx.disagree("cash_" + which, case, cv, mv)
    # ---------------- Hedger.price
    from pfhedge.instruments import BrownianStock, EuropeanOption, LookbackOption
    from pfhedge.nn import Hedger
    for it in range(25 if ctx.tier == "quick" else 400):
        which = g.choice(["erm", "es", "eloss", "qcvar", "iso"])
        crit = {"erm": nn.EntropicRiskMeasure(g.choice([0.5, 1.0])), "es": nn.ExpectedShortfall(g.choice([0.1, 0.5])),
                "eloss": nn.EntropicLoss(1.0), "qcvar": nn.QuadraticCVaR(g.choice([1.0, 10.0])), "iso": nn.IsoelasticLoss(0.5)}[which]
        cost_rate = g.choice([0.0, 1e-3, 2.0 ** -9, 2.0 ** -6])
        stock = BrownianStock(cost=cost_rate, sigma=0.3, dtype=dt)
        deriv = g.choice([EuropeanOption, LookbackOption])(stock, strike=g.choice([0.9, 1.0]), maturity=5 / 250)
        k_shift = g.choice([0.25, 1.0, -0.5])
        model_kind = g.choice(["linear", "linear", "bs"])
        if model_kind == "bs":
            bs = nn.BlackScholes(deriv).to(dt)       # a model that trades: the delta moves with the simulated spot
            hedger = Hedger(bs, bs.inputs(), criterion=crit)
        else:
            lin = torch.nn.Linear(2, 1, dtype=dt)
            with torch.no_grad():
                lin.weight.copy_(torch.tensor([[0.5, 0.25]], dtype=dt))
                lin.bias.copy_(torch.tensor([0.1], dtype=dt))
            hedger = Hedger(lin, ["moneyness", "time_to_maturity"], criterion=crit)
        n_paths, n_times = g.choice([1, 5, 50]), g.choice([1, 1, 2, 3])
        seed = g.randint(0, 10 ** 6)
        case = {"criterion": which, "n_paths": n_paths, "n_times": n_times, "seed": seed, "derivative": type(deriv).__name__, "k": k_shift,
                "cost": cost_rate, "model": model_kind}
        if which == "iso":
            deriv.add_clause("pos", lambda d, p: p - 3.0)          # keep portfolio - payoff positive for the isoelastic utility
        torch.manual_seed(seed)
        st, price, _ = call_impl(hedger.price, deriv, n_paths=n_paths, n_times=n_times)
        ctx.case(case, True, tag="price")
        ctx.stats[f"price:{which}"] += 1
        ctx.traces += 1
        if st != "ok":
            ctx.fail("Hedger.price raised", case, key=f"price:{which}:error", detail=price)
            continue
        if price.requires_grad or price.grad_fn is not None:
            ctx.fail("Hedger.price carries an autograd graph by default", case, key="price:grad")
        # same paths, by hand: - cash(portfolio - payoff), averaged over n_times evaluations
        torch.manual_seed(seed)
        vals, losses, vals_w, traded = [], [], [], 0.0
        with torch.no_grad():
            for _ in range(n_times):
                deriv.simulate(n_paths=n_paths)
                pf = hedger.compute_portfolio(deriv)
                z = deriv.payoff()
                vals.append(float(-crit.cash(pf - z)))
                losses.append(float(crit(pf, z)))
                # the hedge portfolio written out (not through Hedger.compute_portfolio / functional.pl): gains of the hedge held
                # over each step minus the proportional cost, at the instrument's rate, of every change of the position
                s_, u_ = stock.spot, hedger.compute_hedge(deriv)[:, 0, :]
                wealth = torch.zeros(n_paths, dtype=dt) - stock.cost * s_[:, 0] * u_[:, 0].abs()
                for t_ in range(s_.size(1) - 1):
                    wealth = wealth + u_[:, t_] * (s_[:, t_ + 1] - s_[:, t_]) - stock.cost * s_[:, t_ + 1] * (u_[:, t_ + 1] - u_[:, t_]).abs()
                vals_w.append(float(-crit.cash(wealth - z)))
                traded = max(traded, float(u_[:, 0].abs().max()))
        exp = sum(vals) / n_times
        exp_w = sum(vals_w) / n_times
        ctx.stats[f"price:cost={'zero' if cost_rate == 0.0 else 'nonzero'}:{'trades' if traded > 0 else 'no-trade'}"] += 1
        # erm / es / eloss cash amounts are 1-Lipschitz in the sample (monotone, translation invariant) and the wealth above differs from
        # the library's by summation order and the float32 rounding of the cost rate (<= 6e-8 * cost paid): 1e-9.  The quadratic CVaR and
        # the default search (iso) solve for a root with precision 1e-6: same tolerance as the shift predicate below.
        tolw = 1e-9 if which in ("erm", "es", "eloss") else 2e-5
        if abs(float(price) - exp_w) > tolw * max(1.0, abs(exp_w)):
            ctx.fail("Hedger.price differs from minus the cash amount of (hedge gains - transaction costs at the instrument's rate - payoff) "
                     "written out on the simulated paths", case, key=f"price:{which}:wealth" if cost_rate == 0.0 else f"price:{which}:wealth-with-cost",
                     detail={"price": float(price), "expected": exp_w, "cost": cost_rate})
        if abs(float(price) - exp) > 1e-9 * max(1.0, abs(exp)):
            ctx.fail("Hedger.price differs from minus the cash amount of (portfolio - payoff) on the simulated paths", case,
                     key=f"price:{which}:value", detail={"price": float(price), "expected": exp})
        if which == "erm" and abs(float(price) - sum(losses) / n_times) > 1e-9 * max(1.0, abs(exp)):
            ctx.fail("for the entropic risk measure the price differs from the loss", case, key="price:erm:loss",
                     detail={"price": float(price), "loss": sum(losses) / n_times})
        if which != "iso":
            deriv.add_clause("shift", lambda d, p, k=k_shift: p + k)
            torch.manual_seed(seed)
            st2, price2, _ = call_impl(hedger.price, deriv, n_paths=n_paths, n_times=n_times)
            tolp = 1e-9 if which in ("erm", "es", "eloss") else 2e-5
            if st2 != "ok" or abs(float(price2) - (float(price) + k_shift)) > tolp * max(1.0, abs(exp)):
                ctx.fail("adding a constant k to the payoff does not raise the price by exactly k", case, key=f"price:{which}:shift",
                         detail={"price": float(price), "price_shifted": float(price2) if st2 == "ok" else price2})
    return ctx.finish(
        rule="criteria {EntropicRiskMeasure, EntropicLoss, IsoelasticLoss, ExpectedShortfall, QuadraticCVaR, user subclass and EntropicLoss forced "
             "through the default search} on (N,) and (N,M) samples incl. constants and ties, targets; Hedger.price with frozen seeds, n_times in "
             "{1,2,3}, cost rates {0, 1e-3, 2^-9, 2^-6}, linear / Black-Scholes hedges, payoff shifts through a clause; every case non-trivial; distinct = sha1 of canonical case")
